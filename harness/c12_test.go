//go:build verif

package harness

import (
	"bytes"
	"context"
	"encoding/hex"
	"encoding/json"
	"fmt"
	"sort"
	"strconv"
	"strings"
	"testing"
	"time"

	"cosmossdk.io/log"
	sdkmath "cosmossdk.io/math"
	"cosmossdk.io/store"
	"cosmossdk.io/store/metrics"
	storetypes "cosmossdk.io/store/types"
	tmproto "github.com/cometbft/cometbft/proto/tendermint/types"
	tmdb "github.com/cosmos/cosmos-db"
	"github.com/cosmos/cosmos-sdk/codec"
	codectypes "github.com/cosmos/cosmos-sdk/codec/types"
	"github.com/cosmos/cosmos-sdk/crypto/keys/ed25519"
	"github.com/cosmos/cosmos-sdk/runtime"
	sdk "github.com/cosmos/cosmos-sdk/types"
	typesparams "github.com/cosmos/cosmos-sdk/x/params/types"
	stakingtypes "github.com/cosmos/cosmos-sdk/x/staking/types"
	"github.com/palomachain/paloma/v2/x/valset"
	valsetkeeper "github.com/palomachain/paloma/v2/x/valset/keeper"
	valsettypes "github.com/palomachain/paloma/v2/x/valset/types"
	"golang.org/x/mod/semver"
)

// C12 — keep-alive / inactivity jailing.  Model: lean/PalomaModel/Model/KeepAlive.lean.
//
// Two fixtures drive the REAL valset code with the same line protocol:
//   - "mock":  the real valset Keeper + AppModule (BeginBlock/EndBlock, msg server, gov handler) over a
//     fake staking/slashing view, so that validator addresses are ARBITRARY byte strings
//     (0x2c inside, all-0x2c, prefixes of one another, "hex:" prefixed, 1..32 bytes);
//   - "full":  the full application (c12_fullapp_test.go): real staking/slashing, signed txs.
// Block layout in both: pre actions (before BeginBlock), `beginblock`, txs, staking view changes
// (observed), `endblock`.

const (
	c12TTL        = 2000
	c12GraceLen   = 30
	c12DefaultMin = "v1.11.3"
)

var c12Schedule = []int64{int64(time.Minute), int64(5 * time.Minute), int64(15 * time.Minute), int64(time.Hour), int64(24 * time.Hour)}

// ---------------------------------------------------------------------------
// observations
// ---------------------------------------------------------------------------

type c12ValObs struct {
	addr                         []byte
	status                       string // b / u / n
	jailed                       bool
	power                        int64
	alive, grace, dur, at, until *int64
}

type c12Sched struct {
	ver    string
	target uint64
}

type c12Snap struct {
	vals    []c12ValObs // store order
	min     string
	sched   *c12Sched
	prev    []byte
	hasPrev bool
}

func c12Hex(b []byte) string { return "x" + hex.EncodeToString(b) }

func c12Blob(b []byte) string {
	for _, c := range b {
		if c < 33 || c > 126 {
			return c12Hex(b)
		}
	}
	return "t:" + string(b)
}

func c12Opt(p *int64) string {
	if p == nil {
		return "-"
	}
	return fmt.Sprint(*p)
}

func c12I(x int64) *int64 { return &x }

func c12Take2(b []byte) []byte {
	if len(b) > 2 {
		return b[:2]
	}
	return b
}

func (s *c12Snap) req() string {
	sch := "-"
	if s.sched != nil {
		sch = fmt.Sprintf("%s@%d", c12Hex([]byte(s.sched.ver)), s.sched.target)
	}
	return "min=" + c12Hex([]byte(s.min)) + " sched=" + sch
}

func (s *c12Snap) dump() string {
	vs := "-"
	if len(s.vals) > 0 {
		parts := make([]string, len(s.vals))
		for i, v := range s.vals {
			j := 0
			if v.jailed {
				j = 1
			}
			parts[i] = fmt.Sprintf("%s:%s:%d:%d:%s:%s:%s:%s:%s", c12Hex(c12Take2(v.addr)), v.status, j, v.power,
				c12Opt(v.alive), c12Opt(v.grace), c12Opt(v.dur), c12Opt(v.at), c12Opt(v.until))
		}
		vs = strings.Join(parts, ";")
	}
	return "vals=" + vs + " " + s.req()
}

func (s *c12Snap) prevStr() string {
	if !s.hasPrev {
		return "none"
	}
	return c12Blob(s.prev)
}

func (s *c12Snap) find(addr []byte) *c12ValObs {
	for i := range s.vals {
		if bytes.Equal(s.vals[i].addr, addr) {
			return &s.vals[i]
		}
	}
	return nil
}

// store layout of x/valset (keeper.go / keep_alive.go)
var (
	c12KeepAlivePrefix = []byte("keep-alive/")
	c12GracePrefix     = []byte("grace-period")
	c12PrevKey         = []byte("unjailed-snapshot" + "unjailed-validators-snapshot")
	c12JailLogPrefix   = []byte("IDs")
)

func c12Key(prefix, k []byte) []byte { return append(append([]byte(nil), prefix...), k...) }

// c12ReadVal fills the valset records of one validator from the raw valset store.
func c12ReadVal(kv storetypes.KVStore, o *c12ValObs, cons []byte) error {
	if bz := kv.Get(c12Key(c12KeepAlivePrefix, o.addr)); bz != nil {
		var d valsettypes.KeepAliveData
		if err := json.Unmarshal(bz, &d); err != nil {
			return err
		}
		o.alive = c12I(d.AliveUntilBlockHeight)
	}
	if bz := kv.Get(c12Key(c12GracePrefix, o.addr)); bz != nil {
		o.grace = c12I(int64(sdk.BigEndianToUint64(bz)))
	}
	if bz := kv.Get(c12Key(c12JailLogPrefix, cons)); bz != nil {
		var rec valsettypes.JailRecord
		if err := rec.Unmarshal(bz); err != nil {
			return err
		}
		o.dur, o.at = c12I(int64(rec.Duration)), c12I(rec.JailedAt.UnixNano())
	}
	return nil
}

func c12ReadReq(ctx sdk.Context, k valsetkeeper.Keeper, s *c12Snap) error {
	req, err := k.PigeonRequirements(ctx)
	if err != nil {
		return err
	}
	s.min = req.MinVersion
	if sch, err := k.ScheduledPigeonRequirements(ctx); err == nil && sch != nil {
		v := ""
		if sch.Requirements != nil {
			v = sch.Requirements.MinVersion
		}
		s.sched = &c12Sched{ver: v, target: sch.TargetBlockHeight}
	}
	return nil
}

func c12StatusStr(st stakingtypes.BondStatus) string {
	switch st {
	case stakingtypes.Bonded:
		return "b"
	case stakingtypes.Unbonding:
		return "u"
	default:
		return "n"
	}
}

// ---------------------------------------------------------------------------
// actions
// ---------------------------------------------------------------------------

type c12Act struct {
	kind string
	// pre actions: extjail extunjail jail setalive setmin schedule proposal genesis setprev setlog
	// txs:         keepalive unjail delegate(full only, no line of its own)
	// env:         envstatus envpower (mock only, no line of their own)
	addr    []byte
	ver     string
	ver2    string // genesis: the scheduled requirement's version
	hasCur  bool   // genesis: a current requirement is present
	hasSch  bool   // genesis: a scheduled requirement is present
	n       int64  // setalive: until; envpower/delegate: new power; setlog: duration
	at      int64  // setlog: jailedAt (unix ns)
	target  uint64 // schedule / proposal
	blob    []byte
	status  string
	res     string
	snap    *c12Snap // state after a pre action
	jailedT int64    // block time (ns) for jail
}

func (a *c12Act) line(h int64, t time.Time) string {
	switch a.kind {
	case "extjail", "extunjail":
		return a.kind + " " + c12Hex(a.addr)
	case "jail", "unjail":
		return fmt.Sprintf("%s %d %s", a.kind, t.UnixNano(), c12Hex(a.addr))
	case "setalive":
		return fmt.Sprintf("setalive %s %d", c12Hex(a.addr), a.n)
	case "setlog":
		return fmt.Sprintf("setlog %s %d %d", c12Hex(a.addr), a.n, a.at)
	case "setmin":
		return "setmin " + c12Hex([]byte(a.ver))
	case "schedule":
		return fmt.Sprintf("schedule %s %d", c12Hex([]byte(a.ver)), a.target)
	case "proposal":
		return fmt.Sprintf("proposal %d %s %d", h, c12Hex([]byte(a.ver)), a.target)
	case "genesis":
		cur, sch := "-", "-"
		if a.hasCur {
			cur = c12Hex([]byte(a.ver))
		}
		if a.hasSch {
			sch = c12Hex([]byte(a.ver2))
		}
		return fmt.Sprintf("genesis %s %s %d", cur, sch, a.target)
	case "setprev":
		return "setprev " + c12Hex(a.blob)
	case "proposalq":
		return fmt.Sprintf("proposalq %d %s %d", h, c12Hex([]byte(a.ver)), a.target)
	case "keepalive":
		return fmt.Sprintf("keepalive %d %s %s", h, c12Hex(a.addr), c12Hex([]byte(a.ver)))
	}
	panic("c12: no line for " + a.kind)
}

func (a *c12Act) out() string {
	switch a.kind {
	case "keepalive", "unjail":
		return a.res
	case "setprev":
		return "ok prev=" + a.snap.prevStr()
	}
	return a.res + " " + a.snap.dump()
}

func c12Res(err error) string {
	if err != nil {
		return "rejected"
	}
	return "ok"
}

type c12Backend interface {
	kind() string
	addrs() [][]byte
	outsider() []byte
	last() c12Snap
	lastTime() time.Time
	lastHeight() int64
	// block executes one block at lastTime()+step and fills res/snap of the actions.
	block(step time.Duration, pre, txs, env []*c12Act) (int64, time.Time, c12Snap)
}

// ---------------------------------------------------------------------------
// mock world: real valset keeper + module over a fake staking / slashing view
// ---------------------------------------------------------------------------

type c12HexCodec struct{}

func (c12HexCodec) StringToBytes(s string) ([]byte, error) { return hex.DecodeString(s) }
func (c12HexCodec) BytesToString(b []byte) (string, error) { return hex.EncodeToString(b), nil }

type c12FakeVal struct {
	addr   []byte
	cons   sdk.ConsAddress
	pkAny  *codectypes.Any
	status stakingtypes.BondStatus
	jailed bool
	power  int64
	dust   int64 // tokens below one unit of power
}

func (v *c12FakeVal) sdkVal() stakingtypes.Validator {
	tokens := sdkmath.NewInt(v.power).MulRaw(1_000_000).AddRaw(v.dust)
	if tokens.IsZero() {
		// a staking validator never has zero tokens (the snapshot build divides by the bonded total)
		tokens = sdkmath.OneInt()
	}
	return stakingtypes.Validator{
		OperatorAddress: hex.EncodeToString(v.addr), ConsensusPubkey: v.pkAny, Jailed: v.jailed, Status: v.status,
		Tokens: tokens, DelegatorShares: sdkmath.LegacyNewDecFromInt(tokens), MinSelfDelegation: sdkmath.OneInt(),
	}
}

// c12StoreLess is the order of the staking validator store: key = length byte ++ address.
func c12StoreLess(a, b []byte) bool {
	if len(a) != len(b) {
		return len(a) < len(b)
	}
	return bytes.Compare(a, b) < 0
}

type c12Fake struct {
	vals  []*c12FakeVal // store order
	until map[string]time.Time
}

func (f *c12Fake) get(addr []byte) *c12FakeVal {
	for _, v := range f.vals {
		if bytes.Equal(v.addr, addr) {
			return v
		}
	}
	return nil
}

func (f *c12Fake) byCons(c sdk.ConsAddress) *c12FakeVal {
	for _, v := range f.vals {
		if bytes.Equal(v.cons, c) {
			return v
		}
	}
	return nil
}

func (f *c12Fake) add(v *c12FakeVal) {
	f.vals = append(f.vals, v)
	sort.SliceStable(f.vals, func(i, j int) bool { return c12StoreLess(f.vals[i].addr, f.vals[j].addr) })
}

// types.StakingKeeper
func (f *c12Fake) Validator(_ context.Context, addr sdk.ValAddress) (stakingtypes.ValidatorI, error) {
	v := f.get(addr)
	if v == nil {
		return stakingtypes.Validator{}, stakingtypes.ErrNoValidatorFound
	}
	return v.sdkVal(), nil
}

func (f *c12Fake) IterateValidators(_ context.Context, fn func(int64, stakingtypes.ValidatorI) bool) error {
	for i, v := range append([]*c12FakeVal(nil), f.vals...) {
		if fn(int64(i), v.sdkVal()) {
			break
		}
	}
	return nil
}

// types.StakingKeeper.Jail and types.SlashingKeeper.Jail
func (f *c12Fake) Jail(_ context.Context, c sdk.ConsAddress) error {
	v := f.byCons(c)
	if v == nil {
		panic("c12 fake staking: unknown consensus address")
	}
	v.jailed = true
	return nil
}

func (f *c12Fake) JailUntil(_ context.Context, c sdk.ConsAddress, t time.Time) error {
	f.until[string(c)] = t
	return nil
}

type c12NoEvm struct{}

func (c12NoEvm) MissingChains(context.Context, []string) ([]string, error) { return nil, nil }

type c12Mock struct {
	t        *testing.T
	fake     *c12Fake
	k        *valsetkeeper.Keeper
	am       valset.AppModule
	msg      valsettypes.MsgServer
	ms       storetypes.CommitMultiStore
	storeKey *storetypes.KVStoreKey
	height   int64
	time     time.Time
	lastSnap c12Snap
	outs     []byte
	auto     bool // simulate the staking end blocker's status transitions
	nkeys    int
}

func c12NewMock(t *testing.T) *c12Mock {
	faSetPrefixes()
	storeKey := storetypes.NewKVStoreKey(valsettypes.StoreKey)
	memKey := storetypes.NewMemoryStoreKey(valsettypes.MemStoreKey)
	db := tmdb.NewMemDB()
	ms := store.NewCommitMultiStore(db, log.NewNopLogger(), metrics.NewNoOpMetrics())
	ms.MountStoreWithDB(storeKey, storetypes.StoreTypeIAVL, db)
	ms.MountStoreWithDB(memKey, storetypes.StoreTypeMemory, nil)
	if err := ms.LoadLatestVersion(); err != nil {
		t.Fatal(err)
	}
	reg := codectypes.NewInterfaceRegistry()
	cdc := codec.NewProtoCodec(reg)
	valsettypes.RegisterInterfaces(reg)
	ps := typesparams.NewSubspace(cdc, valsettypes.Amino, storeKey, memKey, "ValsetParams")
	fake := &c12Fake{until: map[string]time.Time{}}
	k := valsetkeeper.NewKeeper(cdc, runtime.NewKVStoreService(storeKey), ps, fake, fake, sdk.DefaultPowerReduction, c12HexCodec{})
	k.EvmKeeper = c12NoEvm{}
	m := &c12Mock{
		t: t, fake: fake, k: k, ms: ms, storeKey: storeKey,
		am: valset.NewAppModule(cdc, *k, nil, nil), msg: valsetkeeper.NewMsgServerImpl(*k),
		time: time.Date(2024, 1, 1, 0, 0, 0, 0, time.UTC), outs: []byte{0xee, 0x2c, 0xee},
	}
	k.SetParams(m.ctx(0, m.time), valsettypes.DefaultParams())
	return m
}

func (m *c12Mock) ctx(h int64, t time.Time) sdk.Context {
	return sdk.NewContext(m.ms, tmproto.Header{Height: h, Time: t, ChainID: "c12"}, false, log.NewNopLogger()).
		WithGasMeter(storetypes.NewInfiniteGasMeter())
}

func (m *c12Mock) addVal(addr []byte, status stakingtypes.BondStatus, jailed bool, power, dust int64) {
	pk := ed25519.GenPrivKeyFromSecret([]byte(fmt.Sprintf("c12/cons/%d", m.nkeys))).PubKey()
	m.nkeys++
	any, err := codectypes.NewAnyWithValue(pk)
	if err != nil {
		m.t.Fatal(err)
	}
	m.fake.add(&c12FakeVal{addr: addr, cons: sdk.ConsAddress(pk.Address()), pkAny: any, status: status, jailed: jailed, power: power, dust: dust})
}

func (m *c12Mock) snap(ctx sdk.Context) c12Snap {
	var s c12Snap
	kv := ctx.KVStore(m.storeKey)
	for _, v := range m.fake.vals {
		o := c12ValObs{addr: v.addr, status: c12StatusStr(v.status), jailed: v.jailed, power: v.power}
		if err := c12ReadVal(kv, &o, v.cons); err != nil {
			m.t.Fatal(err)
		}
		if u, ok := m.fake.until[string(v.cons)]; ok {
			o.until = c12I(u.UnixNano())
		}
		s.vals = append(s.vals, o)
	}
	if err := c12ReadReq(ctx, *m.k, &s); err != nil {
		m.t.Fatal(err)
	}
	if bz := kv.Get(c12PrevKey); bz != nil {
		s.prev, s.hasPrev = bz, true
	}
	return s
}

func (m *c12Mock) kind() string        { return "mock" }
func (m *c12Mock) outsider() []byte    { return m.outs }
func (m *c12Mock) last() c12Snap       { return m.lastSnap }
func (m *c12Mock) lastTime() time.Time { return m.time }
func (m *c12Mock) lastHeight() int64   { return m.height }
func (m *c12Mock) addrs() [][]byte {
	var out [][]byte
	for _, v := range m.fake.vals {
		out = append(out, v.addr)
	}
	return out
}

// c12ExecPre runs one pre action against the valset keeper (shared by both worlds for the
// actions that only touch the valset store).
func c12ExecPre(ctx sdk.Context, k valsetkeeper.Keeper, storeKey storetypes.StoreKey, a *c12Act, cons []byte) (handled bool) {
	kv := ctx.KVStore(storeKey)
	switch a.kind {
	case "jail":
		a.res = c12Res(k.Jail(ctx, a.addr, "c12"))
	case "setalive":
		bz, err := json.Marshal(valsettypes.KeepAliveData{ValAddr: a.addr, ContactedAt: ctx.BlockTime(), AliveUntilBlockHeight: a.n, PigeonVersion: "v9.9.9"})
		if err != nil {
			panic(err)
		}
		kv.Set(c12Key(c12KeepAlivePrefix, a.addr), bz)
		a.res = "ok"
	case "setlog":
		rec := valsettypes.JailRecord{Address: cons, Duration: time.Duration(a.n), JailedAt: time.Unix(0, a.at).UTC()}
		bz, err := rec.Marshal()
		if err != nil {
			panic(err)
		}
		kv.Set(c12Key(c12JailLogPrefix, cons), bz)
		a.res = "ok"
	case "setprev":
		kv.Set(c12PrevKey, a.blob)
		a.res = "ok"
	case "setmin":
		a.res = c12Res(k.SetPigeonRequirements(ctx, &valsettypes.PigeonRequirements{MinVersion: a.ver}))
	case "schedule":
		a.res = c12Res(k.SetScheduledPigeonRequirements(ctx, &valsettypes.ScheduledPigeonRequirements{
			Requirements: &valsettypes.PigeonRequirements{MinVersion: a.ver}, TargetBlockHeight: a.target,
		}))
	case "proposal":
		a.res = c12Res(valset.NewValsetProposalHandler(k)(ctx, &valsettypes.SetPigeonRequirementsProposal{
			Title: "t", Description: "d", MinVersion: a.ver, TargetBlockHeight: a.target,
		}))
	case "genesis":
		a.res = c12InitGenesis(ctx, k, a)
	default:
		return false
	}
	return true
}

// c12InitGenesis runs the module's InitGenesis (chain start / re-import of an exported state) with the
// given pigeon requirements on the current store. InitGenesis panics when a requirement is refused
// (the chain would not start): nothing is kept then.
func c12InitGenesis(ctx sdk.Context, k valsetkeeper.Keeper, a *c12Act) (res string) {
	gs := valsettypes.GenesisState{Params: k.GetParams(ctx)}
	if a.hasCur {
		gs.PigeonRequirements = &valsettypes.PigeonRequirements{MinVersion: a.ver}
	}
	if a.hasSch {
		gs.ScheduledPigeonRequirements = &valsettypes.ScheduledPigeonRequirements{
			Requirements: &valsettypes.PigeonRequirements{MinVersion: a.ver2}, TargetBlockHeight: a.target,
		}
	}
	cctx, commit := ctx.CacheContext()
	defer func() {
		if rec := recover(); rec != nil {
			res = "rejected"
		}
	}()
	valset.InitGenesis(cctx, k, gs)
	commit()
	return "ok"
}

func (m *c12Mock) block(step time.Duration, pre, txs, env []*c12Act) (int64, time.Time, c12Snap) {
	h, t := m.height+1, m.time.Add(step)
	ctx := m.ctx(h, t)
	for _, a := range pre {
		v := m.fake.get(a.addr)
		var cons []byte
		if v != nil {
			cons = v.cons
		}
		if !c12ExecPre(ctx, *m.k, m.storeKey, a, cons) {
			switch a.kind {
			case "extjail", "extunjail":
				if v == nil {
					a.res = "rejected"
				} else {
					v.jailed, a.res = a.kind == "extjail", "ok"
				}
			default:
				m.t.Fatalf("c12 mock: pre action %s", a.kind)
			}
		}
		s := m.snap(ctx)
		a.snap = &s
	}
	if err := m.am.BeginBlock(ctx); err != nil {
		m.t.Fatal(err)
	}
	for _, a := range txs {
		switch a.kind {
		case "keepalive":
			_, err := m.msg.KeepAlive(ctx, &valsettypes.MsgKeepAlive{
				PigeonVersion: a.ver, Metadata: valsettypes.MsgMetadata{Creator: sdk.AccAddress(a.addr).String()},
			})
			a.res = c12Res(err)
		default:
			m.t.Fatalf("c12 mock: tx %s", a.kind)
		}
	}
	// the staking view as its end blocker leaves it
	for _, a := range env {
		v := m.fake.get(a.addr)
		switch a.kind {
		case "envstatus":
			v.status = map[string]stakingtypes.BondStatus{"b": stakingtypes.Bonded, "u": stakingtypes.Unbonding, "n": stakingtypes.Unbonded}[a.status]
		case "envpower":
			v.power = a.n
		}
	}
	if m.auto {
		for _, v := range m.fake.vals {
			if v.jailed && v.status == stakingtypes.Bonded {
				v.status = stakingtypes.Unbonding
			} else if !v.jailed && v.status != stakingtypes.Bonded && v.power > 0 {
				v.status = stakingtypes.Bonded
			}
		}
	}
	if err := m.am.EndBlock(ctx); err != nil {
		m.t.Fatal(err)
	}
	m.height, m.time = h, t
	m.lastSnap = m.snap(ctx)
	return h, t, m.lastSnap
}

// ---------------------------------------------------------------------------
// runner: records ops, feeds observed staking-view changes, evaluates the monitors
// ---------------------------------------------------------------------------

type c12Runner struct {
	r        *Rec
	be       c12Backend
	ops      []string
	prevUnj  map[string]bool // unjailed when the previous block updated the grace periods
	tampered bool            // the snapshot blob was overwritten by a test hook in this block
	nontriv  map[string]bool
	hw       string // the highest minimum version observed so far in this world (semver order)
	lastReq  string // the requirements (minimum + schedule) as last observed
}

func (w *c12Runner) op(line, out string) {
	w.r.Op(line, out)
	w.ops = append(w.ops, line)
	if len(w.ops) > 4000 {
		w.ops = w.ops[len(w.ops)-4000:]
	}
}

func (w *c12Runner) replay() []string {
	n := len(w.ops)
	if n > 400 {
		return append([]string{"... (see ops.txt)"}, w.ops[n-400:]...)
	}
	return w.ops
}

func (w *c12Runner) hit(mon, what string) { w.r.Hit(mon, "["+w.be.kind()+"] "+what, w.replay()) }

// c12Protected: v is the validator to be jailed; a validator that is not bonded has consensus power 0.
func c12Protected(vals []c12ValObs, jailed map[string]bool, v *c12ValObs) bool {
	p, _ := c12Margin(vals, jailed, v)
	return p
}

// c12Margin also returns 4*p - total (0 = exactly a quarter: not protected).
func c12Margin(vals []c12ValObs, jailed map[string]bool, v *c12ValObs) (bool, int64) {
	p := v.power
	if v.status != "b" {
		p = 0
	}
	count, total := 0, int64(0)
	for _, o := range vals {
		if o.status == "b" && !jailed[string(o.addr)] {
			count++
			total += o.power
		}
	}
	return count == 1 || 4*p > total, 4*p - total
}

func c12Threshold(d int64) int64 {
	th := d + d/20
	if th < int64(30*time.Minute) {
		th = int64(30 * time.Minute)
	}
	return th
}

func c12NextSentence(d int64) int64 {
	for _, s := range c12Schedule {
		if d < s {
			return s
		}
	}
	return c12Schedule[len(c12Schedule)-1]
}

// c12CheckSentence: the property's sentence rule evaluated on two successive observations.
func (w *c12Runner) checkSentence(who []byte, before, after *c12ValObs, t int64, full bool) {
	if after.dur == nil || after.at == nil {
		w.hit("sentence_schedule", fmt.Sprintf("%s jailed by valset without a jail record", c12Hex(who)))
		return
	}
	want := c12Schedule[0]
	if before.dur != nil && t-*before.at < c12Threshold(*before.dur) {
		want = c12NextSentence(*before.dur)
		w.r.Stat("sentence.extended")
	} else {
		w.r.Stat("sentence.reset")
	}
	if *after.dur != want || *after.at != t {
		w.hit("sentence_schedule", fmt.Sprintf("%s: previous record (%s,%s), jailed at %d, got sentence %d want %d", c12Hex(who), c12Opt(before.dur), c12Opt(before.at), t, *after.dur, want))
	}
	if after.until == nil || *after.until != t+*after.dur {
		w.hit("sentence_schedule", fmt.Sprintf("%s: jailed-until %s is not jail time %d + sentence %d", c12Hex(who), c12Opt(after.until), t, *after.dur))
	}
	w.r.Stat(fmt.Sprintf("sentence.%s", time.Duration(*after.dur)))
}

func (w *c12Runner) checkMin(before, after string, what string) {
	if semver.Compare(after, before) < 0 {
		w.hit("min_version_monotone", fmt.Sprintf("minimum version went from %q to %q by %s", before, after, what))
	}
	if !semver.IsValid(after) {
		w.hit("min_version_monotone", fmt.Sprintf("minimum version %q is not a valid version after %s", after, what))
	}
}

// c12MinHist is the clause "that minimum never decreases" on two minimum-version strings observed in
// this order (and: is the later one a version at all — an invalid minimum switches the gate off,
// theorem invalid_minimum_voids_gate). The Lean driver evaluates the same on the model's order.
func c12MinHist(earlier, later string) string {
	out := "kept"
	if semver.Compare(later, earlier) < 0 {
		out = "decreased"
	}
	if semver.IsValid(later) {
		return out + " valid"
	}
	return out + " invalid"
}

// observeReq evaluates the minimum-version clauses on every observed state of the requirements,
// against the whole history of the world: the minimum in force is never below the HIGHEST minimum
// that was in force before (theorem min_never_below_earlier), never below the built-in default and
// always a valid version (min_version_valid), and a scheduled requirement is never lower than the
// minimum in force (scheduled_never_lower, scheduled_valid).
func (w *c12Runner) observeReq(s *c12Snap, what string) {
	if w.hw == "" {
		w.hw = c12DefaultMin
	}
	if req := s.req(); req != w.lastReq {
		w.lastReq = req
		verdict := c12MinHist(w.hw, s.min)
		w.op(fmt.Sprintf("minhist %s %s", c12Hex([]byte(w.hw)), c12Hex([]byte(s.min))), verdict)
		w.r.Stat("minhist." + verdict)
		if verdict != "kept valid" {
			w.hit("min_version_monotone", fmt.Sprintf("after %s the minimum version is %q, the minimum in force earlier was %q: %s", what, s.min, w.hw, verdict))
		}
		if s.sched != nil && semver.Compare(s.sched.ver, s.min) < 0 {
			w.hit("min_version_monotone", fmt.Sprintf("after %s the scheduled minimum %q is lower than the minimum in force %q (or not a version)", what, s.sched.ver, s.min))
		}
	}
	if semver.IsValid(s.min) && semver.Compare(s.min, w.hw) > 0 {
		w.hw = s.min
		w.r.Stat("min.raised")
	}
}

// checkAccepted: an ACCEPTED change of the requirements carried only versions that are valid and not
// lower than the minimum in force (lower_min_version_refused, invalid_min_version_refused,
// genesis_lower_or_invalid_refused).
func (w *c12Runner) checkAccepted(a *c12Act, min string) {
	if a.res != "ok" {
		return
	}
	var vers []string
	if a.kind != "genesis" || a.hasCur {
		vers = append(vers, a.ver)
	}
	if a.kind == "genesis" && a.hasSch {
		vers = append(vers, a.ver2)
	}
	for _, v := range vers {
		if semver.Compare(v, min) < 0 {
			w.hit("min_version_monotone", fmt.Sprintf("%s accepted %q below the minimum %q", a.kind, v, min))
		} else if semver.Compare(v, w.hw) < 0 || !semver.IsValid(v) {
			w.hit("min_version_monotone", fmt.Sprintf("%s accepted %q, not a version or below the earlier minimum %q", a.kind, v, w.hw))
		}
		if !semver.IsValid(v) {
			w.r.Stat("req.accepted.invalid")
		} else {
			w.r.Stat("req.accepted.valid")
		}
	}
}

func c12IsSweep(h int64) bool { return h > 50 && h%10 == 0 }

func (w *c12Runner) runBlock(step time.Duration, pre, txs, env []*c12Act) {
	before := w.be.last()
	h, t, post := w.be.block(step, pre, txs, env)
	tn := t.UnixNano()
	cur := before
	w.tampered = false
	for _, a := range pre {
		w.op(a.line(h, t), a.out())
		w.r.Stat("op." + a.kind + "." + a.res)
		switch a.kind {
		case "jail":
			if b := cur.find(a.addr); b != nil {
				jm := map[string]bool{}
				for _, v := range cur.vals {
					jm[string(v.addr)] = v.jailed
				}
				prot, margin := c12Margin(cur.vals, jm, b)
				if margin >= 0 && margin <= 4 && b.status == "b" {
					w.r.Stat(fmt.Sprintf("boundary.quarter_plus_%d", margin))
				}
				if a.res == "ok" {
					if prot {
						w.hit("protected_not_jailed", fmt.Sprintf("Jail of %s succeeded although it is protected", c12Hex(a.addr)))
					}
					if b.jailed {
						w.hit("protected_not_jailed", "Jail of an already jailed validator succeeded")
					}
					w.checkSentence(a.addr, b, a.snap.find(a.addr), tn, false)
					if !a.snap.find(a.addr).jailed {
						w.hit("inactive_jailed", "Jail returned nil but the validator is not jailed")
					}
					w.nontriv["keeperjail"] = true
				} else {
					if !prot && !b.jailed {
						w.hit("inactive_jailed", fmt.Sprintf("Jail of unprotected unjailed %s refused", c12Hex(a.addr)))
					}
					if prot && !b.jailed {
						w.r.Stat("jail.refused.protected")
						if b.status != "b" {
							// watch item: "exactly one active validator" also shields a validator that is not active
							w.r.Stat("watch.last_validator_rule_shields_inactive.jail")
						}
					}
				}
			}
		case "setmin", "schedule", "proposal", "genesis":
			w.checkMin(cur.min, a.snap.min, a.kind)
			w.checkAccepted(a, cur.min)
			if (!semver.IsValid(a.ver) && (a.kind != "genesis" || a.hasCur)) || (a.kind == "genesis" && a.hasSch && !semver.IsValid(a.ver2)) {
				w.r.Stat("req.invalid." + a.res)
			}
		case "setprev":
			w.tampered = true
		}
		cur = *a.snap
		w.observeReq(a.snap, a.kind)
	}
	w.op(fmt.Sprintf("beginblock %d", h), "ok")
	preJailed := map[string]bool{}
	for _, v := range cur.vals {
		preJailed[string(v.addr)] = v.jailed
	}
	for _, a := range txs {
		if a.kind == "delegate" || a.kind == "undelegate" || a.kind == "govsubmit" || a.kind == "govvote" {
			continue // environment only: the effect is observed (power change / executed proposal)
		}
		w.op(a.line(h, t), a.res)
		w.r.Stat("op." + a.kind + "." + a.res)
		switch a.kind {
		case "keepalive":
			known := cur.find(a.addr) != nil
			// the minimum never decreases, so "older than the minimum before this block" is older
			// than the minimum at the time of the tx, and "not older than the one after" is not older.
			if semver.Compare(a.ver, cur.min) < 0 {
				w.r.Stat("keepalive.old")
				if a.res == "ok" {
					w.hit("old_version_refused", fmt.Sprintf("keep-alive with %q accepted, minimum %q", a.ver, cur.min))
				}
			} else if w.hw != "" && semver.Compare(a.ver, w.hw) < 0 {
				// older than a minimum that was in force EARLIER in this history (the minimum never decreases)
				w.r.Stat("keepalive.old_vs_earlier")
				if a.res == "ok" {
					w.hit("old_version_refused", fmt.Sprintf("keep-alive with %q accepted although the minimum was %q earlier (now %q)", a.ver, w.hw, cur.min))
				}
			} else if known && semver.Compare(a.ver, post.min) >= 0 && a.res != "ok" {
				w.hit("keepalive_accepted", fmt.Sprintf("keep-alive of validator %s with %q refused, minimum %q", c12Hex(a.addr), a.ver, post.min))
			}
			if !known && a.res == "ok" {
				w.hit("keepalive_accepted", "keep-alive of a non-validator accepted")
			}
			if a.res == "ok" {
				if o := post.find(a.addr); o == nil || o.alive == nil || *o.alive != h+c12TTL {
					// a later setalive cannot interfere: those run before the txs
					w.hit("keepalive_accepted", fmt.Sprintf("accepted keep-alive at height %d did not store alive-until %d", h, h+c12TTL))
				}
			}
		case "unjail":
			if a.res == "ok" {
				preJailed[string(a.addr)] = false
				if b := cur.find(a.addr); b != nil && b.until != nil && tn < *b.until {
					w.hit("sentence_schedule", fmt.Sprintf("%s unjailed at %d before the end of the sentence %d", c12Hex(a.addr), tn, *b.until))
				}
				w.nontriv["unjail"] = true
			}
		}
	}
	// proposals executed by the gov end blocker (it runs before valset's end blocker)
	if lb, ok := w.be.(interface{ late() []*c12Act }); ok {
		for _, a := range lb.late() {
			w.op(a.line(h, t), a.res)
			w.r.Stat("op.gov." + a.res)
			w.nontriv["gov"] = true
			if a.res == "ok" && semver.Compare(a.ver, cur.min) < 0 {
				w.hit("min_version_monotone", fmt.Sprintf("governance accepted %q below the minimum %q", a.ver, cur.min))
			}
		}
	}
	// staking view changes of this block (staking's end blocker runs before valset's)
	for _, v := range post.vals {
		b := cur.find(v.addr)
		if b == nil {
			continue
		}
		if b.status != v.status {
			w.op(fmt.Sprintf("status %s %s", c12Hex(v.addr), v.status), "ok")
			w.r.Stat("view.status")
		}
		if b.power != v.power {
			w.op(fmt.Sprintf("power %s %d", c12Hex(v.addr), v.power), "ok")
			w.r.Stat("view.power")
		}
	}
	w.op(fmt.Sprintf("endblock %d %d", h, tn), post.dump()+" prev="+post.prevStr())
	w.checkMin(before.min, post.min, "the block")
	w.observeReq(&post, fmt.Sprintf("block %d", h))

	// ----- monitors on the end block -----
	sweep := c12IsSweep(h)
	if sweep {
		w.r.Stat("block.sweep")
	} else {
		w.r.Stat("block.plain")
	}
	postJailed := map[string]bool{}
	for _, v := range post.vals {
		postJailed[string(v.addr)] = v.jailed
	}
	unj := map[string]bool{}
	for i := range post.vals {
		v := &post.vals[i]
		key := string(v.addr)
		b := cur.find(v.addr)
		if b == nil {
			continue
		}
		wasJailed := preJailed[key]
		if !wasJailed {
			unj[key] = true
		}
		alive := v.alive != nil && h < *v.alive
		inGrace := v.grace != nil && h-*v.grace <= c12GraceLen
		newlyJailed := !wasJailed && v.jailed
		if wasJailed && !v.jailed {
			w.hit("unexpected_unjail", fmt.Sprintf("%s unjailed by the end block at height %d", c12Hex(v.addr), h))
		}
		if newlyJailed {
			w.r.Stat("sweep.jailed")
			w.nontriv["sweepjail"] = true
			if bytes.IndexByte(v.addr, 0x2c) >= 0 {
				w.r.Stat("sweep.jailed.0x2c")
				w.nontriv["sweepjail2c"] = true
			}
			if !sweep {
				w.hit("alive_never_jailed", fmt.Sprintf("%s jailed by the end block of non-sweep height %d", c12Hex(v.addr), h))
			}
			if alive {
				w.hit("alive_never_jailed", fmt.Sprintf("%s jailed at height %d with keep-alive valid until %d", c12Hex(v.addr), h, *v.alive))
			}
			if inGrace {
				w.hit("grace_respected", fmt.Sprintf("%s jailed at height %d inside its grace period (since %d)", c12Hex(v.addr), h, *v.grace))
			}
			if c12Protected(post.vals, preJailed, v) {
				w.hit("protected_not_jailed", fmt.Sprintf("%s jailed at height %d although protected before the sweep", c12Hex(v.addr), h))
			}
			if v.status == "n" {
				w.hit("alive_never_jailed", fmt.Sprintf("unbonded %s jailed for inactivity", c12Hex(v.addr)))
			}
			w.checkSentence(v.addr, b, v, tn, true)
		}
		if sweep && !wasJailed && (v.status == "b" || v.status == "u") && !alive && !inGrace {
			w.r.Stat("sweep.due")
			if !v.jailed {
				if c12Protected(post.vals, postJailed, v) {
					w.r.Stat("sweep.due.protected")
					w.nontriv["protected"] = true
					if v.status != "b" {
						// STRICT reading of the property: this validator is not bonded, so it is neither
						// "the last active validator" nor a holder of any bonded power, yet `Jail` refuses
						// because exactly ONE OTHER validator is active (`count == 1` is a global test).
						// Genuine deviation of the code from the property text: reported under the stable
						// key `last-validator-global:` (matched against known_findings.json).
						w.r.Stat("watch.last_validator_rule_shields_inactive.sweep")
						// Rec keeps only the first 50 hits: report at most 5 of this known kind per world so
						// that it can never crowd a different violation out of the evidence (the stats count all)
						w.r.Stat("watch.last_validator_rule_shields_inactive.sweep." + w.be.kind())
						if w.r.Stats["watch.last_validator_rule_shields_inactive.sweep."+w.be.kind()] <= 5 {
							w.r.Hit("inactive_jailed", fmt.Sprintf("last-validator-global: [%s] %s (status %s, alive-until %s, grace %s, consensus power 0) not jailed at sweep height %d because exactly one OTHER validator is bonded and unjailed",
								w.be.kind(), c12Hex(v.addr), v.status, c12Opt(v.alive), c12Opt(v.grace), h), w.replay())
						}
					}
				} else {
					w.hit("inactive_jailed", fmt.Sprintf("%s (status %s, alive-until %s, grace %s, power %d) not jailed at sweep height %d and not protected", c12Hex(v.addr), v.status, c12Opt(v.alive), c12Opt(v.grace), v.power, h))
				}
			}
		}
		if sweep && !wasJailed && !v.jailed && alive {
			w.r.Stat("sweep.alive")
		}
		if sweep && !wasJailed && !v.jailed && !alive && inGrace {
			w.r.Stat("sweep.ingrace")
			w.nontriv["ingrace"] = true
		}
		// grace period bookkeeping
		if !wasJailed && w.prevUnj != nil && !w.tampered {
			if w.prevUnj[key] {
				if !c12EqOpt(b.grace, v.grace) {
					w.hit("grace_only_when_new", fmt.Sprintf("%s was unjailed in the previous block too but its grace period moved from %s to %s at height %d", c12Hex(v.addr), c12Opt(b.grace), c12Opt(v.grace), h))
				}
				if bytes.IndexByte(v.addr, 0x2c) >= 0 {
					w.r.Stat("grace.kept.0x2c")
				}
			} else {
				w.r.Stat("grace.new")
				if v.grace == nil || *v.grace != h {
					w.hit("grace_only_when_new", fmt.Sprintf("%s is newly unjailed at height %d but its grace period is %s", c12Hex(v.addr), h, c12Opt(v.grace)))
				}
			}
		}
		if wasJailed && !c12EqOpt(b.grace, v.grace) {
			w.hit("grace_only_when_new", fmt.Sprintf("jailed %s got a grace period at height %d", c12Hex(v.addr), h))
		}
	}
	w.prevUnj = unj
}

func c12EqOpt(a, b *int64) bool {
	if a == nil || b == nil {
		return a == nil && b == nil
	}
	return *a == *b
}

// ---------------------------------------------------------------------------
// generators
// ---------------------------------------------------------------------------

var c12GoodVersions = []string{"v1.11.3", "v1.11.4", "v1.12.0", "v2.0.0", "v2.4.0", "v2.4.1", "v3", "v3.1", "v10.0.0", "v2.4.1-rc1", "v2.4.1-rc.2", "v2.4.1+build.7", "v2.5.0-alpha.1", "v2.5.0-alpha.beta", "v2.5.0-0", "v11.0.0"}

var c12BadVersions = []string{"", "v", "1.2.3", "v01.2.3", "v1.02.3", "v1.2.03", "v1.2.3.4", "v1.2.3-", "v1.2.3-01", "v1.2.3+", "v1.2.3-a..b", "v1.2-rc1", "vx", "V2.4.0", "v2.4.0 ", " v2.4.0", "v2,4,0", "v1.2.3-rc_1", "latest", "v1.2.3+a+b", "v-1.2.3", "v1..3", "v1.2.3-é"}

var c12OldVersions = []string{"v0.0.1", "v1.0.0", "v1.11.2", "v1.11.3-rc1", "v1.11", "v1", "v1.9.99", "v1.11.3-0"}

func (w *c12Runner) version(min string) string {
	r := w.r.Rng
	switch r.Intn(14) {
	case 0:
		return c12BadVersions[r.Intn(len(c12BadVersions))]
	case 1:
		return c12OldVersions[r.Intn(len(c12OldVersions))]
	case 2:
		return min
	case 3, 4:
		return c12RandVersion(w.r)
	case 5:
		return c12Above(w.r, min)
	case 6:
		return c12Below(w.r, min)
	case 7, 8:
		// a string that only LOOKS like a version at or above the minimum
		return c12NearMiss(w.r, c12AtOrAbove(w.r, min))
	default:
		return c12GoodVersions[r.Intn(len(c12GoodVersions))]
	}
}

// c12Triple: MAJOR, MINOR, PATCH of a valid version (small numbers only) and whether it has a
// pre-release part.
func c12Triple(v string) (t [3]int64, pre, ok bool) {
	c := semver.Canonical(v)
	if c == "" {
		return t, false, false
	}
	core := strings.TrimPrefix(c, "v")
	if i := strings.IndexAny(core, "-+"); i >= 0 {
		pre = core[i] == '-'
		core = core[:i]
	}
	parts := strings.Split(core, ".")
	if len(parts) != 3 {
		return t, false, false
	}
	for i, p := range parts {
		n, err := strconv.ParseInt(p, 10, 64)
		if err != nil || n > 1<<40 {
			return t, false, false
		}
		t[i] = n
	}
	return t, pre, true
}

// c12Above: a valid version at or just above v in the semver order (next patch / minor / major, the
// release of a pre-release, the short forms, build metadata = equal).
func c12Above(r *Rec, v string) string {
	t, pre, ok := c12Triple(v)
	if !ok {
		return c12GoodVersions[r.Rng.Intn(len(c12GoodVersions))]
	}
	switch r.Rng.Intn(9) {
	case 0, 1:
		return fmt.Sprintf("v%d.%d.%d", t[0], t[1], t[2]+1)
	case 2:
		return fmt.Sprintf("v%d.%d.0", t[0], t[1]+1)
	case 3:
		return fmt.Sprintf("v%d.0.0", t[0]+1)
	case 4:
		return fmt.Sprintf("v%d.%d", t[0], t[1]+1)
	case 5:
		return fmt.Sprintf("v%d", t[0]+1)
	case 6:
		if pre {
			return fmt.Sprintf("v%d.%d.%d", t[0], t[1], t[2])
		}
		return fmt.Sprintf("v%d.%d.%d-rc1", t[0], t[1], t[2]+1)
	case 7:
		return fmt.Sprintf("v%d.%d.%d+b%d", t[0], t[1], t[2]+int64(r.Rng.Intn(2)), r.Rng.Intn(9))
	default:
		return fmt.Sprintf("v%d.%d.%d", t[0], t[1]+int64(r.Rng.Intn(3)), t[2]+1+int64(r.Rng.Intn(20)))
	}
}

// c12Below: a valid version just below v (previous patch / minor / major, a pre-release of v itself).
func c12Below(r *Rec, v string) string {
	t, pre, ok := c12Triple(v)
	if !ok {
		return c12OldVersions[r.Rng.Intn(len(c12OldVersions))]
	}
	for try := 0; try < 8; try++ {
		switch r.Rng.Intn(6) {
		case 0, 1:
			if t[2] > 0 {
				return fmt.Sprintf("v%d.%d.%d", t[0], t[1], t[2]-1)
			}
		case 2:
			if t[1] > 0 {
				return fmt.Sprintf("v%d.%d.%d", t[0], t[1]-1, t[2]+99)
			}
		case 3:
			if t[0] > 0 {
				return fmt.Sprintf("v%d.%d.%d", t[0]-1, t[1]+99, t[2]+99)
			}
		case 4:
			if !pre {
				return fmt.Sprintf("v%d.%d.%d-%s", t[0], t[1], t[2], []string{"rc1", "0", "alpha", "rc.9", "z"}[r.Rng.Intn(5)])
			}
		default:
			if t[1] > 0 {
				return fmt.Sprintf("v%d.%d", t[0], t[1]-1)
			}
			if t[0] > 0 {
				return fmt.Sprintf("v%d", t[0]-1)
			}
		}
	}
	return c12OldVersions[r.Rng.Intn(len(c12OldVersions))]
}

// c12AtOrAbove: a valid version that is not lower than min.
func c12AtOrAbove(r *Rec, min string) string {
	switch r.Rng.Intn(4) {
	case 0:
		if semver.IsValid(min) {
			return min
		}
	case 1:
		if g := c12GoodVersions[r.Rng.Intn(len(c12GoodVersions))]; semver.Compare(g, min) >= 0 {
			return g
		}
	}
	return c12Above(r, min)
}

// c12NearMiss spells the valid version `base` the way people and tools do but semver does not
// accept: without the leading "v", with "V", surrounded by white space, with a "=" / "release-"
// prefix, a doubled "v", a fourth component, a padded number, a NUL byte, a full-width "v". Every
// such string is NOT a version for golang.org/x/mod/semver (it sorts below every version), whatever
// number it spells: as a keep-alive version and as a new minimum it has to be refused. (A few
// manglings of short forms stay valid — the monitors ask semver, not this function.)
func c12NearMiss(r *Rec, base string) string {
	body := strings.TrimPrefix(base, "v")
	switch r.Rng.Intn(22) {
	case 0, 1, 2, 3, 4:
		return body
	case 5:
		return "V" + body
	case 6:
		return " " + base
	case 7:
		return base + " "
	case 8:
		return base + "\n"
	case 9:
		return "\t" + base
	case 10:
		return "=" + base
	case 11:
		return "v" + base
	case 12:
		return "v " + body
	case 13:
		return "v." + body
	case 14:
		return base + ".0"
	case 15:
		return "v0" + body
	case 16:
		return "\x00" + base
	case 17:
		return base + "\x00"
	case 18:
		return "\uff56" + body
	case 19:
		return "release-" + base
	case 20:
		return strings.ToUpper(base)
	default:
		return strings.Replace(body, ".", ",", 1)
	}
}

func c12RandVersion(r *Rec) string {
	n := func() string {
		switch r.Rng.Intn(6) {
		case 0:
			return "0"
		case 1:
			return fmt.Sprint(r.Rng.Intn(3))
		case 2:
			return fmt.Sprint(9 + r.Rng.Intn(3))
		case 3:
			return "18446744073709551616"
		default:
			return fmt.Sprint(r.Rng.Intn(13))
		}
	}
	v := "v" + n()
	if r.Rng.Intn(8) > 0 {
		v += "." + n()
		if r.Rng.Intn(8) > 0 {
			v += "." + n()
			if r.Rng.Intn(3) == 0 {
				ids := []string{"rc", "rc1", "alpha", "beta", "0", "1", "2", "10", "a-b", "-", "x7", "00a", "01"}
				v += "-" + ids[r.Rng.Intn(len(ids))]
				for r.Rng.Intn(2) == 0 {
					v += "." + ids[r.Rng.Intn(len(ids))]
				}
			}
			if r.Rng.Intn(5) == 0 {
				v += "+" + []string{"b", "b.1", "001", "a-b", "", "a..b"}[r.Rng.Intn(6)]
			}
		}
	}
	if r.Rng.Intn(25) == 0 {
		b := []byte(v)
		if len(b) > 0 {
			b[r.Rng.Intn(len(b))] = []byte(".-+v0 x,")[r.Rng.Intn(8)]
		}
		v = string(b)
	}
	return v
}

// c12Powers draws a stake distribution (consensus power units, < 2^50).
func c12Powers(r *Rec, n int, minPower int64) []int64 {
	p := make([]int64, n)
	switch r.Rng.Intn(7) {
	case 0: // equal
		x := minPower + int64(r.Rng.Intn(1000))
		for i := range p {
			p[i] = x
		}
	case 1: // one whale
		for i := range p {
			p[i] = minPower + int64(r.Rng.Intn(50))
		}
		p[r.Rng.Intn(n)] = 1000 + int64(r.Rng.Intn(1000))
	case 2: // exact quarter: p0 = total/4 (not protected), optionally +1 (protected)
		rest := int64(0)
		for i := 1; i < n; i++ {
			p[i] = minPower + int64(r.Rng.Intn(20))
			rest += p[i]
		}
		rest += (3 - rest%3) % 3 // make the rest divisible by 3 through the last validator
		sum := int64(0)
		for i := 1; i < n-1; i++ {
			sum += p[i]
		}
		p[n-1] = rest - sum
		p[0] = rest / 3 // 4*p0 == p0 + rest
		if r.Rng.Intn(2) == 0 {
			p[0]++
		}
	case 3: // huge
		for i := range p {
			p[i] = r.Rng.Int63n(1<<50-minPower) + minPower
		}
	case 4: // several above a quarter
		for i := range p {
			p[i] = minPower + int64(r.Rng.Intn(5))
		}
		p[0], p[1] = 100+int64(r.Rng.Intn(3)), 100+int64(r.Rng.Intn(3))
		if n > 2 {
			p[2] = 100
		}
	default:
		for i := range p {
			p[i] = minPower + int64(r.Rng.Intn(200))
		}
	}
	for i := range p {
		if p[i] < minPower {
			p[i] = minPower
		}
	}
	return p
}

// c12MockAddrs draws validator addresses as arbitrary byte strings.
func c12MockAddrs(r *Rec, n int) [][]byte {
	var out [][]byte
	seen := map[string]bool{}
	add := func(b []byte) {
		if len(b) == 0 || len(b) > 40 || seen[string(b)] || len(out) >= n {
			return
		}
		seen[string(b)] = true
		out = append(out, b)
	}
	rnd := func(l int) []byte {
		b := make([]byte, l)
		r.Rng.Read(b)
		return b
	}
	switch r.Rng.Intn(6) {
	case 0: // prefixes of one another around the separator
		base := rnd(1 + r.Rng.Intn(19))
		add(base)
		add(append(append([]byte(nil), base...), 0x2c))
		add(append(append([]byte(nil), base...), 0x2c, byte(r.Rng.Intn(256))))
		add(append([]byte{0x2c}, base...))
		add(append(append(append([]byte(nil), base...), 0x2c), base...))
	case 1: // all separators
		add([]byte{0x2c})
		add([]byte{0x2c, 0x2c})
		add(bytes.Repeat([]byte{0x2c}, 20))
		add(bytes.Repeat([]byte{0x2c}, 19))
	case 2: // looks like the new format / hex text
		add([]byte("hex:"))
		add([]byte("hex:2c"))
		add(append([]byte("hex:"), rnd(16)...))
		add([]byte("2c"))
		add([]byte("2C,2c"))
	case 3: // 20-byte addresses with the separator at chosen positions
		for i := 0; i < n; i++ {
			b := rnd(20)
			for j := range b {
				if b[j] == 0x2c {
					b[j] = 0x2d
				}
			}
			if i%2 == 0 {
				b[[]int{0, 19, 10, r.Rng.Intn(20)}[r.Rng.Intn(4)]] = 0x2c
				if r.Rng.Intn(3) == 0 {
					b[r.Rng.Intn(20)] = 0x2c
				}
			}
			add(b)
		}
	}
	for len(out) < n {
		l := 20
		if r.Rng.Intn(3) == 0 {
			l = 1 + r.Rng.Intn(32)
		}
		b := rnd(l)
		if r.Rng.Intn(2) == 0 {
			b[r.Rng.Intn(l)] = 0x2c
		}
		add(b)
	}
	return out
}

type c12Gen struct {
	w         *c12Runner
	full      bool
	txKinds   func(g *c12Gen, v []byte) []*c12Act // world specific extra txs
	canUnjail bool
}

func (g *c12Gen) pick() []byte {
	as := g.w.be.addrs()
	return as[g.w.r.Rng.Intn(len(as))]
}

// nextSweep is the first sweep height strictly above h.
func c12NextSweep(h int64) int64 {
	n := (h/10 + 1) * 10
	if n <= 50 {
		n = 60
	}
	return n
}

func (g *c12Gen) preAction(h int64) *c12Act {
	r := g.w.r.Rng
	last := g.w.be.last()
	a := &c12Act{addr: g.pick()}
	if r.Intn(40) == 0 {
		a.addr = g.w.be.outsider()
	}
	switch x := r.Intn(100); {
	case x < 14:
		a.kind = "jail"
		// boundary directed: prefer a validator sitting exactly on (or just above) the 25 % line
		jm := map[string]bool{}
		for _, v := range last.vals {
			jm[string(v.addr)] = v.jailed
		}
		for i := range last.vals {
			v := &last.vals[i]
			if _, m := c12Margin(last.vals, jm, v); v.status == "b" && !v.jailed && m >= 0 && m <= 4 && r.Intn(3) > 0 {
				a.addr = v.addr
			}
		}
	case x < 22:
		a.kind = "extjail"
	case x < 42:
		a.kind = "extunjail"
		// prefer somebody who is jailed
		for _, v := range last.vals {
			if v.jailed && r.Intn(2) == 0 {
				a.addr = v.addr
			}
		}
	case x < 68:
		a.kind = "setalive"
		ns := c12NextSweep(h - 1)
		a.n = []int64{h - 1, h, h + 1, ns - 1, ns, ns + 1, ns + 10, ns + 11, h + int64(r.Intn(45)), h + c12TTL}[r.Intn(10)]
	case x < 72:
		g.genesis(a, g.w.version(last.min), g.w.version(last.min), g.target(h))
	case x < 80:
		a.kind = "setmin"
		a.ver = g.w.version(last.min)
	case x < 87:
		a.kind = "schedule"
		a.ver = g.w.version(last.min)
		a.target = g.target(h)
	case x < 96:
		a.kind = "proposal"
		a.ver = g.w.version(last.min)
		a.target = g.target(h)
	default:
		a.kind = "setprev"
		a.blob = g.legacyBlob(last)
	}
	return a
}

// genesis: InitGenesis with a current and / or a scheduled requirement (re-import of a state)
func (g *c12Gen) genesis(a *c12Act, cur, sch string, target uint64) {
	a.kind, a.ver, a.ver2, a.target = "genesis", cur, sch, target
	switch g.w.r.Rng.Intn(4) {
	case 0:
		a.hasCur = true
	case 1:
		a.hasSch = true
	default:
		a.hasCur, a.hasSch = true, true
	}
}

// minProbe: a directed history on the minimum-version clauses. Step 1: a requirement that spells a
// version AT OR ABOVE the minimum in force — correctly or as a near miss (no leading "v", white
// space, …) — goes in through one of the four entry points (immediate, scheduled, proposal,
// genesis); the schedule falls due. Step 2: relayers just below the highest minimum seen so far
// send keep-alives and a minimum just below it is proposed. Everything is judged by the monitors.
func (g *c12Gen) minProbe() {
	w := g.w
	r := w.r.Rng
	pickKind := func(a *c12Act, ver string, target uint64) {
		switch r.Intn(5) {
		case 0:
			a.kind, a.ver = "setmin", ver
		case 1:
			a.kind, a.ver, a.target = "schedule", ver, target
		case 2, 3:
			a.kind, a.ver, a.target = "proposal", ver, target
		default:
			cur := ver
			if r.Intn(2) == 0 {
				cur = c12AtOrAbove(w.r, w.be.last().min)
			}
			g.genesis(a, cur, ver, target)
		}
	}
	h := w.be.lastHeight() + 1
	target := uint64(h + 1 + int64(r.Intn(3)))
	if r.Intn(3) == 0 {
		target = g.target(h)
	}
	ver := c12AtOrAbove(w.r, w.be.last().min)
	if r.Intn(4) > 0 {
		ver = c12NearMiss(w.r, ver)
		w.r.Stat("gen.minprobe.nearmiss")
	}
	a := &c12Act{addr: g.pick()}
	pickKind(a, ver, target)
	w.runBlock(2*time.Second, []*c12Act{a}, nil, nil)
	for k := 0; k < 4 && target < 1<<62 && w.be.lastHeight() <= int64(target); k++ {
		w.runBlock(2*time.Second, nil, nil, nil)
	}
	hw := w.hw
	var txs []*c12Act
	for n := 1 + r.Intn(2); n > 0; n-- {
		v := c12Below(w.r, hw)
		switch r.Intn(6) {
		case 0:
			v = c12OldVersions[r.Intn(len(c12OldVersions))]
		case 1:
			v = c12NearMiss(w.r, c12AtOrAbove(w.r, hw))
		case 2:
			v = hw
		}
		txs = append(txs, &c12Act{kind: "keepalive", addr: g.pick(), ver: v})
	}
	b := &c12Act{addr: g.pick()}
	pickKind(b, c12Below(w.r, hw), uint64(w.be.lastHeight()+1))
	w.runBlock(2*time.Second, []*c12Act{b}, txs, nil)
	w.r.Stat("gen.minprobe")
}

func (g *c12Gen) target(h int64) uint64 {
	r := g.w.r.Rng
	switch r.Intn(8) {
	case 0:
		return 0
	case 1:
		return uint64(h)
	case 2:
		return uint64(h + 1)
	case 3:
		return 1 << 63 // int64(target) is negative: due at once
	case 4:
		return 1<<63 - 1
	case 5:
		return 1<<64 - 1
	default:
		return uint64(h + int64(r.Intn(12)))
	}
}

// legacyBlob: what a pre-upgrade node left in the store (raw addresses joined by ","), or garbage.
func (g *c12Gen) legacyBlob(last c12Snap) []byte {
	r := g.w.r.Rng
	var parts [][]byte
	for _, v := range last.vals {
		if !v.jailed || r.Intn(4) == 0 {
			parts = append(parts, v.addr)
		}
	}
	switch r.Intn(6) {
	case 0:
		return []byte("hex:zz," + hex.EncodeToString(g.pick()) + ",2")
	case 1:
		return []byte("hex:" + strings.ToUpper(hex.EncodeToString(g.pick())))
	case 2:
		return []byte{}
	default:
		return bytes.Join(parts, []byte(","))
	}
}

func (g *c12Gen) keepAliveTx() *c12Act {
	r := g.w.r.Rng
	a := &c12Act{kind: "keepalive", addr: g.pick(), ver: g.w.version(g.w.be.last().min)}
	if r.Intn(25) == 0 {
		a.addr = g.w.be.outsider()
	}
	return a
}

func (g *c12Gen) steps() time.Duration {
	r := g.w.r.Rng
	switch r.Intn(12) {
	case 0:
		return time.Minute
	case 1:
		return 5 * time.Minute
	case 2:
		return 31 * time.Minute
	case 3:
		return time.Hour
	case 4:
		return 20 * time.Second
	default:
		return 2 * time.Second
	}
}

// boundaryStep: a step that lands the next block exactly on (or 1ns around) a sentence end or a
// sentence-reset threshold of some validator.
func (g *c12Gen) boundaryStep() (time.Duration, bool) {
	r := g.w.r.Rng
	last, now := g.w.be.last(), g.w.be.lastTime().UnixNano()
	var cands []int64
	for _, v := range last.vals {
		if v.until != nil {
			cands = append(cands, *v.until)
		}
		if v.dur != nil {
			cands = append(cands, *v.at+c12Threshold(*v.dur))
		}
	}
	if len(cands) == 0 {
		return 0, false
	}
	target := cands[r.Intn(len(cands))] + int64(r.Intn(3)-1)
	if target <= now || target-now > int64(40*time.Hour) {
		return 0, false
	}
	return time.Duration(target - now), true
}

// escalate: the same validator is jailed again and again (Jail, unjail behind valset's back, Jail …)
// so that the sentence walks along the schedule, with block times inside / outside the reset window.
func (g *c12Gen) escalate() {
	r := g.w.r.Rng
	v := g.pick()
	for try := 0; try < 6; try++ {
		last := g.w.be.last()
		jm := map[string]bool{}
		for _, o := range last.vals {
			jm[string(o.addr)] = o.jailed
		}
		if o := last.find(v); o != nil && !c12Protected(last.vals, jm, o) {
			break
		}
		v = g.pick()
	}
	for k := 2 + r.Intn(6); k > 0; k-- {
		step := []time.Duration{time.Minute, time.Minute, 2 * time.Second, 5*time.Minute + time.Second, 16 * time.Minute, 29 * time.Minute, 31 * time.Minute, 64 * time.Minute}[r.Intn(8)]
		if r.Intn(4) == 0 {
			if s, ok := g.boundaryStep(); ok {
				step = s
			}
		}
		g.w.runBlock(step, []*c12Act{{kind: "extunjail", addr: v}, {kind: "jail", addr: v}}, nil, nil)
	}
	g.w.r.Stat("gen.escalate")
}

// runCase generates and executes one history segment.
func (g *c12Gen) runCase(blocks int) {
	w := g.w
	r := w.r.Rng
	if r.Intn(8) == 0 {
		g.escalate()
	}
	if r.Intn(5) == 0 {
		g.minProbe()
	}
	for b := 0; b < blocks; b++ {
		h := w.be.lastHeight() + 1
		step := g.steps()
		if r.Intn(6) == 0 {
			if s, ok := g.boundaryStep(); ok {
				step = s
				w.r.Stat("gen.boundary_time")
			}
		}
		switch x := r.Intn(100); {
		case x < 30: // quiet stretch up to / across a sweep height
			ns := c12NextSweep(h - 1)
			to := []int64{ns - 1, ns, ns + 1, h, h + 1, h + 8, h + 30, h + 31}[r.Intn(8)]
			limit := int64(45)
			if g.full {
				limit = 12 // a full-application block costs ~3 ms
			}
			for hh := h; hh <= to && hh < h+limit; hh++ {
				w.runBlock(step, nil, nil, nil)
				step = 2 * time.Second
			}
		default:
			var pre, txs, env []*c12Act
			for n := r.Intn(3); n > 0; n-- {
				pre = append(pre, g.preAction(h))
			}
			for n := r.Intn(3); n > 0; n-- {
				txs = append(txs, g.keepAliveTx())
			}
			if g.txKinds != nil {
				txs = append(txs, g.txKinds(g, g.pick())...)
			}
			if !g.full {
				for n := r.Intn(4) / 3 * (1 + r.Intn(2)); n > 0; n-- {
					e := &c12Act{addr: g.pick()}
					if r.Intn(2) == 0 {
						e.kind, e.status = "envstatus", []string{"b", "u", "n"}[r.Intn(3)]
					} else {
						e.kind, e.n = "envpower", []int64{0, 1, 2, int64(r.Intn(300)), r.Int63n(1 << 50)}[r.Intn(5)]
					}
					env = append(env, e)
				}
			}
			w.runBlock(step, pre, txs, env)
		}
	}
}

// ---------------------------------------------------------------------------
// fixtures
// ---------------------------------------------------------------------------

func c12StartMock(t *testing.T, r *Rec) *c12Runner {
	m := c12NewMock(t)
	n := 3 + r.Rng.Intn(4)
	addrs := c12MockAddrs(r, n)
	pw := c12Powers(r, n, int64(r.Rng.Intn(2)))
	m.auto = r.Rng.Intn(3) > 0
	w := &c12Runner{r: r, be: m, nontriv: map[string]bool{}}
	w.op("reset", "ok")
	for i, a := range addrs {
		st, jailed := stakingtypes.Bonded, false
		if !m.auto || r.Rng.Intn(6) == 0 {
			st = []stakingtypes.BondStatus{stakingtypes.Bonded, stakingtypes.Bonded, stakingtypes.Unbonding, stakingtypes.Unbonded}[r.Rng.Intn(4)]
			jailed = r.Rng.Intn(5) == 0
		}
		m.addVal(a, st, jailed, pw[i], int64(r.Rng.Intn(2))*int64(r.Rng.Intn(1_000_000)))
		j := 0
		if jailed {
			j = 1
		}
		s := m.snap(m.ctx(0, m.time))
		w.op(fmt.Sprintf("addval %s %s %d %d", c12Hex(a), c12StatusStr(st), j, pw[i]), "ok "+s.dump())
		if bytes.IndexByte(a, 0x2c) >= 0 {
			r.Stat("addr.with_0x2c")
		} else {
			r.Stat("addr.without_0x2c")
		}
	}
	m.lastSnap = m.snap(m.ctx(0, m.time))
	r.Stat("fixture.mock")
	return w
}

// ---------------------------------------------------------------------------
// pure sub tests
// ---------------------------------------------------------------------------

func c12SignStr(c int, a, b string) string {
	f := func(s string) string {
		if semver.IsValid(s) {
			return "v"
		}
		return "i"
	}
	return fmt.Sprintf("%d %s%s", c, f(a), f(b))
}

func c12PureVersions(r *Rec, n int) {
	pool := append(append(append([]string{}, c12GoodVersions...), c12BadVersions...), c12OldVersions...)
	pick := func() string {
		switch r.Rng.Intn(8) {
		case 0, 1, 2, 3:
			return pool[r.Rng.Intn(len(pool))]
		case 4:
			// near misses of versions, and the neighbours of a version in the order
			return c12NearMiss(r, c12GoodVersions[r.Rng.Intn(len(c12GoodVersions))])
		case 5:
			g := c12GoodVersions[r.Rng.Intn(len(c12GoodVersions))]
			return []string{c12Above(r, g), c12Below(r, g)}[r.Rng.Intn(2)]
		}
		return c12RandVersion(r)
	}
	for i := 0; i < n; i++ {
		a, b, c := pick(), pick(), pick()
		if r.Rng.Intn(5) == 0 {
			b = a
		}
		if r.Rng.Intn(6) == 0 {
			// a version against its own near miss (the same number, spelt without "v", …)
			b = c12NearMiss(r, a)
		}
		ab, bc, ac := semver.Compare(a, b), semver.Compare(b, c), semver.Compare(a, c)
		r.Op(fmt.Sprintf("vcmp %s %s", c12Hex([]byte(a)), c12Hex([]byte(b))), c12SignStr(ab, a, b))
		r.Op(fmt.Sprintf("vcmp %s %s", c12Hex([]byte(b)), c12Hex([]byte(c))), c12SignStr(bc, b, c))
		// the order the monotonicity argument needs: a total preorder
		if ab <= 0 && bc <= 0 && ac > 0 {
			r.Hit("version_order", "semver.Compare is not transitive", []string{a, b, c})
		}
		if ab != -semver.Compare(b, a) {
			r.Hit("version_order", "semver.Compare is not antisymmetric", []string{a, b})
		}
		r.Stat(fmt.Sprintf("vcmp.%d", ab))
		r.Case("vcmp/"+a+"/"+b, ab != 0)
	}
}

// c12PureCodec drives encodeUnjailedSnapshot / decodeUnjailedSnapshot (unexported) through
// UpdateGracePeriod of the real keeper over the fake staking view.
func c12PureCodec(t *testing.T, r *Rec, n int) {
	randAddr := func() []byte {
		l := []int{1, 2, 3, 20, 20, 20, 32, 1 + r.Rng.Intn(40)}[r.Rng.Intn(8)]
		b := make([]byte, l)
		switch r.Rng.Intn(5) {
		case 0:
			for i := range b {
				b[i] = 0x2c
			}
		case 1:
			for i := range b {
				b[i] = []byte("0123456789abcdefABCDEF,:hex")[r.Rng.Intn(27)]
			}
		default:
			r.Rng.Read(b)
			if r.Rng.Intn(2) == 0 {
				b[r.Rng.Intn(l)] = 0x2c
			}
		}
		return b
	}
	distinct := func(k int, seed [][]byte) [][]byte {
		seen := map[string]bool{}
		var out [][]byte
		for _, s := range seed {
			if len(s) > 0 && !seen[string(s)] {
				seen[string(s)] = true
				out = append(out, s)
			}
		}
		for len(out) < k {
			a := randAddr()
			if !seen[string(a)] {
				seen[string(a)] = true
				out = append(out, a)
			}
		}
		sort.Slice(out, func(i, j int) bool { return c12StoreLess(out[i], out[j]) })
		return out
	}
	list := func(l [][]byte) string {
		if len(l) == 0 {
			return "-"
		}
		s := make([]string, len(l))
		for i, a := range l {
			s[i] = c12Hex(a)
		}
		return strings.Join(s, ",")
	}
	for i := 0; i < n; i++ {
		m := c12NewMock(t)
		// 1. encode: the keeper writes the snapshot of the current unjailed set
		k := r.Rng.Intn(6)
		var seed [][]byte
		if k > 1 && r.Rng.Intn(2) == 0 { // prefixes of one another
			a := randAddr()
			seed = [][]byte{a, append(append([]byte(nil), a...), 0x2c), append(append([]byte(nil), a...), 0x2c, 0x2c)}[:min(3, k)]
		}
		set := distinct(k, seed)
		for _, a := range set {
			m.addVal(a, stakingtypes.Bonded, false, 1, 0)
		}
		ctx := m.ctx(7, m.time)
		if err := m.k.UpdateGracePeriod(ctx); err != nil {
			t.Fatal(err)
		}
		blob := ctx.KVStore(m.storeKey).Get(c12PrevKey)
		r.Op("encode "+list(set), c12Blob(blob))
		// 2. decode: which probes does the keeper find in a stored blob?
		var stored []byte
		kind := r.Rng.Intn(6)
		switch kind {
		case 0, 1, 2:
			stored = blob
		case 3:
			stored = bytes.Join(set, []byte(",")) // pre-upgrade format
		case 4:
			stored = []byte("hex:" + strings.ToUpper(hex.EncodeToString(randAddr())) + ",zz,2c2,," + hex.EncodeToString(randAddr()))
		default:
			stored = randAddr()
		}
		probes := append([][]byte{}, set...)
		for j := 0; j < 3; j++ {
			probes = append(probes, randAddr())
		}
		for _, a := range set { // near misses: drop / add a trailing separator
			if len(a) > 1 {
				probes = append(probes, a[:len(a)-1])
			}
			probes = append(probes, append(append([]byte(nil), a...), 0x2c))
		}
		if kind >= 3 {
			for _, p := range bytes.Split(stored, []byte(",")) {
				probes = append(probes, p)
			}
		}
		probes = distinct(0, probes)
		m2 := c12NewMock(t)
		for _, a := range probes {
			m2.addVal(a, stakingtypes.Bonded, false, 1, 0)
		}
		ctx2 := m2.ctx(9, m2.time)
		kv := ctx2.KVStore(m2.storeKey)
		kv.Set(c12PrevKey, stored)
		if err := m2.k.UpdateGracePeriod(ctx2); err != nil {
			t.Fatal(err)
		}
		var found strings.Builder
		inSet := map[string]bool{}
		for _, a := range set {
			inSet[string(a)] = true
		}
		for _, v := range m2.fake.vals {
			member := kv.Get(c12Key(c12GracePrefix, v.addr)) == nil
			if member {
				found.WriteByte('1')
			} else {
				found.WriteByte('0')
			}
			if kind <= 2 && member != inSet[string(v.addr)] {
				r.Hit("codec_roundtrip", fmt.Sprintf("address %s: stored=%v found=%v", c12Hex(v.addr), inSet[string(v.addr)], member), []string{list(set), c12Hex(stored)})
			}
		}
		r.Op(fmt.Sprintf("members %s %s", c12Hex(stored), list(m2.addrs())), found.String())
		// the empty address: Go's Split yields an empty element for "", a trailing or a doubled
		// separator. A grace record cannot be written under an empty key (the store panics), which
		// is how "not found" shows.
		for _, blob2 := range [][]byte{stored, blob, append(append([]byte(nil), stored...), ',')} {
			m3 := c12NewMock(t)
			m3.addVal([]byte{}, stakingtypes.Bonded, false, 1, 0)
			ctx3 := m3.ctx(9, m3.time)
			ctx3.KVStore(m3.storeKey).Set(c12PrevKey, blob2)
			res := "1"
			if p := faRecover(func() {
				if err := m3.k.UpdateGracePeriod(ctx3); err != nil {
					t.Fatal(err)
				}
			}); p != "" {
				res = "0"
			}
			r.Op(fmt.Sprintf("members %s x", c12Hex(blob2)), res)
			r.Stat("codec.empty_address." + res)
		}
		r.Stat(fmt.Sprintf("codec.kind%d", kind))
		has2c := false
		for _, a := range set {
			has2c = has2c || bytes.IndexByte(a, 0x2c) >= 0
		}
		r.Case(fmt.Sprintf("codec/%s/%d", list(set), kind), has2c)
	}
}

// c12PureSentence drives deriveJailSentence / calculateJailSentenceResetThreshold (unexported)
// through Jail with a planted jail record.
func c12PureSentence(t *testing.T, r *Rec, n int) {
	durs := []int64{0, 1, int64(time.Minute) - 1, int64(time.Minute), int64(time.Minute) + 1, int64(5 * time.Minute), int64(5*time.Minute) - 1,
		int64(15 * time.Minute), int64(time.Hour) - 1, int64(time.Hour), int64(24*time.Hour) - 1, int64(24 * time.Hour), int64(48 * time.Hour), int64(29 * time.Minute), int64(30 * time.Minute), 19, 20, 21, -5}
	for i := 0; i < n; i++ {
		m := c12NewMock(t)
		w := &c12Runner{r: r, be: m, nontriv: map[string]bool{}}
		w.op("reset", "ok")
		for j, a := range [][]byte{{1, 0x2c}, {2}, {3}, {4}, {5}} {
			m.addVal(a, stakingtypes.Bonded, false, 10, 0)
			s := m.snap(m.ctx(0, m.time))
			w.op(fmt.Sprintf("addval %s b 0 10", c12Hex(a)), "ok "+s.dump())
			_ = j
		}
		m.lastSnap = m.snap(m.ctx(0, m.time))
		d := durs[r.Rng.Intn(len(durs))]
		if r.Rng.Intn(4) == 0 {
			d = r.Rng.Int63n(int64(30 * time.Hour))
		}
		now := m.time.Add(2 * time.Second).UnixNano()
		th := c12Threshold(d)
		if d < 0 {
			th = int64(30 * time.Minute)
		}
		at := now - th + int64(r.Rng.Intn(3)-1)
		if r.Rng.Intn(5) == 0 {
			at = now - r.Rng.Int63n(int64(50*time.Hour))
		}
		w.runBlock(2*time.Second, []*c12Act{{kind: "setlog", addr: []byte{1, 0x2c}, n: d, at: at}, {kind: "jail", addr: []byte{1, 0x2c}}}, nil, nil)
		r.Case(fmt.Sprintf("sentence/%d/%d", d, now-at-th), true)
	}
}

// c12PureQuarter: `Jail` exactly on, just below and just above the 25 % line (all validators bonded
// and unjailed, rest of the network = 3q, target = q-1 / q / q+1), small and large q.
func c12PureQuarter(t *testing.T, r *Rec, n int) {
	for i := 0; i < n; i++ {
		m := c12NewMock(t)
		w := &c12Runner{r: r, be: m, nontriv: map[string]bool{}}
		w.op("reset", "ok")
		q := []int64{1, 2, 7, 1000, 1 << 20, 1<<48 + 1, 1 + r.Rng.Int63n(1<<48)}[r.Rng.Intn(7)]
		k := 2 + r.Rng.Intn(3) // the rest of the network: k validators summing to 3q
		rest := make([]int64, k)
		left := 3 * q
		for j := 0; j < k-1; j++ {
			rest[j] = r.Rng.Int63n(left/int64(k-j) + 1)
			left -= rest[j]
		}
		rest[k-1] = left
		delta := int64(r.Rng.Intn(3) - 1)
		target := []byte{0x2c, byte(i)}
		pw := append([]int64{q + delta}, rest...)
		for j, p := range pw {
			a := []byte{0x2c, byte(i)}
			if j > 0 {
				a = []byte{byte(j), 0x2c, byte(i)}
			}
			m.addVal(a, stakingtypes.Bonded, false, p, int64(r.Rng.Intn(1_000_000)))
			s := m.snap(m.ctx(0, m.time))
			w.op(fmt.Sprintf("addval %s b 0 %d", c12Hex(a), p), "ok "+s.dump())
		}
		m.lastSnap = m.snap(m.ctx(0, m.time))
		w.runBlock(2*time.Second, []*c12Act{{kind: "jail", addr: target}}, nil, nil)
		r.Stat(fmt.Sprintf("quarter.delta%+d", delta))
		r.Case(fmt.Sprintf("quarter/%d/%d/%d", q, delta, k), true)
	}
}

// ---------------------------------------------------------------------------
// test
// ---------------------------------------------------------------------------

func TestC12(t *testing.T) {
	r := NewRec(t, "C12")
	defer r.Close()
	n := r.N
	nPure := n / 10
	t0 := time.Now()
	lap := func(what string) {
		t.Logf("C12 %s: %v", what, time.Since(t0).Round(time.Millisecond))
		t0 = time.Now()
	}
	c12PureVersions(r, 2*nPure)
	c12PureCodec(t, r, nPure)
	c12PureSentence(t, r, nPure/2+1)
	c12PureQuarter(t, r, nPure/2+1)
	lap("pure")

	nFull := min(n/4, 50+n/30) // full-application cases cost ~50x a mock case
	nMock := n - nFull - 3*nPure - 2*(nPure/2+1)
	if nMock < 1 {
		nMock = 1
	}
	// mock world histories
	var w *c12Runner
	var g *c12Gen
	for i := 0; i < nMock; i++ {
		if w == nil || i%6 == 0 {
			w = c12StartMock(t, r)
			g = &c12Gen{w: w}
		}
		w.nontriv = map[string]bool{}
		start := len(w.ops)
		g.runCase(4 + r.Rng.Intn(10))
		key := strings.Join(w.ops[min(start, len(w.ops)):], "|")
		r.Case("mock/"+fmt.Sprint(i)+"/"+fmt.Sprint(len(key)), len(w.nontriv) > 0)
	}
	lap("mock histories")
	// real keep-alive lifetime: a keep-alive expires 2000 blocks later
	for i := 0; i < min(6, 1+n/100); i++ {
		w = c12StartMock(t, r)
		g = &c12Gen{w: w}
		w.nontriv = map[string]bool{}
		var txs []*c12Act
		for _, a := range w.be.addrs() {
			if r.Rng.Intn(4) > 0 {
				txs = append(txs, &c12Act{kind: "keepalive", addr: a, ver: c12GoodVersions[r.Rng.Intn(len(c12GoodVersions))]})
			}
		}
		w.runBlock(2*time.Second, nil, txs, nil)
		for w.be.lastHeight() < 2+c12TTL+45 {
			if r.Rng.Intn(400) == 0 {
				g.runCase(1)
			} else {
				w.runBlock(2*time.Second, nil, nil, nil)
			}
		}
		r.Stat("gen.real_ttl")
		r.Case(fmt.Sprintf("mock-ttl/%d", i), len(w.nontriv) > 0)
	}
	lap("mock real-ttl")
	c12RunFull(t, r, nFull)
	lap("full")
}
