//go:build verif

package harness

import (
	"crypto/sha256"
	"encoding/hex"
	"fmt"
	"sort"
	"strings"
	"time"

	sdkmath "cosmossdk.io/math"
	"cosmossdk.io/x/feegrant"
	sdk "github.com/cosmos/cosmos-sdk/types"
	palomatypes "github.com/palomachain/paloma/v2/x/paloma/types"
)

// =====================================================================================
// Light-node histories (op `lnh`) and the monitor light-node-cross-principal-write
// =====================================================================================
//
// The per-message scenarios send MsgSetLegacyLightNodeClients — a handler that ignores its sender
// and writes for principals it computes from chain state — only into worlds in which no grantee
// of the light-node feegranter has a client record, and the attribution diff trusts such "open"
// handlers.  The class of history driven here: principals obtain licences (bought for them by a
// funder, or in the attested sale, which also gives them the feegranter's allowance FOR GOOD),
// legacy nodes hold the allowance only, licences are registered, clients authenticate as time
// passes, and at ANY point of that — not just on the virgin chain the migration was written for —
// some unrelated account runs the migration, or tries to register / authenticate in somebody
// else's name (without / with a fee grant).
//
// Property evaluated on the implementation after every step (monitor
// light-node-cross-principal-write), over ALL client records and licences of the stores: the
// client record of B (activation / last authentication) and B's pending licence are B's; an
// EXISTING record or licence changes only through a transaction signed by B or by an account
// holding a fee grant from B; a record APPEARS for B only that way or through the migration when
// B is a grantee of the feegranter with neither record nor licence; a licence appears only for the
// address a licence purchase / sale names.
//
// One history is ONE protocol line; the model (Model/Auth.lean "Light-node licences and client
// records") replays it from the empty state: result of every step, and the final record
// (activation / last authentication as STEP NUMBERS: every step is a block of its own) and
// licence flag of every light-node principal of the line (ids from 31).

type c03LnSnap struct {
	clients  map[string]string // address -> digest of the LightNodeClient record
	licences map[string]string // address -> digest of the licence
	raw      map[string]*palomatypes.LightNodeClient
}

func (d *c03Dir) lnSnapshot() c03LnSnap {
	s := c03LnSnap{clients: map[string]string{}, licences: map[string]string{}, raw: map[string]*palomatypes.LightNodeClient{}}
	a := d.w.FA.App()
	ctx := d.w.FA.CtxCached()
	dg := func(m interface{ Marshal() ([]byte, error) }) string {
		bz, err := m.Marshal()
		if err != nil {
			bz = []byte(err.Error())
		}
		h := sha256.Sum256(bz)
		return hex.EncodeToString(h[:8])
	}
	if all, err := a.PalomaKeeper.AllLightNodeClients(ctx); err == nil {
		for _, c := range all {
			if c != nil {
				s.clients[c.ClientAddress] = dg(c)
				s.raw[c.ClientAddress] = c
			}
		}
	}
	if all, err := a.PalomaKeeper.AllLightNodeClientLicenses(ctx); err == nil {
		for _, l := range all {
			if l != nil {
				s.licences[l.ClientAddress] = dg(l)
			}
		}
	}
	return s
}

func (d *c03Dir) lnHasAccount(addr sdk.AccAddress) bool {
	return d.w.FA.App().AccountKeeper.HasAccount(d.w.FA.CtxCached(), addr)
}

func (d *c03Dir) lnGranted(granter, grantee sdk.AccAddress) bool {
	f, err := d.w.FA.App().FeeGrantKeeper.GetAllowance(d.w.FA.CtxCached(), granter, grantee)
	return err == nil && f != nil
}

// lightNodeHistory: one `lnh` line.
func (d *c03Dir) lightNodeHistory() {
	w, fa, rng, r := d.w, d.w.FA, d.rng, d.r
	a := fa.App()
	F := d.users[3] // the light-node feegranter of the zoo world
	// the configuration is governance's; make sure it is still what the world set up
	_ = w.God(func(ctx sdk.Context) error {
		if fg, err := a.PalomaKeeper.LightNodeClientFeegranter(ctx); err != nil || !fg.Account.Equals(F.acc.Addr) {
			return a.PalomaKeeper.SetLightNodeClientFeegranter(ctx, F.acc.Addr)
		}
		return nil
	})
	// light-node principals of this history: fresh keys without an account
	nLocal := 3 + rng.Intn(2)
	var locals []c03Principal
	for i := 0; i < nLocal; i++ {
		locals = append(locals, c03Principal{w.FreshAccount("ln"), 31 + i})
	}
	strangers := []c03Principal{d.users[0], d.users[1], d.users[2]}
	everybody := append(append([]c03Principal{}, locals...), strangers...)
	pidOf := map[string]int{F.acc.Addr.String(): F.pid}
	for _, p := range everybody {
		pidOf[p.acc.Addr.String()] = p.pid
	}
	who := func(addr string) string {
		if p, ok := pidOf[addr]; ok {
			return fmt.Sprintf("principal %d", p)
		}
		return "an account outside this history (" + addr + ")"
	}
	accounts := []int{F.pid}
	for _, p := range strangers {
		accounts = append(accounts, p.pid)
	}
	sort.Ints(accounts)

	var toks, outs []string
	var stepTimes []time.Time
	line := func() string {
		return fmt.Sprintf("lnh %d %s %s", F.pid, c03Ids(accounts...), strings.Join(toks, " "))
	}
	nontrivial := false
	strangerRanMigrationOverRegistered := false
	mentioned := map[int]bool{}

	withAccount := func(ps []c03Principal) []c03Principal {
		var out []c03Principal
		for _, p := range ps {
			if d.lnHasAccount(p.acc.Addr) {
				out = append(out, p)
			}
		}
		return out
	}
	// one step; kind sale | lgrant | lic | reg | auth | legacy | reimport
	step := func(kind string, S, Cr c03Principal, g bool, arg c03Principal) {
		if rng.Intn(3) == 0 {
			// time passes
			fa.NextTime = fa.Time().Add(time.Duration(1+rng.Intn(72)) * time.Hour)
		}
		argPid := 0
		if arg.acc != nil {
			argPid = arg.pid
		}
		sPid, crPid := 0, 0
		if S.acc != nil {
			sPid, crPid = S.pid, Cr.pid
		}
		mentioned[argPid], mentioned[sPid], mentioned[crPid] = true, true, true
		if g {
			if gr := fa.GrantFee(Cr.acc, S.acc); !gr.OK() {
				d.t.Fatalf("lnh grant: %s %s", gr.Log, gr.BlockErr)
			}
			d.grants[[2]int{Cr.pid, S.pid}] = true
		}
		before := d.lnSnapshot()
		cfBefore := d.confirmSnapshot()
		// facts about the state before the step that the property refers to
		preGrantee, preLicence, preAccount := map[string]bool{}, map[string]bool{}, map[string]bool{}
		for _, p := range everybody {
			k := p.acc.Addr.String()
			preGrantee[k] = d.lnGranted(F.acc.Addr, p.acc.Addr)
			_, preLicence[k] = before.licences[k]
			preAccount[k] = d.lnHasAccount(p.acc.Addr)
		}
		// does the signer hold an allowance from the creator (on the chain, whoever granted it when)?
		preAuth := S.acc != nil && (S.pid == Cr.pid || d.lnGranted(Cr.acc.Addr, S.acc.Addr))
		ok := false
		switch kind {
		case "sale":
			// what the attestation handler of an observed light-node sale calls
			err := w.God(func(ctx sdk.Context) error {
				return a.PalomaKeeper.CreateSaleLightNodeClientLicense(ctx, arg.acc.Addr.String(), sdkmath.NewInt(1))
			})
			ok = err == nil
		case "lgrant":
			ok = fa.GrantFee(F.acc, arg.acc).OK()
			if !ok {
				d.t.Fatalf("lnh: legacy grant refused")
			}
		case "reimport":
			// the chain is exported and started again from the export (paloma module: licences, client
			// records, feegranter, funders): no transaction of anybody — the monitor below accepts no
			// change of any record or licence at all
			err := w.God(func(ctx sdk.Context) error { return fa.ReimportModuleCtx(ctx, "paloma", "paloma-store") })
			ok = err == nil
			if !ok {
				r.Hit("light-node-export-import-failed", fmt.Sprintf("genesis export / import of the paloma module failed: %.300v", err), line())
			}
		default:
			var msg sdk.Msg
			switch kind {
			case "lic":
				msg = &palomatypes.MsgAddLightNodeClientLicense{ClientAddress: arg.acc.Addr.String(),
					Amount: sdk.NewInt64Coin(FABondDenom, 1000+int64(rng.Intn(1000))), VestingMonths: 6}
			case "reg":
				msg = &palomatypes.MsgRegisterLightNodeClient{}
			case "auth":
				msg = &palomatypes.MsgAuthLightNodeClient{}
			case "legacy":
				msg = &palomatypes.MsgSetLegacyLightNodeClients{}
			}
			ok = w.Deliver(S.acc, Cr.acc, msg).OK()
		}
		if fa.Broken {
			fa.Restart()
		}
		stepTimes = append(stepTimes, fa.Time())
		after := d.lnSnapshot()
		toks = append(toks, fmt.Sprintf("%s;%d;%d;%d;%d", kind, sPid, crPid, map[bool]int{false: 0, true: 1}[g], argPid))
		if ok {
			outs = append(outs, "ok")
			nontrivial = true
		} else {
			outs = append(outs, "rej")
		}
		r.Stat("lnh:" + kind + ":" + outs[len(outs)-1])

		// --- the property on the implementation
		isTx := kind == "lic" || kind == "reg" || kind == "auth" || kind == "legacy"
		signedFor := func(addr string) bool {
			// the step is a transaction in addr's name, signed by addr or by a grantee of addr
			if !isTx || !ok || Cr.acc.Addr.String() != addr {
				return false
			}
			return preAuth
		}
		hit := func(what string) {
			signer := "no transaction of a single principal (" + kind + ")"
			if isTx {
				signer = fmt.Sprintf("a %s transaction signed by principal %d in the name of principal %d (fee grant %v, accepted=%v)", kind, S.pid, Cr.pid, g, ok)
			}
			r.Hit("light-node-cross-principal-write", what+" by "+signer, line())
		}
		keys := map[string]bool{}
		for k := range before.clients {
			keys[k] = true
		}
		for k := range after.clients {
			keys[k] = true
		}
		for k := range keys {
			b, hadB := before.clients[k]
			af, hasA := after.clients[k]
			switch {
			case hadB && hasA && b == af, !hadB && !hasA:
			case hadB:
				// an existing record was altered or removed: only its principal's own transactions do that
				if !(signedFor(k) && (kind == "reg" || kind == "auth")) {
					desc := "removed"
					if hasA {
						desc = fmt.Sprintf("rewritten (activated %s -> %s, last authentication %s -> %s)",
							before.raw[k].ActivatedAt.UTC().Format(time.RFC3339), after.raw[k].ActivatedAt.UTC().Format(time.RFC3339),
							before.raw[k].LastAuthAt.UTC().Format(time.RFC3339), after.raw[k].LastAuthAt.UTC().Format(time.RFC3339))
					}
					hit(fmt.Sprintf("the light-node client record of %s was %s", who(k), desc))
				}
				r.Stat("lnh:record-changed")
			default:
				// a record appeared
				migrated := kind == "legacy" && ok && preGrantee[k] && !preLicence[k]
				if _, known := pidOf[k]; !known && kind == "legacy" && ok {
					// a grantee of the feegranter from outside this history (earlier legacy nodes)
					addr, err := sdk.AccAddressFromBech32(k)
					_, lic := before.licences[k]
					migrated = err == nil && d.lnGranted(F.acc.Addr, addr) && !lic
				}
				if !(signedFor(k) && kind == "reg") && !migrated {
					hit(fmt.Sprintf("a light-node client record appeared for %s (grantee of the feegranter before the step: %v, licence pending: %v)", who(k), preGrantee[k], preLicence[k]))
				}
				r.Stat("lnh:record-created")
				if migrated {
					r.Stat("lnh:record-created-by-migration")
				}
			}
		}
		keys = map[string]bool{}
		for k := range before.licences {
			keys[k] = true
		}
		for k := range after.licences {
			keys[k] = true
		}
		for k := range keys {
			b, hadB := before.licences[k]
			af, hasA := after.licences[k]
			switch {
			case hadB && hasA && b == af, !hadB && !hasA:
			case hadB && hasA:
				hit(fmt.Sprintf("the pending licence of %s was altered", who(k)))
			case hadB:
				if !(signedFor(k) && kind == "reg") {
					hit(fmt.Sprintf("the pending licence of %s was removed", who(k)))
				}
			default:
				named := (kind == "lic" || kind == "sale") && ok && arg.acc != nil && arg.acc.Addr.String() == k
				if !named || preAccount[k] {
					hit(fmt.Sprintf("a licence appeared for %s (account existed before: %v)", who(k), preAccount[k]))
				}
			}
		}
		d.checkConfirms(cfBefore, line())
		if kind == "legacy" && ok && sPid < 30 {
			for _, p := range locals {
				if _, reg := before.clients[p.acc.Addr.String()]; reg && preGrantee[p.acc.Addr.String()] {
					strangerRanMigrationOverRegistered = true
				}
			}
		}
		if g {
			rv := feegrant.NewMsgRevokeAllowance(Cr.acc.Addr, S.acc.Addr)
			if gr := fa.DeliverTx(Cr.acc, &rv); !gr.OK() {
				d.t.Fatalf("lnh revoke: %s %s", gr.Log, gr.BlockErr)
			}
			delete(d.grants, [2]int{Cr.pid, S.pid})
		}
	}

	none := c03Principal{}
	// origins: how each principal came to the chain
	origin := map[int]string{}
	for _, p := range locals {
		switch x := rng.Intn(100); {
		case x < 45:
			origin[p.pid] = "sale"
			step("sale", none, none, false, p)
		case x < 65:
			origin[p.pid] = "lic"
			payer := strangers[rng.Intn(len(strangers))]
			step("lic", payer, payer, false, p)
		case x < 90:
			origin[p.pid] = "lgrant"
			step("lgrant", F, F, false, p)
		default:
			origin[p.pid] = "none"
		}
	}
	directed := rng.Intn(100) < 60
	if directed {
		// the licence holders register, one of them authenticates later, then a stranger migrates
		for _, p := range locals {
			if (origin[p.pid] == "sale" || origin[p.pid] == "lic") && rng.Intn(5) != 0 {
				step("reg", p, p, false, none)
			}
		}
		for _, p := range locals {
			if _, reg := d.lnSnapshot().clients[p.acc.Addr.String()]; reg && rng.Intn(2) == 0 {
				step("auth", p, p, false, none)
			}
		}
		S := strangers[rng.Intn(len(strangers))]
		step("legacy", S, S, false, none)
	}
	if rng.Intn(2) == 0 {
		step("reimport", none, none, false, none)
	}
	extra := 2 + rng.Intn(4)
	for i := 0; i < extra; i++ {
		haveAcc := withAccount(everybody)
		S := haveAcc[rng.Intn(len(haveAcc))]
		L := locals[rng.Intn(len(locals))]
		switch x := rng.Intn(100); {
		case x < 8:
			step("reimport", none, none, false, none)
			continue
		}
		switch x := rng.Intn(100); {
		case x < 25:
			step("legacy", S, S, false, none)
		case x < 45 || x < 60 && !d.lnHasAccount(L.acc.Addr):
			// own registration / authentication (a principal without an account cannot sign: skip to in-name)
			if !d.lnHasAccount(L.acc.Addr) {
				step([]string{"reg", "auth"}[rng.Intn(2)], S, L, false, none)
			} else {
				step([]string{"reg", "auth", "auth"}[rng.Intn(3)], L, L, false, none)
			}
		case x < 70:
			// in L's name, signed by somebody else: without / with a fee grant from L
			g := rng.Intn(2) == 0 && d.lnHasAccount(L.acc.Addr) && S.pid != L.pid && !d.lnGranted(L.acc.Addr, S.acc.Addr)
			step([]string{"reg", "auth"}[rng.Intn(2)], S, L, g, none)
		case x < 80:
			payer := strangers[rng.Intn(len(strangers))]
			step("lic", payer, payer, false, L)
		case x < 88:
			step("sale", none, none, false, L)
		default:
			if !d.lnGranted(F.acc.Addr, L.acc.Addr) {
				step("lgrant", F, F, false, L)
			} else {
				step("legacy", S, S, false, none)
			}
		}
	}
	// final view of the light-node principals of the line
	fin := d.lnSnapshot()
	// The feegranter's allowances of this history are revoked again (by the feegranter itself, one
	// transaction): the authorisation decorator reads only the FIRST PAGE (100 entries) of
	// AllowancesByGranter(creator), so a granter with more allowances than that cannot be acted for
	// by its later grantees any more (see Props/C03.md) — the other scenarios use this account too.
	var revokes []sdk.Msg
	for _, p := range locals {
		if d.lnGranted(F.acc.Addr, p.acc.Addr) {
			rv := feegrant.NewMsgRevokeAllowance(F.acc.Addr, p.acc.Addr)
			revokes = append(revokes, &rv)
		}
	}
	if len(revokes) > 0 {
		if rr := fa.DeliverTx(F.acc, revokes...); !rr.OK() {
			d.t.Fatalf("lnh: revoking the feegranter's allowances: %s %s", rr.Log, rr.BlockErr)
		}
	}
	idx := func(t time.Time) string {
		for i, st := range stepTimes {
			if st.Equal(t) {
				return fmt.Sprint(i + 1)
			}
		}
		return "?"
	}
	var recs []string
	for _, p := range locals {
		if !mentioned[p.pid] {
			continue
		}
		k := p.acc.Addr.String()
		rec := "-"
		if c, ok := fin.raw[k]; ok {
			rec = idx(c.ActivatedAt) + "/" + idx(c.LastAuthAt)
		}
		lic := 0
		if _, ok := fin.licences[k]; ok {
			lic = 1
		}
		recs = append(recs, fmt.Sprintf("%d:%s/%d", p.pid, rec, lic))
	}
	r.Op(line(), strings.Join(outs, ",")+"|"+strings.Join(recs, ","))
	r.Stat("sc:light-node-history")
	if strangerRanMigrationOverRegistered {
		r.Stat("lnh:migration-by-stranger-while-registered-grantee-exists")
	}
	r.Case(line(), nontrivial)
}
