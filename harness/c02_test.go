//go:build verif

package harness

import (
	"fmt"
	"math/big"
	"sort"
	"strings"
	"testing"
	"time"

	sdkmath "cosmossdk.io/math"
	sdk "github.com/cosmos/cosmos-sdk/types"
	evmtypes "github.com/palomachain/paloma/v2/x/evm/types"
	"github.com/palomachain/paloma/v2/x/skyway"
	skykeeper "github.com/palomachain/paloma/v2/x/skyway/keeper"
	skytypes "github.com/palomachain/paloma/v2/x/skyway/types"
)

// C02 — oracle safety. Model: lean/PalomaModel/Model/Oracle.lean.

type c02Att struct {
	nonce    uint64
	hash     string // decimal of the 32-byte claim hash
	votes    []int
	observed bool
	amount   int64
	appl     bool
	compass  int // index of the stored claim's compass id ("compass-<k>"), 0 = none / unknown
}

// c02Compass names the bridge deployment ids of the C02 generator; index 1 is the fixture's skyCompass.
func c02Compass(k int) string { return fmt.Sprintf("compass-%d", k) }

func c02CompassIndex(s string) int {
	if s == "" {
		return 0
	}
	for k := 1; k <= 9; k++ {
		if s == c02Compass(k) {
			return k
		}
	}
	return -1
}

type c02Harness struct {
	r   *Rec
	e   *skyEnv
	ops []string
	// monitor bookkeeping
	applied      map[string]bool // nonce/hash of effects seen (per epoch)
	expectSupply *big.Int
	claimAmt     map[string]int64 // hash -> amount (0 when not applicable)
	obsNonces    []uint64         // nonces observed in this epoch, in order
	seenObserved map[string]bool
	epochStart   uint64         // cursor value installed by the last governance override (0 at genesis)
	obsCount     map[uint64]int // nonce -> attestations that became observed since the last override
	dep          int            // index of the bridge deployment id installed by the last activation
}

func (c *c02Harness) valIndex(oper string) int {
	for i, v := range skykeeper.ValAddrs {
		if v.String() == oper {
			return i + 1
		}
	}
	return 0
}

func (c *c02Harness) atts() []c02Att {
	e := c.e
	var out []c02Att
	err := e.raw.IterateAttestations(e.ctx, skyChain, false, func(_ []byte, att skytypes.Attestation) bool {
		claim, err := e.raw.UnpackAttestationClaim(&att)
		if err != nil {
			c.r.t.Fatal(err)
		}
		h, _ := claim.ClaimHash()
		a := c02Att{nonce: claim.GetSkywayNonce(), hash: new(big.Int).SetBytes(h).String(), observed: att.Observed, compass: c02CompassIndex(claim.GetCompassID())}
		for _, v := range att.Votes {
			a.votes = append(a.votes, c.valIndex(v))
		}
		out = append(out, a)
		return false
	})
	if err != nil {
		c.r.t.Fatal(err)
	}
	sort.Slice(out, func(i, j int) bool {
		if out[i].nonce != out[j].nonce {
			return out[i].nonce < out[j].nonce
		}
		x, _ := new(big.Int).SetString(out[i].hash, 10)
		y, _ := new(big.Int).SetString(out[j].hash, 10)
		return x.Cmp(y) < 0
	})
	return out
}

func (c *c02Harness) state() string {
	e := c.e
	var sb strings.Builder
	last, _ := e.raw.GetLastObservedSkywayNonce(e.ctx, skyChain)
	eth := e.raw.GetLastObservedEthereumBlockHeight(e.ctx, skyChain).EthereumBlockHeight
	fmt.Fprintf(&sb, "last=%d eth=%d nonces=", last, eth)
	for i, v := range skykeeper.ValAddrs {
		n, err := e.raw.GetLastSkywayNonceByValidator(e.ctx, v, skyChain)
		if err != nil {
			c.r.t.Fatal(err)
		}
		if i > 0 {
			sb.WriteString(",")
		}
		fmt.Fprint(&sb, n)
	}
	sb.WriteString(" atts=")
	as := c.atts()
	if len(as) == 0 {
		sb.WriteString("-")
	}
	for i, a := range as {
		if i > 0 {
			sb.WriteString(";")
		}
		vs := make([]string, len(a.votes))
		for j, v := range a.votes {
			vs[j] = fmt.Sprint(v)
		}
		o := 0
		if a.observed {
			o = 1
		}
		fmt.Fprintf(&sb, "%d:%s:%s:%d", a.nonce, a.hash, strings.Join(vs, "."), o)
	}
	fmt.Fprintf(&sb, " minted=%s", e.in.BankKeeper.GetSupply(e.ctx, e.denoms[0]).Amount)
	fmt.Fprintf(&sb, " dep=%d", c02CompassIndex(e.raw.GetLatestCompassID(e.ctx, skyChain)))
	return sb.String()
}

func (c *c02Harness) replay() map[string]interface{} {
	return map[string]interface{}{"ops": append([]string(nil), c.ops...)}
}

func (c *c02Harness) emit(line, out string) {
	c.ops = append(c.ops, line)
	c.r.Op(line, out)
}

func (c *c02Harness) checkVotes(op string) {
	for _, a := range c.atts() {
		seen := map[int]bool{}
		for _, v := range a.votes {
			if seen[v] {
				c.r.Hit("votes_nodup", fmt.Sprintf("validator %d appears twice in attestation %d after `%s`", v, a.nonce, op), c.replay())
			}
			seen[v] = true
		}
	}
}

// no_nonce_gap: since the last override the cursor has moved only together with an observation, one nonce
// at a time: every nonce in (override value, cursor] has exactly one attestation that became observed
// since then, and nothing was observed outside that range.
func (c *c02Harness) checkGap(op string) {
	last, _ := c.e.raw.GetLastObservedSkywayNonce(c.e.ctx, skyChain)
	if last < c.epochStart {
		c.r.Hit("no_nonce_gap", fmt.Sprintf("cursor %d below the override value %d after `%s`", last, c.epochStart, op), c.replay())
		return
	}
	if last-c.epochStart > 1000 {
		c.r.Hit("no_nonce_gap", fmt.Sprintf("cursor jumped from %d to %d after `%s`", c.epochStart, last, op), c.replay())
		return
	}
	for n := c.epochStart + 1; n <= last; n++ {
		if c.obsCount[n] != 1 {
			c.r.Hit("no_nonce_gap", fmt.Sprintf("cursor at %d (override value %d) but nonce %d has %d observed claims after `%s`", last, c.epochStart, n, c.obsCount[n], op), c.replay())
		}
	}
	for n, k := range c.obsCount {
		if k > 0 && (n <= c.epochStart || n > last) {
			c.r.Hit("no_nonce_gap", fmt.Sprintf("nonce %d observed outside (%d, %d] after `%s`", n, c.epochStart, last, op), c.replay())
		}
	}
}

func TestC02(t *testing.T) {
	r := NewRec(t, "C02")
	defer r.Close()
	nops := int(envInt("VERIF_OPS", 45))
	for cs := 0; cs < r.N; cs++ {
		runC02Case(t, r, nops)
	}
}

func runC02Case(t *testing.T, r *Rec, nops int) {
	e := newSkyEnv(t, 2)
	e.addToken("utok1", "0x1000000000000000000000000000000000000001")
	c := &c02Harness{r: r, e: e, applied: map[string]bool{}, expectSupply: new(big.Int), claimAmt: map[string]int64{}, seenObserved: map[string]bool{}, obsCount: map[uint64]int{}, dep: 1}
	if skyCompass != c02Compass(1) {
		t.Fatalf("C02: the fixture's compass id %q is not %q", skyCompass, c02Compass(1))
	}
	c.emit("reset", "ok")
	nv := len(skykeeper.ValAddrs)
	nonTrivial := false
	// the validators' view of the remote chain: up to 3 competing claims per nonce
	mkClaim := func(n uint64, variant int, eth uint64, orch sdk.AccAddress, compass int) *skytypes.MsgSendToPalomaClaim {
		contract := e.erc20[0]
		if variant == 3 {
			contract = "0x2000000000000000000000000000000000000009" // unregistered token: handler fails
		}
		return &skytypes.MsgSendToPalomaClaim{EventNonce: n, EthBlockHeight: eth, TokenContract: contract,
			Amount: sdkmath.NewInt(int64(100*variant) + int64(n)), EthereumSender: "0x00000000000000000000000000000000000000bb",
			PalomaReceiver: e.users[0].String(), Orchestrator: orch.String(), ChainReferenceId: skyChain, Metadata: e.meta(orch), SkywayNonce: n, CompassId: c02Compass(compass)}
	}
	ethOf := map[uint64]uint64{}
	ethBase := uint64(100) // remote heights reported after a re-deployment start above everything observed before
	nextContract := uint64(2)
	burst, burstStart := 0, 0
	for i := 0; i < nops; i++ {
		x := r.Rng.Intn(100)
		switch {
		case x < 62: // a validator votes (in bursts, so that quorums actually form)
			v := r.Rng.Intn(nv)
			if burst > 0 {
				burst--
				v = (burstStart + burst) % nv
			} else if r.Rng.Intn(5) == 0 {
				burst, burstStart = 2+r.Rng.Intn(3), r.Rng.Intn(nv)
			}
			last, _ := e.raw.GetLastSkywayNonceByValidator(e.ctx, skykeeper.ValAddrs[v], skyChain)
			n := last + 1
			switch r.Rng.Intn(10) {
			case 0:
				n = last // stale
			case 1:
				n = last + 2 // gap
			}
			if n == 0 {
				n = 1
			}
			variant := 1
			if r.Rng.Intn(4) == 0 {
				variant = 2 + r.Rng.Intn(2)
			}
			if _, ok := ethOf[n]; !ok {
				ethOf[n] = ethBase + 10*n
				if r.Rng.Intn(12) == 0 {
					ethOf[n] = 50 // a remote height below an earlier one: TryAttestation errors after moving the cursor
				}
			}
			eth := ethOf[n]
			// the claim's bridge deployment: mostly the current one, sometimes another (Attest stores it
			// all the same; only the tally's mapping leaves it out)
			compass := c.dep
			if r.Rng.Intn(6) == 0 {
				compass = 1 + r.Rng.Intn(3)
			}
			if compass != c.dep {
				r.Stat("vote.other_deployment")
			}
			m := mkClaim(n, variant, eth, e.orch(v), compass)
			h, _ := m.ClaimHash()
			hs := new(big.Int).SetBytes(h).String()
			appl := 1
			if variant == 3 {
				appl = 0
			} else {
				c.claimAmt[fmt.Sprintf("%d/%s", n, hs)] = m.Amount.Int64()
			}
			res := e.runMsg(func(ctx sdk.Context) error {
				_, err := e.ms.SendToPalomaClaim(ctx, m)
				return err
			})
			op := fmt.Sprintf("vote %d %d %s %d %d %d %d", v+1, n, hs, eth, appl, m.Amount.Int64(), compass)
			c.emit(op, res+" "+c.state())
			r.Stat("vote." + res)
			c.checkVotes(op)
			c.checkGap(op)
		case x < 86: // end of block: tally with a fresh power table
			powers := make([]int64, nv)
			total := int64(0)
			mode := r.Rng.Intn(4)
			for j := range powers {
				switch mode {
				case 0:
					powers[j] = 10
				case 1:
					powers[j] = int64(r.Rng.Intn(4))
				default:
					powers[j] = int64(r.Rng.Intn(100))
				}
				total += powers[j]
			}
			outside := int64(0)
			if r.Rng.Intn(4) == 0 {
				outside = int64(r.Rng.Intn(50)) // bonded power outside our five validators
				total += outside
			}
			for j, v := range skykeeper.ValAddrs {
				if err := e.in.StakingKeeper.SetLastValidatorPower(e.ctx, v, powers[j]); err != nil {
					t.Fatal(err)
				}
			}
			if err := e.in.StakingKeeper.SetLastTotalPower(e.ctx, sdkmath.NewInt(total)); err != nil {
				t.Fatal(err)
			}
			h := e.height + 1
			kind := "endblock"
			if r.Rng.Intn(4) == 0 {
				h = (e.height/50 + 1) * 50
				kind = "endblock50"
			}
			e.setBlock(h, e.now.Add(2*time.Second))
			before := c.atts()
			supBefore := e.in.BankKeeper.GetSupply(e.ctx, e.denoms[0]).Amount
			lastBefore, _ := e.raw.GetLastObservedSkywayNonce(e.ctx, skyChain)
			// collaborator fault: in one tally out of three the chain-info lookup behind ONE of the
			// observation events of this block fails (their number is counted on a throw-away branch
			// first). The claim is then already applied; TryAttestation returns the error and the rest of
			// this chain's tally is skipped (model: `eventFailed`). An observed claim whose effect is
			// missing shows up in `applied_exactly_once` and in the state line.
			e.fault.Reset("", 0)
			faulted := "-"
			if r.Rng.Intn(3) == 0 {
				cctx, _ := e.ctx.CacheContext()
				skyway.EndBlocker(cctx, e.k, e.cc)
				if n := e.fault.Counts["evm.chaininfo"]; n > 0 {
					e.fault.Reset("evm.chaininfo", 1+r.Rng.Intn(n))
					r.Stat("tally.fault_at_observation_event")
				} else {
					e.fault.Reset("", 0)
				}
			}
			e.endBlock()
			if e.fault.Target != "" {
				if !e.fault.Fired {
					t.Fatalf("C02: the planned fault did not fire (calls %v)", e.fault.Counts)
				}
				// the tally stopped right after the observation whose event failed: it is the newly
				// observed attestation with the highest nonce
				wasObs := map[string]bool{}
				for _, a := range before {
					wasObs[fmt.Sprintf("%d/%s", a.nonce, a.hash)] = a.observed
				}
				var hi *c02Att
				for _, a := range c.atts() {
					a := a
					if a.observed && !wasObs[fmt.Sprintf("%d/%s", a.nonce, a.hash)] && (hi == nil || a.nonce > hi.nonce) {
						hi = &a
					}
				}
				if hi == nil {
					t.Fatalf("C02: an observation event failed but nothing was observed")
				}
				faulted = fmt.Sprintf("%d:%s", hi.nonce, hi.hash)
			}
			e.fault.Reset("", 0)
			ps := make([]string, nv)
			for j := range powers {
				ps[j] = fmt.Sprintf("%d:%d", j+1, powers[j])
			}
			if outside > 0 {
				// the model derives the total from the power table (staking keeps LastTotalPower equal to the
				// sum of the LastValidatorPower records): the outside power is the row of a sixth, never voting validator
				ps = append(ps, fmt.Sprintf("%d:%d", nv+1, outside))
			}
			op := fmt.Sprintf("%s %s %d %s", kind, strings.Join(ps, ","), total, faulted)
			c.emit(op, c.state())
			r.Stat("op." + kind)
			// ---- monitors ----
			was := map[string]bool{}
			for _, a := range before {
				was[fmt.Sprintf("%d/%s", a.nonce, a.hash)] = a.observed
			}
			minted := int64(0)
			cursor := lastBefore
			for _, a := range c.atts() {
				key := fmt.Sprintf("%d/%s", a.nonce, a.hash)
				if a.observed && !was[key] {
					nonTrivial = true
					r.Stat("observed")
					// quorum over the SET of voters with the table of this very tally
					set := map[int]bool{}
					sum := int64(0)
					for _, v := range a.votes {
						if !set[v] {
							set[v] = true
							sum += powers[v-1]
						}
					}
					if !(100*sum > 66*total) {
						r.Hit("observed_has_quorum", fmt.Sprintf("attestation %d observed with %d of %d power after `%s`", a.nonce, sum, total, op), c.replay())
					}
					if a.nonce != cursor+1 {
						r.Hit("consecutive_order", fmt.Sprintf("nonce %d observed while the cursor stood at %d", a.nonce, cursor), c.replay())
					}
					// per bridge deployment: only claims of the deployment on record are tallied
					if c.dep != 0 && a.compass != c.dep {
						r.Hit("observed_of_current_deployment", fmt.Sprintf("claim of deployment %d observed at nonce %d while deployment %d is on record after `%s`", a.compass, a.nonce, c.dep, op), c.replay())
					}
					cursor = a.nonce
					if c.seenObserved[fmt.Sprint(a.nonce)] {
						r.Hit("one_claim_per_nonce", fmt.Sprintf("second claim observed at nonce %d in one epoch", a.nonce), c.replay())
					}
					c.seenObserved[fmt.Sprint(a.nonce)] = true
					c.obsCount[a.nonce]++
					minted += c.claimAmt[key]
				}
			}
			c.checkGap(op)
			got := e.in.BankKeeper.GetSupply(e.ctx, e.denoms[0]).Amount.Sub(supBefore).Int64()
			if got != minted {
				r.Hit("applied_exactly_once", fmt.Sprintf("this tally minted %d but the newly observed applicable claims total %d", got, minted), c.replay())
			}
		case x < 93: // governance nonce override
			last, _ := e.raw.GetLastObservedSkywayNonce(e.ctx, skyChain)
			n := last
			if last > 0 && r.Rng.Intn(2) == 0 {
				n = last - 1
			}
			if r.Rng.Intn(5) == 0 {
				n = last + uint64(r.Rng.Intn(3))
			}
			if err := e.k.VerifOverrideNonce(e.ctx, skyChain, n); err != nil {
				t.Fatal(err)
			}
			c.seenObserved = map[string]bool{}
			c.epochStart, c.obsCount = n, map[uint64]int{}
			c.emit(fmt.Sprintf("override %d", n), c.state())
			r.Stat("op.override")
		case x < 96: // chain activation: the bridge is (re-)deployed with a compass id; the cursor is reset to 0
			k := 1 + r.Rng.Intn(3)
			addr := fmt.Sprintf("0x%040x", 0x1234+nextContract)
			if err := e.in.EvmKeeper.ActivateChainReferenceID(e.ctx, skyChain, &evmtypes.SmartContract{Id: nextContract}, addr, []byte(c02Compass(k))); err != nil {
				t.Fatal(err)
			}
			nextContract++
			if got := e.raw.GetLatestCompassID(e.ctx, skyChain); got != c02Compass(k) {
				t.Fatalf("C02: activation did not install compass id %q (got %q)", c02Compass(k), got)
			}
			c.dep = k
			c.seenObserved = map[string]bool{}
			c.epochStart, c.obsCount = 0, map[uint64]int{}
			// the remote chain goes on: later events are reported at heights above everything seen so far
			ethBase = e.raw.GetLastObservedEthereumBlockHeight(e.ctx, skyChain).EthereumBlockHeight + 100
			ethOf = map[uint64]uint64{}
			op := fmt.Sprintf("activate %d", k)
			c.emit(op, c.state())
			r.Stat("op.activate")
			c.checkGap(op)
		default: // an idle block
			e.setBlock(e.height+1, e.now.Add(2*time.Second))
		}
	}
	r.Case(strings.Join(c.ops, "|"), nonTrivial)
}
