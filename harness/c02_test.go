//go:build verif

package harness

import (
	"fmt"
	"math/big"
	"sort"
	"strings"
	"testing"
	"time"

	sdkmath "cosmossdk.io/math"
	sdk "github.com/cosmos/cosmos-sdk/types"
	evmtypes "github.com/palomachain/paloma/v2/x/evm/types"
	"github.com/palomachain/paloma/v2/x/skyway"
	skykeeper "github.com/palomachain/paloma/v2/x/skyway/keeper"
	skytypes "github.com/palomachain/paloma/v2/x/skyway/types"
)

// C02 — oracle safety. Model: lean/PalomaModel/Model/Oracle.lean.

type c02Att struct {
	nonce    uint64
	hash     string // decimal of the 32-byte claim hash
	votes    []int
	observed bool
	amount   int64
	appl     bool
	compass  int      // index of the stored claim's compass id ("compass-<k>"), 0 = none / unknown
	ev       c02Event // the stored claim, field by field
}

// c02Compass names the bridge deployment ids of the C02 generator; index 1 is the fixture's skyCompass.
func c02Compass(k int) string { return fmt.Sprintf("compass-%d", k) }

func c02CompassIndex(s string) int {
	if s == "" {
		return 0
	}
	for k := 1; k <= 9; k++ {
		if s == c02Compass(k) {
			return k
		}
	}
	return -1
}

type c02Harness struct {
	r   *Rec
	e   *skyEnv
	ops []string
	// monitor bookkeeping
	applied      map[string]bool // nonce/hash of effects seen (per epoch)
	expectSupply *big.Int
	claimAmt     map[string]int64 // hash -> amount (0 when not applicable)
	obsNonces    []uint64         // nonces observed in this epoch, in order
	seenObserved map[string]bool
	epochStart   uint64                  // cursor value installed by the last governance override (0 at genesis)
	obsCount     map[uint64]int          // nonce -> attestations that became observed since the last override
	dep          int                     // index of the bridge deployment id installed by the last activation
	cids         map[string]int          // claim identity (all fields) -> number used on the protocol line
	acceptedBy   map[string]map[int]bool // claim identity -> validators that THEMSELVES sent (authenticated creator = the validator's own account) an accepted vote for exactly that claim
	executedTx   map[int]bool            // transfers of batches whose executed-batch claim took effect
}

func (c *c02Harness) valIndex(oper string) int {
	for i, v := range skykeeper.ValAddrs {
		if v.String() == oper {
			return i + 1
		}
	}
	return 0
}

func (c *c02Harness) atts() []c02Att {
	e := c.e
	var out []c02Att
	err := e.raw.IterateAttestations(e.ctx, skyChain, false, func(_ []byte, att skytypes.Attestation) bool {
		claim, err := e.raw.UnpackAttestationClaim(&att)
		if err != nil {
			c.r.t.Fatal(err)
		}
		h, _ := claim.ClaimHash()
		a := c02Att{nonce: claim.GetSkywayNonce(), hash: new(big.Int).SetBytes(h).String(), observed: att.Observed, compass: c02CompassIndex(claim.GetCompassID()), ev: c.eventOf(claim)}
		for _, v := range att.Votes {
			a.votes = append(a.votes, c.valIndex(v))
		}
		out = append(out, a)
		return false
	})
	if err != nil {
		c.r.t.Fatal(err)
	}
	sort.Slice(out, func(i, j int) bool {
		if out[i].nonce != out[j].nonce {
			return out[i].nonce < out[j].nonce
		}
		x, _ := new(big.Int).SetString(out[i].hash, 10)
		y, _ := new(big.Int).SetString(out[j].hash, 10)
		return x.Cmp(y) < 0
	})
	return out
}

func (c *c02Harness) state() string {
	e := c.e
	var sb strings.Builder
	last, _ := e.raw.GetLastObservedSkywayNonce(e.ctx, skyChain)
	eth := e.raw.GetLastObservedEthereumBlockHeight(e.ctx, skyChain).EthereumBlockHeight
	fmt.Fprintf(&sb, "last=%d eth=%d nonces=", last, eth)
	for i, v := range skykeeper.ValAddrs {
		n, err := e.raw.GetLastSkywayNonceByValidator(e.ctx, v, skyChain)
		if err != nil {
			c.r.t.Fatal(err)
		}
		if i > 0 {
			sb.WriteString(",")
		}
		fmt.Fprint(&sb, n)
	}
	sb.WriteString(" atts=")
	as := c.atts()
	if len(as) == 0 {
		sb.WriteString("-")
	}
	for i, a := range as {
		if i > 0 {
			sb.WriteString(";")
		}
		vs := make([]string, len(a.votes))
		for j, v := range a.votes {
			vs[j] = fmt.Sprint(v)
		}
		o := 0
		if a.observed {
			o = 1
		}
		fmt.Fprintf(&sb, "%d:%s:%s:%d", a.nonce, a.hash, strings.Join(vs, "."), o)
	}
	fmt.Fprintf(&sb, " supply=%s", e.in.BankKeeper.GetSupply(e.ctx, e.denoms[0]).Amount)
	fmt.Fprintf(&sb, " dep=%d", c02CompassIndex(e.raw.GetLatestCompassID(e.ctx, skyChain)))
	sb.WriteString(c.bridgeState())
	return sb.String()
}

func (c *c02Harness) replay() map[string]interface{} {
	return map[string]interface{}{"ops": append([]string(nil), c.ops...)}
}

func (c *c02Harness) emit(line, out string) {
	c.ops = append(c.ops, line)
	c.r.Op(line, out)
}

func (c *c02Harness) checkVotes(op string) {
	for _, a := range c.atts() {
		seen := map[int]bool{}
		for _, v := range a.votes {
			if seen[v] {
				c.r.Hit("votes_nodup", fmt.Sprintf("validator %d appears twice in attestation %d after `%s`", v, a.nonce, op), c.replay())
			}
			seen[v] = true
		}
	}
}

// no_nonce_gap: since the last override the cursor has moved only together with an observation, one nonce
// at a time: every nonce in (override value, cursor] has exactly one attestation that became observed
// since then, and nothing was observed outside that range.
func (c *c02Harness) checkGap(op string) {
	last, _ := c.e.raw.GetLastObservedSkywayNonce(c.e.ctx, skyChain)
	if last < c.epochStart {
		c.r.Hit("no_nonce_gap", fmt.Sprintf("cursor %d below the override value %d after `%s`", last, c.epochStart, op), c.replay())
		return
	}
	if last-c.epochStart > 1000 {
		c.r.Hit("no_nonce_gap", fmt.Sprintf("cursor jumped from %d to %d after `%s`", c.epochStart, last, op), c.replay())
		return
	}
	for n := c.epochStart + 1; n <= last; n++ {
		if c.obsCount[n] != 1 {
			c.r.Hit("no_nonce_gap", fmt.Sprintf("cursor at %d (override value %d) but nonce %d has %d observed claims after `%s`", last, c.epochStart, n, c.obsCount[n], op), c.replay())
		}
	}
	for n, k := range c.obsCount {
		if k > 0 && (n <= c.epochStart || n > last) {
			c.r.Hit("no_nonce_gap", fmt.Sprintf("nonce %d observed outside (%d, %d] after `%s`", n, c.epochStart, last, op), c.replay())
		}
	}
}

func TestC02(t *testing.T) {
	r := NewRec(t, "C02")
	defer r.Close()
	nops := int(envInt("VERIF_OPS", 45))
	for cs := 0; cs < r.N; cs++ {
		runC02Case(t, r, nops, cs)
	}
}

const c02OtherToken = "0x2000000000000000000000000000000000000009" // unregistered: no denom, no batches

// the contract light-node sales are reported from. The keeper fixture has no paloma keeper behind the sale
// handler and no sale contract on record for the chain: a sale claim is voted, tallied and observed like any
// other claim, its handler applies nothing (Props/C02.md, "Light-node sales").
const c02SaleContract = "0x9E1BDB7D24D4Ca3cB8b0c8e8f4A6d3f2B1c0A9E8"

var c02Senders = []string{"0x00000000000000000000000000000000000000bb", "0x00000000000000000000000000000000000000cc"}

// c02Event is one claim about a remote-chain event as a validator reports it. EVERY field is part of the
// claim's identity (`key`), whatever the implementation's ClaimHash covers.
type c02Event struct {
	kind     string // "dep": MsgSendToPalomaClaim, "exec": MsgBatchSendToRemoteClaim, "ln": MsgLightNodeSaleClaim
	n, eth   uint64
	token    string // dep / exec: the token contract; ln: the sale contract the event was seen on
	compass  int
	amount   int64  // dep, ln
	sender   string // dep
	receiver int    // dep: user index of the receiver; ln: of the client the licence is sold to
	batch    uint64 // exec: batch nonce
}

func (ev c02Event) key() string {
	return fmt.Sprintf("%s|%d|%d|%s|%d|%d|%s|%d|%d", ev.kind, ev.n, ev.eth, strings.ToLower(ev.token), ev.compass, ev.amount, ev.sender, ev.receiver, ev.batch)
}

// c02EventOf reads the identity of a stored claim back from the implementation's attestation.
func (c *c02Harness) eventOf(claim skytypes.EthereumClaim) c02Event {
	switch m := claim.(type) {
	case *skytypes.MsgSendToPalomaClaim:
		recv := 0
		for i, u := range c.e.users {
			if u.String() == m.PalomaReceiver {
				recv = i
			}
		}
		return c02Event{kind: "dep", n: m.SkywayNonce, eth: m.EthBlockHeight, token: m.TokenContract, compass: c02CompassIndex(m.CompassId), amount: m.Amount.Int64(), sender: m.EthereumSender, receiver: recv}
	case *skytypes.MsgBatchSendToRemoteClaim:
		return c02Event{kind: "exec", n: m.SkywayNonce, eth: m.EthBlockHeight, token: m.TokenContract, compass: c02CompassIndex(m.CompassId), batch: m.BatchNonce}
	case *skytypes.MsgLightNodeSaleClaim:
		cl := 0
		for i, u := range c.e.users {
			if u.String() == m.ClientAddress {
				cl = i
			}
		}
		return c02Event{kind: "ln", n: m.SkywayNonce, eth: m.EthBlockHeight, token: m.SmartContractAddress, compass: c02CompassIndex(m.CompassId), amount: m.Amount.Int64(), receiver: cl}
	}
	c.r.t.Fatalf("C02: unexpected claim type %T", claim)
	return c02Event{}
}

// c02EventNonce: the bridge contract numbers ALL its events (EventNonce), the oracle orders the bridge events only (SkywayNonce);
// the two differ on a real chain, so they differ here - a keeper that reads the wrong one orders claims wrongly
func c02EventNonce(skywayNonce uint64) uint64 { return 3*skywayNonce + 1000 }

// msgOf builds the claim message for event ev as the account `creator` gets it delivered (Metadata.Creator /
// Signers: what the ante handler authenticated), naming `orch` in the body's Orchestrator field. An honest
// validator names itself; nothing but the handler stops anybody from naming somebody else.
func (c *c02Harness) msgOf(ev c02Event, creator, orch sdk.AccAddress) sdk.Msg {
	e := c.e
	switch ev.kind {
	case "exec":
		return &skytypes.MsgBatchSendToRemoteClaim{EventNonce: c02EventNonce(ev.n), EthBlockHeight: ev.eth, BatchNonce: ev.batch, TokenContract: ev.token,
			ChainReferenceId: skyChain, Orchestrator: orch.String(), Metadata: e.meta(creator), SkywayNonce: ev.n, CompassId: c02Compass(ev.compass)}
	case "ln":
		return &skytypes.MsgLightNodeSaleClaim{EventNonce: c02EventNonce(ev.n), EthBlockHeight: ev.eth, ClientAddress: e.users[ev.receiver].String(),
			Amount: sdkmath.NewInt(ev.amount), SmartContractAddress: ev.token,
			ChainReferenceId: skyChain, Orchestrator: orch.String(), Metadata: e.meta(creator), SkywayNonce: ev.n, CompassId: c02Compass(ev.compass)}
	}
	return &skytypes.MsgSendToPalomaClaim{EventNonce: c02EventNonce(ev.n), EthBlockHeight: ev.eth, TokenContract: ev.token,
		Amount: sdkmath.NewInt(ev.amount), EthereumSender: ev.sender,
		PalomaReceiver: e.users[ev.receiver].String(), Orchestrator: orch.String(), ChainReferenceId: skyChain, Metadata: e.meta(creator), SkywayNonce: ev.n, CompassId: c02Compass(ev.compass)}
}

// Accounts on the protocol line: validator k (1-based) has account k - its orchestrator account is the account
// with the bytes of its operator address; 11, 12, ... are the fixture's user accounts, which are no validators.
const c02UserAcct = 11

func (c *c02Harness) acctAddr(a int) sdk.AccAddress {
	if a >= c02UserAcct {
		return c.e.users[a-c02UserAcct]
	}
	return c.e.orch(a - 1)
}

// c02VoteView is what a claim message may change in the name of a validator: its entries in the vote lists
// and its last-voted-nonce record.
type c02VoteView struct {
	votes  map[string]bool // "<nonce>/<hash>/<validator>"
	nonces []uint64
}

func (c *c02Harness) voteView() c02VoteView {
	v := c02VoteView{votes: map[string]bool{}}
	for _, a := range c.atts() {
		for _, w := range a.votes {
			v.votes[fmt.Sprintf("%d/%s/%d", a.nonce, a.hash, w)] = true
		}
	}
	for _, val := range skykeeper.ValAddrs {
		n, err := c.e.raw.GetLastSkywayNonceByValidator(c.e.ctx, val, skyChain)
		if err != nil {
			c.r.t.Fatal(err)
		}
		v.nonces = append(v.nonces, n)
	}
	return v
}

// vote_cast_by_validator_itself ("validators ... have EACH voted"): a claim message delivered for account C
// records a vote of - and moves the voting record of - no validator but the one whose own account C is. The
// Orchestrator field of the body is text chosen by the sender: it gives nobody a vote.
func (c *c02Harness) checkCastBy(before c02VoteView, creator int, op string) {
	after := c.voteView()
	var keys []string
	for k := range after.votes {
		if !before.votes[k] {
			keys = append(keys, k)
		}
	}
	sort.Strings(keys)
	for _, k := range keys {
		var n uint64
		var h string
		var w int
		parts := strings.Split(k, "/")
		fmt.Sscan(parts[0], &n)
		h = parts[1]
		fmt.Sscan(parts[2], &w)
		if w != creator {
			c.r.Hit("vote_cast_by_validator_itself", fmt.Sprintf("a claim message delivered for account %d recorded a vote of validator %d (which sent nothing) for claim %d/%s after `%s`", creator, w, n, h, op), c.replay())
		}
	}
	for i := range after.nonces {
		if after.nonces[i] != before.nonces[i] && i+1 != creator {
			c.r.Hit("vote_cast_by_validator_itself", fmt.Sprintf("a claim message delivered for account %d moved the voting record of validator %d from nonce %d to %d after `%s`", creator, i+1, before.nonces[i], after.nonces[i], op), c.replay())
		}
	}
}

// c02Batch is the harness's own record of an open batch (the reference the monitors decide against).
type c02Batch struct {
	id      uint64
	total   int64
	timeout uint64
	txs     []int
}

func (c *c02Harness) openBatches() []c02Batch {
	var out []c02Batch
	for _, b := range c.e.batchList() {
		ob := c02Batch{id: uint64(b.nonce), timeout: b.timeout}
		for _, tx := range b.raw.Transactions {
			ob.total += tx.Erc20Token.Amount.Int64() + tx.BridgeTaxAmount.Int64()
			ob.txs = append(ob.txs, int(tx.Id))
		}
		out = append(out, ob)
	}
	sort.Slice(out, func(i, j int) bool { return out[i].id < out[j].id })
	return out
}

func (c *c02Harness) bridgeState() string {
	var bs []string
	for _, b := range c.openBatches() {
		bs = append(bs, fmt.Sprintf("%d:%d:%d", b.id, b.total, b.timeout))
	}
	bS := "-"
	if len(bs) > 0 {
		bS = strings.Join(bs, ",")
	}
	pool := int64(0)
	for _, tx := range c.e.poolTxs() {
		a, _ := new(big.Int).SetString(tx.amount, 10)
		x, _ := new(big.Int).SetString(tx.tax, 10)
		pool += a.Int64() + x.Int64()
	}
	return fmt.Sprintf(" open=%s pool=%d", bS, pool)
}

// executed_transfer_stays_executed: a transfer whose batch was executed on the remote chain (an
// executed-batch claim for it took effect while the batch was open) is never again in the unbatched pool or
// in an open batch — the effect of the claim is not undone and cannot be applied a second time.
func (c *c02Harness) checkExecuted(op string) {
	if len(c.executedTx) == 0 {
		return
	}
	for _, tx := range c.e.poolTxs() {
		if c.executedTx[tx.id] {
			c.r.Hit("executed_transfer_stays_executed", fmt.Sprintf("transfer %d of an executed batch is in the unbatched pool after `%s`", tx.id, op), c.replay())
		}
	}
	for _, b := range c.openBatches() {
		for _, id := range b.txs {
			if c.executedTx[id] {
				c.r.Hit("executed_transfer_stays_executed", fmt.Sprintf("transfer %d of an executed batch is in open batch %d after `%s`", id, b.id, op), c.replay())
			}
		}
	}
}

func runC02Case(t *testing.T, r *Rec, nops int, caseNo int) {
	e := newSkyEnv(t, 2)
	e.addToken("utok1", "0x1000000000000000000000000000000000000001")
	c := &c02Harness{r: r, e: e, applied: map[string]bool{}, expectSupply: new(big.Int), claimAmt: map[string]int64{}, seenObserved: map[string]bool{}, obsCount: map[uint64]int{}, dep: 1,
		cids: map[string]int{}, acceptedBy: map[string]map[int]bool{}, executedTx: map[int]bool{}}
	if skyCompass != c02Compass(1) {
		t.Fatalf("C02: the fixture's compass id %q is not %q", skyCompass, c02Compass(1))
	}
	c.emit("reset", "ok")
	nv := len(skykeeper.ValAddrs)
	nonTrivial := false
	// the validators' view of the remote chain: one honest event per nonce; a competing claim differs from it
	// in exactly ONE field (any of them), so that every field's part in the claim's identity is exercised
	evOf := map[uint64]c02Event{}
	ethBase := uint64(100) // remote heights reported after a re-deployment start above everything observed before
	nextContract := uint64(2)
	maxBatch := uint64(0)
	burst, burstStart := 0, 0

	baseEvent := func(n uint64) c02Event {
		if ev, ok := evOf[n]; ok {
			return ev
		}
		ev := c02Event{kind: "dep", n: n, eth: ethBase + 10*n, token: e.erc20[0], compass: c.dep, amount: 100 + int64(n), sender: c02Senders[0]}
		if r.Rng.Intn(12) == 0 {
			ev.eth = 50 // a remote height below an earlier one: TryAttestation refuses it
		}
		open := c.openBatches()
		if (len(open) > 0 && r.Rng.Intn(2) == 0) || r.Rng.Intn(8) == 0 {
			ev.kind, ev.amount, ev.sender = "exec", 0, ""
			ev.batch = 1 + uint64(r.Rng.Intn(int(maxBatch)+2)) // any batch nonce: open, gone, or not built yet
			if len(open) > 0 && r.Rng.Intn(6) != 0 {
				b := open[r.Rng.Intn(len(open))]
				ev.batch = b.id
				if r.Rng.Intn(12) == 0 {
					ev.eth = b.timeout - 1 + uint64(r.Rng.Intn(3)) // the `BatchTimeout <= EthBlockHeight` edge
					r.Stat("exec.eth_at_timeout")
				}
			}
		}
		if ev.kind == "dep" && r.Rng.Intn(6) == 0 {
			ev.kind, ev.sender, ev.token = "ln", "", c02SaleContract
			ev.amount = 1000 + int64(n)
			ev.receiver = r.Rng.Intn(len(e.users))
		}
		evOf[n] = ev
		return ev
	}
	// forcedEvent: the honest event at nonce n is of the given claim type (unless the nonce has its event already)
	forcedEvent := func(n uint64, kind string) c02Event {
		if ev, ok := evOf[n]; ok {
			return ev
		}
		ev := c02Event{kind: "dep", n: n, eth: ethBase + 10*n, token: e.erc20[0], compass: c.dep, amount: 100 + int64(n), sender: c02Senders[0]}
		switch kind {
		case "exec":
			ev.kind, ev.amount, ev.sender, ev.batch = "exec", 0, "", 1
			if open := c.openBatches(); len(open) > 0 {
				ev.batch = open[r.Rng.Intn(len(open))].id
			}
		case "ln":
			ev.kind, ev.sender, ev.token = "ln", "", c02SaleContract
			ev.amount = 1000 + int64(n)
			ev.receiver = r.Rng.Intn(len(e.users))
		}
		evOf[n] = ev
		return ev
	}
	mutate := func(ev c02Event) c02Event {
		fields := 6
		if ev.kind == "ln" {
			// compass, contract, height, amount, client: the fields of a sale claim
			switch r.Rng.Intn(5) {
			case 0:
				ev.compass = 1 + (ev.compass+r.Rng.Intn(2))%3
				r.Stat("vote.differs_in.compass")
			case 1:
				ev.token = c02OtherToken
				r.Stat("vote.differs_in.sale_contract")
			case 2:
				ev.eth += 1 + uint64(r.Rng.Intn(3))
				r.Stat("vote.differs_in.height")
			case 3:
				ev.amount += 100 * int64(1+r.Rng.Intn(2))
				r.Stat("vote.differs_in.amount")
			default:
				ev.receiver = 1 - ev.receiver
				r.Stat("vote.differs_in.client")
			}
			return ev
		}
		switch r.Rng.Intn(fields) {
		case 0:
			ev.compass = 1 + (ev.compass+r.Rng.Intn(2))%3
			r.Stat("vote.differs_in.compass")
		case 1:
			ev.token = c02OtherToken
			r.Stat("vote.differs_in.token")
		case 2:
			ev.eth += 1 + uint64(r.Rng.Intn(3))
			r.Stat("vote.differs_in.height")
		case 3:
			if ev.kind == "exec" {
				ev.batch = 1 + (ev.batch+uint64(r.Rng.Intn(2)))%(maxBatch+2)
				r.Stat("vote.differs_in.batch")
			} else {
				ev.amount += 100 * int64(1+r.Rng.Intn(2))
				r.Stat("vote.differs_in.amount")
			}
		case 4:
			if ev.kind == "exec" {
				ev.compass = 1 + (ev.compass+r.Rng.Intn(2))%3
				r.Stat("vote.differs_in.compass")
			} else {
				ev.sender = c02Senders[1]
				r.Stat("vote.differs_in.sender")
			}
		default:
			if ev.kind == "exec" {
				ev.batch = 1 + (ev.batch+uint64(r.Rng.Intn(2)))%(maxBatch+2)
				r.Stat("vote.differs_in.batch")
			} else {
				ev.receiver = 1 - ev.receiver
				r.Stat("vote.differs_in.receiver")
			}
		}
		return ev
	}

	// doVoteAs: the claim message for ev is delivered for account `creator` and names account `orch` as
	// orchestrator (accounts as on the protocol line: validator k = k, users from c02UserAcct)
	doVoteAs := func(creator, orch int, ev c02Event) string {
		m := c.msgOf(ev, c.acctAddr(creator), c.acctAddr(orch))
		h, _ := m.(skytypes.EthereumClaim).ClaimHash()
		hs := new(big.Int).SetBytes(h).String()
		key := ev.key()
		cid, ok := c.cids[key]
		if !ok {
			cid = len(c.cids) + 1
			c.cids[key] = cid
		}
		var op string
		if ev.kind == "exec" {
			id := ev.batch
			if !strings.EqualFold(ev.token, e.erc20[0]) {
				id = 0 // batches are keyed by (token, nonce): a claim naming another token names no batch of ours
			}
			op = fmt.Sprintf("votex %d %d %d %s %d %d %d %d", creator, orch, ev.n, hs, ev.eth, id, ev.compass, cid)
		} else if ev.kind == "ln" {
			op = fmt.Sprintf("votel %d %d %d %s %d 0 %d %d", creator, orch, ev.n, hs, ev.eth, ev.compass, cid)
		} else {
			appl := 1
			if !strings.EqualFold(ev.token, e.erc20[0]) {
				appl = 0
			} else {
				c.claimAmt[fmt.Sprintf("%d/%s", ev.n, key)] = ev.amount
			}
			op = fmt.Sprintf("vote %d %d %d %s %d %d %d %d %d", creator, orch, ev.n, hs, ev.eth, appl, ev.amount, ev.compass, cid)
		}
		view := c.voteView()
		res := e.runMsg(func(ctx sdk.Context) error {
			switch mm := m.(type) {
			case *skytypes.MsgSendToPalomaClaim:
				_, err := e.ms.SendToPalomaClaim(ctx, mm)
				return err
			case *skytypes.MsgBatchSendToRemoteClaim:
				_, err := e.ms.BatchSendToRemoteClaim(ctx, mm)
				return err
			case *skytypes.MsgLightNodeSaleClaim:
				_, err := e.ms.LightNodeSaleClaim(ctx, mm)
				return err
			}
			return fmt.Errorf("unknown claim")
		})
		if res == "ok" && creator <= nv {
			// validator `creator` itself sent a vote for exactly this claim, and it was accepted
			if c.acceptedBy[key] == nil {
				c.acceptedBy[key] = map[int]bool{}
			}
			c.acceptedBy[key][creator] = true
		}
		c.emit(op, res+" "+c.state())
		r.Stat("vote." + ev.kind + "." + res)
		switch {
		case creator == orch && creator <= nv:
			r.Stat("vote.sent_by.the_validator_itself")
		case creator == orch:
			r.Stat("vote.sent_by.a_non_validator_for_itself")
		case orch > nv:
			r.Stat("vote.sent_by.a_validator_naming_a_non_validator")
		case creator <= nv:
			r.Stat("vote.sent_by.another_validator." + ev.kind)
		default:
			r.Stat("vote.sent_by.a_non_validator_naming_a_validator." + ev.kind)
		}
		c.checkCastBy(view, creator, op)
		c.checkVotes(op)
		c.checkGap(op)
		return res
	}
	doVote := func(v int, ev c02Event) string { return doVoteAs(v+1, v+1, ev) }
	// somebody else than validator v sends the claim in v's name: a user account or another validator
	foreignSender := func(v int) int {
		if r.Rng.Intn(2) == 0 {
			return c02UserAcct + r.Rng.Intn(len(e.users))
		}
		return 1 + (v+1+r.Rng.Intn(nv-1))%nv
	}
	// impersonation: ONE account delivers the claim for event ev once per validator, naming each of them as
	// orchestrator in turn - the votes of a quorum, cast by somebody who holds none of their keys
	doImpersonate := func(ev c02Event) {
		sender := foreignSender(r.Rng.Intn(nv))
		for v := 0; v < nv; v++ {
			if v+1 == sender || r.Rng.Intn(8) == 0 {
				continue
			}
			vl, _ := e.raw.GetLastSkywayNonceByValidator(e.ctx, skykeeper.ValAddrs[v], skyChain)
			if vl+1 == ev.n {
				doVoteAs(sender, v+1, ev)
			}
		}
		r.Stat("op.impersonation_burst." + ev.kind)
	}

	doSend := func() {
		u := r.Rng.Intn(len(e.users))
		amt := sdkmath.NewInt(int64(1 + r.Rng.Intn(500)))
		e.fund(u+1, 1, amt)
		res := e.runMsg(func(ctx sdk.Context) error {
			_, err := e.ms.SendToRemote(ctx, &skytypes.MsgSendToRemote{EthDest: "0x00000000000000000000000000000000000000aa", Amount: sdk.Coin{Denom: e.denoms[0], Amount: amt}, ChainReferenceId: skyChain, Metadata: e.meta(e.users[u])})
			return err
		})
		if res != "ok" {
			t.Fatalf("C02: SendToRemote of %s refused", amt)
		}
		c.emit(fmt.Sprintf("send %s", amt), c.state())
		r.Stat("op.send")
	}
	doBuild := func() {
		contract, _ := skytypes.NewEthAddress(e.erc20[0])
		bt, err := e.k.BuildOutgoingTXBatch(e.ctx, skyChain, *contract, skykeeper.OutgoingTxBatchSize)
		if err != nil {
			t.Fatalf("C02: BuildOutgoingTXBatch: %v", err)
		}
		if bt != nil && bt.BatchNonce > maxBatch {
			maxBatch = bt.BatchNonce
		}
		op := fmt.Sprintf("build %d", e.now.Unix())
		c.emit(op, c.state())
		r.Stat("op.build")
		c.checkExecuted(op)
	}

	// timeMode: 0 = two seconds later; 1 = right at the timeout of an open batch (not yet expired);
	// 2 = one second past it (the first block in which it is expired); 3 = eleven minutes later
	doEndBlock := func(timeMode int, allowFault bool) {
		powers := make([]int64, nv)
		total := int64(0)
		mode := r.Rng.Intn(4)
		for j := range powers {
			switch mode {
			case 0:
				powers[j] = 10
			case 1:
				powers[j] = int64(r.Rng.Intn(4))
			default:
				powers[j] = int64(r.Rng.Intn(100))
			}
			total += powers[j]
		}
		outside := int64(0)
		if r.Rng.Intn(4) == 0 {
			outside = int64(r.Rng.Intn(50)) // bonded power outside our five validators
			total += outside
		}
		for j, v := range skykeeper.ValAddrs {
			if err := e.in.StakingKeeper.SetLastValidatorPower(e.ctx, v, powers[j]); err != nil {
				t.Fatal(err)
			}
		}
		if err := e.in.StakingKeeper.SetLastTotalPower(e.ctx, sdkmath.NewInt(total)); err != nil {
			t.Fatal(err)
		}
		h := e.height + 1
		kind := "endblock"
		if r.Rng.Intn(4) == 0 {
			h = (e.height/50 + 1) * 50
			kind = "endblock50"
		}
		now := e.now.Add(2 * time.Second)
		if open := c.openBatches(); len(open) > 0 && (timeMode == 1 || timeMode == 2) {
			// the batch an undecided executed-batch claim names, if there is one: quorum and expiry in one block
			b := open[r.Rng.Intn(len(open))]
			for _, a := range c.atts() {
				if !a.observed && a.ev.kind == "exec" {
					for _, ob := range open {
						if ob.id == a.ev.batch {
							b = ob
						}
					}
				}
			}
			target := time.Unix(int64(b.timeout), 0).UTC()
			if timeMode == 2 {
				target = target.Add(time.Second)
			}
			if target.After(e.now) {
				now = target
				r.Stat(fmt.Sprintf("tally.block_time_at_timeout+%d", timeMode-1))
			}
		} else if timeMode == 3 {
			now = e.now.Add(11 * time.Minute)
			r.Stat("tally.block_time_+11min")
		}
		e.setBlock(h, now)
		before := c.atts()
		supBefore := e.in.BankKeeper.GetSupply(e.ctx, e.denoms[0]).Amount
		lastBefore, _ := e.raw.GetLastObservedSkywayNonce(e.ctx, skyChain)
		// the batches an executed-batch claim of this block can still find: those in the store now, and the one
		// createBatch builds from the waiting transfers before the tally (every 50th block)
		refOpen := c.openBatches()
		if pool := e.poolTxs(); kind == "endblock50" && len(pool) > 0 {
			nb := c02Batch{id: maxBatch + 1, timeout: uint64(now.Add(10 * time.Minute).Unix())}
			for _, tx := range pool {
				a, _ := new(big.Int).SetString(tx.amount, 10)
				x, _ := new(big.Int).SetString(tx.tax, 10)
				nb.total += a.Int64() + x.Int64()
				nb.txs = append(nb.txs, tx.id)
			}
			refOpen = append(refOpen, nb)
			maxBatch++
			r.Stat("tally.builds_batch")
		}
		// collaborator fault: in one tally out of three the chain-info lookup behind ONE of the
		// observation events of this block fails (their number is counted on a throw-away branch
		// first). The claim is then already applied; TryAttestation returns the error and the rest of
		// this chain's tally is skipped (model: `eventFailed`). An observed claim whose effect is
		// missing shows up in `applied_exactly_once` and in the state line.
		e.fault.Reset("", 0)
		faulted := "-"
		if allowFault && r.Rng.Intn(3) == 0 {
			// the chain-info lookups of an end block, in order: one if createBatch builds a batch, then one per
			// observation event of the tally, then one per cancelled batch
			cctx, _ := e.ctx.CacheContext()
			skyway.EndBlocker(cctx, e.k, e.cc)
			saved := e.ctx
			e.ctx = cctx
			dry := c.atts()
			e.ctx = saved
			wasObs := map[string]bool{}
			for _, a := range before {
				wasObs[fmt.Sprintf("%d/%s", a.nonce, a.hash)] = a.observed
			}
			ko, kb := 0, 0
			for _, a := range dry {
				if a.observed && !wasObs[fmt.Sprintf("%d/%s", a.nonce, a.hash)] {
					ko++
				}
			}
			if kind == "endblock50" && len(e.poolTxs()) > 0 {
				kb = 1
			}
			if ko > 0 {
				e.fault.Reset("evm.chaininfo", kb+1+r.Rng.Intn(ko))
				r.Stat("tally.fault_at_observation_event")
			} else {
				e.fault.Reset("", 0)
			}
		}
		e.endBlock()
		if e.fault.Target != "" {
			if !e.fault.Fired {
				t.Fatalf("C02: the planned fault did not fire (calls %v)", e.fault.Counts)
			}
			// the tally stopped right after the observation whose event failed: it is the newly
			// observed attestation with the highest nonce
			wasObs := map[string]bool{}
			for _, a := range before {
				wasObs[fmt.Sprintf("%d/%s", a.nonce, a.hash)] = a.observed
			}
			var hi *c02Att
			for _, a := range c.atts() {
				a := a
				if a.observed && !wasObs[fmt.Sprintf("%d/%s", a.nonce, a.hash)] && (hi == nil || a.nonce > hi.nonce) {
					hi = &a
				}
			}
			if hi == nil {
				t.Fatalf("C02: an observation event failed but nothing was observed")
			}
			faulted = fmt.Sprintf("%d:%s", hi.nonce, hi.hash)
		}
		e.fault.Reset("", 0)
		ps := make([]string, nv)
		for j := range powers {
			ps[j] = fmt.Sprintf("%d:%d", j+1, powers[j])
		}
		if outside > 0 {
			// the model derives the total from the power table (staking keeps LastTotalPower equal to the
			// sum of the LastValidatorPower records): the outside power is the row of a sixth, never voting validator
			ps = append(ps, fmt.Sprintf("%d:%d", nv+1, outside))
		}
		op := fmt.Sprintf("%s %s %d %s %d", kind, strings.Join(ps, ","), total, faulted, now.Unix())
		c.emit(op, c.state())
		r.Stat("op." + kind)
		// ---- monitors ----
		was := map[string]bool{}
		for _, a := range before {
			was[fmt.Sprintf("%d/%s", a.nonce, a.hash)] = a.observed
		}
		minted, burned := int64(0), int64(0)
		cursor := lastBefore
		for _, a := range c.atts() { // ascending nonce: the order in which the tally observed them
			key := fmt.Sprintf("%d/%s", a.nonce, a.hash)
			if a.observed && !was[key] {
				nonTrivial = true
				r.Stat("observed." + a.ev.kind)
				// quorum over the SET of voters with the table of this very tally
				set := map[int]bool{}
				sum := int64(0)
				for _, v := range a.votes {
					if !set[v] {
						set[v] = true
						sum += powers[v-1]
					}
				}
				if !(100*sum > 66*total) {
					r.Hit("observed_has_quorum", fmt.Sprintf("attestation %d observed with %d of %d power after `%s`", a.nonce, sum, total, op), c.replay())
				}
				// "have each voted for that identical claim": the claim that takes effect is the stored one; a
				// validator counts towards it only if it - a message delivered for its own account - submitted a
				// claim equal to it in EVERY field
				same := int64(0)
				for v := range set {
					if c.acceptedBy[a.ev.key()][v] {
						same += powers[v-1]
					} else {
						r.Hit("counted_votes_are_for_identical_claim", fmt.Sprintf("validator %d is counted for the claim observed at nonce %d (%s) but never itself sent a vote for that claim after `%s`", v, a.nonce, a.ev.key(), op), c.replay())
					}
				}
				if !(100*same > 66*total) {
					r.Hit("counted_votes_are_for_identical_claim", fmt.Sprintf("claim %s observed at nonce %d with %d of %d power behind that identical claim after `%s`", a.ev.key(), a.nonce, same, total, op), c.replay())
				}
				if a.nonce != cursor+1 {
					r.Hit("consecutive_order", fmt.Sprintf("nonce %d observed while the cursor stood at %d", a.nonce, cursor), c.replay())
				}
				// per bridge deployment: only claims of the deployment on record are tallied
				if c.dep != 0 && a.compass != c.dep {
					r.Hit("observed_of_current_deployment", fmt.Sprintf("claim of deployment %d observed at nonce %d while deployment %d is on record after `%s`", a.compass, a.nonce, c.dep, op), c.replay())
				}
				cursor = a.nonce
				if c.seenObserved[fmt.Sprint(a.nonce)] {
					r.Hit("one_claim_per_nonce", fmt.Sprintf("second claim observed at nonce %d in one epoch", a.nonce), c.replay())
				}
				c.seenObserved[fmt.Sprint(a.nonce)] = true
				c.obsCount[a.nonce]++
				if a.ev.kind == "dep" {
					minted += c.claimAmt[fmt.Sprintf("%d/%s", a.nonce, a.ev.key())]
				} else if a.ev.kind == "exec" && strings.EqualFold(a.ev.token, e.erc20[0]) {
					// an executed-batch claim CAN be applied iff its batch is open when the claim takes effect
					// and the claim's remote height lies before the batch timeout; then it MUST be: vouchers
					// burned, batch gone for good, its transfers neither in the pool nor in another batch
					for i, b := range refOpen {
						if b.id == a.ev.batch && a.ev.eth < b.timeout {
							r.Stat("observed.exec.applicable")
							if b.timeout < uint64(now.Unix()) {
								r.Stat("observed.exec.applicable_in_expiry_block")
							}
							burned += b.total
							for _, id := range b.txs {
								c.executedTx[id] = true
							}
							for _, ob := range c.openBatches() {
								if ob.id == b.id {
									r.Hit("executed_batch_applied_exactly_once", fmt.Sprintf("the claim for batch %d took effect at nonce %d while the batch was open, but the batch is still in the store after `%s`", b.id, a.nonce, op), c.replay())
								}
							}
							refOpen = append(refOpen[:i:i], refOpen[i+1:]...)
							break
						}
					}
				}
			}
		}
		c.checkGap(op)
		c.checkExecuted(op)
		got := e.in.BankKeeper.GetSupply(e.ctx, e.denoms[0]).Amount.Sub(supBefore).Int64()
		if got != minted-burned {
			r.Hit("applied_exactly_once", fmt.Sprintf("this end block changed the supply by %d but the newly observed applicable claims mint %d and burn %d after `%s`", got, minted, burned, op), c.replay())
		}
	}

	// directed opening (one case in three): a batch, its executed-batch claim voted by enough validators, and the
	// tally in a block right before / at / right after the batch timeout
	if caseNo%3 == 0 {
		doSend()
		if r.Rng.Intn(2) == 0 {
			doSend()
		}
		doBuild()
		for k := r.Rng.Intn(3); k > 0; k-- {
			doEndBlock(0, false)
		}
		last, _ := e.raw.GetLastObservedSkywayNonce(e.ctx, skyChain)
		ev := baseEvent(last + 1)
		for v := 0; v < nv; v++ {
			if r.Rng.Intn(6) != 0 {
				vl, _ := e.raw.GetLastSkywayNonceByValidator(e.ctx, skykeeper.ValAddrs[v], skyChain)
				if vl+1 == ev.n {
					doVote(v, ev)
				}
			}
		}
		doEndBlock(r.Rng.Intn(4), false)
		r.Stat("case.directed_opening")
	}
	// directed opening (the next case in three): the claim of the next event - of each of the three claim types -
	// is delivered for ONE account (a user, or one validator) once per validator, naming each of them as
	// orchestrator; the tally; then (most of) the validators send the claim themselves; the tally
	if caseNo%3 == 1 {
		kind := []string{"dep", "exec", "ln"}[r.Rng.Intn(3)]
		if kind == "exec" {
			doSend()
			doBuild()
		}
		last, _ := e.raw.GetLastObservedSkywayNonce(e.ctx, skyChain)
		ev := forcedEvent(last+1, kind)
		doImpersonate(ev)
		doEndBlock(0, false)
		for v := 0; v < nv; v++ {
			if r.Rng.Intn(5) != 0 {
				doVote(v, ev)
			}
		}
		doEndBlock(0, false)
		r.Stat("case.directed_impersonation." + kind)
	}

	for i := 0; i < nops; i++ {
		x := r.Rng.Intn(100)
		switch {
		case x < 58: // a validator votes (in bursts, so that quorums actually form)
			v := r.Rng.Intn(nv)
			if burst > 0 {
				burst--
				v = (burstStart + burst) % nv
			} else if r.Rng.Intn(5) == 0 {
				burst, burstStart = 2+r.Rng.Intn(3), r.Rng.Intn(nv)
			}
			last, _ := e.raw.GetLastSkywayNonceByValidator(e.ctx, skykeeper.ValAddrs[v], skyChain)
			n := last + 1
			switch r.Rng.Intn(10) {
			case 0:
				n = last // stale
			case 1:
				n = last + 2 // gap
			}
			if n == 0 {
				n = 1
			}
			ev := baseEvent(n)
			if r.Rng.Intn(4) == 0 {
				ev = mutate(ev)
			}
			if ev.compass != c.dep {
				r.Stat("vote.other_deployment")
			}
			// who delivers the message, and whom it names: mostly the validator itself
			switch r.Rng.Intn(16) {
			case 0, 1: // somebody else - a user account or another validator - names validator v
				doVoteAs(foreignSender(v), v+1, ev)
			case 2: // validator v names an account that is no validator
				doVoteAs(v+1, c02UserAcct+r.Rng.Intn(len(e.users)), ev)
			case 3: // an account that is no validator votes in its own name
				u := c02UserAcct + r.Rng.Intn(len(e.users))
				doVoteAs(u, u, ev)
			case 4: // one account delivers the votes of everybody for the next event in line
				lo, _ := e.raw.GetLastObservedSkywayNonce(e.ctx, skyChain)
				doImpersonate(baseEvent(lo + 1))
			default:
				doVote(v, ev)
			}
		case x < 80: // end of block: tally with a fresh power table
			tm := 0
			if r.Rng.Intn(3) == 0 {
				tm = 1 + r.Rng.Intn(3)
			}
			doEndBlock(tm, true)
		case x < 86: // a user sends tokens to the remote chain; mostly a batch is built right away
			doSend()
			if r.Rng.Intn(3) != 0 {
				doBuild()
			}
		case x < 93: // governance nonce override
			last, _ := e.raw.GetLastObservedSkywayNonce(e.ctx, skyChain)
			n := last
			if last > 0 && r.Rng.Intn(2) == 0 {
				n = last - 1
			}
			if r.Rng.Intn(5) == 0 {
				n = last + uint64(r.Rng.Intn(3))
			}
			if err := e.k.VerifOverrideNonce(e.ctx, skyChain, n); err != nil {
				t.Fatal(err)
			}
			c.seenObserved = map[string]bool{}
			c.epochStart, c.obsCount = n, map[uint64]int{}
			c.emit(fmt.Sprintf("override %d", n), c.state())
			r.Stat("op.override")
		case x < 96: // chain activation: the bridge is (re-)deployed with a compass id; the cursor is reset to 0
			k := 1 + r.Rng.Intn(3)
			addr := fmt.Sprintf("0x%040x", 0x1234+nextContract)
			if err := e.in.EvmKeeper.ActivateChainReferenceID(e.ctx, skyChain, &evmtypes.SmartContract{Id: nextContract}, addr, []byte(c02Compass(k))); err != nil {
				t.Fatal(err)
			}
			nextContract++
			if got := e.raw.GetLatestCompassID(e.ctx, skyChain); got != c02Compass(k) {
				t.Fatalf("C02: activation did not install compass id %q (got %q)", c02Compass(k), got)
			}
			c.dep = k
			c.seenObserved = map[string]bool{}
			c.epochStart, c.obsCount = 0, map[uint64]int{}
			// the remote chain goes on: later events are reported at heights above everything seen so far
			ethBase = e.raw.GetLastObservedEthereumBlockHeight(e.ctx, skyChain).EthereumBlockHeight + 100
			evOf = map[uint64]c02Event{}
			op := fmt.Sprintf("activate %d", k)
			c.emit(op, c.state())
			r.Stat("op.activate")
			c.checkGap(op)
		default: // an idle block
			e.setBlock(e.height+1, e.now.Add(2*time.Second))
		}
	}
	r.Case(strings.Join(c.ops, "|"), nonTrivial)
}
