//go:build verif

package harness

import (
	"bufio"
	"encoding/json"
	"fmt"
	"math/big"
	"math/rand"
	"os"
	"path/filepath"
	"sort"
	"strconv"
	"strings"
	"testing"
)

// Rec collects the line-protocol ops, the implementation's canonical answers,
// monitor hits (property predicate evaluated on the implementation) and the
// input distribution for the evidence file.
type Rec struct {
	t        *testing.T
	prop     string
	prefix   string // line-protocol prefix (model selector in the Lean driver)
	dir      string
	ops      *bufio.Writer
	impl     *bufio.Writer
	opsF     *os.File
	implF    *os.File
	n        int
	Stats    map[string]int
	Monitors []MonitorHit
	Samples  []string
	distinct map[string]struct{}
	Seed     int64
	N        int
	Rng      *rand.Rand
}

type MonitorHit struct {
	Property string      `json:"property"`
	Monitor  string      `json:"monitor"`
	What     string      `json:"what"`
	Input    interface{} `json:"input"`
}

func envInt(name string, def int64) int64 {
	if v := os.Getenv(name); v != "" {
		if n, err := strconv.ParseInt(v, 10, 64); err == nil {
			return n
		}
	}
	return def
}

func NewRec(t *testing.T, prop string) *Rec {
	dir := os.Getenv("VERIF_OUT")
	if dir == "" {
		dir = t.TempDir()
	}
	dir = filepath.Join(dir, prop)
	if err := os.MkdirAll(dir, 0o755); err != nil {
		t.Fatal(err)
	}
	of, err := os.Create(filepath.Join(dir, "ops.txt"))
	if err != nil {
		t.Fatal(err)
	}
	inf, err := os.Create(filepath.Join(dir, "impl.txt"))
	if err != nil {
		t.Fatal(err)
	}
	seed := envInt("VERIF_SEED", 1)
	r := &Rec{
		t: t, prop: prop, prefix: prop, dir: dir, opsF: of, implF: inf,
		ops: bufio.NewWriter(of), impl: bufio.NewWriter(inf),
		Stats: map[string]int{}, distinct: map[string]struct{}{},
		Seed: seed, N: int(envInt("VERIF_N", 200)),
		Rng: rand.New(rand.NewSource(seed*7919 + int64(len(prop)) + int64(prop[1])*31 + int64(prop[2]))),
	}
	return r
}

// Op records one operation line (sent verbatim to the Lean driver, prefixed by
// the property id) together with the implementation's canonical observation.
func (r *Rec) Op(line string, implOut string) {
	if strings.ContainsAny(line, "\n") || strings.ContainsAny(implOut, "\n") {
		r.t.Fatalf("newline in protocol line: %q / %q", line, implOut)
	}
	fmt.Fprintf(r.ops, "%s %s\n", r.prefix, line)
	fmt.Fprintf(r.impl, "%s\n", implOut)
	r.n++
	if len(r.Samples) < 12 && r.Rng.Intn(1+r.n/4) == 0 {
		r.Samples = append(r.Samples, line+" => "+implOut)
	}
}

// Case marks a distinct, non-trivial case (by key).
func (r *Rec) Case(key string, nontrivial bool) {
	r.Stats["cases"]++
	if nontrivial {
		r.distinct[key] = struct{}{}
	}
}

func (r *Rec) Stat(k string) { r.Stats[k]++ }

func (r *Rec) Hit(monitor, what string, input interface{}) {
	if len(r.Monitors) < 50 {
		r.Monitors = append(r.Monitors, MonitorHit{r.prop, monitor, what, input})
	}
	r.Stats["monitor_hits"]++
}

func (r *Rec) Close() {
	r.ops.Flush()
	r.impl.Flush()
	r.opsF.Close()
	r.implF.Close()
	out := map[string]interface{}{
		"property":            r.prop,
		"seed":                r.Seed,
		"ops":                 r.n,
		"stats":               r.Stats,
		"distinct_nontrivial": len(r.distinct),
		"monitors":            r.Monitors,
		"samples":             r.Samples,
	}
	b, _ := json.MarshalIndent(out, "", " ")
	if err := os.WriteFile(filepath.Join(r.dir, "stats.json"), b, 0o644); err != nil {
		r.t.Fatal(err)
	}
}

// ---------- formatting helpers (must match Driver/Util.lean) ----------

func natList(xs []*big.Int) string {
	if len(xs) == 0 {
		return "-"
	}
	s := make([]string, len(xs))
	for i, x := range xs {
		s[i] = x.String()
	}
	return strings.Join(s, ",")
}

func u64List(xs []uint64) string {
	if len(xs) == 0 {
		return "-"
	}
	s := make([]string, len(xs))
	for i, x := range xs {
		s[i] = strconv.FormatUint(x, 10)
	}
	return strings.Join(s, ",")
}

type pair struct{ a, b *big.Int }

func pairList(ps []pair) string {
	if len(ps) == 0 {
		return "-"
	}
	s := make([]string, len(ps))
	for i, p := range ps {
		s[i] = p.a.String() + ":" + p.b.String()
	}
	return strings.Join(s, ",")
}

func bi(x int64) *big.Int  { return big.NewInt(x) }
func bu(x uint64) *big.Int { return new(big.Int).SetUint64(x) }
func pow2(n uint) *big.Int { return new(big.Int).Lsh(big.NewInt(1), n) }
func sortedU64(xs []uint64) []uint64 {
	c := append([]uint64(nil), xs...)
	sort.Slice(c, func(i, j int) bool { return c[i] < c[j] })
	return c
}

// interesting uint64 values
var edgeU64 = []uint64{0, 1, 2, 3, 21000, 300000, 1 << 32, (1 << 32) + 1, 1<<63 - 1, 1 << 63, 1<<63 + 1, 1<<63 + 3, 1<<64 - 3, 1<<64 - 2, 1<<64 - 1}

func (r *Rec) U64() uint64 {
	switch r.Rng.Intn(4) {
	case 0:
		return edgeU64[r.Rng.Intn(len(edgeU64))]
	case 1:
		return uint64(r.Rng.Intn(1000))
	case 2:
		return r.Rng.Uint64()
	default:
		return uint64(r.Rng.Int63n(1 << 40))
	}
}

// Share draws a validator share: small, equal-ish, or very large (> 2^64).
func (r *Rec) Share() *big.Int {
	switch r.Rng.Intn(5) {
	case 0:
		return bi(int64(r.Rng.Intn(4)))
	case 1:
		return bi(int64(1 + r.Rng.Intn(100)))
	case 2:
		return bi(1_000_000)
	case 3:
		x := new(big.Int).Lsh(big.NewInt(int64(1+r.Rng.Intn(1000))), uint(60+r.Rng.Intn(170)))
		return x.Add(x, bi(int64(r.Rng.Intn(3))))
	default:
		return bi(r.Rng.Int63n(1 << 50))
	}
}
