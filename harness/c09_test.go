//go:build verif

package harness

import (
	"fmt"
	"math/big"
	"math/rand"
	"strings"
	"testing"

	sdkmath "cosmossdk.io/math"
	sdk "github.com/cosmos/cosmos-sdk/types"
	consensustypes "github.com/palomachain/paloma/v2/x/consensus/types"
	evmtypes "github.com/palomachain/paloma/v2/x/evm/types"
	treasurytypes "github.com/palomachain/paloma/v2/x/treasury/types"
	valsettypes "github.com/palomachain/paloma/v2/x/valset/types"
)

// C09 — begin/end-block never aborts: hostile-value fuzzing of the full application at every
// height class. Monitor: FinalizeBlock/Commit never returns an error and never panics.

const c09Queue = "evm/test-chain/evm-turnstone-message"

var c09Estimates = []uint64{0, 1, 21000, 300000, 1 << 32, 1<<63 - 1, 1 << 63, 1<<64 - 2, 1<<64 - 1}

func c09Hostile(fa *FullApp, rng *rand.Rand, history *[]string) []FATx {
	var txs []FATx
	used := map[string]bool{}
	add := func(tx FATx, what string) {
		key := tx.Signers[0].Addr.String()
		if used[key] {
			return
		}
		used[key] = true
		txs = append(txs, tx)
		*history = append(*history, fmt.Sprintf("h%d %s", fa.Height()+1, what))
	}
	ctx := fa.CtxCached()
	// every validator submits a (possibly absurd) gas estimate for the messages waiting for one
	for i := range fa.Vals {
		if rng.Intn(3) == 0 {
			continue
		}
		v := fa.ValidatorOperator(i)
		msgs, err := fa.App().ConsensusKeeper.GetMessagesForGasEstimation(ctx, c09Queue, v.ValAddr())
		if err != nil || len(msgs) == 0 {
			continue
		}
		var ests []*consensustypes.MsgAddMessageGasEstimates_GasEstimate
		var desc []string
		same := c09Estimates[rng.Intn(len(c09Estimates))]
		for _, m := range msgs {
			val := same
			if rng.Intn(3) == 0 {
				val = c09Estimates[rng.Intn(len(c09Estimates))]
			}
			ests = append(ests, &consensustypes.MsgAddMessageGasEstimates_GasEstimate{MsgId: m.GetId(), QueueTypeName: c09Queue, Value: val, EstimatedByAddress: v.EthAddr.Hex()})
			desc = append(desc, fmt.Sprintf("%d:%d", m.GetId(), val))
		}
		add(FATx{Msgs: []sdk.Msg{&consensustypes.MsgAddMessageGasEstimates{Metadata: FAMeta(v.Addr, v.Addr), Estimates: ests}}, Signers: []*FAAccount{v}},
			fmt.Sprintf("estimates v%d %s", i, strings.Join(desc, ",")))
	}
	// relayer fees: legitimate but extreme multiplicators (the hostile ones are refused at submission)
	if rng.Intn(4) == 0 {
		i := rng.Intn(len(fa.Vals))
		v := fa.ValidatorOperator(i)
		// up to the largest values a LegacyDec holds (315 bits including the 18 decimals, about 6.6e76): the product with
		// a gas estimate then leaves that range
		mults := []string{"1.1", "0", "0.000000000000000001", "-1", "1000000000000000000000000000000", "340282366920938463463374607431768211455", "18446744073709551616",
			"1" + strings.Repeat("0", 58), "1" + strings.Repeat("0", 70), "1" + strings.Repeat("0", 76), "6" + strings.Repeat("0", 76)}
		ms := mults[rng.Intn(len(mults))]
		m, _ := sdkmath.LegacyNewDecFromStr(ms)
		fs := treasurytypes.RelayerFeeSetting_FeeSetting{Multiplicator: m, ChainReferenceId: "test-chain"}
		if rng.Intn(6) == 0 {
			fs = treasurytypes.RelayerFeeSetting_FeeSetting{ChainReferenceId: "test-chain"} // multiplicator omitted
			ms = "omitted"
		}
		add(FATx{Msgs: []sdk.Msg{&treasurytypes.MsgUpsertRelayerFee{Metadata: FAMeta(v.Addr, v.Addr), FeeSetting: &treasurytypes.RelayerFeeSetting{ValAddress: v.ValAddr().String(),
			Fees: []treasurytypes.RelayerFeeSetting_FeeSetting{fs}}}}, Signers: []*FAAccount{v}}, fmt.Sprintf("fee v%d %s", i, ms))
	}
	return txs
}

func TestC09(t *testing.T) {
	r := NewRec(t, "C09")
	defer r.Close()
	maxH := envInt("VERIF_BLOCKS", 330)
	// directed scenario: a quorum of evidence arrives before any gas estimate was elected
	{
		fa := NewFullApp(t, FullAppOpts{NumValidators: 4, NumUsers: 2, Seed: r.Seed % 1000})
		b := c07EarlyEvidenceBlock(t, fa)
		out := "ok"
		if !b.OK() {
			out = "aborted"
			r.Hit("block_never_aborts", fmt.Sprintf("block aborted when evidence arrived before the estimate election: %v %s", b.Err, firstLines(b.Panic, 6)),
				map[string]interface{}{"scenario": "c07EarlyEvidenceBlock", "seed": r.Seed})
		}
		r.Op(fmt.Sprintf("block %d %d", b.Height, len(b.Txs)), out)
		r.Stat("scenario.early_evidence")
	}
	// directed scenarios: hostile evidence of every shape for every kind of request
	c09EvidenceScenarios(t, r)
	// ... and well-formed evidence whose receipt has a hostile log list (valid relayed transaction)
	for _, hist := range c07HostileReceipts(t, r) {
		r.Hit("block_never_aborts", "the attestation loop of the consensus end-blocker panicked on a relayed user-contract upload whose receipt has an unusual log list", map[string]interface{}{"ops": hist, "seed": r.Seed})
		r.Op("block 0 4", "aborted")
	}
	r.Stat("scenario.hostile_receipts")
	for c := 0; c < r.N; c++ {
		seed := r.Rng.Int63()
		rng := rand.New(rand.NewSource(seed))
		if c%2 == 1 {
			c09ZooCase(t, r, seed, rng, maxH)
			continue
		}
		opts := FullAppOpts{NumValidators: 4, NumUsers: 3, Seed: seed % 1000}
		silentWhale := c%4 == 2
		if silentWhale {
			// one validator holds well over 25% of the power and its relayer never reports in: the
			// liveness sweep cannot jail it and must carry on regardless
			opts.ValidatorStake = []sdkmath.Int{sdkmath.NewInt(5_000_000_000_000), sdkmath.NewInt(1_000_000_000_000), sdkmath.NewInt(1_000_000_000_000), sdkmath.NewInt(1_000_000_000_000)}
		}
		fa := NewFullApp(t, opts)
		if silentWhale {
			var ka []FATx
			for i := 1; i < len(fa.Vals); i++ {
				v := fa.ValidatorOperator(i)
				ka = append(ka, FATx{Msgs: []sdk.Msg{&valsettypes.MsgKeepAlive{PigeonVersion: FAPigeonVersion, Metadata: FAMeta(v.Addr, v.Addr)}}, Signers: []*FAAccount{v}})
			}
			fa.DeliverTxs(ka...)
			r.Stat("case.silent_whale")
		} else {
			fa.KeepAliveAll()
		}
		if _, err := fa.ActivateEVMChain(FAEvmChain{RefID: "test-chain"}); err != nil {
			t.Fatal(err)
		}
		// the valset update published at activation blocks every later message of the chain until a
		// relayer delivered it; treat it as delivered (removed) so that logic calls get estimated
		if _, err := fa.WithDeliverCtx(func(ctx sdk.Context) error {
			// governance has configured the community / security fee rates (without them no fees are ever attached)
			rates := []string{"0.01", "0.3", "1", "3"}
			if err := fa.App().TreasuryKeeper.SetCommunityFundFee(ctx, rates[rng.Intn(len(rates))]); err != nil {
				return err
			}
			if err := fa.App().TreasuryKeeper.SetSecurityFee(ctx, rates[rng.Intn(len(rates))]); err != nil {
				return err
			}
			msgs, err := fa.App().ConsensusKeeper.GetMessagesFromQueue(ctx, c09Queue, 0)
			if err != nil {
				return err
			}
			for _, m := range msgs {
				if err := fa.App().ConsensusKeeper.DeleteJob(ctx, c09Queue, m.GetId()); err != nil {
					return err
				}
			}
			return nil
		}); err != nil {
			t.Fatal(err)
		}
		var history []string
		created := map[string]bool{}
		nontrivial := false
		aborted := false
		// directed opening: every validator sets the same extreme relayer fee, a logic call is
		// enqueued, every validator submits the same extreme estimate, and the end-blocker has to
		// elect it and attach fees.
		{
			mults := []string{"1.1", "-1", "-0.5", "1000000000000000000000000000000", "18446744073709551616", "0.000000000000000001", "omitted", "0"}
			ms := mults[rng.Intn(len(mults))]
			est := c09Estimates[rng.Intn(len(c09Estimates))]
			if rng.Intn(3) == 0 {
				// a product strictly between 2^64-1 and 2^64: the range check and the round-up must agree
				es := []uint64{131072, 3, 1 << 32, 1000003, 21000}
				est = es[rng.Intn(len(es))]
				num := new(big.Int).Lsh(big.NewInt(1), 64)
				num.Mul(num, big.NewInt(2)).Sub(num, big.NewInt(1))                        // 2*2^64 - 1  (= 2*(2^64 - 0.5))
				num.Mul(num, new(big.Int).Exp(big.NewInt(10), big.NewInt(18), nil))        // scaled by 10^18
				num.Quo(num, new(big.Int).Mul(big.NewInt(2), new(big.Int).SetUint64(est))) // floor((2^64-0.5)/est * 10^18)
				ms = sdkmath.LegacyNewDecFromBigIntWithPrec(num, 18).String()
			}
			history = append(history, fmt.Sprintf("opening: all fees %s, all estimates %d", ms, est))
			var txs []FATx
			for i := range fa.Vals {
				v := fa.ValidatorOperator(i)
				fs := treasurytypes.RelayerFeeSetting_FeeSetting{ChainReferenceId: "test-chain"}
				if ms != "omitted" {
					m, _ := sdkmath.LegacyNewDecFromStr(ms)
					fs.Multiplicator = m
				}
				txs = append(txs, FATx{Msgs: []sdk.Msg{&treasurytypes.MsgUpsertRelayerFee{Metadata: FAMeta(v.Addr, v.Addr), FeeSetting: &treasurytypes.RelayerFeeSetting{ValAddress: v.ValAddr().String(),
					Fees: []treasurytypes.RelayerFeeSetting_FeeSetting{fs}}}}, Signers: []*FAAccount{v}})
			}
			// enqueue while fees are still sane (assignment needs an eligible relayer), then turn the fees hostile
			sender0 := make([]byte, 20)
			call0 := &evmtypes.SubmitLogicCall{HexContractAddress: "0x1000000000000000000000000000000000000009", Abi: []byte("[]"), Payload: []byte{1}, Deadline: fa.Time().Unix() + 5000, SenderAddress: sender0, ContractAddress: sender0}
			b, _ := fa.WithDeliverCtx(func(ctx sdk.Context) error {
				_, err := fa.App().EvmKeeper.AddSmartContractExecutionToConsensus(ctx, "test-chain", "verif-turnstone", call0)
				return err
			})
			steps := []func() FABlockResult{
				func() FABlockResult { return fa.DeliverTxs(txs...) },
				func() FABlockResult {
					var etx []FATx
					for i := range fa.Vals {
						v := fa.ValidatorOperator(i)
						msgs, _ := fa.App().ConsensusKeeper.GetMessagesForGasEstimation(fa.CtxCached(), c09Queue, v.ValAddr())
						var ests []*consensustypes.MsgAddMessageGasEstimates_GasEstimate
						for _, m := range msgs {
							ests = append(ests, &consensustypes.MsgAddMessageGasEstimates_GasEstimate{MsgId: m.GetId(), QueueTypeName: c09Queue, Value: est, EstimatedByAddress: v.EthAddr.Hex()})
						}
						if len(ests) > 0 {
							etx = append(etx, FATx{Msgs: []sdk.Msg{&consensustypes.MsgAddMessageGasEstimates{Metadata: FAMeta(v.Addr, v.Addr), Estimates: ests}}, Signers: []*FAAccount{v}})
						}
					}
					return fa.DeliverTxs(etx...)
				},
				func() FABlockResult { return fa.NextBlock() },
				func() FABlockResult { return fa.NextBlock() },
			}
			for si := 0; b.OK() && si < len(steps); si++ {
				r.Op(fmt.Sprintf("block %d %d", b.Height, len(b.Txs)), "ok")
				b = steps[si]()
			}
			if !b.OK() {
				aborted = true
				r.Op(fmt.Sprintf("block %d %d", fa.Height()+1, 0), "aborted")
				r.Hit("block_never_aborts", fmt.Sprintf("block aborted in the directed opening: %v %s", b.Err, firstLines(b.Panic, 6)),
					map[string]interface{}{"seed": seed, "history": history})
			} else {
				r.Op(fmt.Sprintf("block %d %d", b.Height, len(b.Txs)), "ok")
			}
			if len(ms) > 24 {
				r.Stat("opening.boundary_product")
			} else {
				r.Stat("opening." + ms)
			}
		}
		for fa.Height() < maxH && !aborted {
			// jump to just before an interesting height class now and then
			if rng.Intn(12) == 0 {
				for _, m := range []int64{10, 50, 300, 303, 10000} {
					next := (fa.Height()/m+1)*m - 1
					if next > fa.Height() && next < maxH && rng.Intn(3) == 0 {
						if b := fa.AdvanceTo(next); !b.OK() {
							r.Hit("block_never_aborts", fmt.Sprintf("empty block at height %d aborted: %v %s", b.Height, b.Err, b.Panic),
								map[string]interface{}{"seed": seed, "history": history})
							aborted = true
						}
						break
					}
				}
				if aborted {
					break
				}
			}
			if fa.Height()%1500 == 0 && !silentWhale {
				fa.KeepAliveAll()
			}
			// a reachable state: a logic call waits in the queue (what a scheduler job execution enqueues)
			if rng.Intn(6) == 0 {
				sender := make([]byte, []int{20, 32, 20, 1}[rng.Intn(4)])
				rng.Read(sender)
				payload := make([]byte, []int{0, 4, 100, 70000}[rng.Intn(4)])
				call := &evmtypes.SubmitLogicCall{HexContractAddress: "0x1000000000000000000000000000000000000009", Abi: []byte("[]"), Payload: payload,
					Deadline: fa.Time().Unix() + int64(rng.Intn(3))*1000 - 500, SenderAddress: sender, ContractAddress: sender}
				_, err := fa.WithDeliverCtx(func(ctx sdk.Context) error {
					_, err := fa.App().EvmKeeper.AddSmartContractExecutionToConsensus(ctx, "test-chain", "verif-turnstone", call)
					return err
				})
				history = append(history, fmt.Sprintf("h%d enqueue sender=%d payload=%d err=%v", fa.Height(), len(sender), len(payload), err))
				if err == nil {
					nontrivial = true
					r.Stat("enqueue.ok")
				} else {
					r.Stat("enqueue.err")
				}
				continue
			}
			txs := c09Hostile(fa, rng, &history)
			if rng.Intn(2) == 0 {
				txs = append(txs, c08Txs(fa, rng, created, true)...)
				// signers must be unique per block
				seen := map[string]bool{}
				var uniq []FATx
				for _, tx := range txs {
					k := tx.Signers[0].Addr.String()
					if !seen[k] {
						seen[k] = true
						uniq = append(uniq, tx)
					}
				}
				txs = uniq
			}
			if silentWhale {
				// the whale's relayer stays silent for the whole case, whatever the random traffic contains
				var kept []FATx
				for _, tx := range txs {
					if _, isKA := tx.Msgs[0].(*valsettypes.MsgKeepAlive); isKA && tx.Signers[0].Addr.Equals(fa.ValidatorOperator(0).Addr) {
						continue
					}
					kept = append(kept, tx)
				}
				txs = kept
			}
			b := fa.DeliverTxs(txs...)
			r.Stats["txs"] += len(txs)
			for _, x := range b.Txs {
				if x.OK() {
					r.Stat("tx.ok")
				} else {
					r.Stat("tx.rejected")
				}
			}
			out := "ok"
			if !b.OK() {
				out = "aborted"
				aborted = true
				r.Hit("block_never_aborts", fmt.Sprintf("block %d aborted: %v %s", b.Height, b.Err, firstLines(b.Panic, 6)),
					map[string]interface{}{"seed": seed, "history": history})
			}
			r.Op(fmt.Sprintf("block %d %d", b.Height, len(txs)), out)
			for _, m := range []int64{10, 50, 300, 303} {
				if b.Height%m == 0 {
					r.Stat(fmt.Sprintf("height.mod%d", m))
				}
			}
		}
		r.Case(fmt.Sprint("c09|", seed), nontrivial)
	}
	// (after the generated cases: these draw from generators of their own and leave the histories above as they were)
	// the relay-metrics end blocker over every class of relay history, through the module's EndBlock and whole blocks
	c09MetrixScenarios(t, r)
	// messages attested after the record they refer to was deleted by an ordinary transaction
	c09StaleRecordScenarios(t, r)
	// references a relayer supplies (valset id, message id, queue name) that name nothing when the end blocker looks them up
	c09DanglingReferenceScenarios(t, r)
}

func firstLines(s string, n int) string {
	l := strings.Split(s, "\n")
	if len(l) > n {
		l = l[:n]
	}
	return strings.Join(l, " | ")
}

// c09ZooCase: hostile-value traffic over ALL 41 message types (message zoo) interleaved with
// block advancement across the height classes.
func c09ZooCase(t *testing.T, r *Rec, seed int64, rng *rand.Rand, maxH int64) {
	w := NewZooWorld(t, seed%1000)
	fa := w.FA
	zoo := ZooAll()
	var history []string
	nontrivial := false
	for op := 0; op < 90 && fa.Height() < maxH+400; op++ {
		w.Maintain()
		if rng.Intn(8) == 0 {
			for _, m := range []int64{10, 50, 300, 303} {
				next := (fa.Height()/m+1)*m - 1
				if next > fa.Height() && rng.Intn(3) == 0 {
					if b := fa.AdvanceTo(next + 1); !b.OK() {
						r.Hit("block_never_aborts", fmt.Sprintf("empty block at height %d aborted: %v %s", b.Height, b.Err, firstLines(b.Panic, 6)),
							map[string]interface{}{"seed": seed, "zoo": true, "history": history})
						r.Op(fmt.Sprintf("block %d 0", b.Height), "aborted")
						return
					}
					break
				}
			}
		}
		m := zoo[rng.Intn(len(zoo))]
		hostile := rng.Intn(10) < 7
		actor := m.RightfulActor(w, rng)
		if rng.Intn(6) == 0 {
			actor = fa.Users[rng.Intn(len(fa.Users))]
		}
		var res FATxResult
		func() {
			defer func() {
				if p := recover(); p != nil {
					res = FATxResult{Panicked: true, Log: fmt.Sprint("harness-side panic while building ", m.Name, ": ", p)}
				}
			}()
			msg := m.Build(w, actor, rng, hostile)
			if m.NeedsAuthority && rng.Intn(2) == 0 {
				res = w.DeliverGov(msg)
			} else {
				res = w.Deliver(actor, actor, msg)
			}
		}()
		history = append(history, fmt.Sprintf("h%d %s hostile=%v -> %s", fa.Height(), m.Name, hostile, zooResStr(res)))
		r.Stat("zoo." + m.Name)
		if res.OK() {
			nontrivial = true
			r.Stat("tx.ok")
		} else {
			r.Stat("tx.rejected")
		}
		out := "ok"
		if res.BlockErr != "" || fa.Broken {
			out = "aborted"
			r.Hit("block_never_aborts", fmt.Sprintf("block aborted after %s (hostile=%v): %s", m.Name, hostile, firstLines(res.BlockErr, 6)),
				map[string]interface{}{"seed": seed, "zoo": true, "history": history})
		}
		r.Op(fmt.Sprintf("block %d 1", fa.Height()), out)
		if out == "aborted" {
			return
		}
	}
	r.Case(fmt.Sprint("c09zoo|", seed), nontrivial)
}
