//go:build verif

package harness

// C04, clause "... have supplied byte-identical evidence": evidence with real proof CONTENT.
//
// The other C04 streams name a proof by a small number and build one fixed proof per number, so the
// step from what a validator submitted to the key VerifyEvidence groups by (sha256 of
// Hashable.BytesToHash) was never under test: two different proofs always had visibly different
// bytes. Here the evidence lists are partitions of the validators over FAMILIES of proofs of all
// four Hashable types that differ from each other as little as possible (a digit moved across the
// boundary between two fields, an empty field moved, leading zeros, fields merged or split, a
// receipt dropped), and the property is evaluated on the implementation by comparing the submitted
// proofs themselves:
//
//	winner_supplied_identical_evidence   a winner is returned only if the snapshot validators whose
//	                                     submitted proof IS the winner (field by field) hold 2/3
//	identical_two_thirds_must_win        and is returned if some proof has such a group
//	bytes_identical_only_if_same_proof   two proofs (any field contents, any types) with equal BytesToHash are
//	                                     the same proof
//
// and compared with the model (`enc` = Enc.Proof.bytes, `evp` = Enc.verifyProofs; tx proofs are not
// modelled and are checked by the monitors only).
//
// No restriction on the field contents: error messages, balance strings and block hashes are
// arbitrary strings (the message server accepts anything BytesToHash does not fail on). Besides the
// near-collision families the generator adds CRAFTED members: a line feed or a '/' inside a balance,
// a hash that starts with a digit of the height, a field replaced by its own hex text or written in
// upper case, an error message that spells the bytes of another proof of the family (the real
// BytesToHash output, or its fields written one after the other). Up to repo commit d674fa52 such
// proofs were hashed from the same bytes as a different proof and a minority's proof was returned as
// the winner (theorems Enc.old_encoding_collided, Enc.old_encoding_minority_decided); now every
// collision and every minority winner is a violation (Enc.bytes_identical_iff_same_proof,
// Enc.winner_supplied_identical_evidence, Enc.identical_quorum_wins: no hypothesis on the fields).

import (
	"bytes"
	"context"
	"encoding/hex"
	"fmt"
	"math/big"
	"strconv"
	"strings"
	"testing"

	"github.com/cosmos/cosmos-sdk/codec"
	codectypes "github.com/cosmos/cosmos-sdk/codec/types"
	"github.com/cosmos/gogoproto/proto"
	ethtypes "github.com/ethereum/go-ethereum/core/types"
	"github.com/palomachain/paloma/v2/util/libcons"
	consensustypes "github.com/palomachain/paloma/v2/x/consensus/types"
	evmtypes "github.com/palomachain/paloma/v2/x/evm/types"
	valsettypes "github.com/palomachain/paloma/v2/x/valset/types"
)

// c04EncProof is the content of one proof: kind 'e' (strs[0] = message), 'b' (height, strs =
// balances), 'r' (height, strs[0] = hash), 't' (tx, receipt; receipt nil = none)
type c04EncProof struct {
	kind    byte
	height  uint64
	strs    []string
	tx, rcp []byte
}

func (p c04EncProof) msg() proto.Message {
	switch p.kind {
	case 'e':
		return &evmtypes.SmartContractExecutionErrorProof{ErrorMessage: p.strs[0]}
	case 'b':
		return &evmtypes.ValidatorBalancesAttestationRes{BlockHeight: p.height, Balances: append([]string(nil), p.strs...)}
	case 'r':
		return &evmtypes.ReferenceBlockAttestationRes{BlockHeight: p.height, BlockHash: p.strs[0]}
	default:
		return &evmtypes.TxExecutedProof{SerializedTX: p.tx, SerializedReceipt: p.rcp}
	}
}

func c04EncOfMsg(m any) (c04EncProof, bool) {
	switch e := m.(type) {
	case *evmtypes.SmartContractExecutionErrorProof:
		return c04EncProof{kind: 'e', strs: []string{e.ErrorMessage}}, true
	case *evmtypes.ValidatorBalancesAttestationRes:
		return c04EncProof{kind: 'b', height: e.BlockHeight, strs: e.Balances}, true
	case *evmtypes.ReferenceBlockAttestationRes:
		return c04EncProof{kind: 'r', height: e.BlockHeight, strs: []string{e.BlockHash}}, true
	case *evmtypes.TxExecutedProof:
		return c04EncProof{kind: 't', tx: e.SerializedTX, rcp: e.SerializedReceipt}, true
	}
	return c04EncProof{}, false
}

// same is identity of the submitted evidence: same type, every field equal
func (p c04EncProof) same(q c04EncProof) bool {
	if p.kind != q.kind || p.height != q.height || len(p.strs) != len(q.strs) {
		return false
	}
	for i := range p.strs {
		if p.strs[i] != q.strs[i] {
			return false
		}
	}
	return bytes.Equal(p.tx, q.tx) && bytes.Equal(p.rcp, q.rcp) && (p.rcp == nil) == (q.rcp == nil)
}

func c04X(s string) string { return "x" + hex.EncodeToString([]byte(s)) }

// token is the proof in the line protocol ("" for tx proofs, which the model does not have)
func (p c04EncProof) token() string {
	switch p.kind {
	case 'e':
		return "e/" + c04X(p.strs[0])
	case 'b':
		l := "-"
		if len(p.strs) > 0 {
			xs := make([]string, len(p.strs))
			for i, s := range p.strs {
				xs[i] = c04X(s)
			}
			l = strings.Join(xs, ",")
		}
		return fmt.Sprintf("b/%d/%s", p.height, l)
	case 'r':
		return fmt.Sprintf("r/%d/%s", p.height, c04X(p.strs[0]))
	}
	return ""
}

func (p c04EncProof) String() string {
	switch p.kind {
	case 'e':
		return fmt.Sprintf("err(%q)", p.strs[0])
	case 'b':
		return fmt.Sprintf("balances(%d,%q)", p.height, p.strs)
	case 'r':
		return fmt.Sprintf("refblock(%d,%q)", p.height, p.strs[0])
	}
	return fmt.Sprintf("tx(%x,%x)", p.tx, p.rcp)
}

func (r *Rec) c04Digits(maxLen int) string {
	n := r.Rng.Intn(maxLen + 1)
	b := make([]byte, n)
	for i := range b {
		b[i] = byte('0' + r.Rng.Intn(10))
		if r.Rng.Intn(3) == 0 {
			b[i] = '0'
		}
	}
	return string(b)
}

func (r *Rec) c04Height() uint64 {
	switch r.Rng.Intn(4) {
	case 0:
		return uint64(r.Rng.Intn(13))
	case 1:
		return uint64(r.Rng.Intn(100000))
	case 2:
		return r.U64()
	}
	return 10*uint64(1+r.Rng.Intn(500)) + uint64(r.Rng.Intn(10))
}

func c04Clone(p c04EncProof) c04EncProof {
	q := p
	q.strs = append([]string(nil), p.strs...)
	return q
}

// c04MutateBalances: one small well-formed change that tends to keep the concatenation of all
// fields (and often the number of fields) the same
func (r *Rec) c04MutateBalances(p c04EncProof) c04EncProof {
	q := c04Clone(p)
	k := len(q.strs)
	switch r.Rng.Intn(9) {
	case 0, 1: // a character crosses the boundary between two neighbouring balances
		if k >= 2 {
			i := r.Rng.Intn(k - 1)
			if r.Rng.Intn(2) == 0 && len(q.strs[i]) > 0 {
				a := q.strs[i]
				q.strs[i], q.strs[i+1] = a[:len(a)-1], a[len(a)-1:]+q.strs[i+1]
			} else if len(q.strs[i+1]) > 0 {
				b := q.strs[i+1]
				q.strs[i], q.strs[i+1] = q.strs[i]+b[:1], b[1:]
			}
		}
	case 2: // two neighbours swapped (moves an empty balance)
		if k >= 2 {
			i := r.Rng.Intn(k - 1)
			q.strs[i], q.strs[i+1] = q.strs[i+1], q.strs[i]
		}
	case 3: // the last digit of the height moves into the first balance, or back
		if k >= 1 && r.Rng.Intn(2) == 0 && q.height >= 10 {
			q.strs[0] = strconv.FormatUint(q.height%10, 10) + q.strs[0]
			q.height /= 10
		} else if k >= 1 && len(q.strs[0]) > 0 && q.strs[0][0] >= '0' && q.strs[0][0] <= '9' && q.height < 1<<60 {
			q.height = q.height*10 + uint64(q.strs[0][0]-'0')
			q.strs[0] = q.strs[0][1:]
		}
	case 4: // two neighbours merged
		if k >= 2 {
			i := r.Rng.Intn(k - 1)
			q.strs = append(append(append([]string(nil), q.strs[:i]...), q.strs[i]+q.strs[i+1]), q.strs[i+2:]...)
		}
	case 5: // one balance split in two
		if k >= 1 {
			i := r.Rng.Intn(k)
			c := r.Rng.Intn(len(q.strs[i]) + 1)
			a, b := q.strs[i][:c], q.strs[i][c:]
			q.strs = append(append(append([]string(nil), q.strs[:i]...), a, b), q.strs[i+1:]...)
		}
	case 6: // an empty balance added or removed
		if r.Rng.Intn(2) == 0 || k == 0 {
			i := r.Rng.Intn(k + 1)
			q.strs = append(append(append([]string(nil), q.strs[:i]...), ""), q.strs[i:]...)
		} else {
			q.strs = q.strs[:k-1]
		}
	case 7: // a leading zero
		if k >= 1 {
			i := r.Rng.Intn(k)
			q.strs[i] = "0" + q.strs[i]
		}
	default: // a different amount
		if k >= 1 {
			q.strs[r.Rng.Intn(k)] = r.c04Digits(4) + "7"
		}
	}
	return q
}

func (r *Rec) c04MutateRefBlock(p c04EncProof) c04EncProof {
	q := c04Clone(p)
	body := strings.TrimPrefix(q.strs[0], "0x")
	switch r.Rng.Intn(6) {
	case 0: // height gains the first hash digit's value, the hash keeps its length
		q.height = (q.height%(1<<60))*10 + uint64(r.Rng.Intn(10))
	case 1:
		q.height /= 10
	case 2: // a digit of the height reappears inside the hash
		q.strs[0] = "0x" + strconv.FormatUint(q.height%10, 10) + body
		q.height /= 10
	case 3:
		q.strs[0] = "0x0" + body
	case 4:
		if len(body) > 0 {
			q.strs[0] = "0x" + body[:len(body)-1]
		}
	default:
		q.strs[0] = "0x" + body + string("0123456789abcdef"[r.Rng.Intn(16)])
	}
	return q
}

func (r *Rec) c04MutateErr(p c04EncProof) c04EncProof {
	q := c04Clone(p)
	s := q.strs[0]
	switch r.Rng.Intn(5) {
	case 0:
		q.strs[0] = s + " "
	case 1:
		q.strs[0] = s + "0"
	case 2:
		if len(s) > 1 {
			q.strs[0] = s[:len(s)-1]
		}
	case 3:
		q.strs[0] = ""
	default:
		if s == "" {
			s = "e"
		}
		q.strs[0] = strings.ToUpper(s[:1]) + s[1:] + "\n"
	}
	return q
}

func c04Receipt(status uint64, gas uint64) []byte {
	rc, _ := (&ethtypes.Receipt{Type: ethtypes.DynamicFeeTxType, Status: status, CumulativeGasUsed: gas}).MarshalBinary()
	return rc
}

func (r *Rec) c04MutateTx(p c04EncProof) c04EncProof {
	q := p
	switch r.Rng.Intn(4) {
	case 0: // the receipt is dropped / added
		if q.rcp == nil {
			q.rcp = c04Receipt(ethtypes.ReceiptStatusSuccessful, 21000)
		} else {
			q.rcp = nil
		}
	case 1:
		q.rcp = c04Receipt(uint64(r.Rng.Intn(2)), 21000+uint64(r.Rng.Intn(3)))
	case 2:
		raw, _ := c04JunkTx(uint64(r.Rng.Intn(4))).MarshalBinary()
		q.tx = raw
	default:
		raw, _ := c04JunkTx(uint64(1 << 20)).MarshalBinary()
		q.tx = raw
	}
	return q
}

func (r *Rec) c04BaseProof(kind byte) c04EncProof {
	switch kind {
	case 'b':
		k := 1 + r.Rng.Intn(4)
		p := c04EncProof{kind: 'b', height: r.c04Height()}
		for i := 0; i < k; i++ {
			p.strs = append(p.strs, r.c04Digits(5))
		}
		return p
	case 'r':
		body := ""
		for n := []int{0, 1, 3, 8, 64}[r.Rng.Intn(5)]; len(body) < n; {
			body += string("0123456789abcdef"[r.Rng.Intn(16)])
		}
		return c04EncProof{kind: 'r', height: r.c04Height(), strs: []string{"0x" + body}}
	case 'e':
		return c04EncProof{kind: 'e', strs: []string{[]string{"execution reverted", "h1", "out of gas", "e"}[r.Rng.Intn(4)]}}
	}
	raw, _ := c04JunkTx(uint64(r.Rng.Intn(4))).MarshalBinary()
	p := c04EncProof{kind: 't', tx: raw}
	if r.Rng.Intn(3) != 0 {
		p.rcp = c04Receipt(uint64(r.Rng.Intn(2)), 21000)
	}
	return p
}

func (r *Rec) c04Mutate(p c04EncProof) c04EncProof {
	switch p.kind {
	case 'b':
		return r.c04MutateBalances(p)
	case 'r':
		return r.c04MutateRefBlock(p)
	case 'e':
		return r.c04MutateErr(p)
	}
	return r.c04MutateTx(p)
}

// c04Crafted: a proof with adversarial field contents that reads like p under some way of writing
// the fields one after the other (plain, separated by line feeds or slashes, hex encoded, tagged)
func (r *Rec) c04Crafted(p c04EncProof) c04EncProof {
	q := c04Clone(p)
	spell := func() c04EncProof { // an error message with the very bytes p is hashed from
		b, err := p.msg().(evmtypes.Hashable).BytesToHash()
		if err != nil || p.kind == 't' {
			return c04EncProof{kind: 'e', strs: []string{"error/"}}
		}
		return c04EncProof{kind: 'e', strs: []string{string(b)}}
	}
	hexOf := func(s string) string { return hex.EncodeToString([]byte(s)) }
	switch p.kind {
	case 'b':
		k := len(q.strs)
		switch x := r.Rng.Intn(8); {
		case x < 3 && k >= 2: // two neighbours joined inside one string by a line feed, a slash, or as hex text
			i := r.Rng.Intn(k - 1)
			j := []string{q.strs[i] + "\n" + q.strs[i+1], q.strs[i] + "/" + q.strs[i+1], hexOf(q.strs[i]) + "/" + hexOf(q.strs[i+1])}[r.Rng.Intn(3)]
			q.strs = append(append(append([]string(nil), q.strs[:i]...), j), q.strs[i+2:]...)
			if r.Rng.Intn(2) == 0 { // ... and the number of balances restored
				q.strs = append(q.strs, "")
			}
		case x < 4 && k >= 1: // a balance replaced by its hex text
			i := r.Rng.Intn(k)
			q.strs[i] = hexOf(q.strs[i])
		case x < 5 && k >= 1:
			i := r.Rng.Intn(k)
			q.strs[i] = "/" + q.strs[i]
		case x < 6: // the fields as an error message, the old way
			return c04EncProof{kind: 'e', strs: []string{strings.Join(append([]string{strconv.FormatUint(p.height, 10)}, p.strs...), "\n")}}
		default:
			return spell()
		}
	case 'r':
		switch x := r.Rng.Intn(8); {
		case x < 2 && q.height >= 10: // the last digit of the height is written in front of the hash
			q.strs[0] = strconv.FormatUint(q.height%10, 10) + q.strs[0]
			q.height /= 10
		case x < 3 && q.height >= 10: // ... with a slash / as hex text
			q.strs[0] = strconv.FormatUint(q.height%10, 10) + "/" + hexOf(q.strs[0])
			q.height /= 10
		case x < 4:
			q.strs[0] = strings.ToUpper(q.strs[0])
		case x < 5:
			q.strs[0] = hexOf(q.strs[0])
		case x < 6: // an error message with the same text, the old way
			return c04EncProof{kind: 'e', strs: []string{strconv.FormatUint(p.height, 10) + p.strs[0]}}
		default:
			return spell()
		}
	case 'e':
		switch r.Rng.Intn(5) {
		case 0: // a reference block whose fields spell the message
			return c04EncProof{kind: 'r', height: 0, strs: []string{strings.TrimPrefix(p.strs[0], "0")}}
		case 1:
			q.strs[0] = hexOf(q.strs[0])
		case 2:
			q.strs[0] = "error/" + hexOf(q.strs[0])
		case 3:
			q.strs[0] = strings.ToUpper(q.strs[0])
		default:
			return spell()
		}
	}
	return q
}

type c04EncCase struct {
	total *big.Int
	vals  []pair
	fam   []c04EncProof
	subs  [][2]int // validator id, family index, in evidence order
}

func (c c04EncCase) describe() string {
	var s []string
	for _, e := range c.subs {
		s = append(s, fmt.Sprintf("%d=%s", e[0], c.fam[e[1]]))
	}
	return strings.Join(s, "; ")
}

// c04EncRun drives VerifyEvidence with the case, evaluates the clause and records the ops
func (r *Rec) c04EncRun(t *testing.T, cdc codec.Codec, c c04EncCase, directed string) {
	modelled := true
	for _, p := range c.fam {
		if p.kind == 't' {
			modelled = false
		}
	}
	share := map[int]*big.Int{}
	for _, v := range c.vals {
		if _, ok := share[int(v.a.Int64())]; !ok {
			share[int(v.a.Int64())] = v.b
		}
	}
	snap := r.c04Snapshot(c04Case{total: c.total, vals: c.vals})
	checker := libcons.New(func(context.Context) (*valsettypes.Snapshot, error) { return snap, nil }, cdc)
	var evs []libcons.Evidence
	var toks []string
	for _, e := range c.subs {
		a, err := codectypes.NewAnyWithValue(c.fam[e[1]].msg())
		if err != nil {
			t.Fatal(err)
		}
		// what the queue stores: the packed bytes only
		evs = append(evs, &consensustypes.Evidence{ValAddress: valAddrOf(e[0]), Proof: &codectypes.Any{TypeUrl: a.TypeUrl, Value: a.Value}})
		toks = append(toks, fmt.Sprintf("%d=%s", e[0], c.fam[e[1]].token()))
	}
	evTok := "-"
	if len(toks) > 0 {
		evTok = strings.Join(toks, ";")
	}
	input := map[string]string{"total": c.total.String(), "vals": pairList(c.vals), "evidence": c.describe(), "directed": directed}
	if modelled {
		input["ops"] = fmt.Sprintf("evp %s %s %s -", c.total, pairList(c.vals), evTok)
	}

	// the bytes of every proof of the family; equal bytes only for the same proof
	hashed := make([][]byte, len(c.fam))
	for i, p := range c.fam {
		b, err := p.msg().(evmtypes.Hashable).BytesToHash()
		if err != nil {
			t.Fatalf("BytesToHash %s: %v", p, err)
		}
		hashed[i] = b
		if p.kind != 't' {
			r.Op("enc "+p.token(), "x"+hex.EncodeToString(b))
		}
	}
	for i := range c.fam {
		for j := i + 1; j < len(c.fam); j++ {
			if bytes.Equal(hashed[i], hashed[j]) && !c.fam[i].same(c.fam[j]) {
				r.Stat("evp.bytes_collision")
				r.Hit("bytes_identical_only_if_same_proof",
					fmt.Sprintf("%s and %s are hashed from the same bytes %q", c.fam[i], c.fam[j], hashed[i]), input)
			}
		}
	}

	// power of the distinct snapshot validators that supplied exactly proof p
	support := func(p c04EncProof) (*big.Int, bool) {
		sum, any := new(big.Int), false
		seen := map[int]bool{}
		for _, e := range c.subs {
			if seen[e[0]] || !c.fam[e[1]].same(p) {
				continue
			}
			seen[e[0]] = true
			if s, ok := share[e[0]]; ok {
				sum.Add(sum, s)
				any = true
			}
		}
		return sum, any
	}
	twoThirds := func(sum *big.Int) bool {
		return new(big.Int).Mul(sum, bi(3)).Cmp(new(big.Int).Mul(c.total, bi(2))) >= 0
	}

	res, err := checker.VerifyEvidence(context.Background(), evs)
	implOut, hint := "", "-"
	switch {
	case err == nil && res != nil && res.Winner != nil:
		w, ok := c04EncOfMsg(res.Winner)
		k := 0
		for i, e := range c.subs {
			if ok && c.fam[e[1]].same(w) {
				k = i + 1
				break
			}
		}
		implOut, hint = fmt.Sprintf("winner %d", k), strconv.Itoa(k)
		r.Stat("evp.winner")
		if k == 0 {
			r.Hit("winner_supplied_identical_evidence", fmt.Sprintf("the winner %s was submitted by nobody", w), input)
			break
		}
		if sum, _ := support(w); !twoThirds(sum) {
			r.Hit("winner_supplied_identical_evidence",
				fmt.Sprintf("winner %s was supplied by validators holding %s of %s", w, sum, c.total), input)
		}
	case err == libcons.ErrConsensusNotAchieved:
		implOut = "notachieved"
		r.Stat("evp.notachieved")
		for _, p := range c.fam {
			if sum, any := support(p); any && twoThirds(sum) {
				r.Hit("identical_two_thirds_must_win",
					fmt.Sprintf("%s was supplied by validators holding %s of %s and is not returned", p, sum, c.total), input)
			}
		}
	default:
		implOut = "error"
		r.Stat("evp.error")
	}
	// the largest single group vs all submitters: the interesting cases are those where no proof has
	// 2/3 although the submitters together do
	all, best := new(big.Int), new(big.Int)
	for _, p := range c.fam {
		s, _ := support(p)
		if s.Cmp(best) > 0 {
			best = s
		}
	}
	seen := map[int]bool{}
	for _, e := range c.subs {
		if s, ok := share[e[0]]; ok && !seen[e[0]] {
			all.Add(all, s)
		}
		seen[e[0]] = true
	}
	if twoThirds(all) && !twoThirds(best) && len(c.subs) > 0 {
		r.Stat("evp.split_below_quorum")
	}
	if modelled {
		r.Op(fmt.Sprintf("evp %s %s %s %s", c.total, pairList(c.vals), evTok, hint), implOut)
	} else {
		r.Stat("evp.monitor_only_tx")
	}
	r.Case("evp|"+c.total.String()+"|"+pairList(c.vals)+"|"+c.describe(), len(c.subs) > 1)
}

func c04EncEqualVals(n int, share int64) ([]pair, *big.Int) {
	var vals []pair
	for i := 1; i <= n; i++ {
		vals = append(vals, pair{bi(int64(i)), bi(share)})
	}
	return vals, bi(share * int64(n))
}

// c04EvidenceBytes: directed histories first, then the random partitions
func c04EvidenceBytes(t *testing.T, r *Rec, cdc codec.Codec) {
	bal := func(h uint64, s ...string) c04EncProof { return c04EncProof{kind: 'b', height: h, strs: s} }
	ref := func(h uint64, s string) c04EncProof { return c04EncProof{kind: 'r', height: h, strs: []string{s}} }
	errp := func(s string) c04EncProof { return c04EncProof{kind: 'e', strs: []string{s}} }
	v4, t4 := c04EncEqualVals(4, 25)
	half := [][2]int{{1, 0}, {2, 0}, {3, 1}, {4, 1}}
	directed := []struct {
		name string
		fam  []c04EncProof
		subs [][2]int
	}{
		{"digit-across-balances", []c04EncProof{bal(100, "60", "0"), bal(100, "6", "00")}, half},
		{"empty-balance-moved", []c04EncProof{bal(100, "1000", "", "5000"), bal(100, "1000", "5000", "")}, half},
		{"balances-merged", []c04EncProof{bal(100, "12", "34"), bal(100, "1234")}, half},
		{"height-digit-into-balance", []c04EncProof{bal(12, "5"), bal(1, "25")}, half},
		{"no-balances-vs-empty", []c04EncProof{bal(7), bal(7, "")}, half},
		{"height-digit-into-hash", []c04EncProof{ref(12, "0x3a"), ref(120, "0xa"), ref(1, "0x23a")}, [][2]int{{1, 0}, {2, 1}, {3, 2}, {4, 0}}},
		{"three-of-four-identical", []c04EncProof{bal(100, "6", "00"), bal(100, "60", "0")}, [][2]int{{1, 0}, {2, 1}, {3, 1}, {4, 1}}},
		{"error-text-prefix", []c04EncProof{errp("h1"), errp("h10"), errp("h1 ")}, [][2]int{{1, 0}, {2, 1}, {3, 2}, {4, 0}}},
		// crafted field contents (collided before d674fa52)
		{"hash-starts-with-height-digit", []c04EncProof{ref(1, "20xab"), ref(12, "0xab")}, [][2]int{{1, 0}, {2, 1}, {3, 1}}},
		{"line-feed-inside-balance", []c04EncProof{bal(7, "1\n2"), bal(7, "1", "2")}, [][2]int{{1, 0}, {2, 1}, {3, 1}}},
		{"error-text-spells-reference-block", []c04EncProof{errp("120xab"), ref(12, "0xab")}, [][2]int{{1, 0}, {2, 1}, {3, 1}}},
		// aimed at the tagged, hex-encoded framing
		{"slash-inside-balance", []c04EncProof{bal(7, "1/2"), bal(7, "1", "2"), bal(7, "31/32")}, [][2]int{{1, 0}, {2, 1}, {3, 1}, {4, 2}}},
		{"balance-is-hex-of-balance", []c04EncProof{bal(7, "3630", "30"), bal(7, "60", "0")}, [][2]int{{1, 0}, {2, 1}, {3, 1}}},
		{"no-balances-one-empty-two-empty", []c04EncProof{bal(7), bal(7, ""), bal(7, "", "")}, [][2]int{{1, 0}, {2, 1}, {3, 2}, {4, 1}}},
		{"error-text-spells-tagged-balances", []c04EncProof{errp("balances/7"), bal(7), errp("balances/7/"), bal(7, "")}, [][2]int{{1, 0}, {2, 1}, {3, 2}, {4, 3}}},
		{"error-text-spells-tagged-error", []c04EncProof{errp("error/6831"), errp("h1"), errp("6831")}, [][2]int{{1, 0}, {2, 1}, {3, 1}, {4, 2}}},
		{"error-text-spells-tagged-reference-block", []c04EncProof{errp("refblock/12/30786162"), ref(12, "0xab")}, [][2]int{{1, 0}, {2, 1}, {3, 1}}},
		{"slash-inside-hash", []c04EncProof{ref(1, "2/0xab"), ref(12, "0xab"), ref(12, "/0xab"), ref(1, "2/30786162")}, [][2]int{{1, 0}, {2, 1}, {3, 2}, {4, 3}}},
		{"upper-case-hex", []c04EncProof{ref(12, "0xAB"), ref(12, "0xab"), ref(12, "0XAB")}, [][2]int{{1, 0}, {2, 1}, {3, 1}, {4, 2}}},
		{"upper-case-hex-of-byte", []c04EncProof{errp(":"), errp("3a"), errp("3A"), errp("J")}, [][2]int{{1, 0}, {2, 1}, {3, 2}, {4, 3}}},
		{"balance-upper-lower", []c04EncProof{bal(7, "AB", ""), bal(7, "ab", ""), bal(7, "4142", "")}, [][2]int{{1, 0}, {2, 1}, {3, 1}, {4, 2}}},
		{"non-ascii-and-nul", []c04EncProof{errp("\u00e9"), errp("c3a9"), errp("\x00"), errp("")}, [][2]int{{1, 0}, {2, 1}, {3, 2}, {4, 3}}},
		{"empty-hash-vs-height-digit", []c04EncProof{ref(12, ""), ref(1, "2"), ref(1, "/2")}, [][2]int{{1, 0}, {2, 1}, {3, 1}, {4, 2}}},
	}
	for _, d := range directed {
		r.c04EncRun(t, cdc, c04EncCase{total: t4, vals: v4, fam: d.fam, subs: d.subs}, d.name)
		r.Stat("evp.directed")
	}

	n := r.N / 2
	for i := 0; i < n; i++ {
		kind := []byte{'b', 'b', 'b', 'r', 'r', 'e', 't'}[r.Rng.Intn(7)]
		base := r.c04BaseProof(kind)
		fam := []c04EncProof{base}
		for k := 1 + r.Rng.Intn(3); k > 0; k-- {
			q := r.c04Mutate(fam[r.Rng.Intn(len(fam))])
			dup := false
			for _, p := range fam {
				dup = dup || p.same(q)
			}
			if !dup {
				fam = append(fam, q)
			}
		}
		if (kind == 'e' || kind == 't') && r.Rng.Intn(3) == 0 { // a message answered by tx proofs and error proofs
			other := byte('e')
			if kind == 'e' {
				other = 't'
			}
			fam = append(fam, r.c04BaseProof(other))
		}
		if r.Rng.Intn(4) == 0 { // crafted field contents
			q := r.c04Crafted(fam[r.Rng.Intn(len(fam))])
			dup := false
			for _, p := range fam {
				dup = dup || p.same(q)
			}
			if !dup {
				fam = append(fam, q)
			}
			r.Stat("evp.family.crafted")
		}
		r.Stat("evp.family." + string(kind))
		vals, total := r.c04GenVals()
		c := c04EncCase{total: total, vals: vals, fam: fam}
		// a partition with few groups: most validators on one or two members of the family
		fav := r.Rng.Perm(len(fam))
		for _, v := range vals {
			if r.Rng.Intn(7) == 0 {
				continue
			}
			j := fav[0]
			switch x := r.Rng.Intn(10); {
			case x >= 8:
				j = r.Rng.Intn(len(fam))
			case x >= 4 && len(fav) > 1:
				j = fav[1]
			}
			c.subs = append(c.subs, [2]int{int(v.a.Int64()), j})
		}
		if r.Rng.Intn(4) == 0 {
			c.subs = append(c.subs, [2]int{100, r.Rng.Intn(len(fam))})
		}
		r.Rng.Shuffle(len(c.subs), func(i, j int) { c.subs[i], c.subs[j] = c.subs[j], c.subs[i] })
		r.c04EncRun(t, cdc, c, "")
	}
}
