//go:build verif

package harness

import (
	"bytes"
	"encoding/hex"
	"encoding/json"
	"fmt"
	"math/big"
	"reflect"
	"strings"
	"testing"

	"github.com/ethereum/go-ethereum/accounts/abi"
	"github.com/ethereum/go-ethereum/common"
)

// Correspondence of lean/PalomaModel/Model/Abi.lean (`encode`, `encodeArgs`) with the real
// go-ethereum encoder `abi.Arguments.Pack`.
//
// Textual syntax shared with lean/Driver/Abi.lean:
//   types : u uint256 · a address · h bytes32 · y bytes · [T] slice · (T,…) tuple
//   values: w<dec> word · x<hex> bytes · (v,…) array or tuple · () empty

type abiTy struct {
	kind    byte // 'u' 'a' 'h' 'y' '[' '('
	elem    *abiTy
	members []*abiTy
}

type abiVal struct {
	word  *big.Int
	bytes []byte
	seq   []*abiVal
	kind  byte // 'w' 'x' 's'
}

var (
	abiU = &abiTy{kind: 'u'}
	abiA = &abiTy{kind: 'a'}
	abiH = &abiTy{kind: 'h'}
	abiY = &abiTy{kind: 'y'}
)

func abiArr(e *abiTy) *abiTy     { return &abiTy{kind: '[', elem: e} }
func abiTup(ms ...*abiTy) *abiTy { return &abiTy{kind: '(', members: ms} }

func (t *abiTy) expr() string {
	switch t.kind {
	case '[':
		return "[" + t.elem.expr() + "]"
	case '(':
		s := make([]string, len(t.members))
		for i, m := range t.members {
			s[i] = m.expr()
		}
		return "(" + strings.Join(s, ",") + ")"
	}
	return string(t.kind)
}

func (t *abiTy) dynamic() bool {
	switch t.kind {
	case 'y', '[':
		return true
	case '(':
		for _, m := range t.members {
			if m.dynamic() {
				return true
			}
		}
	}
	return false
}

// nestedDynamic: a dynamic tuple or slice sits inside another dynamic container
func (t *abiTy) nestedDynamic(inside bool) bool {
	switch t.kind {
	case '[':
		return inside || t.elem.nestedDynamic(true)
	case '(':
		if !t.dynamic() {
			return false
		}
		if inside {
			return true
		}
		for _, m := range t.members {
			if m.nestedDynamic(true) {
				return true
			}
		}
	}
	return false
}

// marshaling renders the type the way an ABI JSON does: base type string plus one "[]"
// per slice level, with the components of the innermost tuple.
func (t *abiTy) marshaling(name string) abi.ArgumentMarshaling {
	suffix := ""
	b := t
	for b.kind == '[' {
		suffix += "[]"
		b = b.elem
	}
	m := abi.ArgumentMarshaling{Name: name}
	switch b.kind {
	case 'u':
		m.Type = "uint256"
	case 'a':
		m.Type = "address"
	case 'h':
		m.Type = "bytes32"
	case 'y':
		m.Type = "bytes"
	case '(':
		m.Type = "tuple"
		for i, c := range b.members {
			m.Components = append(m.Components, c.marshaling(fmt.Sprintf("f%d", i)))
		}
	}
	m.Type += suffix
	return m
}

func (t *abiTy) abiType(tb testing.TB) abi.Type {
	m := t.marshaling("x")
	ty, err := abi.NewType(m.Type, "", m.Components)
	if err != nil {
		tb.Fatalf("NewType %s: %v", t.expr(), err)
	}
	return ty
}

func (v *abiVal) expr() string {
	switch v.kind {
	case 'w':
		return "w" + v.word.String()
	case 'x':
		return "x" + hex.EncodeToString(v.bytes)
	}
	s := make([]string, len(v.seq))
	for i, m := range v.seq {
		s[i] = m.expr()
	}
	return "(" + strings.Join(s, ",") + ")"
}

// abiToReflect builds the Go value go-ethereum expects for the type.
func abiToReflect(tb testing.TB, at abi.Type, t *abiTy, v *abiVal) reflect.Value {
	switch t.kind {
	case 'u':
		return reflect.ValueOf(new(big.Int).Set(v.word))
	case 'a':
		var a common.Address
		v.word.FillBytes(a[:])
		return reflect.ValueOf(a)
	case 'h':
		var h [32]byte
		v.word.FillBytes(h[:])
		return reflect.ValueOf(h)
	case 'y':
		return reflect.ValueOf(append([]byte{}, v.bytes...))
	case '[':
		s := reflect.MakeSlice(at.GetType(), len(v.seq), len(v.seq))
		for i, e := range v.seq {
			s.Index(i).Set(abiToReflect(tb, *at.Elem, t.elem, e))
		}
		return s
	case '(':
		s := reflect.New(at.TupleType).Elem()
		if s.NumField() != len(t.members) || len(v.seq) != len(t.members) {
			tb.Fatalf("tuple arity mismatch for %s", t.expr())
		}
		for i, e := range v.seq {
			s.Field(i).Set(abiToReflect(tb, *at.TupleElems[i], t.members[i], e))
		}
		return s
	}
	tb.Fatalf("bad kind %c", t.kind)
	return reflect.Value{}
}

func (r *Rec) abiWord(bits uint) *big.Int {
	max := new(big.Int).Sub(pow2(bits), bi(1))
	switch r.Rng.Intn(8) {
	case 0:
		return bi(0)
	case 1:
		r.Stat("word.max")
		return max
	case 2:
		return pow2(bits - 1)
	case 3:
		return bi(int64(r.Rng.Intn(1000)))
	case 4:
		return new(big.Int).Sub(max, bi(int64(r.Rng.Intn(300))))
	case 5: // one non-zero byte somewhere
		return new(big.Int).Lsh(bi(int64(1+r.Rng.Intn(255))), uint(8*r.Rng.Intn(int(bits/8))))
	default:
		return new(big.Int).Rand(r.Rng, pow2(bits))
	}
}

func (r *Rec) abiBytes() []byte {
	lens := []int{0, 1, 31, 32, 33, 63, 64, 65, 4, 20, 36, 68, 100}
	n := lens[r.Rng.Intn(len(lens))]
	if r.Rng.Intn(4) == 0 {
		n = r.Rng.Intn(130)
	}
	switch {
	case n == 0:
		r.Stat("bytes.empty")
	case n == 31 || n == 32 || n == 33:
		r.Stat(fmt.Sprintf("bytes.len%d", n))
	case n%32 == 0:
		r.Stat("bytes.aligned")
	default:
		r.Stat("bytes.unaligned")
	}
	b := make([]byte, n)
	switch r.Rng.Intn(4) {
	case 0: // trailing zeros: only the length word separates it from a shorter string
	case 1:
		for i := range b {
			b[i] = 0xff
		}
	default:
		r.Rng.Read(b)
	}
	return b
}

func (r *Rec) abiGenVal(t *abiTy) *abiVal {
	switch t.kind {
	case 'u', 'h':
		return &abiVal{kind: 'w', word: r.abiWord(256)}
	case 'a':
		return &abiVal{kind: 'w', word: r.abiWord(160)}
	case 'y':
		return &abiVal{kind: 'x', bytes: r.abiBytes()}
	case '[':
		n := r.Rng.Intn(5)
		if r.Rng.Intn(4) == 0 {
			n = 0
		}
		if n == 0 {
			r.Stat("array.empty")
		}
		v := &abiVal{kind: 's'}
		for i := 0; i < n; i++ {
			v.seq = append(v.seq, r.abiGenVal(t.elem))
		}
		return v
	default:
		v := &abiVal{kind: 's'}
		for _, m := range t.members {
			v.seq = append(v.seq, r.abiGenVal(m))
		}
		return v
	}
}

// abiMutate returns a value of the same type that differs from v in one place
// (one leaf changed, one array element added or dropped).
func (r *Rec) abiMutate(t *abiTy, v *abiVal) *abiVal {
	switch t.kind {
	case 'u', 'h', 'a':
		bits := 256
		if t.kind == 'a' {
			bits = 160
		}
		w := new(big.Int).Xor(v.word, new(big.Int).Lsh(bi(1), uint(r.Rng.Intn(bits))))
		return &abiVal{kind: 'w', word: w}
	case 'y':
		b := append([]byte{}, v.bytes...)
		switch {
		case len(b) == 0 || r.Rng.Intn(3) == 0:
			b = append(b, 0) // one more zero byte: padding looks the same, length differs
		case r.Rng.Intn(2) == 0:
			b = b[:len(b)-1]
		default:
			b[r.Rng.Intn(len(b))] ^= byte(1 << uint(r.Rng.Intn(8)))
		}
		return &abiVal{kind: 'x', bytes: b}
	case '[':
		n := len(v.seq)
		c := &abiVal{kind: 's', seq: append([]*abiVal{}, v.seq...)}
		switch {
		case n == 0 || r.Rng.Intn(3) == 0:
			c.seq = append(c.seq, r.abiGenVal(t.elem))
		case r.Rng.Intn(2) == 0:
			c.seq = c.seq[:n-1]
		default:
			i := r.Rng.Intn(n)
			c.seq[i] = r.abiMutate(t.elem, c.seq[i])
		}
		return c
	default:
		if len(t.members) == 0 {
			return v
		}
		c := &abiVal{kind: 's', seq: append([]*abiVal{}, v.seq...)}
		i := r.Rng.Intn(len(t.members))
		c.seq[i] = r.abiMutate(t.members[i], c.seq[i])
		return c
	}
}

func (r *Rec) abiGenTy(depth int) *abiTy {
	k := r.Rng.Intn(10)
	if depth <= 0 && k >= 4 {
		k = r.Rng.Intn(4)
	}
	switch k {
	case 0:
		return abiU
	case 1:
		return abiA
	case 2:
		return abiH
	case 3:
		return abiY
	case 4, 5, 6:
		return abiArr(r.abiGenTy(depth - 1))
	default:
		n := 1 + r.Rng.Intn(4)
		ms := make([]*abiTy, n)
		for i := range ms {
			ms[i] = r.abiGenTy(depth - 1)
		}
		return abiTup(ms...)
	}
}

// the argument lists that occur in the repository
var abiShapes = []struct {
	name string
	args []*abiTy
}{
	// x/evm/types/turnstone_abi.go
	{"checkpoint", []*abiTy{abiArr(abiA), abiArr(abiU), abiU, abiH}},
	{"update_valset", []*abiTy{abiH, abiA, abiU}},
	{"logic_call", []*abiTy{abiTup(abiA, abiY), abiTup(abiU, abiU, abiU, abiH), abiU, abiH, abiU, abiA}},
	{"compass_update_batch", []*abiTy{abiArr(abiTup(abiA, abiY)), abiU, abiA, abiU}},
	{"deploy_contract", []*abiTy{abiA, abiY, abiTup(abiU, abiU, abiU, abiH), abiU, abiH, abiU, abiA}},
	// x/skyway/types/batch.go GetCheckpoint
	{"batch_call", []*abiTy{abiA, abiTup(abiArr(abiA), abiArr(abiU)), abiU, abiH, abiU, abiA, abiU}},
	// compass ABI as packed by x/evm/types/eth_txable.go VerifyAgainstTX
	{"submit_logic_call", []*abiTy{
		abiTup(abiTup(abiArr(abiA), abiArr(abiU), abiU), abiArr(abiTup(abiU, abiU, abiU))),
		abiTup(abiA, abiY), abiTup(abiU, abiU, abiU, abiH), abiU, abiU, abiA}},
	{"submit_compass_update_batch", []*abiTy{
		abiTup(abiTup(abiArr(abiA), abiArr(abiU), abiU), abiArr(abiTup(abiU, abiU, abiU))),
		abiArr(abiTup(abiA, abiY)), abiU, abiU, abiA}},
	{"submit_update_valset", []*abiTy{
		abiTup(abiTup(abiArr(abiA), abiArr(abiU), abiU), abiArr(abiTup(abiU, abiU, abiU))),
		abiTup(abiArr(abiA), abiArr(abiU), abiU), abiA, abiU}},
	{"submit_batch", []*abiTy{
		abiTup(abiTup(abiArr(abiA), abiArr(abiU), abiU), abiArr(abiTup(abiU, abiU, abiU))),
		abiA, abiTup(abiArr(abiA), abiArr(abiU)), abiU, abiU, abiA, abiU}},
	// single members
	{"single.bytes", []*abiTy{abiY}},
	{"single.tuple_dyn", []*abiTy{abiTup(abiA, abiY)}},
	{"single.tuple_static", []*abiTy{abiTup(abiU, abiU, abiU, abiH)}},
	{"single.array_tuple_dyn", []*abiTy{abiArr(abiTup(abiA, abiY))}},
	{"single.array_array", []*abiTy{abiArr(abiArr(abiU))}},
	{"single.array_bytes", []*abiTy{abiArr(abiY)}},
}

func (r *Rec) abiPack(t *testing.T, args []*abiTy, v *abiVal) string {
	arguments := make(abi.Arguments, len(args))
	vals := make([]interface{}, len(args))
	for i, a := range args {
		at := a.abiType(t)
		arguments[i] = abi.Argument{Name: fmt.Sprintf("a%d", i), Type: at}
		vals[i] = abiToReflect(t, at, a, v.seq[i]).Interface()
	}
	out, err := arguments.Pack(vals...)
	if err != nil {
		t.Fatalf("Pack %s: %v", abiTup(args...).expr(), err)
	}
	// The path of VerifyAgainstTX: the ABI comes from JSON and the call data is
	// `contractABI.Pack(method, args…)` = 4-byte selector ++ Arguments.Pack(args…).
	if r.Rng.Intn(4) == 0 {
		type jsonArg struct {
			Name       string                   `json:"name"`
			Type       string                   `json:"type"`
			Components []abi.ArgumentMarshaling `json:"components,omitempty"`
		}
		ins := make([]jsonArg, len(args))
		for i, a := range args {
			m := a.marshaling(fmt.Sprintf("a%d", i))
			ins[i] = jsonArg{m.Name, m.Type, m.Components}
		}
		js, err := json.Marshal([]map[string]interface{}{{"type": "function", "name": "f", "inputs": ins, "outputs": []int{}}})
		if err != nil {
			t.Fatal(err)
		}
		parsed, err := abi.JSON(bytes.NewReader(js))
		if err != nil {
			t.Fatalf("abi.JSON %s: %v", js, err)
		}
		// values must be rebuilt against the parsed types (their struct types differ)
		for i, a := range args {
			vals[i] = abiToReflect(t, parsed.Methods["f"].Inputs[i].Type, a, v.seq[i]).Interface()
		}
		data, err := parsed.Pack("f", vals...)
		if err != nil {
			t.Fatalf("ABI.Pack %s: %v", abiTup(args...).expr(), err)
		}
		if !bytes.Equal(data[:4], parsed.Methods["f"].ID) || !bytes.Equal(data[4:], out) {
			r.Hit("calldata_is_selector_then_args", "ABI.Pack differs from selector ++ Arguments.Pack",
				map[string]string{"type": abiTup(args...).expr(), "v": v.expr()})
		}
		r.Stat("via_json_abi")
	}
	return hex.EncodeToString(out)
}

// small fixed cases; their real encodings are also the `example`s of
// lean/PalomaModel/Props/Abi.lean (non-vacuity section)
func abiW(n int64) *abiVal       { return &abiVal{kind: 'w', word: bi(n)} }
func abiX(b ...byte) *abiVal     { return &abiVal{kind: 'x', bytes: b} }
func abiS(vs ...*abiVal) *abiVal { return &abiVal{kind: 's', seq: vs} }

var abiGolden = []struct {
	shape string
	v     *abiVal
}{
	{"logic_call", abiS(abiS(abiW(0xaa), abiX(0xde, 0xad, 0xbe, 0xef)), abiS(abiW(1), abiW(2), abiW(3), abiW(4)), abiW(9), abiW(7), abiW(100), abiW(0xbb))},
	{"compass_update_batch", abiS(abiS(abiS(abiW(0xa1), abiX(1)), abiS(abiW(0xa2), abiX())), abiW(5), abiW(0xbb), abiW(300000))},
	{"batch_call", abiS(abiW(0xcc), abiS(abiS(abiW(0xa1), abiW(0xa2)), abiS(abiW(5), abiW(6))), abiW(1), abiW(7), abiW(2), abiW(0xbb), abiW(3))},
	{"submit_logic_call", abiS(
		abiS(abiS(abiS(abiW(0xa1), abiW(0xa2)), abiS(abiW(10), abiW(20)), abiW(7)), abiS(abiS(abiW(27), abiW(1), abiW(2)), abiS(abiW(28), abiW(3), abiW(4)))),
		abiS(abiW(0xaa), abiX(0xde, 0xad, 0xbe, 0xef)), abiS(abiW(1), abiW(2), abiW(3), abiW(4)), abiW(5), abiW(6), abiW(0xbb))},
}

func TestABI(t *testing.T) {
	r := NewRec(t, "ABI")
	defer r.Close()

	for _, g := range abiGolden {
		for _, s := range abiShapes {
			if s.name == g.shape {
				tt := abiTup(s.args...)
				r.Op(fmt.Sprintf("enc %s %s", tt.expr(), g.v.expr()), r.abiPack(t, s.args, g.v))
				r.Stat("golden")
			}
		}
	}

	for i := 0; i < r.N; i++ {
		var args []*abiTy
		name := ""
		if i%2 == 0 {
			s := abiShapes[(i/2)%len(abiShapes)]
			args, name = s.args, s.name
		} else {
			n := 1 + r.Rng.Intn(4)
			for j := 0; j < n; j++ {
				args = append(args, r.abiGenTy(3))
			}
			name = "random"
		}
		tt := abiTup(args...)
		r.Stat("shape." + name)
		if tt.dynamic() {
			r.Stat("type.dynamic")
		} else {
			r.Stat("type.static")
		}
		if tt.nestedDynamic(false) {
			r.Stat("type.nested_dynamic")
		}

		v := r.abiGenVal(tt)
		enc := r.abiPack(t, args, v)
		r.Op(fmt.Sprintf("enc %s %s", tt.expr(), v.expr()), enc)
		r.Case(tt.expr()+"|"+v.expr(), tt.dynamic())

		// monitor (encode_injective on the implementation): a value that differs in one
		// place must not pack to the same bytes
		w := r.abiMutate(tt, v)
		if w.expr() != v.expr() {
			enc2 := r.abiPack(t, args, w)
			r.Op(fmt.Sprintf("enc %s %s", tt.expr(), w.expr()), enc2)
			r.Stat("mutants")
			if enc2 == enc {
				r.Hit("encode_injective", "two different argument lists pack to the same bytes",
					map[string]string{"type": tt.expr(), "v": v.expr(), "w": w.expr(), "enc": enc})
			}
		}
	}
}
