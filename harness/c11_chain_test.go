//go:build verif

package harness

import (
	"bytes"
	"context"
	"encoding/hex"
	"fmt"
	"reflect"
	"sort"
	"strings"

	sdkmath "cosmossdk.io/math"
	storetypes "cosmossdk.io/store/types"
	sdk "github.com/cosmos/cosmos-sdk/types"
	skykeeper "github.com/palomachain/paloma/v2/x/skyway/keeper"
	skytypes "github.com/palomachain/paloma/v2/x/skyway/types"
)

// C11, the chain clause. The claim hash does not cover chain_reference_id: the chain is bound by the store the
// attestation is kept in (`GetStore(ctx, chainReferenceID)`, a prefix of the module's one flat store). This file
// drives histories in which the chain id VARIES between the claims of one history - the real id, respellings of
// it (surrounding white space, letter case, NUL, a shorter / longer id, the empty id, another unicode form) and
// unrelated ids - submitted by deviating validators before, between and after the honest votes, and by the same
// validator on several ids.  Observed against the model of `Attest` (Model/ClaimHash.lean: `attest`, `flatKey`)
// and by monitors that state the property on the implementation.

// c11ChainFamily: ids a lenient reader would identify with base, plus unrelated ones.
func c11ChainFamily(base string) []string {
	out := []string{
		base + " ", " " + base, base + "\n", base + "\t", "\t" + base + " ", base + "\u00a0", base + "\x00", base + "\r\n",
		strings.ToUpper(base), strings.ToLower(base), strings.ToUpper(base[:1]) + base[1:], strings.ToLower(base[:1]) + base[1:],
		base + "2", base + "/", base + "-", "", " ", "other-chain",
	}
	if len(base) > 1 {
		out = append(out, base[:len(base)-1], base[1:])
	}
	if strings.Contains(base, "-") {
		out = append(out, strings.ReplaceAll(base, "-", "_"), strings.ReplaceAll(base, "-", ""), strings.ReplaceAll(base, "-", "\u2010"))
	}
	if strings.Contains(base, "\u00e9") {
		out = append(out, strings.ReplaceAll(base, "\u00e9", "e\u0301"))
	}
	seen := map[string]bool{base: true}
	var uniq []string
	for _, s := range out {
		if !seen[s] {
			seen[s] = true
			uniq = append(uniq, s)
		}
	}
	return uniq
}

var c11ChainBytes = []byte{' ', '\t', '\n', 0, 'a', 'A', '-', '_', '/', 0xc3, 0xa9, 0xff, 0x0b, 0xfa}

var c11ChainBases = []string{skyChain, skyChain, skyChain, "eth-main", "Bnb-Main", "\u00e9-chain", "a", "base"}

func c11kLine(vi int, c skytypes.EthereumClaim) string {
	l := c11Line(c.(c11Claim)) // "hash <Type> <kvs>"
	p := strings.SplitN(l, " ", 3)
	return fmt.Sprintf("%d|%s|%s|%s", vi+1, p[1], c11x(c.GetChainReferenceId()), p[2])
}

func c11kWithChain(c skytypes.EthereumClaim, chain string) skytypes.EthereumClaim {
	switch m := c.(type) {
	case *skytypes.MsgSendToPalomaClaim:
		d := *m
		d.ChainReferenceId = chain
		return &d
	case *skytypes.MsgBatchSendToRemoteClaim:
		d := *m
		d.ChainReferenceId = chain
		return &d
	case *skytypes.MsgLightNodeSaleClaim:
		d := *m
		d.ChainReferenceId = chain
		return &d
	}
	return c
}

func c11kFor(e *skyEnv, c skytypes.EthereumClaim, vi int) skytypes.EthereumClaim {
	o := e.orch(vi)
	switch m := c.(type) {
	case *skytypes.MsgSendToPalomaClaim:
		d := *m
		d.Orchestrator, d.Metadata = o.String(), e.meta(o)
		return &d
	case *skytypes.MsgBatchSendToRemoteClaim:
		d := *m
		d.Orchestrator, d.Metadata = o.String(), e.meta(o)
		return &d
	case *skytypes.MsgLightNodeSaleClaim:
		d := *m
		d.Orchestrator, d.Metadata = o.String(), e.meta(o)
		return &d
	}
	return c
}

func c11kSubmit(e *skyEnv, c skytypes.EthereumClaim) string {
	return e.runMsg(func(ctx sdk.Context) error {
		switch m := c.(type) {
		case *skytypes.MsgSendToPalomaClaim:
			_, err := e.ms.SendToPalomaClaim(ctx, m)
			return err
		case *skytypes.MsgLightNodeSaleClaim:
			_, err := e.ms.LightNodeSaleClaim(ctx, m)
			return err
		case *skytypes.MsgBatchSendToRemoteClaim:
			_, err := e.ms.BatchSendToRemoteClaim(ctx, m)
			return err
		}
		return fmt.Errorf("unknown claim")
	})
}

// c11kModuleStore: the module's one flat store, below all per-chain prefix stores - the very handle the keeper
// reads and writes through (its unexported `storeGetter`; the fixture does not export the store key).
func c11kModuleStore(e *skyEnv, ctx sdk.Context) storetypes.KVStore {
	k := e.raw
	f := reflect.ValueOf(&k).Elem().FieldByName("storeGetter")
	if !f.IsValid() {
		e.t.Fatal("skyway keeper has no storeGetter field")
	}
	g, ok := reflect.NewAt(f.Type(), f.Addr().UnsafePointer()).Elem().Interface().(interface {
		Store(context.Context) storetypes.KVStore
	})
	if !ok {
		e.t.Fatal("skyway keeper's storeGetter has no Store method")
	}
	return g.Store(ctx)
}

// c11kRawKeys: every key of the skyway module's flat store, as seen below all prefix stores.
func c11kRawKeys(e *skyEnv, ctx sdk.Context) map[string]bool {
	out := map[string]bool{}
	it := c11kModuleStore(e, ctx).Iterator(nil, nil)
	defer it.Close()
	for ; it.Valid(); it.Next() {
		out[string(it.Key())] = true
	}
	return out
}

// c11kFlatKey: the key `SetAttestation(chain, nonce, hash)` really writes into the module store (on a scratch
// branch of the state that is thrown away).
func c11kFlatKey(e *skyEnv, chain string, nonce uint64, hash []byte) string {
	cctx, _ := e.ctx.CacheContext()
	before := c11kRawKeys(e, cctx)
	e.raw.SetAttestation(cctx, chain, nonce, hash, &skytypes.Attestation{Votes: []string{"probe"}, Height: 1})
	var fresh []string
	for k := range c11kRawKeys(e, cctx) {
		if !before[k] {
			fresh = append(fresh, k)
		}
	}
	switch len(fresh) {
	case 0:
		return "overwrites-existing-key"
	case 1:
		return hex.EncodeToString([]byte(fresh[0]))
	}
	return "several-keys"
}

type c11kSub struct {
	vi    int
	claim skytypes.EthereumClaim
}

// c11ChainCase runs one history with varying chain ids on a fresh environment.
func c11ChainCase(r *Rec, e *skyEnv) {
	base := c11ChainBases[r.Rng.Intn(len(c11ChainBases))]
	family := c11ChainFamily(base)
	// the ids this history uses besides base: mostly respellings, sometimes two of them
	alts := []string{family[r.Rng.Intn(len(family))]}
	if r.Rng.Intn(3) == 0 {
		alts = append(alts, family[r.Rng.Intn(len(family))])
	}
	recv := e.users[0].String()
	nVals := len(skykeeper.ValAddrs)
	var subs []c11kSub
	// profiles: 0 honest (the real id only), 1 another id only, 2 both ids at every nonce, 3 erratic
	profile := make([]int, nVals)
	profAlt := make([]string, nVals)
	for vi := range profile {
		profile[vi] = []int{0, 0, 0, 0, 1, 1, 2, 2, 2, 3}[r.Rng.Intn(10)]
		profAlt[vi] = alts[r.Rng.Intn(len(alts))]
	}
	for n := uint64(1); n <= 3; n++ {
		var honest skytypes.EthereumClaim
		switch r.Rng.Intn(3) {
		case 0:
			honest = &skytypes.MsgSendToPalomaClaim{EventNonce: n, EthBlockHeight: 100 + n, TokenContract: "0x1000000000000000000000000000000000000001", Amount: sdkmath.NewInt(int64(50 + r.Rng.Intn(2))),
				EthereumSender: "0x2260FAC5E5542a773Aa44fBCfeDf7C193bc2C599", PalomaReceiver: recv, ChainReferenceId: base, SkywayNonce: n, CompassId: skyCompass}
		case 1:
			honest = &skytypes.MsgLightNodeSaleClaim{EventNonce: n, EthBlockHeight: 100 + n, ChainReferenceId: base, SkywayNonce: n,
				ClientAddress: recv, Amount: sdkmath.NewInt(1000), SmartContractAddress: "0x2260FAC5E5542a773Aa44fBCfeDf7C193bc2C599", CompassId: skyCompass}
		default:
			honest = &skytypes.MsgBatchSendToRemoteClaim{EventNonce: n, EthBlockHeight: 100 + n, BatchNonce: uint64(1 + r.Rng.Intn(2)), TokenContract: "0x2260FAC5E5542a773Aa44fBCfeDf7C193bc2C599", ChainReferenceId: base,
				SkywayNonce: n, CompassId: skyCompass}
		}
		// what each validator does at this nonce, by its profile: the honest claim, the same claim for another chain id, or both
		// (in either order); an erratic validator picks anew every round; now and then a vote is repeated
		var round []c11kSub
		for vi := 0; vi < nVals; vi++ {
			alt := c11kWithChain(honest, profAlt[vi])
			k := profile[vi]
			if k == 3 {
				k = r.Rng.Intn(3)
				alt = c11kWithChain(honest, alts[r.Rng.Intn(len(alts))])
			}
			switch k {
			case 0:
				round = append(round, c11kSub{vi, honest})
			case 1:
				round = append(round, c11kSub{vi, alt})
			default:
				round = append(round, c11kSub{vi, alt}, c11kSub{vi, honest})
			}
			if r.Rng.Intn(12) == 0 {
				round = append(round, round[len(round)-1]) // a repeated vote
			}
		}
		// order: a deviating submission first in half of the rounds, otherwise any interleaving
		r.Rng.Shuffle(len(round), func(i, j int) { round[i], round[j] = round[j], round[i] })
		if r.Rng.Intn(2) == 0 {
			for i, s := range round {
				if s.claim.GetChainReferenceId() != base {
					round[0], round[i] = round[i], round[0]
					break
				}
			}
		}
		subs = append(subs, round...)
	}

	type voted struct{ chain, fields string }
	submitted := map[string][]voted{} // validator/nonce -> what it had accepted
	usedChains := map[string]bool{base: true}
	keyVoted := map[string]bool{} // chain|nonce|hash of accepted submissions
	var toks, results, ops []string
	nonTrivial, pooledAcross := false, false
	for _, s := range subs {
		claim := c11kFor(e, s.claim, s.vi)
		if err := claim.ValidateBasic(); err != nil {
			r.Stat("chain.skipped-invalid")
			continue
		}
		chain := claim.GetChainReferenceId()
		usedChains[chain] = true
		hash, _ := claim.ClaimHash()
		nonce := claim.GetSkywayNonce()
		existed := e.raw.GetAttestation(e.ctx, chain, nonce, hash) != nil
		res := c11kSubmit(e, claim)
		want := c11kFields(claim)
		ops = append(ops, fmt.Sprintf("v%d %q %s -> %s", s.vi+1, chain, want, res))
		toks = append(toks, c11kLine(s.vi, claim))
		val := skykeeper.ValAddrs[s.vi].String()
		if res != "ok" {
			results = append(results, "rej")
			r.Stat("chain.vote.rejected")
			continue
		}
		nonTrivial = true
		r.Stat("chain.vote.ok")
		if chain != base {
			r.Stat("chain.vote.ok.other-id")
		}
		keyVoted[chain+"|"+fmt.Sprint(nonce)+"|"+string(hash)] = true
		submitted[fmt.Sprintf("%s/%d", val, nonce)] = append(submitted[fmt.Sprintf("%s/%d", val, nonce)], voted{chain, want})
		// ---- monitor: the attestation this vote was counted towards stores the very claim voted for, chain included ----
		att := e.raw.GetAttestation(e.ctx, chain, nonce, hash)
		if att == nil {
			r.Hit("accepted_vote_is_recorded", fmt.Sprintf("accepted vote of validator %d for [%s] is in no attestation under its own key", s.vi+1, want), map[string]interface{}{"ops": ops})
			results = append(results, "lost")
			continue
		}
		stored, err := e.raw.UnpackAttestationClaim(att)
		if err != nil {
			e.t.Fatal(err)
		}
		if got := c11kFields(stored); got != want {
			r.Hit("votes_pooled_only_for_identical_claims", fmt.Sprintf("vote of validator %d for [%s] is counted towards the stored claim [%s] (chain %q vs %q)", s.vi+1, want, got, chain, stored.GetChainReferenceId()),
				map[string]interface{}{"ops": ops})
		}
		found := false
		for _, v := range att.Votes {
			found = found || v == val
		}
		if !found {
			r.Hit("accepted_vote_is_recorded", fmt.Sprintf("accepted vote of validator %d for [%s] is not among the votes of its attestation", s.vi+1, want), map[string]interface{}{"ops": ops})
		}
		if existed {
			results = append(results, fmt.Sprintf("join:%d", len(att.Votes)))
			r.Stat("chain.joined")
		} else {
			results = append(results, fmt.Sprintf("new:%d", len(att.Votes)))
			r.Stat("chain.new")
		}
	}
	if len(toks) == 0 {
		return
	}
	r.Op("hist "+strings.Join(toks, " "), strings.Join(results, ","))

	// ---- monitors over every attestation of every chain id of the family ----
	var chains []string
	for c := range usedChains {
		chains = append(chains, c)
	}
	for _, c := range family {
		if !usedChains[c] {
			chains = append(chains, c)
		}
	}
	sort.Strings(chains)
	type where struct {
		chain string
		nonce uint64
		hash  []byte
	}
	var stored []where
	for _, chain := range chains {
		chain := chain
		err := e.raw.IterateAttestations(e.ctx, chain, false, func(key []byte, att skytypes.Attestation) bool {
			body, err := e.raw.UnpackAttestationClaim(&att)
			if err != nil {
				e.t.Fatal(err)
			}
			h, _ := body.ClaimHash()
			if body.GetChainReferenceId() != chain {
				r.Hit("attestation_is_kept_under_its_own_chain", fmt.Sprintf("the attestations of chain %q contain one whose claim is for chain %q (%s)", chain, body.GetChainReferenceId(), c11kFields(body)),
					map[string]interface{}{"ops": ops})
				pooledAcross = true
			}
			if !bytes.Equal(key, skytypes.GetAttestationKey(body.GetSkywayNonce(), h)) {
				r.Hit("key_is_hash_of_stored_claim", fmt.Sprintf("attestation at nonce %d of chain %q is stored under a key that is not the hash of its own claim (%s)", body.GetSkywayNonce(), chain, c11kFields(body)),
					map[string]interface{}{"ops": ops})
			}
			for _, v := range att.Votes {
				subs, ok := submitted[fmt.Sprintf("%s/%d", v, body.GetSkywayNonce())]
				if !ok {
					continue
				}
				same := false
				for _, s := range subs {
					same = same || (s.fields == c11kFields(body) && s.chain == body.GetChainReferenceId())
				}
				if !same {
					r.Hit("votes_pooled_only_for_identical_claims", fmt.Sprintf("%s is counted towards the stored claim [%s] of chain %q but only voted for %v", v, c11kFields(body), body.GetChainReferenceId(), subs),
						map[string]interface{}{"ops": ops})
				}
			}
			stored = append(stored, where{chain, body.GetSkywayNonce(), h})
			return false
		})
		if err != nil {
			e.t.Fatal(err)
		}
	}
	// ---- monitor: the chain is part of the attestation key: what is stored for one chain id is not found under another ----
	for _, w := range stored {
		for _, other := range chains {
			if other == w.chain || keyVoted[other+"|"+fmt.Sprint(w.nonce)+"|"+string(w.hash)] {
				continue
			}
			r.Stat("chain.probe")
			if e.raw.GetAttestation(e.ctx, other, w.nonce, w.hash) != nil {
				r.Hit("chain_is_part_of_attestation_key", fmt.Sprintf("the attestation stored for chain %q at nonce %d is also found under chain %q, for which nobody voted", w.chain, w.nonce, other),
					map[string]interface{}{"ops": ops})
			}
		}
	}
	_ = pooledAcross

	// ---- the key in the module's flat store, against the model's flatKey; distinct chain ids give distinct keys ----
	probeHash := make([]byte, 32)
	r.Rng.Read(probeHash)
	probeNonce := []uint64{1, 2, 255, 256, 1 << 32, 1<<63 + 5, 1<<64 - 1}[r.Rng.Intn(7)]
	ids := append([]string{base}, family...)
	if r.Rng.Intn(2) == 0 {
		b := make([]byte, r.Rng.Intn(12))
		for i := range b {
			b[i] = c11ChainBytes[r.Rng.Intn(len(c11ChainBytes))]
		}
		ids = append(ids, string(b), string(b)+" ")
	}
	keys := map[string]string{}
	for _, id := range ids {
		k := c11kFlatKey(e, id, probeNonce, probeHash)
		r.Op(fmt.Sprintf("key %s n%d x%s", c11x(id), probeNonce, hex.EncodeToString(probeHash)), k)
		r.Stat("chain.key")
		if prev, ok := keys[k]; ok && prev != id {
			r.Hit("chain_is_part_of_attestation_key", fmt.Sprintf("attestations of chain %q and of chain %q (same nonce, same claim hash) live under the same store key", prev, id),
				map[string]string{"a": prev, "b": id, "nonce": fmt.Sprint(probeNonce), "hash": hex.EncodeToString(probeHash), "key": k})
		}
		keys[k] = id
	}
	r.Case("chain:"+strings.Join(ops, ";"), nonTrivial)
}
