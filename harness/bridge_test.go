//go:build verif

package harness

import (
	"context"
	"crypto/ecdsa"
	"encoding/hex"
	"fmt"
	"math/big"
	"os"
	"runtime/debug"
	"sort"
	"strings"
	"testing"
	"time"

	sdkmath "cosmossdk.io/math"
	storetypes "cosmossdk.io/store/types"
	codectypes "github.com/cosmos/cosmos-sdk/codec/types"
	sdk "github.com/cosmos/cosmos-sdk/types"
	authcodec "github.com/cosmos/cosmos-sdk/x/auth/codec"
	"github.com/ethereum/go-ethereum/crypto"
	chainparams "github.com/palomachain/paloma/v2/app/params"
	evmtypes "github.com/palomachain/paloma/v2/x/evm/types"
	skybindings "github.com/palomachain/paloma/v2/x/skyway/bindings"
	skybindingstypes "github.com/palomachain/paloma/v2/x/skyway/bindings/types"
	skykeeper "github.com/palomachain/paloma/v2/x/skyway/keeper"
	skytypes "github.com/palomachain/paloma/v2/x/skyway/types"
	tokenfactorytypes "github.com/palomachain/paloma/v2/x/tokenfactory/types"
	valsettypes "github.com/palomachain/paloma/v2/x/valset/types"
	"google.golang.org/protobuf/types/known/emptypb"
)

// Bridge life-cycle correspondence (model: lean/PalomaModel/Model/Bridge.lean).
// Serves C01 (conservation / atomicity) and C15 (tax / limits); VERIF_PROP selects
// which property the run is attributed to and tunes the generator.

var brTargets = []string{"", "evm.chaininfo", "evm.pick", "evm.ethaddr", "bank.lock", "bank.send", "bank.pool", "bank.mint", "bank.burn"}

type brHarness struct {
	r    *Rec
	e    *skyEnv
	nTok int
	// number of recorded checkpoints at the last genesis export / import of the case (0 = none): the archive of issued
	// checkpoints is not part of the bridge's genesis state, see known finding C13-archive-not-exported
	reimportedAt int
	// ghost bookkeeping for the monitors
	accepted     map[int]obsTx
	refunded     map[int]bool
	burned       map[int]bool
	pendEst      map[[2]int]uint64
	taxCfg       map[int][3]string
	taxRate      map[int][2]int64  // token -> (num, den) of the configured rate
	taxEx        map[int]int       // token -> bit set of exempt users (bit u for user u)
	sibling      string            // C13: a second chain with the same deployment id and the same validator keys ("" = none)
	lastTax      map[int][3]string // token -> (rate string as submitted, n, d) of the setting in force
	lastLimit    map[int][2]string // token -> (period index, limit) of the setting in force
	limits       map[int][2]int64  // period, start of current window (tracked by harness only for generation)
	fundedSupply map[int]*big.Int
	minted       map[int]*big.Int
	burnt        map[int]*big.Int
	ops          []string // current case's op lines (for replay files)
	ckpts        []brCkpt // every checkpoint ever observed as a batch's signing bytes
	ckptSeen     map[string]bool
	deposits     map[uint64][2]int64 // skyway nonce -> (token, amount) for deposit claims with a registered token
	seenObserved uint64
	// remote keys (C13): key id -> private key; ids 1..5 are the fixture's keys of validators 1..5, higher ids are
	// created by regkeyOp.  keyHolder is the harness's own record of the accepted registrations.
	keys      map[int]*ecdsa.PrivateKey
	keyHolder map[int]int // key id -> validator (1-based) currently registered with it; absent = nobody
	valKey    map[int]int // validator -> its current key id
	nextKey   int
}

func (b *brHarness) initKeys() {
	b.keys, b.keyHolder, b.valKey = map[int]*ecdsa.PrivateKey{}, map[int]int{}, map[int]int{}
	for i := range skykeeper.ValAddrs {
		b.keys[i+1] = skykeeper.EthPrivKeys[i]
		b.keyHolder[i+1] = i + 1
		b.valKey[i+1] = i + 1
	}
	b.nextKey = len(skykeeper.ValAddrs) + 1
}

// ethAddrOf: the remote address validator v (1-based) is currently registered with.
func (b *brHarness) ethAddrOf(v int) string {
	return crypto.PubkeyToAddress(b.keys[b.valKey[v]].PublicKey).Hex()
}

// regkeyOp: a validator (re-)registers its remote key for the bridge's chain through the valset keeper —
// a fresh key, a key another validator holds (refused), a key nobody holds any more, or its own key again.
func (b *brHarness) regkeyOp() {
	r, e := b.r, b.e
	v := 1 + r.Rng.Intn(len(skykeeper.ValAddrs))
	var kid int
	switch x := r.Rng.Intn(10); {
	case x < 5: // fresh key
		kid = b.nextKey
		b.nextKey++
		k, err := crypto.ToECDSA(crypto.Keccak256([]byte(fmt.Sprint("verif-remote-key-", kid))))
		if err != nil {
			r.t.Fatal(err)
		}
		b.keys[kid] = k
	case x < 8: // any known key: held by somebody else, by nobody, or by v itself
		kid = 1 + r.Rng.Intn(b.nextKey-1)
	default:
		kid = b.valKey[v]
	}
	addr := crypto.PubkeyToAddress(b.keys[kid].PublicKey)
	b.e.fault.Reset("", 0)
	res := e.runMsg(func(ctx sdk.Context) error {
		return e.in.ValsetKeeper.AddExternalChainInfo(ctx, skykeeper.ValAddrs[v-1], []*valsettypes.ExternalChainInfo{{
			ChainType: "evm", ChainReferenceID: skyChain, Address: addr.Hex(), Pubkey: addr.Bytes()}})
	})
	if res == "ok" {
		if old, ok := b.valKey[v]; ok && b.keyHolder[old] == v {
			delete(b.keyHolder, old)
		}
		b.keyHolder[kid] = v
		b.valKey[v] = kid
	}
	r.Stat("regkey." + res)
	b.emit(fmt.Sprintf("regkey %d %d", v, kid), res)
}

type brCkpt struct {
	tok, nonce int
	est        uint64
	ext        skytypes.OutgoingTxBatch
}

// recordCheckpoints remembers the signing bytes of every open batch (what the chain currently
// asks validators to sign), so that genuine confirmations can be replayed as evidence later.
func (b *brHarness) recordCheckpoints() {
	for _, bb := range b.e.batchList() {
		key := fmt.Sprintf("%d/%d/%d", bb.tok, bb.nonce, bb.est)
		if b.ckptSeen[key] {
			continue
		}
		b.ckptSeen[key] = true
		b.ckpts = append(b.ckpts, brCkpt{bb.tok, bb.nonce, bb.est, bb.raw.ToExternal()})
	}
}

func (b *brHarness) jailedList() string {
	var js []string
	for i, v := range skykeeper.ValAddrs {
		val, err := b.e.in.StakingKeeper.Validator(b.e.ctx, v)
		if err == nil && val.IsJailed() {
			js = append(js, fmt.Sprint(i+1))
		}
	}
	if len(js) == 0 {
		return "-"
	}
	return strings.Join(js, ",")
}

func (b *brHarness) state() string {
	e := b.e
	var sb strings.Builder
	sb.WriteString("pool=")
	pool := e.poolTxs()
	if len(pool) == 0 {
		sb.WriteString("-")
	}
	for i, t := range pool {
		if i > 0 {
			sb.WriteString(";")
		}
		fmt.Fprintf(&sb, "%d:%d:%d:%s:%s", t.id, t.sender, t.tok, t.amount, t.tax)
	}
	sb.WriteString(" batches=")
	bs := e.batchList()
	sort.Slice(bs, func(i, j int) bool {
		if bs[i].tok != bs[j].tok {
			return bs[i].tok < bs[j].tok
		}
		return bs[i].nonce < bs[j].nonce
	})
	if len(bs) == 0 {
		sb.WriteString("-")
	}
	for i, x := range bs {
		if i > 0 {
			sb.WriteString(";")
		}
		ids := make([]string, len(x.txs))
		for j, t := range x.txs {
			ids[j] = fmt.Sprint(t.id)
		}
		fmt.Fprintf(&sb, "%d:%d:%d:%d:%s", x.tok, x.nonce, x.est, x.timeout, strings.Join(ids, "."))
	}
	sb.WriteString(" esc=")
	for t := 1; t <= b.nTok; t++ {
		if t > 1 {
			sb.WriteString(",")
		}
		sb.WriteString(e.escrow(t).String())
	}
	sb.WriteString(" sup=")
	for t := 1; t <= b.nTok; t++ {
		if t > 1 {
			sb.WriteString(",")
		}
		sb.WriteString(e.in.BankKeeper.GetSupply(e.ctx, e.denoms[t-1]).Amount.String())
	}
	sb.WriteString(" bal=")
	cp := e.in.AccountKeeper.GetModuleAddress("distribution")
	first := true
	for u := 1; u <= len(e.users)+1; u++ {
		for t := 1; t <= b.nTok; t++ {
			if !first {
				sb.WriteString(",")
			}
			first = false
			addr := cp
			if u <= len(e.users) {
				addr = e.users[u-1]
			}
			sb.WriteString(e.in.BankKeeper.GetBalance(e.ctx, addr, e.denoms[t-1]).Amount.String())
		}
	}
	last, _ := e.raw.GetLastObservedSkywayNonce(e.ctx, skyChain)
	fmt.Fprintf(&sb, " last=%d usage=", last)
	for t := 1; t <= b.nTok; t++ {
		if t > 1 {
			sb.WriteString(",")
		}
		us, err := e.raw.BridgeTransferUsage(e.ctx, e.denoms[t-1])
		if err != nil || us == nil || us.Total.IsNil() {
			sb.WriteString("-")
		} else {
			fmt.Fprintf(&sb, "%d:%s", us.StartBlockHeight, us.Total)
		}
	}
	return sb.String()
}

// monitors evaluated on the implementation's own state after every op
func (b *brHarness) monitor(op string) {
	e := b.e
	pool := e.poolTxs()
	bs := e.batchList()
	for t := 1; t <= b.nTok; t++ {
		sum := new(big.Int)
		add := func(x obsTx) {
			if x.tok != t {
				return
			}
			a, _ := new(big.Int).SetString(x.amount, 10)
			tx, _ := new(big.Int).SetString(x.tax, 10)
			sum.Add(sum, a).Add(sum, tx)
		}
		for _, x := range pool {
			add(x)
		}
		for _, bb := range bs {
			for _, x := range bb.txs {
				add(x)
			}
		}
		if sum.Cmp(e.escrow(t).BigInt()) != 0 {
			b.r.Hit("escrow_eq_pending", fmt.Sprintf("token %d escrow %s != pending amount+tax %s after `%s`", t, e.escrow(t), sum, op), b.replay())
		}
		// supply = funded + minted(deposits) - burnt(executed batches)
		want := new(big.Int).Add(b.fundedSupply[t], b.minted[t])
		want.Sub(want, b.burnt[t])
		got := e.in.BankKeeper.GetSupply(e.ctx, e.denoms[t-1]).Amount.BigInt()
		if want.Cmp(got) != 0 {
			b.r.Hit("supply_delta", fmt.Sprintf("token %d supply %s != funded+deposits-burned %s after `%s`", t, got, want, op), b.replay())
		}
	}
	// partition: every accepted transfer is in exactly one place
	where := map[int]int{}
	for _, x := range pool {
		where[x.id]++
	}
	for _, bb := range bs {
		for _, x := range bb.txs {
			where[x.id]++
		}
	}
	for id := range b.accepted {
		n := where[id]
		if b.refunded[id] {
			n++
		}
		if b.burned[id] {
			n++
		}
		if n != 1 {
			b.r.Hit("lifecycle_partition", fmt.Sprintf("transfer %d is in %d places after `%s`", id, n, op), b.replay())
		}
	}
	for id := range where {
		if _, ok := b.accepted[id]; !ok {
			b.r.Hit("lifecycle_partition", fmt.Sprintf("unknown transfer %d pending after `%s`", id, op), b.replay())
		}
	}
}

func (b *brHarness) replay() map[string]interface{} {
	return map[string]interface{}{"ops": append([]string(nil), b.ops...)}
}

func (b *brHarness) emit(line, out string) {
	b.ops = append(b.ops, line)
	b.r.Op(line, out)
}

func (b *brHarness) faultSpec(kinds ...int) (string, int, int) {
	r := b.r
	if len(kinds) == 0 || r.Rng.Intn(100) >= 22 {
		b.e.fault.Reset("", 0)
		return "0:0", 0, 0
	}
	k := kinds[r.Rng.Intn(len(kinds))]
	n := 1
	if r.Rng.Intn(3) == 0 {
		n = 2 + r.Rng.Intn(2)
	}
	b.e.fault.Reset(brTargets[k], n)
	return fmt.Sprintf("%d:%d", k, n), k, n
}

func rateString(r *Rec, n, d int64) string {
	switch r.Rng.Intn(3) {
	case 0:
		return fmt.Sprintf("%d/%d", n, d)
	case 1: // decimal, exact only when d is a power of ten
		if d == 10 || d == 100 || d == 1000 {
			s := fmt.Sprintf("%0*d", len(fmt.Sprint(d))-1, n%d)
			return fmt.Sprintf("%d.%s", n/d, s)
		}
		return fmt.Sprintf("%d/%d", n, d)
	default:
		if d == 10 || d == 100 || d == 1000 {
			return fmt.Sprintf("%de-%d", n, len(fmt.Sprint(d))-1)
		}
		return fmt.Sprintf("%d/%d", n, d)
	}
}

var brPeriods = []struct {
	p      skytypes.LimitPeriod
	blocks int64
}{{skytypes.LimitPeriod_NONE, 0}, {skytypes.LimitPeriod_DAILY, 57600}, {skytypes.LimitPeriod_WEEKLY, 57600 * 7}, {skytypes.LimitPeriod_MONTHLY, 57600 * 30}, {skytypes.LimitPeriod_YEARLY, 57600 * 365}}

func (b *brHarness) amount() sdkmath.Int {
	r := b.r
	switch r.Rng.Intn(8) {
	case 0:
		return sdkmath.NewInt(int64(r.Rng.Intn(3)))
	case 1:
		return sdkmath.NewInt(int64(1 + r.Rng.Intn(10)))
	case 2:
		return sdkmath.NewIntFromBigInt(new(big.Int).Lsh(big.NewInt(1), uint(64+r.Rng.Intn(150)))) // beyond any balance
	case 3:
		return sdkmath.NewIntFromBigInt(new(big.Int).Sub(new(big.Int).Lsh(big.NewInt(1), 256), big.NewInt(int64(1+r.Rng.Intn(3))))) // 2^256-k
	default:
		return sdkmath.NewInt(int64(1 + r.Rng.Intn(1000)))
	}
}

func TestBridge(t *testing.T) {
	prop := os.Getenv("VERIF_PROP")
	if prop == "" {
		prop = "C01"
	}
	r := NewRec(t, prop)
	r.prefix = "BR"
	defer r.Close()
	opsPerCase := int(envInt("VERIF_OPS", 40))
	if prop == "C13" {
		// what the chain PUBLISHES for signing, across compass upgrades (harness/c13_published_test.go; own random stream)
		c13pScenario(t, r, 1+r.N/3, 30)
	}
	for c := 0; c < r.N; c++ {
		runBridgeCase(t, r, prop, opsPerCase)
	}
	if prop == "C01" {
		brTwoChainScenario(t, r, 1+r.N/6, 40)
		brRebindScenario(t, r, 1+r.N/4, 45)
	}
}

func runBridgeCase(t *testing.T, r *Rec, prop string, nops int) {
	e := newSkyEnv(t, 3)
	b := &brHarness{r: r, e: e, nTok: 2, accepted: map[int]obsTx{}, refunded: map[int]bool{}, burned: map[int]bool{},
		taxRate: map[int][2]int64{}, taxEx: map[int]int{}, lastTax: map[int][3]string{}, lastLimit: map[int][2]string{}, ckptSeen: map[string]bool{}, deposits: map[uint64][2]int64{}, pendEst: map[[2]int]uint64{}, fundedSupply: map[int]*big.Int{}, minted: map[int]*big.Int{}, burnt: map[int]*big.Int{}}
	b.initKeys()
	// denominations as they occur on a chain: plain lower-case ones, IBC vouchers (an upper-case hash) and token factory
	// denoms with capitals in the sub-denom - every setting and look-up keyed by the denom must spell it exactly as the coin does
	spell := [][2]string{{"utok1", "utok2"},
		{"ibc/27394FB092D2ECCD56123C74F36E4C1F926001CEADA9CA97EA622B25F41E5EB2", "utok2"},
		{"utok1", "factory/" + e.users[0].String() + "/GRAINx"},
		{"ibc/C4CFF46FD6DE35CA4CF4CE031E643C8FDC9BA4B99AE598E9B0ED98FE3A2319F9", "factory/" + e.users[1].String() + "/Gold.Bar"}}[r.Rng.Intn(4)]
	r.Stat("denoms." + map[bool]string{true: "mixed_case", false: "lower_case"}[spell[0] != "utok1" || spell[1] != "utok2"])
	e.addToken(spell[0], "0x1000000000000000000000000000000000000001")
	e.addToken(spell[1], "0x1000000000000000000000000000000000000002")
	for tk := 1; tk <= b.nTok; tk++ {
		b.fundedSupply[tk], b.minted[tk], b.burnt[tk] = new(big.Int), new(big.Int), new(big.Int)
	}
	if prop == "C13" {
		// a second supported chain whose compass carries the SAME deployment id (the id is the deployment's block height:
		// chains deployed together share it) and on which every validator uses the same remote key: a genuine
		// confirmation of a batch of the first chain, replayed as evidence NAMING this chain, is over a checkpoint the
		// chain issued all the same
		const sibling = "sibling-chain"
		if err := e.in.EvmKeeper.AddSupportForNewChain(e.ctx, sibling, 2, 123, "0x1234", big.NewInt(55)); err != nil {
			t.Fatal(err)
		}
		if err := e.in.EvmKeeper.ActivateChainReferenceID(e.ctx, sibling, &evmtypes.SmartContract{Id: 1}, "0x1234567890123456789012345678901234567891", []byte(skyCompass)); err != nil {
			t.Fatal(err)
		}
		for i, v := range skykeeper.ValAddrs {
			addr := crypto.PubkeyToAddress(skykeeper.EthPrivKeys[i].PublicKey)
			if err := e.in.ValsetKeeper.AddExternalChainInfo(e.ctx, v, []*valsettypes.ExternalChainInfo{
				{ChainType: "evm", ChainReferenceID: skyChain, Address: addr.Hex(), Pubkey: addr.Bytes()},
				{ChainType: "evm", ChainReferenceID: sibling, Address: addr.Hex(), Pubkey: addr.Bytes()}}); err != nil {
				t.Fatal(err)
			}
		}
		b.sibling = sibling
	}
	b.emit("reset 2", "ok")
	for u := 1; u <= 3; u++ {
		for tk := 1; tk <= 2; tk++ {
			amt := sdkmath.NewInt(int64(r.Rng.Intn(5000)))
			if amt.IsZero() {
				continue
			}
			e.fund(u, tk, amt)
			b.fundedSupply[tk].Add(b.fundedSupply[tk], amt.BigInt())
			b.emit(fmt.Sprintf("fund %d %d %s", u, tk, amt), b.state())
		}
	}
	weightTax := 6
	if prop == "C15" {
		weightTax = 18
	}
	weightEv := 0
	if prop == "C13" {
		weightTax, weightEv = 2, 22
	}
	nonTrivial := false
	for i := 0; i < nops; i++ {
		x := r.Rng.Intn(100)
		b.recordCheckpoints()
		if weightEv > 0 && r.Rng.Intn(100) < 5 {
			b.regkeyOp()
			continue
		}
		if weightEv > 0 && r.Rng.Intn(100) < weightEv && len(b.ckpts) > 0 {
			b.evidenceOp()
			continue
		}
		if r.Rng.Intn(100) < 3 {
			// the chain is exported and started again from the export (bridge module): ExportGenesis, wipe the module's
			// store, InitGenesis.  Everything the bridge properties speak about - pool, batches, their checkpoints and
			// confirmations' base, tax and limit settings, window usage, the oracle cursor - must come back as it was.
			var perr string
			if r.Rng.Intn(2) == 0 {
				// the chain comes back after a halt longer than a batch's lifetime: the importing block's time is later
				// (the model sees the new time with the next end-block, which then times the batches out as usual)
				e.setBlock(e.height, e.now.Add(11*time.Minute))
				r.Stat("op.reimport.after_halt")
			}
			func() {
				defer func() {
					if rec := recover(); rec != nil {
						perr = fmt.Sprint(rec) + " | " + firstLines(string(debug.Stack()), 40)
					}
				}()
				gs := skykeeper.ExportGenesis(e.ctx, e.raw)
				st := e.raw.GetStore(e.ctx, "") // the whole module store (empty prefix)
				it := st.Iterator(nil, nil)
				var keys [][]byte
				for ; it.Valid(); it.Next() {
					keys = append(keys, append([]byte(nil), it.Key()...))
				}
				it.Close()
				for _, k := range keys {
					st.Delete(k)
				}
				skykeeper.InitGenesis(e.ctx, e.raw, gs)
			}()
			if perr != "" {
				r.Hit("genesis_round_trip", "export / import of the bridge module panicked: "+perr, b.replay())
			}
			b.reimportedAt = len(b.ckpts) // every checkpoint recorded so far was issued BEFORE this export / import
			b.emit("reimport", b.state())
			r.Stat("op.reimport")
			b.monitorNoSupply("reimport")
			continue
		}
		switch {
		case x < weightTax: // governance: tax
			tk := 1 + r.Rng.Intn(2)
			ds := []int64{1, 3, 7, 10, 100, 1000}
			d := ds[r.Rng.Intn(len(ds))]
			n := int64(r.Rng.Intn(int(3*d + 1)))
			if r.Rng.Intn(5) == 0 {
				n = 0
			}
			var ex []sdk.AccAddress
			exs := "-"
			exMask := 0
			if r.Rng.Intn(3) == 0 {
				// one exempt account, or two or three in some order: an account listed second or later is as exempt as the first
				us := r.Rng.Perm(3)[:1+r.Rng.Intn(3)]
				var ids []string
				for _, x := range us {
					ex = append(ex, e.users[x])
					ids = append(ids, fmt.Sprint(x+1))
					exMask |= 1 << (x + 1)
				}
				exs = strings.Join(ids, ",")
				if len(us) > 1 {
					r.Stat("settax.several_exempt")
				}
			}
			exStr := make([]string, len(ex))
			for i, a := range ex {
				exStr[i] = a.String()
			}
			rate := rateString(r, n, d)
			// a setting submitted again with ONE component changed: the same rate (spelt exactly as before) with another
			// exemption list - a handler that compares a setting with the one in force must compare all of it
			if lt, ok := b.lastTax[tk]; ok && r.Rng.Intn(3) == 0 {
				rate = lt[0]
				fmt.Sscan(lt[1], &n)
				fmt.Sscan(lt[2], &d)
				r.Stat("settax.same_rate_other_exemptions")
			}
			err := e.gov(e.ctx, &skytypes.SetBridgeTaxProposal{Title: "t", Description: "d", Token: e.denoms[tk-1], Rate: rate, ExemptAddresses: exStr})
			if err != nil {
				t.Fatalf("settax: %v", err)
			}
			b.lastTax[tk] = [3]string{rate, fmt.Sprint(n), fmt.Sprint(d)}
			b.taxRate[tk] = [2]int64{n, d}
			b.taxEx[tk] = exMask
			b.emit(fmt.Sprintf("settax %d %d %d %s", tk, n, d, exs), b.state())
			r.Stat("op.settax")
		case x < 2*weightTax: // governance: limit
			tk := 1 + r.Rng.Intn(2)
			p := brPeriods[r.Rng.Intn(len(brPeriods))]
			lim := sdkmath.NewInt(int64(r.Rng.Intn(2500)))
			if r.Rng.Intn(6) == 0 {
				lim = sdkmath.NewInt(0) // the boundary: nothing may pass from a non-exempt sender
			}
			exs := "-"
			var exStr []string
			if r.Rng.Intn(3) == 0 {
				us := r.Rng.Perm(3)[:1+r.Rng.Intn(3)]
				var ids []string
				for _, x := range us {
					exStr = append(exStr, e.users[x].String())
					ids = append(ids, fmt.Sprint(x+1))
				}
				exs = strings.Join(ids, ",")
				if len(us) > 1 {
					r.Stat("setlimit.several_exempt")
				}
			}
			// the same limit and period as the setting in force, with another exemption list (see settax)
			if ll, ok := b.lastLimit[tk]; ok && r.Rng.Intn(3) == 0 {
				var pi int
				fmt.Sscan(ll[0], &pi)
				p = brPeriods[pi]
				lim, _ = sdkmath.NewIntFromString(ll[1])
				r.Stat("setlimit.same_limit_other_exemptions")
			}
			err := e.gov(e.ctx, &skytypes.SetBridgeTransferLimitProposal{Title: "t", Description: "d", Token: e.denoms[tk-1], Limit: lim, LimitPeriod: p.p, ExemptAddresses: exStr})
			if err != nil {
				t.Fatalf("setlimit: %v", err)
			}
			for pi := range brPeriods {
				if brPeriods[pi].p == p.p {
					b.lastLimit[tk] = [2]string{fmt.Sprint(pi), lim.String()}
				}
			}
			b.emit(fmt.Sprintf("setlimit %d %d %s %s", tk, p.blocks, lim, exs), b.state())
			r.Stat("op.setlimit")
		case x < 2*weightTax+28: // send
			u, tk := 1+r.Rng.Intn(3), 1+r.Rng.Intn(2)
			amt := b.amount()
			// move the height: same block, next block, or right at a window edge
			switch r.Rng.Intn(6) {
			case 0:
				e.setBlock(e.height+1, e.now.Add(2*time.Second))
			case 1:
				if us, err := e.raw.BridgeTransferUsage(e.ctx, e.denoms[tk-1]); err == nil && us != nil {
					if lim, err := e.raw.BridgeTransferLimit(e.ctx, e.denoms[tk-1]); err == nil && lim != nil && lim.BlockLimit() > 0 {
						// the edge of the running window, or of a window several idle periods later
						k := int64([]int{1, 1, 1, 2, 3, 5}[r.Rng.Intn(6)])
						target := us.StartBlockHeight + k*lim.BlockLimit() - 1 + int64(r.Rng.Intn(3))
						if k > 1 {
							r.Stat("send.idle_periods")
						}
						if target > e.height {
							e.setBlock(target, e.now.Add(2*time.Second))
							r.Stat("send.window_edge")
						}
					}
				}
			}
			spec, _, _ := b.faultSpec(4, 1)
			before := b.state()
			balBefore := e.in.BankKeeper.GetBalance(e.ctx, e.users[u-1], e.denoms[tk-1]).Amount
			res := e.runMsg(func(ctx sdk.Context) error {
				_, err := e.ms.SendToRemote(ctx, &skytypes.MsgSendToRemote{EthDest: "0x00000000000000000000000000000000000000aa", Amount: sdk.Coin{Denom: e.denoms[tk-1], Amount: amt}, ChainReferenceId: skyChain, Metadata: e.meta(e.users[u-1])})
				return err
			})
			op := fmt.Sprintf("send %s %d %d %s %d", spec, u, tk, amt, e.height)
			after := b.state()
			if res == "ok" {
				nonTrivial = true
				for _, x := range e.poolTxs() {
					if _, ok := b.accepted[x.id]; !ok {
						b.accepted[x.id] = x
						// C15 monitor: cost = amount + floor(amount*rate) (or amount when exempt)
						cost := balBefore.Sub(e.in.BankKeeper.GetBalance(e.ctx, e.users[u-1], e.denoms[tk-1]).Amount)
						a, _ := new(big.Int).SetString(x.amount, 10)
						tx, _ := new(big.Int).SetString(x.tax, 10)
						if cost.BigInt().Cmp(new(big.Int).Add(a, tx)) != 0 || a.Cmp(amt.BigInt()) != 0 {
							r.Hit("cost_exact", fmt.Sprintf("send of %s cost %s but recorded amount %s tax %s", amt, cost, x.amount, x.tax), b.replay())
						}
						// the tax itself: floor(amount * rate) for a non-exempt sender, 0 for an exempt one (computed here with big rationals)
						wantTax := new(big.Int)
						if rt, ok := b.taxRate[tk]; ok && rt[0] != 0 && b.taxEx[tk]&(1<<u) == 0 {
							wantTax.Mul(amt.BigInt(), big.NewInt(rt[0]))
							wantTax.Quo(wantTax, big.NewInt(rt[1]))
						}
						if wantTax.Cmp(tx) != 0 {
							r.Hit("tax_is_floor_of_rate", fmt.Sprintf("send of %s by user %d on token %d was taxed %s, expected floor(amount*%v) = %s", amt, u, tk, x.tax, b.taxRate[tk], wantTax), b.replay())
						}
					}
				}
				r.Stat("send.ok")
			} else {
				r.Stat("send.rejected")
				if before != after {
					r.Hit("failed_op_is_noop", fmt.Sprintf("rejected `%s` changed state: %s -> %s", op, before, after), b.replay())
				}
			}
			b.emit(op, res+" "+after)
		case x < 2*weightTax+38: // cancel
			u := 1 + r.Rng.Intn(3)
			id := 1 + r.Rng.Intn(len(b.accepted)+2)
			if pool := e.poolTxs(); len(pool) > 0 && r.Rng.Intn(3) != 0 {
				p := pool[r.Rng.Intn(len(pool))]
				id = p.id
				if r.Rng.Intn(4) != 0 {
					u = p.sender
				}
			}
			spec, _, _ := b.faultSpec(5, 1)
			before := b.state()
			balBefore := e.in.BankKeeper.GetAllBalances(e.ctx, e.users[u-1])
			res := e.runMsg(func(ctx sdk.Context) error {
				_, err := e.ms.CancelSendToRemote(ctx, &skytypes.MsgCancelSendToRemote{TransactionId: uint64(id), Metadata: e.meta(e.users[u-1])})
				return err
			})
			op := fmt.Sprintf("cancel %s %d %d", spec, u, id)
			after := b.state()
			if res == "ok" {
				nonTrivial = true
				b.refunded[id] = true
				x := b.accepted[id]
				got := e.in.BankKeeper.GetAllBalances(e.ctx, e.users[u-1]).Sub(balBefore...)
				a, _ := new(big.Int).SetString(x.amount, 10)
				tx, _ := new(big.Int).SetString(x.tax, 10)
				want := new(big.Int).Add(a, tx)
				if got.AmountOf(e.denoms[x.tok-1]).BigInt().Cmp(want) != 0 || x.sender != u {
					r.Hit("refund_in_full", fmt.Sprintf("cancel of %d by %d refunded %s, want %s to sender %d", id, u, got, want, x.sender), b.replay())
				}
				r.Stat("cancel.ok")
			} else {
				r.Stat("cancel.rejected")
				if before != after {
					r.Hit("failed_op_is_noop", fmt.Sprintf("rejected `%s` changed state", op), b.replay())
				}
			}
			b.emit(op, res+" "+after)
		case x < 2*weightTax+44: // direct batch build for one token
			tk := 1 + r.Rng.Intn(2)
			spec, _, _ := b.faultSpec(1, 2, 3)
			before := b.state()
			contract, _ := skytypes.NewEthAddress(e.erc20[tk-1])
			res := "ok"
			bt, err := e.k.BuildOutgoingTXBatch(e.ctx, skyChain, *contract, skykeeper.OutgoingTxBatchSize)
			if err != nil {
				res = "rejected"
			} else if bt == nil {
				res = "noop"
			}
			op := fmt.Sprintf("build %s %d %d", spec, tk, e.now.Unix())
			after := b.state()
			if res == "rejected" {
				r.Stat("build.rejected")
				if before != after {
					r.Hit("failed_op_is_noop", fmt.Sprintf("failed `%s` changed state: %s -> %s", op, before, after), b.replay())
				}
			} else {
				r.Stat("build." + res)
			}
			b.emit(op, res+" "+after)
		case x < 2*weightTax+52: // executed-batch claim voted by everyone
			bs := e.batchList()
			tk, nonce := 1+r.Rng.Intn(2), 1+r.Rng.Intn(4)
			if len(bs) > 0 && r.Rng.Intn(5) != 0 {
				bb := bs[r.Rng.Intn(len(bs))]
				tk, nonce = bb.tok, bb.nonce
			}
			e.ethHeight += uint64(r.Rng.Intn(50)) // honest validators report non-decreasing remote heights
			ethH := e.ethHeight
			n := e.valNonce + 1
			okc := e.voteAll(func(o sdk.AccAddress) sdk.Msg {
				return &skytypes.MsgBatchSendToRemoteClaim{EventNonce: 3*n + 1000, EthBlockHeight: ethH, BatchNonce: uint64(nonce), TokenContract: e.erc20[tk-1], ChainReferenceId: skyChain, Orchestrator: o.String(), Metadata: e.meta(o), SkywayNonce: n, CompassId: skyCompass}
			})
			if okc == len(skykeeper.ValAddrs) {
				e.valNonce = n
				b.emit(fmt.Sprintf("claim %d exec %d %d %d", n, tk, nonce, ethH), b.state())
				r.Stat("claim.exec")
			} else if okc != 0 {
				t.Fatalf("partial vote %d", okc)
			}
		case x < 2*weightTax+60: // deposit claim voted by everyone
			tk := 1 + r.Rng.Intn(2)
			contract := e.erc20[tk-1]
			known := 1
			if r.Rng.Intn(6) == 0 {
				contract = "0x2000000000000000000000000000000000000009"
				known = 0
			}
			amt := sdkmath.NewInt(int64(1 + r.Rng.Intn(3000)))
			recv := 1 + r.Rng.Intn(3)
			recvS := e.users[recv-1].String()
			if r.Rng.Intn(4) == 0 {
				recv, recvS = 0, "not-an-address"
			}
			n := e.valNonce + 1
			okc := e.voteAll(func(o sdk.AccAddress) sdk.Msg {
				return &skytypes.MsgSendToPalomaClaim{EventNonce: 3*n + 1000, EthBlockHeight: e.ethHeight, TokenContract: contract, Amount: amt, EthereumSender: "0x00000000000000000000000000000000000000bb", PalomaReceiver: recvS, Orchestrator: o.String(), ChainReferenceId: skyChain, Metadata: e.meta(o), SkywayNonce: n, CompassId: skyCompass}
			})
			if okc == len(skykeeper.ValAddrs) {
				e.valNonce = n
				if known == 1 {
					b.deposits[n] = [2]int64{int64(tk), amt.Int64()}
				}
				b.emit(fmt.Sprintf("claim %d dep %d %s %d %d", n, tk, amt, recv, known), b.state())
				r.Stat("claim.deposit")
			} else if okc != 0 {
				t.Fatalf("partial vote %d", okc)
			}
		case x < 2*weightTax+66: // gas estimate submitted by everyone
			bs := e.batchList()
			if len(bs) == 0 {
				continue
			}
			bb := bs[r.Rng.Intn(len(bs))]
			if _, dup := b.pendEst[[2]int{bb.tok, bb.nonce}]; dup || bb.est > 0 {
				continue
			}
			est := uint64(21000 + r.Rng.Intn(500000))
			okc := 0
			for i := range skykeeper.ValAddrs {
				o := e.orch(i)
				if e.runMsg(func(ctx sdk.Context) error {
					_, err := e.ms.EstimateBatchGas(ctx, &skytypes.MsgEstimateBatchGas{Metadata: e.meta(o), Nonce: uint64(bb.nonce), TokenContract: e.erc20[bb.tok-1], EthSigner: b.ethAddrOf(i + 1), Estimate: est})
					return err
				}) == "ok" {
					okc++
				}
			}
			if okc == len(skykeeper.ValAddrs) {
				b.pendEst[[2]int{bb.tok, bb.nonce}] = est
				b.emit(fmt.Sprintf("estimate %d %d %d", bb.tok, bb.nonce, est), b.state())
				r.Stat("op.estimate")
			} else if okc != 0 {
				t.Fatalf("partial estimates %d", okc)
			}
		default: // end of block
			h := e.height + 1
			if r.Rng.Intn(3) == 0 {
				h = (e.height/50 + 1) * 50 // next batch-building height
			}
			now := e.now.Add(time.Duration(2+r.Rng.Intn(10)) * time.Second)
			if r.Rng.Intn(6) == 0 {
				now = e.now.Add(11 * time.Minute) // lets batches time out
			}
			e.setBlock(h, now)
			spec, _, _ := b.faultSpec(1, 1, 2, 3, 7, 5, 6, 8)
			// what the end-blocker will see
			denoms, _ := e.raw.GetAllERC20ToDenoms(e.ctx)
			var toks []string
			for _, d := range denoms {
				toks = append(toks, fmt.Sprint(e.tokenOf(d.Denom)))
			}
			var ests []string
			for _, bb := range e.batchList() { // store order
				if v, ok := b.pendEst[[2]int{bb.tok, bb.nonce}]; ok && bb.est == 0 {
					ests = append(ests, fmt.Sprintf("%d:%d:%d", bb.tok, bb.nonce, v))
				}
			}
			estS := "-"
			if len(ests) > 0 {
				estS = strings.Join(ests, ",")
			}
			pendingBefore := map[int]obsTx{}
			for _, x := range e.poolTxs() {
				pendingBefore[x.id] = x
			}
			for _, bb := range e.batchList() {
				for _, x := range bb.txs {
					pendingBefore[x.id] = x
				}
			}
			supBefore := map[int]*big.Int{}
			for tk := 1; tk <= b.nTok; tk++ {
				supBefore[tk] = e.in.BankKeeper.GetSupply(e.ctx, e.denoms[tk-1]).Amount.BigInt()
			}
			if len(e.batchList()) > 0 && r.Rng.Intn(4) == 0 {
				b.faultSweep(fmt.Sprintf("endblock %d %d", h, now.Unix()))
				// re-arm the fault chosen for the real end-block below
				var k, n int
				fmt.Sscanf(spec, "%d:%d", &k, &n)
				e.fault.Reset(brTargets[k], n)
			}
			e.endBlock()
			// ghost: burned = transfers pending before the block that are pending nowhere after it
			pendingAfter := map[int]bool{}
			for _, x := range e.poolTxs() {
				pendingAfter[x.id] = true
			}
			still := map[[2]int]bool{}
			for _, bb := range e.batchList() {
				still[[2]int{bb.tok, bb.nonce}] = true
				for _, x := range bb.txs {
					pendingAfter[x.id] = true
				}
			}
			for k := range b.pendEst {
				if !still[k] {
					delete(b.pendEst, k)
				}
			}
			burnNow := map[int]*big.Int{}
			depNow := map[int]*big.Int{}
			for tk := 1; tk <= b.nTok; tk++ {
				burnNow[tk], depNow[tk] = new(big.Int), new(big.Int)
			}
			for id, x := range pendingBefore {
				if !pendingAfter[id] {
					b.burned[id] = true
					a, _ := new(big.Int).SetString(x.amount, 10)
					tx, _ := new(big.Int).SetString(x.tax, 10)
					b.burnt[x.tok].Add(b.burnt[x.tok], a).Add(b.burnt[x.tok], tx)
					burnNow[x.tok].Add(burnNow[x.tok], a).Add(burnNow[x.tok], tx)
				}
			}
			// supply clause: over this end-block, supply delta = newly observed deposits - burns
			// (a fault injected into a deposit may drop that deposit, never add one)
			last, _ := e.raw.GetLastObservedSkywayNonce(e.ctx, skyChain)
			for n := b.seenObserved + 1; n <= last; n++ {
				if d, ok := b.deposits[n]; ok {
					depNow[int(d[0])].Add(depNow[int(d[0])], big.NewInt(d[1]))
				}
			}
			b.seenObserved = last
			for tk := 1; tk <= b.nTok; tk++ {
				after := e.in.BankKeeper.GetSupply(e.ctx, e.denoms[tk-1]).Amount.BigInt()
				d := new(big.Int).Sub(after, supBefore[tk])
				d.Add(d, burnNow[tk]) // = minted in this block
				bad := d.Sign() < 0 || d.Cmp(depNow[tk]) > 0 || (!e.fault.Fired && d.Cmp(depNow[tk]) != 0)
				if bad {
					r.Hit("supply_delta", fmt.Sprintf("token %d: minted %s in this block but attested deposits total %s (burned %s)", tk, d, depNow[tk], burnNow[tk]), b.replay())
				}
				b.minted[tk].Add(b.minted[tk], d)
			}
			op := fmt.Sprintf("endblock %s %d %d %s %s", spec, h, now.Unix(), strings.Join(toks, ","), estS)
			b.emit(op, b.state())
			r.Stat("op.endblock")
			if e.fault.Fired {
				r.Stat("endblock.fault_fired")
			}
			nonTrivial = true
			b.monitorNoSupply(op)
			continue
		}
		if e.fault.Fired {
			r.Stat("fault.fired")
		}
		b.monitorNoSupply(b.ops[len(b.ops)-1])
	}
	r.Case(strings.Join(b.ops, "|"), nonTrivial)
}

func (b *brHarness) monitorNoSupply(op string) { b.monitor(op) }

// faultSweep: the property quantifies over a failure at ANY collaborator call of a step. For the
// end-of-block housekeeping about to run, every (collaborator class, call index) it makes is failed in
// turn on a throw-away branch of the state, and the structural clauses are evaluated on the result:
// every transfer pending before is afterwards in exactly one place or gone, never in two; the escrow
// equals the sum of amount plus tax over what is pending.
func (b *brHarness) faultSweep(op string) {
	e := b.e
	saved := e.ctx
	defer func() { e.ctx = saved; e.fault.Reset("", 0) }()
	// count the calls of a fault-free run
	e.fault.Reset("", 0)
	cctx, _ := saved.CacheContext()
	e.ctx = cctx
	e.endBlock()
	counts := map[string]int{}
	for k, v := range e.fault.Counts {
		counts[k] = v
	}
	e.ctx = saved
	defer func() { e.fault.Panic = false }()
	for _, hard := range []bool{false, true} {
		how := "failing"
		if hard {
			// the collaborator fails the hard way: it panics; the end-blocker recovers and the block goes on
			how = "panicking"
		}
		for _, target := range brTargets[1:] {
			for nth := 1; nth <= counts[target] && nth <= 6; nth++ {
				cctx, _ := saved.CacheContext()
				e.ctx = cctx
				e.fault.Reset(target, nth)
				e.fault.Panic = hard
				e.endBlock()
				e.fault.Panic = false
				b.r.Stat("faultsweep.points")
				if hard {
					b.r.Stat("faultsweep.panic_points")
				}
				places := map[int]int{}
				pend := map[int]*big.Int{}
				for tk := 1; tk <= b.nTok; tk++ {
					pend[tk] = new(big.Int)
				}
				add := func(x obsTx, tok int) {
					places[x.id]++
					a, _ := new(big.Int).SetString(x.amount, 10)
					tx, _ := new(big.Int).SetString(x.tax, 10)
					if pend[tok] != nil {
						pend[tok].Add(pend[tok], a).Add(pend[tok], tx)
					}
				}
				for _, x := range e.poolTxs() {
					add(x, x.tok)
				}
				for _, bb := range e.batchList() {
					for _, x := range bb.txs {
						add(x, bb.tok)
					}
				}
				in := map[string]interface{}{"ops": append(append([]string{}, b.ops...), fmt.Sprintf("%s with the %d. %s call %s", op, nth, target, how))}
				for id, n := range places {
					if n > 1 {
						b.r.Hit("exactly_one_place", fmt.Sprintf("transfer %d is in %d places after `%s` with the %d. call of %s %s", id, n, op, nth, target, how), in)
					}
				}
				for tk := 1; tk <= b.nTok; tk++ {
					if esc := e.escrow(tk); esc.BigInt().Cmp(pend[tk]) != 0 {
						b.r.Hit("escrow_eq_pending", fmt.Sprintf("token %d: escrow %s but pending transfers total %s after `%s` with the %d. call of %s %s", tk, esc, pend[tk], op, nth, target, how), in)
					}
				}
				e.ctx = saved
			}
		}
	}
}

// evidenceOp: somebody replays a validator's signature as bad-signature evidence — over a
// checkpoint the chain really issued (must never jail), over a forged variant of a batch
// (jails the signer), or signed by a key no validator registered (refused).
func (b *brHarness) evidenceOp() {
	r, e := b.r, b.e
	ckIdx := r.Rng.Intn(len(b.ckpts))
	ck := b.ckpts[ckIdx]
	ext := ck.ext
	variant := 0
	switch r.Rng.Intn(4) {
	case 0: // forged: different timeout
		ext.BatchTimeout += uint64(1 + r.Rng.Intn(5))
		variant = 1 + int(ext.BatchTimeout%1000)
	case 1: // forged: different gas estimate than any issued one
		ext.GasEstimate += 7777
		variant = 2000
	}
	// the signing key: any key ever registered (by its current holder, by a validator that has rotated it away
	// since, …) or a key no validator ever registered
	kid := 1 + r.Rng.Intn(b.nextKey-1)
	key := b.keys[kid]
	signerS := fmt.Sprint(kid)
	if r.Rng.Intn(6) == 0 {
		key, _ = crypto.ToECDSA(crypto.Keccak256([]byte(fmt.Sprint("stranger", r.Rng.Int()))))
		signerS, kid = "0", 0
	}
	ci, err := e.in.EvmKeeper.GetChainInfo(e.ctx, skyChain)
	if err != nil {
		r.t.Fatal(err)
	}
	ext.ChainReferenceId = skyChain
	checkpoint, err := ext.GetCheckpoint(string(ci.SmartContractUniqueID))
	if err != nil {
		r.t.Fatal(err)
	}
	sig, err := skytypes.NewEthereumSignature(checkpoint, key)
	if err != nil {
		r.t.Fatal(err)
	}
	any, err := codectypes.NewAnyWithValue(&ext)
	if err != nil {
		r.t.Fatal(err)
	}
	jailedBefore := b.jailedList()
	b.e.fault.Reset("", 0)
	// a genuine confirmation (of a checkpoint issued since the last export / import) may be replayed under the name of
	// the sibling chain: same deployment id, same key - the same checkpoint, issued by the chain
	named := skyChain
	if variant == 0 && kid != 0 && b.sibling != "" && ckIdx >= b.reimportedAt && r.Rng.Intn(3) == 0 {
		named = b.sibling
		r.Stat("evidence.named_sibling_chain")
	}
	res := e.runMsg(func(ctx sdk.Context) error {
		_, err := e.ms.SubmitBadSignatureEvidence(ctx, &skytypes.MsgSubmitBadSignatureEvidence{Subject: any, Signature: hex.EncodeToString(sig), ChainReferenceId: named, Metadata: e.meta(e.users[0])})
		return err
	})
	op := fmt.Sprintf("evidence %d %d %d %d %s", ck.tok, ck.nonce, ext.GasEstimate, variant, signerS)
	jailedAfter := b.jailedList()
	if variant == 0 && jailedAfter != jailedBefore {
		after := ""
		if ckIdx < b.reimportedAt {
			after = " after a genesis export / import of the bridge module"
		}
		r.Hit("genuine_confirmation_safe", fmt.Sprintf("a signature over the issued checkpoint of batch %d/%d (estimate %d) jailed validator(s) %s%s", ck.tok, ck.nonce, ck.est, jailedAfter, after), b.replay())
	}
	// "only if the signature is by that validator's registered key": whoever is newly jailed must be the validator
	// the harness's own record of accepted registrations names as the current holder of the signing key
	if jailedAfter != jailedBefore {
		before := map[string]bool{}
		for _, x := range strings.Split(jailedBefore, ",") {
			before[x] = true
		}
		for _, x := range strings.Split(jailedAfter, ",") {
			if x == "-" || before[x] {
				continue
			}
			if holder, ok := b.keyHolder[kid]; !ok || fmt.Sprint(holder) != x {
				r.Hit("jail_only_registered_key", fmt.Sprintf("validator %s was jailed on a signature by key %d, which is registered by %v (0 = nobody)", x, kid, b.keyHolder[kid]), b.replay())
			}
		}
	}
	if _, held := b.keyHolder[kid]; !held {
		r.Stat("evidence.unheld_key." + res)
	}
	if variant == 0 {
		r.Stat("evidence.genuine." + res)
	} else {
		r.Stat("evidence.forged." + res)
	}
	b.emit(op, res+" jailed="+jailedAfter)
}

// ---------------------------------------------------------------------------
// Two remote chains sharing one token contract address (monitors only)
// ---------------------------------------------------------------------------
//
// The pool is keyed by token contract, batches by (chain, contract): when the same contract address is
// registered on two chains, transfers towards both chains sit under one pool key. The Lean bridge model
// has no chain dimension (every transition it proves things about is per token), so this scenario is
// not piped through the driver; the property's own statement is evaluated on the implementation after
// every step instead: each accepted transfer is in exactly one place, the escrow equals the sum of
// amount plus tax over all pending transfers, the supply moves only by executed batches, and a step
// that reports failure changes nothing.
func brTwoChainScenario(t *testing.T, r *Rec, rounds, nops int) {
	const chainB, compassB = "chain-b", "compass-b"
	for round := 0; round < rounds; round++ {
		e := newSkyEnv(t, 3)
		shared := "0x1000000000000000000000000000000000000001"
		e.addToken("utok1", shared)
		e.addToken("utok2", "0x1000000000000000000000000000000000000002")
		if err := e.in.EvmKeeper.AddSupportForNewChain(e.ctx, chainB, 2, 123, "0x1234", big.NewInt(55)); err != nil {
			t.Fatal(err)
		}
		if err := e.in.EvmKeeper.ActivateChainReferenceID(e.ctx, chainB, &evmtypes.SmartContract{Id: 1}, "0x1234567890123456789012345678901234567891", []byte(compassB)); err != nil {
			t.Fatal(err)
		}
		// the very same contract address on the second chain
		if err := e.gov(e.ctx, &skytypes.SetERC20ToDenomProposal{Title: "t", Description: "d", ChainReferenceId: chainB, Erc20: shared, Denom: "utok1"}); err != nil {
			t.Fatal(err)
		}
		chains := []string{skyChain, chainB}
		compass := map[string]string{skyChain: skyCompass, chainB: compassB}
		valNonce := map[string]uint64{}
		var hist []string
		type acc struct {
			sender int
			chain  string
			cost   *big.Int
			tok    int
		}
		accepted := map[int]acc{}
		gone := map[int]string{} // refunded / burned
		minted := new(big.Int)   // funding, per denom utok1 only (utok2 is a bystander)
		burned := new(big.Int)
		for u := 1; u <= 3; u++ {
			amt := sdkmath.NewInt(int64(2000 + r.Rng.Intn(5000)))
			e.fund(u, 1, amt)
			minted.Add(minted, amt.BigInt())
			e.fund(u, 2, sdkmath.NewInt(1000))
		}
		if r.Rng.Intn(2) == 0 {
			if err := e.gov(e.ctx, &skytypes.SetBridgeTaxProposal{Title: "t", Description: "d", Token: "utok1", Rate: "1/10"}); err != nil {
				t.Fatal(err)
			}
			hist = append(hist, "settax utok1 1/10")
		}
		snapshot := func() string {
			var parts []string
			for _, x := range e.poolTxs() {
				parts = append(parts, fmt.Sprintf("p%d", x.id))
			}
			for _, bb := range e.batchList() {
				ids := []string{}
				for _, x := range bb.txs {
					ids = append(ids, fmt.Sprint(x.id))
				}
				parts = append(parts, fmt.Sprintf("b%s/%d/%d[%s]", bb.raw.ChainReferenceID, bb.tok, bb.nonce, strings.Join(ids, ",")))
			}
			sort.Strings(parts)
			return strings.Join(parts, " ") + fmt.Sprintf(" escrow=%s/%s supply=%s", e.escrow(1), e.escrow(2), e.in.BankKeeper.GetSupply(e.ctx, "utok1").Amount)
		}
		check := func(op string) {
			places := map[int][]string{}
			pending := new(big.Int)
			for _, x := range e.poolTxs() {
				places[x.id] = append(places[x.id], "pool")
				if x.tok == 1 {
					a, _ := new(big.Int).SetString(x.amount, 10)
					tx, _ := new(big.Int).SetString(x.tax, 10)
					pending.Add(pending, a.Add(a, tx))
				}
			}
			for _, bb := range e.batchList() {
				for _, x := range bb.txs {
					if a, ok := accepted[x.id]; ok && a.chain != bb.raw.ChainReferenceID {
						// observation outside C01 (recorded in DESIGN.md): a batch for one chain carries a transfer
						// the sender addressed to the other chain
						r.Stat("twochain.transfer_in_batch_of_other_chain")
					}
					places[x.id] = append(places[x.id], fmt.Sprintf("batch %s/%d", bb.raw.ChainReferenceID, bb.nonce))
					if bb.tok == 1 {
						a, _ := new(big.Int).SetString(x.amount, 10)
						tx, _ := new(big.Int).SetString(x.tax, 10)
						pending.Add(pending, a.Add(a, tx))
					}
				}
			}
			in := map[string]interface{}{"scenario": "two chains, one contract address", "history": append(append([]string{}, hist...), op)}
			for id := range accepted {
				want := 1
				if gone[id] != "" {
					want = 0
				}
				if len(places[id]) != want {
					r.Hit("exactly_one_place", fmt.Sprintf("transfer %d (to %s, %s) is in %v after `%s`", id, accepted[id].chain, map[bool]string{true: "pending", false: gone[id]}[gone[id] == ""], places[id], op), in)
				}
			}
			if esc := e.escrow(1); esc.BigInt().Cmp(pending) != 0 {
				r.Hit("escrow_eq_pending", fmt.Sprintf("escrow %s but pending transfers total %s after `%s`", esc, pending, op), in)
			}
			wantSupply := new(big.Int).Sub(minted, burned)
			if sup := e.in.BankKeeper.GetSupply(e.ctx, "utok1").Amount; sup.BigInt().Cmp(wantSupply) != 0 {
				r.Hit("supply_delta", fmt.Sprintf("supply %s, expected %s (funded %s, executed batches %s) after `%s`", sup, wantSupply, minted, burned, op), in)
			}
		}
		step := func(op string, fn func() (ok bool)) {
			before := snapshot()
			ok := fn()
			if !ok && snapshot() != before {
				r.Hit("failed_op_is_noop", fmt.Sprintf("failed `%s` changed state: %s -> %s", op, before, snapshot()), map[string]interface{}{"scenario": "two chains, one contract address", "history": append(append([]string{}, hist...), op)})
			}
			res := "rejected"
			if ok {
				res = "ok"
			}
			check(op)
			hist = append(hist, op+" => "+res)
			r.Stat("twochain." + strings.SplitN(op, " ", 2)[0] + "." + res)
		}
		for i := 0; i < nops; i++ {
			switch x := r.Rng.Intn(100); {
			case x < 40: // send towards either chain
				u, ch := 1+r.Rng.Intn(3), chains[r.Rng.Intn(2)]
				amt := sdkmath.NewInt(int64(1 + r.Rng.Intn(400)))
				known := map[int]bool{}
				for _, p := range e.poolTxs() {
					known[p.id] = true
				}
				bal := e.in.BankKeeper.GetBalance(e.ctx, e.users[u-1], "utok1").Amount
				step(fmt.Sprintf("send %d %s %s", u, ch, amt), func() bool {
					return e.runMsg(func(ctx sdk.Context) error {
						_, err := e.ms.SendToRemote(ctx, &skytypes.MsgSendToRemote{EthDest: "0x00000000000000000000000000000000000000aa", Amount: sdk.Coin{Denom: "utok1", Amount: amt}, ChainReferenceId: ch, Metadata: e.meta(e.users[u-1])})
						return err
					}) == "ok"
				})
				for _, p := range e.poolTxs() {
					if !known[p.id] {
						if _, dup := accepted[p.id]; !dup {
							accepted[p.id] = acc{u, ch, bal.Sub(e.in.BankKeeper.GetBalance(e.ctx, e.users[u-1], "utok1").Amount).BigInt(), 1}
						}
					}
				}
			case x < 55: // cancel
				pool := e.poolTxs()
				if len(pool) == 0 {
					continue
				}
				p := pool[r.Rng.Intn(len(pool))]
				bal := e.in.BankKeeper.GetBalance(e.ctx, e.users[p.sender-1], "utok1").Amount
				op := fmt.Sprintf("cancel %d %d", p.sender, p.id)
				okd := false
				step(op, func() bool {
					okd = e.runMsg(func(ctx sdk.Context) error {
						_, err := e.ms.CancelSendToRemote(ctx, &skytypes.MsgCancelSendToRemote{TransactionId: uint64(p.id), Metadata: e.meta(e.users[p.sender-1])})
						return err
					}) == "ok"
					if okd {
						gone[p.id] = "refunded"
					}
					return okd
				})
				if okd && p.tok == 1 {
					got := e.in.BankKeeper.GetBalance(e.ctx, e.users[p.sender-1], "utok1").Amount.Sub(bal)
					if a, ok := accepted[p.id]; ok && got.BigInt().Cmp(a.cost) != 0 {
						r.Hit("refund_in_full", fmt.Sprintf("cancel of %d refunded %s, the send had cost %s", p.id, got, a.cost), map[string]interface{}{"history": hist})
					}
				}
				if !okd {
					// a transfer that is waiting in the pool can always be taken back by its sender
					r.Hit("refund_in_full", fmt.Sprintf("transfer %d waits in the pool but its sender's cancellation was refused", p.id), map[string]interface{}{"scenario": "two chains, one contract address", "history": hist})
				}
			case x < 75: // direct build for one (chain, contract)
				ch := chains[r.Rng.Intn(2)]
				contract, _ := skytypes.NewEthAddress(shared)
				e.setBlock(e.height+1, e.now.Add(2*time.Second))
				step(fmt.Sprintf("build %s", ch), func() bool {
					_, err := e.k.BuildOutgoingTXBatch(e.ctx, ch, *contract, skykeeper.OutgoingTxBatchSize)
					return err == nil
				})
			case x < 88: // end of block housekeeping (builds for every registered (chain, token); timeouts)
				h := e.height + 1 + int64(r.Rng.Intn(3))
				adv := 2 * time.Second
				if r.Rng.Intn(4) == 0 {
					adv = time.Duration(20+r.Rng.Intn(40)) * time.Minute // lets batches time out
				}
				e.setBlock(h, e.now.Add(adv))
				step(fmt.Sprintf("endblock %d +%s", h, adv), func() bool { e.endBlock(); return true })
			default: // an open batch of either chain is reported executed by everyone
				bs := e.batchList()
				if len(bs) == 0 {
					continue
				}
				bb := bs[r.Rng.Intn(len(bs))]
				ch := bb.raw.ChainReferenceID
				n := valNonce[ch] + 1
				e.ethHeight += uint64(1 + r.Rng.Intn(20))
				ethH := e.ethHeight
				okc := e.voteAll(func(o sdk.AccAddress) sdk.Msg {
					return &skytypes.MsgBatchSendToRemoteClaim{EventNonce: 3*n + 1000, EthBlockHeight: ethH, BatchNonce: uint64(bb.nonce), TokenContract: bb.raw.TokenContract.GetAddress().Hex(), ChainReferenceId: ch, Orchestrator: o.String(), Metadata: e.meta(o), SkywayNonce: n, CompassId: compass[ch]}
				})
				if okc != len(skykeeper.ValAddrs) {
					if okc != 0 {
						t.Fatalf("two-chain scenario: partial vote %d", okc)
					}
					continue
				}
				valNonce[ch] = n
				worth := new(big.Int)
				ids := []int{}
				for _, x := range bb.txs {
					a, _ := new(big.Int).SetString(x.amount, 10)
					tx, _ := new(big.Int).SetString(x.tax, 10)
					worth.Add(worth, a.Add(a, tx))
					ids = append(ids, x.id)
				}
				e.setBlock(e.height+1, e.now.Add(2*time.Second))
				step(fmt.Sprintf("exec %s batch %d", ch, bb.nonce), func() bool {
					e.endBlock()
					for _, still := range e.batchList() {
						if still.raw.ChainReferenceID == ch && still.nonce == bb.nonce && still.tok == bb.tok {
							return true // not observed (e.g. stale compass): nothing happened
						}
					}
					if bb.tok == 1 {
						burned.Add(burned, worth)
					}
					for _, id := range ids {
						gone[id] = "burned"
					}
					return true
				})
			}
		}
		r.Case("twochain|"+strings.Join(hist, "|"), len(accepted) > 0)
	}
}

// ---------------------------------------------------------------------------
// A denom that moves from one token contract to another while transfers are pending
// ---------------------------------------------------------------------------
//
// A transfer is escrowed in a denom but recorded (pool key, batch key) under the contract the denom is bound to
// at that moment; refund and burn find the denom again through the contract.  The main generator binds every
// denom once, before the first transfer, and never again.  Here the bindings move during the life of the
// transfers, through all three entry points (governance proposal, MsgSetERC20ToTokenDenom by the token's admin,
// the wasm binding set_erc20_to_denom), by admins and by strangers, towards fresh contracts, contracts left
// behind by the same denom and contracts that serve another denom; token admins are handed over in between.
//
// The registry (both tables, accept / refuse of every binding, the contract a send is recorded under, the denom
// a refund / a burn is paid in) is compared line by line with Registry of Model/Bridge.lean (`regreset`, `bind`,
// `sentunder`, `paidin`; theorems `paid_in_the_escrowed_denom`, `reverse_entries_are_forever`,
// `contract_serves_one_denom`, `admin_bind_*` of Props/C01.lean).  The pool / batch machine itself is keyed by
// denom in the Lean model, so - as for the two-chain scenario - the property's own statement is evaluated on the
// implementation after every step, with the harness's own record of which denom every accepted transfer locked:
// per denom the escrow equals the sum over the pending transfers that locked that denom; every transfer is in
// exactly one place; the sender of a pooled transfer gets exactly what the send cost back, in the denom it
// locked; a batch every validator attests as executed is gone and exactly its worth is burned, in the denom
// its transfers locked; supply moves by nothing else; a refused step changes nothing.

// brTokenFactory stands in for the token factory collaborator of the skyway keeper (the keeper fixture has
// none): the admin of a denom is whoever the harness's table says.
type brTokenFactory struct{ admins map[string]string }

func (f brTokenFactory) GetAuthorityMetadata(_ context.Context, denom string) (tokenfactorytypes.DenomAuthorityMetadata, error) {
	a, ok := f.admins[denom]
	if !ok {
		return tokenfactorytypes.DenomAuthorityMetadata{}, fmt.Errorf("denom %s does not exist", denom)
	}
	return tokenfactorytypes.DenomAuthorityMetadata{Admin: a}, nil
}

// brWasmServer is what the wasm plugin of x/skyway talks to: the message server of the keeper.
type brWasmServer struct {
	bind skytypes.MsgServer // keeper with the token factory stand-in
	rest skytypes.MsgServer // the fixture's keeper behind the fault proxies
}

func (s brWasmServer) SetERC20ToTokenDenom(ctx context.Context, m *skytypes.MsgSetERC20ToTokenDenom) (*emptypb.Empty, error) {
	return s.bind.SetERC20ToTokenDenom(ctx, m)
}

func (s brWasmServer) SendToRemote(ctx context.Context, m *skytypes.MsgSendToRemote) (*skytypes.MsgSendToRemoteResponse, error) {
	return s.rest.SendToRemote(ctx, m)
}

func (s brWasmServer) CancelSendToRemote(ctx context.Context, m *skytypes.MsgCancelSendToRemote) (*skytypes.MsgCancelSendToRemoteResponse, error) {
	return s.rest.CancelSendToRemote(ctx, m)
}

func brRebindScenario(t *testing.T, r *Rec, rounds, nops int) {
	const nDen, nCon, nUsers = 3, 6, 4
	for round := 0; round < rounds; round++ {
		e := newSkyEnv(t, nUsers)
		e.fault.Reset("", 0)
		tf := brTokenFactory{admins: map[string]string{}}
		// a keeper over the same store whose token factory collaborator is the stand-in: serves the admin entry point
		// (the fixture does not hand out the module's store key: it is looked up in the fixture's multistore by name)
		byName, ok := e.ctx.MultiStore().(interface {
			StoreKeysByName() map[string]storetypes.StoreKey
		})
		if !ok || byName.StoreKeysByName()[skytypes.StoreKey] == nil {
			t.Fatal("rebind scenario: the skyway store key cannot be found in the fixture's multistore")
		}
		k2 := skykeeper.NewKeeper(e.in.Marshaler, e.in.AccountKeeper, &e.in.StakingKeeper, e.in.BankKeeper, &e.in.SlashingKeeper, e.in.DistKeeper,
			e.in.IbcTransferKeeper, e.in.EvmKeeper, nil, nil, tf, skykeeper.NewSkywayStoreGetter(byName.StoreKeysByName()[skytypes.StoreKey]), "",
			authcodec.NewBech32Codec(chainparams.ValidatorAddressPrefix))
		ms2 := skykeeper.NewMsgServerImpl(k2)
		wasm := skybindings.NewMessenger(brWasmServer{bind: ms2, rest: e.ms})
		// denoms 1, 2: token factory denoms created by users 1, 2; denom 3: a plain denom only governance can bind
		e.denoms = []string{fmt.Sprintf("factory/%s/gold", e.users[0]), fmt.Sprintf("factory/%s/mud", e.users[1]), "utok3"}
		tf.admins[e.denoms[0]], tf.admins[e.denoms[1]] = e.users[0].String(), e.users[1].String()
		e.erc20 = nil // contract id-1 -> address: poolTxs / batchList report the CONTRACT id in their tok field
		for c := 1; c <= nCon; c++ {
			e.erc20 = append(e.erc20, fmt.Sprintf("0x10000000000000000000000000000000000000%02x", c))
		}
		var hist []string
		input := func(op string) map[string]interface{} {
			return map[string]interface{}{"scenario": "denoms move between token contracts while transfers are pending", "history": append(append([]string{}, hist...), op)}
		}
		// these histories include the genesis export / import of the bridge module (VERIF_C01_REBIND_REIMPORT=0 leaves it
		// out).  On the pinned tree the export dropped the reverse entry of every contract a denom has left behind
		// (ExportGenesis wrote one entry per denom), so a transfer still pending under such a contract could be neither
		// refunded nor burned afterwards - genuine defect, repaired in the repository, see Props/C01.md.
		withReimport := os.Getenv("VERIF_C01_REBIND_REIMPORT") != "0"
		regLines := true
		emit := func(line, out string) {
			if regLines {
				r.Op(line, out)
			}
		}
		emit(fmt.Sprintf("regreset %d %d", nDen, nCon), "ok")

		// the harness's own record
		type acc struct {
			sender, den, cid int
			cost             *big.Int
		}
		accepted := map[int]acc{}
		gone := map[int]string{}
		owner := map[int]int{} // contract -> the denom it was (first) bound to, by the accepted bindings
		cur := map[int]int{}   // denom -> contract of its latest accepted binding
		funded, burned := map[int]*big.Int{}, map[int]*big.Int{}
		for d := 1; d <= nDen; d++ {
			funded[d], burned[d] = new(big.Int), new(big.Int)
		}
		supply := func(d int) *big.Int { return e.in.BankKeeper.GetSupply(e.ctx, e.denoms[d-1]).Amount.BigInt() }
		denomIdxOf := func(c int) string { // the implementation's reverse table
			addr, _ := skytypes.NewEthAddress(e.erc20[c-1])
			dn, err := e.raw.GetDenomOfERC20(e.ctx, skyChain, *addr)
			if err != nil {
				return "none"
			}
			return fmt.Sprint(e.tokenOf(dn))
		}
		tables := func() string {
			var ercs, dens []string
			for d := 1; d <= nDen; d++ {
				if a, err := e.raw.GetERC20OfDenom(e.ctx, skyChain, e.denoms[d-1]); err == nil {
					ercs = append(ercs, fmt.Sprintf("%d:%d", d, e.tokenOfContract(a.GetAddress().Hex())))
				}
			}
			for c := 1; c <= nCon; c++ {
				if x := denomIdxOf(c); x != "none" {
					dens = append(dens, fmt.Sprintf("%d:%s", c, x))
				}
			}
			j := func(l []string) string {
				if len(l) == 0 {
					return "-"
				}
				return strings.Join(l, ",")
			}
			return "erc=" + j(ercs) + " den=" + j(dens)
		}
		snapshot := func() string {
			var parts []string
			for _, x := range e.poolTxs() {
				parts = append(parts, fmt.Sprintf("p%d/%d", x.id, x.tok))
			}
			for _, bb := range e.batchList() {
				ids := []string{}
				for _, x := range bb.txs {
					ids = append(ids, fmt.Sprint(x.id))
				}
				parts = append(parts, fmt.Sprintf("b%d/%d[%s]", bb.tok, bb.nonce, strings.Join(ids, ",")))
			}
			sort.Strings(parts)
			s := strings.Join(parts, " ") + " " + tables()
			for d := 1; d <= nDen; d++ {
				s += fmt.Sprintf(" d%d:esc=%s,sup=%s,bal=", d, e.escrow(d), supply(d))
				for _, u := range e.users {
					s += e.in.BankKeeper.GetBalance(e.ctx, u, e.denoms[d-1]).Amount.String() + "/"
				}
			}
			return s
		}
		check := func(op string) {
			places := map[int][]string{}
			see := func(x obsTx, where string) {
				places[x.id] = append(places[x.id], where)
				a, ok := accepted[x.id]
				if !ok {
					r.Hit("exactly_one_place", fmt.Sprintf("a transfer %d nobody sent is pending in %s after `%s`", x.id, where, op), input(op))
					return
				}
				am, _ := new(big.Int).SetString(x.amount, 10)
				tx, _ := new(big.Int).SetString(x.tax, 10)
				if am.Add(am, tx).Cmp(a.cost) != 0 {
					r.Hit("cost_exact", fmt.Sprintf("transfer %d cost its sender %s but is recorded with amount %s tax %s", x.id, a.cost, x.amount, x.tax), input(op))
				}
				// refund and burn find the denom through the contract the transfer is recorded under: as long as the
				// transfer is pending that must be the denom it locked
				if got := denomIdxOf(x.tok); got != fmt.Sprint(a.den) {
					r.Hit("pending_payable_in_escrowed_denom", fmt.Sprintf("transfer %d locked denom %d and is pending in %s under contract %d, which now resolves to denom %s after `%s`", x.id, a.den, where, x.tok, got, op), input(op))
				}
			}
			for _, x := range e.poolTxs() {
				see(x, "pool")
			}
			for _, bb := range e.batchList() {
				for _, x := range bb.txs {
					see(x, fmt.Sprintf("batch %d/%d", bb.tok, bb.nonce))
				}
			}
			pending := map[int]*big.Int{}
			for d := 1; d <= nDen; d++ {
				pending[d] = new(big.Int)
			}
			for id, a := range accepted {
				want := 1
				if gone[id] != "" {
					want = 0
				} else {
					pending[a.den].Add(pending[a.den], a.cost)
				}
				if len(places[id]) != want {
					r.Hit("exactly_one_place", fmt.Sprintf("transfer %d (%s) is in %v after `%s`", id, map[bool]string{true: "pending", false: gone[id]}[gone[id] == ""], places[id], op), input(op))
				}
			}
			for d := 1; d <= nDen; d++ {
				if esc := e.escrow(d); esc.BigInt().Cmp(pending[d]) != 0 {
					r.Hit("escrow_eq_pending", fmt.Sprintf("denom %d: escrow %s but the pending transfers that locked it total %s after `%s`", d, esc, pending[d], op), input(op))
				}
				if want := new(big.Int).Sub(funded[d], burned[d]); supply(d).Cmp(want) != 0 {
					r.Hit("supply_delta", fmt.Sprintf("denom %d: supply %s, expected %s (funded %s, executed batches %s) after `%s`", d, supply(d), want, funded[d], burned[d], op), input(op))
				}
			}
		}
		step := func(op string, fn func() bool) bool {
			before := snapshot()
			ok := fn()
			if !ok {
				if after := snapshot(); after != before {
					r.Hit("failed_op_is_noop", fmt.Sprintf("refused `%s` changed state: %s -> %s", op, before, after), input(op))
				}
			}
			check(op)
			res := "rejected"
			if ok {
				res = "ok"
			}
			hist = append(hist, op+" => "+res)
			r.Stat("rebind." + strings.SplitN(op, " ", 2)[0] + "." + res)
			return ok
		}
		bind := func(path string, who, d, c int) {
			denom := e.denoms[d-1]
			isAdmin := 0
			if tf.admins[denom] == e.users[who-1].String() {
				isAdmin = 1
			}
			op := fmt.Sprintf("bind %s %d %d %d", path, isAdmin, d, c)
			ok := step(fmt.Sprintf("%s (by user %d)", op, who), func() bool {
				return e.runMsg(func(ctx sdk.Context) error {
					switch path {
					case "gov":
						return e.gov(ctx, &skytypes.SetERC20ToDenomProposal{Title: "t", Description: "d", ChainReferenceId: skyChain, Erc20: e.erc20[c-1], Denom: denom})
					case "admin":
						_, err := ms2.SetERC20ToTokenDenom(ctx, &skytypes.MsgSetERC20ToTokenDenom{Denom: denom, ChainReferenceId: skyChain, Erc20: e.erc20[c-1], Metadata: e.meta(e.users[who-1])})
						return err
					default:
						_, _, _, err := wasm.DispatchMsg(ctx, e.users[who-1], "", skybindingstypes.Message{SetErc20ToDenom: &skybindingstypes.SetErc20ToDenom{Erc20Address: e.erc20[c-1], TokenDenom: denom, ChainReferenceId: skyChain}})
						return err
					}
				}) == "ok"
			})
			res := "rejected"
			if ok {
				res = "ok"
				if _, had := owner[c]; !had {
					owner[c] = d
				}
				if old, had := cur[d]; had && old != c {
					r.Stat("rebind.denom_moved")
					for id, a := range accepted {
						if gone[id] == "" && a.cid == old {
							r.Stat("rebind.denom_moved_with_pending_transfers")
							break
						}
					}
				}
				cur[d] = c
			}
			emit(op, res+" "+tables())
		}
		// every denom starts out bound (denoms 1 and 2 by their admins, denom 3 by governance) and funded
		bind([]string{"admin", "wasm"}[r.Rng.Intn(2)], 1, 1, 1)
		bind([]string{"admin", "gov"}[r.Rng.Intn(2)], 2, 2, 2)
		if r.Rng.Intn(4) != 0 {
			bind("gov", 1, 3, 3)
		}
		for u := 1; u <= nUsers; u++ {
			for d := 1; d <= nDen; d++ {
				amt := sdkmath.NewInt(int64(500 + r.Rng.Intn(3000)))
				e.fund(u, d, amt)
				funded[d].Add(funded[d], amt.BigInt())
			}
		}
		if r.Rng.Intn(2) == 0 {
			d := 1 + r.Rng.Intn(nDen)
			if err := e.gov(e.ctx, &skytypes.SetBridgeTaxProposal{Title: "t", Description: "d", Token: e.denoms[d-1], Rate: "1/10"}); err != nil {
				t.Fatal(err)
			}
			hist = append(hist, fmt.Sprintf("settax denom %d 1/10", d))
		}
		balances := func(u int) map[int]*big.Int {
			m := map[int]*big.Int{}
			for d := 1; d <= nDen; d++ {
				m[d] = e.in.BankKeeper.GetBalance(e.ctx, e.users[u-1], e.denoms[d-1]).Amount.BigInt()
			}
			return m
		}
		for i := 0; i < nops; i++ {
			switch x := r.Rng.Intn(100); {
			case x < 32: // send, as a message or from a contract through the wasm binding
				u, d := 1+r.Rng.Intn(nUsers), 1+r.Rng.Intn(nDen)
				amt := sdkmath.NewInt(int64(1 + r.Rng.Intn(400)))
				known := map[int]bool{}
				for _, p := range e.poolTxs() {
					known[p.id] = true
				}
				before := balances(u)
				via := "msg"
				if r.Rng.Intn(4) == 0 {
					via = "wasm"
				}
				op := fmt.Sprintf("send %s user %d denom %d amount %s", via, u, d, amt)
				found, cid := false, 0
				ok := step(op, func() bool {
					okd := e.runMsg(func(ctx sdk.Context) error {
						if via == "wasm" {
							_, _, _, err := wasm.DispatchMsg(ctx, e.users[u-1], "", skybindingstypes.Message{SendTx: &skybindingstypes.SendTx{RemoteChainDestinationAddress: "0x00000000000000000000000000000000000000aa", Amount: amt.String() + e.denoms[d-1], ChainReferenceId: skyChain}})
							return err
						}
						_, err := e.ms.SendToRemote(ctx, &skytypes.MsgSendToRemote{EthDest: "0x00000000000000000000000000000000000000aa", Amount: sdk.Coin{Denom: e.denoms[d-1], Amount: amt}, ChainReferenceId: skyChain, Metadata: e.meta(e.users[u-1])})
						return err
					}) == "ok"
					if okd {
						// the harness's record: who sent, which denom was locked, what it cost (the sender's balance), where it went
						after := balances(u)
						for _, p := range e.poolTxs() {
							if !known[p.id] {
								found, cid = true, p.tok
								accepted[p.id] = acc{u, d, p.tok, new(big.Int).Sub(before[d], after[d])}
							}
						}
						for dd := 1; dd <= nDen; dd++ {
							if dd != d && before[dd].Cmp(after[dd]) != 0 {
								r.Hit("cost_exact", fmt.Sprintf("`%s` changed the sender's balance of denom %d", op, dd), input(op))
							}
						}
					}
					return okd
				})
				if !ok {
					continue
				}
				if !found {
					r.Hit("exactly_one_place", fmt.Sprintf("accepted `%s` left no transfer in the pool", op), input(op))
					continue
				}
				emit(fmt.Sprintf("sentunder %d", d), fmt.Sprint(cid))
			case x < 47: // the sender (rarely: somebody else) takes a pooled transfer back
				pool := e.poolTxs()
				if len(pool) == 0 {
					continue
				}
				p := pool[r.Rng.Intn(len(pool))]
				a, known := accepted[p.id]
				if !known {
					continue
				}
				u := a.sender
				if r.Rng.Intn(8) == 0 {
					u = 1 + a.sender%nUsers
				}
				via := "msg"
				if r.Rng.Intn(4) == 0 {
					via = "wasm"
				}
				before := balances(u)
				op := fmt.Sprintf("cancel %s user %d transfer %d", via, u, p.id)
				ok := step(op, func() bool {
					okd := e.runMsg(func(ctx sdk.Context) error {
						if via == "wasm" {
							_, _, _, err := wasm.DispatchMsg(ctx, e.users[u-1], "", skybindingstypes.Message{CancelTx: &skybindingstypes.CancelTx{TransactionId: uint64(p.id)}})
							return err
						}
						_, err := e.ms.CancelSendToRemote(ctx, &skytypes.MsgCancelSendToRemote{TransactionId: uint64(p.id), Metadata: e.meta(e.users[u-1])})
						return err
					}) == "ok"
					if okd {
						gone[p.id] = "refunded"
					}
					return okd
				})
				if u != a.sender {
					if ok {
						r.Hit("refund_in_full", fmt.Sprintf("transfer %d of user %d was handed to user %d", p.id, a.sender, u), input(op))
					}
					continue
				}
				paid := "none"
				if cur[a.den] != a.cid {
					r.Stat("rebind.cancel_under_left_behind_contract")
				}
				if !ok {
					// a transfer that waits in the pool can always be taken back by its sender (no fault is injected here)
					r.Hit("refund_in_full", fmt.Sprintf("transfer %d (denom %d, recorded under contract %d) waits in the pool but its sender's cancellation was refused", p.id, a.den, a.cid), input(op))
				} else {
					after := balances(u)
					for d := 1; d <= nDen; d++ {
						got := new(big.Int).Sub(after[d], before[d])
						want := new(big.Int)
						if d == a.den {
							want = a.cost
						}
						if got.Sign() != 0 {
							if paid == "none" {
								paid = fmt.Sprint(d)
							} else {
								paid = "several"
							}
						}
						if got.Cmp(want) != 0 {
							r.Hit("refund_in_full", fmt.Sprintf("cancel of transfer %d (cost %s of denom %d) changed the sender's balance of denom %d by %s", p.id, a.cost, a.den, d, got), input(op))
						}
					}
				}
				emit(fmt.Sprintf("paidin %d", p.tok), paid)
			case x < 65: // a binding
				d := 1 + r.Rng.Intn(nDen)
				path := []string{"gov", "admin", "admin", "wasm"}[r.Rng.Intn(4)]
				who := 1 + r.Rng.Intn(nUsers)
				if r.Rng.Intn(10) < 7 {
					for u := 1; u <= nUsers; u++ {
						if tf.admins[e.denoms[d-1]] == e.users[u-1].String() {
							who = u
						}
					}
				}
				var fresh, own, others []int
				for c := 1; c <= nCon; c++ {
					switch o, had := owner[c]; {
					case !had:
						fresh = append(fresh, c)
					case o == d:
						own = append(own, c)
					default:
						others = append(others, c)
					}
				}
				pick := func(l []int) int { return l[r.Rng.Intn(len(l))] }
				var c int
				switch y := r.Rng.Intn(10); {
				case y < 5 && len(fresh) > 0:
					c = pick(fresh)
				case y < 7 && len(own) > 0:
					c = pick(own) // the current contract again, or one the denom left behind
				case len(others) > 0 && path != "gov":
					c = pick(others) // a contract that serves (or served) another denom: token admins may ask
				case len(own) > 0:
					c = pick(own)
				case len(fresh) > 0:
					c = pick(fresh)
				default:
					continue
				}
				// governance is trusted not to hand a contract that serves one denom to another one (`RegOp.sane` of Props/C01.lean)
				if o, had := owner[c]; path == "gov" && had && o != d {
					continue
				}
				bind(path, who, d, c)
			case x < 67 && withReimport: // the chain is exported and started again from the export (bridge module)
				step("reimport", func() bool {
					gs := skykeeper.ExportGenesis(e.ctx, e.raw)
					st := e.raw.GetStore(e.ctx, "")
					it := st.Iterator(nil, nil)
					var keys [][]byte
					for ; it.Valid(); it.Next() {
						keys = append(keys, append([]byte(nil), it.Key()...))
					}
					it.Close()
					for _, k := range keys {
						st.Delete(k)
					}
					skykeeper.InitGenesis(e.ctx, e.raw, gs)
					return true
				})
				// the export keeps both tables (current relation of every denom, entry of every contract): the registry
				// model goes on unchanged and its lines are compared after an export / import as before it
			case x < 68: // the admin of a token factory denom hands the denom over
				d := 1 + r.Rng.Intn(2)
				u := 1 + r.Rng.Intn(nUsers)
				tf.admins[e.denoms[d-1]] = e.users[u-1].String()
				hist = append(hist, fmt.Sprintf("admin of denom %d is now user %d", d, u))
				r.Stat("rebind.admin_handover")
			case x < 80: // a batch is requested for one contract: one with waiting transfers (current or left behind) or any
				c := 1 + r.Rng.Intn(nCon)
				if pool := e.poolTxs(); len(pool) > 0 && r.Rng.Intn(4) != 0 {
					c = pool[r.Rng.Intn(len(pool))].tok
				}
				contract, _ := skytypes.NewEthAddress(e.erc20[c-1])
				e.setBlock(e.height+1, e.now.Add(2*time.Second))
				step(fmt.Sprintf("build contract %d", c), func() bool {
					_, err := e.k.BuildOutgoingTXBatch(e.ctx, skyChain, *contract, skykeeper.OutgoingTxBatchSize)
					return err == nil
				})
			case x < 90: // end of block: batches for every bound denom at every 50th height, timeouts
				h := e.height + 1 + int64(r.Rng.Intn(3))
				if r.Rng.Intn(3) == 0 {
					h = (e.height/50 + 1) * 50
				}
				adv := 2 * time.Second
				if r.Rng.Intn(4) == 0 {
					adv = time.Duration(11+r.Rng.Intn(40)) * time.Minute
				}
				e.setBlock(h, e.now.Add(adv))
				step(fmt.Sprintf("endblock %d +%s", h, adv), func() bool { e.endBlock(); return true })
			default: // every validator attests an open batch as executed
				bs := e.batchList()
				if len(bs) == 0 {
					continue
				}
				bb := bs[r.Rng.Intn(len(bs))]
				n := e.valNonce + 1
				e.ethHeight += uint64(1 + r.Rng.Intn(20))
				ethH := e.ethHeight
				okc := e.voteAll(func(o sdk.AccAddress) sdk.Msg {
					return &skytypes.MsgBatchSendToRemoteClaim{EventNonce: 3*n + 1000, EthBlockHeight: ethH, BatchNonce: uint64(bb.nonce), TokenContract: e.erc20[bb.tok-1], ChainReferenceId: skyChain, Orchestrator: o.String(), Metadata: e.meta(o), SkywayNonce: n, CompassId: skyCompass}
				})
				if okc != len(skykeeper.ValAddrs) {
					if okc != 0 {
						t.Fatalf("rebind scenario: partial vote %d", okc)
					}
					r.Stat("rebind.exec.votes_refused")
					continue
				}
				e.valNonce = n
				worth := map[int]*big.Int{}
				for d := 1; d <= nDen; d++ {
					worth[d] = new(big.Int)
				}
				var ids []int
				for _, x := range bb.txs {
					if a, ok := accepted[x.id]; ok {
						worth[a.den].Add(worth[a.den], a.cost)
					}
					ids = append(ids, x.id)
				}
				supBefore := map[int]*big.Int{}
				for d := 1; d <= nDen; d++ {
					supBefore[d] = supply(d)
				}
				e.setBlock(e.height+1, e.now.Add(2*time.Second))
				op := fmt.Sprintf("exec batch %d of contract %d (transfers %v) attested by everyone, endblock %d", bb.nonce, bb.tok, ids, e.height)
				open := false
				step(op, func() bool {
					e.endBlock()
					for _, still := range e.batchList() {
						if still.nonce == bb.nonce && still.tok == bb.tok {
							open = true
							return true
						}
					}
					for d := 1; d <= nDen; d++ {
						burned[d].Add(burned[d], worth[d])
					}
					for _, id := range ids {
						gone[id] = "burned"
					}
					return true
				})
				paid := "none"
				if owner[bb.tok] != 0 && cur[owner[bb.tok]] != bb.tok {
					r.Stat("rebind.exec_under_left_behind_contract")
				}
				if open {
					// the batch was open, not timed out on the remote chain, attested by every validator at the oracle's next nonce
					r.Hit("executed_batch_burned", fmt.Sprintf("batch %d of contract %d was attested as executed by every validator and is still open: its transfers %v are not burned", bb.nonce, bb.tok, ids), input(op))
				}
				for d := 1; d <= nDen; d++ {
					if supply(d).Cmp(supBefore[d]) != 0 {
						if paid == "none" {
							paid = fmt.Sprint(d)
						} else {
							paid = "several"
						}
					}
				}
				emit(fmt.Sprintf("paidin %d", bb.tok), paid)
			}
		}
		moved := false
		for _, h := range hist {
			if strings.HasPrefix(h, "bind") && strings.HasSuffix(h, "=> ok") {
				moved = true
			}
		}
		r.Case("rebind|"+strings.Join(hist, "|"), len(accepted) > 0 && moved)
	}
}
