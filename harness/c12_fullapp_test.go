//go:build verif

package harness

import (
	"bytes"
	"encoding/json"
	"fmt"
	"strings"
	"testing"
	"time"

	sdkmath "cosmossdk.io/math"
	storetypes "cosmossdk.io/store/types"
	sdk "github.com/cosmos/cosmos-sdk/types"
	authtypes "github.com/cosmos/cosmos-sdk/x/auth/types"
	govtypes "github.com/cosmos/cosmos-sdk/x/gov/types"
	govv1 "github.com/cosmos/cosmos-sdk/x/gov/types/v1"
	slashingtypes "github.com/cosmos/cosmos-sdk/x/slashing/types"
	stakingtypes "github.com/cosmos/cosmos-sdk/x/staking/types"
	palomaapp "github.com/palomachain/paloma/v2/app"
	valsettypes "github.com/palomachain/paloma/v2/x/valset/types"
	"golang.org/x/mod/semver"
)

// C12, full application world: real staking / slashing / ante chain, signed MsgKeepAlive and
// MsgUnjail txs, operator addresses chosen by key search so that about half of them contain 0x2c.

type c12Full struct {
	t         *testing.T
	fa        *FullApp
	key       *storetypes.KVStoreKey
	lastSnap  c12Snap
	cons      map[string]sdk.ConsAddress // operator address -> consensus address
	pending   []*c12Gov                  // governance proposals in their voting period
	votedDown int
}

type c12Gov struct {
	id     uint64
	ver    string
	target uint64
}

// late reports the SetPigeonRequirementsProposals the gov end blocker executed in the last block.
func (f *c12Full) late() []*c12Act {
	var out []*c12Act
	var keep []*c12Gov
	ctx := f.fa.CtxCached()
	for _, p := range f.pending {
		prop, err := f.fa.App().GovKeeper.Proposals.Get(ctx, p.id)
		if err != nil {
			f.t.Fatalf("c12 full: proposal %d: %v", p.id, err)
		}
		switch prop.Status {
		case govv1.StatusPassed:
			out = append(out, &c12Act{kind: "proposalq", ver: p.ver, target: p.target, res: "ok"})
		case govv1.StatusFailed: // the handler returned an error
			out = append(out, &c12Act{kind: "proposalq", ver: p.ver, target: p.target, res: "rejected"})
		case govv1.StatusRejected:
			// quorum missed: happens when the sweep jailed a large validator in the block before the
			// tally (its tokens are still in the bonded pool, its vote no longer counts). The handler
			// did not run.
			f.votedDown++
		default:
			keep = append(keep, p)
		}
	}
	f.pending = keep
	return out
}

func (f *c12Full) kind() string        { return "full" }
func (f *c12Full) outsider() []byte    { return f.fa.User(0).Addr }
func (f *c12Full) last() c12Snap       { return f.lastSnap }
func (f *c12Full) lastTime() time.Time { return f.fa.Time() }
func (f *c12Full) lastHeight() int64   { return f.fa.Height() }
func (f *c12Full) addrs() [][]byte {
	var out [][]byte
	for _, v := range f.fa.Vals {
		out = append(out, v.Addr)
	}
	return out
}

func (f *c12Full) account(addr []byte) *FAAccount {
	for _, v := range f.fa.Vals {
		if bytes.Equal(v.Addr, addr) {
			return v
		}
	}
	for _, u := range f.fa.Users {
		if bytes.Equal(u.Addr, addr) {
			return u
		}
	}
	return nil
}

func (f *c12Full) snap(ctx sdk.Context) c12Snap {
	var s c12Snap
	app := f.fa.App()
	kv := ctx.KVStore(f.key)
	err := app.StakingKeeper.IterateValidators(ctx, func(_ int64, v stakingtypes.ValidatorI) bool {
		addr, err := sdk.ValAddressFromBech32(v.GetOperator())
		if err != nil {
			f.t.Fatal(err)
		}
		cons, err := v.GetConsAddr()
		if err != nil {
			f.t.Fatal(err)
		}
		o := c12ValObs{addr: addr, status: c12StatusStr(v.GetStatus()), jailed: v.IsJailed(),
			power: v.GetTokens().Quo(sdk.DefaultPowerReduction).Int64()}
		if err := c12ReadVal(kv, &o, cons); err != nil {
			f.t.Fatal(err)
		}
		if info, err := app.SlashingKeeper.GetValidatorSigningInfo(ctx, cons); err == nil && info.JailedUntil.UnixNano() != 0 {
			o.until = c12I(info.JailedUntil.UnixNano())
		}
		s.vals = append(s.vals, o)
		return false
	})
	if err != nil {
		f.t.Fatal(err)
	}
	if err := c12ReadReq(ctx, app.ValsetKeeper, &s); err != nil {
		f.t.Fatal(err)
	}
	if bz := kv.Get(c12PrevKey); bz != nil {
		s.prev, s.hasPrev = bz, true
	}
	return s
}

func (f *c12Full) activeCount(s c12Snap) int {
	n := 0
	for _, v := range s.vals {
		if v.status == "b" && !v.jailed {
			n++
		}
	}
	return n
}

func (f *c12Full) block(step time.Duration, pre, txs, env []*c12Act) (int64, time.Time, c12Snap) {
	fa := f.fa
	app := fa.App()
	fa.BlockStep = step
	if len(pre) > 0 {
		fa.preHooks = append(fa.preHooks, func(ctx sdk.Context) error {
			for _, a := range pre {
				cur := f.snap(ctx)
				cons := f.cons[string(a.addr)]
				if !c12ExecPre(ctx, app.ValsetKeeper, f.key, a, cons) {
					o := cur.find(a.addr)
					// never take the last active validator out behind valset's back: the chain would halt
					if a.kind == "extjail" && o != nil && o.status == "b" && !o.jailed && f.activeCount(cur) <= 2 {
						a.kind = "extunjail"
					}
					switch {
					case o == nil:
						a.res = "rejected"
					case a.kind == "extjail":
						a.res = c12Res(app.SlashingKeeper.Jail(ctx, cons))
					case a.kind == "extunjail":
						a.res = "ok"
						if o.jailed {
							a.res = c12Res(app.StakingKeeper.Unjail(ctx, cons))
						}
					default:
						return fmt.Errorf("c12 full: pre action %s", a.kind)
					}
				}
				s := f.snap(ctx)
				a.snap = &s
			}
			return nil
		})
	}
	var ftxs []FATx
	for _, a := range txs {
		acc := f.account(a.addr)
		switch a.kind {
		case "keepalive":
			ftxs = append(ftxs, FATx{Signers: []*FAAccount{acc}, Msgs: []sdk.Msg{
				&valsettypes.MsgKeepAlive{PigeonVersion: a.ver, Metadata: FAMeta(acc.Addr, acc.Addr)},
			}})
		case "unjail":
			ftxs = append(ftxs, FATx{Signers: []*FAAccount{acc}, Msgs: []sdk.Msg{slashingtypes.NewMsgUnjail(sdk.ValAddress(a.addr).String())}})
		case "govsubmit":
			u := fa.User(1)
			content, err := govv1.NewLegacyContent(&valsettypes.SetPigeonRequirementsProposal{
				Title: "pigeon", Description: "raise the minimum pigeon version", MinVersion: a.ver, TargetBlockHeight: a.target,
			}, authtypes.NewModuleAddress(govtypes.ModuleName).String())
			if err != nil {
				f.t.Fatal(err)
			}
			msg, err := govv1.NewMsgSubmitProposal([]sdk.Msg{content}, faCoins(10_000_000_000), u.Addr.String(), "", "pigeon", "raise the minimum pigeon version", false)
			if err != nil {
				f.t.Fatal(err)
			}
			ftxs = append(ftxs, FATx{Signers: []*FAAccount{u}, Msgs: []sdk.Msg{msg}})
		case "govvote":
			ftxs = append(ftxs, FATx{Signers: []*FAAccount{acc}, Msgs: []sdk.Msg{govv1.NewMsgVote(acc.Addr, uint64(a.n), govv1.OptionYes, "")}})
		case "undelegate": // the operator withdraws all but 5 ugrain of its self delegation
			v, err := app.StakingKeeper.GetValidator(fa.CtxCached(), sdk.ValAddress(a.addr))
			if err != nil {
				f.t.Fatal(err)
			}
			ftxs = append(ftxs, FATx{Signers: []*FAAccount{acc}, Msgs: []sdk.Msg{
				stakingtypes.NewMsgUndelegate(acc.Addr.String(), sdk.ValAddress(a.addr).String(), sdk.NewCoin(FABondDenom, v.Tokens.SubRaw(5))),
			}})
		case "delegate":
			u := fa.User(1)
			ftxs = append(ftxs, FATx{Signers: []*FAAccount{u}, Msgs: []sdk.Msg{
				stakingtypes.NewMsgDelegate(u.Addr.String(), sdk.ValAddress(a.addr).String(), sdk.NewCoin(FABondDenom, sdkmath.NewInt(a.n).MulRaw(1_000_000))),
			}})
		default:
			f.t.Fatalf("c12 full: tx %s", a.kind)
		}
	}
	b := fa.DeliverTxs(ftxs...)
	if !b.OK() {
		f.t.Fatalf("c12 full: block %d failed: %v %s", b.Height, b.Err, b.Panic)
	}
	if len(b.HookErrs) > 0 {
		f.t.Fatalf("c12 full: hook: %v", b.HookErrs[0])
	}
	for i, a := range txs {
		a.res = "rejected"
		if b.Txs[i].OK() {
			a.res = "ok"
		}
		if (a.kind == "govvote" || a.kind == "undelegate") && !b.Txs[i].OK() {
			f.t.Fatalf("c12 full: %s failed: %s", a.kind, b.Txs[i].Log)
		}
		if a.kind == "govsubmit" {
			// gov dry-runs the legacy handler on submission (in a discarded cache context): a
			// version below the current minimum is already refused here.
			if !b.Txs[i].OK() && !strings.Contains(b.Txs[i].Log, "failed to run legacy handler") {
				f.t.Fatalf("c12 full: %s failed: %s", a.kind, b.Txs[i].Log)
			}
			if b.Txs[i].OK() {
				id, err := app.GovKeeper.ProposalID.Peek(fa.CtxCached())
				if err != nil {
					f.t.Fatal(err)
				}
				f.pending = append(f.pending, &c12Gov{id: id - 1, ver: a.ver, target: a.target})
				a.n = int64(id - 1)
			}
		}
	}
	f.lastSnap = f.snap(fa.CtxCached())
	return fa.Height(), fa.Time(), f.lastSnap
}

// c12AddrFilter: about half of the operator addresses contain the old separator 0x2c
func c12AddrFilter(variant int) func(i int, addr []byte) bool {
	return func(i int, addr []byte) bool {
		has := bytes.IndexByte(addr, 0x2c) >= 0
		switch (i + variant) % 4 {
		case 0:
			return has
		case 2:
			return addr[0] == 0x2c || addr[19] == 0x2c
		default:
			return !has
		}
	}
}

func c12StartFull(t *testing.T, r *Rec, seed int64) *c12Runner {
	n := 4 + r.Rng.Intn(3)
	pw := c12Powers(r, n, 1)
	// MaxValidators stays at the default: lowering it in genesis below the number of genesis
	// validators leaves the surplus ones with status Bonded outside the validator set (staking
	// only unbonds members of the LAST set), a state a running chain cannot reach.
	return c12StartFullWith(t, r, seed, pw, 0, r.Rng.Intn(2))
}

func c12StartFullWith(t *testing.T, r *Rec, seed int64, pw []int64, maxVals uint32, variant int) *c12Runner {
	n := len(pw)
	stakes := make([]sdkmath.Int, n)
	for i := range stakes {
		stakes[i] = sdkmath.NewInt(pw[i]).MulRaw(1_000_000).AddRaw(int64(r.Rng.Intn(2)) * int64(r.Rng.Intn(1_000_000)))
	}
	fa := NewFullApp(t, FullAppOpts{
		Seed: seed, NumValidators: n, NumUsers: 2, ValidatorStake: stakes,
		UserBalance:   sdk.NewCoins(sdk.NewCoin(FABondDenom, sdkmath.NewInt(1<<52).MulRaw(1_000_000))),
		ValAddrFilter: c12AddrFilter(variant),
		MutateGenesis: func(a *palomaapp.App, gs map[string]json.RawMessage) {
			var gg govv1.GenesisState
			a.AppCodec().MustUnmarshalJSON(gs[govtypes.ModuleName], &gg)
			vp, evp := 20*time.Second, 10*time.Second
			gg.Params.VotingPeriod, gg.Params.ExpeditedVotingPeriod = &vp, &evp
			gs[govtypes.ModuleName] = a.AppCodec().MustMarshalJSON(&gg)
			if maxVals == 0 {
				return
			}
			var st stakingtypes.GenesisState
			a.AppCodec().MustUnmarshalJSON(gs[stakingtypes.ModuleName], &st)
			st.Params.MaxValidators = maxVals
			gs[stakingtypes.ModuleName] = a.AppCodec().MustMarshalJSON(&st)
		},
	})
	f := &c12Full{t: t, fa: fa, key: fa.kvKeys()[valsettypes.StoreKey], cons: map[string]sdk.ConsAddress{}}
	for _, v := range fa.Vals {
		f.cons[string(v.Addr)] = v.ConsAddr()
	}
	w := &c12Runner{r: r, be: f, nontriv: map[string]bool{}}
	// replay genesis and block 1 (already executed by NewFullApp) for the model
	post := f.snap(fa.CtxCached())
	f.lastSnap = post
	w.op("reset", "ok")
	gen := c12Snap{min: c12DefaultMin}
	for _, o := range post.vals { // store order
		g := c12ValObs{addr: o.addr, status: "b", power: o.power}
		gen.vals = append(gen.vals, g)
		w.op(fmt.Sprintf("addval %s b 0 %d", c12Hex(o.addr), o.power), "ok "+gen.dump())
		if bytes.IndexByte(o.addr, 0x2c) >= 0 {
			r.Stat("addr.with_0x2c")
		} else {
			r.Stat("addr.without_0x2c")
		}
	}
	w.op("beginblock 1", "ok")
	for i, o := range post.vals {
		if o.status != gen.vals[i].status {
			w.op(fmt.Sprintf("status %s %s", c12Hex(o.addr), o.status), "ok")
			r.Stat("view.status")
		}
	}
	w.op(fmt.Sprintf("endblock 1 %d", fa.Time().UnixNano()), post.dump()+" prev="+post.prevStr())
	w.prevUnj = map[string]bool{}
	for _, o := range post.vals {
		w.prevUnj[string(o.addr)] = !o.jailed
	}
	r.Stat("fixture.full")
	return w
}

// c12FullTxs adds the txs only the full application can run: MsgUnjail and delegations.
func c12FullTxs(g *c12Gen, _ []byte) []*c12Act {
	r := g.w.r.Rng
	var out []*c12Act
	last := g.w.be.last()
	now := g.w.be.lastTime().UnixNano()
	for _, v := range last.vals {
		if v.jailed && r.Intn(3) == 0 {
			// mostly when the sentence is (about to be) over
			if v.until == nil || now+int64(2*time.Second) >= *v.until || r.Intn(4) == 0 {
				out = append(out, &c12Act{kind: "unjail", addr: v.addr})
			}
		}
	}
	if r.Intn(10) == 0 {
		out = append(out, &c12Act{kind: "unjail", addr: g.pick()})
	}
	if r.Intn(8) == 0 {
		out = append(out, &c12Act{kind: "delegate", addr: g.pick(), n: []int64{1, 7, 100, 1000, 1 << 40}[r.Intn(5)]})
	}
	return out
}

// c12GovCase: a real governance proposal (submit + deposit, votes of all operators, voting period,
// execution by the gov end blocker through the legacy router).
func c12GovCase(g *c12Gen) {
	w := g.w
	f := w.be.(*c12Full)
	h := w.be.lastHeight() + 1
	sub := &c12Act{kind: "govsubmit", ver: w.version(w.be.last().min), target: g.target(h + 12)}
	switch w.r.Rng.Intn(6) {
	case 0, 1, 2: // mostly something that can pass
		sub.ver = c12GoodVersions[w.r.Rng.Intn(len(c12GoodVersions))]
	case 3:
		sub.ver = c12Above(w.r, w.be.last().min)
	case 4: // spells a version at or above the minimum, but is not one
		sub.ver = c12NearMiss(w.r, c12AtOrAbove(w.r, w.be.last().min))
		w.r.Stat("gen.gov.nearmiss")
	}
	w.runBlock(2*time.Second, nil, []*c12Act{sub}, nil)
	if sub.res != "ok" {
		w.r.Stat("gen.gov.refused_on_submit")
		if semver.Compare(sub.ver, w.be.last().min) >= 0 {
			w.hit("keepalive_accepted", fmt.Sprintf("governance refused %q on submission although the minimum is %q", sub.ver, w.be.last().min))
		}
		return
	}
	var votes []*c12Act
	for _, a := range f.addrs() {
		votes = append(votes, &c12Act{kind: "govvote", addr: a, n: sub.n})
	}
	w.runBlock(2*time.Second, nil, votes, nil)
	for k := 0; k < 30 && len(f.pending) > 0; k++ {
		if w.r.Rng.Intn(3) == 0 {
			g.runCase(1)
		} else {
			w.runBlock(2*time.Second, nil, nil, nil)
		}
	}
	if len(f.pending) > 0 {
		f.t.Fatalf("c12 full: proposal still pending")
	}
	for ; f.votedDown > 0; f.votedDown-- {
		w.r.Stat("gen.gov.voted_down")
	}
	w.r.Stat("gen.gov")
}

// c12RealTTL: every operator sends a real keep-alive, then the chain runs for the real lifetime
// (2000 blocks) and across the following sweeps.
func c12RealTTL(g *c12Gen) {
	w := g.w
	var txs []*c12Act
	for i, a := range w.be.addrs() {
		if i != 1 {
			txs = append(txs, &c12Act{kind: "keepalive", addr: a, ver: FAPigeonVersion})
		}
	}
	w.runBlock(2*time.Second, nil, txs, nil)
	end := w.be.lastHeight() + c12TTL + 45
	for w.be.lastHeight() < end {
		w.runBlock(2*time.Second, nil, nil, nil)
	}
	w.r.Stat("gen.real_ttl")
}

// c12LastValidatorCase: the full-application reproduction of the `last-validator-global` deviation.
// Five validators. The one that is LAST in store order undelegates all but 5 ugrain of its self
// delegation: consensus power 0, so staking moves it to unbonding — unjailed. Only the large
// validator keeps its relayer alive. The sweep at height 60 jails the three small bonded
// validators; then exactly one validator is active and `Jail` refuses the unbonding one as well
// (and again at every later sweep).
func c12LastValidatorCase(t *testing.T, r *Rec, seed int64) *c12Runner {
	const n = 5
	filter := c12AddrFilter(0)
	last, whale := 0, 0
	var addrs [][]byte
	for i := 0; i < n; i++ {
		i := i
		addrs = append(addrs, FAFindKey(seed, "val", i, func(a []byte) bool { return filter(i, a) }).PubKey().Address())
		if bytes.Compare(addrs[i], addrs[last]) > 0 {
			last = i
		}
	}
	if last == 0 {
		whale = 1
	}
	pw := []int64{10, 10, 10, 10, 10}
	pw[whale] = 1000
	w := c12StartFullWith(t, r, seed, pw, 0, 0)
	w.runBlock(2*time.Second, nil, []*c12Act{
		{kind: "keepalive", addr: addrs[whale], ver: FAPigeonVersion},
		{kind: "undelegate", addr: addrs[last]},
	}, nil)
	for w.be.lastHeight() < 72 {
		w.runBlock(2*time.Second, nil, nil, nil)
	}
	w.r.Stat("gen.last_validator_full")
	return w
}

func c12RunFull(t *testing.T, r *Rec, n int) {
	var w *c12Runner
	var g *c12Gen
	for i := 0; i < n; i++ {
		if w == nil || i%10 == 0 {
			w = c12StartFull(t, r, r.Seed*1000+int64(i))
			g = &c12Gen{w: w, full: true, txKinds: c12FullTxs}
		}
		w.nontriv = map[string]bool{}
		start := len(w.ops)
		switch {
		case i == 2:
			w = c12LastValidatorCase(t, r, r.Seed*1000+500)
			g = &c12Gen{w: w, full: true, txKinds: c12FullTxs}
			start = 0
		case i == 1:
			c12RealTTL(g)
		case i%7 == 3:
			c12GovCase(g)
		default:
			g.runCase(3 + r.Rng.Intn(8))
		}
		key := strings.Join(w.ops[min(start, len(w.ops)):], "|")
		r.Case(fmt.Sprintf("full/%d/%d", i, len(key)), len(w.nontriv) > 0)
	}
}
