//go:build verif

package harness

import (
	"encoding/hex"
	"fmt"
	"math/rand"
	"os"
	"strings"
	"testing"
	"time"

	"context"

	"github.com/cosmos/cosmos-sdk/codec"
	codectypes "github.com/cosmos/cosmos-sdk/codec/types"
	"github.com/palomachain/paloma/v2/util/libcons"
	consensustypes "github.com/palomachain/paloma/v2/x/consensus/types"
	evmkeeper "github.com/palomachain/paloma/v2/x/evm/keeper"
	evmtypes "github.com/palomachain/paloma/v2/x/evm/types"

	sdkmath "cosmossdk.io/math"
	sdk "github.com/cosmos/cosmos-sdk/types"
	banktypes "github.com/cosmos/cosmos-sdk/x/bank/types"
	palomatypes "github.com/palomachain/paloma/v2/x/paloma/types"
	tokenfactorytypes "github.com/palomachain/paloma/v2/x/tokenfactory/types"
	treasurytypes "github.com/palomachain/paloma/v2/x/treasury/types"
	valsettypes "github.com/palomachain/paloma/v2/x/valset/types"
)

// C08 — twin execution: the same genesis and block history on two application instances that
// differ in process environment, restarts and extra read-only queries must give byte-identical
// AppHash, results hash and store contents after every block.

var c08EnvVars = []string{"PALOMA_FF_PIGEON_STATUS_UPDATE", "PIGEON_HEALTHCHECK_PORT"}

var c08ZoneB = time.FixedZone("verif-west", -8*3600)

func c08SetEnv(on bool) {
	// the twins also run in different local time zones (what TZ would do for a node)
	if on {
		time.Local = c08ZoneB
	} else {
		time.Local = time.UTC
	}
	for _, v := range c08EnvVars {
		if on {
			os.Setenv(v, "1")
		} else {
			os.Unsetenv(v)
		}
	}
}

// c08Txs draws the transactions of one block from a PRNG; called once per twin with equally
// seeded generators so that both twins see the same bytes.
func c08Txs(fa *FullApp, rng *rand.Rand, created map[string]bool, commit bool) []FATx {
	var txs []FATx
	n := rng.Intn(4)
	used := map[string]bool{}
	for i := 0; i < n; i++ {
		var tx FATx
		switch rng.Intn(9) {
		case 0, 1: // status update, all levels including unknown ones
			v := fa.ValidatorOperator(rng.Intn(len(fa.Vals)))
			lvl := palomatypes.MsgAddStatusUpdate_Level(rng.Intn(6))
			tx = FATx{Msgs: []sdk.Msg{&palomatypes.MsgAddStatusUpdate{Status: fmt.Sprint("s", rng.Intn(100)), Level: lvl, Metadata: FAMeta(v.Addr, v.Addr),
				Args: []palomatypes.MsgAddStatusUpdate_KeyValuePair{{Key: "k", Value: "v"}}}}, Signers: []*FAAccount{v}}
		case 2: // keep alive
			v := fa.ValidatorOperator(rng.Intn(len(fa.Vals)))
			tx = FATx{Msgs: []sdk.Msg{&valsettypes.MsgKeepAlive{PigeonVersion: FAPigeonVersion, Metadata: FAMeta(v.Addr, v.Addr)}}, Signers: []*FAAccount{v}}
		case 3: // bank send
			a, b := fa.User(rng.Intn(len(fa.Users))), fa.User(rng.Intn(len(fa.Users)))
			tx = FATx{Msgs: []sdk.Msg{banktypes.NewMsgSend(a.Addr, b.Addr, faCoins(int64(1+rng.Intn(1000))))}, Signers: []*FAAccount{a}}
		case 4: // tokenfactory create
			u := fa.User(rng.Intn(len(fa.Users)))
			sub := fmt.Sprint("d", rng.Intn(4))
			tx = FATx{Msgs: []sdk.Msg{&tokenfactorytypes.MsgCreateDenom{Subdenom: sub, Metadata: FAMeta(u.Addr, u.Addr)}}, Signers: []*FAAccount{u}}
			if commit {
				created["factory/"+u.Addr.String()+"/"+sub] = true
			}
		case 5: // tokenfactory mint / burn on some denom (often not one's own)
			u := fa.User(rng.Intn(len(fa.Users)))
			denom := "factory/" + fa.User(rng.Intn(len(fa.Users))).Addr.String() + "/" + fmt.Sprint("d", rng.Intn(4))
			coin := sdk.NewCoin(denom, sdkmath.NewInt(int64(1+rng.Intn(50))))
			if rng.Intn(2) == 0 {
				tx = FATx{Msgs: []sdk.Msg{&tokenfactorytypes.MsgMint{Amount: coin, Metadata: FAMeta(u.Addr, u.Addr)}}, Signers: []*FAAccount{u}}
			} else {
				tx = FATx{Msgs: []sdk.Msg{&tokenfactorytypes.MsgBurn{Amount: coin, Metadata: FAMeta(u.Addr, u.Addr)}}, Signers: []*FAAccount{u}}
			}
		case 6: // relayer fee upsert (own / somebody else's / hostile values)
			v := fa.ValidatorOperator(rng.Intn(len(fa.Vals)))
			target := v
			if rng.Intn(4) == 0 {
				target = fa.ValidatorOperator(rng.Intn(len(fa.Vals)))
			}
			mults := []string{"1.1", "0", "3", "0.000000000000000001", "-1", "100000000000000000000000000000000000000000"}
			m, _ := sdkmath.LegacyNewDecFromStr(mults[rng.Intn(len(mults))])
			tx = FATx{Msgs: []sdk.Msg{&treasurytypes.MsgUpsertRelayerFee{Metadata: FAMeta(v.Addr, v.Addr), FeeSetting: &treasurytypes.RelayerFeeSetting{ValAddress: target.ValAddr().String(),
				Fees: []treasurytypes.RelayerFeeSetting_FeeSetting{{Multiplicator: m, ChainReferenceId: "test-chain"}}}}}, Signers: []*FAAccount{v}}
		case 7: // a tx signed by A claiming creator B
			a, b := fa.User(rng.Intn(len(fa.Users))), fa.User(rng.Intn(len(fa.Users)))
			tx = FATx{Msgs: []sdk.Msg{&tokenfactorytypes.MsgCreateDenom{Subdenom: "z", Metadata: FAMeta(b.Addr, a.Addr)}}, Signers: []*FAAccount{a}}
		default: // more zoo traffic is appended by c08ZooTxs when the zoo is available
			continue
		}
		// one tx per signer per block keeps sequence handling trivial
		key := tx.Signers[0].Addr.String()
		if used[key] {
			continue
		}
		used[key] = true
		txs = append(txs, tx)
	}
	return txs
}

func TestC08(t *testing.T) {
	r := NewRec(t, "C08")
	defer r.Close()
	blocks := int(envInt("VERIF_BLOCKS", 130))
	defer func() { time.Local = time.UTC }()
	c08RepeatedEvaluation(t, r)
	c08RepeatedRanking(t, r)
	c08PeriodicSweeps(t, r)
	for c := 0; c < r.N; c++ {
		seed := r.Rng.Int63()
		if c%2 == 1 {
			c08ZooCase(t, r, seed)
			continue
		}
		opts := FullAppOpts{NumValidators: 4 + int(seed%2), NumUsers: 3, Seed: seed % 1000}
		c08SetEnv(false)
		a := NewFullApp(t, opts)
		c08SetEnv(true)
		b := NewFullApp(t, opts)
		txCount := 0
		diverged := false
		var history []string
		for _, fa := range []*FullApp{a, b} {
			c08SetEnv(fa == b)
			fa.KeepAliveAll()
			if _, err := fa.ActivateEVMChain(FAEvmChain{RefID: "test-chain"}); err != nil {
				t.Fatal(err)
			}
		}
		rngA := rand.New(rand.NewSource(seed))
		rngB := rand.New(rand.NewSource(seed))
		ctl := rand.New(rand.NewSource(seed + 1))
		createdA, createdB := map[string]bool{}, map[string]bool{}
		for h := 0; h < blocks && !diverged; h++ {
			// twin A: plain environment
			c08SetEnv(false)
			txsA := c08Txs(a, rngA, createdA, true)
			resA := a.DeliverTxs(txsA...)
			// twin B: environment variables set, occasional restart, extra read-only queries
			c08SetEnv(true)
			if ctl.Intn(25) == 0 {
				b.Restart()
				r.Stat("twin.restart")
			}
			if ctl.Intn(5) == 0 {
				ctx := b.CtxCached()
				_, _ = b.App().ValsetKeeper.GetCurrentSnapshot(ctx)
				_, _, _ = b.App().EvmKeeper.PickValidatorForMessage(ctx, "test-chain", nil)
				_ = b.App().EvmKeeper.GetActiveChainNames(ctx)
				_, _ = b.App().TreasuryKeeper.GetRelayerFeesByChainReferenceID(ctx, "test-chain")
				r.Stat("twin.queries")
			}
			txsB := c08Txs(b, rngB, createdB, true)
			resB := b.DeliverTxs(txsB...)
			txCount += len(txsA)
			line := fmt.Sprintf("block %d %d", a.Height(), len(txsA))
			history = append(history, line)
			same := resA.OK() == resB.OK() && hex.EncodeToString(a.AppHash()) == hex.EncodeToString(b.AppHash()) &&
				hex.EncodeToString(a.LastResultsHash()) == hex.EncodeToString(b.LastResultsHash())
			out := "equal"
			if !same {
				diverged = true
				out = "diverged"
				var codesA, codesB []string
				for _, x := range resA.Txs {
					codesA = append(codesA, fmt.Sprintf("%d/%v", x.Code, x.Panicked))
				}
				for _, x := range resB.Txs {
					codesB = append(codesB, fmt.Sprintf("%d/%v", x.Code, x.Panicked))
				}
				var msgs []string
				for _, tx := range txsA {
					msgs = append(msgs, fmt.Sprintf("%T %s", tx.Msgs[0], tx.Msgs[0].String()))
				}
				r.Hit("twin_execution_equal", fmt.Sprintf("height %d: twins differ (stores %v; tx codes %v vs %v; block ok %v vs %v)", a.Height(),
					FADiffDigests(a.StoreDigest(), b.StoreDigest()), codesA, codesB, resA.OK(), resB.OK()),
					map[string]interface{}{"seed": seed, "opts": fmt.Sprintf("%+v", opts), "env_on_twin_b": c08EnvVars, "txs_of_block": msgs, "history": strings.Join(history, ";")})
			}
			r.Op(line, out)
		}
		c08SetEnv(false)
		r.Case(fmt.Sprint("twin|", seed), txCount >= 10)
		r.Stats["txs"] += txCount
	}
}

// c08ZooCase: twin execution over the whole message zoo (all 41 message types, valid and hostile).
func c08ZooCase(t *testing.T, r *Rec, seed int64) {
	c08SetEnv(false)
	wa := NewZooWorld(t, seed%1000)
	c08SetEnv(true)
	wb := NewZooWorld(t, seed%1000)
	defer c08SetEnv(false)
	zoo := ZooAll()
	rngA := rand.New(rand.NewSource(seed))
	rngB := rand.New(rand.NewSource(seed))
	ctl := rand.New(rand.NewSource(seed + 7))
	var history []string
	if hex.EncodeToString(wa.FA.AppHash()) != hex.EncodeToString(wb.FA.AppHash()) {
		r.Hit("twin_execution_equal", "twins differ right after world construction", map[string]interface{}{"seed": seed, "stores": FADiffDigests(wa.FA.StoreDigest(), wb.FA.StoreDigest())})
		return
	}
	// jump both twins to the small hours (UTC) of the first day after a short month, where local
	// and UTC calendar dates differ and month arithmetic in the local zone gives another instant
	starts := []string{"2025-03-01T01:30:00Z", "2024-05-01T03:00:00Z", "2026-03-01T00:10:00Z", "2025-10-01T05:00:00Z"}
	jump, _ := time.Parse(time.RFC3339, starts[ctl.Intn(len(starts))])
	for ti, w := range []*ZooWorld{wa, wb} {
		c08SetEnv(ti == 1)
		w.FA.NextTime = jump
		w.FA.NextBlock()
	}
	lnIdx := -1
	for i, m := range zoo {
		if m.Name == "paloma.RegisterLightNodeClient" {
			lnIdx = i
		}
	}
	txs := 0
	for op := 0; op < 70; op++ {
		idx := ctl.Intn(len(zoo))
		if lnIdx >= 0 && ctl.Intn(8) == 0 {
			idx = lnIdx
		}
		hostile := ctl.Intn(10) < 4
		gov := ctl.Intn(2) == 0
		restart := ctl.Intn(30) == 0
		var resS [2]string
		for ti, w := range []*ZooWorld{wa, wb} {
			rng := rngA
			if ti == 1 {
				rng = rngB
			}
			c08SetEnv(ti == 1)
			if ti == 1 && restart && !w.FA.Broken {
				w.FA.Restart()
			}
			w.Maintain()
			m := zoo[idx]
			func() {
				defer func() {
					if p := recover(); p != nil {
						resS[ti] = fmt.Sprint("harness-panic ", p)
					}
				}()
				actor := m.RightfulActor(w, rng)
				msg := m.Build(w, actor, rng, hostile)
				var res FATxResult
				if m.NeedsAuthority && gov {
					res = w.DeliverGov(msg)
				} else {
					res = w.Deliver(actor, actor, msg)
				}
				resS[ti] = zooResStr(res)
			}()
		}
		txs++
		line := fmt.Sprintf("block %d 1", wa.FA.Height())
		history = append(history, fmt.Sprintf("%s hostile=%v -> %s | %s", zoo[idx].Name, hostile, resS[0], resS[1]))
		same := resS[0] == resS[1] && wa.FA.Height() == wb.FA.Height() &&
			hex.EncodeToString(wa.FA.AppHash()) == hex.EncodeToString(wb.FA.AppHash()) &&
			hex.EncodeToString(wa.FA.LastResultsHash()) == hex.EncodeToString(wb.FA.LastResultsHash())
		out := "equal"
		if !same {
			out = "diverged"
			r.Hit("twin_execution_equal", fmt.Sprintf("after %s (hostile=%v): results %q vs %q, heights %d/%d, stores %v", zoo[idx].Name, hostile, resS[0], resS[1],
				wa.FA.Height(), wb.FA.Height(), FADiffDigests(wa.FA.StoreDigest(), wb.FA.StoreDigest())),
				map[string]interface{}{"seed": seed, "zoo": true, "env_on_twin_b": c08EnvVars, "history": history})
		}
		r.Op(line, out)
		r.Stat("zoo." + zoo[idx].Name)
		if !same {
			break
		}
	}
	r.Case(fmt.Sprint("twinzoo|", seed), txs >= 10)
	r.Stats["txs"] += txs
}

// c08RepeatedEvaluation: evidence tallying and relayer selection must give the same answer every
// time they are evaluated on the same state (Go randomises map iteration per range statement).
func c08RepeatedEvaluation(t *testing.T, r *Rec) {
	reg := codectypes.NewInterfaceRegistry()
	evmtypes.RegisterInterfaces(reg)
	cdc := codec.NewProtoCodec(reg)
	for i := 0; i < 40; i++ {
		vals, total := r.c04GenVals()
		c := c04Case{total: total, vals: vals}
		nh := 2 + r.Rng.Intn(2)
		var evs []libcons.Evidence
		var desc []string
		for _, v := range vals {
			h := 1 + r.Rng.Intn(nh)
			any, _ := codectypes.NewAnyWithValue(&evmtypes.SmartContractExecutionErrorProof{ErrorMessage: fmt.Sprint("h", h)})
			evs = append(evs, &consensustypes.Evidence{ValAddress: valAddrOf(int(v.a.Int64())), Proof: any})
			desc = append(desc, fmt.Sprintf("%s:%s->h%d", v.a, v.b, h))
		}
		snap := r.c04Snapshot(c)
		checker := libcons.New(func(context.Context) (*valsettypes.Snapshot, error) { return snap, nil }, cdc)
		seen := map[string]int{}
		for k := 0; k < 24; k++ {
			res, err := checker.VerifyEvidence(context.Background(), evs)
			out := "notachieved"
			if err == nil && res != nil && res.Winner != nil {
				out = res.Winner.(*evmtypes.SmartContractExecutionErrorProof).ErrorMessage
			} else if err != nil && err != libcons.ErrConsensusNotAchieved {
				out = "error"
			}
			seen[out]++
		}
		line := fmt.Sprintf("block 0 %d", i)
		out := "equal"
		if len(seen) > 1 && total.Sign() > 0 {
			out = "diverged"
			r.Hit("repeated_evaluation_equal", fmt.Sprintf("VerifyEvidence on one snapshot and one evidence list gave %v over 24 evaluations", seen),
				map[string]interface{}{"total": total.String(), "evidence": desc})
		}
		r.Op(line, out)
		r.Stat("repeat.evidence")
	}
}

// c08RepeatedRanking: "relayer selection ... gives the same answer every time it is evaluated on the same state".
// The ranking is built from a Go map; it is a function of the state only if the comparator it sorts with is a
// total order.  Exact ties are easy (the address decides); the class random scores never produce is the NEAR tie:
// ladders of validators whose scores differ by steps between 1e-12 and 1e-3 inside a window fixed by two anchors,
// with the address order drawn independently of the score order.  Each state is ranked 96 times.
func c08RepeatedRanking(t *testing.T, r *Rec) {
	dec := func(s string) sdkmath.LegacyDec { return sdkmath.LegacyMustNewDecFromStr(s) }
	steps := []string{"0.000000000001", "0.000000001", "0.0000001", "0.0000006", "0.000001", "0.0000013", "0.000003", "0.0001", "0.001"}
	weightSets := [][5]string{{"1", "1", "1", "1", "1"}, {"1", "0", "0", "0", "0"}, {"0.5", "0.2", "0.2", "0.05", "0.05"}, {"0", "1", "0", "0", "0"}}
	ctx := sdk.Context{}.WithBlockHeight(7)
	for i := 0; i < 60; i++ {
		n := 3 + r.Rng.Intn(5)
		step := dec(steps[r.Rng.Intn(len(steps))])
		ws := weightSets[r.Rng.Intn(len(weightSets))]
		weights := evmtypes.RelayWeightDec{Fee: dec(ws[0]), Uptime: dec(ws[1]), SuccessRate: dec(ws[2]), ExecutionTime: dec(ws[3]), FeatureSet: dec(ws[4])}
		field := r.Rng.Intn(2) // the ladder lives in the fee (reversed scale) or in the uptime
		infos := map[string]evmkeeper.ValidatorInfo{}
		var desc []string
		perm := r.Rng.Perm(n + 2)
		for k := 0; k < n+2; k++ {
			addr := valAddrOf(1 + perm[k]).String()
			v := dec("1.5").Sub(step.MulInt64(int64(k)))
			switch k {
			case n: // anchors fix the normalisation window to [1, 2]
				v = dec("1")
			case n + 1:
				v = dec("2")
			}
			info := evmkeeper.ValidatorInfo{Fee: dec("1"), Uptime: dec("1"), SuccessRate: dec("0.5"), ExecutionTime: dec("1"), FeatureSet: dec("1")}
			if field == 0 {
				info.Fee = v
			} else {
				info.Uptime = v
			}
			infos[addr] = info
			desc = append(desc, fmt.Sprintf("%d:%s", 1+perm[k], v))
		}
		seen := map[string]int{}
		for k := 0; k < 96; k++ {
			order, err := evmkeeper.VerifRankValidators(ctx, infos, weights)
			out := strings.Join(order, ",")
			if err != nil {
				out = "error"
			}
			seen[out]++
		}
		out := "equal"
		if len(seen) > 1 {
			out = "diverged"
			r.Hit("repeated_evaluation_equal", fmt.Sprintf("the relayer ranking of one state gave %d different orders over 96 evaluations", len(seen)),
				map[string]interface{}{"validators(index:value)": desc, "ladder_step": step.String(), "ladder_in": []string{"fee", "uptime"}[field], "weights": ws})
		}
		r.Op(fmt.Sprintf("block 0 %d", 1000+i), out)
		r.Stat("repeat.ranking")
	}
}

// c08PeriodicSweeps: the housekeeping that only runs at height classes the random histories rarely
// reach (every 10 / 50 / 100 / 300 / 303 blocks: liveness sweep, snapshot build, metrics, balance and
// reference-block requests, the sweep that jails validators lacking accounts on supported chains).
// Twin execution up to height 310 with several supported chains on which no validator has an account,
// so that those sweeps have several items to iterate over; everything the sweeps store (jail reasons
// included) is part of the compared store digests.
func c08PeriodicSweeps(t *testing.T, r *Rec) {
	defer c08SetEnv(false)
	opts := FullAppOpts{NumValidators: 5, NumUsers: 2, Seed: 800 + r.Seed%100}
	var tw [2]*FullApp
	for i := range tw {
		c08SetEnv(i == 1)
		fa := NewFullApp(t, opts)
		fa.KeepAliveAll()
		if _, err := fa.ActivateEVMChain(FAEvmChain{RefID: "test-chain", ABI: c05CompassABI(t), Bytecode: []byte{0x60, 0x01}}); err != nil {
			t.Fatal(err)
		}
		// four more supported chains without a single validator account
		for k, ref := range []string{"zeta-chain", "alpha-chain", "mid-chain", "beta-chain"} {
			if _, err := fa.ActivateEVMChain(FAEvmChain{RefID: ref, ChainID: uint64(5000 + k), ABI: c05CompassABI(t), Bytecode: []byte{0x60, 0x01}, SkipValidators: true, SkipSnapshot: true}); err != nil {
				t.Fatal(err)
			}
		}
		tw[i] = fa
	}
	equal := func(what string) bool {
		a, b := tw[0], tw[1]
		same := a.Height() == b.Height() && hex.EncodeToString(a.AppHash()) == hex.EncodeToString(b.AppHash()) &&
			hex.EncodeToString(a.LastResultsHash()) == hex.EncodeToString(b.LastResultsHash())
		out := "equal"
		if !same {
			out = "diverged"
			r.Hit("twin_execution_equal", fmt.Sprintf("periodic sweeps, %s at height %d/%d: stores %v", what, a.Height(), b.Height(), FADiffDigests(a.StoreDigest(), b.StoreDigest())),
				map[string]interface{}{"scenario": "c08PeriodicSweeps", "opts": fmt.Sprintf("%+v", opts), "env_on_twin_b": c08EnvVars})
		}
		r.Op(fmt.Sprintf("block %d 0", a.Height()), out)
		return same
	}
	if !equal("setup") {
		return
	}
	// the one handler that reads the environment: every size and level of status update must give the
	// same transaction result on the twin with the feature flag and on the twin without it
	for _, n := range []int{0, 1, 16, 17, 40, 300} {
		for _, lvl := range []int32{0, 1, 2, 3, -1} {
			var codes [2]string
			for i, fa := range tw {
				c08SetEnv(i == 1)
				v := fa.ValidatorOperator(0)
				m := &palomatypes.MsgAddStatusUpdate{Status: "relayed", Level: palomatypes.MsgAddStatusUpdate_Level(lvl), Metadata: FAMeta(v.Addr, v.Addr)}
				for k := 0; k < n; k++ {
					m.Args = append(m.Args, palomatypes.MsgAddStatusUpdate_KeyValuePair{Key: fmt.Sprintf("k%d", k), Value: "v"})
				}
				res := fa.DeliverTx(v, m)
				codes[i] = fmt.Sprintf("%s/%d/%v", res.Codespace, res.Code, res.Panicked)
			}
			r.Stat("sweeps.status_update")
			if codes[0] != codes[1] {
				r.Hit("twin_execution_equal", fmt.Sprintf("MsgAddStatusUpdate with %d args, level %d: result %s without PALOMA_FF_PIGEON_STATUS_UPDATE, %s with it", n, lvl, codes[0], codes[1]),
					map[string]interface{}{"scenario": "c08PeriodicSweeps/status-update", "args": n, "level": lvl, "env_on_twin_b": c08EnvVars})
				r.Op(fmt.Sprintf("block %d 1", tw[0].Height()), "diverged")
				return
			}
			if !equal(fmt.Sprintf("status update %d/%d", n, lvl)) {
				return
			}
		}
	}
	for _, target := range []int64{100, 200, 299, 300, 301, 302, 303, 304, 310} {
		for i, fa := range tw {
			c08SetEnv(i == 1)
			if fa.Height() < target {
				if b := fa.AdvanceTo(target); !b.OK() {
					t.Fatalf("c08PeriodicSweeps: block failed: %v %s", b.Err, b.Panic)
				}
			}
			if i == 1 && target == 300 {
				fa.Restart()
			}
			// keep the relayers alive on both twins alike (the liveness sweep is not what is tested here)
			if target%100 == 0 {
				fa.KeepAliveAll()
			}
		}
		if !equal(fmt.Sprintf("advance to %d", target)) {
			return
		}
	}
	jailed := 0
	for i := range tw[0].Vals {
		if j, _ := tw[0].App().ValsetKeeper.IsJailed(tw[0].CtxCached(), tw[0].ValAddr(i)); j {
			jailed++
		}
	}
	r.Stat(fmt.Sprintf("sweeps.jailed_for_missing_chains.%d", jailed))
	r.Case("periodic-sweeps", jailed > 0)
}
