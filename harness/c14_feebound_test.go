//go:build verif

// C14, fee clause at the width of the fee fields (TestC14Fees, on the fixture of queue_test.go).
//
// "The fees attached to it are ceil(relayer multiplier * elected gas) and ceil(community / security rate *
// that relayer fee)" — and a message is offered only once its estimate is elected.  The three fees live in
// uint64 fields, the multiplicators are 18-decimal numbers of almost arbitrary size (the treasury accepts
// every non-negative one), the elected estimate is any uint64.  The class of inputs this file generates is
// the one where a product multiplicator * value lies AT or NEXT TO a power of two that a fixed-width
// integer in the computation could have (2^64 above all; 2^63, 2^53, 2^32, 2^31 as well): exactly T, the
// closest representable products below and above T, somewhere strictly between T and T+1, the largest
// product below T+1, exactly T+1 — for each of the three products (relayer, community, security), with the
// multiplicand small (a handful of gas) up to the full uint64 range.  A message whose exact ceil fee does
// not fit the field must stay un-elected and un-offered (nothing else can be "the fees of the formula");
// every other one must be offered with exactly the three ceils.
//
// Histories: several messages of different senders and assignees share one end-block (one of them at the
// boundary); the relayer may change its multiplicator after a refusal (by the real MsgUpsertRelayerFee
// handler) and the next end-block then elects; further end-blocks change nothing.
//
// Observables compared with the model: everything of queue_test.go (`put` / `enq` / `est` / `endblock` /
// `relay`) plus `relayf <val>`: what each message offered to <val> carries (elected estimate, fees).
// Monitors (the property evaluated on the implementation with big rationals, independent of the model):
//
//	offered_carries_ceil_fees   an offered fee-paying message that needs an estimate carries an elected
//	                            estimate g > 0 and fees (r, c, s) with r = ceil(m*g), c = ceil(cr*r),
//	                            s = ceil(sr*r) for the multiplicators in force when g was elected
//	offered_fee_never_zero      consequence: m > 0, rates > 0, g >= 1, so none of the three fees is 0
//	elected_iff_fees            a fee-paying message has an elected estimate iff it has fees
package harness

import (
	"fmt"
	"math/big"
	"sort"
	"testing"

	sdkmath "cosmossdk.io/math"
	sdk "github.com/cosmos/cosmos-sdk/types"
	treasurytypes "github.com/palomachain/paloma/v2/x/treasury/types"
)

var (
	c14fOne = new(big.Int).Exp(big.NewInt(10), big.NewInt(18), nil) // scale of a LegacyDec
	c14fU64 = pow2(64)
)

// c14fDec renders a scaled (x 10^18) non-negative integer as the decimal string the keepers parse.
func c14fDec(scaled *big.Int) string {
	return sdkmath.LegacyNewDecFromBigIntWithPrec(new(big.Int).Set(scaled), 18).String()
}

// c14fCeil: ceil(scaled * v / 10^18) on plain integers.
func c14fCeil(scaled, v *big.Int) *big.Int {
	p := new(big.Int).Mul(scaled, v)
	q, rem := new(big.Int).QuoRem(p, c14fOne, new(big.Int))
	if rem.Sign() > 0 {
		q.Add(q, big.NewInt(1))
	}
	return q
}

// the fixed-width thresholds a product can sit next to (value of the ceil fee)
func c14fThreshold(r *Rec) *big.Int {
	switch x := r.Rng.Intn(20); {
	case x < 9:
		return new(big.Int).Sub(c14fU64, big.NewInt(1)) // the largest fee a uint64 holds
	case x < 11:
		return new(big.Int).Sub(c14fU64, big.NewInt(2))
	case x < 13:
		return new(big.Int).Set(c14fU64)
	case x < 14:
		return new(big.Int).Sub(pow2(63), big.NewInt(1))
	case x < 15:
		return pow2(63)
	case x < 16:
		return new(big.Int).Sub(pow2(32), big.NewInt(1))
	case x < 17:
		return pow2(53)
	case x < 18:
		return new(big.Int).Sub(pow2(31), big.NewInt(1))
	case x < 19:
		return new(big.Int).Mul(c14fU64, big.NewInt(int64(2+r.Rng.Intn(3)))) // far above: 2*2^64 …
	default:
		return big.NewInt(int64(1 + r.Rng.Intn(100000)))
	}
}

var c14fClasses = []string{"at-or-just-below", "just-above", "inside", "just-below-next", "next"}

// c14fMultNear returns the scaled multiplicator m for which m*v is, among the products a multiplicator
// with 18 decimals can form with v, the one described by class relative to T (as a fee: T * 10^18):
//
//	at-or-just-below  the largest m*v <= T            (ceil = T when v <= 10^18)
//	just-above        the smallest m*v > T            (ceil = T+1 when v < 10^18)
//	inside            some m*v in (T, T+1)            (ceil = T+1)
//	just-below-next   the largest m*v < T+1           (ceil = T+1)
//	next              the largest m*v <= T+1          (ceil = T+1)
func c14fMultNear(r *Rec, T, v *big.Int, class string) *big.Int {
	K := new(big.Int).Mul(T, c14fOne)
	switch class {
	case "at-or-just-below":
		return new(big.Int).Quo(K, v)
	case "just-above":
		m := new(big.Int).Quo(K, v)
		return m.Add(m, big.NewInt(1))
	case "inside":
		d := new(big.Int).Rand(r.Rng, c14fOne)
		K.Add(K, d)
		m := new(big.Int).Quo(K, v)
		return m.Add(m, big.NewInt(1))
	case "just-below-next":
		K.Add(K, c14fOne)
		K.Sub(K, big.NewInt(1))
		return new(big.Int).Quo(K, v)
	default:
		K.Add(K, c14fOne)
		return new(big.Int).Quo(K, v)
	}
}

// multiplicands: a handful of gas up to the whole uint64 range
func c14fValue(r *Rec) uint64 {
	switch x := r.Rng.Intn(16); {
	case x < 4:
		return uint64(1 + r.Rng.Intn(9))
	case x < 6:
		return []uint64{2, 4, 8, 16, 1024, 1 << 20, 1 << 32, 1 << 40, 1 << 62, 1 << 63}[r.Rng.Intn(10)]
	case x < 8:
		return []uint64{21000, 21001, 50000, 300000, 1000000}[r.Rng.Intn(5)]
	case x < 10:
		return uint64(1 + r.Rng.Intn(1000000))
	case x < 12:
		return 1 + r.Rng.Uint64()%999999999999999999 // below 10^18: every window is reachable
	case x < 13:
		return 1<<64 - 1 - uint64(r.Rng.Intn(3))
	case x < 14:
		return 1<<32 - 1 + uint64(r.Rng.Intn(3))
	default:
		if v := r.Rng.Uint64() >> uint(r.Rng.Intn(64)); v > 0 {
			return v
		}
		return 1
	}
}

// c14fSettings: the multiplicators in force when an estimate was elected
type c14fSettings struct {
	mult, comm, sec *big.Int // scaled
	known           bool
}

type c14fCase struct {
	*q06Case
	env     q06Env
	at      map[uint64]c14fSettings // message id -> settings at its election
	offered int
	refused int
}

func c14fScaled(s string) *big.Int {
	d, err := sdkmath.LegacyNewDecFromStr(s)
	if err != nil {
		return nil
	}
	return d.BigInt()
}

// current settings for an assignee, read from what the keepers hold (c.obs)
func (c *c14fCase) settingsOf(assignee int) c14fSettings {
	m, ok := c.obs.fees[assignee]
	if !ok || m.IsNil() {
		return c14fSettings{}
	}
	cm, sc := c14fScaled(c.obs.comm), c14fScaled(c.obs.sec)
	if cm == nil || sc == nil {
		return c14fSettings{}
	}
	return c14fSettings{mult: m.BigInt(), comm: cm, sec: sc, known: true}
}

// setEnv writes the environment into the keepers and tells the model.
func (c *c14fCase) setEnv() {
	if err := c.fx.writeEnv(c.ctx, c.env); err != nil {
		c.fx.t.Fatal(err)
	}
	c.obs = c.fx.emitEnv(c.ctx, c.r)
	var fl []string
	for id, m := range c.env.fees {
		fl = append(fl, fmt.Sprintf("%d:%s", id, m))
	}
	sort.Strings(fl)
	c.log = append(c.log, fmt.Sprintf("(environment) fees %s community %s security %s", q06Join(fl, ","), c.env.community, c.env.security))
}

// upsertFee: the validator changes its own multiplicator through the real MsgUpsertRelayerFee handler.
func (c *c14fCase) upsertFee(valIdx int, mult string) {
	v := c.fx.fa.Vals[valIdx]
	msg := &treasurytypes.MsgUpsertRelayerFee{Metadata: FAMeta(v.Addr, v.Addr), FeeSetting: &treasurytypes.RelayerFeeSetting{
		ValAddress: v.ValAddr().String(),
		Fees:       []treasurytypes.RelayerFeeSetting_FeeSetting{{Multiplicator: sdkmath.LegacyMustNewDecFromStr(mult), ChainReferenceId: q06Chain}}}}
	if err := msg.ValidateBasic(); err != nil {
		c.r.Stat("upsert.refused_by_validate_basic")
		return
	}
	if err := c.route(msg); err != nil {
		c.r.Stat("upsert.refused_by_handler")
		return
	}
	c.r.Stat("upsert.ok")
	c.env.fees[c.fx.valID[valIdx]] = mult
	c.obs = c.fx.emitEnv(c.ctx, c.r)
	c.log = append(c.log, fmt.Sprintf("(environment) validator %d upserts multiplicator %s", c.fx.valID[valIdx], mult))
}

// endBlock runs the end-block step (with the monitors of queue_test.go) and remembers, for every message
// whose estimate was elected by it, the settings in force.
func (c *c14fCase) endBlock() {
	before := map[uint64]uint64{}
	for _, m := range c.msgs() {
		before[m.GetId()] = m.GetGasEstimate()
	}
	c.opEndBlock()
	c.track()
	for _, m := range c.msgs() {
		if before[m.GetId()] == 0 && m.GetGasEstimate() != 0 {
			c.at[m.GetId()] = c.settingsOf(c.fx.idOfValStr(c.evm(m).Assignee))
		}
		em := c.evm(m)
		if k := q06Kind(em); (k == "s" || k == "u") && m.GetRequireGasEstimation() {
			if (m.GetGasEstimate() != 0) != (q06FeesOf(em) != nil) {
				c.hit("elected_iff_fees", fmt.Sprintf("msg %d: elected estimate %d, fees attached: %v", m.GetId(), m.GetGasEstimate(), q06FeesOf(em) != nil))
			}
		}
	}
}

// relay: the relay sets of queue_test.go, then what every offered message CARRIES, for every validator.
func (c *c14fCase) relay() {
	c.opRelay()
	var order []int
	for i := 0; i < c.fx.n; i++ {
		order = append(order, c.fx.valID[i])
	}
	sort.Ints(order)
	for _, vid := range order {
		got, err := c.fx.fa.App().ConsensusKeeper.GetMessagesForRelaying(c.ctx, c.fx.queue, c.fx.valAddrOfID(vid))
		if err != nil {
			c.fx.t.Fatal(err)
		}
		var out []string
		for _, m := range got {
			em := c.evm(m)
			f := q06FeesOf(em)
			fees := "-"
			if f != nil {
				fees = fmt.Sprintf("%d.%d.%d", f.RelayerFee, f.CommunityFee, f.SecurityFee)
			}
			out = append(out, fmt.Sprintf("%d/%d/%s", m.GetId(), m.GetGasEstimate(), fees))
			k := q06Kind(em)
			if (k != "s" && k != "u") || !m.GetRequireGasEstimation() {
				continue
			}
			c.offered++
			c.r.Stat("offered.fee_payer")
			g := m.GetGasEstimate()
			if g == 0 || f == nil {
				c.hit("offered_carries_ceil_fees", fmt.Sprintf("msg %d offered to %d with elected estimate %d and fees %s", m.GetId(), vid, g, fees))
				continue
			}
			if f.RelayerFee == 0 || f.CommunityFee == 0 || f.SecurityFee == 0 {
				c.hit("offered_fee_never_zero", fmt.Sprintf("msg %d offered to %d with fees %s (elected estimate %d)", m.GetId(), vid, fees, g))
			}
			st, ok := c.at[m.GetId()]
			if !ok || !st.known {
				c.hit("offered_carries_ceil_fees", fmt.Sprintf("msg %d offered to %d with fees %s, but no end-block elected its estimate under a fee record of its assignee", m.GetId(), vid, fees))
				continue
			}
			rf := c14fCeil(st.mult, bu(g))
			cf := c14fCeil(st.comm, rf)
			sf := c14fCeil(st.sec, rf)
			if rf.Cmp(bu(f.RelayerFee)) != 0 || cf.Cmp(bu(f.CommunityFee)) != 0 || sf.Cmp(bu(f.SecurityFee)) != 0 {
				c.hit("offered_carries_ceil_fees", fmt.Sprintf("msg %d offered to %d with fees %s; ceil(%s * %d) = %s, ceil(%s * that) = %s, ceil(%s * that) = %s",
					m.GetId(), vid, fees, c14fDec(st.mult), g, rf, c14fDec(st.comm), cf, c14fDec(st.sec), sf))
			}
			if rf.Cmp(new(big.Int).Sub(c14fU64, big.NewInt(1))) == 0 {
				c.r.Stat("offered.with_largest_relayer_fee")
			}
		}
		c.op(fmt.Sprintf("relayf %d", vid), q06Join(out, ","))
	}
}

// electors submit estimates whose median is g: everybody g, or an odd number of validators around g.
func (c *c14fCase) estimate(id uint64, g uint64) {
	r := c.r.Rng
	if g > 1 && g < 1<<64-1 && r.Intn(3) == 0 {
		vals := []uint64{g - 1, g, g, g, g + 1}
		if r.Intn(2) == 0 {
			vals = []uint64{1, g, g, g, 1<<64 - 1}
		}
		for j, i := range r.Perm(c.fx.n)[:5] {
			c.opEst(id, i, vals[j])
		}
		return
	}
	for i := 0; i < c.fx.n; i++ {
		c.opEst(id, i, g)
	}
}

// one target: a message of `assignee` for which the product of `stage` is placed next to a threshold
type c14fTarget struct {
	valIdx      int
	gas         uint64
	mult        string // relayer multiplicator
	stage       string
	class       string
	payableWith string // a multiplicator under which the same estimate is payable ("" = none tried)
}

func (c *c14fCase) describe(t c14fTarget) string {
	return fmt.Sprintf("stage=%s class=%s validator=%d multiplicator=%s gas=%d community=%s security=%s", t.stage, t.class, c.fx.valID[t.valIdx], t.mult, t.gas, c.env.community, c.env.security)
}

// c14fPlan draws the environment of a case: per validator either an ordinary multiplicator or a boundary
// one; with some probability the boundary is put on the community or the security product instead.
func c14fPlan(r *Rec, fx *q06Fix) (q06Env, []c14fTarget) {
	env := q06PlainEnv(fx)
	for i := 0; i < fx.n; i++ {
		env.fees[fx.valID[i]] = r.q06Pick(q06Mults[:6])
	}
	switch r.Rng.Intn(6) {
	case 0:
		env.community, env.security = "0.3", "1.5"
	case 1:
		env.community, env.security = "1", "0.999999999999999999"
	case 2:
		env.community, env.security = "0.000000000000000001", "1.000000000000000001"
	}
	var ts []c14fTarget
	stage := []string{"relayer", "relayer", "relayer", "community", "security", "both-rates"}[r.Rng.Intn(6)]
	nT := 1 + r.Rng.Intn(2)
	if stage != "relayer" {
		nT = 1 // the rates are global: one boundary per case
	}
	for _, i := range r.Rng.Perm(fx.n)[:nT] {
		t := c14fTarget{valIdx: i, stage: stage, class: c14fClasses[r.Rng.Intn(len(c14fClasses))]}
		T := c14fThreshold(r)
		switch stage {
		case "relayer":
			t.gas = c14fValue(r)
			m := c14fMultNear(r, T, bu(t.gas), t.class)
			if m.Sign() == 0 {
				m = big.NewInt(1)
			}
			t.mult = c14fDec(m)
			// the closest multiplicator under which the largest uint64 fee results (or less)
			t.payableWith = c14fDec(c14fMultNear(r, new(big.Int).Sub(c14fU64, big.NewInt(1)), bu(t.gas), "at-or-just-below"))
			if c14fCeil(m, bu(t.gas)).Cmp(c14fU64) < 0 || c14fScaled(t.payableWith).Sign() == 0 {
				t.payableWith = ""
			}
		default:
			// a relayer fee first (any size), then the rate next to the threshold for THAT fee
			t.gas = c14fValue(r)
			mult := r.q06Pick([]string{"1", "1", "1.000000000000000001", "2.5", "0.5", "0.000000000000000001", "1000000"})
			rf := c14fCeil(c14fScaled(mult), bu(t.gas))
			if rf.Cmp(c14fU64) >= 0 || rf.Sign() == 0 {
				mult, rf = "1", bu(t.gas)
			}
			t.mult = mult
			rate := c14fMultNear(r, T, rf, t.class)
			if rate.Sign() == 0 {
				rate = big.NewInt(1)
			}
			switch stage {
			case "community":
				env.community = c14fDec(rate)
			case "security":
				env.security = c14fDec(rate)
			default:
				env.community = c14fDec(rate)
				env.security = c14fDec(c14fMultNear(r, c14fThreshold(r), rf, c14fClasses[r.Rng.Intn(len(c14fClasses))]))
				if c14fScaled(env.security).Sign() == 0 {
					env.security = "0.000000000000000001"
				}
			}
		}
		env.fees[fx.valID[i]] = t.mult
		ts = append(ts, t)
	}
	return env, ts
}

// c14fRun: the history of one case around its targets.
func (c *c14fCase) run(ts []c14fTarget) {
	r := c.r.Rng
	c.setEnv()
	c.syncRegs()
	type queued struct {
		id uint64
		t  *c14fTarget
	}
	var qs []queued
	// an ordinary companion message of another validator and another sender shares the end-block
	companion := func() {
		j := r.Intn(c.fx.n)
		id := c.opPut([]string{"s", "u", "o"}[r.Intn(3)], 0, c.fx.valID[j], 4*(j+1), true)
		c.track()
		qs = append(qs, queued{id, nil})
	}
	if r.Intn(2) == 0 {
		companion()
	}
	for k := range ts {
		t := &ts[k]
		// distinct non-empty senders (at most one pending message per sender is offered) or the empty one
		sender := 0
		if k < len(c.fx.senders)-1 && r.Intn(3) != 0 {
			sender = k + 1
		}
		id := c.opPut([]string{"s", "s", "u"}[r.Intn(3)], sender, c.fx.valID[t.valIdx], 4*(t.valIdx+1), true)
		c.track()
		qs = append(qs, queued{id, t})
		c.r.Stat("target." + t.stage + "." + t.class)
	}
	if r.Intn(2) == 0 {
		companion()
	}
	for _, q := range qs {
		g := uint64(21000 + r.Intn(3))
		if q.t != nil {
			g = q.t.gas
		}
		c.estimate(q.id, g)
		c.track()
	}
	if r.Intn(3) == 0 {
		c.relay() // before the end-block: nothing that needs an estimate is offered
	}
	c.endBlock()
	c.relay()
	for _, q := range qs {
		if q.t == nil {
			continue
		}
		m := c.msg(q.id)
		if m != nil && m.GetGasEstimate() == 0 {
			c.refused++
			c.r.Stat("refused." + q.t.stage)
		} else {
			c.r.Stat("attached." + q.t.stage)
		}
	}
	// the relayer reacts to a refusal (or simply changes its mind): the multiplicator on record changes —
	// never the fees of a message whose estimate is elected already
	for _, q := range qs {
		if q.t == nil || q.t.stage != "relayer" || r.Intn(3) == 0 {
			continue
		}
		nm := q.t.payableWith
		if nm == "" || r.Intn(4) == 0 {
			nm = c.r.q06Pick([]string{"1.1", "3.75", "0.000000000000000001", "18446744073709551616", q.t.mult})
		}
		c.upsertFee(q.t.valIdx, nm)
	}
	c.endBlock()
	c.relay()
	if r.Intn(2) == 0 {
		c.endBlock() // once more: nothing changes
		c.relay()
	}
}

func c14fRunCase(t *testing.T, r *Rec, fx *q06Fix, i int, env q06Env, ts []c14fTarget, name string) {
	fx.hookCase(func(ctx sdk.Context) {
		qc := fx.begin(ctx, r)
		c := &c14fCase{q06Case: qc, env: env, at: map[uint64]c14fSettings{}}
		for _, t := range ts {
			c.log = append(c.log, "(target) "+c.describe(t))
		}
		c.run(ts)
		r.Case(fmt.Sprintf("%s|%d|%d", name, i, len(c.log)), c.offered+c.refused > 0)
	})
}

// c14fDirected: the boundaries themselves, independent of the seed.
func c14fDirected(t *testing.T, r *Rec, fx *q06Fix) {
	max := new(big.Int).Sub(c14fU64, big.NewInt(1))
	k := 0
	for _, g := range []uint64{1, 2, 3, 7, 10, 21000, 1 << 32, 999999999999999999} {
		for _, class := range c14fClasses {
			for _, stage := range []string{"relayer", "community", "security"} {
				k++
				env := q06PlainEnv(fx)
				tg := c14fTarget{valIdx: k % fx.n, gas: g, stage: stage, class: class}
				if stage == "relayer" {
					tg.mult = c14fDec(c14fMultNear(r, max, bu(g), class))
					tg.payableWith = c14fDec(c14fMultNear(r, max, bu(g), "at-or-just-below"))
				} else {
					tg.mult = "1"
					rate := c14fDec(c14fMultNear(r, max, bu(g), class))
					if stage == "community" {
						env.community = rate
					} else {
						env.security = rate
					}
				}
				env.fees[fx.valID[tg.valIdx]] = tg.mult
				c14fRunCase(t, r, fx, k, env, []c14fTarget{tg}, "directed-"+stage+"-"+class)
				r.Stat("directed." + stage)
			}
		}
	}
}

// TestC14Fees records under the directory C14F and speaks to the C14 slot of the Lean driver.
func TestC14Fees(t *testing.T) {
	r := NewRec(t, "C14F")
	r.prefix = "C14"
	defer r.Close()
	fx := q06NewFix(t, 6)
	c14fDirected(t, r, fx)
	for i := 0; i < r.N; i++ {
		env, ts := c14fPlan(r, fx)
		c14fRunCase(t, r, fx, i, env, ts, "boundary")
	}
}
