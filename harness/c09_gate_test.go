//go:build verif

package harness

// C09, version gate: "the only deliberate stop is the version gate that halts a node running software older than
// the upgrade governance has completed".  The real `CheckChainVersion` (x/paloma/keeper) is driven on generated
// pairs (software version, name of the last completed upgrade) through a keeper value with a stub upgrade keeper;
// the same lines go to the Lean model (Model/VersionGate.lean, `C09G gate …`).  Monitors state the clause itself in
// terms of golang.org/x/mod/semver's order: the gate panics only when the software is outside the completed
// upgrade's major.minor line or OLDER than it; software that is the completed version or newer on that line runs.

import (
	"context"
	"encoding/hex"
	"fmt"
	"strings"
	"testing"

	sdk "github.com/cosmos/cosmos-sdk/types"
	palomakeeper "github.com/palomachain/paloma/v2/x/paloma/keeper"
	"golang.org/x/mod/semver"
)

type c09Upgrade struct {
	name   string
	height int64
}

func (u c09Upgrade) GetLastCompletedUpgrade(context.Context) (string, int64, error) {
	return u.name, u.height, nil
}

func c09GateHalts(app, gov string, height int64) (halted bool) {
	defer func() {
		if r := recover(); r != nil {
			halted = true
		}
	}()
	k := palomakeeper.Keeper{Upgrade: c09Upgrade{gov, height}, AppVersion: app}
	k.CheckChainVersion(sdk.Context{})
	return false
}

func TestC09Gate(t *testing.T) {
	r := NewRec(t, "C09G")
	defer r.Close()
	nums := []string{"0", "1", "2", "3", "4", "9", "10", "11", "12", "20", "99", "100", "101"}
	pres := []string{"", "", "", "-rc1", "-rc.2", "-rc.10", "-alpha", "-0", "-1.x", "-beta.11"}
	builds := []string{"", "", "", "+meta", "+build.5"}
	malformed := []string{"", "v", "2.4", "v2", "v2.4", "v2.4.x", "v02.4.1", "v2.4.01", "v2.4.1-", "v2.4.1-rc..1", "2", "latest", "v2.4.1.7", "V2.4.1", "v2.4.1 ", "v-2.4.1"}
	pick := func(l []string) string { return l[r.Rng.Intn(len(l))] }
	version := func() string {
		if r.Rng.Intn(9) == 0 {
			r.Stat("gate.malformed")
			return pick(malformed)
		}
		return "v" + pick(nums) + "." + pick(nums) + "." + pick(nums) + pick(pres) + pick(builds)
	}
	for c := 0; c < r.N; c++ {
		app := version()
		gov := version()
		switch r.Rng.Intn(5) {
		case 0:
			// same major.minor line, different patch / pre-release
			if p := strings.SplitN(strings.TrimPrefix(app, "v"), ".", 3); len(p) == 3 {
				gov = "v" + p[0] + "." + p[1] + "." + pick(nums) + pick(pres)
				r.Stat("gate.same_line")
			}
		case 1:
			gov = app
			r.Stat("gate.same_version")
		}
		if r.Rng.Intn(3) == 0 {
			gov = strings.TrimPrefix(gov, "v") // upgrade names are often written without the v
		}
		height := int64(1 + r.Rng.Intn(1000))
		if r.Rng.Intn(12) == 0 {
			height = 0
		}
		halted := c09GateHalts(app, gov, height)
		out := "run"
		if halted {
			out = "halt"
			r.Stat("gate.halt")
		} else {
			r.Stat("gate.run")
		}
		line := fmt.Sprintf("gate x%s x%s %d", hex.EncodeToString([]byte(app)), hex.EncodeToString([]byte(gov)), height)
		r.Op(line, out)
		// the clause, in the terms of the semver order
		g := gov
		if g != "" && !strings.HasPrefix(g, "v") {
			g = "v" + g
		}
		upgraded := gov != "" && height != 0
		sameLine := semver.Compare(semver.MajorMinor(app), semver.MajorMinor(g)) == 0
		older := semver.Compare(app, g) < 0
		in := map[string]interface{}{"software": app, "completed_upgrade": gov, "upgrade_height": height}
		if halted && !(upgraded && (!sameLine || older)) {
			r.Hit("gate_halts_only_older", fmt.Sprintf("software %q was halted although the completed upgrade %q (height %d) is not newer and is on the same major.minor line", app, gov, height), in)
		}
		if !halted && upgraded && sameLine && older {
			r.Hit("gate_halts_older", fmt.Sprintf("software %q keeps running although upgrade %q has completed at height %d", app, gov, height), in)
		}
		r.Case(line, upgraded)
	}
}
