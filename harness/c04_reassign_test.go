//go:build verif

// C04 "once elected never changes" at the level of the consensus queue: histories in which estimates keep arriving
// after the election, the snapshot and the fee table move, stale messages are handed to another relayer
// (Keeper.ReassignOrphanedMessages) and failed logic calls are retried, with the end blocker running in between.
// The histories and monitors are those of c14_reassign_test.go (monitor `elected_never_changes`); the ops are replayed
// on the queue model (line-protocol prefix C14: `est`, `endblock`, `reassign`, `attest`, ...).
package harness

import "testing"

func TestC04Reassign(t *testing.T) {
	r := NewRec(t, "C04R")
	r.prefix = "C14"
	defer r.Close()
	fx := q06NewFix(t, 6)
	c14rCases(t, r, fx, "C04")
}
