//go:build verif

package harness

// Genesis round trip of ONE module inside a running chain: export the module's genesis from the current state, wipe
// the module's persistent store, initialise it again from the export — all in an end-of-block hook, so the next block
// continues on the re-imported state.  A module whose export or import forgets (or invents) something that a property
// speaks about behaves differently afterwards; `ReimportModule` also returns the store-level difference.

import (
	"bytes"
	"encoding/hex"
	"encoding/json"
	"fmt"
	"sort"

	"github.com/cosmos/cosmos-sdk/types/module"

	sdk "github.com/cosmos/cosmos-sdk/types"
)

type FAStoreDiff struct {
	Lost, Added, Changed []string // hex keys
}

func (d FAStoreDiff) Empty() bool { return len(d.Lost)+len(d.Added)+len(d.Changed) == 0 }

func (d FAStoreDiff) String() string {
	short := func(l []string) []string {
		if len(l) > 6 {
			return append(append([]string{}, l[:6]...), fmt.Sprintf("…(%d)", len(l)))
		}
		return l
	}
	return fmt.Sprintf("lost=%v added=%v changed=%v", short(d.Lost), short(d.Added), short(d.Changed))
}

// ReimportModule exports module `name`, wipes KV store `storeKey` and re-initialises the module from the export.
func (fa *FullApp) ReimportModule(name, storeKey string) (diff FAStoreDiff, exported json.RawMessage, err error) {
	before := fa.DumpStore(storeKey)
	_, herr := fa.WithEndBlockCtx(func(ctx sdk.Context) error {
		m, ok := fa.app.ModuleManager.Modules[name]
		if !ok {
			return fmt.Errorf("no module %s", name)
		}
		hg, ok := m.(module.HasGenesis)
		if !ok {
			if hg2, ok2 := m.(module.HasABCIGenesis); ok2 {
				exported = hg2.ExportGenesis(ctx, fa.app.AppCodec())
				fa.wipeStore(ctx, storeKey)
				hg2.InitGenesis(ctx, fa.app.AppCodec(), exported)
				return nil
			}
			return fmt.Errorf("module %s has no genesis", name)
		}
		exported = hg.ExportGenesis(ctx, fa.app.AppCodec())
		fa.wipeStore(ctx, storeKey)
		hg.InitGenesis(ctx, fa.app.AppCodec(), exported)
		return nil
	})
	if herr != nil {
		return diff, exported, herr
	}
	after := fa.DumpStore(storeKey)
	bm := map[string][]byte{}
	for _, kv := range before {
		bm[string(kv[0])] = kv[1]
	}
	am := map[string][]byte{}
	for _, kv := range after {
		am[string(kv[0])] = kv[1]
	}
	for k, v := range bm {
		if w, ok := am[k]; !ok {
			diff.Lost = append(diff.Lost, hex.EncodeToString([]byte(k)))
		} else if !bytes.Equal(v, w) {
			diff.Changed = append(diff.Changed, hex.EncodeToString([]byte(k)))
		}
	}
	for k := range am {
		if _, ok := bm[k]; !ok {
			diff.Added = append(diff.Added, hex.EncodeToString([]byte(k)))
		}
	}
	sort.Strings(diff.Lost)
	sort.Strings(diff.Added)
	sort.Strings(diff.Changed)
	return diff, exported, nil
}

// ReimportModuleCtx is the same round trip on a context the caller holds (no block of its own).
func (fa *FullApp) ReimportModuleCtx(ctx sdk.Context, name, storeKey string) (err error) {
	defer func() {
		if r := recover(); r != nil {
			err = fmt.Errorf("genesis round trip of %s panicked: %v", name, r)
		}
	}()
	m, ok := fa.app.ModuleManager.Modules[name]
	if !ok {
		return fmt.Errorf("no module %s", name)
	}
	if hg, ok := m.(module.HasGenesis); ok {
		exported := hg.ExportGenesis(ctx, fa.app.AppCodec())
		fa.wipeStore(ctx, storeKey)
		hg.InitGenesis(ctx, fa.app.AppCodec(), exported)
		return nil
	}
	if hg, ok := m.(module.HasABCIGenesis); ok {
		exported := hg.ExportGenesis(ctx, fa.app.AppCodec())
		fa.wipeStore(ctx, storeKey)
		hg.InitGenesis(ctx, fa.app.AppCodec(), exported)
		return nil
	}
	return fmt.Errorf("module %s has no genesis", name)
}

func (fa *FullApp) wipeStore(ctx sdk.Context, storeKey string) {
	k := fa.kvKeys()[storeKey]
	st := ctx.KVStore(k)
	it := st.Iterator(nil, nil)
	var keys [][]byte
	for ; it.Valid(); it.Next() {
		keys = append(keys, append([]byte(nil), it.Key()...))
	}
	it.Close()
	for _, key := range keys {
		st.Delete(key)
	}
}
