//go:build verif

package harness

// C09, stale references ("values that cannot be processed are rejected when submitted or skipped with the rest of the
// block unaffected").  A message waiting in a consensus queue refers to keeper records by id - a compass upload and the
// ownership handover that follows it to the deployment record of that compass, a user-contract upload to the author's
// contract record.  Those records can be deleted by ORDINARY transactions while the message is in flight
// (MsgRemoveSmartContractDeployment checks no authority; an author may remove his own contract), and the relayer may
// deliver the message all the same.  When the validators' evidence then reaches its quorum, the attestation handler
// runs, inside the consensus module's EndBlock (no recover), on a message whose record is gone.
//
// Histories, all through whole blocks of the full application (the evidence is stored in a block's deliver state and
// the block's OWN end blocker attests): for each kind of message x {record untouched; record deleted by a transaction in
// an EARLIER block (the evm end blocker, which re-issues the deployment of the latest compass in every block, has then
// created a fresh in-flight record under the same id); record deleted by a transaction in the SAME block in which the
// evidence reaches its quorum (the attestation finds no record at all)}; a bystander (a logic call with unanimous well-formed evidence, queued behind the
// message under test) is attested in the same end blocker.  Monitors: block_never_aborts (FinalizeBlock/Commit failed),
// rest_of_block_unaffected (the bystander was not attested).  For the handover the outcome is compared with the model
// (`activate`, theorems vanished_record_is_an_error_value / vanished_records_are_skipped): op `attestch <state of the
// deployment record>` -> activated | skipped.

import (
	"fmt"
	"testing"

	sdk "github.com/cosmos/cosmos-sdk/types"
	evmtypes "github.com/palomachain/paloma/v2/x/evm/types"
)

func c09StaleRecordScenarios(t *testing.T, r *Rec) {
	e := newC07EnvOpt(t, r, 800+r.Seed%100, true)
	fa := e.fa
	all := []int{0, 1, 2, 3}
	user := fa.User(0)
	var hist []string
	note := func(format string, a ...interface{}) { hist = append(hist, fmt.Sprintf(format, a...)) }
	// hook runs fn in the deliver state of the next block (before its BeginBlock), then the transactions txs are
	// delivered in that block and the block's own end blockers run.
	// ok = false: the block did not commit (reported); a set-up failure (fn fails, a transaction is refused) fails the test.
	hook := func(what string, fn func(ctx sdk.Context) error, txs ...FATx) bool {
		fa.preHooks = append(fa.preHooks, fn)
		b := fa.DeliverTxs(txs...)
		if !b.OK() {
			r.Op(fmt.Sprintf("block %d %d", b.Height, len(txs)), "aborted")
			r.Hit("block_never_aborts", fmt.Sprintf("block %d aborted (%s): %v %s", b.Height, what, b.Err, firstLines(b.Panic, 8)),
				map[string]interface{}{"history": append([]string{}, hist...), "seed": r.Seed})
			fa.Restart()
			return false
		}
		if len(b.HookErrs) > 0 {
			t.Fatalf("c09 stale: %s: %v\n%v", what, b.HookErrs[0], hist)
		}
		for _, x := range b.Txs {
			if !x.OK() {
				t.Fatalf("c09 stale: %s: transaction refused: %s\n%v", what, zooResStr(x), hist)
			}
		}
		r.Op(fmt.Sprintf("block %d %d", b.Height, len(txs)), "ok")
		return true
	}
	nop := func(sdk.Context) error { return nil }
	// halfway: the message is estimated (uploads carry no estimate), signed by everybody and has its public access data
	halfway := func(ctx sdk.Context, id uint64, kind string) error {
		if kind != "up" {
			if err := e.electEstimate(ctx, id, 100_000); err != nil {
				return fmt.Errorf("estimate: %w", err)
			}
		}
		if err := e.sign(ctx, id, all); err != nil {
			return fmt.Errorf("sign: %w", err)
		}
		return e.publicAccess(ctx, id, e.observe(ctx).cur)
	}
	// report: every validator reports the exact transaction with a success receipt
	report := func(ctx sdk.Context, id uint64, f *c07Force) error {
		s := e.register(ctx, id)
		tx := e.buildTx(s, f)
		if !tx.exact {
			return fmt.Errorf("could not build the exact transaction of message %d (%s)", id, tx.what)
		}
		return e.addEvidence(ctx, id, tx.evs(all))
	}
	inQueue := func(id uint64) bool { return e.load(fa.CtxCached(), id) != nil }
	// bystander: a logic call, queued now (so behind the message under test), fully reported in this block
	bystander := func(ctx sdk.Context) (uint64, error) {
		id, err := e.newSLC(ctx)
		if err != nil {
			return 0, err
		}
		if err := halfway(ctx, id, "slc"); err != nil {
			return 0, err
		}
		return id, report(ctx, id, &c07Force{})
	}
	checkBystander := func(id uint64, what string) {
		if inQueue(id) {
			r.Hit("rest_of_block_unaffected", "a logic call with unanimous well-formed evidence was not attested in the end blocker that handled "+what,
				map[string]interface{}{"history": append([]string{}, hist...), "seed": r.Seed})
		} else {
			r.Stat("stale.bystander_attested")
		}
	}
	settle := func(what string) {
		for i := 0; i < 2; i++ {
			if !hook(what+", a later block", nop) {
				return
			}
		}
	}
	wipe := func(ctx sdk.Context) error {
		o := e.observe(ctx)
		for _, id := range o.queue {
			if err := fa.App().ConsensusKeeper.DeleteJob(ctx, e.queue, id); err != nil {
				return err
			}
		}
		for cid := range o.deps {
			fa.App().EvmKeeper.DeleteSmartContractDeploymentByContractID(ctx, cid, c07Chain)
		}
		return nil
	}
	sweep := func() {
		if !hook("clean-up", wipe) {
			t.Fatalf("c09 stale: clean-up block failed")
		}
		hist = nil
	}
	removeDeployment := func(cid uint64) FATx {
		note("height %d: MsgRemoveSmartContractDeployment for compass %d on %s, sent by an ordinary account", fa.Height()+1, cid, c07Chain)
		return FATx{Signers: []*FAAccount{user}, Msgs: []sdk.Msg{&evmtypes.MsgRemoveSmartContractDeploymentRequest{SmartContractID: cid, ChainReferenceID: c07Chain, Metadata: FAMeta(user.Addr, user.Addr)}}}
	}
	// the state of the deployment record of compass cid as the attestation of this block will find it
	recState := func(cid uint64, removedNow bool) string {
		if removedNow {
			return "none"
		}
		switch e.observe(fa.CtxCached()).deps[cid] {
		case "":
			return "none"
		case "i":
			return "inflight"
		case "w":
			return "waiting"
		}
		return "failed"
	}
	// upload: queue the upload of a new compass; returns the message id and the compass id
	upload := func(ctx sdk.Context) (uint64, uint64, error) {
		// (the evm end blocker re-issues the deployment of the latest compass in every block: start from a clean slate)
		if err := wipe(ctx); err != nil {
			return 0, 0, err
		}
		id, err := e.newUP(ctx, "regular")
		if err != nil {
			return 0, 0, err
		}
		if id == 0 {
			return 0, 0, fmt.Errorf("the keeper did not schedule an upload")
		}
		s := e.load(ctx, id)
		return id, s.msg.GetUploadSmartContract().GetId(), halfway(ctx, id, "up")
	}
	upForce := &c07Force{upCtor: "regular", upData: "exact"}

	// the chain has been running for a while: a valset update was relayed and attested, so a snapshot is on the chain
	// (from then on a new compass goes through the ownership handover)
	if !hook("a valset update is queued and reported", func(ctx sdk.Context) error {
		e.registerAll(ctx)
		id, err := e.newUV(ctx, true)
		if err != nil {
			return err
		}
		if err := halfway(ctx, id, "uv"); err != nil {
			return err
		}
		return report(ctx, id, &c07Force{existing: true})
	}) {
		return
	}
	if _, err := fa.App().ValsetKeeper.GetLatestSnapshotOnChain(fa.CtxCached(), c07Chain); err != nil {
		t.Fatalf("c09 stale: the attested valset update left no snapshot on the chain: %v", err)
	}

	for _, removed := range []string{"no", "earlier-block", "same-block"} {
		// ----- the handover of a compass whose upload was attested -----
		var upID, cid uint64
		ok := hook("a compass upload is queued and reported", func(ctx sdk.Context) (err error) {
			if upID, cid, err = upload(ctx); err != nil {
				return err
			}
			note("height %d: upload of compass %d queued as message %d, signed, reported by every validator", ctx.BlockHeight(), cid, upID)
			return report(ctx, upID, upForce)
		})
		if ok {
			o := e.observe(fa.CtxCached())
			var chID uint64
			for _, x := range o.queue {
				if s := e.load(fa.CtxCached(), x); s != nil && s.msg.GetCompassHandover() != nil && s.msg.GetCompassHandover().Id == cid {
					chID = x
				}
			}
			if chID == 0 || o.deps[cid] != "w" {
				t.Fatalf("c09 stale: the attested upload of compass %d did not schedule a handover (deployments %s)\n%v", cid, o.depsStr(), hist)
			}
			note("height %d: upload attested, deployment of compass %d waits for the ownership transfer, handover queued as message %d", fa.Height(), cid, chID)
			var txs []FATx
			switch removed {
			case "earlier-block":
				ok = hook("the deployment record is removed", nop, removeDeployment(cid))
			case "same-block":
				txs = append(txs, removeDeployment(cid))
			}
			if ok {
				rec := recState(cid, len(txs) > 0)
				var by uint64
				what := fmt.Sprintf("a handover whose deployment record is in state %q", rec)
				if hook(what, func(ctx sdk.Context) (err error) {
					if err = halfway(ctx, chID, "ch"); err != nil {
						return err
					}
					if err = report(ctx, chID, &c07Force{}); err != nil {
						return err
					}
					note("height %d: handover message %d relayed, every validator reports the transaction (success receipt)", ctx.BlockHeight(), chID)
					by, err = bystander(ctx)
					return err
				}, txs...) {
					out := "skipped"
					if e.observe(fa.CtxCached()).active == cid {
						out = "activated"
					}
					r.Op("attestch "+rec, out)
					r.Stat("stale.handover." + rec + "." + out)
					checkBystander(by, what)
					settle(what)
				} else {
					r.Op("attestch "+rec, "aborted")
				}
				r.Case(fmt.Sprintf("c09stale|ch|%s", rec), true)
			}
		}
		sweep()

		// ----- the upload itself: its deployment record goes away before the evidence arrives -----
		ok = hook("a compass upload is queued", func(ctx sdk.Context) (err error) {
			upID, cid, err = upload(ctx)
			note("height %d: upload of compass %d queued as message %d, signed", ctx.BlockHeight(), cid, upID)
			return err
		})
		if ok {
			var txs []FATx
			switch removed {
			case "earlier-block":
				ok = hook("the deployment record is removed", nop, removeDeployment(cid))
			case "same-block":
				txs = append(txs, removeDeployment(cid))
			}
			if ok {
				var by uint64
				what := fmt.Sprintf("a compass upload whose deployment record is in state %q", recState(cid, len(txs) > 0))
				if hook(what, func(ctx sdk.Context) (err error) {
					if err = report(ctx, upID, upForce); err != nil {
						return err
					}
					note("height %d: upload message %d relayed, every validator reports the transaction (success receipt)", ctx.BlockHeight(), upID)
					by, err = bystander(ctx)
					return err
				}, txs...) {
					r.Stat(fmt.Sprintf("stale.upload.removed=%s.still_queued=%v", removed, inQueue(upID)))
					checkBystander(by, what)
					settle(what)
				}
				r.Case(fmt.Sprintf("c09stale|up|%s", removed), true)
			}
		}
		sweep()

		// ----- a user contract: the author removes it while its deployment is in flight -----
		var uscID, ucid uint64
		author := -1
		ok = hook("a user-contract deployment is queued", func(ctx sdk.Context) (err error) {
			e.registerAll(ctx)
			if uscID, err = e.newUSC(ctx); err != nil {
				return err
			}
			ucid = e.load(ctx, uscID).msg.GetUploadUserSmartContract().GetId()
			for i := range fa.Vals {
				cs, err := fa.App().EvmKeeper.UserSmartContracts(ctx, fa.ValAddr(i).String())
				if err != nil {
					return err
				}
				for _, c := range cs {
					if c.Id == ucid {
						author = i
					}
				}
			}
			if author < 0 {
				return fmt.Errorf("author of user contract %d not found", ucid)
			}
			note("height %d: deployment of user contract %d (author: validator %d) queued as message %d, estimated, signed", ctx.BlockHeight(), ucid, author, uscID)
			return halfway(ctx, uscID, "usc")
		})
		if ok {
			a := fa.ValidatorOperator(author)
			rm := FATx{Signers: []*FAAccount{a}, Msgs: []sdk.Msg{&evmtypes.MsgRemoveUserSmartContractRequest{Id: ucid, Metadata: FAMeta(a.Addr, a.Addr)}}}
			var txs []FATx
			switch removed {
			case "earlier-block":
				note("height %d: MsgRemoveUserSmartContract for contract %d sent by its author", fa.Height()+1, ucid)
				ok = hook("the user contract is removed", nop, rm)
			case "same-block":
				note("height %d: MsgRemoveUserSmartContract for contract %d sent by its author", fa.Height()+1, ucid)
				txs = append(txs, rm)
			}
			if ok {
				var by uint64
				what := fmt.Sprintf("a user-contract deployment whose contract record was removed: %s", removed)
				if hook(what, func(ctx sdk.Context) (err error) {
					if err = report(ctx, uscID, &c07Force{}); err != nil {
						return err
					}
					note("height %d: deployment message %d relayed, every validator reports the transaction (success receipt)", ctx.BlockHeight(), uscID)
					by, err = bystander(ctx)
					return err
				}, txs...) {
					r.Stat(fmt.Sprintf("stale.usercontract.removed=%s.still_queued=%v", removed, inQueue(uscID)))
					checkBystander(by, what)
					settle(what)
				}
				r.Case(fmt.Sprintf("c09stale|usc|%s", removed), true)
			}
		}
		sweep()
	}
	r.Stat("scenario.stale_records")
}
