//go:build verif

package harness

// C11: free-form string fields of a claim (receiver, compass id, addresses) arrive with whatever length the remote side
// chose.  Two claims that differ in such a field only far from its beginning — beyond 32, 64, 128 … characters — are
// still different claims: their hashes must differ, and the hash must be the model's.  For every hashed string field of
// every claim type, a long value (lengths around the powers of two and a few odd ones) is changed at its last character,
// extended by one character, and changed in its middle; each variant is also sent to the model (`hash` op).  Uses no
// random choice: it runs after the generated claims and leaves their stream as it is.

import (
	"fmt"
	"reflect"
	"strings"
	"testing"

	sdkmath "cosmossdk.io/math"
	skytypes "github.com/palomachain/paloma/v2/x/skyway/types"
	valsettypes "github.com/palomachain/paloma/v2/x/valset/types"
)

func c11LongFields(t *testing.T, r *Rec, meta valsettypes.MsgMetadata) {
	fresh := map[string]func() c11Claim{
		"SendToPaloma": func() c11Claim {
			return &skytypes.MsgSendToPalomaClaim{EventNonce: 3, EthBlockHeight: 11, TokenContract: "0x1000000000000000000000000000000000000001", Amount: sdkmath.NewInt(5),
				EthereumSender: "0xbb", PalomaReceiver: "r", Orchestrator: "o", ChainReferenceId: "c", Metadata: meta, SkywayNonce: 4, CompassId: "k"}
		},
		"BatchSendToRemote": func() c11Claim {
			return &skytypes.MsgBatchSendToRemoteClaim{EventNonce: 3, EthBlockHeight: 11, BatchNonce: 2, TokenContract: "0x1000000000000000000000000000000000000001",
				ChainReferenceId: "c", Orchestrator: "o", Metadata: meta, SkywayNonce: 4, CompassId: "k"}
		},
		"LightNodeSale": func() c11Claim {
			return &skytypes.MsgLightNodeSaleClaim{Metadata: meta, EventNonce: 3, EthBlockHeight: 11, Orchestrator: "o", ChainReferenceId: "c", SkywayNonce: 4,
				ClientAddress: "a", Amount: sdkmath.NewInt(5), SmartContractAddress: "0xcc", CompassId: "k"}
		},
	}
	hashed := []struct{ typ, field string }{
		{"SendToPaloma", "TokenContract"}, {"SendToPaloma", "EthereumSender"}, {"SendToPaloma", "PalomaReceiver"}, {"SendToPaloma", "CompassId"},
		{"BatchSendToRemote", "TokenContract"}, {"BatchSendToRemote", "CompassId"},
		{"LightNodeSale", "ClientAddress"}, {"LightNodeSale", "SmartContractAddress"}, {"LightNodeSale", "CompassId"},
	}
	with := func(typ, field, v string) c11Claim {
		c := fresh[typ]()
		reflect.ValueOf(c).Elem().FieldByName(field).SetString(v)
		return c
	}
	for _, hf := range hashed {
		for _, n := range []int{20, 31, 32, 33, 42, 63, 64, 65, 100, 127, 128, 129, 255, 256, 257, 1000} {
			base := strings.Repeat("paloma1q", n/8+1)[:n]
			variants := [][2]string{
				{"last character", base[:n-1] + "Z"},
				{"one more", base + "Z"},
				{"middle", base[:n/2] + "Z" + base[n/2+1:]},
			}
			a := with(hf.typ, hf.field, base)
			line := c11Line(a)
			r.Op(line, c11Hash(t, a))
			r.Case(line, true)
			for _, hv := range variants {
				how, v := hv[0], hv[1]
				b := with(hf.typ, hf.field, v)
				r.Stat("long_field." + hf.typ)
				r.Op(c11Line(b), c11Hash(t, b))
				if c11Hash(t, a) == c11Hash(t, b) {
					r.Hit("field_influences_hash", fmt.Sprintf("%s claims whose %s (%d characters) differs in its %s have the same hash", hf.typ, hf.field, n, how),
						map[string]string{"a": line, "b": c11Line(b)})
				}
			}
		}
	}
}
