//go:build verif

package harness

// C09, dangling references ("no user- or validator-supplied value can halt block production ... values that cannot be
// processed are rejected when submitted or skipped with the rest of the block unaffected").
//
// A relayer / validator message names things BY ID - MsgSetPublicAccessData the valset the relayed transaction was built
// with, MsgSetPublicAccessData / MsgSetErrorData / MsgAddEvidence / MsgAddMessagesSignatures / MsgAddMessageGasEstimates
// the message and the queue they are about.  Nothing checks the valset id when it is submitted: it is stored with the
// queued message and looked up when the validators' evidence reaches its quorum, inside the consensus module's EndBlock
// (no recover on that path).  The class the generators were blind to: a reference that names NOTHING (an id above the
// snapshot counter, a pruned snapshot, 2^63, 2^64-1), or something else than the relayer used (0, an older snapshot).
//
// Part 1 (c09ValsetRefCases): for every kind of turnstone message that is attested against a remote transaction (logic
// call, valset update, user-contract deployment, compass upload and the ownership handover it schedules) x every class of
// valset reference (no public access data | 0 | the current snapshot | an older existing one | the NEXT id | a hole below
// the counter | far above | 2^63 | 2^64-1) x the transaction the validators report (built with the valset the reference
// resolves to for a relayer asking the chain | built with the current valset | call data that is no encoding of the
// message).  The public access data goes through a real MsgSetPublicAccessData transaction (accepted or refused: both are
// fine), the evidence of all validators is stored in the deliver state of the next block, whose OWN end blocker
// attests; a bystander logic call with unanimous well-formed evidence is queued behind.  The attestation callback the evm
// keeper registered is also run on a throw-away cache context (c07Env.verdict) to read the verdict, which is compared
// with the model (`Dangling.attestIntegrity`, theorems attest_integrity_never_panics / attest_integrity_spec):
// op `attestref <kind> <valset id|-> <existing snapshot ids> <valset id the transaction was built with|->`
// -> verified | notverified | aborted.
// Monitors: attestation_never_panics (the callback panicked), block_never_aborts (FinalizeBlock / Commit failed),
// rest_of_block_unaffected (the bystander was not attested).
//
// Part 2 (c09DanglingIDTraffic): blocks of real transactions of the five relayer message types whose message id names no
// message (0, the next id, an id attested and removed a block ago, 2^63, 2^64-1) or whose queue name names no queue (another
// chain, another message type, empty, junk), while a live message with part of its evidence is in the queue.

import (
	"fmt"
	"strings"
	"testing"

	sdk "github.com/cosmos/cosmos-sdk/types"
	consensustypes "github.com/palomachain/paloma/v2/x/consensus/types"
	evmtypes "github.com/palomachain/paloma/v2/x/evm/types"
)

type c09RefEnv struct {
	t    *testing.T
	r    *Rec
	e    *c07Env
	fa   *FullApp
	hist []string
	dead bool // a block aborted: the app was restarted, the current round is abandoned
}

func (x *c09RefEnv) note(format string, a ...interface{}) {
	x.hist = append(x.hist, fmt.Sprintf(format, a...))
}

func (x *c09RefEnv) input() map[string]interface{} {
	return map[string]interface{}{"history": append([]string{}, x.hist...), "seed": x.r.Seed}
}

// block runs fn in the deliver state of the next block (before its BeginBlock), delivers txs in that block and lets the
// block's own end blockers run.  A block that does not commit is the property violation; a failing fn is a set-up failure.
func (x *c09RefEnv) block(what string, fn func(ctx sdk.Context) error, txs ...FATx) (FABlockResult, bool) {
	if fn != nil {
		x.fa.preHooks = append(x.fa.preHooks, fn)
	}
	b := x.fa.DeliverTxs(txs...)
	if !b.OK() {
		x.r.Op(fmt.Sprintf("block %d %d", b.Height, len(txs)), "aborted")
		x.r.Hit("block_never_aborts", fmt.Sprintf("block %d aborted (%s): %v %s", b.Height, what, b.Err, firstLines(b.Panic, 10)), x.input())
		x.fa.Restart()
		x.dead = true
		return b, false
	}
	if len(b.HookErrs) > 0 {
		x.t.Fatalf("c09 dangling: %s: %v\n%v", what, b.HookErrs[0], x.hist)
	}
	x.r.Op(fmt.Sprintf("block %d %d", b.Height, len(txs)), "ok")
	return b, true
}

func (x *c09RefEnv) inQueue(id uint64) bool { return x.e.load(x.fa.CtxCached(), id) != nil }

// wipe: an empty queue and no pending compass deployment (the evm end blocker re-issues the deployment of the latest
// compass in every block)
func (x *c09RefEnv) wipe(ctx sdk.Context) error {
	o := x.e.observe(ctx)
	for _, id := range o.queue {
		if err := x.fa.App().ConsensusKeeper.DeleteJob(ctx, x.e.queue, id); err != nil {
			return err
		}
	}
	for cid := range o.deps {
		x.fa.App().EvmKeeper.DeleteSmartContractDeploymentByContractID(ctx, cid, c07Chain)
	}
	return nil
}

func (x *c09RefEnv) sweep() {
	if _, ok := x.block("clean-up", x.wipe); !ok {
		x.t.Fatalf("c09 dangling: clean-up block failed\n%v", x.hist)
	}
	x.dead = false
	x.hist = nil
}

// c09RefClasses: what the valset id of the public access data names
var c09RefClasses = []string{"none", "zero", "current", "older", "next", "hole", "far", "int63", "max"}

// refID: the valset id of class cls in the present state (ok = false: the state has no such id)
func (x *c09RefEnv) refID(ctx sdk.Context, cls string) (uint64, bool) {
	o := x.e.observe(ctx)
	exists := map[uint64]bool{}
	for _, s := range o.snaps {
		exists[s] = true
	}
	switch cls {
	case "zero":
		return 0, true
	case "current":
		return o.cur, true
	case "older":
		var older []uint64
		for _, s := range o.snaps {
			if s < o.cur {
				older = append(older, s)
			}
		}
		if len(older) == 0 {
			return 0, false
		}
		return older[x.r.Rng.Intn(len(older))], true
	case "next":
		return o.cur + 1, true
	case "hole":
		for id := uint64(1); id < o.cur; id++ {
			if !exists[id] {
				return id, true
			}
		}
		return 0, false
	case "far":
		return o.cur + 2 + uint64(x.r.Rng.Intn(1_000_000)), true
	case "int63":
		return 1 << 63, true
	case "max":
		return ^uint64(0), true
	}
	return 0, false
}

// padTx: the public access data as a validator's relayer submits it
func (x *c09RefEnv) padTx(val int, id, valsetID uint64) FATx {
	v := x.fa.ValidatorOperator(val)
	return FATx{Signers: []*FAAccount{v}, Msgs: []sdk.Msg{&consensustypes.MsgSetPublicAccessData{
		MessageID: id, QueueTypeName: x.e.queue, Data: []byte{0xab, 0xcd}, ValsetID: valsetID, Metadata: FAMeta(v.Addr, v.Addr),
	}}}
}

type c09RefMsg struct {
	kind  string
	cls   string
	id    uint64
	pad   string // what the op line says about the public access data
	built string
}

// prepare: estimate (uploads carry none) and everybody's signature
func (x *c09RefEnv) prepare(ctx sdk.Context, id uint64, kind string) error {
	if kind != "up" {
		if err := x.e.electEstimate(ctx, id, 100_000); err != nil {
			return fmt.Errorf("estimate: %w", err)
		}
	}
	return x.e.sign(ctx, id, []int{0, 1, 2, 3})
}

// reportAndJudge stores every validator's evidence for message m - the transaction of class txc with a success receipt -
// reads the verdict of the attestation callback on a throw-away context and emits the attestref op.
func (x *c09RefEnv) reportAndJudge(ctx sdk.Context, m *c09RefMsg, txc string) error {
	e := x.e
	s := e.load(ctx, m.id)
	if s == nil {
		return fmt.Errorf("message %d left the queue before it was reported", m.id)
	}
	m.pad = "-"
	if pad := s.q.GetPublicAccessData(); pad != nil {
		m.pad = fmt.Sprint(pad.GetValsetID())
	}
	f := &c07Force{existing: true}
	if m.kind == "up" {
		f = &c07Force{upCtor: "regular", upData: "exact"}
	}
	switch txc {
	case "cur":
		// the relayer used the current valset, whatever id it wrote into the public access data
		o := e.observe(ctx)
		resp, err := x.fa.App().EvmKeeper.GetValsetByID(ctx, &evmtypes.QueryGetValsetByIDRequest{ValsetID: o.cur, ChainReferenceID: c07Chain})
		if err != nil {
			return err
		}
		s.valset = resp.Valset
	case "junk":
		if m.kind == "up" {
			f.upData = c07UpDataModes[1]
		} else {
			f.junk = true
		}
	}
	tx := e.buildTx(s, f)
	m.built = fmt.Sprint(s.valset.GetValsetID())
	if txc == "junk" {
		m.built = "-"
		if tx.exact {
			return fmt.Errorf("the junk transaction for message %d is exact (%s)", m.id, tx.what)
		}
	} else if !tx.exact {
		return fmt.Errorf("could not build the exact transaction of message %d (%s)", m.id, tx.what)
	}
	if err := e.addEvidence(ctx, m.id, tx.evs([]int{0, 1, 2, 3})); err != nil {
		return err
	}
	x.note("height %d: every validator reports for message %d (%s, public access valset id %s) a transaction with a success receipt whose call data is %s",
		ctx.BlockHeight(), m.id, m.kind, m.pad, map[string]string{"sel": "the encoding with the valset the chain returns for that id (valset id " + m.built + ")",
			"cur": "the encoding with the current valset (id " + m.built + ")", "junk": "no encoding of the message"}[txc])
	o := e.observe(ctx)
	line := fmt.Sprintf("attestref %s %s %s %s", m.kind, m.pad, u64List(o.snaps), m.built)
	out := map[string]string{"nil": "verified", "notverified": "notverified", "panic": "aborted", "txfailed": "txfailed", "err": "error"}[e.verdict(ctx, m.id)]
	x.r.Op(line, out)
	x.r.Stat(fmt.Sprintf("dangling.%s.%s.%s.%s", m.kind, m.cls, txc, out))
	if out == "aborted" {
		// (the history of this message only; the block_never_aborts hit of the same block carries the whole one)
		var own []string
		for _, h := range x.hist {
			if strings.Contains(h, fmt.Sprintf(" message %d ", m.id)) {
				own = append(own, h)
			}
		}
		x.r.Hit("attestation_never_panics", fmt.Sprintf("the attestation callback of the turnstone queue (run by the consensus end blocker, which installs no recover) panicked on a %s message whose public access data names valset id %s (existing snapshots: %s)",
			m.kind, m.pad, u64List(o.snaps)), map[string]interface{}{"history": own, "op": line, "seed": x.r.Seed})
	}
	return nil
}

func (x *c09RefEnv) bystander(ctx sdk.Context) (uint64, error) {
	e := x.e
	id, err := e.newSLC(ctx)
	if err != nil {
		return 0, err
	}
	if err := x.prepare(ctx, id, "slc"); err != nil {
		return 0, err
	}
	if err := e.publicAccess(ctx, id, e.observe(ctx).cur); err != nil {
		return 0, err
	}
	tx := e.buildTx(e.load(ctx, id), &c07Force{})
	if !tx.exact {
		return 0, fmt.Errorf("bystander: %s", tx.what)
	}
	return id, e.addEvidence(ctx, id, tx.evs([]int{0, 1, 2, 3}))
}

// attestRound: the messages ms (already queued, prepared) get their public access data through real transactions in one
// block and their evidence in the next one.
func (x *c09RefEnv) attestRound(ms []*c09RefMsg, txc, what string) {
	var txs []FATx
	var sent []*c09RefMsg
	vi := 0
	for _, m := range ms {
		if m.cls == "none" {
			continue
		}
		vid, ok := x.refID(x.fa.CtxCached(), m.cls)
		if !ok {
			x.r.Stat("dangling.no_such_id." + m.cls)
			m.cls = "none"
			continue
		}
		if vi == len(x.fa.Vals) {
			// one transaction per signer and block
			if _, ok := x.block(what+": public access data", nil, txs...); !ok {
				return
			}
			txs, vi = nil, 0
		}
		x.note("height %d: MsgSetPublicAccessData for message %d (%s) sent by validator %d names valset id %d (%s)", x.fa.Height()+1, m.id, m.kind, vi, vid, m.cls)
		txs = append(txs, x.padTx(vi, m.id, vid))
		sent = append(sent, m)
		vi++
	}
	b, ok := x.block(what+": public access data", nil, txs...)
	if !ok {
		return
	}
	for i, res := range b.Txs {
		// "rejected when submitted" is as good as "skipped": both outcomes are recorded, neither is demanded
		x.r.Stat("dangling.pad_tx." + sent[len(sent)-len(b.Txs)+i].cls + "." + zooResStr(res))
	}
	var by uint64
	if _, ok := x.block(what+": evidence", func(ctx sdk.Context) (err error) {
		for _, m := range ms {
			if err = x.reportAndJudge(ctx, m, txc); err != nil {
				return err
			}
		}
		by, err = x.bystander(ctx)
		return err
	}); !ok {
		return
	}
	if x.inQueue(by) {
		x.r.Hit("rest_of_block_unaffected", "a logic call with unanimous well-formed evidence was not attested in the end blocker that handled "+what, x.input())
	} else {
		x.r.Stat("dangling.bystander_attested")
	}
	for _, m := range ms {
		x.r.Stat(fmt.Sprintf("dangling.after.%s.still_queued=%v", m.kind, x.inQueue(m.id)))
		x.r.Case(fmt.Sprintf("c09dangling|%s|%s|%s", m.kind, m.cls, txc), m.cls != "none" && m.cls != "current")
	}
	// a stored reference is looked at again by every later end blocker while the message is queued
	x.block(what+": a later block", nil)
}

func c09DanglingReferenceScenarios(t *testing.T, r *Rec) {
	e := newC07EnvOpt(t, r, 600+r.Seed%100, true)
	x := &c09RefEnv{t: t, r: r, e: e, fa: e.fa}
	fa := e.fa
	if b := fa.KeepAliveAll(); !b.OK() {
		t.Fatalf("c09 dangling: keep alive: %v %s", b.Err, b.Panic)
	}
	// the chain has been running for a while: a valset update was relayed and attested (from then on a new compass goes
	// through the ownership handover)
	if _, ok := x.block("a valset update is queued and reported", func(ctx sdk.Context) error {
		e.registerAll(ctx)
		id, err := e.newUV(ctx, true)
		if err != nil {
			return err
		}
		if err := x.prepare(ctx, id, "uv"); err != nil {
			return err
		}
		if err := e.publicAccess(ctx, id, e.observe(ctx).cur); err != nil {
			return err
		}
		tx := e.buildTx(e.register(ctx, id), &c07Force{existing: true})
		if !tx.exact {
			return fmt.Errorf("valset update: %s", tx.what)
		}
		return e.addEvidence(ctx, id, tx.evs([]int{0, 1, 2, 3}))
	}); !ok {
		return
	}
	if _, err := fa.App().ValsetKeeper.GetLatestSnapshotOnChain(fa.CtxCached(), c07Chain); err != nil {
		t.Fatalf("c09 dangling: the attested valset update left no snapshot on the chain: %v", err)
	}
	x.sweep()

	// ----- part 1a: logic calls, valset updates, user-contract deployments: one message per reference class -----
	txcs := []string{"sel", "cur", "junk"}
	for _, kind := range []string{"slc", "uv", "usc"} {
		for _, txc := range txcs {
			var ms []*c09RefMsg
			what := fmt.Sprintf("%s messages whose public access data names every class of valset id, reported transaction: %s", kind, txc)
			if _, ok := x.block(what+": queued", func(ctx sdk.Context) error {
				e.registerAll(ctx)
				for _, cls := range c09RefClasses {
					var id uint64
					var err error
					switch kind {
					case "slc":
						id, err = e.newSLC(ctx)
					case "uv":
						id, err = e.newUV(ctx, true)
					case "usc":
						id, err = e.newUSC(ctx)
					}
					if err != nil {
						return err
					}
					if err = x.prepare(ctx, id, kind); err != nil {
						return err
					}
					x.note("height %d: %s message %d queued, estimated, signed by every validator", ctx.BlockHeight(), kind, id)
					ms = append(ms, &c09RefMsg{kind: kind, cls: cls, id: id})
				}
				return nil
			}); ok {
				x.attestRound(ms, txc, what)
			}
			x.sweep()
		}
	}

	// ----- part 1b: a compass upload and the handover it schedules -----
	for ci, cls := range []string{"next", "far", "max", "older", "zero"} {
		txc := txcs[(ci+int(r.Seed))%2] // sel | cur
		var up *c09RefMsg
		var cid uint64
		what := fmt.Sprintf("a compass upload whose public access data names a valset id of class %s, reported transaction: %s", cls, txc)
		_, ok := x.block(what+": queued", func(ctx sdk.Context) error {
			if err := x.wipe(ctx); err != nil {
				return err
			}
			id, err := e.newUP(ctx, "regular")
			if err != nil {
				return err
			}
			if id == 0 {
				return fmt.Errorf("the keeper did not schedule an upload")
			}
			cid = e.load(ctx, id).msg.GetUploadSmartContract().GetId()
			x.note("height %d: upload of compass %d queued as message %d, signed", ctx.BlockHeight(), cid, id)
			up = &c09RefMsg{kind: "up", cls: cls, id: id}
			return x.prepare(ctx, id, "up")
		})
		if ok {
			x.attestRound([]*c09RefMsg{up}, "sel", what)
		}
		if ok && !x.dead {
			// the handover the attested upload scheduled
			var ch *c09RefMsg
			o := e.observe(fa.CtxCached())
			for _, q := range o.queue {
				if s := e.load(fa.CtxCached(), q); s != nil && s.msg.GetCompassHandover() != nil && s.msg.GetCompassHandover().Id == cid {
					ch = &c09RefMsg{kind: "ch", cls: cls, id: q}
				}
			}
			if ch == nil {
				r.Stat("dangling.no_handover_scheduled." + cls)
			} else {
				what = fmt.Sprintf("the handover of compass %d whose public access data names a valset id of class %s, reported transaction: %s", cid, cls, txc)
				if _, ok := x.block(what+": prepared", func(ctx sdk.Context) error {
					x.note("height %d: handover of compass %d queued as message %d, estimated, signed", ctx.BlockHeight(), cid, ch.id)
					return x.prepare(ctx, ch.id, "ch")
				}); ok {
					x.attestRound([]*c09RefMsg{ch}, txc, what)
				}
			}
		}
		x.sweep()
	}
	r.Stat("scenario.dangling_valset_refs")

	c09DanglingIDTraffic(x)
	r.Stat("scenario.dangling_ids")
}

// c09DanglingIDTraffic: relayer transactions whose message id / queue name name nothing.
func c09DanglingIDTraffic(x *c09RefEnv) {
	e, fa, r := x.e, x.fa, x.r
	rng := r.Rng
	var live, gone uint64
	// `gone` was attested and removed; `live` waits with half of its evidence
	if _, ok := x.block("a logic call is attested, another waits with the evidence of two validators", func(ctx sdk.Context) (err error) {
		if gone, err = x.bystander(ctx); err != nil {
			return err
		}
		if live, err = e.newSLC(ctx); err != nil {
			return err
		}
		if err = x.prepare(ctx, live, "slc"); err != nil {
			return err
		}
		tx := e.buildTx(e.load(ctx, live), &c07Force{})
		return e.addEvidence(ctx, live, tx.evs([]int{0, 1}))
	}); !ok {
		return
	}
	x.note("message %d was attested and removed, message %d is queued with evidence of two validators", gone, live)
	ids := []uint64{0, live, live + 1, gone, 1 << 63, ^uint64(0)}
	queues := []string{e.queue, e.queue, e.queue, e.queue, e.queue, e.queue, e.queue, e.queue,
		consensustypes.Queue(evmtypes.ConsensusTurnstoneMessage, "evm", "no-such-chain"),
		"evm/" + c07Chain + "/validators-balances", "evm/" + c07Chain + "/reference-block", "", "/", "evm/" + c07Chain, "a/b/c/d", "evm//" + evmtypes.ConsensusTurnstoneMessage}
	proofs := []func() *consensustypes.MsgAddEvidence{
		func() *consensustypes.MsgAddEvidence {
			return &consensustypes.MsgAddEvidence{Proof: c09Any(x.t, &evmtypes.TxExecutedProof{SerializedTX: c09JunkTx(fa.Height())})}
		},
		func() *consensustypes.MsgAddEvidence {
			return &consensustypes.MsgAddEvidence{Proof: c09Any(x.t, &evmtypes.SmartContractExecutionErrorProof{ErrorMessage: "boom"})}
		},
		func() *consensustypes.MsgAddEvidence {
			return &consensustypes.MsgAddEvidence{Proof: c09Any(x.t, &evmtypes.ReferenceBlockAttestationRes{BlockHeight: ^uint64(0), BlockHash: "0x01"})}
		},
	}
	for blk := 0; blk < 24; blk++ {
		var txs []FATx
		var names []string
		for vi := range fa.Vals {
			v := fa.ValidatorOperator(vi)
			id, q := ids[rng.Intn(len(ids))], queues[rng.Intn(len(queues))]
			if rng.Intn(3) == 0 {
				id = live
			}
			meta := FAMeta(v.Addr, v.Addr)
			var msg sdk.Msg
			var name string
			switch rng.Intn(5) {
			case 0:
				vid, _ := x.refID(fa.CtxCached(), []string{"zero", "current", "next", "far", "max"}[rng.Intn(5)])
				msg, name = &consensustypes.MsgSetPublicAccessData{MessageID: id, QueueTypeName: q, Data: []byte{1}, ValsetID: vid, Metadata: meta}, fmt.Sprintf("MsgSetPublicAccessData(valset id %d)", vid)
			case 1:
				msg, name = &consensustypes.MsgSetErrorData{MessageID: id, QueueTypeName: q, Data: []byte("execution reverted"), Metadata: meta}, "MsgSetErrorData"
			case 2:
				m := proofs[rng.Intn(len(proofs))]()
				m.MessageID, m.QueueTypeName, m.Metadata = id, q, meta
				msg, name = m, "MsgAddEvidence("+m.Proof.TypeUrl+")"
			case 3:
				msg, name = &consensustypes.MsgAddMessagesSignatures{Metadata: meta, SignedMessages: []*consensustypes.ConsensusMessageSignature{
					{Id: id, QueueTypeName: q, Signature: fa.EthSign(vi, []byte("c09")), SignedByAddress: v.EthAddr.Hex()}}}, "MsgAddMessagesSignatures"
			default:
				msg, name = &consensustypes.MsgAddMessageGasEstimates{Metadata: meta, Estimates: []*consensustypes.MsgAddMessageGasEstimates_GasEstimate{
					{MsgId: id, QueueTypeName: q, Value: c09Estimates[rng.Intn(len(c09Estimates))], EstimatedByAddress: v.EthAddr.Hex()}}}, "MsgAddMessageGasEstimates"
			}
			x.note("height %d: validator %d sends %s for message id %d of queue %q", fa.Height()+1, vi, name, id, q)
			txs = append(txs, FATx{Signers: []*FAAccount{v}, Msgs: []sdk.Msg{msg}})
			names = append(names, strings.SplitN(name, "(", 2)[0])
		}
		b, ok := x.block("relayer transactions naming message ids / queues that do not exist", nil, txs...)
		if !ok {
			return
		}
		for i, res := range b.Txs {
			r.Stat("dangling.id_tx." + names[i] + "." + zooResStr(res))
			if res.Panicked {
				x.note("height %d: the handler of transaction %d panicked (recovered by baseapp): %s", b.Height, i, firstLines(res.Log, 3))
			}
		}
		r.Case(fmt.Sprintf("c09danglingids|%d|%d", r.Seed, blk), true)
	}
	x.block("a later block", nil)
	x.sweep()
}

// TestC09Dangling runs the dangling-reference scenarios alone (they are part of TestC09; this entry is for working on them).
func TestC09Dangling(t *testing.T) {
	r := NewRec(t, "C09")
	defer r.Close()
	c09DanglingReferenceScenarios(t, r)
}
