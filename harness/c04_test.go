//go:build verif

package harness

import (
	"context"
	"fmt"
	"math/big"
	"strconv"
	"testing"

	sdkmath "cosmossdk.io/math"
	"github.com/cosmos/cosmos-sdk/codec"
	codectypes "github.com/cosmos/cosmos-sdk/codec/types"
	sdk "github.com/cosmos/cosmos-sdk/types"
	"github.com/palomachain/paloma/v2/util/libcons"
	"github.com/palomachain/paloma/v2/util/palomath"
	consensustypes "github.com/palomachain/paloma/v2/x/consensus/types"
	evmtypes "github.com/palomachain/paloma/v2/x/evm/types"
	valsettypes "github.com/palomachain/paloma/v2/x/valset/types"
)


func valAddrOf(i int) sdk.ValAddress {
	b := make([]byte, 20)
	b[0] = 0xAA
	b[18] = byte(i >> 8)
	b[19] = byte(i)
	return sdk.ValAddress(b)
}

type c04Case struct {
	total  *big.Int
	vals   []pair // addr id, share
	evs    []pair // addr id, hash id
}

func (r *Rec) c04Snapshot(c c04Case) *valsettypes.Snapshot {
	s := &valsettypes.Snapshot{TotalShares: sdkmath.NewIntFromBigInt(c.total)}
	for _, v := range c.vals {
		s.Validators = append(s.Validators, valsettypes.Validator{
			Address:    valAddrOf(int(v.a.Int64())),
			ShareCount: sdkmath.NewIntFromBigInt(v.b),
		})
	}
	return s
}

// genSnapshot draws validators, shares and a total equal to the sum of the shares
// (as createNewSnapshot builds it). With scale>1 all shares are multiplied so the
// exact-2/3 boundary is preserved at very large stakes.
func (r *Rec) c04GenVals() ([]pair, *big.Int) {
	n := 1 + r.Rng.Intn(7)
	mode := r.Rng.Intn(4)
	scale := big.NewInt(1)
	if mode != 3 && r.Rng.Intn(3) == 0 { // sdkmath.Int is capped at 2^256: keep 3*sum below it
		scale = new(big.Int).Lsh(big.NewInt(int64(1+r.Rng.Intn(9))), uint(r.Rng.Intn(200)))
	}
	var vals []pair
	total := new(big.Int)
	for i := 0; i < n; i++ {
		var sh *big.Int
		switch mode {
		case 0:
			sh = bi(int64(r.Rng.Intn(4))) // tiny: boundaries hit all the time
		case 1:
			sh = bi(1) // equal weights
		case 2:
			sh = bi(int64(1 + r.Rng.Intn(20)))
		default:
			sh = r.Share()
		}
		sh = new(big.Int).Mul(sh, scale)
		vals = append(vals, pair{bi(int64(i + 1)), sh})
		total.Add(total, sh)
	}
	return vals, total
}

func TestC04(t *testing.T) {
	r := NewRec(t, "C04")
	defer r.Close()

	reg := codectypes.NewInterfaceRegistry()
	evmtypes.RegisterInterfaces(reg)
	cdc := codec.NewProtoCodec(reg)

	for i := 0; i < r.N; i++ {
		// ---------- VerifyEvidence ----------
		vals, total := r.c04GenVals()
		c := c04Case{total: total, vals: vals}
		nh := 1 + r.Rng.Intn(3)
		outsiders := 0
		for _, v := range vals {
			if r.Rng.Intn(6) == 0 {
				continue // did not submit
			}
			c.evs = append(c.evs, pair{v.a, bi(int64(1 + r.Rng.Intn(nh)))})
		}
		for r.Rng.Intn(3) == 0 { // bonded validator outside the snapshot submits too
			c.evs = append(c.evs, pair{bi(int64(100 + outsiders)), bi(int64(1 + r.Rng.Intn(nh)))})
			outsiders++
		}
		r.Rng.Shuffle(len(c.evs), func(i, j int) { c.evs[i], c.evs[j] = c.evs[j], c.evs[i] })
		snap := r.c04Snapshot(c)
		checker := libcons.New(func(context.Context) (*valsettypes.Snapshot, error) { return snap, nil }, cdc)
		var evs []libcons.Evidence
		for _, e := range c.evs {
			any, err := codectypes.NewAnyWithValue(&evmtypes.SmartContractExecutionErrorProof{ErrorMessage: "h" + e.b.String()})
			if err != nil {
				t.Fatal(err)
			}
			evs = append(evs, &consensustypes.Evidence{ValAddress: valAddrOf(int(e.a.Int64())), Proof: any})
		}
		res, err := checker.VerifyEvidence(context.Background(), evs)
		implOut := ""
		hint := "-"
		switch {
		case err == nil && res != nil && res.Winner != nil:
			w := res.Winner.(*evmtypes.SmartContractExecutionErrorProof).ErrorMessage[1:]
			implOut = "winner " + w
			hint = w
			r.Stat("evidence.winner")
			// monitor: the winner's group holds >= 2/3 of total, each validator once
			sum := new(big.Int)
			seen := map[string]bool{}
			for _, e := range c.evs {
				if e.b.String() != w || seen[e.a.String()] {
					continue
				}
				seen[e.a.String()] = true
				for _, v := range vals {
					if v.a.Cmp(e.a) == 0 {
						sum.Add(sum, v.b)
					}
				}
			}
			if new(big.Int).Mul(sum, bi(3)).Cmp(new(big.Int).Mul(total, bi(2))) < 0 {
				r.Hit("winner_has_two_thirds", fmt.Sprintf("winner %s has %s of %s", w, sum, total),
					map[string]string{"total": total.String(), "vals": pairList(vals), "evidence": pairList(c.evs)})
			}
		case err == libcons.ErrConsensusNotAchieved:
			implOut = "notachieved"
			r.Stat("evidence.notachieved")
		default:
			implOut = "error"
			r.Stat("evidence.error")
		}
		r.Op(fmt.Sprintf("evidence %s %s %s %s", total, pairList(vals), pairList(c.evs), hint), implOut)
		r.Case("ev|"+total.String()+"|"+pairList(vals)+"|"+pairList(c.evs), len(c.evs) > 0)

		// ---------- VerifyGasEstimates ----------
		var ests []pair
		var gest []libcons.GasEstimate
		var values []uint64
		for _, v := range vals {
			if r.Rng.Intn(5) == 0 {
				continue
			}
			x := r.U64()
			ests = append(ests, pair{v.a, bu(x)})
		}
		if r.Rng.Intn(3) == 0 {
			ests = append(ests, pair{bi(200), bu(r.U64())})
		}
		r.Rng.Shuffle(len(ests), func(i, j int) { ests[i], ests[j] = ests[j], ests[i] })
		for _, e := range ests {
			gest = append(gest, &consensustypes.GasEstimate{ValAddress: valAddrOf(int(e.a.Int64())), Value: e.b.Uint64()})
			values = append(values, e.b.Uint64())
		}
		g, err := checker.VerifyGasEstimates(context.Background(), nopLP{}, gest)
		switch {
		case err == nil:
			implOut = "elected " + strconv.FormatUint(g, 10)
			r.Stat("gas.elected")
			s := sortedU64(values)
			if g < s[0] || g > s[len(s)-1] {
				r.Hit("median_in_range", fmt.Sprintf("elected %d outside [%d,%d]", g, s[0], s[len(s)-1]),
					map[string]string{"total": total.String(), "vals": pairList(vals), "estimates": pairList(ests)})
			}
		case err == libcons.ErrConsensusNotAchieved:
			implOut = "notachieved"
			r.Stat("gas.notachieved")
		case err.Error() == "gas estimate is zero":
			implOut = "zero"
			r.Stat("gas.zero")
		default:
			implOut = "error"
		}
		r.Op(fmt.Sprintf("gas %s %s %s", total, pairList(vals), pairList(ests)), implOut)
		r.Case("gas|"+total.String()+"|"+pairList(vals)+"|"+pairList(ests), len(ests) > 0)

		// ---------- Median on the full uint64 range ----------
		k := 1 + r.Rng.Intn(6)
		ms := make([]uint64, k)
		for j := range ms {
			ms[j] = r.U64()
		}
		if r.Rng.Intn(4) == 0 { // two adjacent huge values: the midpoint must not wrap
			ms = []uint64{1<<63 + uint64(r.Rng.Intn(1000)), 1<<63 + uint64(r.Rng.Intn(1000))}
		}
		m := palomath.Median(ms)
		s := sortedU64(ms)
		if m < s[0] || m > s[len(s)-1] {
			r.Hit("median_in_range", fmt.Sprintf("median %d outside [%d,%d]", m, s[0], s[len(s)-1]), map[string]string{"values": u64List(ms)})
		}
		r.Op("median "+u64List(ms), strconv.FormatUint(m, 10))
		r.Case("median|"+u64List(ms), len(ms) > 1)
		if len(ms)%2 == 0 {
			r.Stat("median.even")
		} else {
			r.Stat("median.odd")
		}

		// ---------- AddEvidence replace-per-validator ----------
		q := &consensustypes.QueuedSignedMessage{}
		var cur []pair
		steps := 1 + r.Rng.Intn(6)
		for j := 0; j < steps; j++ {
			e := pair{bi(int64(1 + r.Rng.Intn(4))), bi(int64(1 + r.Rng.Intn(3)))}
			any, _ := codectypes.NewAnyWithValue(&evmtypes.SmartContractExecutionErrorProof{ErrorMessage: e.b.String()})
			before := pairList(cur)
			q.AddEvidence(consensustypes.Evidence{ValAddress: valAddrOf(int(e.a.Int64())), Proof: any})
			cur = cur[:0]
			seen := map[string]bool{}
			for _, x := range q.Evidence {
				var h evmtypes.Hashable
				if err := cdc.UnpackAny(x.Proof, &h); err != nil {
					t.Fatal(err)
				}
				hv, _ := strconv.Atoi(h.(*evmtypes.SmartContractExecutionErrorProof).ErrorMessage)
				id := int(x.ValAddress[18])<<8 | int(x.ValAddress[19])
				if seen[strconv.Itoa(id)] {
					r.Hit("addEvidence_unique", "validator appears twice", map[string]string{"before": before, "add": e.a.String() + ":" + e.b.String()})
				}
				seen[strconv.Itoa(id)] = true
				cur = append(cur, pair{bi(int64(id)), bi(int64(hv))})
			}
			r.Op(fmt.Sprintf("addev %s %s:%s", before, e.a, e.b), pairList(cur))
		}
		r.Case("addev|"+pairList(cur), steps > 1)
	}
}
