//go:build verif

package harness

import (
	"context"
	"fmt"
	"math/big"
	"sort"
	"strconv"
	"strings"
	"testing"

	sdkmath "cosmossdk.io/math"
	"cosmossdk.io/store/prefix"
	"github.com/cosmos/cosmos-sdk/codec"
	codectypes "github.com/cosmos/cosmos-sdk/codec/types"
	sdk "github.com/cosmos/cosmos-sdk/types"
	"github.com/cosmos/gogoproto/proto"
	ethcommon "github.com/ethereum/go-ethereum/common"
	ethtypes "github.com/ethereum/go-ethereum/core/types"
	ethcrypto "github.com/ethereum/go-ethereum/crypto"
	"github.com/palomachain/paloma/v2/util/libcons"
	"github.com/palomachain/paloma/v2/util/palomath"
	consensuskeeper "github.com/palomachain/paloma/v2/x/consensus/keeper/consensus"
	consensustypes "github.com/palomachain/paloma/v2/x/consensus/types"
	evmtypes "github.com/palomachain/paloma/v2/x/evm/types"
	valsettypes "github.com/palomachain/paloma/v2/x/valset/types"
)

func valAddrOf(i int) sdk.ValAddress {
	b := make([]byte, 20)
	b[0] = 0xAA
	b[18] = byte(i >> 8)
	b[19] = byte(i)
	return sdk.ValAddress(b)
}

type c04Case struct {
	total *big.Int
	vals  []pair // addr id, share
	evs   []pair // addr id, hash id
}

func (r *Rec) c04Snapshot(c c04Case) *valsettypes.Snapshot {
	s := &valsettypes.Snapshot{TotalShares: sdkmath.NewIntFromBigInt(c.total)}
	for _, v := range c.vals {
		s.Validators = append(s.Validators, valsettypes.Validator{
			Address:    valAddrOf(int(v.a.Int64())),
			ShareCount: sdkmath.NewIntFromBigInt(v.b),
		})
	}
	return s
}

// genSnapshot draws validators, shares and a total equal to the sum of the shares
// (as createNewSnapshot builds it). With scale>1 all shares are multiplied so the
// exact-2/3 boundary is preserved at very large stakes.
func (r *Rec) c04GenVals() ([]pair, *big.Int) {
	n := 1 + r.Rng.Intn(7)
	mode := r.Rng.Intn(4)
	scale := big.NewInt(1)
	if mode != 3 && r.Rng.Intn(3) == 0 { // sdkmath.Int is capped at 2^256: keep 3*sum below it
		scale = new(big.Int).Lsh(big.NewInt(int64(1+r.Rng.Intn(9))), uint(r.Rng.Intn(200)))
	}
	var vals []pair
	total := new(big.Int)
	for i := 0; i < n; i++ {
		var sh *big.Int
		switch mode {
		case 0:
			sh = bi(int64(r.Rng.Intn(4))) // tiny: boundaries hit all the time
		case 1:
			sh = bi(1) // equal weights
		case 2:
			sh = bi(int64(1 + r.Rng.Intn(20)))
		default:
			sh = r.Share()
		}
		sh = new(big.Int).Mul(sh, scale)
		vals = append(vals, pair{bi(int64(i + 1)), sh})
		total.Add(total, sh)
	}
	return vals, total
}

func TestC04(t *testing.T) {
	r := NewRec(t, "C04")
	defer r.Close()

	reg := codectypes.NewInterfaceRegistry()
	evmtypes.RegisterInterfaces(reg)
	cdc := codec.NewProtoCodec(reg)

	for i := 0; i < r.N; i++ {
		// ---------- VerifyEvidence ----------
		vals, total := r.c04GenVals()
		c := c04Case{total: total, vals: vals}
		nh := 1 + r.Rng.Intn(3)
		outsiders := 0
		for _, v := range vals {
			if r.Rng.Intn(6) == 0 {
				continue // did not submit
			}
			c.evs = append(c.evs, pair{v.a, bi(int64(1 + r.Rng.Intn(nh)))})
		}
		for r.Rng.Intn(3) == 0 { // bonded validator outside the snapshot submits too
			c.evs = append(c.evs, pair{bi(int64(100 + outsiders)), bi(int64(1 + r.Rng.Intn(nh)))})
			outsiders++
		}
		r.Rng.Shuffle(len(c.evs), func(i, j int) { c.evs[i], c.evs[j] = c.evs[j], c.evs[i] })
		snap := r.c04Snapshot(c)
		checker := libcons.New(func(context.Context) (*valsettypes.Snapshot, error) { return snap, nil }, cdc)
		var evs []libcons.Evidence
		for _, e := range c.evs {
			any, err := codectypes.NewAnyWithValue(&evmtypes.SmartContractExecutionErrorProof{ErrorMessage: "h" + e.b.String()})
			if err != nil {
				t.Fatal(err)
			}
			evs = append(evs, &consensustypes.Evidence{ValAddress: valAddrOf(int(e.a.Int64())), Proof: any})
		}
		res, err := checker.VerifyEvidence(context.Background(), evs)
		implOut := ""
		hint := "-"
		switch {
		case err == nil && res != nil && res.Winner != nil:
			w := res.Winner.(*evmtypes.SmartContractExecutionErrorProof).ErrorMessage[1:]
			implOut = "winner " + w
			hint = w
			r.Stat("evidence.winner")
			// monitor: the winner's group holds >= 2/3 of total, each validator once
			sum := new(big.Int)
			seen := map[string]bool{}
			for _, e := range c.evs {
				if e.b.String() != w || seen[e.a.String()] {
					continue
				}
				seen[e.a.String()] = true
				for _, v := range vals {
					if v.a.Cmp(e.a) == 0 {
						sum.Add(sum, v.b)
					}
				}
			}
			if new(big.Int).Mul(sum, bi(3)).Cmp(new(big.Int).Mul(total, bi(2))) < 0 {
				r.Hit("winner_has_two_thirds", fmt.Sprintf("winner %s has %s of %s", w, sum, total),
					map[string]string{"total": total.String(), "vals": pairList(vals), "evidence": pairList(c.evs)})
			}
		case err == libcons.ErrConsensusNotAchieved:
			implOut = "notachieved"
			r.Stat("evidence.notachieved")
		default:
			implOut = "error"
			r.Stat("evidence.error")
		}
		r.Op(fmt.Sprintf("evidence %s %s %s %s", total, pairList(vals), pairList(c.evs), hint), implOut)
		r.Case("ev|"+total.String()+"|"+pairList(vals)+"|"+pairList(c.evs), len(c.evs) > 0)

		// ---------- VerifyGasEstimates ----------
		var ests []pair
		var gest []libcons.GasEstimate
		var values []uint64
		for _, v := range vals {
			if r.Rng.Intn(5) == 0 {
				continue
			}
			x := r.U64()
			ests = append(ests, pair{v.a, bu(x)})
		}
		if r.Rng.Intn(3) == 0 {
			ests = append(ests, pair{bi(200), bu(r.U64())})
		}
		r.Rng.Shuffle(len(ests), func(i, j int) { ests[i], ests[j] = ests[j], ests[i] })
		for _, e := range ests {
			gest = append(gest, &consensustypes.GasEstimate{ValAddress: valAddrOf(int(e.a.Int64())), Value: e.b.Uint64()})
			values = append(values, e.b.Uint64())
		}
		g, err := checker.VerifyGasEstimates(context.Background(), nopLP{}, gest)
		switch {
		case err == nil:
			implOut = "elected " + strconv.FormatUint(g, 10)
			r.Stat("gas.elected")
			s := sortedU64(values)
			if g < s[0] || g > s[len(s)-1] {
				r.Hit("median_in_range", fmt.Sprintf("elected %d outside [%d,%d]", g, s[0], s[len(s)-1]),
					map[string]string{"total": total.String(), "vals": pairList(vals), "estimates": pairList(ests)})
			}
		case err == libcons.ErrConsensusNotAchieved:
			implOut = "notachieved"
			r.Stat("gas.notachieved")
		case err.Error() == "gas estimate is zero":
			implOut = "zero"
			r.Stat("gas.zero")
		default:
			implOut = "error"
		}
		r.Op(fmt.Sprintf("gas %s %s %s", total, pairList(vals), pairList(ests)), implOut)
		r.Case("gas|"+total.String()+"|"+pairList(vals)+"|"+pairList(ests), len(ests) > 0)

		// ---------- Median on the full uint64 range ----------
		k := 1 + r.Rng.Intn(6)
		ms := make([]uint64, k)
		for j := range ms {
			ms[j] = r.U64()
		}
		if r.Rng.Intn(4) == 0 { // two adjacent huge values: the midpoint must not wrap
			ms = []uint64{1<<63 + uint64(r.Rng.Intn(1000)), 1<<63 + uint64(r.Rng.Intn(1000))}
		}
		m := palomath.Median(ms)
		s := sortedU64(ms)
		if m < s[0] || m > s[len(s)-1] {
			r.Hit("median_in_range", fmt.Sprintf("median %d outside [%d,%d]", m, s[0], s[len(s)-1]), map[string]string{"values": u64List(ms)})
		}
		r.Op("median "+u64List(ms), strconv.FormatUint(m, 10))
		r.Case("median|"+u64List(ms), len(ms) > 1)
		if len(ms)%2 == 0 {
			r.Stat("median.even")
		} else {
			r.Stat("median.odd")
		}

		// ---------- AddEvidence replace-per-validator ----------
		q := &consensustypes.QueuedSignedMessage{}
		var cur []pair
		steps := 1 + r.Rng.Intn(6)
		for j := 0; j < steps; j++ {
			e := pair{bi(int64(1 + r.Rng.Intn(4))), bi(int64(1 + r.Rng.Intn(3)))}
			any, _ := codectypes.NewAnyWithValue(&evmtypes.SmartContractExecutionErrorProof{ErrorMessage: e.b.String()})
			before := pairList(cur)
			q.AddEvidence(consensustypes.Evidence{ValAddress: valAddrOf(int(e.a.Int64())), Proof: any})
			cur = cur[:0]
			seen := map[string]bool{}
			for _, x := range q.Evidence {
				var h evmtypes.Hashable
				if err := cdc.UnpackAny(x.Proof, &h); err != nil {
					t.Fatal(err)
				}
				hv, _ := strconv.Atoi(h.(*evmtypes.SmartContractExecutionErrorProof).ErrorMessage)
				id := int(x.ValAddress[18])<<8 | int(x.ValAddress[19])
				if seen[strconv.Itoa(id)] {
					r.Hit("addEvidence_unique", "validator appears twice", map[string]string{"before": before, "add": e.a.String() + ":" + e.b.String()})
				}
				seen[strconv.Itoa(id)] = true
				cur = append(cur, pair{bi(int64(id)), bi(int64(hv))})
			}
			r.Op(fmt.Sprintf("addev %s %s:%s", before, e.a, e.b), pairList(cur))
		}
		r.Case("addev|"+pairList(cur), steps > 1)
	}

	// ---------- evidence with real proof content: "byte-identical evidence" (c04_enc_test.go) ----------
	c04EvidenceBytes(t, r, cdc)

	// ---------- whole histories on the real keepers against the C04 history model ----------
	c04KeeperHistories(t, r)
}

// ---------------------------------------------------------------------------
// Keeper-level histories (`hist` op of the C04 driver = `Hist.run` / `Hist.trace` of Model/Libcons.lean)
//
// One consensus queue of the full application, the stored current snapshot, and the operations of
// the history model executed through the real entry points:
//   s  SaveModifiedSnapshot (new current snapshot, total sometimes above the sum of shares)
//   p  PutMessageInQueue (CompassHandover = no fees, SubmitLogicCall with exhausted retries = fee payer)
//   v  MsgAddEvidence through the message router (proof kinds: 1-3 error proofs -> attester returns nil,
//      4-5 reference-block results -> attester fails hard, 6-7 tx proofs with a failed receipt -> ErrEthTxFailed)
//   g  MsgAddMessageGasEstimates through the message router
//   e  CheckAndProcessEstimatedMessages (one `e` token per queued message, in queue order)
//   a  CheckAndProcessAttestedMessages (one `a` token per queued message, in queue order)
//   x  DeleteJob
// Observed per operation: the new id / accepted or refused / a newly elected value / a declaration
// (the effect the attester left: the failure event of the winning error proof, or the processed-tx
// mark of the winning transaction), and at the end the whole queue and the list of declarations.
// ---------------------------------------------------------------------------

const (
	c04HardFrom = 4 // proof ids >= 4: the attester fails with an error that drops the cache
	c04SoftFrom = 6 // proof ids >= 6: ErrEthTxFailed, the cache is written
)

func c04JunkTx(nonce uint64) *ethtypes.Transaction {
	key, _ := ethcrypto.ToECDSA(ethcrypto.Keccak256([]byte("c04-history")))
	to := ethcommon.HexToAddress("0x00000000000000000000000000000000000000C4")
	chainID := big.NewInt(4243)
	tx, _ := ethtypes.SignNewTx(key, ethtypes.NewLondonSigner(chainID), &ethtypes.DynamicFeeTx{
		ChainID: chainID, Nonce: nonce, To: &to, Data: []byte{0xa9, 0x30, 0xe8, 0xdc}, Gas: 100_000,
		GasFeeCap: big.NewInt(1_000_000_000), GasTipCap: big.NewInt(1),
	})
	return tx
}

func c04Proof(t *testing.T, h int) *codectypes.Any {
	var m proto.Message
	switch {
	case h >= c04SoftFrom:
		raw, _ := c04JunkTx(uint64(h)).MarshalBinary()
		rc, _ := (&ethtypes.Receipt{Type: ethtypes.DynamicFeeTxType, Status: ethtypes.ReceiptStatusFailed, CumulativeGasUsed: 21000}).MarshalBinary()
		m = &evmtypes.TxExecutedProof{SerializedTX: raw, SerializedReceipt: rc}
	case h >= c04HardFrom:
		m = &evmtypes.ReferenceBlockAttestationRes{BlockHeight: uint64(h), BlockHash: "0xc04"}
	default:
		m = &evmtypes.SmartContractExecutionErrorProof{ErrorMessage: fmt.Sprintf("h%d", h)}
	}
	a, err := codectypes.NewAnyWithValue(m)
	if err != nil {
		t.Fatal(err)
	}
	return a
}

func c04ProofID(cdc codec.Codec, p *codectypes.Any) int {
	var h evmtypes.Hashable
	if err := cdc.UnpackAny(p, &h); err != nil {
		return 0
	}
	switch e := h.(type) {
	case *evmtypes.SmartContractExecutionErrorProof:
		n, _ := strconv.Atoi(strings.TrimPrefix(e.ErrorMessage, "h"))
		return n
	case *evmtypes.ReferenceBlockAttestationRes:
		return int(e.BlockHeight)
	case *evmtypes.TxExecutedProof:
		tx, err := e.GetTX()
		if err != nil {
			return 0
		}
		return int(tx.Nonce())
	}
	return 0
}

type c04Hist struct {
	t    *testing.T
	r    *Rec
	fx   *q06Fix
	c    *q06Case
	ctx  sdk.Context
	toks []string
	outs []string
	real []uint64 // ordinal-1 -> real message id
	kind []string // ordinal-1 -> "o" (no fees) | "s" (fee payer)
	req  []bool
	ord  map[uint64]int
	// fee setting of the assignee present (the fee step of a fee payer's election succeeds)
	feeOK    bool
	declared []string
	prevEl   map[uint64]uint64
}

func (h *c04Hist) input() map[string]string {
	return map[string]string{"ops": "hist " + strings.Join(h.toks, " "), "observed": strings.Join(h.outs, " ")}
}

func (h *c04Hist) emit(tok, out string) {
	h.toks = append(h.toks, tok)
	h.outs = append(h.outs, out)
}

func (h *c04Hist) evs(m consensustypes.QueuedSignedMessageI) [][2]int {
	var out [][2]int
	for _, e := range m.GetEvidence() {
		out = append(out, [2]int{h.fx.idOfValAddr(e.ValAddress), c04ProofID(h.fx.cdc, e.Proof)})
	}
	return out
}

func c04IntPairs(ps [][2]int) string {
	if len(ps) == 0 {
		return "-"
	}
	s := make([]string, len(ps))
	for i, p := range ps {
		s[i] = fmt.Sprintf("%d:%d", p[0], p[1])
	}
	return strings.Join(s, ",")
}

func (h *c04Hist) ests(m consensustypes.QueuedSignedMessageI) string {
	var s []string
	for _, e := range m.GetGasEstimates() {
		s = append(s, fmt.Sprintf("%d:%d", h.fx.idOfValAddr(e.ValAddress), e.Value))
	}
	if len(s) == 0 {
		return "-"
	}
	return strings.Join(s, ",")
}

// snapshot publishes a new current snapshot; treasury rates are fixed so that the fee step of a fee
// payer depends on the assignee's relayer fee only
func (h *c04Hist) snapshot() {
	env := h.r.q06GenEnv(h.fx, h.fx.n)
	env.community, env.security = "0.03", "0.01"
	h.feeOK = h.r.Rng.Intn(4) != 0
	aid := h.fx.valID[0]
	if h.feeOK {
		env.fees[aid] = "1.1"
	} else {
		delete(env.fees, aid)
	}
	if err := h.fx.writeEnv(h.ctx, env); err != nil {
		h.t.Fatal(err)
	}
	h.c.obs = h.fx.readObs(h.ctx)
	h.emit("s/"+h.c.obs.total.String()+"/"+h.c.snapPairs(), "ok")
	h.r.Stat("hist.op.snapshot")
}

// power of the distinct snapshot validators among `who`
func (h *c04Hist) power(who map[int]bool) *big.Int {
	sum := new(big.Int)
	for id := range who {
		if s, ok := h.c.obs.shares[id]; ok {
			sum.Add(sum, s)
		}
	}
	return sum
}

func (h *c04Hist) twoThirds(sum *big.Int) bool {
	return new(big.Int).Mul(sum, bi(3)).Cmp(new(big.Int).Mul(h.c.obs.total, bi(2))) >= 0
}

// invariants of the property that must hold after every operation
func (h *c04Hist) checkAll() {
	for _, m := range h.c.msgs() {
		seen := map[int]bool{}
		for _, e := range h.evs(m) {
			if seen[e[0]] {
				h.r.Hit("hist_one_evidence_per_validator", "validator has two evidence entries", h.input())
			}
			seen[e[0]] = true
		}
		seen = map[int]bool{}
		for _, e := range m.GetGasEstimates() {
			id := h.fx.idOfValAddr(e.ValAddress)
			if seen[id] {
				h.r.Hit("hist_one_estimate_per_validator", "validator has two estimates", h.input())
			}
			seen[id] = true
		}
		if prev, ok := h.prevEl[m.GetId()]; ok && prev != 0 && m.GetGasEstimate() != prev {
			h.r.Hit("hist_elected_immutable", fmt.Sprintf("elected estimate changed from %d to %d", prev, m.GetGasEstimate()), h.input())
		}
		h.prevEl[m.GetId()] = m.GetGasEstimate()
	}
}

func (h *c04Hist) pickOrd() (int, uint64) {
	// mostly an existing ordinal (possibly already removed), sometimes one that was never issued
	if len(h.real) == 0 || h.r.Rng.Intn(25) == 0 {
		return len(h.real) + 1 + h.r.Rng.Intn(2), 1<<40 + uint64(h.r.Rng.Intn(5))
	}
	o := 1 + h.r.Rng.Intn(len(h.real))
	return o, h.real[o-1]
}

func (h *c04Hist) put() {
	kind := "o"
	if h.r.Rng.Intn(2) == 0 {
		kind = "s"
	}
	req := h.r.Rng.Intn(5) != 0
	m, err := h.c.action(kind, 10+len(h.real), 1, false)
	if err != nil {
		h.t.Fatal(err)
	}
	m.Assignee, m.AssigneeRemoteAddress = h.fx.fa.ValAddr(0).String(), h.fx.addrStr[4]
	id, err := h.fx.fa.App().ConsensusKeeper.PutMessageInQueue(h.ctx, h.fx.queue, m,
		&consensuskeeper.PutOptions{RequireGasEstimation: req, RequireSignatures: true})
	if err != nil {
		h.t.Fatal(err)
	}
	h.real = append(h.real, id)
	h.kind = append(h.kind, kind)
	h.req = append(h.req, req)
	h.ord[id] = len(h.real)
	h.emit("p/"+q06B(req), fmt.Sprintf("id:%d", len(h.real)))
	h.r.Stat("hist.op.put." + kind)
}

func (h *c04Hist) proofFor(o, nh int) int {
	p := 1 + h.r.Rng.Intn(nh)
	switch h.r.Rng.Intn(12) {
	case 0:
		p = c04HardFrom + h.r.Rng.Intn(2)
	case 1:
		p = c04SoftFrom + h.r.Rng.Intn(2)
	}
	if o <= len(h.kind) && h.r.Rng.Intn(3) != 0 {
		// keep most messages on one proof family so that hard / soft winners do reach quorum
		switch o % 4 {
		case 2:
			p = c04HardFrom + h.r.Rng.Intn(2)
		case 3:
			p = c04SoftFrom + h.r.Rng.Intn(2)
		}
	}
	return p
}

func (h *c04Hist) submitEv(o int, id uint64, vi, p int) {
	v := h.fx.fa.Vals[vi]
	err := h.c.route(&consensustypes.MsgAddEvidence{Proof: c04Proof(h.t, p), MessageID: id, QueueTypeName: h.fx.queue, Metadata: FAMeta(v.Addr, v.Addr)})
	out := "ok"
	if err != nil {
		out = "rejected"
	} else if m := h.c.msg(id); m != nil {
		// the stored proof of this validator is the one just submitted
		found := false
		for _, e := range h.evs(m) {
			if e[0] == h.fx.valID[vi] && e[1] == p {
				found = true
			}
		}
		if !found {
			h.r.Hit("hist_latest_submission", fmt.Sprintf("validator %d: stored proof is not its latest submission %d", h.fx.valID[vi], p), h.input())
		}
	}
	h.emit(fmt.Sprintf("v/%d/%d/%d", o, h.fx.valID[vi], p), out)
	h.r.Stat("hist.op.evidence." + out)
}

func (h *c04Hist) evidence(nh int) {
	o, id := h.pickOrd()
	h.submitEv(o, id, h.r.Rng.Intn(h.fx.n), h.proofFor(o, nh))
}

// evidenceSweep: most validators agree on one proof (quorum or one validator short of it)
func (h *c04Hist) evidenceSweep(nh int) {
	o, id := h.pickOrd()
	p := h.proofFor(o, nh)
	for _, vi := range h.r.Rng.Perm(h.fx.n) {
		switch x := h.r.Rng.Intn(10); {
		case x < 7:
			h.submitEv(o, id, vi, p)
		case x < 8:
			h.submitEv(o, id, vi, h.proofFor(o, nh))
		}
	}
	h.r.Stat("hist.op.evidence_sweep")
}

func (h *c04Hist) submitEst(o int, id uint64, vi int) {
	v := h.fx.fa.Vals[vi]
	val := uint64(h.r.Rng.Intn(6))
	if h.r.Rng.Intn(3) == 0 {
		val = h.r.U64()
	}
	if o <= len(h.kind) && h.kind[o-1] == "s" {
		val %= 1 << 56 // a fee payer's fees (1.1 x estimate and fractions of that) stay inside uint64
	}
	err := h.c.route(&consensustypes.MsgAddMessageGasEstimates{Metadata: FAMeta(v.Addr, v.Addr), Estimates: []*consensustypes.MsgAddMessageGasEstimates_GasEstimate{
		{MsgId: id, QueueTypeName: h.fx.queue, Value: val, EstimatedByAddress: v.EthAddr.Hex()}}})
	out := "ok"
	if err != nil {
		out = "rejected"
	}
	h.emit(fmt.Sprintf("g/%d/%d/%d", o, h.fx.valID[vi], val), out)
	h.r.Stat("hist.op.estimate." + out)
}

func (h *c04Hist) estimate() {
	o, id := h.pickOrd()
	h.submitEst(o, id, h.r.Rng.Intn(h.fx.n))
}

func (h *c04Hist) estimateSweep() {
	o, id := h.pickOrd()
	for _, vi := range h.r.Rng.Perm(h.fx.n) {
		if h.r.Rng.Intn(10) < 7 {
			h.submitEst(o, id, vi)
		}
	}
	h.r.Stat("hist.op.estimate_sweep")
}

func (h *c04Hist) elect() {
	before := h.c.msgs()
	if err := h.fx.fa.App().ConsensusKeeper.CheckAndProcessEstimatedMessages(h.ctx); err != nil {
		h.t.Fatal(err)
	}
	for _, m := range before {
		o := h.ord[m.GetId()]
		fee := true
		if h.kind[o-1] == "s" {
			fee = h.feeOK
		}
		out := "-"
		if !fee && m.GetRequireGasEstimation() && m.GetGasEstimate() == 0 && len(m.GetGasEstimates()) > 0 {
			who := map[int]bool{}
			for _, e := range m.GetGasEstimates() {
				who[h.fx.idOfValAddr(e.ValAddress)] = true
			}
			if h.twoThirds(h.power(who)) && len(h.c.obs.shares) > 0 {
				h.r.Stat("hist.elect.fee_step_failed_with_quorum")
			}
		}
		now := h.c.msg(m.GetId())
		if now != nil && now.GetGasEstimate() != m.GetGasEstimate() {
			g := now.GetGasEstimate()
			out = fmt.Sprintf("elected:%d", g)
			h.r.Stat("hist.elected")
			// the property, on what was stored before: 2/3 of the snapshot submitted (each once), the
			// value is the median of all submitted values and lies between the lowest and the highest
			who := map[int]bool{}
			var vals []uint64
			for _, e := range m.GetGasEstimates() {
				who[h.fx.idOfValAddr(e.ValAddress)] = true
				vals = append(vals, e.Value)
			}
			if m.GetGasEstimate() != 0 {
				h.r.Hit("hist_elected_immutable", fmt.Sprintf("elected estimate %d replaced by %d", m.GetGasEstimate(), g), h.input())
			}
			if !h.twoThirds(h.power(who)) {
				h.r.Hit("hist_estimate_needs_two_thirds", fmt.Sprintf("elected %d with %s of %s", g, h.power(who), h.c.obs.total), h.input())
			}
			sv := sortedU64(vals)
			le, ge := 0, 0
			for _, x := range sv {
				if x <= g {
					le++
				}
				if x >= g {
					ge++
				}
			}
			if len(sv) == 0 || g < sv[0] || g > sv[len(sv)-1] || 2*le < len(sv) || 2*ge < len(sv) {
				h.r.Hit("hist_elected_is_median", fmt.Sprintf("elected %d is not a median of %v", g, sv), h.input())
			}
		}
		h.emit(fmt.Sprintf("e/%d/%s", o, q06B(fee)), out)
	}
	h.r.Stat("hist.op.elect")
}

func (h *c04Hist) txProcessed(p int) bool {
	st := prefix.NewStore(h.ctx.KVStore(h.fx.fa.kvKeys()[evmtypes.StoreKey]), []byte("tx-processed"))
	return st.Has(c04JunkTx(uint64(p)).Hash().Bytes())
}

func (h *c04Hist) attest() {
	before := h.c.msgs()
	ectx := h.ctx.WithEventManager(sdk.NewEventManager())
	if err := h.fx.fa.App().ConsensusKeeper.CheckAndProcessAttestedMessages(ectx); err != nil {
		h.t.Fatal(err)
	}
	// failure events by message id
	failed := map[uint64]string{}
	for _, ev := range ectx.EventManager().Events() {
		isFail, id, msg := false, "", ""
		for _, a := range ev.Attributes {
			switch {
			case a.Key == sdk.AttributeKeyAction && a.Value == evmtypes.SmartContractExecutionFailedKey:
				isFail = true
			case a.Key == string(evmtypes.SmartContractExecutionFailedMessageID):
				id = a.Value
			case a.Key == string(evmtypes.SmartContractExecutionFailedError):
				msg = a.Value
			}
		}
		if isFail {
			n, _ := strconv.ParseUint(id, 10, 64)
			failed[n] = strings.TrimPrefix(msg, "h")
		}
	}
	for _, m := range before {
		o := h.ord[m.GetId()]
		out, hint := "-", "-"
		evs := h.evs(m)
		// quorum groups as the property defines them: distinct snapshot validators per proof
		groups := map[int]map[int]bool{}
		for _, e := range evs {
			if groups[e[1]] == nil {
				groups[e[1]] = map[int]bool{}
			}
			groups[e[1]][e[0]] = true
		}
		if h.c.msg(m.GetId()) == nil {
			w := "?"
			soft := false
			if f, ok := failed[m.GetId()]; ok {
				w = f
			} else {
				// a failed-receipt proof won: its transaction is now marked as processed
				for p := c04SoftFrom; p < c04SoftFrom+2; p++ {
					if h.txProcessed(p) && groups[p] != nil && h.twoThirds(h.power(groups[p])) {
						w, soft = strconv.Itoa(p), true
					}
				}
			}
			hint = w
			if soft {
				out = "declaredsoft:" + w
				h.declared = append(h.declared, fmt.Sprintf("%d:%s:1", o, w))
				h.r.Stat("hist.declared.soft")
			} else {
				out = "declared:" + w
				h.declared = append(h.declared, fmt.Sprintf("%d:%s:0", o, w))
				h.r.Stat("hist.declared.ok")
			}
			// the property: removed with its effects only with 2/3 of the current snapshot on that proof
			wi, _ := strconv.Atoi(w)
			if groups[wi] == nil || !h.twoThirds(h.power(groups[wi])) {
				h.r.Hit("hist_declared_needs_two_thirds", fmt.Sprintf("message %d declared on proof %s without two thirds of %s", o, w, h.c.obs.total), h.input())
			}
		} else {
			if _, ok := failed[m.GetId()]; ok {
				h.r.Hit("hist_effect_without_removal", fmt.Sprintf("message %d: effects applied but the message is still queued", o), h.input())
			}
			h.r.Stat("hist.attest.kept")
			for p := c04HardFrom; p < c04SoftFrom; p++ {
				if groups[p] != nil && h.twoThirds(h.power(groups[p])) {
					h.r.Stat("hist.attest.kept_on_hard_failure")
				}
			}
		}
		h.emit(fmt.Sprintf("a/%d/%s/%d,%d/%d,%d", o, hint, c04HardFrom, c04HardFrom+1, c04SoftFrom, c04SoftFrom+1), out)
	}
	h.r.Stat("hist.op.attest")
}

func (h *c04Hist) prune() {
	o, id := h.pickOrd()
	err := h.fx.fa.App().ConsensusKeeper.DeleteJob(h.ctx, h.fx.queue, id)
	out := "ok"
	if err != nil {
		out = "rejected"
	}
	h.emit(fmt.Sprintf("x/%d", o), out)
	h.r.Stat("hist.op.prune." + out)
}

func (h *c04Hist) final() string {
	var items []string
	ms := h.c.msgs()
	sort.Slice(ms, func(i, j int) bool { return ms[i].GetId() < ms[j].GetId() })
	for _, m := range ms {
		o := h.ord[m.GetId()]
		items = append(items, fmt.Sprintf("%d/%s/%d/%s/%s", o, q06B(m.GetRequireGasEstimation()), m.GetGasEstimate(), h.ests(m), c04IntPairs(h.evs(m))))
	}
	q, d := "-", "-"
	if len(items) > 0 {
		q = strings.Join(items, ";")
	}
	if len(h.declared) > 0 {
		d = strings.Join(h.declared, ",")
	}
	return fmt.Sprintf("next=%d q=%s declared=%s", len(h.real), q, d)
}

func c04KeeperHistories(t *testing.T, r *Rec) {
	n := r.N / 20
	if n > 400 {
		n = 400
	}
	if n == 0 {
		return
	}
	fx := q06NewFix(t, 6)
	for i := 0; i < n; i++ {
		fx.hookCase(func(ctx sdk.Context) {
			c := &q06Case{fx: fx, r: r, ctx: ctx, hist: map[uint64][]string{}, bhist: map[uint64][]string{}, keyAtSign: map[string][]byte{},
				prevSigs: map[uint64]map[string]bool{}, prevBytes: map[uint64]string{}, mevOf: map[uint64]bool{}}
			for _, m := range c.msgs() {
				_ = fx.fa.App().ConsensusKeeper.DeleteJob(ctx, fx.queue, m.GetId())
			}
			h := &c04Hist{t: t, r: r, fx: fx, c: c, ctx: ctx, ord: map[uint64]int{}, prevEl: map[uint64]uint64{}}
			h.snapshot()
			h.put()
			nh := 1 + r.Rng.Intn(3)
			nOps := 6 + r.Rng.Intn(30)
			for j := 0; j < nOps; j++ {
				switch x := r.Rng.Intn(40); {
				case x < 2:
					h.snapshot()
				case x < 5 && len(h.real) < 4:
					h.put()
				case x < 13:
					h.evidence(nh)
				case x < 17:
					h.evidenceSweep(nh)
				case x < 25:
					h.estimate()
				case x < 28:
					h.estimateSweep()
				case x < 33:
					h.elect()
				case x < 39:
					h.attest()
				default:
					h.prune()
				}
				h.checkAll()
			}
			h.elect()
			h.attest()
			h.checkAll()
			r.Op("hist "+strings.Join(h.toks, " "), strings.Join(h.outs, " ")+" | "+h.final())
			r.Case("hist|"+strings.Join(h.toks, " "), len(h.toks) > 4)
		})
	}
}
