//go:build verif

package harness

import (
	"context"
	"fmt"
	"math"
	"sort"
	"strconv"
	"strings"
	"testing"

	"cosmossdk.io/log"
	abci "github.com/cometbft/cometbft/abci/types"
	cmtproto "github.com/cometbft/cometbft/proto/tendermint/types"
	cryptotypes "github.com/cosmos/cosmos-sdk/crypto/types"
	sdk "github.com/cosmos/cosmos-sdk/types"
	sdkmempool "github.com/cosmos/cosmos-sdk/types/mempool"
	txsigning "github.com/cosmos/cosmos-sdk/types/tx/signing"
	"github.com/cosmos/cosmos-sdk/x/auth/signing"
	banktypes "github.com/cosmos/cosmos-sdk/x/bank/types"
	palomamempool "github.com/palomachain/paloma/v2/app/mempool"
	consensustypes "github.com/palomachain/paloma/v2/x/consensus/types"
	evmtypes "github.com/palomachain/paloma/v2/x/evm/types"
	palomamodule "github.com/palomachain/paloma/v2/x/paloma"
	schedulertypes "github.com/palomachain/paloma/v2/x/scheduler/types"
	skywaytypes "github.com/palomachain/paloma/v2/x/skyway/types"
	valsettypes "github.com/palomachain/paloma/v2/x/valset/types"
	protov2 "google.golang.org/protobuf/proto"
)

// ---------- mock transaction (real message types; mock signer) ----------

type c19PubKey struct{ address []byte }

func (c19PubKey) Reset()                               {}
func (c19PubKey) String() string                       { return "c19PubKey" }
func (c19PubKey) ProtoMessage()                        {}
func (k c19PubKey) Address() cryptotypes.Address       { return k.address }
func (c19PubKey) Bytes() []byte                        { return nil }
func (c19PubKey) VerifySignature(msg, sig []byte) bool { return false }
func (c19PubKey) Equals(key cryptotypes.PubKey) bool   { return false }
func (c19PubKey) Type() string                         { return "c19" }

// c19Msg is a message whose type URL is chosen freely (for prefix near-misses);
// gogoproto's MessageName honours XXX_MessageName.
type c19Msg struct{ name string }

func (*c19Msg) Reset()                    {}
func (m *c19Msg) String() string          { return m.name }
func (*c19Msg) ProtoMessage()             {}
func (m *c19Msg) XXX_MessageName() string { return m.name }

type c19Tx struct {
	id     int
	addr   []byte
	sender string // bech32, as the mempool derives it
	nonce  uint64
	msgs   []sdk.Msg
	ctxPri int64
	urls   []string
}

var (
	_ sdk.Tx                  = (*c19Tx)(nil)
	_ signing.SigVerifiableTx = (*c19Tx)(nil)
	_ cryptotypes.PubKey      = c19PubKey{}
)

func (tx *c19Tx) GetMsgs() []sdk.Msg                    { return tx.msgs }
func (tx *c19Tx) GetMsgsV2() ([]protov2.Message, error) { return nil, nil }
func (tx *c19Tx) GetSigners() ([][]byte, error)         { return [][]byte{tx.addr}, nil }
func (tx *c19Tx) GetPubKeys() ([]cryptotypes.PubKey, error) {
	return []cryptotypes.PubKey{c19PubKey{tx.addr}}, nil
}
func (tx *c19Tx) GetSignaturesV2() ([]txsigning.SignatureV2, error) {
	return []txsigning.SignatureV2{{PubKey: c19PubKey{tx.addr}, Sequence: tx.nonce}}, nil
}

// message pool: class index 4 consensus, 3 scheduler, 2 evm ("bridge chain"), 1 valset, 0 other
type c19MsgChoice struct {
	class int
	mk    func() sdk.Msg
}

var c19Msgs = []c19MsgChoice{
	{4, func() sdk.Msg { return &consensustypes.MsgAddMessagesSignatures{} }},
	{4, func() sdk.Msg { return &consensustypes.MsgAddEvidence{} }},
	{4, func() sdk.Msg { return &consensustypes.MsgAddMessageGasEstimates{} }},
	{3, func() sdk.Msg { return &schedulertypes.MsgCreateJob{} }},
	{3, func() sdk.Msg { return &schedulertypes.MsgExecuteJob{} }},
	{2, func() sdk.Msg { return &evmtypes.MsgRemoveSmartContractDeploymentRequest{} }},
	{2, func() sdk.Msg { return &evmtypes.MsgDeployNewSmartContractProposalV2{} }},
	{1, func() sdk.Msg { return &valsettypes.MsgKeepAlive{} }},
	{1, func() sdk.Msg { return &valsettypes.MsgAddExternalChainInfoForValidator{} }},
	{0, func() sdk.Msg { return &skywaytypes.MsgSendToRemote{} }},
	{0, func() sdk.Msg { return &skywaytypes.MsgConfirmBatch{} }},
	{0, func() sdk.Msg { return &banktypes.MsgSend{} }},
	// near misses of the prefixes
	{0, func() sdk.Msg { return &c19Msg{"palomachain.paloma.consensusx.MsgFoo"} }},
	{0, func() sdk.Msg { return &c19Msg{"palomachain.paloma.consensus"} }},
	{0, func() sdk.Msg { return &c19Msg{"palomachain.paloma.evm"} }},
	{0, func() sdk.Msg { return &c19Msg{"xpalomachain.paloma.scheduler.MsgFoo"} }},
	{0, func() sdk.Msg { return &c19Msg{"Palomachain.paloma.valset.MsgFoo"} }},
	{1, func() sdk.Msg { return &c19Msg{"palomachain.paloma.valset."} }},
	{2, func() sdk.Msg { return &c19Msg{"palomachain.paloma.evm.v2.MsgFoo"} }},
}

func c19Ctx(pri int64) context.Context {
	return sdk.NewContext(nil, cmtproto.Header{}, false, log.NewNopLogger()).WithPriority(pri)
}

func c19Addr(i int) []byte {
	b := make([]byte, 20)
	// spread the leading bytes so that the bech32 order of senders is not the index order
	b[0] = byte(i * 83)
	b[1] = byte(i * 29)
	b[19] = byte(i)
	return b
}

// class of a transaction as the property text defines it (independent of the code under test)
func c19ClassOf(urls []string) int {
	if len(urls) != 1 {
		return 0
	}
	for _, pc := range []struct {
		p string
		c int
	}{
		{"/palomachain.paloma.consensus.", 4},
		{"/palomachain.paloma.scheduler.", 3},
		{"/palomachain.paloma.evm.", 2},
		{"/palomachain.paloma.valset.", 1},
	} {
		if strings.HasPrefix(urls[0], pc.p) {
			return pc.c
		}
	}
	return 0
}

// total preorder the property implies: class first; inside "other" the CheckTx priority
func c19Less(a, b *c19Tx) bool {
	ca, cb := c19ClassOf(a.urls), c19ClassOf(b.urls)
	if ca != cb {
		return ca < cb
	}
	if ca == 0 {
		return a.ctxPri < b.ctxPri
	}
	return false
}

type c19Key struct {
	sender string
	nonce  uint64
}

type c19Pool struct {
	r       *Rec
	mp      *palomamempool.PriorityNonceMempool[int64]
	pending map[c19Key]*c19Tx
	removed map[int]bool
	hist    []string
	nextID  int
	tainted bool // a replacement changed the priority: outside the assumption `Admissible` of the theorems (C19.md)

	// the iterator in use (ops iopen / inext): Insert, Remove and Select may come between two Next()
	live        sdkmempool.Iterator
	liveSeen    map[int]bool
	liveLast    map[string]uint64
	liveTouched bool // a pool operation happened since the last iopen / inext
}

func (r *Rec) c19New() *c19Pool {
	p := &c19Pool{r: r, mp: palomamempool.DefaultPriorityMempool(), pending: map[c19Key]*c19Tx{}, removed: map[int]bool{}}
	p.op("reset", "ok")
	return p
}

func (p *c19Pool) op(line, out string) {
	p.hist = append(p.hist, line+" => "+out)
	p.r.Op(line, out)
	if !strings.HasPrefix(line, "iopen") && !strings.HasPrefix(line, "inext") && !strings.HasPrefix(line, "count") {
		p.liveTouched = true
	}
}

// liveStep performs Select (open) or Next() on the iterator in use and evaluates, on what the
// real iterator yields, the safety clauses that must survive ANY interleaving with Insert / Remove /
// Select: only the current pending transaction of a key, never a removed or replaced one, nothing
// twice, per sender strictly increasing sequence numbers.
func (p *c19Pool) liveStep(open bool) {
	name := "inext"
	if open {
		name = "iopen"
		p.liveSeen, p.liveLast = map[int]bool{}, map[string]uint64{}
	} else if p.live == nil {
		p.op(name, "it none")
		p.r.Stat("live.inext.none")
		return
	}
	if p.liveTouched && !open {
		p.r.Stat("live.inext.after_pool_op")
	}
	var tx *c19Tx
	panicked := false
	func() {
		defer func() {
			if e := recover(); e != nil {
				panicked = true
			}
		}()
		if open {
			p.live = p.mp.Select(context.Background(), nil)
		} else {
			p.live = p.live.Next()
		}
		if p.live != nil {
			tx = p.live.Tx().(*c19Tx)
		}
	}()
	p.liveTouched = false
	switch {
	case panicked:
		p.live = nil
		p.op(name, "it panic")
		p.r.Stat("live." + name + ".panic")
	case p.live == nil:
		p.op(name, "it nil")
		p.r.Stat("live." + name + ".nil")
	default:
		p.op(name, fmt.Sprintf("it %s:%d:%d", tx.sender, tx.nonce, tx.id))
		p.r.Stat("live." + name + ".tx")
		if p.removed[tx.id] {
			p.hit("live_never_removed", fmt.Sprintf("live iterator yields removed/replaced tx %d (%s:%d)", tx.id, tx.sender, tx.nonce))
		}
		if cur, ok := p.pending[c19Key{tx.sender, tx.nonce}]; !ok || cur.id != tx.id {
			p.hit("live_only_pending", fmt.Sprintf("live iterator yields tx %d (%s:%d) which is not pending", tx.id, tx.sender, tx.nonce))
		}
		if p.liveSeen[tx.id] {
			p.hit("live_once", fmt.Sprintf("live iterator yields tx %d (%s:%d) twice", tx.id, tx.sender, tx.nonce))
		}
		if last, ok := p.liveLast[tx.sender]; ok && tx.nonce <= last {
			p.hit("live_sender_increasing", fmt.Sprintf("live iterator: %s nonce %d after %d", tx.sender, tx.nonce, last))
		}
		p.liveSeen[tx.id] = true
		p.liveLast[tx.sender] = tx.nonce
	}
}

func (p *c19Pool) hit(monitor, what string) {
	if p.tainted {
		p.r.Stat("outside_precondition." + monitor)
		return
	}
	p.r.Hit(monitor, what, append([]string(nil), p.hist...))
}

func (p *c19Pool) checkCount() int {
	c := p.mp.CountTx()
	if c != len(p.pending) {
		p.hit("count_eq_pending", fmt.Sprintf("CountTx=%d pending=%d", c, len(p.pending)))
	}
	return c
}

func c19URLs(msgs []sdk.Msg) []string {
	var u []string
	for _, m := range msgs {
		u = append(u, sdk.MsgTypeURL(m))
	}
	return u
}

func c19URLTok(urls []string) string {
	if len(urls) == 0 {
		return "-"
	}
	return strings.Join(urls, ",")
}

func (p *c19Pool) mkTx(si int, nonce uint64, msgs []sdk.Msg, ctxPri int64) *c19Tx {
	addr := c19Addr(si)
	p.nextID++
	return &c19Tx{id: p.nextID, addr: addr, sender: sdk.AccAddress(addr).String(), nonce: nonce, msgs: msgs, ctxPri: ctxPri, urls: c19URLs(msgs)}
}

func (p *c19Pool) insert(tx *c19Tx) {
	k := c19Key{tx.sender, tx.nonce}
	if old, ok := p.pending[k]; ok {
		p.r.Stat("insert.replace")
		if c19Less(old, tx) || c19Less(tx, old) {
			p.tainted = true
			p.r.Stat("insert.replace_changed_priority")
		}
		p.removed[old.id] = true
	} else {
		p.r.Stat("insert.fresh")
	}
	err := p.mp.Insert(c19Ctx(tx.ctxPri), tx)
	out := "ok"
	if err != nil {
		out = "err"
	} else {
		p.pending[k] = tx
	}
	c := p.checkCount()
	p.op(fmt.Sprintf("insert %s %d %d %d %s", tx.sender, tx.nonce, tx.ctxPri, tx.id, c19URLTok(tx.urls)), fmt.Sprintf("%s %d", out, c))
}

func (p *c19Pool) remove(si int, nonce uint64) {
	addr := c19Addr(si)
	probe := &c19Tx{addr: addr, sender: sdk.AccAddress(addr).String(), nonce: nonce}
	k := c19Key{probe.sender, nonce}
	err := p.mp.Remove(probe)
	out := "ok"
	switch {
	case err == nil:
		if old, ok := p.pending[k]; ok {
			p.removed[old.id] = true
			delete(p.pending, k)
			p.r.Stat("remove.pending")
		} else {
			p.hit("remove_unknown_ok", fmt.Sprintf("Remove(%s,%d) succeeded for a tx that is not pending", probe.sender, nonce))
		}
	case err == sdkmempool.ErrTxNotFound:
		out = "notfound"
		p.r.Stat("remove.notfound")
		if _, ok := p.pending[k]; ok {
			p.hit("remove_pending_notfound", fmt.Sprintf("Remove(%s,%d) not found although pending", probe.sender, nonce))
		}
	default:
		out = "err"
	}
	c := p.checkCount()
	p.op(fmt.Sprintf("remove %s %d", probe.sender, nonce), fmt.Sprintf("%s %d", out, c))
}

// sel runs Select to exhaustion and evaluates the property monitors on the real sequence.
func (p *c19Pool) sel() []*c19Tx {
	var out []*c19Tx
	panicked := false
	func() {
		defer func() {
			if e := recover(); e != nil {
				panicked = true
			}
		}()
		for it := p.mp.Select(context.Background(), nil); it != nil; it = it.Next() {
			out = append(out, it.Tx().(*c19Tx))
			if len(out) > 10*len(p.pending)+10 {
				p.hit("select_terminates", "iterator yields more than 10x pending")
				break
			}
		}
	}()
	toks := make([]string, len(out))
	for i, t := range out {
		toks[i] = fmt.Sprintf("%s:%d:%d", t.sender, t.nonce, t.id)
	}
	s := "-"
	if len(toks) > 0 {
		s = strings.Join(toks, ",")
	}
	if panicked {
		p.op("select", "panic "+s)
		p.r.Stat("finding.minvalue_priority_panics")
		return out
	}
	p.op("select", "sel "+s)
	p.r.Stat("select")
	p.monitors(out, true)
	return out
}

// selN runs Select and takes at most k transactions from the iterator (what PrepareProposal
// does until the block is full), then abandons it.
func (p *c19Pool) selN(k int) []*c19Tx {
	var out []*c19Tx
	status := "end"
	panicked := false
	func() {
		defer func() {
			if e := recover(); e != nil {
				panicked = true
			}
		}()
		it := p.mp.Select(context.Background(), nil)
		for n := 0; it != nil && n < k; n++ {
			out = append(out, it.Tx().(*c19Tx))
			it = it.Next()
		}
		if it != nil {
			status = "more"
		}
	}()
	toks := make([]string, len(out))
	for i, t := range out {
		toks[i] = fmt.Sprintf("%s:%d:%d", t.sender, t.nonce, t.id)
	}
	s := "-"
	if len(toks) > 0 {
		s = strings.Join(toks, ",")
	}
	if panicked {
		p.op(fmt.Sprintf("seln %d", k), "part "+s+" panic")
		p.r.Stat("finding.minvalue_priority_panics")
		return out
	}
	p.op(fmt.Sprintf("seln %d", k), "part "+s+" "+status)
	p.r.Stat("seln." + status)
	want := k
	if len(p.pending) < want {
		want = len(p.pending)
	}
	if len(out) != want {
		p.hit("partial_length", fmt.Sprintf("took %d of %d pending with k=%d", len(out), len(p.pending), k))
	}
	if status == "end" && len(out) != len(p.pending) {
		p.hit("partial_end_complete", fmt.Sprintf("iterator ended after %d of %d pending", len(out), len(p.pending)))
	}
	if status == "more" && len(out) != k {
		p.hit("partial_more_k", fmt.Sprintf("iterator alive after %d yields, k=%d", len(out), k))
	}
	p.monitors(out, false)
	return out
}

// monitors evaluates the property on a yielded sequence; complete = the iterator was exhausted.
func (p *c19Pool) monitors(out []*c19Tx, complete bool) {
	seen := map[int]int{}
	last := map[string]uint64{}
	started := map[string]bool{}
	for _, t := range out {
		seen[t.id]++
		if p.removed[t.id] {
			p.hit("never_removed", fmt.Sprintf("removed/replaced tx %d (%s:%d) yielded", t.id, t.sender, t.nonce))
		}
		if cur, ok := p.pending[c19Key{t.sender, t.nonce}]; !ok || cur.id != t.id {
			p.hit("only_pending", fmt.Sprintf("tx %d (%s:%d) yielded but not pending", t.id, t.sender, t.nonce))
		}
		if started[t.sender] && t.nonce <= last[t.sender] {
			p.hit("sender_nonce_increasing", fmt.Sprintf("%s: nonce %d after %d", t.sender, t.nonce, last[t.sender]))
		}
		started[t.sender] = true
		last[t.sender] = t.nonce
	}
	for _, t := range p.pending {
		if (complete && seen[t.id] != 1) || seen[t.id] > 1 {
			p.hit("each_pending_once", fmt.Sprintf("pending tx %d (%s:%d) yielded %d times", t.id, t.sender, t.nonce, seen[t.id]))
		}
		// no gap: a yielded tx is never ahead of a pending tx of the same sender with a smaller nonce
		if seen[t.id] == 0 {
			for _, u := range out {
				if u.sender == t.sender && u.nonce > t.nonce {
					p.hit("sender_no_gap", fmt.Sprintf("%s:%d yielded while pending %s:%d was not", u.sender, u.nonce, t.sender, t.nonce))
				}
			}
		}
	}
	// class order: when t is yielded, every other sender's next (first not yet yielded) tx u
	// must not rank strictly above t
	for i, t := range out {
		nextOf := map[string]*c19Tx{}
		for _, u := range out[i+1:] {
			if u.sender != t.sender && nextOf[u.sender] == nil {
				nextOf[u.sender] = u
			}
		}
		for _, u := range nextOf {
			if c19ClassOf(t.urls) < c19ClassOf(u.urls) {
				p.hit("class_order", fmt.Sprintf("tx %d (class %d) yielded while next tx %d of %s has class %d", t.id, c19ClassOf(t.urls), u.id, u.sender, c19ClassOf(u.urls)))
			} else if c19Less(t, u) {
				p.hit("priority_order", fmt.Sprintf("tx %d (pri %d) yielded while next tx %d of %s has pri %d", t.id, t.ctxPri, u.id, u.sender, u.ctxPri))
			}
		}
	}
}

func (p *c19Pool) count() {
	c := p.checkCount()
	p.op("count", strconv.Itoa(c))
}

func (r *Rec) c19Msgs(class int) []sdk.Msg {
	// one message of the wanted class (or any), sometimes zero or two messages
	switch r.Rng.Intn(12) {
	case 0:
		return nil
	case 1:
		a := c19Msgs[r.Rng.Intn(len(c19Msgs))].mk()
		b := c19Msgs[r.Rng.Intn(len(c19Msgs))].mk()
		return []sdk.Msg{a, b}
	}
	for {
		c := c19Msgs[r.Rng.Intn(len(c19Msgs))]
		if class < 0 || c.class == class {
			return []sdk.Msg{c.mk()}
		}
	}
}

var c19CtxPris = []int64{0, 0, 1, 1, 2, 3, 5, 5, 100, 1 << 40, math.MaxInt64 - 4}

func TestC19(t *testing.T) {
	r := NewRec(t, "C19")
	defer r.Close()

	// ---------- the class table alone ----------
	txp := palomamempool.NewDefaultTxPriority()
	for i := 0; i < 60+r.N/10; i++ {
		var msgs []sdk.Msg
		switch {
		case i < len(c19Msgs):
			msgs = []sdk.Msg{c19Msgs[i].mk()}
		default:
			msgs = r.c19Msgs(-1)
		}
		pri := c19CtxPris[r.Rng.Intn(len(c19CtxPris))]
		if r.Rng.Intn(8) == 0 {
			pri = -r.Rng.Int63n(1000)
		}
		tx := &c19Tx{msgs: msgs, urls: c19URLs(msgs)}
		got := txp.GetTxPriority(c19Ctx(pri), tx)
		want := pri
		if c := c19ClassOf(tx.urls); c > 0 {
			want = math.MaxInt64 - int64(4-c)
		}
		if got != want {
			r.Hit("class_rank", fmt.Sprintf("priority %d, expected %d", got, want), map[string]interface{}{"urls": tx.urls, "ctx": pri})
		}
		r.Op(fmt.Sprintf("prio %d %s", pri, c19URLTok(tx.urls)), strconv.FormatInt(got, 10))
		r.Stat(fmt.Sprintf("prio.class%d", c19ClassOf(tx.urls)))
	}

	// ---------- the CheckTx priority the application hands to Insert ----------
	// app/app.go builds the ante handler with TxFeeChecker: palomamodule.TxFeeSkipper; the SDK's
	// DeductFeeDecorator stores its second result with ctx.WithPriority.
	{
		_, pri, err := palomamodule.TxFeeSkipper(sdk.Context{}, nil)
		out := strconv.FormatInt(pri, 10)
		if err != nil {
			out = "err"
		}
		if pri <= math.MinInt64 || pri >= math.MaxInt64-3 {
			r.Hit("app_ctx_priority_in_range", fmt.Sprintf("TxFeeSkipper priority %d collides with the class ranks or MinValue", pri), nil)
		}
		r.Op("ctxprio", out)
	}

	// ---------- fixed histories at the edge of / outside the assumptions of the theorems (the code as it is) ----------
	{
		send := []sdk.Msg{&banktypes.MsgSend{}}
		// (1) re-inserting a pending (sender, nonce) with a different priority: the sender-index
		// key keeps the old priority (skiplist.Set replaces only the value) and the iterator
		// compares that stale priority; the re-inserted tx is counted but never yielded.
		p := r.c19New()
		p.insert(p.mkTx(0, 0, send, 1))
		p.insert(p.mkTx(0, 0, send, 10))
		p.insert(p.mkTx(1, 0, send, 5))
		out := p.sel()
		p.count()
		if len(out) == 1 && len(p.pending) == 2 && p.mp.CountTx() == 2 {
			r.Stat("finding.replacement_with_changed_priority_loses_tx")
		}
		// (2) a priority equal to the MinValue sentinel: nil dereference in Next()
		p = r.c19New()
		p.tainted = true
		p.insert(p.mkTx(0, 0, send, math.MinInt64))
		p.sel()
		p.count()
		// (3) the panic also loses ordinary transactions queued behind the MinValue one:
		// sender 2 has nonce 0 at MinInt64 and nonce 1 at priority 9, sender 0 one tx at 5
		p = r.c19New()
		p.tainted = true
		p.insert(p.mkTx(2, 0, send, math.MinInt64))
		p.insert(p.mkTx(2, 1, send, 9))
		p.insert(p.mkTx(0, 0, send, 5))
		p.selN(0)
		p.selN(1)
		out = p.sel()
		p.count()
		if len(out) < 3 && p.mp.CountTx() == 3 {
			r.Stat("finding.minvalue_priority_panic_loses_other_txs")
		}
		// (4) a CheckTx priority at the top of the int64 range is not below the class ranks:
		// a bank send with ctx.Priority() = MaxInt64 is proposed before a scheduler transaction
		// (and ties with the consensus class); at MaxInt64-3 it ties with the valset class.
		p = r.c19New()
		p.tainted = true
		bank := p.mkTx(0, 0, send, math.MaxInt64)
		job := p.mkTx(1, 0, []sdk.Msg{&schedulertypes.MsgCreateJob{}}, 0)
		p.insert(bank)
		p.insert(job)
		out = p.sel()
		p.count()
		if len(out) == 2 && out[0].id == bank.id && out[1].id == job.id {
			r.Stat("finding.ctx_priority_maxint64_outranks_scheduler_class")
		}
	}

	// ---------- histories ----------
	for i := 0; i < r.N; i++ {
		p := r.c19New()
		nSenders := 1 + r.Rng.Intn(5)
		maxNonce := 1 + r.Rng.Intn(6)
		nOps := 3 + r.Rng.Intn(40)
		mode := r.Rng.Intn(10)
		// mode 0: histories with priority-changing replacement (outside `Admissible`; correspondence only)
		// mode 1,2: few priorities, many cross-sender ties; mode 3: classes only; else mixed
		allowChange := mode == 0
		selects := 0
		for j := 0; j < nOps; j++ {
			switch x := r.Rng.Intn(20); {
			case x < 11:
				si := r.Rng.Intn(nSenders)
				nonce := uint64(r.Rng.Intn(maxNonce))
				if r.Rng.Intn(10) == 0 {
					nonce = uint64(1<<63) + uint64(r.Rng.Intn(3)) // above int64 range
				}
				var msgs []sdk.Msg
				var pri int64
				switch mode {
				case 1, 2:
					msgs = []sdk.Msg{&banktypes.MsgSend{}}
					pri = int64(r.Rng.Intn(mode + 1))
				case 3:
					msgs = r.c19Msgs(1 + r.Rng.Intn(4))
					pri = int64(r.Rng.Intn(3))
				default:
					msgs = r.c19Msgs(-1)
					pri = c19CtxPris[r.Rng.Intn(len(c19CtxPris))]
				}
				tx := p.mkTx(si, nonce, msgs, pri)
				if old, ok := p.pending[c19Key{tx.sender, nonce}]; ok {
					changes := c19Less(old, tx) || c19Less(tx, old)
					if changes && !allowChange {
						// same (sender, nonce) again: keep the priority (re-submission of an equal-rank tx) ...
						if r.Rng.Intn(3) == 0 {
							tx.msgs, tx.urls, tx.ctxPri = old.msgs, old.urls, old.ctxPri
						} else { // ... or pick a free nonce
							for n := uint64(0); ; n++ {
								if _, ok := p.pending[c19Key{tx.sender, n}]; !ok {
									tx.nonce = n
									break
								}
							}
						}
					}
				}
				p.insert(tx)
			case x < 15:
				// remove: mostly a pending one
				if len(p.pending) > 0 && r.Rng.Intn(5) != 0 {
					keys := make([]c19Key, 0, len(p.pending))
					for k := range p.pending {
						keys = append(keys, k)
					}
					sort.Slice(keys, func(a, b int) bool {
						if keys[a].sender != keys[b].sender {
							return keys[a].sender < keys[b].sender
						}
						return keys[a].nonce < keys[b].nonce
					})
					k := keys[r.Rng.Intn(len(keys))]
					for si := 0; si < 8; si++ {
						if sdk.AccAddress(c19Addr(si)).String() == k.sender {
							p.remove(si, k.nonce)
						}
					}
				} else {
					p.remove(r.Rng.Intn(nSenders+1), uint64(r.Rng.Intn(maxNonce+1)))
				}
			case x < 19:
				if r.Rng.Intn(4) == 0 { // take only some transactions and abandon the iterator
					k := r.Rng.Intn(len(p.pending) + 2)
					if r.Rng.Intn(4) == 0 {
						k = len(p.pending) + r.Rng.Intn(2) - 1 + r.Rng.Intn(2) // boundary: |pending|-1 .. |pending|+1
						if k < 0 {
							k = 0
						}
					}
					p.selN(k)
				}
				p.sel()
				selects++
				if r.Rng.Intn(3) == 0 { // repeated select without anything in between
					p.sel()
					selects++
				}
			default:
				p.count()
			}
		}
		out := p.sel()
		p.count()
		senders := map[string]bool{}
		for _, t := range out {
			senders[t.sender] = true
		}
		if p.tainted {
			r.Stat("cases.outside_precondition")
		}
		r.Case(strings.Join(p.hist, ";"), len(out) >= 2 && len(senders) >= 2 && selects >= 1)
	}

	// ---------- an iterator in use while the pool changes (after the histories above, so that their
	// random stream is unchanged) ----------
	{
		send := []sdk.Msg{&banktypes.MsgSend{}}
		// (L1) removing the transaction the iterator stands on ends the iteration: b:0 and the rest
		// are not proposed by this iterator (model: live_remove_current_ends_iteration)
		p := r.c19New()
		p.insert(p.mkTx(0, 0, send, 9))
		p.insert(p.mkTx(1, 0, send, 5))
		p.insert(p.mkTx(2, 0, send, 3))
		p.liveStep(true)
		p.remove(0, 0)
		p.liveStep(false)
		p.liveStep(false)
		if p.live == nil && p.mp.CountTx() == 2 {
			r.Stat("finding.live_remove_of_current_tx_ends_iteration")
		}
		// (L2) re-submitting the transaction the iterator stands on (same priority: inside the
		// precondition) unlinks its priority element; the next Next() dereferences nil
		// (model: live_reinsert_current_panics)
		p = r.c19New()
		p.insert(p.mkTx(0, 0, send, 9))
		p.insert(p.mkTx(0, 1, send, 5))
		p.insert(p.mkTx(1, 0, send, 5))
		p.liveStep(true)
		p.insert(p.mkTx(0, 0, send, 9))
		n0 := r.Stats["live.inext.panic"]
		p.liveStep(false)
		if r.Stats["live.inext.panic"] == n0+1 {
			r.Stat("finding.live_reinsert_of_current_tx_panics")
		}
		p.sel()
		// (L3) an insert behind the cursor is picked up, one before it is not; a second Select
		// re-weighs tied elements and kills the first iterator's priority node
		p = r.c19New()
		p.insert(p.mkTx(0, 1, send, 5))
		p.insert(p.mkTx(1, 0, send, 5))
		p.liveStep(true)
		p.insert(p.mkTx(0, 0, send, 5))
		p.insert(p.mkTx(0, 2, send, 5))
		p.liveStep(false)
		p.liveStep(false)
		p.liveStep(false)
		p.liveStep(true)
		p.sel()
		p.liveStep(false)
		p.liveStep(false)
	}
	for i := 0; i < r.N/3; i++ {
		p := r.c19New()
		nSenders := 2 + r.Rng.Intn(4)
		maxNonce := 1 + r.Rng.Intn(5)
		nOps := 6 + r.Rng.Intn(40)
		few := r.Rng.Intn(3) // 0: mixed classes and priorities, 1/2: few priorities (ties)
		yields := 0
		for j := 0; j < nOps; j++ {
			switch x := r.Rng.Intn(20); {
			case x < 7 || (j < 4 && x < 14):
				si := r.Rng.Intn(nSenders)
				nonce := uint64(r.Rng.Intn(maxNonce))
				var msgs []sdk.Msg
				var pri int64
				if few == 0 {
					msgs = r.c19Msgs(-1)
					pri = c19CtxPris[r.Rng.Intn(len(c19CtxPris))]
				} else {
					msgs = []sdk.Msg{&banktypes.MsgSend{}}
					pri = int64(r.Rng.Intn(few + 1))
				}
				tx := p.mkTx(si, nonce, msgs, pri)
				if old, ok := p.pending[c19Key{tx.sender, nonce}]; ok && (c19Less(old, tx) || c19Less(tx, old)) {
					// stay inside the precondition: re-submission with the same rank
					tx.msgs, tx.urls, tx.ctxPri = old.msgs, old.urls, old.ctxPri
				}
				p.insert(tx)
			case x < 10:
				if len(p.pending) > 0 && r.Rng.Intn(6) != 0 {
					keys := make([]c19Key, 0, len(p.pending))
					for k := range p.pending {
						keys = append(keys, k)
					}
					sort.Slice(keys, func(a, b int) bool {
						if keys[a].sender != keys[b].sender {
							return keys[a].sender < keys[b].sender
						}
						return keys[a].nonce < keys[b].nonce
					})
					k := keys[r.Rng.Intn(len(keys))]
					// prefer the transaction the iterator stands on
					if p.live != nil && r.Rng.Intn(3) == 0 {
						func() {
							defer func() { _ = recover() }()
							cur := p.live.Tx().(*c19Tx)
							k = c19Key{cur.sender, cur.nonce}
						}()
					}
					for si := 0; si < 8; si++ {
						if sdk.AccAddress(c19Addr(si)).String() == k.sender {
							p.remove(si, k.nonce)
						}
					}
				} else {
					p.remove(r.Rng.Intn(nSenders+1), uint64(r.Rng.Intn(maxNonce+1)))
				}
			case x < 12:
				p.liveStep(true)
			case x < 18:
				p.liveStep(false)
				yields++
			case x < 19:
				if r.Rng.Intn(2) == 0 {
					p.selN(r.Rng.Intn(len(p.pending) + 2))
				} else {
					p.sel()
				}
			default:
				p.count()
			}
		}
		// run the iterator in use to its end
		for k := 0; p.live != nil && k < 60; k++ {
			p.liveStep(false)
		}
		p.count()
		r.Case(strings.Join(p.hist, ";"), yields >= 2)
	}

	c19FullAppAdmission(t, r)
}

// c19FullAppAdmission replays, on the REAL application (baseapp + ante chain + the application
// mempool as app.go wires them), the two facts the admission model of Props/C19.lean rests on
// (AOp.checkTx / AOp.commit, theorems admission_admissible and admission_uncovered_replaces):
//
//  1. while a transaction with (sender, sequence n) is pending and has been checked, a second
//     transaction with the same (sender, n) is refused by CheckTx (ante sequence check against the
//     check state) — monitor admission_sequence_check;
//  2. after a Commit that is NOT followed by CometBFT's re-check of the pending transaction (the
//     fixture drives ABCI directly, which is what `recheck = false` amounts to), the second
//     transaction IS accepted, replaces the pending one under the same key with a different
//     priority, and the application mempool then withholds it from a proposal — recorded as a
//     finding outside the property's precondition (stat), not as a monitor hit.
func c19FullAppAdmission(t *testing.T, r *Rec) {
	fa := NewFullApp(t, FullAppOpts{NumValidators: 2, NumUsers: 2, Seed: 19})
	fa.NextBlock()
	u0, u1 := fa.User(0), fa.User(1)
	_, seq := fa.accNumSeq(u0.Addr)
	build := func(signer *FAAccount, sq uint64, msg sdk.Msg) []byte {
		bz, err := fa.BuildTx(FATx{Msgs: []sdk.Msg{msg}, Signers: []*FAAccount{signer}, Sequences: []uint64{sq}}, nil)
		if err != nil {
			t.Fatalf("C19 full app: build tx: %v", err)
		}
		return bz
	}
	check := func(bz []byte) uint32 {
		res, err := fa.App().CheckTx(&abci.RequestCheckTx{Tx: bz, Type: abci.CheckTxType_New})
		if err != nil {
			return 1 << 30
		}
		return res.Code
	}
	count := func() int { return fa.App().Mempool().CountTx() }
	selected := func() int {
		n := 0
		func() {
			defer func() { _ = recover() }()
			for it := fa.App().Mempool().Select(context.Background(), nil); it != nil; it = it.Next() {
				n++
			}
		}()
		return n
	}
	bank := &banktypes.MsgSend{FromAddress: u0.Addr.String(), ToAddress: u1.Addr.String(), Amount: faCoins(1)}
	cons := &consensustypes.MsgAddMessagesSignatures{Metadata: FAMeta(u0.Addr, u0.Addr)}
	_, seq1 := fa.accNumSeq(u1.Addr)
	keep := &valsettypes.MsgKeepAlive{Metadata: FAMeta(u1.Addr, u1.Addr), PigeonVersion: "v2.4.0"}

	if c := check(build(u0, seq, bank)); c != 0 || count() != 1 {
		r.Stat("fullapp.setup_failed")
		t.Logf("C19 full app: first CheckTx code %d count %d", c, count())
		return
	}
	r.Stat("fullapp.first_tx_accepted")
	// (1) same (sender, sequence) again while the first one is pending and checked
	if c := check(build(u0, seq, cons)); c == 0 {
		r.Hit("admission_sequence_check", "CheckTx accepted a second transaction with a pending (sender, sequence)",
			map[string]interface{}{"sequence": seq, "count": count()})
	} else {
		r.Stat("fullapp.second_tx_same_seq_rejected_while_checked")
	}
	if count() != 1 {
		r.Hit("admission_sequence_check", "a rejected CheckTx changed the application mempool", map[string]interface{}{"count": count()})
	}
	// (2) a commit without re-check of the pending transaction
	fa.NextBlock()
	if count() != 1 {
		r.Stat("fullapp.pool_changed_by_commit")
		return
	}
	if c := check(build(u0, seq, cons)); c != 0 {
		r.Stat("fullapp.second_tx_rejected_after_commit")
		return
	}
	r.Stat("finding.fullapp_same_seq_accepted_after_commit_without_recheck")
	if c := check(build(u1, seq1, keep)); c != 0 {
		r.Stat("fullapp.third_tx_rejected")
		return
	}
	if count() == 2 && selected() == 1 {
		// the pending consensus message of u0 (priority MaxInt64, sender element still keyed with 42)
		// is not offered to the proposer; only u1's keep-alive is
		r.Stat("finding.fullapp_replaced_tx_not_proposed")
	}
}
