//go:build verif

package harness

import (
	"fmt"
	"math/big"
	"strings"
	"testing"

	codectypes "github.com/cosmos/cosmos-sdk/codec/types"
	sdk "github.com/cosmos/cosmos-sdk/types"
	banktypes "github.com/cosmos/cosmos-sdk/x/bank/types"
	"github.com/cosmos/gogoproto/proto"
	"github.com/ethereum/go-ethereum/common"
	ethtypes "github.com/ethereum/go-ethereum/core/types"
	ethcrypto "github.com/ethereum/go-ethereum/crypto"
	consensustypes "github.com/palomachain/paloma/v2/x/consensus/types"
	evmkeeper "github.com/palomachain/paloma/v2/x/evm/keeper"
	evmtypes "github.com/palomachain/paloma/v2/x/evm/types"
)

// C09, validator-supplied evidence: whatever `Proof` the validators attach to MsgAddEvidence - for a
// relayed turnstone message, for the periodic validator-balance request and for the reference-block
// request - the block in which the evidence reaches a quorum (and every later block) must commit.
// The attestation loop runs inside the consensus module's EndBlock, which installs no recover.

type c09Proof struct {
	name string
	any  func() *codectypes.Any
}

func c09Any(t *testing.T, m proto.Message) *codectypes.Any {
	a, err := codectypes.NewAnyWithValue(m)
	if err != nil {
		t.Fatal(err)
	}
	return a
}

func c09JunkTx(height int64) []byte {
	key, _ := ethcrypto.ToECDSA(ethcrypto.Keccak256([]byte("c09-evidence")))
	to := common.HexToAddress("0x00000000000000000000000000000000000000C0")
	chainID := big.NewInt(4243)
	tx, _ := ethtypes.SignNewTx(key, ethtypes.NewLondonSigner(chainID), &ethtypes.DynamicFeeTx{
		ChainID: chainID, Nonce: uint64(height), To: &to, Data: []byte{0xa9, 0x30, 0xe8, 0xdc}, Gas: 100_000,
		GasFeeCap: big.NewInt(1_000_000_000), GasTipCap: big.NewInt(1),
	})
	raw, _ := tx.MarshalBinary()
	return raw
}

// c09EvidenceScenarios runs every (request kind x proof shape x who-sends-it) combination on one app.
func c09EvidenceScenarios(t *testing.T, r *Rec) {
	const chain = "c09ev"
	newApp := func() *FullApp {
		fa := NewFullApp(t, FullAppOpts{NumValidators: 4, NumUsers: 2, Seed: 900 + r.Seed%50})
		if b, err := fa.ActivateEVMChain(FAEvmChain{RefID: chain, ChainID: 4243, ABI: c05CompassABI(t), Bytecode: []byte{0x60, 0x01}}); err != nil || !b.OK() {
			t.Fatalf("c09 evidence: activate: %v %v", err, b.Err)
		}
		// the bystander lives on a second chain, whose queues are processed after those of the first
		if b, err := fa.ActivateEVMChain(FAEvmChain{RefID: chain + "z", ChainID: 4244, ABI: c05CompassABI(t), Bytecode: []byte{0x60, 0x01}}); err != nil || !b.OK() {
			t.Fatalf("c09 evidence: activate bystander chain: %v %v", err, b.Err)
		}
		if b := fa.KeepAliveAll(); !b.OK() {
			t.Fatalf("c09 evidence: keep alive: %v %s", b.Err, b.Panic)
		}
		return fa
	}
	fa := newApp() // replaced by a fresh application for every kind of request (the closures below see the current one)
	receiptOK, _ := (&ethtypes.Receipt{Type: ethtypes.DynamicFeeTxType, Status: ethtypes.ReceiptStatusSuccessful, CumulativeGasUsed: 21000}).MarshalBinary()
	receiptLog0, _ := (&ethtypes.Receipt{Type: ethtypes.DynamicFeeTxType, Status: ethtypes.ReceiptStatusSuccessful, CumulativeGasUsed: 21000,
		Logs: []*ethtypes.Log{{Address: common.HexToAddress("0x01"), Topics: nil, Data: []byte{1}}}}).MarshalBinary()
	nvals := 0
	{
		snap, err := fa.App().ValsetKeeper.GetCurrentSnapshot(fa.CtxCached())
		if err != nil || snap == nil {
			t.Fatalf("c09 evidence: no snapshot: %v", err)
		}
		nvals = len(snap.Validators)
	}
	many := func(n int, s string) []string {
		out := make([]string, n)
		for i := range out {
			out[i] = s
		}
		return out
	}
	generic := []c09Proof{
		{"nil", func() *codectypes.Any { return nil }},
		{"empty-any", func() *codectypes.Any { return &codectypes.Any{} }},
		{"typeurl-only", func() *codectypes.Any {
			return &codectypes.Any{TypeUrl: "/" + "palomachain.paloma.evm.TxExecutedProof"}
		}},
		{"not-evidence-type", func() *codectypes.Any {
			return c09Any(t, &banktypes.MsgSend{FromAddress: fa.User(0).Addr.String(), ToAddress: fa.User(1).Addr.String()})
		}},
		{"garbage-value", func() *codectypes.Any {
			return &codectypes.Any{TypeUrl: "/palomachain.paloma.evm.TxExecutedProof", Value: []byte{0xff, 0xff, 0xff, 0x01}}
		}},
		{"tx-empty", func() *codectypes.Any { return c09Any(t, &evmtypes.TxExecutedProof{}) }},
		{"tx-garbage", func() *codectypes.Any {
			return c09Any(t, &evmtypes.TxExecutedProof{SerializedTX: []byte{0x02, 0xc0}, SerializedReceipt: []byte{0x02}})
		}},
		{"tx-junk-receipt-log0", func() *codectypes.Any {
			return c09Any(t, &evmtypes.TxExecutedProof{SerializedTX: c09JunkTx(fa.Height()), SerializedReceipt: receiptLog0})
		}},
		{"tx-junk-ok", func() *codectypes.Any {
			return c09Any(t, &evmtypes.TxExecutedProof{SerializedTX: c09JunkTx(fa.Height()), SerializedReceipt: receiptOK})
		}},
		{"error-proof-empty", func() *codectypes.Any { return c09Any(t, &evmtypes.SmartContractExecutionErrorProof{}) }},
		{"error-proof-long", func() *codectypes.Any {
			return c09Any(t, &evmtypes.SmartContractExecutionErrorProof{ErrorMessage: strings.Repeat("x", 70000)})
		}},
		{"balances-none", func() *codectypes.Any { return c09Any(t, &evmtypes.ValidatorBalancesAttestationRes{}) }},
		{"balances-short", func() *codectypes.Any {
			return c09Any(t, &evmtypes.ValidatorBalancesAttestationRes{BlockHeight: 1, Balances: many(nvals-1, "1000000000000000000")})
		}},
		{"balances-long", func() *codectypes.Any {
			return c09Any(t, &evmtypes.ValidatorBalancesAttestationRes{BlockHeight: 1, Balances: many(nvals+3, "1000000000000000000")})
		}},
		{"balances-exact-huge", func() *codectypes.Any {
			return c09Any(t, &evmtypes.ValidatorBalancesAttestationRes{BlockHeight: 1, Balances: many(nvals, "1"+strings.Repeat("0", 400))})
		}},
		{"refblock-zero", func() *codectypes.Any { return c09Any(t, &evmtypes.ReferenceBlockAttestationRes{}) }},
		{"refblock-max", func() *codectypes.Any {
			return c09Any(t, &evmtypes.ReferenceBlockAttestationRes{BlockHeight: ^uint64(0), BlockHash: strings.Repeat("z", 5000)})
		}},
		{"balances-exact-junk", func() *codectypes.Any {
			b := many(nvals, "1000000000000000000")
			b[0], b[nvals-1] = "", "-0x1g"
			return c09Any(t, &evmtypes.ValidatorBalancesAttestationRes{BlockHeight: ^uint64(0), Balances: b})
		}},
	}
	type kind struct {
		name    string
		queue   string
		enqueue func(ctx sdk.Context) error
	}
	kinds := []kind{
		{"turnstone", consensustypes.Queue(evmtypes.ConsensusTurnstoneMessage, "evm", chain), func(ctx sdk.Context) error {
			ci, err := fa.App().EvmKeeper.GetChainInfo(ctx, chain)
			if err != nil {
				return err
			}
			_, err = fa.App().EvmKeeper.AddSmartContractExecutionToConsensus(ctx, chain, string(ci.SmartContractUniqueID), &evmtypes.SubmitLogicCall{
				HexContractAddress: "0x00000000000000000000000000000000000000aa", Abi: []byte("[]"), Payload: []byte{0x01, 0x02},
				Deadline: ctx.BlockTime().Unix() + 600, SenderAddress: fa.Vals[0].Addr,
			})
			return err
		}},
		{"balances", consensustypes.Queue(evmkeeper.ConsensusGetValidatorBalances, "evm", chain), func(ctx sdk.Context) error {
			return fa.App().EvmKeeper.CheckExternalBalancesForChain(ctx, chain)
		}},
		{"refblock", consensustypes.Queue(evmkeeper.ConsensusGetReferenceBlock, "evm", chain), func(ctx sdk.Context) error {
			return fa.App().EvmKeeper.ScheduleReferenceBlockForChain(ctx, chain)
		}},
	}
	valid := map[string]string{"turnstone": "tx-junk-ok", "balances": "balances-exact-huge", "refblock": "refblock-zero"}
	byName := map[string]c09Proof{}
	for _, p := range generic {
		byName[p.name] = p
	}
	for ki, k := range kinds {
		if ki > 0 {
			fa = newApp() // junk balances got validators jailed
		}
		for _, p := range generic {
			for _, mode := range []string{"all", "one"} {
				// all: every validator sends the hostile proof (it wins the tally);
				// one: one validator sends it, the others send a well-formed proof of this request kind
				label := fmt.Sprintf("evidence %s %s %s", k.name, p.name, mode)
				if fa.Broken {
					fa.Restart()
				}
				// the request is enqueued the way the module's own end-blocker does it
				if _, err := fa.WithDeliverCtx(func(ctx sdk.Context) error { return k.enqueue(ctx) }); err != nil {
					t.Fatalf("%s: enqueue: %v", label, err)
				}
				msgs, err := fa.App().ConsensusKeeper.GetMessagesFromQueue(fa.CtxCached(), k.queue, 0)
				if err != nil || len(msgs) == 0 {
					t.Fatalf("%s: nothing enqueued (%v)", label, err)
				}
				id := msgs[len(msgs)-1].GetId()
				// a bystander: a reference-block request, processed AFTER the request under test, for
				// which every validator sends the same well-formed evidence in the same block
				refQueue := consensustypes.Queue(evmkeeper.ConsensusGetReferenceBlock, "evm", chain+"z")
				if _, err := fa.WithDeliverCtx(func(ctx sdk.Context) error {
					return fa.App().EvmKeeper.ScheduleReferenceBlockForChain(ctx, chain+"z")
				}); err != nil {
					t.Fatalf("%s: enqueue bystander: %v", label, err)
				}
				refMsgs, err := fa.App().ConsensusKeeper.GetMessagesFromQueue(fa.CtxCached(), refQueue, 0)
				if err != nil || len(refMsgs) == 0 {
					t.Fatalf("%s: bystander not enqueued (%v)", label, err)
				}
				bystander := refMsgs[len(refMsgs)-1].GetId()
				var txs []FATx
				for i := range fa.Vals {
					v := fa.ValidatorOperator(i)
					proof := p.any()
					if mode == "one" && i != 1 {
						proof = byName[valid[k.name]].any()
					}
					txs = append(txs, FATx{Signers: []*FAAccount{v}, Msgs: []sdk.Msg{
						&consensustypes.MsgAddEvidence{Proof: proof, MessageID: id, QueueTypeName: k.queue, Metadata: FAMeta(v.Addr, v.Addr)},
					}})
				}
				// the bystander's evidence arrives one block later
				var btxs []FATx
				for i := range fa.Vals {
					v := fa.ValidatorOperator(i)
					btxs = append(btxs, FATx{Signers: []*FAAccount{v}, Msgs: []sdk.Msg{
						&consensustypes.MsgAddEvidence{Proof: c09Any(t, &evmtypes.ReferenceBlockAttestationRes{BlockHeight: uint64(1000 + fa.Height()), BlockHash: "0x01"}),
							MessageID: bystander, QueueTypeName: refQueue, Metadata: FAMeta(v.Addr, v.Addr)},
					}})
				}
				bystanderOK := true
				b := fa.DeliverTxs(txs...)
				accepted := 0
				for _, x := range b.Txs {
					if x.OK() {
						accepted++
					}
				}
				// the next block brings the bystander's evidence
				if b.OK() {
					b = fa.DeliverTxs(btxs...)
					for _, x := range b.Txs {
						if b.OK() && !x.OK() {
							// an earlier scenario got this validator jailed (junk balances do that): no quorum for the bystander
							bystanderOK = false
							r.Stat("evidence.bystander_incomplete")
						}
					}
				}
				out := "ok"
				// two more blocks: a stored hostile proof is looked at again by every later end-blocker
				for extra := 0; b.OK() && extra < 2; extra++ {
					b = fa.NextBlock()
				}
				if !b.OK() {
					out = "aborted"
					r.Hit("block_never_aborts", fmt.Sprintf("block aborted after MsgAddEvidence (%s request, proof shape %q sent by %s validator(s)): %v %s",
						k.name, p.name, mode, b.Err, firstLines(b.Panic, 8)),
						map[string]interface{}{"scenario": label, "accepted_evidence_txs": accepted, "seed": r.Seed})
					fa.Restart()
				}
				if out == "ok" && bystanderOK {
					// "values that cannot be processed are rejected when submitted or skipped with the rest of
					// the block unaffected": the bystander had unanimous well-formed evidence
					left, _ := fa.App().ConsensusKeeper.GetMessagesFromQueue(fa.CtxCached(), refQueue, 0)
					for _, m := range left {
						if m.GetId() == bystander {
							r.Hit("rest_of_block_unaffected", fmt.Sprintf("a request with unanimous well-formed evidence is not attested while a %s request carries evidence of shape %q from %s validator(s) (%d of those evidence txs were accepted)",
								k.name, p.name, mode, accepted), map[string]interface{}{"scenario": label, "seed": r.Seed})
						}
					}
				}
				r.Op(fmt.Sprintf("block %d %d", b.Height, len(txs)), out)
				r.Stat(fmt.Sprintf("evidence.%s.%s.accepted%d", k.name, mode, accepted))
				r.Case(label, accepted > 0)
				// drop whatever is left so that the scenarios stay independent
				if _, err := fa.WithDeliverCtx(func(ctx sdk.Context) error {
					for _, q := range []string{k.queue, refQueue} {
						left, err := fa.App().ConsensusKeeper.GetMessagesFromQueue(ctx, q, 0)
						if err != nil {
							return err
						}
						for _, m := range left {
							if err := fa.App().ConsensusKeeper.DeleteJob(ctx, q, m.GetId()); err != nil {
								return err
							}
						}
					}
					return nil
				}); err != nil && !fa.Broken {
					t.Fatalf("%s: cleanup: %v", label, err)
				}
			}
		}
	}
}
