//go:build verif

// C18 — light-node licences: escrow, creation, activation, vesting, attested sales.
//
// Boundary: the REAL app (harness/fullapp_harness_test.go).  User messages
// (MsgAddLightNodeClientLicense, MsgRegisterLightNodeClient, MsgAuthLightNodeClient,
// MsgSetLegacyLightNodeClients, bank MsgSend, feegrant MsgGrantAllowance) are signed
// transactions that pass the real ante chain and msg router, one per block — with ONE message each, or (op `tx`,
// c18_tx_test.go) with several messages of several creators / signers, bare or inside authz.MsgExec.  A sale is
// a MsgLightNodeSaleClaim signed and delivered by the (single, 100 % power) validator,
// reported from either of TWO active bridge chains (sale contracts are authorised per
// chain) and carrying any contract address string (the authorised one, another one, one
// authorised for a different chain, the empty string — nothing validates that field):
// the real claim handler stores the attestation and the real skyway EndBlocker of the
// same block tallies it and runs processAttestation -> handleLightNodeSale inside its
// own cache context.  Configuration (fee granter, funders, sale contracts) is applied
// by calling the two legacy governance proposal HANDLERS the gov module would call on
// a passed proposal, inside a block (WithDeliverCtx); the vote itself is not replayed.
// `fund` (mint to an account) and `gift` (keeper-level SendCoins to the escrow account,
// which user MsgSends cannot do because the module address is blocked) are test set-up.
// Op `wasm` (c18_contract_test.go): a CONTRACT dispatches messages as CosmosMsg::Any, bare or inside authz.MsgExec,
// through the application's one wasm messenger (no ante chain on that route).
package harness

import (
	"crypto/sha256"
	"encoding/hex"
	"fmt"
	"math/big"
	"sort"
	"strings"
	"testing"
	"time"

	sdkmath "cosmossdk.io/math"
	"cosmossdk.io/store/prefix"
	"cosmossdk.io/x/feegrant"
	wasmkeeper "github.com/CosmWasm/wasmd/x/wasm/keeper"
	sdk "github.com/cosmos/cosmos-sdk/types"
	authtypes "github.com/cosmos/cosmos-sdk/x/auth/types"
	vestingtypes "github.com/cosmos/cosmos-sdk/x/auth/vesting/types"
	banktypes "github.com/cosmos/cosmos-sdk/x/bank/types"
	minttypes "github.com/cosmos/cosmos-sdk/x/mint/types"
	palomamodule "github.com/palomachain/paloma/v2/x/paloma"
	palomatypes "github.com/palomachain/paloma/v2/x/paloma/types"
	skywaykeeper "github.com/palomachain/paloma/v2/x/skyway/keeper"
	skywaytypes "github.com/palomachain/paloma/v2/x/skyway/types"
	valsettypes "github.com/palomachain/paloma/v2/x/valset/types"
)

const (
	c18NAddr       = 9
	c18CasesPerApp = 25
	c18NSaleChains = 2 // chains 0 and 1 are active bridge chains whose claims the oracle tallies
)

// Chain reference ids.  0 and 1 are active EVM chains (sales are reported from either); 2 never reports
// anything and exists only as a key of the sale-contract store (a contract authorised for it must not
// authorise any other chain).
var c18Chains = []string{"test-chain", "chain-b", "other-chain"}

var c18Denoms = []string{"ugrain", "uother", "1x", "uthird"} // index 2 is not a valid denomination

var c18BadAddrs = []string{"", "foo", "paloma1", "cosmos1qqqqqqqqqqqqqqqqqqqqqqqqqqqqqqqqnrql8a", "paloma1qqqqqqqqqqqqqqqqqqqqqqqqqqqqqqqqqqqqqq"}

type c18Lic struct {
	amt    *big.Int
	denom  int
	months uint32
}

type c18Acc struct {
	kind        byte // n b v ?
	orig        *big.Int
	denom       int
	start, stop int64
}

func (a c18Acc) String() string {
	if a.kind == 'v' {
		return fmt.Sprintf("v:%s:%d:%d:%d", a.orig, a.denom, a.start, a.stop)
	}
	return string(a.kind)
}

// c18Key identifies an address STRING: account index and bech32 spelling (upper-case or canonical).
type c18Key struct {
	a  int
	up bool
}

func (k c18Key) String() string {
	if k.up {
		return fmt.Sprintf("%du", k.a)
	}
	return fmt.Sprint(k.a)
}

func c18KeyLess(x, y c18Key) bool { return x.a < y.a || (x.a == y.a && !x.up && y.up) }

type c18Obs struct {
	esc      [2]*big.Int
	lics     map[c18Key]c18Lic
	foreign  int // licences of unknown addresses / denominations
	acc      [c18NAddr]c18Acc
	bal, lk  [c18NAddr][2]*big.Int
	clients  []c18Key
	grants   map[[2]int]bool
	fg       int    // -1 unset, -2 unknown
	funders  []int  // nil = none
	contract [3]int // per chain of c18Chains: contract string code (see contractStr), -1 no record, -2 unknown string
	nacc     uint64
	digest   string // paloma + feegrant stores
}

type c18Env struct {
	t       *testing.T
	r       *Rec
	fa      *FullApp
	compass [c18NSaleChains]string
	onApp   int
	ethH    uint64
	blocks  int64
	sink    *FAAccount
	caseNo  int
	// the application's wasm messenger (Paloma's router around wasmd's handler): ONE value per application, like
	// on a node — every contract dispatch of every case on this application goes through it (c18_contract_test.go)
	wasm wasmkeeper.Messenger
}

type c18Case struct {
	e         *c18Env
	accts     [c18NAddr]*FAAccount
	idx       map[string]int
	ops       []string
	prev      *c18Obs
	gifts     [2]*big.Int
	activated map[int]bool
	baseNacc  uint64
	nLic      int
	nAct      int
	kinds     []string
}

// ---------------------------------------------------------------------------
// environment
// ---------------------------------------------------------------------------

func (e *c18Env) newApp() {
	e.fa = NewFullApp(e.t, FullAppOpts{NumValidators: 1, NumUsers: 1, Seed: e.r.Seed*1000 + int64(e.caseNo)})
	if b, err := e.fa.ActivateEVMChain(FAEvmChain{RefID: c18Chains[0], ChainID: 1337}); err != nil || !b.OK() {
		e.t.Fatalf("activate chain %s: %v %v", c18Chains[0], err, b.Err)
	}
	for i := 1; i < c18NSaleChains; i++ {
		if b, err := e.c18AddChain(c18Chains[i], uint64(1337+i)); err != nil || !b.OK() {
			e.t.Fatalf("activate chain %s: %v %v", c18Chains[i], err, b.Err)
		}
	}
	for i := 0; i < c18NSaleChains; i++ {
		ci, err := e.fa.App().EvmKeeper.GetChainInfo(e.fa.CtxCached(), c18Chains[i])
		if err != nil {
			e.t.Fatal(err)
		}
		e.compass[i] = string(ci.SmartContractUniqueID)
	}
	e.sink = e.fa.User(0)
	e.wasm = e.fa.App().VerifWasmMessenger()
	e.onApp, e.ethH, e.blocks = 0, 100, e.fa.Height()
	// the escrow module account is created lazily; create it before any baseline is taken
	if _, err := e.fa.WithDeliverCtx(func(ctx sdk.Context) error {
		e.fa.App().AccountKeeper.GetModuleAccount(ctx, palomatypes.ModuleName)
		return nil
	}); err != nil {
		e.t.Fatal(err)
	}
	if b := e.fa.KeepAliveAll(); !b.OK() {
		e.t.Fatalf("keepalive: %v", b.Err)
	}
}

// c18AddChain activates a further EVM chain that runs the compass contract already on record
// (FullApp.ActivateEVMChain would save a new contract and try to deploy it to the first chain).
func (e *c18Env) c18AddChain(ref string, chainID uint64) (FABlockResult, error) {
	fa := e.fa
	return fa.WithDeliverCtx(func(ctx sdk.Context) error {
		a := fa.App()
		if err := a.EvmKeeper.AddSupportForNewChain(ctx, ref, chainID, 100, "0x1234567890123456789012345678901234567890123456789012345678901234", big.NewInt(0)); err != nil {
			return err
		}
		if err := a.EvmKeeper.SetFeeManagerAddress(ctx, ref, "0x00000000000000000000000000000000000000FE"); err != nil {
			return err
		}
		if err := fa.registerValidatorsOnChain(ctx, ref, ""); err != nil {
			return err
		}
		sc, err := a.EvmKeeper.GetLastCompassContract(ctx)
		if err != nil {
			return err
		}
		if err := a.EvmKeeper.ActivateChainReferenceID(ctx, ref, sc, "0x00000000000000000000000000000000000000C1", []byte("compass-"+ref)); err != nil {
			return err
		}
		a.MetrixKeeper.UpdateUptime(ctx)
		_, err = a.ValsetKeeper.TriggerSnapshotBuild(ctx)
		return err
	})
}

func (e *c18Env) modAddr() sdk.AccAddress {
	return authtypes.NewModuleAddress(palomatypes.ModuleName)
}

// wipe removes every light-node record and empties the escrow account so that each
// case starts from the model's initial state (test set-up, not part of the property).
func (e *c18Env) wipe() {
	app := e.fa.App()
	_, err := e.fa.WithDeliverCtx(func(ctx sdk.Context) error {
		st := app.PalomaKeeper.Store(ctx)
		for _, pfx := range [][]byte{palomatypes.LightNodeClientLicenseKeyPrefix, palomatypes.LightNodeClientKeyPrefix} {
			ps := prefix.NewStore(st, pfx)
			var keys [][]byte
			it := ps.Iterator(nil, nil)
			for ; it.Valid(); it.Next() {
				keys = append(keys, append([]byte(nil), it.Key()...))
			}
			it.Close()
			for _, k := range keys {
				ps.Delete(k)
			}
		}
		st.Delete(palomatypes.LightNodeClientFeegranterKey)
		st.Delete(palomatypes.LightNodeClientFundersKey)
		if err := app.SkywayKeeper.SetAllLighNodeSaleContracts(ctx, nil); err != nil {
			return err
		}
		if bal := app.BankKeeper.GetAllBalances(ctx, e.modAddr()); !bal.IsZero() {
			return app.BankKeeper.SendCoinsFromModuleToAccount(ctx, palomatypes.ModuleName, e.sink.Addr, bal)
		}
		return nil
	})
	if err != nil {
		e.t.Fatalf("wipe: %v", err)
	}
}

func (e *c18Env) keepAlive() {
	if e.fa.Height()-e.blocks > 400 {
		if b := e.fa.KeepAliveAll(); !b.OK() {
			e.t.Fatalf("keepalive: %v", b.Err)
		}
		e.blocks = e.fa.Height()
	}
}

// ---------------------------------------------------------------------------
// observation
// ---------------------------------------------------------------------------

func c18DenomIdx(d string) int {
	for i, x := range c18Denoms {
		if x == d {
			return i
		}
	}
	return -1
}

// strKey maps an address string (either spelling) to its key; a < 0 if unknown.
func (c *c18Case) strKey(s string) c18Key {
	if i, ok := c.idx[s]; ok {
		return c18Key{i, false}
	}
	if i, ok := c.idx[strings.ToLower(s)]; ok && s == strings.ToUpper(s) {
		return c18Key{i, true}
	}
	return c18Key{-2, false}
}

func (c *c18Case) addrIdx(bech string) int {
	if i, ok := c.idx[bech]; ok {
		return i
	}
	return -2
}

func (c *c18Case) observe() *c18Obs { return c.observeCtx(c.e.fa.CtxCached(), true) }

// observeCtx reads the state visible in ctx; digest=false skips the (committed-state) store digests.
func (c *c18Case) observeCtx(ctx sdk.Context, digest bool) *c18Obs {
	fa, app := c.e.fa, c.e.fa.App()
	o := &c18Obs{lics: map[c18Key]c18Lic{}, grants: map[[2]int]bool{}, fg: -1, contract: [3]int{-1, -1, -1}}
	for d := 0; d < 2; d++ {
		o.esc[d] = app.BankKeeper.GetBalance(ctx, c.e.modAddr(), c18Denoms[d]).Amount.BigInt()
	}
	lics, err := app.PalomaKeeper.AllLightNodeClientLicenses(ctx)
	if err != nil {
		c.e.t.Fatal(err)
	}
	for _, l := range lics {
		k, d := c.strKey(l.ClientAddress), c18DenomIdx(l.Amount.Denom)
		if k.a < 0 || d < 0 || d > 1 {
			o.foreign++
			continue
		}
		o.lics[k] = c18Lic{l.Amount.Amount.BigInt(), d, l.VestingMonths}
	}
	for i, a := range c.accts {
		switch acc := app.AccountKeeper.GetAccount(ctx, a.Addr).(type) {
		case nil:
			o.acc[i] = c18Acc{kind: 'n'}
		case *authtypes.BaseAccount:
			o.acc[i] = c18Acc{kind: 'b'}
		case *vestingtypes.ContinuousVestingAccount:
			o.acc[i] = c18Acc{kind: '?'}
			if len(acc.OriginalVesting) == 1 && acc.DelegatedFree.IsZero() && acc.DelegatedVesting.IsZero() {
				if d := c18DenomIdx(acc.OriginalVesting[0].Denom); d >= 0 {
					o.acc[i] = c18Acc{'v', acc.OriginalVesting[0].Amount.BigInt(), d, acc.StartTime, acc.EndTime}
				}
			}
		default:
			o.acc[i] = c18Acc{kind: '?'}
		}
		locked := app.BankKeeper.LockedCoins(ctx, a.Addr)
		for d := 0; d < 2; d++ {
			o.bal[i][d] = app.BankKeeper.GetBalance(ctx, a.Addr, c18Denoms[d]).Amount.BigInt()
			o.lk[i][d] = locked.AmountOf(c18Denoms[d]).BigInt()
		}
	}
	cls, err := app.PalomaKeeper.AllLightNodeClients(ctx)
	if err != nil {
		c.e.t.Fatal(err)
	}
	for _, cl := range cls {
		o.clients = append(o.clients, c.strKey(cl.ClientAddress))
	}
	sort.Slice(o.clients, func(i, j int) bool { return c18KeyLess(o.clients[i], o.clients[j]) })
	_ = app.FeeGrantKeeper.IterateAllFeeAllowances(ctx, func(g feegrant.Grant) bool {
		a, b := c.addrIdx(g.Granter), c.addrIdx(g.Grantee)
		if a >= 0 || b >= 0 {
			o.grants[[2]int{a, b}] = true
		}
		return false
	})
	if fg, err := app.PalomaKeeper.LightNodeClientFeegranter(ctx); err == nil {
		o.fg = c.addrIdx(fg.Account.String())
	}
	if fu, err := app.PalomaKeeper.LightNodeClientFunders(ctx); err == nil {
		o.funders = []int{}
		for _, a := range fu.Accounts {
			o.funders = append(o.funders, c.addrIdx(a.String()))
		}
	}
	for ch, name := range c18Chains {
		// a record EXISTS for the chain (whatever address string it holds) iff the lookup succeeds
		if sc, err := app.SkywayKeeper.LightNodeSaleContract(ctx, name); err == nil && sc != nil {
			o.contract[ch] = c18ContractCode(sc.ContractAddress)
		}
	}
	n, err := app.AccountKeeper.AccountNumber.Peek(ctx)
	if err != nil {
		c.e.t.Fatal(err)
	}
	o.nacc = n - c.baseNacc
	if !digest {
		return o
	}
	h := sha256.New()
	for _, name := range []string{palomatypes.StoreKey, feegrant.StoreKey} {
		for _, kv := range fa.DumpStore(name) {
			fmt.Fprintf(h, "%d:%d:", len(kv[0]), len(kv[1]))
			h.Write(kv[0])
			h.Write(kv[1])
		}
	}
	o.digest = hex.EncodeToString(h.Sum(nil))
	return o
}

func c18Join(sep string, l []string) string {
	if len(l) == 0 {
		return "-"
	}
	return strings.Join(l, sep)
}

func c18Ints(l []int) string {
	s := make([]string, len(l))
	for i, x := range l {
		s[i] = fmt.Sprint(x)
	}
	return c18Join(",", s)
}

// line renders the observation exactly as Driver/C18.lean showState does.
// withLocked=false leaves out the time-dependent part (for the no-op monitor).
func (o *c18Obs) line(withLocked bool) string {
	var lic, acc, bal, lk, gr []string
	keys := make([]c18Key, 0, len(o.lics))
	for k := range o.lics {
		keys = append(keys, k)
	}
	sort.Slice(keys, func(i, j int) bool { return c18KeyLess(keys[i], keys[j]) })
	for _, k := range keys {
		l := o.lics[k]
		lic = append(lic, fmt.Sprintf("%s:%s:%d:%d", k, l.amt, l.denom, l.months))
	}
	var cls []string
	for _, k := range o.clients {
		cls = append(cls, k.String())
	}
	for i := 0; i < c18NAddr; i++ {
		acc = append(acc, o.acc[i].String())
		bal = append(bal, o.bal[i][0].String()+":"+o.bal[i][1].String())
		lk = append(lk, o.lk[i][0].String()+":"+o.lk[i][1].String())
	}
	var gs [][2]int
	for g := range o.grants {
		gs = append(gs, g)
	}
	sort.Slice(gs, func(i, j int) bool { return gs[i][0] < gs[j][0] || (gs[i][0] == gs[j][0] && gs[i][1] < gs[j][1]) })
	for _, g := range gs {
		gr = append(gr, fmt.Sprintf("%d>%d", g[0], g[1]))
	}
	fg, fu, ct := "-", "none", "-"
	if o.fg != -1 {
		fg = fmt.Sprint(o.fg)
	}
	if len(o.funders) > 0 {
		fu = c18Ints(o.funders)
	}
	var cts []string
	for ch, code := range o.contract {
		if code != -1 {
			cts = append(cts, fmt.Sprintf("%d:%d", ch, code))
		}
	}
	if len(cts) > 0 {
		ct = strings.Join(cts, ";")
	}
	lks := ""
	if withLocked {
		lks = " lk=" + strings.Join(lk, ",")
	}
	s := fmt.Sprintf("esc=%s,%s lic=%s acc=%s bal=%s%s cl=%s gr=%s cfg=%s/%s/%s n=%d",
		o.esc[0], o.esc[1], c18Join(";", lic), strings.Join(acc, ","), strings.Join(bal, ","), lks,
		c18Join(",", cls), c18Join(",", gr), fg, fu, ct, o.nacc)
	if o.foreign > 0 {
		s += fmt.Sprintf(" foreign=%d", o.foreign)
	}
	return s
}

// ---------------------------------------------------------------------------
// operations
// ---------------------------------------------------------------------------

type c18Op struct {
	kind            string
	t               int64
	signer, creator int
	client          int // -1 = malformed string
	bad             string
	upClient        bool // client address string in its upper-case bech32 spelling
	upCreator       bool // Metadata.Creator in its upper-case spelling (activate / auth)
	amt             *big.Int
	denom           int
	months          uint32
	chain           int      // sale: index into c18Chains of the claim's chain_reference_id
	contract        int      // sale: code of the claim's smart_contract_address string
	pairs           [][2]int // setcontracts: (chain, contract string code) records in proposal order
	list            []int
	msgs            []c18Op // tx / wasm: the messages of ONE transaction / dispatch, in order (see c18_tx_test.go)
	wrap            int     // message of a tx: number of authz.MsgExec wrappers (grantee = the declared signer) around it; wasm: around the message list
	grantee         int     // wasm: the grantee of the MsgExec wrappers (signer = the dispatching contract)
}

func (c *c18Case) at(t int64) { c.e.fa.NextTime = time.Unix(t, 0).UTC() }

func c18Res(r FATxResult) string {
	switch {
	case r.Panicked || r.BlockErr != "":
		return "panic"
	case r.Code == 0:
		return "ok"
	default:
		return "rejected"
	}
}

func (c *c18Case) hook(t int64, fn func(ctx sdk.Context) error) string {
	c.at(t)
	b, err := c.e.fa.WithDeliverCtx(fn)
	if !b.OK() {
		c.e.t.Fatalf("block failed: %v %s", b.Err, b.Panic)
	}
	if err != nil {
		if strings.Contains(err.Error(), "panicked") {
			return "panic"
		}
		return "rejected"
	}
	return "ok"
}

func (c *c18Case) clientStr(op c18Op) string {
	if op.client < 0 {
		return op.bad
	}
	if op.upClient {
		return strings.ToUpper(c.accts[op.client].Addr.String())
	}
	return c.accts[op.client].Addr.String()
}

func (op c18Op) clientKey() c18Key  { return c18Key{op.client, op.upClient} }
func (op c18Op) creatorKey() c18Key { return c18Key{op.creator, op.upCreator} }

// creatorMeta builds the metadata of an activate/auth message (creator possibly upper-case).
func (c *c18Case) creatorMeta(op c18Op) valsettypes.MsgMetadata {
	m := FAMeta(c.accts[op.creator].Addr, c.accts[op.signer].Addr)
	if op.upCreator {
		m.Creator = strings.ToUpper(m.Creator)
	}
	return m
}

func c18OptAddr(i int) string {
	if i < 0 {
		return "x"
	}
	return fmt.Sprint(i)
}

func c18OptKey(k c18Key) string {
	if k.a < 0 {
		return "x"
	}
	return k.String()
}

// contractStr: the smart-contract address STRING with code n.  Code 0 is the EMPTY string (which
// MsgLightNodeSaleClaim.ValidateBasic and the proposal handler both let through), n > 0 a hex address.
func (c *c18Case) contractStr(n int) string {
	if n == 0 {
		return ""
	}
	return fmt.Sprintf("0x%040x", n)
}

func c18ContractCode(s string) int {
	if s == "" {
		return 0
	}
	var n int
	if _, err := fmt.Sscanf(s, "0x%x", &n); err == nil && n > 0 && fmt.Sprintf("0x%040x", n) == s {
		return n
	}
	return -2
}

// exec runs one operation against the app; returns the op line and the result.
func (c *c18Case) exec(op c18Op) (string, string) {
	fa, app := c.e.fa, c.e.fa.App()
	t := op.t
	switch op.kind {
	case "fund", "gift", "setfg", "setfunders", "setcontracts", "reimport":
		line, fn := c.hookFn(op)
		res := c.hook(t, fn)
		if op.kind == "gift" && res == "ok" {
			c.gifts[op.denom].Add(c.gifts[op.denom], op.amt)
		}
		return line, res
	case "create":
		line := fmt.Sprintf("create %d %d %d %s %s %d %d", t, op.signer, op.creator, c18OptKey(op.clientKey()), op.amt, op.denom, op.months)
		msg := &palomatypes.MsgAddLightNodeClientLicense{
			Metadata:      FAMeta(c.accts[op.creator].Addr, c.accts[op.signer].Addr),
			ClientAddress: c.clientStr(op),
			Amount:        sdk.Coin{Denom: c18Denoms[op.denom], Amount: sdkmath.NewIntFromBigInt(op.amt)},
			VestingMonths: op.months,
		}
		c.at(t)
		return line, c18Res(fa.DeliverTx(c.accts[op.signer], msg))
	case "sale":
		line := fmt.Sprintf("sale %d %d %s %s %d", t, op.chain, c18OptKey(op.clientKey()), op.amt, op.contract)
		chain := c18Chains[op.chain]
		v := fa.ValidatorOperator(0)
		nonce, err := app.SkywayKeeper.GetLastSkywayNonceByValidator(fa.CtxCached(), v.ValAddr(), chain)
		if err != nil {
			c.e.t.Fatal(err)
		}
		c.e.ethH++
		claim := &skywaytypes.MsgLightNodeSaleClaim{
			Metadata: FAMeta(v.Addr, v.Addr), EventNonce: nonce + 1, EthBlockHeight: c.e.ethH, Orchestrator: v.Addr.String(),
			ChainReferenceId: chain, SkywayNonce: nonce + 1, ClientAddress: c.clientStr(op),
			Amount: sdkmath.NewIntFromBigInt(op.amt), SmartContractAddress: c.contractStr(op.contract), CompassId: c.e.compass[op.chain],
		}
		c.at(t)
		r := fa.DeliverTx(v, claim)
		if !r.OK() {
			c.e.t.Fatalf("claim tx failed: code=%d %s %s", r.Code, r.Log, r.BlockErr)
		}
		last, err := app.SkywayKeeper.GetLastObservedSkywayNonce(fa.CtxCached(), chain)
		if err != nil || last != nonce+1 {
			c.e.t.Fatalf("claim %d was not observed in its block (last observed %d, %v)", nonce+1, last, err)
		}
		// processAttestation swallows the handler's error: success is visible only as state
		res := "rejected"
		if op.client >= 0 {
			if lics, _ := app.PalomaKeeper.AllLightNodeClientLicenses(fa.CtxCached()); lics != nil {
				for _, l := range lics {
					if l.ClientAddress == c.clientStr(op) {
						if _, had := c.prev.lics[op.clientKey()]; !had {
							res = "ok"
						}
					}
				}
			}
		}
		return line, res
	case "activate":
		// the end of the vesting period is NOT passed to the model: the model derives it from the stored
		// licence (`addMonths`), and the account column of the state line compares it with the stored EndTime
		line := fmt.Sprintf("activate %d %d %s", t, op.signer, op.creatorKey())
		msg := &palomatypes.MsgRegisterLightNodeClient{Metadata: c.creatorMeta(op)}
		c.at(t)
		return line, c18Res(fa.DeliverTx(c.accts[op.signer], msg))
	case "auth":
		line := fmt.Sprintf("auth %d %d %s", t, op.signer, op.creatorKey())
		msg := &palomatypes.MsgAuthLightNodeClient{Metadata: c.creatorMeta(op)}
		c.at(t)
		return line, c18Res(fa.DeliverTx(c.accts[op.signer], msg))
	case "legacy":
		line := fmt.Sprintf("legacy %d %d %d", t, op.signer, op.creator)
		msg := &palomatypes.MsgSetLegacyLightNodeClients{Metadata: FAMeta(c.accts[op.creator].Addr, c.accts[op.signer].Addr)}
		c.at(t)
		return line, c18Res(fa.DeliverTx(c.accts[op.signer], msg))
	case "send":
		line := fmt.Sprintf("send %d %d %s %d %s", t, op.signer, c18OptAddr(op.client), op.denom, op.amt)
		to := c.e.modAddr()
		if op.client >= 0 {
			to = c.accts[op.client].Addr
		}
		msg := &banktypes.MsgSend{FromAddress: c.accts[op.signer].Addr.String(), ToAddress: to.String(),
			Amount: sdk.Coins{sdk.Coin{Denom: c18Denoms[op.denom], Amount: sdkmath.NewIntFromBigInt(op.amt)}}}
		c.at(t)
		return line, c18Res(fa.DeliverTx(c.accts[op.signer], msg))
	case "grant":
		line := fmt.Sprintf("grant %d %d %d", t, op.signer, op.client)
		c.at(t)
		msg, err := feegrant.NewMsgGrantAllowance(&feegrant.BasicAllowance{}, c.accts[op.signer].Addr, c.accts[op.client].Addr)
		if err != nil {
			c.e.t.Fatal(err)
		}
		return line, c18Res(fa.DeliverTx(c.accts[op.signer], msg))
	case "tx":
		return c.execTx(op)
	case "wasm":
		return c.execWasm(op)
	}
	c.e.t.Fatalf("unknown op %q", op.kind)
	return "", ""
}

// hookFn: the operations that are not transactions (test set-up and governance handlers).
func (c *c18Case) hookFn(op c18Op) (string, func(ctx sdk.Context) error) {
	app := c.e.fa.App()
	t := op.t
	switch op.kind {
	case "fund":
		line := fmt.Sprintf("fund %d %d %s", op.client, op.denom, op.amt)
		coins := sdk.NewCoins(sdk.NewCoin(c18Denoms[op.denom], sdkmath.NewIntFromBigInt(op.amt)))
		return line, func(ctx sdk.Context) error {
			if err := app.BankKeeper.MintCoins(ctx, minttypes.ModuleName, coins); err != nil {
				return err
			}
			return app.BankKeeper.SendCoinsFromModuleToAccount(ctx, minttypes.ModuleName, c.accts[op.client].Addr, coins)
		}
	case "gift":
		line := fmt.Sprintf("gift %d %d %d %s", t, op.signer, op.denom, op.amt)
		return line, func(ctx sdk.Context) error {
			return app.BankKeeper.SendCoins(ctx, c.accts[op.signer].Addr, c.e.modAddr(),
				sdk.Coins{sdk.Coin{Denom: c18Denoms[op.denom], Amount: sdkmath.NewIntFromBigInt(op.amt)}})
		}
	case "reimport":
		// the chain is exported and started again from the export (the paloma module): what is NOT configured must still
		// be not configured afterwards, what is must still be there
		return fmt.Sprintf("reimport %d", t), func(ctx sdk.Context) error {
			return c.e.fa.ReimportModuleCtx(ctx, "paloma", "paloma-store")
		}
	case "setfg":
		line := fmt.Sprintf("setfg %d %d", t, op.client)
		ph := palomamodule.NewPalomaProposalHandler(app.PalomaKeeper)
		return line, func(ctx sdk.Context) error {
			return ph(ctx, &palomatypes.SetLightNodeClientFeegranterProposal{Title: "t", Description: "d", FeegranterAccount: c.accts[op.client].Addr.String()})
		}
	case "setfunders":
		line := fmt.Sprintf("setfunders %d %s", t, c18Ints(op.list))
		var l []string
		for _, i := range op.list {
			l = append(l, c.accts[i].Addr.String())
		}
		ph := palomamodule.NewPalomaProposalHandler(app.PalomaKeeper)
		return line, func(ctx sdk.Context) error {
			return ph(ctx, &palomatypes.SetLightNodeClientFundersProposal{Title: "t", Description: "d", FunderAccounts: l})
		}
	case "setcontracts":
		var l []*skywaytypes.LightNodeSaleContract
		var cs []string
		for _, p := range op.pairs {
			cs = append(cs, fmt.Sprintf("%d:%d", p[0], p[1]))
			l = append(l, &skywaytypes.LightNodeSaleContract{ChainReferenceId: c18Chains[p[0]], ContractAddress: c.contractStr(p[1])})
		}
		line := fmt.Sprintf("setcontracts %d %s", t, c18Join(";", cs))
		sh := skywaykeeper.NewSkywayProposalHandler(app.SkywayKeeper)
		return line, func(ctx sdk.Context) error {
			return sh(ctx, &skywaytypes.SetLightNodeSaleContractsProposal{Title: "t", Description: "d", LightNodeSaleContracts: l})
		}
	}
	c.e.t.Fatalf("not a hook op %q", op.kind)
	return "", nil
}

func (c *c18Case) replay() []string { return append([]string(nil), c.ops...) }

func (c *c18Case) hit(mon, what string) { c.e.r.Hit(mon, what, c.replay()) }

// do executes op, records it, and evaluates the property monitors on the observed behaviour.
func (c *c18Case) do(op c18Op) string {
	if op.kind != "fund" {
		c.e.keepAlive()
	}
	line, res := c.exec(op)
	c.record(op, line, res, c.observe())
	if op.kind == "activate" && res == "ok" {
		c.probes(op.creator, c.prev)
	}
	if op.carries() && res == "ok" {
		for _, m := range op.msgs {
			if m.kind == "activate" {
				c.probes(m.creator, c.prev)
			}
		}
	}
	return res
}

// doBatch runs several non-transaction operations in ONE block, observing the block's
// working state after each of them (each in its own cache context, like a block hook).
func (c *c18Case) doBatch(ops []c18Op) {
	if len(ops) == 0 {
		return
	}
	t := c.now()
	c.at(t)
	b, err := c.e.fa.WithDeliverCtx(func(ctx sdk.Context) error {
		for _, op := range ops {
			op.t = t
			line, fn := c.hookFn(op)
			cctx, write := ctx.CacheContext()
			res := "ok"
			if err := fn(cctx); err != nil {
				res = "rejected"
			} else {
				write()
			}
			c.record(op, line, res, c.observeCtx(ctx, false))
		}
		return nil
	})
	if err != nil || !b.OK() {
		c.e.t.Fatalf("batch block failed: %v %v %s", err, b.Err, b.Panic)
	}
	last := c.prev
	c.prev = c.observe()
	if last.line(true) != c.prev.line(true) {
		c.e.t.Fatalf("in-block observation differs from committed state:\n%s\n%s", last.line(true), c.prev.line(true))
	}
}

func (c *c18Case) record(op c18Op, line, res string, cur *c18Obs) {
	prev := c.prev
	c.ops = append(c.ops, line)
	c.e.r.Op(line, res+" "+cur.line(true))
	c.e.r.Stat("op." + op.kind)
	c.e.r.Stat("res." + op.kind + "." + res)
	c.kinds = append(c.kinds, op.kind+"/"+res)
	c.monitors(op, line, res, prev, cur)
	c.prev = cur
}

func c18Eq(a, b *big.Int) bool { return a.Cmp(b) == 0 }

func (c *c18Case) monitors(op c18Op, line, res string, prev, cur *c18Obs) {
	// escrow covers (and, gifts accounted for, equals) the outstanding licences
	if cur.foreign > 0 {
		c.hit("escrow_eq_sum_licences", fmt.Sprintf("licence table has %d entries for unknown addresses/denominations after `%s`", cur.foreign, line))
	}
	for d := 0; d < 2; d++ {
		sum := new(big.Int)
		for _, l := range cur.lics {
			if l.denom == d {
				sum.Add(sum, l.amt)
			}
		}
		if cur.esc[d].Cmp(sum) < 0 {
			c.hit("escrow_covers", fmt.Sprintf("denom %d: escrow %s < outstanding licences %s after `%s`", d, cur.esc[d], sum, line))
		}
		if want := new(big.Int).Add(sum, c.gifts[d]); !c18Eq(cur.esc[d], want) {
			c.hit("escrow_eq_sum_licences", fmt.Sprintf("denom %d: escrow %s != licences %s + gifts %s after `%s`", d, cur.esc[d], sum, c.gifts[d], line))
		}
	}
	// conservation: only `fund` creates coins among the tracked holders
	for d := 0; d < 2; d++ {
		tot := func(o *c18Obs) *big.Int {
			s := new(big.Int).Set(o.esc[d])
			for i := 0; i < c18NAddr; i++ {
				s.Add(s, o.bal[i][d])
			}
			return s
		}
		want := tot(prev)
		if op.kind == "fund" && op.denom == d {
			want.Add(want, op.amt)
		}
		if !c18Eq(tot(cur), want) {
			c.hit("conservation", fmt.Sprintf("denom %d: holders+escrow %s, want %s after `%s`", d, tot(cur), want, line))
		}
	}
	// a rejected operation changes nothing
	if res != "ok" {
		if prev.line(false) != cur.line(false) || prev.digest != cur.digest {
			c.hit("failed_op_is_noop", fmt.Sprintf("rejected `%s` changed state: %s -> %s (store digests equal: %v)", line, prev.line(false), cur.line(false), prev.digest == cur.digest))
		}
		if op.kind == "sale" {
			c.hit2SaleStats(op, prev)
		}
	}
	// vesting accounts only arise from a successful activation of that address, and never change again
	for i := 0; i < c18NAddr; i++ {
		if prev.acc[i].kind == 'v' && prev.acc[i].String() != cur.acc[i].String() {
			c.hit("activate_once", fmt.Sprintf("vesting account %d changed %s -> %s by `%s`", i, prev.acc[i], cur.acc[i], line))
		}
		if prev.acc[i].kind != 'v' && cur.acc[i].kind != prev.acc[i].kind && cur.acc[i].kind != 'b' {
			if !(res == "ok" && cur.acc[i].kind == 'v' && (op.kind == "activate" && op.creator == i || op.carries() && op.txActivates(i))) {
				c.hit("activation_exact", fmt.Sprintf("account %d became %s by `%s`", i, cur.acc[i], line))
			}
		}
		// at most one licence per address, whatever the spelling of the key
		if _, lo := cur.lics[c18Key{i, false}]; lo {
			if _, up := cur.lics[c18Key{i, true}]; up {
				c.hit("create_requires_fresh", fmt.Sprintf("address %d holds two licences after `%s`", i, line))
			}
		}
	}
	for k := range cur.lics {
		if _, had := prev.lics[k]; !had && !(res == "ok" && ((op.kind == "create" || op.kind == "sale") && op.clientKey() == k || op.carries() && op.txCreates(k))) {
			c.hit("create_requires_fresh", fmt.Sprintf("licence for %s appeared by `%s`", k, line))
		}
		if cur.acc[k.a].kind != 'b' {
			c.hit("create_requires_fresh", fmt.Sprintf("licensed address %s has account %s after `%s`", k, cur.acc[k.a], line))
		}
	}
	if res != "ok" {
		return
	}
	switch op.kind {
	case "tx":
		c.txMonitors(op, line, prev, cur)
	case "wasm":
		c.wasmMonitors(op, line, prev, cur)
	case "create", "sale":
		c.nLic++
		amt, denom, months, payer := op.amt, op.denom, op.months, op.creator
		if op.kind == "sale" {
			amt, denom, months = new(big.Int).Mul(op.amt, big.NewInt(1_000_000)), 0, 24
			payer = -1
			for i := 0; i < c18NAddr; i++ {
				if prev.bal[i][0].Cmp(cur.bal[i][0]) > 0 {
					payer = i
				}
			}
		}
		if op.client < 0 {
			c.hit("create_requires_fresh", fmt.Sprintf("`%s` accepted for a malformed address", line))
			return
		}
		_, hadLo := prev.lics[c18Key{op.client, false}]
		_, hadUp := prev.lics[c18Key{op.client, true}]
		if hadLo || hadUp || prev.acc[op.client].kind != 'n' {
			c.hit("create_requires_fresh", fmt.Sprintf("`%s` accepted although client had account %s / licence %v", line, prev.acc[op.client], hadLo || hadUp))
		}
		l, has := cur.lics[op.clientKey()]
		if !has || !c18Eq(l.amt, amt) || l.denom != denom || l.months != months || cur.acc[op.client].kind != 'b' {
			c.hit("create_requires_fresh", fmt.Sprintf("`%s` accepted but licence is %v (has=%v), account %s", line, l, has, cur.acc[op.client]))
		}
		if amt.Sign() <= 0 || !c18Eq(new(big.Int).Sub(cur.esc[denom], prev.esc[denom]), amt) {
			c.hit("escrow_eq_sum_licences", fmt.Sprintf("`%s`: escrow moved %s -> %s for amount %s", line, prev.esc[denom], cur.esc[denom], amt))
		}
		if payer < 0 || !c18Eq(new(big.Int).Sub(prev.bal[payer][denom], cur.bal[payer][denom]), amt) {
			c.hit("escrow_eq_sum_licences", fmt.Sprintf("`%s`: payer %d was not debited exactly %s", line, payer, amt))
		}
		if op.kind == "sale" {
			okFunder := false
			for _, f := range prev.funders {
				if f >= 0 && prev.bal[f][0].Cmp(amt) >= 0 {
					okFunder = true
				}
			}
			// "only if … an authorised sale contract [is] configured": the chain the sale was reported from
			// has a sale-contract record, and the claim names exactly the address string of that record
			auth := prev.contract[op.chain]
			if auth == -1 {
				c.hit("sale_all_or_nothing", fmt.Sprintf("`%s` created a licence although no sale contract is configured for chain %d (claimed contract %q; configured per chain: %v)", line, op.chain, c.contractStr(op.contract), prev.contract))
			} else if auth != op.contract {
				c.hit("sale_all_or_nothing", fmt.Sprintf("`%s` created a licence although the claimed contract %q is not the one authorised for chain %d (configured per chain: %v)", line, c.contractStr(op.contract), op.chain, prev.contract))
			}
			if prev.fg == -1 || len(prev.funders) == 0 || !okFunder {
				c.hit("sale_all_or_nothing", fmt.Sprintf("`%s` created a licence with config fg=%d funders=%v, funder with balance=%v", line, prev.fg, prev.funders, okFunder))
			}
			if !cur.grants[[2]int{prev.fg, op.client}] {
				c.hit("sale_all_or_nothing", fmt.Sprintf("`%s` created a licence but no fee grant %d>%d", line, prev.fg, op.client))
			}
			if payer >= 0 {
				isFunder := false
				for _, f := range prev.funders {
					isFunder = isFunder || f == payer
				}
				if !isFunder {
					c.hit("sale_all_or_nothing", fmt.Sprintf("`%s` was paid by %d, not a funder", line, payer))
				}
			}
		}
	case "activate":
		c.nAct++
		a := op.creator
		l, had := prev.lics[op.creatorKey()]
		if !had {
			c.hit("activate_once", fmt.Sprintf("`%s` succeeded without a licence", line))
			return
		}
		if op.signer != a {
			c.e.r.Stat("activate.by_delegate")
		}
		if op.upCreator {
			c.e.r.Stat("activate.upper_key")
		}
		if op.signer != a && !prev.grants[[2]int{a, op.signer}] {
			c.hit("activate_once", fmt.Sprintf("`%s`: activation by %d, who is neither the licensee nor its fee-grant delegate", line, op.signer))
		}
		if c.activated[a] {
			c.hit("activate_once", fmt.Sprintf("`%s`: address %d activated twice", line, a))
		}
		c.activated[a] = true
		_, stillLo := cur.lics[c18Key{a, false}]
		_, stillUp := cur.lics[c18Key{a, true}]
		if stillLo || stillUp {
			c.hit("activate_once", fmt.Sprintf("`%s`: licence still present after activation", line))
		}
		stop := time.Unix(op.t, 0).UTC().AddDate(0, int(l.months), 0).Unix()
		want := c18Acc{'v', l.amt, l.denom, op.t, stop}
		if cur.acc[a].String() != want.String() {
			c.hit("activation_exact", fmt.Sprintf("`%s`: account is %s, want %s", line, cur.acc[a], want))
		}
		for d := 0; d < 2; d++ {
			wantDelta := new(big.Int)
			if d == l.denom {
				wantDelta = l.amt
			}
			if !c18Eq(new(big.Int).Sub(cur.bal[a][d], prev.bal[a][d]), wantDelta) || !c18Eq(new(big.Int).Sub(prev.esc[d], cur.esc[d]), wantDelta) {
				c.hit("activation_exact", fmt.Sprintf("`%s`: denom %d balance %s -> %s, escrow %s -> %s, licensed %s", line, d, prev.bal[a][d], cur.bal[a][d], prev.esc[d], cur.esc[d], wantDelta))
			}
		}
		if !c18Eq(cur.lk[a][l.denom], l.amt) {
			c.hit("vesting_linear", fmt.Sprintf("`%s`: locked at activation time is %s, want %s", line, cur.lk[a][l.denom], l.amt))
		}
	}
}

// hit2SaleStats classifies WHY a sale was refused (for the input distribution only).
func (c *c18Case) hit2SaleStats(op c18Op, prev *c18Obs) {
	amt := new(big.Int).Mul(op.amt, big.NewInt(1_000_000))
	switch {
	case prev.contract[op.chain] == -1:
		c.e.r.Stat("sale.no_contract")
		if op.contract == 0 {
			c.e.r.Stat("sale.no_contract.empty_claimed")
		}
		for ch, code := range prev.contract {
			if ch != op.chain && code == op.contract {
				c.e.r.Stat("sale.no_contract.claimed_authorised_for_other_chain")
				break
			}
		}
	case prev.contract[op.chain] != op.contract:
		c.e.r.Stat("sale.wrong_contract")
		if op.contract == 0 {
			c.e.r.Stat("sale.wrong_contract.empty_claimed")
		}
	case prev.fg == -1:
		c.e.r.Stat("sale.no_feegranter")
	case len(prev.funders) == 0:
		c.e.r.Stat("sale.no_funders")
	default:
		ok := false
		for _, f := range prev.funders {
			if f >= 0 && prev.bal[f][0].Cmp(amt) >= 0 {
				ok = true
			}
		}
		switch {
		case op.amt.Sign() < 0 || amt.BitLen() > 256:
			c.e.r.Stat("sale.amount_panics")
		case !ok:
			c.e.r.Stat("sale.no_funder_with_balance")
		case op.client < 0:
			c.e.r.Stat("sale.bad_client")
		case prev.acc[op.client].kind != 'n':
			c.e.r.Stat("sale.client_has_account")
		default:
			// every check before the base-account creation passed: the failure happened
			// AFTER the account was written and was undone by the attestation's cache context
			c.e.r.Stat("sale.rolled_back_after_account_creation")
			if op.amt.Sign() == 0 {
				c.e.r.Stat("sale.rolled_back.zero_coin")
			} else {
				c.e.r.Stat("sale.rolled_back.funder_balance_locked")
			}
		}
	}
}

// probes samples the vesting schedule of a freshly activated account and checks the
// vesting clauses directly on the SDK account.
func (c *c18Case) probes(a int, cur *c18Obs) {
	acc, ok := c.e.fa.App().AccountKeeper.GetAccount(c.e.fa.CtxCached(), c.accts[a].Addr).(*vestingtypes.ContinuousVestingAccount)
	if !ok || cur.acc[a].kind != 'v' {
		return
	}
	v := cur.acc[a]
	rng := c.e.r.Rng
	ts := []int64{v.start - 1, v.start, v.start + 1, v.stop - 1, v.stop, v.stop + 1, v.stop + 86400*365}
	if v.stop > v.start {
		span := v.stop - v.start
		ts = append(ts, v.start+span/2, v.start+span/3, v.start+rng.Int63n(span), v.start+rng.Int63n(span), v.start+rng.Int63n(span))
	}
	sort.Slice(ts, func(i, j int) bool { return ts[i] < ts[j] })
	var last *big.Int
	for _, t := range ts {
		if t < 0 {
			continue
		}
		lk := acc.LockedCoins(time.Unix(t, 0)).AmountOf(c18Denoms[v.denom]).BigInt()
		line := fmt.Sprintf("probe %d %d", a, t)
		c.ops = append(c.ops, line)
		c.e.r.Op(line, lk.String())
		c.e.r.Stat("op.probe")
		what := ""
		switch {
		case t <= v.start && !c18Eq(lk, v.orig):
			what = "not fully locked at/before the start"
		case t >= v.stop && t > v.start && lk.Sign() != 0: // (a zero-length period is still fully locked AT its start)
			what = "still locked at/after the end"
		case last != nil && lk.Cmp(last) > 0:
			what = "locked amount increased over time"
		case lk.Sign() < 0 || lk.Cmp(v.orig) > 0:
			what = "locked amount out of range"
		case t > v.start && t < v.stop:
			// |locked·y − orig·(y−x)| < y : within one unit of the straight line
			y, x := big.NewInt(v.stop-v.start), big.NewInt(t-v.start)
			exact := new(big.Int).Mul(v.orig, new(big.Int).Sub(y, x))
			diff := new(big.Int).Sub(new(big.Int).Mul(lk, y), exact)
			// the SDK rounds the ratio at 18 decimals first: allow orig/10^18 extra units
			slack := new(big.Int).Add(y, new(big.Int).Div(new(big.Int).Mul(v.orig, y), new(big.Int).Exp(big.NewInt(10), big.NewInt(18), nil)))
			if diff.Abs(diff).Cmp(slack) > 0 {
				what = "locked amount is off the straight line by more than one unit"
			}
		}
		if what != "" {
			c.hit("vesting_linear", fmt.Sprintf("account %d (%s) at t=%d: locked %s: %s", a, v, t, lk, what))
		}
		last = lk
	}
}

// ---------------------------------------------------------------------------
// generators
// ---------------------------------------------------------------------------

func c18Pow2(n uint) *big.Int { return new(big.Int).Lsh(big.NewInt(1), n) }

func (c *c18Case) rnd(n int) int { return c.e.r.Rng.Intn(n) }

func (c *c18Case) pick(l []int) int { return l[c.rnd(len(l))] }

func (c *c18Case) withKind(k byte) []int {
	var l []int
	for i := 0; i < c18NAddr; i++ {
		if c.prev.acc[i].kind == k {
			l = append(l, i)
		}
	}
	return l
}

func (c *c18Case) licensed() []int {
	var l []int
	for i := 0; i < c18NAddr; i++ {
		_, lo := c.prev.lics[c18Key{i, false}]
		_, up := c.prev.lics[c18Key{i, true}]
		if lo || up {
			l = append(l, i)
		}
	}
	return l
}

// spelling of the licence key held by address i (upper-case or canonical)
func (c *c18Case) licUpper(i int) bool {
	_, up := c.prev.lics[c18Key{i, true}]
	return up
}

func (c *c18Case) anyAddr() int { return c.rnd(c18NAddr) }

func (c *c18Case) orAny(l []int) int {
	if len(l) == 0 {
		return c.anyAddr()
	}
	return c.pick(l)
}

func (c *c18Case) spendable(a, d int) *big.Int {
	s := new(big.Int).Sub(c.prev.bal[a][d], c.prev.lk[a][d])
	if s.Sign() < 0 {
		s.SetInt64(0)
	}
	return s
}

func (c *c18Case) nextT() int64 {
	t := c.e.fa.Time().Unix()
	switch x := c.rnd(100); {
	case x < 55:
		return t + 2
	case x < 65:
		return t + 3600
	case x < 75:
		return t + 86400
	case x < 85:
		return t + 86400*31
	case x < 93:
		return t + 86400*200
	case x < 98:
		return t + 86400*366
	default:
		return t + 86400*365*3
	}
}

var c18Months = []uint32{0, 1, 2, 3, 6, 12, 24, 25, 1200, 1<<31 - 1, 1 << 31, 1<<32 - 1}

func (c *c18Case) months() uint32 {
	if c.rnd(4) == 0 {
		return c18Months[c.rnd(len(c18Months))]
	}
	return uint32(c.rnd(30))
}

// amount near what `a` can spend in denom d (mostly valid, sometimes a boundary or nonsense)
func (c *c18Case) amount(a, d int) *big.Int {
	sp := big.NewInt(0)
	if d < 2 {
		sp = c.spendable(a, d)
	}
	switch x := c.rnd(100); {
	case x < 55:
		if sp.Sign() > 0 {
			lim := new(big.Int).Set(sp)
			if lim.Cmp(big.NewInt(5_000_000)) > 0 {
				lim.SetInt64(5_000_000)
			}
			return new(big.Int).Add(big.NewInt(1), new(big.Int).Rand(c.e.r.Rng, lim))
		}
		return big.NewInt(int64(1 + c.rnd(1000)))
	case x < 63:
		return new(big.Int).Set(sp)
	case x < 70:
		return new(big.Int).Add(sp, big.NewInt(1))
	case x < 75:
		if sp.Sign() > 0 {
			return new(big.Int).Sub(sp, big.NewInt(1))
		}
		return big.NewInt(1)
	case x < 81:
		return big.NewInt(0)
	case x < 86:
		return big.NewInt(-int64(1 + c.rnd(5)))
	case x < 89:
		return c18Pow2(63)
	case x < 92:
		return new(big.Int).Sub(c18Pow2(64), big.NewInt(1))
	case x < 95:
		return new(big.Int).Sub(c18Pow2(256), big.NewInt(1))
	default:
		return big.NewInt(int64(1 + c.rnd(100)))
	}
}

func (c *c18Case) denom() int {
	switch x := c.rnd(100); {
	case x < 78:
		return 0
	case x < 92:
		return 1
	case x < 96:
		return 2
	default:
		return 3
	}
}

func (c *c18Case) client() (int, string) {
	switch x := c.rnd(100); {
	case x < 62:
		return c.orAny(c.withKind('n')), ""
	case x < 74:
		return c.orAny(c.licensed()), ""
	case x < 84:
		return c.orAny(c.withKind('b')), ""
	case x < 90:
		return c.orAny(c.withKind('v')), ""
	default:
		return -1, c18BadAddrs[c.rnd(len(c18BadAddrs))]
	}
}

func (c *c18Case) signerCreator(pref []int) (int, int) {
	cr := c.orAny(pref)
	switch x := c.rnd(100); {
	case x < 82:
		return cr, cr
	case x < 90: // someone else signs; authorised only with a fee grant creator -> signer
		for g := range c.prev.grants {
			if g[0] == cr && g[1] >= 0 {
				return g[1], cr
			}
		}
		return c.orAny(c.withKind('b')), cr
	default:
		return c.anyAddr(), cr
	}
}

func (c *c18Case) grains() *big.Int {
	switch x := c.rnd(100); {
	case x < 50:
		return big.NewInt(int64(1 + c.rnd(10)))
	case x < 62:
		return big.NewInt(int64(c.pick([]int{29, 30, 31, 99, 100, 101})))
	case x < 72:
		// exactly / one more than what some funder holds
		for _, f := range c.prev.funders {
			if f >= 0 {
				g := new(big.Int).Div(c.prev.bal[f][0], big.NewInt(1_000_000))
				return g.Add(g, big.NewInt(int64(c.rnd(2))))
			}
		}
		return big.NewInt(1)
	case x < 82:
		return big.NewInt(0)
	case x < 87:
		return big.NewInt(-int64(1 + c.rnd(3)))
	case x < 90:
		return c18Pow2(64)
	case x < 93:
		return new(big.Int).Exp(big.NewInt(10), big.NewInt(71), nil) // * 10^6 just fits 256 bits
	case x < 96:
		return new(big.Int).Div(c18Pow2(256), big.NewInt(1_000_000)) // * 10^6 just fits
	case x < 98:
		return new(big.Int).Add(new(big.Int).Div(c18Pow2(256), big.NewInt(1_000_000)), big.NewInt(1)) // overflows
	default:
		return new(big.Int).Sub(c18Pow2(256), big.NewInt(1))
	}
}

func (c *c18Case) genCreate() c18Op {
	payers := append(c.withKind('b'), c.withKind('v')...)
	sg, cr := c.signerCreator(payers)
	cl, bad := c.client()
	d := c.denom()
	return c18Op{kind: "create", t: c.nextT(), signer: sg, creator: cr, client: cl, bad: bad, upClient: c.upperFlip(cl), amt: c.amount(cr, d), denom: d, months: c.months()}
}

func (c *c18Case) genSale() c18Op {
	cl, bad := c.client()
	ch, ct := c.saleOrigin()
	return c18Op{kind: "sale", t: c.nextT(), client: cl, bad: bad, upClient: c.upperFlip(cl), amt: c.grains(), chain: ch, contract: ct}
}

// saleOrigin picks the chain a sale is reported from and the contract address string the claim carries:
// mostly an authorised (chain, contract) pair, otherwise every way of NOT being authorised — a chain
// without any sale-contract record, the empty string (nothing validates the field), a contract that is
// authorised for another chain only, an arbitrary other address.
func (c *c18Case) saleOrigin() (int, int) {
	var conf []int
	for ch := 0; ch < c18NSaleChains; ch++ {
		if c.prev.contract[ch] >= 0 {
			conf = append(conf, ch)
		}
	}
	ch := c.rnd(c18NSaleChains)
	if len(conf) > 0 && c.rnd(10) < 7 {
		ch = c.pick(conf)
	}
	elsewhere := func() int {
		for _, o := range c.e.r.Rng.Perm(len(c18Chains)) {
			if o != ch && c.prev.contract[o] >= 0 {
				return c.prev.contract[o]
			}
		}
		return 1 + c.rnd(3)
	}
	auth := c.prev.contract[ch]
	x := c.rnd(100)
	switch {
	case auth >= 0 && x < 76:
		return ch, auth
	case auth >= 0 && x < 84, auth < 0 && x < 40:
		return ch, 0
	case auth >= 0 && x < 92, auth < 0 && x < 70:
		return ch, elsewhere()
	default:
		return ch, c.rnd(4)
	}
}

// contractCode: mostly one of three well-formed addresses, now and then the empty string
func (c *c18Case) contractCode() int {
	if c.rnd(10) == 0 {
		return 0
	}
	return 1 + c.rnd(3)
}

// genPairs: the record list of a SetLightNodeSaleContractsProposal (which REPLACES the whole table)
func (c *c18Case) genPairs() [][2]int {
	var l [][2]int
	switch x := c.rnd(100); {
	case x < 15: // the table is emptied
	case x < 70: // each chain independently; test-chain more often than not
		for ch := range c18Chains {
			if c.rnd(3) > 0 || (ch == 0 && c.rnd(2) == 0) {
				l = append(l, [2]int{ch, c.contractCode()})
			}
		}
	default: // arbitrary records in arbitrary order; a later record for the same chain replaces an earlier one
		for n := 1 + c.rnd(4); n > 0; n-- {
			l = append(l, [2]int{c.rnd(len(c18Chains)), c.contractCode()})
		}
	}
	return l
}

func (c *c18Case) genActivate() c18Op {
	var sg, cr int
	switch x := c.rnd(100); {
	case x < 60:
		cr = c.orAny(c.licensed())
		sg = cr
	case x < 72: // re-activation
		cr = c.orAny(c.withKind('v'))
		sg = cr
	case x < 90: // somebody else tries to activate a licensee
		sg, cr = c.signerCreator(c.licensed())
	default:
		sg, cr = c.anyAddr(), c.anyAddr()
	}
	up := c.licUpper(cr)
	if c.rnd(12) == 0 {
		up = !up
	}
	return c18Op{kind: "activate", t: c.nextT(), signer: sg, creator: cr, upCreator: up}
}

// upperFlip: now and then the client string is the upper-case bech32 spelling of the same address
func (c *c18Case) upperFlip(cl int) bool { return cl >= 0 && c.rnd(14) == 0 }

func (c *c18Case) genSend() c18Op {
	from := c.orAny(append(c.withKind('v'), c.withKind('b')...))
	if c.rnd(10) == 0 {
		from = c.anyAddr()
	}
	d := c.denom()
	if v := c.prev.acc[from]; v.kind == 'v' && c.rnd(3) > 0 {
		d = v.denom
	}
	to := c.anyAddr()
	if c.rnd(8) == 0 {
		to = -1 // the escrow module account
	}
	return c18Op{kind: "send", t: c.nextT(), signer: from, client: to, denom: d, amt: c.amount(from, d)}
}

func (c *c18Case) genConfig() c18Op {
	if c.rnd(4) == 0 {
		c.e.r.Stat("op.reimport")
		return c18Op{kind: "reimport", t: c.nextT()}
	}
	switch c.rnd(4) {
	case 0:
		return c18Op{kind: "setfg", t: c.nextT(), client: c.anyAddr()}
	case 1:
		return c18Op{kind: "setcontracts", t: c.nextT(), pairs: c.genPairs()}
	default:
		var l []int
		for n := c.rnd(4); n > 0; n-- {
			switch c.rnd(3) {
			case 0:
				l = append(l, c.orAny(c.withKind('v')))
			case 1:
				l = append(l, c.orAny(c.withKind('b')))
			default:
				l = append(l, c.anyAddr())
			}
		}
		return c18Op{kind: "setfunders", t: c.nextT(), list: l}
	}
}

func (c *c18Case) genOp() c18Op {
	if c.rnd(100) < 8 {
		if op, ok := c.genWasm(); ok {
			return op
		}
	}
	if c.rnd(100) < 13 {
		return c.genTx()
	}
	switch x := c.rnd(100); {
	case x < 24:
		return c.genCreate()
	case x < 44:
		return c.genSale()
	case x < 66:
		return c.genActivate()
	case x < 71:
		pref := c.withKind('v')
		for _, k := range c.prev.clients {
			if k.a >= 0 {
				pref = append(pref, k.a)
			}
		}
		sg, cr := c.signerCreator(pref)
		up := false
		for _, k := range c.prev.clients {
			if k.a == cr && k.up {
				up = true
			}
		}
		if c.rnd(12) == 0 {
			up = !up
		}
		return c18Op{kind: "auth", t: c.nextT(), signer: sg, creator: cr, upCreator: up}
	case x < 81:
		return c.genSend()
	case x < 86:
		return c18Op{kind: "grant", t: c.nextT(), signer: c.anyAddr(), client: c.anyAddr()}
	case x < 89:
		a := c.orAny(c.withKind('b'))
		return c18Op{kind: "gift", t: c.nextT(), signer: a, denom: c.rnd(2), amt: big.NewInt(int64(c.rnd(2000)))}
	case x < 97:
		return c.genConfig()
	default:
		sg, cr := c.signerCreator(c.withKind('b'))
		return c18Op{kind: "legacy", t: c.nextT(), signer: sg, creator: cr}
	}
}

func (c *c18Case) now() int64 { return c.e.fa.Time().Unix() + 2 }

func c18Fund(a, d int, amt int64) c18Op {
	return c18Op{kind: "fund", client: a, denom: d, amt: big.NewInt(amt)}
}

// setup funds the rich accounts and configures the sale path according to a profile.
func (c *c18Case) setup(profile int) {
	var ops []c18Op
	bals := []int64{5_000_000, 30_000_000, 100_000_000, 1_000_000_000_000, 31_000_001, 29_999_999}
	for a := 0; a < 3; a++ {
		ops = append(ops, c18Fund(a, 0, bals[c.rnd(len(bals))]))
		if c.rnd(2) == 0 {
			ops = append(ops, c18Fund(a, 1, int64(1+c.rnd(1_000_000))))
		}
	}
	if c.rnd(2) == 0 {
		ops = append(ops, c18Fund(3, 0, int64(1+c.rnd(2_000_000))))
	}
	if profile != 0 {
		ops = append(ops, c18Op{kind: "setfg", client: c.pick([]int{0, 1, 2, 3, 3})})
	}
	if profile != 1 {
		l := []int{c.rnd(4)}
		if profile == 2 {
			l = nil
		} else {
			for c.rnd(2) == 0 && len(l) < 3 {
				l = append(l, c.rnd(4))
			}
		}
		ops = append(ops, c18Op{kind: "setfunders", list: l})
	}
	switch profile {
	case 3: // no sale contract for any chain
	case 4: // sale contracts for other chains only: they never authorise test-chain
		pairs := [][2]int{{2, 1}}
		if c.rnd(2) == 0 {
			pairs = append(pairs, [2]int{1, 1 + c.rnd(2)})
		}
		ops = append(ops, c18Op{kind: "setcontracts", pairs: pairs})
	default: // test-chain authorised; chain-b mostly not
		pairs := [][2]int{{0, 1}}
		if c.rnd(2) == 0 {
			pairs = append(pairs, [2]int{2, 1 + c.rnd(2)})
		}
		if c.rnd(3) == 0 {
			pairs = append(pairs, [2]int{1, 1 + c.rnd(2)})
		}
		ops = append(ops, c18Op{kind: "setcontracts", pairs: pairs})
	}
	c.doBatch(ops)
}

// directed: the failure of a sale AFTER the client's base account was written —
// (a) a zero-amount sale (bank refuses a zero coin), (b) the chosen funder's balance
// is locked by vesting (HasBalance looks at the total, the transfer at the spendable part).
func (c *c18Case) directedRollback() {
	fresh := c.withKind('n')
	if len(fresh) < 3 {
		return
	}
	x, y, z := fresh[0], fresh[1], fresh[2]
	c.do(c18Op{kind: "sale", t: c.nextT(), client: x, amt: big.NewInt(0), contract: c.authOr1(0)})
	// make y a vesting account with a large locked balance, then the only funder
	payer := 0
	for a := 0; a < 3; a++ {
		if c.spendable(a, 0).Cmp(c.spendable(payer, 0)) > 0 {
			payer = a
		}
	}
	amt := new(big.Int).Div(c.spendable(payer, 0), big.NewInt(2))
	if amt.Cmp(big.NewInt(2_000_000)) < 0 {
		return
	}
	c.do(c18Op{kind: "create", t: c.nextT(), signer: payer, creator: payer, client: y, amt: amt, denom: 0, months: 12})
	c.do(c18Op{kind: "activate", t: c.nextT(), signer: y, creator: y})
	c.do(c18Op{kind: "setfunders", t: c.nextT(), list: []int{y}})
	g := new(big.Int).Div(amt, big.NewInt(1_000_000))
	c.do(c18Op{kind: "sale", t: c.e.fa.Time().Unix() + 2, client: z, amt: g, contract: c.authOr1(0)})
	// ... and once half of it has vested the same sale goes through (if configured)
	if c.prev.acc[y].kind == 'v' {
		c.do(c18Op{kind: "sale", t: c.prev.acc[y].stop + 1, client: z, amt: g, contract: c.authOr1(0)})
	}
}

// authOr1: the contract authorised for chain ch (1 if there is none)
func (c *c18Case) authOr1(ch int) int {
	if a := c.prev.contract[ch]; a >= 0 {
		return a
	}
	return 1
}

// directed: everything a sale needs is in place (fee granter, a funder with spendable balance, a fresh client, an
// affordable price) EXCEPT the authorisation of its origin.  (a) The chain the sale is reported from has no
// sale-contract record at all, while other chains have: the claim names the empty string, the contract authorised
// for the other bridge chain, the one authorised for a third chain.  (b) The chain has a record: the claim names
// the empty string, a contract authorised elsewhere.  (c) The whole table is emptied.  None of these may create a
// licence; the same sale with the authorised (chain, contract) pair then must.
func (c *c18Case) directedUnauthorised() {
	fresh := c.withKind('n')
	if len(fresh) < 1 {
		return
	}
	x := fresh[c.rnd(len(fresh))]
	payer := 0
	for a := 0; a < 3; a++ {
		if c.spendable(a, 0).Cmp(c.spendable(payer, 0)) > 0 {
			payer = a
		}
	}
	if c.spendable(payer, 0).Cmp(big.NewInt(3_000_000)) < 0 {
		return
	}
	if c.prev.fg == -1 || c.rnd(3) == 0 {
		c.do(c18Op{kind: "setfg", t: c.nextT(), client: c.rnd(4)})
	}
	c.do(c18Op{kind: "setfunders", t: c.nextT(), list: []int{payer}})
	on := c.rnd(c18NSaleChains) // the bridge chain that is authorised
	off := 1 - on               // the bridge chain that is not
	perm := c.e.r.Rng.Perm(3)
	a, b := 1+perm[0], 1+perm[1]
	table := [][2]int{{on, a}, {2, b}}
	if c.rnd(2) == 0 {
		table[0], table[1] = table[1], table[0]
	}
	c.do(c18Op{kind: "setcontracts", t: c.nextT(), pairs: table})
	g := big.NewInt(int64(1 + c.rnd(2)))
	sale := func(ch, ct int) string {
		return c.do(c18Op{kind: "sale", t: c.nextT(), client: x, amt: g, chain: ch, contract: ct})
	}
	tries := [][2]int{{off, 0}, {off, a}, {off, b}, {on, 0}, {on, b}}
	c.e.r.Rng.Shuffle(len(tries), func(i, j int) { tries[i], tries[j] = tries[j], tries[i] })
	for _, tr := range tries {
		sale(tr[0], tr[1])
	}
	if c.rnd(2) == 0 {
		c.do(c18Op{kind: "setcontracts", t: c.nextT()})
		sale(on, 0)
		sale(c.rnd(c18NSaleChains), a)
		c.do(c18Op{kind: "setcontracts", t: c.nextT(), pairs: table})
	}
	if sale(on, a) == "ok" {
		c.e.r.Stat("directed.unauthorised_then_authorised")
	}
}

// directed: a licence stored under the UPPER-CASE spelling of an address.  The licensee cannot activate it
// itself (under either spelling); a delegate holding a fee grant from the licensee can.
func (c *c18Case) directedUpper() {
	fresh := c.withKind('n')
	if len(fresh) < 2 {
		return
	}
	x, y := fresh[0], fresh[1]
	payer := 0
	for a := 0; a < 3; a++ {
		if c.spendable(a, 0).Cmp(c.spendable(payer, 0)) > 0 {
			payer = a
		}
	}
	if c.do(c18Op{kind: "create", t: c.nextT(), signer: payer, creator: payer, client: x, upClient: true, amt: big.NewInt(int64(1000 + c.rnd(5000))), denom: 0, months: uint32(1 + c.rnd(12))}) != "ok" {
		return
	}
	c.do(c18Op{kind: "create", t: c.nextT(), signer: payer, creator: payer, client: x, amt: big.NewInt(5), denom: 0, months: 1})
	c.do(c18Op{kind: "activate", t: c.nextT(), signer: x, creator: x})
	c.do(c18Op{kind: "activate", t: c.nextT(), signer: x, creator: x, upCreator: true})
	c.do(c18Op{kind: "grant", t: c.nextT(), signer: x, client: y})
	c.do(c18Op{kind: "activate", t: c.nextT(), signer: y, creator: x})
	if c.rnd(2) == 0 {
		c.do(c18Op{kind: "activate", t: c.nextT(), signer: y, creator: x, upCreator: true})
		c.do(c18Op{kind: "auth", t: c.nextT(), signer: x, creator: x})
		c.do(c18Op{kind: "auth", t: c.nextT(), signer: y, creator: x, upCreator: true})
	}
}

// directed: the address governance configures as light-node fee granter holds a NOT YET ACTIVATED licence
// (SetLightNodeClientFeegranter accepts any address, with or without an account, so the licence may be bought
// before or after).  A sale then writes the fee grant licensee -> client, and the ante rule lets that client
// activate the licensee's licence although the licensee itself never delegated anything (disjunct (3) of the
// Lean theorem activate_only_by_licensee_or_delegate; the coins still go to the licensee).
func (c *c18Case) directedFeegranterLicensee() {
	fresh := c.withKind('n')
	if len(fresh) < 2 {
		return
	}
	x, y := fresh[0], fresh[1]
	payer := 0
	for a := 0; a < 3; a++ {
		if c.spendable(a, 0).Cmp(c.spendable(payer, 0)) > 0 {
			payer = a
		}
	}
	if c.spendable(payer, 0).Cmp(big.NewInt(3_000_000)) < 0 {
		return
	}
	before := c.rnd(2) == 0
	if before {
		c.do(c18Op{kind: "setfg", t: c.nextT(), client: x})
	}
	if c.do(c18Op{kind: "create", t: c.nextT(), signer: payer, creator: payer, client: x, amt: big.NewInt(int64(1000 + c.rnd(5000))), denom: 0, months: c.months()}) != "ok" {
		return
	}
	if !before {
		c.do(c18Op{kind: "setfg", t: c.nextT(), client: x})
	}
	c.do(c18Op{kind: "setfunders", t: c.nextT(), list: []int{payer}})
	if c.prev.contract[0] < 0 {
		c.do(c18Op{kind: "setcontracts", t: c.nextT(), pairs: [][2]int{{0, 1}}})
	}
	if c.do(c18Op{kind: "sale", t: c.nextT(), client: y, amt: big.NewInt(1), chain: 0, contract: c.authOr1(0)}) != "ok" {
		return
	}
	if c.do(c18Op{kind: "activate", t: c.nextT(), signer: y, creator: x}) == "ok" {
		c.e.r.Stat("activate.by_sale_client_of_feegranter_licensee")
		// "activated ... only by the licensed address itself" is false for this history (known finding
		// C18-feegranter-licensee; the check reports it as KNOWN-FINDING)
		c.hit("activated_by_licensee", fmt.Sprintf("sale-client-of-feegranter-licensee: governance set the light-node fee granter to address %d, which holds a pending licence; the sale for client %d wrote the grant %d->%d; a MsgRegisterLightNodeClient for %d signed by %d was accepted", x, y, x, y, x, y))
	}
	c.do(c18Op{kind: "activate", t: c.nextT(), signer: x, creator: x})
}

func (e *c18Env) runCase() {
	if e.fa == nil || e.onApp >= c18CasesPerApp {
		e.newApp()
	}
	e.onApp++
	e.caseNo++
	e.wipe()
	c := &c18Case{e: e, idx: map[string]int{}, activated: map[int]bool{}, gifts: [2]*big.Int{new(big.Int), new(big.Int)}}
	for i := range c.accts {
		k := FAFindKey(e.r.Seed, fmt.Sprintf("c18/%d", e.caseNo), i, nil)
		c.accts[i] = &FAAccount{Name: fmt.Sprintf("a%d", i), Priv: k, Addr: sdk.AccAddress(k.PubKey().Address()), ValIdx: -1}
		c.idx[c.accts[i].Addr.String()] = i
	}
	n, err := e.fa.App().AccountKeeper.AccountNumber.Peek(e.fa.CtxCached())
	if err != nil {
		e.t.Fatal(err)
	}
	c.baseNacc = n
	c.prev = c.observe()
	c.ops = append(c.ops, "reset")
	e.r.Op("reset", "ok")

	profile := c.rnd(16) // 0 no fee granter, 1 no funders, 2 empty funders, 3 no contract, 4 other chains only, 5.. complete
	e.r.Stat(fmt.Sprintf("profile.%d", min(profile, 5)))
	c.setup(profile)
	malformed := c.rnd(10) == 0
	steps := 6 + c.rnd(13)
	if profile >= 5 && c.rnd(4) == 0 {
		c.directedRollback()
		steps = 4 + c.rnd(6)
	} else if c.rnd(8) == 0 {
		c.directedUpper()
		steps = 4 + c.rnd(6)
	} else if c.rnd(5) == 0 {
		c.directedUnauthorised()
		steps = 4 + c.rnd(6)
	} else if c.rnd(8) == 0 {
		c.directedFeegranterLicensee()
		steps = 4 + c.rnd(6)
	}
	if c.rnd(5) == 0 {
		c.directedTxOwnership()
	}
	if c.rnd(4) == 0 {
		c.directedWasmOwnership()
	}
	for i := 0; i < steps; i++ {
		op := c.genOp()
		if malformed && (op.kind == "create" || op.kind == "sale") && c.rnd(2) == 0 {
			op.client, op.bad = -1, c18BadAddrs[c.rnd(len(c18BadAddrs))]
		}
		c.do(op)
	}
	// every case ends by trying to activate everything twice, by the licensee itself
	for _, a := range c.licensed() {
		up := c.licUpper(a)
		c.do(c18Op{kind: "activate", t: c.nextT(), signer: a, creator: a, upCreator: up})
		c.do(c18Op{kind: "activate", t: c.nextT(), signer: a, creator: a, upCreator: up})
	}
	e.r.Case(strings.Join(c.kinds, " "), c.nLic > 0 && c.nAct > 0)
}

func TestC18(t *testing.T) {
	r := NewRec(t, "C18")
	defer r.Close()
	e := &c18Env{t: t, r: r}
	for i := 0; i < r.N; i++ {
		e.runCase()
	}
}
