//go:build verif

package harness

import (
	"fmt"
	"math/big"
	"testing"

	sdkmath "cosmossdk.io/math"
	sdk "github.com/cosmos/cosmos-sdk/types"
	"github.com/palomachain/paloma/v2/util/eventbus"
	evmtypes "github.com/palomachain/paloma/v2/x/evm/types"
	schedulertypes "github.com/palomachain/paloma/v2/x/scheduler/types"
	valsettypes "github.com/palomachain/paloma/v2/x/valset/types"
)

// C10 — the JUST-IN-TIME path of "the validator set … is only sent when those powers sum to at
// least two thirds of 2^32".
//
// A snapshot built while a chain is active lists only validators with an account there, so the
// valset published at build time (OnSnapshotBuilt) is almost always the whole snapshot.  The
// quorum gate of the just-in-time update only decides something when the CURRENT snapshot is
// not the one live on the chain AND its restriction to the chain is a proper, non-empty part of
// it: the chain was activated (or removed and added again) after the snapshot was built, or
// validators hold an account of a non-EVM chain type under the chain's reference id.  This file
// generates that class of history (directed and as macro steps of the random histories), drives
// all three entry points of the just-in-time update and evaluates the clause on every message
// that appears in a queue.

// the entry points of justInTimeValsetUpdate
const (
	c10JitJob   = iota // scheduler: EvmKeeper.PreJobExecution                       (op `jit`)
	c10JitBus          // skyway: eventbus.SkywayBatchBuilt                          (op `jitbus`)
	c10JitEndB         // x/evm end blocker: AddJustInTimeValsetUpdates              (op `jiteb`)
	c10JitPaths        // number of entry points
)

var c10JitOpName = [c10JitPaths]string{"jit", "jitbus", "jiteb"}

// c10RestrictedSum evaluates the property's own definition on a snapshot: the validators with an
// EVM account on the chain, each with ⌊share·2^32/total⌋; returns their number and the sum.
func c10RestrictedSum(sn *valsettypes.Snapshot, ref string) (n int, sum *big.Int) {
	sum = new(big.Int)
	total := sn.TotalShares.BigInt()
	for _, v := range sn.Validators {
		for _, e := range v.ExternalChainInfos {
			if c10IsEvm(e.ChainType) && e.ChainReferenceID == ref {
				n++
				sum.Add(sum, c10Floor(v.ShareCount.BigInt(), total))
				break
			}
		}
	}
	return
}

func c10TwoThirds(sum *big.Int) bool {
	return new(big.Int).Mul(sum, big.NewInt(3)).Cmp(new(big.Int).Lsh(big.NewInt(1), 33)) >= 0
}

// jitClass says, from the implementation's own state, which case of the clause a just-in-time
// update for the chain is in (input distribution + expectation of the monitor).
func (k *c10Keeper) jitClass(c sdk.Context, ch int) string {
	ref := c10Ref(ch)
	ci, err := k.fa.App().EvmKeeper.GetChainInfo(c, ref)
	if err != nil {
		return "nochain"
	}
	cur, err := k.fa.App().ValsetKeeper.GetCurrentSnapshot(c)
	if err != nil || cur == nil {
		return "nocurrent"
	}
	pub, err := k.fa.App().ValsetKeeper.GetLatestSnapshotOnChain(c, ref)
	if err != nil {
		return "nothing-live"
	}
	if pub.Id == cur.Id {
		return "current-is-live"
	}
	if !ci.IsActive() {
		return "inactive"
	}
	n, sum := c10RestrictedSum(cur, ref)
	switch {
	case n == 0:
		return "restriction-empty"
	case sum.Cmp(new(big.Int).SetUint64(c10Threshold)) == 0:
		return "restriction-at-constant"
	case !c10TwoThirds(sum):
		if n == len(cur.Validators) {
			return "below-quorum-all-listed"
		}
		return "below-quorum-proper-part"
	case n < len(cur.Validators):
		return "quorum-proper-part"
	}
	return "quorum-all-listed"
}

func (k *c10Keeper) queuedIDs(c sdk.Context, ch int) map[uint64]bool {
	out := map[uint64]bool{}
	for _, v := range c10QueuedValsets(k.fa, c, c10Ref(ch)) {
		out[v.ValsetID] = true
	}
	return out
}

// c10CheckNewlySent: the clause evaluated on the messages that an op ADDED to the queue of a
// chain: the chain is active, the valset is the one of the CURRENT snapshot, and that snapshot's
// restriction to the chain (computed here from the stored snapshot, not from the message) carries
// two thirds of 2^32.
func (k *c10Keeper) checkNewlySent(c sdk.Context, ch int, before map[uint64]bool, op string) {
	ref := c10Ref(ch)
	for _, v := range c10QueuedValsets(k.fa, c, ref) {
		if before[v.ValsetID] {
			continue
		}
		k.r.Stat("sent.by." + op)
		if ci, err := k.fa.App().EvmKeeper.GetChainInfo(c, ref); err != nil || !ci.IsActive() {
			c10Hit(k.r, "sent_is_current", "inactive", fmt.Sprintf("`%s` queued valset %d for %s, which is not an active chain", op, v.ValsetID, ref), k.replay())
		}
		cur, err := k.fa.App().ValsetKeeper.GetCurrentSnapshot(c)
		if err != nil || cur == nil || cur.Id != v.ValsetID {
			c10Hit(k.r, "sent_is_current", "not-current", fmt.Sprintf("`%s` queued valset %d for %s, which is not the current snapshot", op, v.ValsetID, ref), k.replay())
			continue
		}
		n, sum := c10RestrictedSum(cur, ref)
		if n != len(v.Validators) {
			c10Hit(k.r, "restricted_to_chain", "count", fmt.Sprintf("`%s` queued valset %d for %s with %d entries, %d validators of the snapshot have an account there", op, v.ValsetID, ref, len(v.Validators), n), k.replay())
		}
		if !c10TwoThirds(sum) {
			c10Hit(k.r, "sent_only_with_quorum", "sum="+sum.String(), fmt.Sprintf("`%s` sent valset %d to %s although snapshot %d restricted to that chain has 3·sum < 2·2^32 (%d of %d validators)", op, v.ValsetID, ref, cur.Id, n, len(cur.Validators)), k.replay())
		}
	}
}

// opJitVia requests a just-in-time valset update for the chain through one of the three entry
// points of justInTimeValsetUpdate.
//
//	jit    <c> <pick>   PreJobExecution (error visible)
//	jitbus <c> <pick>   SkywayBatchBuilt event (the bus swallows the handler's error)
//	jiteb  <c> <pick>   the end blocker's AddJustInTimeValsetUpdates with a fee-paying message (a
//	                    SubmitLogicCall) waiting in the chain's queue; the update is only requested
//	                    when no UpdateValset message is queued; errors are swallowed. The logic call
//	                    is put into the queue before and deleted after the call, inside the op's
//	                    cache context, so the end blockers of later blocks do not see it.
func (k *c10Keeper) opJitVia(ctx sdk.Context, ch int, via int) {
	name := c10JitOpName[via]
	k.inOp(ctx, name, func(c sdk.Context) (string, string) {
		ref := c10Ref(ch)
		pick := 0
		if _, _, err := k.fa.App().EvmKeeper.PickValidatorForMessage(c, ref, nil); err == nil {
			pick = 1
		}
		line := fmt.Sprintf("%s %d %d", name, ch, pick)
		k.panicLine = line
		class := k.jitClass(c, ch)
		k.r.Stat("jit.class." + class)
		k.r.Stat(fmt.Sprintf("jit.%s.%s.pick=%d", name, class, pick))
		before := k.queuedIDs(c, ch)
		res := "ok"
		switch via {
		case c10JitJob:
			res = c10ErrRes(k.fa.App().EvmKeeper.PreJobExecution(c, &schedulertypes.Job{Routing: schedulertypes.Routing{ChainType: "evm", ChainReferenceID: ref}}))
		case c10JitBus:
			eventbus.SkywayBatchBuilt().Publish(c, eventbus.SkywayBatchBuiltEvent{ChainReferenceID: ref})
		case c10JitEndB:
			res = k.jitEndBlocker(c, ch)
		}
		k.checkNewlySent(c, ch, before, name)
		// the rejecting side of the clause, on the implementation: below two thirds nothing new is queued
		// (the exact constant is the known finding C10-threshold-floor and is left to the monitor above)
		if class == "below-quorum-proper-part" || class == "below-quorum-all-listed" || class == "restriction-empty" {
			k.nonTriv = true
		}
		return line, res
	})
}

func (k *c10Keeper) jitEndBlocker(c sdk.Context, ch int) string {
	ref := c10Ref(ch)
	app := k.fa.App()
	ci, err := app.EvmKeeper.GetChainInfo(c, ref)
	if err != nil {
		return "rejected" // no such chain: no queue to put a logic call into
	}
	id, err := app.ConsensusKeeper.PutMessageInQueue(c, c10Queue(ref), &evmtypes.Message{
		TurnstoneID: string(ci.GetSmartContractUniqueID()), ChainReferenceID: ref,
		Assignee: k.fa.ValAddr(0).String(), AssigneeRemoteAddress: c10AddrStr(int64(100*ch + 1)),
		AssignedAtBlockHeight: sdkmath.NewInt(c.BlockHeight()),
		Action: &evmtypes.Message_SubmitLogicCall{SubmitLogicCall: &evmtypes.SubmitLogicCall{
			HexContractAddress: "0x00000000000000000000000000000000000000aa", Abi: []byte("[]"), Payload: []byte{0x01},
			Deadline: c.BlockTime().Unix() + 600, SenderAddress: k.fa.User(0).Addr,
		}},
	}, nil)
	if err != nil {
		k.t.Fatalf("fixture: put logic call into %s: %v", c10Queue(ref), err)
	}
	app.EvmKeeper.AddJustInTimeValsetUpdates(c)
	if err := app.ConsensusKeeper.DeleteJob(c, c10Queue(ref), id); err != nil {
		k.t.Fatalf("fixture: delete logic call from %s: %v", c10Queue(ref), err)
	}
	return "ok"
}

// ---- directed histories -----------------------------------------------------------------

func c10Evm(ch int, a int64) []c10Acct { return []c10Acct{{ctype: 0, chain: ch, addr: a}} }

// c10AllJit requests the update through every entry point, in its own block each.
func (k *c10Keeper) allJit(ch int) {
	for via := 0; via < c10JitPaths && !k.dead; via++ {
		via := via
		k.block(func(c sdk.Context) { k.opJitVia(c, ch, via) })
	}
}

// runC10JitDirected: histories in which the current snapshot, restricted to an ACTIVE chain on
// which an older snapshot is live, is a proper non-empty part of the snapshot - below, at and above
// the quorum - followed by the just-in-time update through every entry point, and a positive
// control (the other validators register, a new snapshot is built, the update is sent).
func runC10JitDirected(t *testing.T, r *Rec) {
	build := func(k *c10Keeper) c10Step { return func(c sdk.Context) { k.opBuild(c) } }
	// nOn of the validators have an account on chain 1, the chain is removed and added again
	// ("governance removes the chain, validators without an account on it are in the next snapshot,
	// the chain comes back")
	readd := func(key string, seed int64, stakes []sdkmath.Int, nOn int) {
		k := newC10Keeper(t, r, seed, stakes)
		k.block(func(c sdk.Context) { k.opSupport(c, 1) }, func(c sdk.Context) { k.opActivate(c, 1) })
		for i := 0; i < nOn; i++ {
			i := i
			k.block(func(c sdk.Context) { k.opReg(c, i, c10Evm(1, int64(101+i))) })
		}
		k.block(build(k))                                     // snapshot 2: the nOn validators
		k.block(func(c sdk.Context) { k.opOnChain(c, 2, 1) }) // … live on chain 1
		k.block(func(c sdk.Context) { k.opRemove(c, 1) })     // chain removed
		k.block(build(k))                                     // snapshot 3: everybody
		k.block(func(c sdk.Context) { k.opSupport(c, 1) })    // chain added again
		k.allJit(1)                                           // not active yet
		k.block(func(c sdk.Context) { k.opActivate(c, 1) })   // active, snapshot 2 live, snapshot 3 current
		k.block(func(c sdk.Context) { k.opValset(c, 0, 1) })  // what would be sent
		k.allJit(1)                                           // THE clause
		k.block(func(c sdk.Context) { k.opOnChain(c, 3, 1) }) // current is live: nothing to do
		k.allJit(1)
		for i := nOn; i < len(stakes); i++ { // positive control
			i := i
			k.block(func(c sdk.Context) { k.opReg(c, i, c10Evm(1, int64(101+i))) })
		}
		k.block(build(k))
		k.allJit(1)
		k.finish("directed/jit-readd/" + key)
	}
	eq := func(n int) []sdkmath.Int {
		out := make([]sdkmath.Int, n)
		for i := range out {
			out[i] = sdkmath.NewInt(30_000_000)
		}
		return out
	}
	readd("3of7", 11, eq(7), 3)                                              // 3/7 < 2/3
	readd("2of3", 12, eq(3), 2)                                              // 2·⌊2^32/3⌋ = 2863311530: the constant
	readd("4of6", 13, eq(6), 4)                                              // 4·⌊2^32/6⌋ = 2863311528 < constant
	readd("5of7", 14, eq(7), 5)                                              // above
	readd("1of3", 15, eq(3), 1)                                              // one validator, a third
	readd("below", 16, c10Ints(1_999_999, 1_000_000), 1)                     // a hair below the constant
	readd("at", 19, c10Ints(2_000_000, 1_000_000), 1)                        // ⌊2/3·2^32⌋: the constant
	readd("above", 20, c10Ints(2_000_001, 1_000_000), 1)                     // a hair above
	readd("big", 17, c10Ints(7_000_000, 1_000_000, 1_000_000, 1_000_000), 1) // 0.7: above, one validator
	readd("0of3", 18, eq(3), 0)                                              // empty restriction

	{ // the chain is activated only after the current snapshot was built (it never listed the chain)
		k := newC10Keeper(t, r, 21, eq(5))
		k.block(func(c sdk.Context) { k.opSupport(c, 2) })
		k.block(func(c sdk.Context) { k.opReg(c, 0, c10Evm(2, 201)) }, func(c sdk.Context) { k.opReg(c, 1, c10Evm(2, 202)) })
		k.block(build(k)) // snapshot 2 (accounts changed), chain 2 not active: all five listed
		k.block(func(c sdk.Context) { k.opOnChain(c, 1, 2) })
		k.allJit(2) // inactive
		k.block(func(c sdk.Context) { k.opActivate(c, 2) })
		k.allJit(2) // 2 of 5
		k.block(func(c sdk.Context) { k.opReg(c, 2, c10Evm(2, 203)) }, func(c sdk.Context) { k.opReg(c, 3, c10Evm(2, 204)) })
		k.allJit(2) // registrations do not change the stored snapshot: still 2 of 5
		k.block(build(k))
		k.allJit(2) // snapshot 3: the four registered validators, all listed
		k.finish("directed/jit-late-activation")
	}
	{ // accounts of a non-EVM chain type under the chain's reference id: in the snapshot, not in the valset
		k := newC10Keeper(t, r, 22, eq(4))
		k.block(func(c sdk.Context) { k.opSupport(c, 1) }, func(c sdk.Context) { k.opActivate(c, 1) })
		k.block(func(c sdk.Context) { k.opReg(c, 0, c10Evm(1, 101)) }, func(c sdk.Context) { k.opReg(c, 1, []c10Acct{{ctype: 1, chain: 1, addr: 102}}) })
		k.block(func(c sdk.Context) { k.opReg(c, 2, []c10Acct{{ctype: 2, chain: 1, addr: 103}}) }, func(c sdk.Context) { k.opReg(c, 3, []c10Acct{{ctype: 2, chain: 1, addr: 104}}) })
		k.block(build(k)) // all four listed, 2 of 4 EVM-typed: not published at build time
		k.block(func(c sdk.Context) { k.opOnChain(c, 1, 1) })
		k.allJit(1)
		k.block(func(c sdk.Context) { k.opReg(c, 2, c10Evm(1, 103)) })
		k.block(build(k)) // 3 of 4
		k.allJit(1)
		k.finish("directed/jit-account-type")
	}
	{ // two chains, one with and one without quorum, requested alternately
		k := newC10Keeper(t, r, 23, eq(5))
		k.block(func(c sdk.Context) { k.opSupport(c, 1) }, func(c sdk.Context) { k.opSupport(c, 3) })
		for i := 0; i < 5; i++ {
			i := i
			as := c10Evm(1, int64(101+i))
			if i < 2 {
				as = append(as, c10Acct{ctype: 0, chain: 3, addr: int64(301 + i)})
			}
			k.block(func(c sdk.Context) { k.opReg(c, i, as) })
		}
		k.block(build(k))
		k.block(func(c sdk.Context) { k.opOnChain(c, 1, 1) }, func(c sdk.Context) { k.opOnChain(c, 1, 3) })
		k.block(func(c sdk.Context) { k.opActivate(c, 1) }, func(c sdk.Context) { k.opActivate(c, 3) })
		for via := 0; via < c10JitPaths; via++ {
			via := via
			k.block(func(c sdk.Context) { k.opJitVia(c, 3, via) }, func(c sdk.Context) { k.opJitVia(c, 1, via) })
		}
		k.finish("directed/jit-two-chains")
	}
}

// ---- macro steps of the random histories --------------------------------------------------

// jitMacro returns a block that steers a random history into the class above: a chain goes away
// and comes back (or is activated late) around a snapshot build, an OLDER snapshot is recorded as
// live on it, and the update is requested through a random entry point.
func (k *c10Keeper) jitMacro(nv int) []c10Step {
	r := k.r
	ch := c10AllChains[r.Rng.Intn(len(c10AllChains))]
	via := r.Rng.Intn(c10JitPaths)
	off := 1 + r.Rng.Intn(2)
	older := func(c sdk.Context) {
		id := uint64(1)
		if k.nSnaps > uint64(off) {
			id = k.nSnaps - uint64(off)
		}
		k.opOnChain(c, id, ch)
	}
	jit := func(c sdk.Context) { k.opJitVia(c, ch, via) }
	build := func(c sdk.Context) { k.opBuild(c) }
	var steps []c10Step
	kind := r.Rng.Intn(4)
	r.Stat(fmt.Sprintf("keeper.macro.%d", kind))
	switch kind {
	case 0: // an older snapshot becomes the live one, then the update
		steps = []c10Step{older, jit}
	case 1: // remove, build without the chain, add again, activate
		steps = []c10Step{func(c sdk.Context) { k.opRemove(c, ch) }, build,
			func(c sdk.Context) { k.opSupport(c, ch) }, func(c sdk.Context) { k.opActivate(c, ch) }, older, jit}
	case 2: // late activation
		steps = []c10Step{func(c sdk.Context) { k.opSupport(c, ch) }, build, older,
			func(c sdk.Context) { k.opActivate(c, ch) }, jit}
	default: // somebody (re-)registers without the chain while it is away
		vi := r.Rng.Intn(nv)
		var accts []c10Acct
		for _, a := range k.randomAccts(vi) {
			if a.chain != ch {
				accts = append(accts, a)
			}
		}
		steps = []c10Step{func(c sdk.Context) { k.opRemove(c, ch) }, func(c sdk.Context) { k.opReg(c, vi, accts) }, build,
			func(c sdk.Context) { k.opSupport(c, ch) }, func(c sdk.Context) { k.opActivate(c, ch) }, older, jit}
	}
	if r.Rng.Intn(3) == 0 { // ask again through another entry point
		via2 := r.Rng.Intn(c10JitPaths)
		steps = append(steps, func(c sdk.Context) { k.opJitVia(c, ch, via2) })
	}
	return steps
}
