//go:build verif

package harness

import (
	"encoding/hex"
	"fmt"
	"math/big"
	"strings"
	"testing"

	sdkmath "cosmossdk.io/math"
	"github.com/cosmos/cosmos-sdk/types/bech32"
	skytypes "github.com/palomachain/paloma/v2/x/skyway/types"
	valsettypes "github.com/palomachain/paloma/v2/x/valset/types"
)

// C11 — claim hash covers every effect-bearing field, unambiguously.
// Model: lean/PalomaModel/Model/ClaimHash.lean driven by the generated table Gen/Claims.lean.

func c11x(s string) string { return "x" + hex.EncodeToString([]byte(s)) }
func c11n(n uint64) string { return fmt.Sprintf("n%d", n) }
func c11i(i sdkmath.Int) string {
	if i.IsNil() {
		return "inil"
	}
	return "i" + i.String()
}

var c11Strings = []string{"", "a", "a/b", "/", "//", "b/c", "c", "0x1000000000000000000000000000000000000001", "paloma1qqqsyqcyq5rqwzqfpg9scrgwpugpzysnwq9c2z", "compass-1", "x=y,z", "a/b/c", "%s", "\x00", "é/ü"}

func (r *Rec) c11Str() string {
	if r.Rng.Intn(6) == 0 {
		// a well-formed bech32 account address (valid checksum) under one of several prefixes
		b := make([]byte, 20)
		r.Rng.Read(b)
		if e, err := bech32.ConvertAndEncode([]string{"paloma", "paloma", "cosmos", "palomavaloper"}[r.Rng.Intn(4)], b); err == nil {
			return e
		}
	}
	if r.Rng.Intn(3) == 0 {
		b := make([]byte, r.Rng.Intn(6))
		for i := range b {
			b[i] = "/ab0"[r.Rng.Intn(4)]
		}
		return string(b)
	}
	return c11Strings[r.Rng.Intn(len(c11Strings))]
}

func (r *Rec) c11Int() sdkmath.Int {
	switch r.Rng.Intn(6) {
	case 0:
		return sdkmath.Int{}
	case 1:
		return sdkmath.NewInt(0)
	case 2:
		return sdkmath.NewInt(-int64(r.Rng.Intn(1000)))
	case 3:
		return sdkmath.NewIntFromBigInt(new(big.Int).Sub(new(big.Int).Lsh(big.NewInt(1), 256), big.NewInt(1)))
	default:
		return sdkmath.NewInt(int64(r.Rng.Intn(100000)))
	}
}

type c11Claim interface {
	ClaimHash() ([]byte, error)
}

func c11Line(c c11Claim) string {
	switch m := c.(type) {
	case *skytypes.MsgSendToPalomaClaim:
		return "hash MsgSendToPalomaClaim " + strings.Join([]string{
			"EventNonce=" + c11n(m.EventNonce), "EthBlockHeight=" + c11n(m.EthBlockHeight), "TokenContract=" + c11x(m.TokenContract),
			"Amount=" + c11i(m.Amount), "EthereumSender=" + c11x(m.EthereumSender), "PalomaReceiver=" + c11x(m.PalomaReceiver),
			"Orchestrator=" + c11x(m.Orchestrator), "ChainReferenceId=" + c11x(m.ChainReferenceId), "SkywayNonce=" + c11n(m.SkywayNonce), "CompassId=" + c11x(m.CompassId)}, ",")
	case *skytypes.MsgBatchSendToRemoteClaim:
		return "hash MsgBatchSendToRemoteClaim " + strings.Join([]string{
			"EventNonce=" + c11n(m.EventNonce), "EthBlockHeight=" + c11n(m.EthBlockHeight), "BatchNonce=" + c11n(m.BatchNonce), "TokenContract=" + c11x(m.TokenContract),
			"ChainReferenceId=" + c11x(m.ChainReferenceId), "Orchestrator=" + c11x(m.Orchestrator), "SkywayNonce=" + c11n(m.SkywayNonce), "CompassId=" + c11x(m.CompassId)}, ",")
	case *skytypes.MsgLightNodeSaleClaim:
		return "hash MsgLightNodeSaleClaim " + strings.Join([]string{
			"EventNonce=" + c11n(m.EventNonce), "EthBlockHeight=" + c11n(m.EthBlockHeight), "Orchestrator=" + c11x(m.Orchestrator), "ChainReferenceId=" + c11x(m.ChainReferenceId),
			"SkywayNonce=" + c11n(m.SkywayNonce), "ClientAddress=" + c11x(m.ClientAddress), "Amount=" + c11i(m.Amount), "SmartContractAddress=" + c11x(m.SmartContractAddress), "CompassId=" + c11x(m.CompassId)}, ",")
	}
	return "hash unknown -"
}

func c11Hash(t *testing.T, c c11Claim) string {
	h, err := c.ClaimHash()
	if err != nil {
		t.Fatal(err)
	}
	return hex.EncodeToString(h)
}

// c11CrossType is the monitor behind `claim_types_never_pool`: exhaustively over a small value
// domain (numbers whose decimal rendering equals the hex rendering of a short string included), no
// two claims of DIFFERENT types may share a hash - `Attest` keys attestations by (nonce, hash) only
// and never compares the claim type.
func c11CrossType(t *testing.T, r *Rec, meta valsettypes.MsgMetadata) {
	nums := []uint64{1, 31, 61}
	strs := []string{"a", "1"}
	amts := []sdkmath.Int{sdkmath.NewInt(1), sdkmath.NewInt(31), sdkmath.NewInt(61)}
	seen := map[string]c11Claim{}
	add := func(c c11Claim) {
		h := c11Hash(t, c)
		r.Stat("crosstype.claims")
		if o, ok := seen[h]; ok {
			if fmt.Sprintf("%T", o) != fmt.Sprintf("%T", c) {
				r.Hit("types_never_collide", fmt.Sprintf("a %T and a %T have the same claim hash", o, c), map[string]string{"a": c11Line(o), "b": c11Line(c)})
			}
			return
		}
		seen[h] = c
	}
	pick := func(k int, code *int) string { s := strs[*code%len(strs)]; *code /= len(strs); _ = k; return s }
	for _, n := range nums {
		for _, h := range nums {
			for _, a := range amts {
				for code := 0; code < 1<<6; code++ {
					x := code
					add(&skytypes.MsgSendToPalomaClaim{EventNonce: 1, EthBlockHeight: h, SkywayNonce: n, Amount: a, Metadata: meta, TokenContract: pick(0, &x), EthereumSender: pick(1, &x),
						PalomaReceiver: pick(2, &x), Orchestrator: pick(3, &x), ChainReferenceId: pick(4, &x), CompassId: pick(5, &x)})
				}
				for code := 0; code < 1<<5; code++ {
					x := code
					add(&skytypes.MsgLightNodeSaleClaim{EventNonce: 1, EthBlockHeight: h, SkywayNonce: n, Amount: a, Metadata: meta, ClientAddress: pick(0, &x), SmartContractAddress: pick(1, &x),
						Orchestrator: pick(2, &x), ChainReferenceId: pick(3, &x), CompassId: pick(4, &x)})
				}
			}
			for _, b := range nums {
				for code := 0; code < 1<<4; code++ {
					x := code
					add(&skytypes.MsgBatchSendToRemoteClaim{EventNonce: 1, EthBlockHeight: h, SkywayNonce: n, BatchNonce: b, Metadata: meta, TokenContract: pick(0, &x),
						Orchestrator: pick(1, &x), ChainReferenceId: pick(2, &x), CompassId: pick(3, &x)})
				}
			}
		}
	}
}

func TestC11(t *testing.T) {
	r := NewRec(t, "C11")
	defer r.Close()
	meta := valsettypes.MsgMetadata{Creator: "c", Signers: []string{"c"}}
	c11CrossType(t, r, meta)
	c11DigitShifts(t, r, meta)
	for i := 0; i < r.N; i++ {
		// ---- random claims of each type ----
		sp := &skytypes.MsgSendToPalomaClaim{EventNonce: r.U64(), EthBlockHeight: r.U64(), TokenContract: r.c11Str(), Amount: r.c11Int(), EthereumSender: r.c11Str(),
			PalomaReceiver: r.c11Str(), Orchestrator: r.c11Str(), ChainReferenceId: r.c11Str(), Metadata: meta, SkywayNonce: r.U64(), CompassId: r.c11Str()}
		bs := &skytypes.MsgBatchSendToRemoteClaim{EventNonce: r.U64(), EthBlockHeight: r.U64(), BatchNonce: r.U64(), TokenContract: r.c11Str(), ChainReferenceId: r.c11Str(),
			Orchestrator: r.c11Str(), Metadata: meta, SkywayNonce: r.U64(), CompassId: r.c11Str()}
		ln := &skytypes.MsgLightNodeSaleClaim{Metadata: meta, EventNonce: r.U64(), EthBlockHeight: r.U64(), Orchestrator: r.c11Str(), ChainReferenceId: r.c11Str(), SkywayNonce: r.U64(),
			ClientAddress: r.c11Str(), Amount: r.c11Int(), SmartContractAddress: r.c11Str(), CompassId: r.c11Str()}
		for _, c := range []c11Claim{sp, bs, ln} {
			line := c11Line(c)
			r.Op(line, c11Hash(t, c))
			r.Case(line, true)
		}
		// ---- monitor: every effect-bearing field influences the hash (single-field mutation) ----
		mut := func(name string, base, changed c11Claim) {
			r.Stat("mutation." + name)
			if c11Hash(t, base) == c11Hash(t, changed) {
				r.Hit("field_influences_hash", fmt.Sprintf("claims differing only in %s have the same hash", name),
					map[string]string{"a": c11Line(base), "b": c11Line(changed)})
			}
		}
		{
			c := *sp
			c.SkywayNonce++
			mut("SendToPaloma.SkywayNonce", sp, &c)
			c = *sp
			c.EthBlockHeight++
			mut("SendToPaloma.EthBlockHeight", sp, &c)
			c = *sp
			c.TokenContract += "1"
			mut("SendToPaloma.TokenContract", sp, &c)
			c = *sp
			if c.Amount.IsNil() {
				c.Amount = sdkmath.NewInt(1)
			} else if c.Amount.BigInt().BitLen() < 250 {
				c.Amount = c.Amount.AddRaw(1)
			} else {
				c.Amount = c.Amount.SubRaw(1)
			}
			mut("SendToPaloma.Amount", sp, &c)
			c = *sp
			c.EthereumSender += "2"
			mut("SendToPaloma.EthereumSender", sp, &c)
			c = *sp
			c.PalomaReceiver += "3"
			mut("SendToPaloma.PalomaReceiver", sp, &c)
			c = *sp
			c.CompassId += "4"
			mut("SendToPaloma.CompassId", sp, &c)
		}
		{
			c := *bs
			c.SkywayNonce++
			mut("BatchSendToRemote.SkywayNonce", bs, &c)
			c = *bs
			c.EthBlockHeight++
			mut("BatchSendToRemote.EthBlockHeight", bs, &c)
			c = *bs
			c.BatchNonce++
			mut("BatchSendToRemote.BatchNonce", bs, &c)
			c = *bs
			c.TokenContract += "1"
			mut("BatchSendToRemote.TokenContract", bs, &c)
			c = *bs
			c.CompassId += "4"
			mut("BatchSendToRemote.CompassId", bs, &c)
		}
		{
			c := *ln
			c.SkywayNonce++
			mut("LightNodeSale.SkywayNonce", ln, &c)
			c = *ln
			c.EthBlockHeight++
			mut("LightNodeSale.EthBlockHeight", ln, &c)
			c = *ln
			c.ClientAddress += "1"
			mut("LightNodeSale.ClientAddress", ln, &c)
			c = *ln
			if c.Amount.IsNil() {
				c.Amount = sdkmath.NewInt(1)
			} else if c.Amount.BigInt().BitLen() < 250 {
				c.Amount = c.Amount.AddRaw(1)
			} else {
				c.Amount = c.Amount.SubRaw(1)
			}
			mut("LightNodeSale.Amount", ln, &c)
			c = *ln
			c.SmartContractAddress += "5"
			mut("LightNodeSale.SmartContractAddress", ln, &c)
			c = *ln
			c.CompassId += "4"
			mut("LightNodeSale.CompassId", ln, &c)
		}
		// ---- monitor: strings that differ only in letter case are different field values ----
		flip := func(s string) (string, bool) {
			b := []byte(s)
			for i, c := range b {
				if c >= 'a' && c <= 'z' {
					b[i] = c - 32
					return string(b), true
				}
				if c >= 'A' && c <= 'Z' {
					b[i] = c + 32
					return string(b), true
				}
			}
			return s, false
		}
		{
			c := *sp
			if v, ok := flip(c.PalomaReceiver); ok {
				c.PalomaReceiver = v
				mut("SendToPaloma.PalomaReceiver(case)", sp, &c)
			}
			c = *sp
			if v, ok := flip(c.TokenContract); ok {
				c.TokenContract = v
				mut("SendToPaloma.TokenContract(case)", sp, &c)
			}
			c = *sp
			if v, ok := flip(c.EthereumSender); ok {
				c.EthereumSender = v
				mut("SendToPaloma.EthereumSender(case)", sp, &c)
			}
			c = *sp
			if v, ok := flip(c.CompassId); ok {
				c.CompassId = v
				mut("SendToPaloma.CompassId(case)", sp, &c)
			}
			d := *bs
			if v, ok := flip(d.TokenContract); ok {
				d.TokenContract = v
				mut("BatchSendToRemote.TokenContract(case)", bs, &d)
			}
			e := *ln
			if v, ok := flip(e.ClientAddress); ok {
				e.ClientAddress = v
				mut("LightNodeSale.ClientAddress(case)", ln, &e)
			}
			e = *ln
			if v, ok := flip(e.SmartContractAddress); ok {
				e.SmartContractAddress = v
				mut("LightNodeSale.SmartContractAddress(case)", ln, &e)
			}
		}
		// ---- monitor: the same value in another notation is another field value ----
		// amounts: X and -X; strings: the respellings a lenient parser would identify with the original (another
		// bech32 prefix over the same bytes, the all-upper-case bech32 form, 0x / 0X / no prefix of a hex address,
		// surrounding blanks, a trailing NUL).  A hash that normalises any of them pools votes for different claims.
		respell := func(v string) []string {
			var out []string
			if hrp, data, err := bech32.DecodeAndConvert(v); err == nil {
				for _, alt := range []string{"cosmos", "paloma", "osmo"} {
					if alt != hrp {
						if e, err := bech32.ConvertAndEncode(alt, data); err == nil {
							out = append(out, e)
							break
						}
					}
				}
				if up := strings.ToUpper(v); up != v {
					out = append(out, up)
				}
			}
			switch {
			case strings.HasPrefix(v, "0x"):
				out = append(out, v[2:], "0X"+v[2:])
			case strings.HasPrefix(v, "0X"):
				out = append(out, v[2:], "0x"+v[2:])
			case len(v) == 40:
				out = append(out, "0x"+v)
			}
			out = append(out, v+" ", " "+v, v+"\x00")
			return out
		}
		negate := func(a sdkmath.Int) (sdkmath.Int, bool) {
			if a.IsNil() || a.IsZero() {
				return a, false
			}
			return a.Neg(), true
		}
		{
			if v, ok := negate(sp.Amount); ok {
				c := *sp
				c.Amount = v
				mut("SendToPaloma.Amount(sign)", sp, &c)
			}
			if v, ok := negate(ln.Amount); ok {
				c := *ln
				c.Amount = v
				mut("LightNodeSale.Amount(sign)", ln, &c)
			}
			type strField struct {
				name string
				get  func() string
				mk   func(string) (c11Claim, c11Claim)
			}
			fields := []strField{
				{"SendToPaloma.TokenContract", func() string { return sp.TokenContract }, func(v string) (c11Claim, c11Claim) { c := *sp; c.TokenContract = v; return sp, &c }},
				{"SendToPaloma.EthereumSender", func() string { return sp.EthereumSender }, func(v string) (c11Claim, c11Claim) { c := *sp; c.EthereumSender = v; return sp, &c }},
				{"SendToPaloma.PalomaReceiver", func() string { return sp.PalomaReceiver }, func(v string) (c11Claim, c11Claim) { c := *sp; c.PalomaReceiver = v; return sp, &c }},
				{"SendToPaloma.CompassId", func() string { return sp.CompassId }, func(v string) (c11Claim, c11Claim) { c := *sp; c.CompassId = v; return sp, &c }},
				{"BatchSendToRemote.TokenContract", func() string { return bs.TokenContract }, func(v string) (c11Claim, c11Claim) { c := *bs; c.TokenContract = v; return bs, &c }},
				{"BatchSendToRemote.CompassId", func() string { return bs.CompassId }, func(v string) (c11Claim, c11Claim) { c := *bs; c.CompassId = v; return bs, &c }},
				{"LightNodeSale.ClientAddress", func() string { return ln.ClientAddress }, func(v string) (c11Claim, c11Claim) { c := *ln; c.ClientAddress = v; return ln, &c }},
				{"LightNodeSale.SmartContractAddress", func() string { return ln.SmartContractAddress }, func(v string) (c11Claim, c11Claim) { c := *ln; c.SmartContractAddress = v; return ln, &c }},
				{"LightNodeSale.CompassId", func() string { return ln.CompassId }, func(v string) (c11Claim, c11Claim) { c := *ln; c.CompassId = v; return ln, &c }},
			}
			for _, f := range fields {
				for _, v := range respell(f.get()) {
					if v == f.get() {
						continue
					}
					a, b := f.mk(v)
					mut(f.name+"(respelling)", a, b)
				}
			}
		}
		// ---- monitor: moving a separator between adjacent free-form fields (multi-field change) ----
		joined := r.c11Str() + "/" + r.c11Str() + "/" + r.c11Str()
		parts := strings.Split(joined, "/")
		if len(parts) >= 3 {
			k := 1 + r.Rng.Intn(len(parts)-1)
			k2 := 1 + r.Rng.Intn(len(parts)-1)
			a1, b1 := strings.Join(parts[:k], "/"), strings.Join(parts[k:], "/")
			a2, b2 := strings.Join(parts[:k2], "/"), strings.Join(parts[k2:], "/")
			if a1 != a2 {
				x, y := *sp, *sp
				x.PalomaReceiver, x.CompassId = a1, b1
				y.PalomaReceiver, y.CompassId = a2, b2
				r.Stat("resplit.SendToPaloma")
				if c11Hash(t, &x) == c11Hash(t, &y) {
					r.Hit("separator_ambiguity", "receiver/compass-id re-split gives the same hash", map[string]string{"a": c11Line(&x), "b": c11Line(&y)})
				}
				r.Op(c11Line(&x), c11Hash(t, &x))
				r.Op(c11Line(&y), c11Hash(t, &y))
				p, q := *ln, *ln
				p.SmartContractAddress, p.CompassId = a1, b1
				q.SmartContractAddress, q.CompassId = a2, b2
				r.Stat("resplit.LightNodeSale")
				if c11Hash(t, &p) == c11Hash(t, &q) {
					r.Hit("separator_ambiguity", "contract/compass-id re-split gives the same hash", map[string]string{"a": c11Line(&p), "b": c11Line(&q)})
				}
				u, v := *bs, *bs
				u.TokenContract, u.CompassId = a1, b1
				v.TokenContract, v.CompassId = a2, b2
				if c11Hash(t, &u) == c11Hash(t, &v) {
					r.Hit("separator_ambiguity", "token/compass-id re-split gives the same hash", map[string]string{"a": c11Line(&u), "b": c11Line(&v)})
				}
			}
		}
	}
	c11LongFields(t, r, meta)
}
