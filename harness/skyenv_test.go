//go:build verif

package harness

import (
	"context"
	"fmt"
	"os"
	"sort"
	"strings"
	"testing"
	"time"

	"cosmossdk.io/log"
	sdkmath "cosmossdk.io/math"
	codectypes "github.com/cosmos/cosmos-sdk/codec/types"
	sdk "github.com/cosmos/cosmos-sdk/types"
	govv1beta1 "github.com/cosmos/cosmos-sdk/x/gov/types/v1beta1"
	"github.com/palomachain/paloma/v2/util/libcons"
	evmtypes "github.com/palomachain/paloma/v2/x/evm/types"
	"github.com/palomachain/paloma/v2/x/skyway"
	skykeeper "github.com/palomachain/paloma/v2/x/skyway/keeper"
	skytypes "github.com/palomachain/paloma/v2/x/skyway/types"
	valsettypes "github.com/palomachain/paloma/v2/x/valset/types"
)

const skyChain = "test-chain"
const skyCompass = "compass-1"

// skyEnv is the skyway keeper test environment (real bank, staking, valset, evm,
// consensus, treasury, metrix keepers on an in-memory multistore) plus the
// fault-injecting proxies from the `verif` hook.
type skyEnv struct {
	t         *testing.T
	in        skykeeper.TestInput
	ctx       sdk.Context
	k         skykeeper.Keeper // wrapped with fault proxies
	raw       skykeeper.Keeper
	fault     *skykeeper.VerifFault
	ms        skytypes.MsgServer
	gov       govv1beta1.Handler
	cc        *libcons.ConsensusChecker
	denoms    []string // token id-1 -> denom
	erc20     []string // token id-1 -> contract
	users     []sdk.AccAddress
	valNonce  uint64 // last skyway nonce every validator voted for
	ethHeight uint64 // remote block height reported in the latest claim
	height    int64
	now       time.Time
}

func newSkyEnv(t *testing.T, nUsers int) *skyEnv {
	in, c := skykeeper.SetupFiveValChain(t)
	ctx := sdk.UnwrapSDKContext(c)
	e := &skyEnv{t: t, in: in, raw: in.SkywayKeeper, fault: &skykeeper.VerifFault{}}
	e.k = skykeeper.VerifWrapKeeper(in.SkywayKeeper, e.fault)
	e.ms = skykeeper.NewMsgServerImpl(e.k)
	e.gov = skykeeper.NewSkywayProposalHandler(e.k)
	e.height = 1000
	e.ethHeight = 100
	e.now = time.Unix(1_700_000_000, 0).UTC()
	e.ctx = ctx.WithBlockHeight(e.height).WithBlockTime(e.now)
	if os.Getenv("VERIF_DEBUG") != "" {
		e.ctx = e.ctx.WithLogger(log.NewLogger(os.Stderr))
	}
	// activate the chain so that the end-blocker tallies and builds batches
	err := in.EvmKeeper.ActivateChainReferenceID(e.ctx, skyChain, &evmtypes.SmartContract{Id: 1}, "0x1234567890123456789012345678901234567890", []byte(skyCompass))
	if err != nil {
		t.Fatal(err)
	}
	vk := in.ValsetKeeper
	e.cc = libcons.New(func(c context.Context) (*valsettypes.Snapshot, error) { return vk.GetCurrentSnapshot(c) }, in.Marshaler)
	// the fixture's own "ugrain" token is the staking denom; bridged test tokens are added by addToken
	for i := 0; i < nUsers; i++ {
		b := make([]byte, 20)
		b[0] = 0xC0
		b[19] = byte(i + 1)
		e.users = append(e.users, sdk.AccAddress(b))
	}
	return e
}

func (e *skyEnv) addToken(denom, erc20 string) {
	err := e.gov(e.ctx, &skytypes.SetERC20ToDenomProposal{Title: "t", Description: "d", ChainReferenceId: skyChain, Erc20: erc20, Denom: denom})
	if err != nil {
		e.t.Fatal(err)
	}
	e.denoms = append(e.denoms, denom)
	e.erc20 = append(e.erc20, erc20)
}

func (e *skyEnv) tokenOf(denom string) int {
	for i, d := range e.denoms {
		if d == denom {
			return i + 1
		}
	}
	return 0
}

func (e *skyEnv) tokenOfContract(c string) int {
	for i, d := range e.erc20 {
		if strings.EqualFold(d, c) {
			return i + 1
		}
	}
	return 0
}

func (e *skyEnv) userOf(addr string) int {
	for i, u := range e.users {
		if u.String() == addr {
			return i + 1
		}
	}
	return 0
}

func (e *skyEnv) fund(u int, tok int, amt sdkmath.Int) {
	coins := sdk.NewCoins(sdk.NewCoin(e.denoms[tok-1], amt))
	if err := e.in.BankKeeper.MintCoins(e.ctx, skytypes.ModuleName, coins); err != nil {
		e.t.Fatal(err)
	}
	if err := e.in.BankKeeper.SendCoinsFromModuleToAccount(e.ctx, skytypes.ModuleName, e.users[u-1], coins); err != nil {
		e.t.Fatal(err)
	}
}

// runMsg executes fn the way baseapp executes a message: on a cached store that
// is committed only when fn succeeds; a panic is a failed message.
func (e *skyEnv) runMsg(fn func(ctx sdk.Context) error) (res string) {
	cctx, commit := e.ctx.CacheContext()
	defer func() {
		if r := recover(); r != nil {
			res = "rejected"
		}
	}()
	if err := fn(cctx); err != nil {
		return "rejected"
	}
	commit()
	return "ok"
}

func (e *skyEnv) setBlock(h int64, now time.Time) {
	e.height, e.now = h, now
	e.ctx = e.ctx.WithBlockHeight(h).WithBlockTime(now)
}

func (e *skyEnv) endBlock() {
	skyway.EndBlocker(e.ctx, e.k, e.cc)
}

func (e *skyEnv) meta(a sdk.AccAddress) valsettypes.MsgMetadata {
	return valsettypes.MsgMetadata{Creator: a.String(), Signers: []string{a.String()}}
}

func (e *skyEnv) orch(i int) sdk.AccAddress { return sdk.AccAddress(skykeeper.ValAddrs[i]) }

// voteAll makes every validator vote for the claim produced by mk (a fresh
// claim per validator, orchestrator filled in); returns how many votes were accepted.
func (e *skyEnv) voteAll(mk func(orch sdk.AccAddress) sdk.Msg) int {
	okc := 0
	for i := range skykeeper.ValAddrs {
		o := e.orch(i)
		m := mk(o)
		r := e.runMsg(func(ctx sdk.Context) error {
			switch c := m.(type) {
			case *skytypes.MsgSendToPalomaClaim:
				_, err := e.ms.SendToPalomaClaim(ctx, c)
				return err
			case *skytypes.MsgBatchSendToRemoteClaim:
				_, err := e.ms.BatchSendToRemoteClaim(ctx, c)
				return err
			case *skytypes.MsgLightNodeSaleClaim:
				_, err := e.ms.LightNodeSaleClaim(ctx, c)
				return err
			}
			return fmt.Errorf("unknown claim")
		})
		if r == "ok" {
			okc++
		}
	}
	return okc
}

// ---- observation ----

type obsTx struct {
	id, sender, tok int
	amount, tax     string
}

func (e *skyEnv) poolTxs() []obsTx {
	txs, err := e.raw.GetUnbatchedTransactions(e.ctx)
	if err != nil {
		e.t.Fatal(err)
	}
	var out []obsTx
	for _, tx := range txs {
		out = append(out, obsTx{int(tx.Id), e.userOf(tx.Sender.String()), e.tokenOfContract(tx.Erc20Token.Contract.GetAddress().Hex()), tx.Erc20Token.Amount.String(), tx.BridgeTaxAmount.String()})
	}
	sort.Slice(out, func(i, j int) bool { return out[i].id < out[j].id })
	return out
}

type obsBatch struct {
	tok, nonce   int
	est, timeout uint64
	txs          []obsTx
	raw          skytypes.InternalOutgoingTxBatch
}

func (e *skyEnv) batchList() []obsBatch {
	bs, err := e.raw.GetOutgoingTxBatches(e.ctx)
	if err != nil {
		e.t.Fatal(err)
	}
	var out []obsBatch
	for _, b := range bs {
		ob := obsBatch{tok: e.tokenOfContract(b.TokenContract.GetAddress().Hex()), nonce: int(b.BatchNonce), est: b.GasEstimate, timeout: b.BatchTimeout, raw: b}
		for _, tx := range b.Transactions {
			ob.txs = append(ob.txs, obsTx{int(tx.Id), e.userOf(tx.Sender.String()), ob.tok, tx.Erc20Token.Amount.String(), tx.BridgeTaxAmount.String()})
		}
		out = append(out, ob)
	}
	return out
}

func (e *skyEnv) escrow(tok int) sdkmath.Int {
	return e.in.BankKeeper.GetBalance(e.ctx, e.in.AccountKeeper.GetModuleAddress(skytypes.ModuleName), e.denoms[tok-1]).Amount
}

func (e *skyEnv) anyOf(m sdk.Msg) *codectypes.Any {
	a, err := codectypes.NewAnyWithValue(m)
	if err != nil {
		e.t.Fatal(err)
	}
	return a
}
