//go:build verif

package harness

import (
	"bytes"
	"encoding/hex"
	"fmt"
	"math/big"
	"math/rand"
	"reflect"
	"sort"
	"strings"
	"testing"
	"time"

	sdkmath "cosmossdk.io/math"
	codectypes "github.com/cosmos/cosmos-sdk/codec/types"
	sdk "github.com/cosmos/cosmos-sdk/types"
	evmtypes "github.com/palomachain/paloma/v2/x/evm/types"
	skykeeper "github.com/palomachain/paloma/v2/x/skyway/keeper"
	skytypes "github.com/palomachain/paloma/v2/x/skyway/types"
)

// C13, "what the chain asked": validators do not compute the bytes they sign, they sign what the chain PUBLISHES —
// the `bytes_to_sign` of the batches handed out by the queries pigeons poll (LastPendingBatchRequestByAddr,
// BatchRequestByNonce, OutgoingTxBatches, LastPendingBatchForGasEstimation).  These histories take the bytes from
// those queries on the fixture keeper, sign THEM with the validator's registered key, confirm, and replay the
// signature as MsgSubmitBadSignatureEvidence with the batch exactly as it was published — across the events that
// change the remote deployment's id while a batch is pending (compass upgrade), re-estimation and genesis
// export / import.  The property: a signature over anything the chain published for signing never jails its signer.
// Model: `Dep` / `evidenceD` in Model/Bridge.lean, theorems `published_*` in Props/C13.lean, lines `upgrade`,
// `published`, `pending`, `confirm`, `pubevidence` of Driver/Bridge.lean.

type c13pPub struct {
	tok, nonce int
	est        uint64
	tag        int // index of the deployment id the published bytes are a digest of (0 = none ever in force)
	ext        skytypes.OutgoingTxBatch
	epoch      int  // number of genesis export / imports before this publication
	pre        bool // the batch (with these bytes) was issued before the last export / import
	via        string
}

type c13pHarness struct {
	b      *brHarness
	ids    []string // deployment ids that were ever in force; index+1 = the model's id
	cur    int
	pubs   []c13pPub
	seen   map[string]bool
	epoch  int
	preImp map[string]bool // hex bytes of batches that were open at the last export / import
	hit    map[string]bool // monitors that fired in this case
}

func (h *c13pHarness) hitOnce(monitor, what string, known bool) {
	if known {
		if c13pKnown >= c13pKnownMax {
			return
		}
		c13pKnown++
	} else if h.hit[monitor] {
		return
	}
	h.hit[monitor] = true
	h.b.r.Hit(monitor, what, h.b.replay())
}

// the recorder keeps the first 50 monitor hits of a run: these histories run first, on a random stream of their own
// (derived from the run's seed, so the main bridge cases are what they were), and report at most c13pKnownMax hits of the
// recorded finding C13-archive-not-exported and one hit per monitor and case otherwise
const c13pKnownMax = 3

var c13pKnown int

func c13pScenario(t *testing.T, r *Rec, rounds, nops int) {
	saved := r.Rng
	r.Rng = rand.New(rand.NewSource(int64(r.Seed)*7919 + 0x13C13))
	defer func() { r.Rng = saved }()
	c13pKnown = 0
	for c := 0; c < rounds; c++ {
		c13pCase(t, r, nops, c%2 == 0)
	}
}

func (h *c13pHarness) tagOf(ext skytypes.OutgoingTxBatch) int {
	for i, id := range h.ids {
		if cp, err := ext.GetCheckpoint(id); err == nil && bytes.Equal(cp, ext.BytesToSign) {
			return i + 1
		}
	}
	return 0
}

// record: the chain has just published `ext` through query `via`.  Monitor: whatever is published for signing must be
// recognised by the evidence handler's archive as issued (else a signature over it is acceptable as evidence).
func (h *c13pHarness) record(ext skytypes.OutgoingTxBatch, via string) c13pPub {
	b, e := h.b, h.b.e
	p := c13pPub{tok: e.tokenOfContract(ext.TokenContract), nonce: int(ext.BatchNonce), est: ext.GasEstimate, tag: h.tagOf(ext), ext: ext, epoch: h.epoch, via: via}
	key := hex.EncodeToString(ext.BytesToSign)
	p.pre = h.preImp[key]
	if !c13pArchived(e, ext.BytesToSign) {
		if h.preImp[key] {
			h.hitOnce("genuine_confirmation_safe", fmt.Sprintf("%s publishes signing bytes of batch %d/%d (estimate %d) that are not in the archive of issued checkpoints after a genesis export / import of the bridge module", via, p.tok, p.nonce, p.est), true)
		} else {
			h.hitOnce("published_checkpoint_issued", fmt.Sprintf("%s publishes signing bytes of batch %d/%d (estimate %d, digest over deployment id #%d, current #%d) that are not in the archive of issued checkpoints: a signature over them is not protected from bad-signature evidence", via, p.tok, p.nonce, p.est, p.tag, h.cur), false)
		}
	}
	if !h.seen[key] {
		h.seen[key] = true
		h.pubs = append(h.pubs, p)
	}
	b.r.Stat("publish." + via)
	if p.tag != h.cur {
		b.r.Stat("publish.bytes_of_earlier_deployment")
	}
	return p
}

func c13pShow(p c13pPub) string { return fmt.Sprintf("%d:%d:%d:%d", p.tok, p.nonce, p.est, p.tag) }

func (h *c13pHarness) byNonce(tok, nonce int) (c13pPub, bool) {
	e := h.b.e
	res, err := e.raw.BatchRequestByNonce(e.ctx, &skytypes.QueryBatchRequestByNonceRequest{Nonce: uint64(nonce), ContractAddress: e.erc20[tok-1]})
	if err != nil || res == nil {
		return c13pPub{}, false
	}
	return h.record(res.Batch, "BatchRequestByNonce"), true
}

func (h *c13pHarness) publishedOp() {
	b, e := h.b, h.b.e
	var ps []c13pPub
	for _, bb := range e.batchList() {
		if p, ok := h.byNonce(bb.tok, bb.nonce); ok {
			ps = append(ps, p)
		}
	}
	// the relayers' view and the gas estimators' view: recorded and monitored (their filters are not the property's subject)
	if res, err := e.raw.OutgoingTxBatches(e.ctx, &skytypes.QueryOutgoingTxBatchesRequest{ChainReferenceId: skyChain}); err == nil && res != nil {
		for _, x := range res.Batches {
			h.record(x, "OutgoingTxBatches")
		}
	}
	for i := range skykeeper.ValAddrs {
		if res, err := e.raw.LastPendingBatchForGasEstimation(e.ctx, &skytypes.QueryLastPendingBatchForGasEstimationRequest{Address: skykeeper.ValAddrs[i], ChainReferenceId: skyChain}); err == nil && res != nil {
			for _, x := range res.Batch {
				h.record(x, "LastPendingBatchForGasEstimation")
			}
		}
	}
	sort.Slice(ps, func(i, j int) bool {
		if ps[i].tok != ps[j].tok {
			return ps[i].tok < ps[j].tok
		}
		return ps[i].nonce < ps[j].nonce
	})
	out := "-"
	if len(ps) > 0 {
		ss := make([]string, len(ps))
		for i, p := range ps {
			ss[i] = c13pShow(p)
		}
		out = strings.Join(ss, ";")
	}
	b.emit("published", out)
}

func (h *c13pHarness) pendingOp(v int) (c13pPub, bool) {
	b, e := h.b, h.b.e
	res, err := e.raw.LastPendingBatchRequestByAddr(e.ctx, &skytypes.QueryLastPendingBatchRequestByAddrRequest{Address: e.orch(v - 1).String()})
	if err != nil {
		b.r.t.Fatalf("LastPendingBatchRequestByAddr: %v", err)
	}
	out, ok := "-", false
	var p c13pPub
	if res != nil && len(res.Batch) > 0 {
		p, ok = h.record(res.Batch[0], "LastPendingBatchRequestByAddr"), true
		out = c13pShow(p)
	}
	b.emit(fmt.Sprintf("pending %d", v), out)
	return p, ok
}

// confirmOp: validator v asks for the batch, signs the published bytes with its registered key and confirms.
func (h *c13pHarness) confirmOp(v, tok, nonce int) {
	b, e := h.b, h.b.e
	res := "rejected"
	if p, ok := h.byNonce(tok, nonce); ok {
		sig, err := skytypes.NewEthereumSignature(p.ext.BytesToSign, b.keys[v])
		if err != nil {
			b.r.t.Fatal(err)
		}
		o := e.orch(v - 1)
		e.fault.Reset("", 0)
		res = e.runMsg(func(ctx sdk.Context) error {
			_, err := e.ms.ConfirmBatch(ctx, &skytypes.MsgConfirmBatch{Nonce: uint64(nonce), TokenContract: e.erc20[tok-1], EthSigner: b.ethAddrOf(v), Orchestrator: o.String(), Signature: hex.EncodeToString(sig), Metadata: e.meta(o)})
			return err
		})
	}
	b.r.Stat("confirm." + res)
	b.emit(fmt.Sprintf("confirm %d %d %d", v, tok, nonce), res)
}

// evidenceOp: a signature by validator v's registered key over bytes the chain published (genuine), or over the digest
// a validator would have to compute itself with the current id (never published: recomputed), is replayed by a third
// party as bad-signature evidence; the subject is the batch exactly as published.
func (h *c13pHarness) evidenceOp(p c13pPub, v int, recomputed bool) bool {
	b, e := h.b, h.b.e
	ext := p.ext
	signed, tag := ext.BytesToSign, p.tag
	if recomputed {
		cp, err := ext.GetCheckpoint(h.ids[h.cur-1])
		if err != nil {
			b.r.t.Fatal(err)
		}
		signed, tag = cp, h.cur
	}
	sig, err := skytypes.NewEthereumSignature(signed, b.keys[v])
	if err != nil {
		b.r.t.Fatal(err)
	}
	subject, err := codectypes.NewAnyWithValue(&ext)
	if err != nil {
		b.r.t.Fatal(err)
	}
	before := b.jailedList()
	e.fault.Reset("", 0)
	res := e.runMsg(func(ctx sdk.Context) error {
		_, err := e.ms.SubmitBadSignatureEvidence(ctx, &skytypes.MsgSubmitBadSignatureEvidence{Subject: subject, Signature: hex.EncodeToString(sig), ChainReferenceId: skyChain, Metadata: e.meta(e.users[0])})
		return err
	})
	after := b.jailedList()
	op := fmt.Sprintf("pubevidence %d %d %d %d %d", p.tok, p.nonce, p.est, tag, v)
	b.ops = append(b.ops, op)
	if !recomputed {
		b.r.Stat("pubevidence.genuine." + res)
		if after != before {
			if p.epoch < h.epoch || p.pre {
				h.hitOnce("genuine_confirmation_safe", fmt.Sprintf("validator %d signed the bytes %s published for batch %d/%d (estimate %d); replayed as evidence the signature jailed validator(s) %s after a genesis export / import of the bridge module", v, p.via, p.tok, p.nonce, p.est, after), true)
			} else {
				h.hitOnce("published_checkpoint_safe", fmt.Sprintf("validator %d signed the bytes %s published for batch %d/%d (estimate %d, digest over deployment id #%d, current #%d); replayed as bad-signature evidence the signature jailed validator(s) %s", v, p.via, p.tok, p.nonce, p.est, p.tag, h.cur, after), false)
			}
		}
	} else {
		b.r.Stat("pubevidence.recomputed." + res)
	}
	b.ops = b.ops[:len(b.ops)-1]
	b.emit(op, res+" jailed="+after)
	return after != before
}

func (h *c13pHarness) upgradeOp() {
	b, e := h.b, h.b.e
	ci, err := e.in.EvmKeeper.GetChainInfo(e.ctx, skyChain)
	if err != nil {
		b.r.t.Fatal(err)
	}
	id := fmt.Sprintf("compass-%d", len(h.ids)+1)
	addr := fmt.Sprintf("0x51eca2efb15afacc612278c71f5edb35986f%04x", len(h.ids)+1)
	if err := e.in.EvmKeeper.ActivateChainReferenceID(e.ctx, skyChain, &evmtypes.SmartContract{Id: ci.GetActiveSmartContractID() + 1}, addr, []byte(id)); err != nil {
		b.r.t.Fatal(err)
	}
	h.ids = append(h.ids, id)
	h.cur = len(h.ids)
	b.r.Stat("op.upgrade")
	if len(e.batchList()) > 0 {
		b.r.Stat("op.upgrade.while_batch_pending")
	}
	b.emit(fmt.Sprintf("upgrade %d", h.cur), "ok")
}

func (h *c13pHarness) sendOp() {
	b, e := h.b, h.b.e
	u, tk := 1+b.r.Rng.Intn(3), 1+b.r.Rng.Intn(2)
	amt := sdkmath.NewInt(int64(1 + b.r.Rng.Intn(300)))
	e.fault.Reset("", 0)
	res := e.runMsg(func(ctx sdk.Context) error {
		_, err := e.ms.SendToRemote(ctx, &skytypes.MsgSendToRemote{EthDest: "0x00000000000000000000000000000000000000aa", Amount: sdk.Coin{Denom: e.denoms[tk-1], Amount: amt}, ChainReferenceId: skyChain, Metadata: e.meta(e.users[u-1])})
		return err
	})
	b.emit(fmt.Sprintf("send 0:0 %d %d %s %d", u, tk, amt, e.height), res+" "+b.state())
}

func (h *c13pHarness) buildOp(tk int) {
	b, e := h.b, h.b.e
	e.fault.Reset("", 0)
	contract, _ := skytypes.NewEthAddress(e.erc20[tk-1])
	res := "ok"
	bt, err := e.k.BuildOutgoingTXBatch(e.ctx, skyChain, *contract, skykeeper.OutgoingTxBatchSize)
	if err != nil {
		res = "rejected"
	} else if bt == nil {
		res = "noop"
	}
	b.r.Stat("pub.build." + res)
	b.emit(fmt.Sprintf("build 0:0 %d %d", tk, e.now.Unix()), res+" "+b.state())
}

// estimateOp: every validator submits the same estimate for an open batch without one (elected by the next end-block)
func (h *c13pHarness) estimateOp() {
	b, e := h.b, h.b.e
	for _, bb := range e.batchList() {
		if _, dup := b.pendEst[[2]int{bb.tok, bb.nonce}]; dup || bb.est > 0 {
			continue
		}
		est := uint64(21000 + b.r.Rng.Intn(500000))
		okc := 0
		for i := range skykeeper.ValAddrs {
			o := e.orch(i)
			if e.runMsg(func(ctx sdk.Context) error {
				_, err := e.ms.EstimateBatchGas(ctx, &skytypes.MsgEstimateBatchGas{Metadata: e.meta(o), Nonce: uint64(bb.nonce), TokenContract: e.erc20[bb.tok-1], EthSigner: b.ethAddrOf(i + 1), Estimate: est})
				return err
			}) == "ok" {
				okc++
			}
		}
		if okc == len(skykeeper.ValAddrs) {
			b.pendEst[[2]int{bb.tok, bb.nonce}] = est
			b.emit(fmt.Sprintf("estimate %d %d %d", bb.tok, bb.nonce, est), b.state())
			b.r.Stat("pub.estimate")
		} else if okc != 0 {
			b.r.t.Fatalf("partial estimates %d", okc)
		}
		return
	}
}

func (h *c13pHarness) endBlockOp(timeout bool) {
	b, e := h.b, h.b.e
	hh := e.height + 1
	if b.r.Rng.Intn(3) == 0 {
		hh = (e.height/50 + 1) * 50
	}
	now := e.now.Add(time.Duration(2+b.r.Rng.Intn(10)) * time.Second)
	if timeout {
		now = e.now.Add(11 * time.Minute)
	}
	e.setBlock(hh, now)
	e.fault.Reset("", 0)
	denoms, _ := e.raw.GetAllERC20ToDenoms(e.ctx)
	var toks []string
	for _, d := range denoms {
		toks = append(toks, fmt.Sprint(e.tokenOf(d.Denom)))
	}
	var ests []string
	for _, bb := range e.batchList() {
		if v, ok := b.pendEst[[2]int{bb.tok, bb.nonce}]; ok && bb.est == 0 {
			ests = append(ests, fmt.Sprintf("%d:%d:%d", bb.tok, bb.nonce, v))
		}
	}
	estS := "-"
	if len(ests) > 0 {
		estS = strings.Join(ests, ",")
	}
	e.endBlock()
	still := map[[2]int]bool{}
	for _, bb := range e.batchList() {
		still[[2]int{bb.tok, bb.nonce}] = true
	}
	for k := range b.pendEst {
		if !still[k] {
			delete(b.pendEst, k)
		}
	}
	b.emit(fmt.Sprintf("endblock 0:0 %d %d %s %s", hh, now.Unix(), strings.Join(toks, ","), estS), b.state())
}

func (h *c13pHarness) reimportOp() {
	b, e := h.b, h.b.e
	h.preImp = map[string]bool{}
	for _, bb := range e.batchList() {
		h.preImp[hex.EncodeToString(bb.raw.BytesToSign)] = true
	}
	gs := skykeeper.ExportGenesis(e.ctx, e.raw)
	st := e.raw.GetStore(e.ctx, "")
	it := st.Iterator(nil, nil)
	var keys [][]byte
	for ; it.Valid(); it.Next() {
		keys = append(keys, append([]byte(nil), it.Key()...))
	}
	it.Close()
	for _, k := range keys {
		st.Delete(k)
	}
	skykeeper.InitGenesis(e.ctx, e.raw, gs)
	h.epoch++
	b.r.Stat("pub.reimport")
	b.emit("reimport", b.state())
}

func c13pCase(t *testing.T, r *Rec, nops int, directed bool) {
	e := newSkyEnv(t, 3)
	b := &brHarness{r: r, e: e, nTok: 2, accepted: map[int]obsTx{}, refunded: map[int]bool{}, burned: map[int]bool{},
		taxRate: map[int][2]int64{}, taxEx: map[int]int{}, lastTax: map[int][3]string{}, lastLimit: map[int][2]string{}, ckptSeen: map[string]bool{}, deposits: map[uint64][2]int64{}, pendEst: map[[2]int]uint64{}, fundedSupply: map[int]*big.Int{}, minted: map[int]*big.Int{}, burnt: map[int]*big.Int{}}
	b.initKeys()
	h := &c13pHarness{b: b, ids: []string{skyCompass}, cur: 1, seen: map[string]bool{}, preImp: map[string]bool{}, hit: map[string]bool{}}
	e.addToken("utok1", "0x1000000000000000000000000000000000000001")
	e.addToken("utok2", "0x1000000000000000000000000000000000000002")
	b.emit("reset 2", "ok")
	for u := 1; u <= 3; u++ {
		for tk := 1; tk <= 2; tk++ {
			amt := sdkmath.NewInt(int64(1000 + r.Rng.Intn(4000)))
			e.fund(u, tk, amt)
			b.emit(fmt.Sprintf("fund %d %d %s", u, tk, amt), b.state())
		}
	}
	nonTrivial, jailed := false, false
	val := func() int { return 1 + r.Rng.Intn(len(skykeeper.ValAddrs)) }
	if directed {
		// a batch is built [and re-estimated], the compass is upgraded while it is pending, a validator asks what it has
		// to sign, signs what it is handed, and the signature is replayed as evidence
		r.Stat("case.directed_upgrade_while_pending")
		h.sendOp()
		h.sendOp()
		h.buildOp(1)
		h.buildOp(2)
		if r.Rng.Intn(2) == 0 {
			h.estimateOp()
			h.endBlockOp(false)
		}
		if r.Rng.Intn(3) == 0 {
			h.confirmOp(val(), 1+r.Rng.Intn(2), 1+r.Rng.Intn(2))
		}
		h.upgradeOp()
		for i := 0; i < 2; i++ {
			v := val()
			if p, ok := h.pendingOp(v); ok {
				nonTrivial = true
				if h.evidenceOp(p, v, false) {
					jailed = true
				}
			}
		}
		h.publishedOp()
	}
	for i := 0; i < nops && !jailed; i++ {
		switch x := r.Rng.Intn(100); {
		case x < 14:
			h.sendOp()
		case x < 24:
			h.buildOp(1 + r.Rng.Intn(2))
		case x < 32:
			h.estimateOp()
		case x < 44:
			h.endBlockOp(r.Rng.Intn(8) == 0)
		case x < 52:
			h.upgradeOp()
		case x < 59:
			h.publishedOp()
		case x < 70:
			h.pendingOp(val())
		case x < 80:
			tk, nonce := 1+r.Rng.Intn(2), 1+r.Rng.Intn(4)
			if bs := e.batchList(); len(bs) > 0 && r.Rng.Intn(6) != 0 {
				bb := bs[r.Rng.Intn(len(bs))]
				tk, nonce = bb.tok, bb.nonce
			}
			h.confirmOp(val(), tk, nonce)
		case x < 83:
			h.reimportOp()
		default:
			if len(h.pubs) == 0 {
				continue
			}
			p := h.pubs[r.Rng.Intn(len(h.pubs))]
			// the recomputed digest (never published) jails: kept for the end of a case
			recomputed := r.Rng.Intn(6) == 0 && i > nops*2/3
			nonTrivial = true
			if h.evidenceOp(p, val(), recomputed) {
				jailed = true
			}
		}
	}
	r.Case(strings.Join(b.ops, "|"), nonTrivial)
}

// c13pArchived asks the keeper's archive of issued checkpoints.  The call goes through reflection so that the harness
// still builds (and the monitors still run) on a tree where the archive's look-up takes the chain as well: a parameter
// of type string receives the chain the batch was built for.
func c13pArchived(e *skyEnv, checkpoint []byte) bool {
	m := reflect.ValueOf(e.raw).MethodByName("GetPastEthSignatureCheckpoint")
	if !m.IsValid() {
		panic("the keeper has no GetPastEthSignatureCheckpoint")
	}
	var args []reflect.Value
	for i := 0; i < m.Type().NumIn(); i++ {
		switch in := m.Type().In(i); {
		case in.Kind() == reflect.String:
			args = append(args, reflect.ValueOf(skyChain).Convert(in))
		case in.Kind() == reflect.Slice:
			args = append(args, reflect.ValueOf(checkpoint))
		default:
			args = append(args, reflect.ValueOf(e.ctx))
		}
	}
	out := m.Call(args)
	return len(out) > 0 && out[0].Kind() == reflect.Bool && out[0].Bool()
}
