//go:build verif

package harness

// C16 — token factory: only the current admin mints / burns / changes metadata / hands over the
// admin role, mint and burn touch the admin's own balance only, supply = mints - burns, creation
// stays inside factory/<creator>/, no re-creation, foreign denoms are untouchable.
//
// Drives the REAL chain (full app: ante chain + msg router) with the five tokenfactory messages,
// bank MsgSend, feegrant grant/revoke, and the exported wasm-binding entry points
// (PerformCreateDenom / PerformMint / PerformBurn / ChangeAdmin / PerformSetMetadata) on the
// deliver state — directly, and through the JSON custom message + Messenger.DispatchMsg path the
// wasm router uses.  Wasm metadata payloads name denominations of their own (metadata.base,
// display, first denom unit) that are chosen independently of the denom the message is addressed
// to.  Lean model: PalomaModel/Model/TokenFactory.lean, driver Driver/C16.lean.

import (
	"crypto/sha256"
	"encoding/json"
	"fmt"
	"math/big"
	"runtime/debug"
	"sort"
	"strconv"
	"strings"
	"testing"
	"unicode/utf8"

	errorsmod "cosmossdk.io/errors"
	sdkmath "cosmossdk.io/math"
	"cosmossdk.io/x/feegrant"
	sdk "github.com/cosmos/cosmos-sdk/types"
	"github.com/cosmos/cosmos-sdk/types/bech32"
	authtypes "github.com/cosmos/cosmos-sdk/x/auth/types"
	bankkeeper "github.com/cosmos/cosmos-sdk/x/bank/keeper"
	banktypes "github.com/cosmos/cosmos-sdk/x/bank/types"
	palomaapp "github.com/palomachain/paloma/v2/app"
	"github.com/palomachain/paloma/v2/util/libwasm"
	tfbindings "github.com/palomachain/paloma/v2/x/tokenfactory/bindings"
	tfbtypes "github.com/palomachain/paloma/v2/x/tokenfactory/bindings/types"
	tfkeeper "github.com/palomachain/paloma/v2/x/tokenfactory/keeper"
	tftypes "github.com/palomachain/paloma/v2/x/tokenfactory/types"
	valsettypes "github.com/palomachain/paloma/v2/x/valset/types"
)

const (
	c16Native     = "natm" // genesis denom WITH bank metadata and supply
	c16NativeTag  = 7
	c16NativeEach = 1000
	c16ModuleIdx  = 100 // tokenfactory module account
	c16PoolIdx    = 101 // distribution module account
)

// holders printed per watched denom (must match Driver/C16.lean `holders`)
var c16Holders = []int{0, 1, 2, 3, 4, 5, c16ModuleIdx, c16PoolIdx}

type c16Row struct {
	supply string
	admin  string // index, "-" for the empty admin, "?" for an address outside the table
	meta   string // tag or "-"
	bals   []string
}

type c16Obs struct {
	full  map[string]c16Row
	light map[string][]string
	lmeta map[string]string // bank metadata tag of the light denoms
	// EVERY bank metadata record of the chain: base -> digest of the whole record
	allMeta map[string]string
}

type c16Env struct {
	t      *testing.T
	r      *Rec
	fa     *FullApp
	addrs  map[int]sdk.AccAddress
	idx    map[string]int
	grants map[[2]int]bool
	// denoms that have (had) bank metadata in this app, by string
	exists map[string]bool

	// per case
	watch, light []string
	hist         []string
	adm          map[string]string   // tracked admin per denom (from successful create / change-admin results only)
	minted       map[string]*big.Int // tracked successful mints / burns in this case
	burned       map[string]*big.Int
	start        c16Obs
	createdCase  map[string]bool
	fast         bool
}

func c16NewEnv(t *testing.T, r *Rec, seed int64) *c16Env {
	bal := sdk.NewCoins(sdk.NewInt64Coin(FABondDenom, 1_000_000_000_000), sdk.NewInt64Coin(c16Native, c16NativeEach))
	fa := NewFullApp(t, FullAppOpts{
		Seed: seed, NumUsers: 4, UserBalance: bal,
		MutateGenesis: func(a *palomaapp.App, gs map[string]json.RawMessage) {
			var bank banktypes.GenesisState
			a.AppCodec().MustUnmarshalJSON(gs[banktypes.ModuleName], &bank)
			bank.DenomMetadata = append(bank.DenomMetadata, banktypes.Metadata{
				Base: c16Native, Display: c16Native, Name: "n" + strconv.Itoa(c16NativeTag), Symbol: "S",
				DenomUnits: []*banktypes.DenomUnit{{Denom: c16Native}},
			})
			gs[banktypes.ModuleName] = a.AppCodec().MustMarshalJSON(&bank)
		},
	})
	e := &c16Env{t: t, r: r, fa: fa, addrs: map[int]sdk.AccAddress{}, idx: map[string]int{}, grants: map[[2]int]bool{}, exists: map[string]bool{c16Native: true}}
	for i := 0; i < 4; i++ {
		e.addrs[i] = fa.User(i).Addr
	}
	for i := 4; i < 6; i++ { // addresses nobody holds a key for (stand-ins for contracts)
		h := sha256.Sum256([]byte(fmt.Sprintf("c16-extra-%d", i)))
		e.addrs[i] = sdk.AccAddress(h[:20])
	}
	e.addrs[c16ModuleIdx] = authtypes.NewModuleAddress(tftypes.ModuleName)
	e.addrs[c16PoolIdx] = authtypes.NewModuleAddress("distribution")
	for i, a := range e.addrs {
		e.idx[a.String()] = i
	}
	return e
}

func (e *c16Env) A(i int) string { return e.addrs[i].String() }

// c16Enc renders a Go string for the line protocol: "~" = empty string, whole `/`-parts that are a
// table address become @i, bytes outside [A-Za-z0-9:._-] become %XX.
func (e *c16Env) enc(s string) string {
	if s == "" {
		return "~"
	}
	parts := strings.Split(s, "/")
	for i, p := range parts {
		if k, ok := e.idx[p]; ok {
			parts[i] = "@" + strconv.Itoa(k)
			continue
		}
		var b strings.Builder
		for j := 0; j < len(p); j++ {
			c := p[j]
			if c >= 'a' && c <= 'z' || c >= 'A' && c <= 'Z' || c >= '0' && c <= '9' || c == ':' || c == '.' || c == '_' || c == '-' {
				b.WriteByte(c)
			} else {
				fmt.Fprintf(&b, "%%%02X", c)
			}
		}
		parts[i] = b.String()
	}
	return strings.Join(parts, "/")
}

// address-valued argument: index, -1 = "", -2 = not an address
func (e *c16Env) addrArg(i int) (string, string) {
	switch i {
	case -1:
		return "", "~"
	case -2:
		return "not-an-address", "!"
	}
	return e.A(i), "@" + strconv.Itoa(i)
}

func c16Tag(name string) string {
	if name == "" {
		return "0"
	}
	if strings.HasPrefix(name, "n") {
		if _, err := strconv.Atoi(name[1:]); err == nil {
			return name[1:]
		}
	}
	return "?"
}

func (e *c16Env) observe() c16Obs {
	ctx := e.readCtx()
	app := e.fa.App()
	o := c16Obs{full: map[string]c16Row{}, light: map[string][]string{}, lmeta: map[string]string{}, allMeta: map[string]string{}}
	for _, md := range app.BankKeeper.GetAllDenomMetaData(ctx) {
		bz, err := md.Marshal()
		if err != nil {
			e.t.Fatalf("metadata marshal: %v", err)
		}
		h := sha256.Sum256(bz)
		o.allMeta[md.Base] = fmt.Sprintf("%x", h[:8])
	}
	for _, d := range e.watch {
		row := c16Row{supply: app.BankKeeper.GetSupply(ctx, d).Amount.String(), admin: "-", meta: "-"}
		am, err := app.TokenFactoryKeeper.GetAuthorityMetadata(ctx, d)
		if err != nil {
			row.admin = "?"
		} else if am.Admin != "" {
			if k, ok := e.idx[am.Admin]; ok {
				row.admin = strconv.Itoa(k)
			} else {
				row.admin = "?"
			}
		}
		if md, ok := app.BankKeeper.GetDenomMetaData(ctx, d); ok {
			row.meta = c16Tag(md.Name)
		}
		for _, h := range c16Holders {
			row.bals = append(row.bals, app.BankKeeper.GetBalance(ctx, e.addrs[h], d).Amount.String())
		}
		o.full[d] = row
	}
	for _, d := range e.light {
		var b []string
		for h := 0; h < 6; h++ {
			b = append(b, app.BankKeeper.GetBalance(ctx, e.addrs[h], d).Amount.String())
		}
		o.light[d] = b
		o.lmeta[d] = "-"
		if md, ok := app.BankKeeper.GetDenomMetaData(ctx, d); ok {
			o.lmeta[d] = c16Tag(md.Name)
		}
	}
	return o
}

func (e *c16Env) show(o c16Obs) string {
	var out []string
	for _, d := range e.watch {
		r := o.full[d]
		out = append(out, r.supply+"|"+r.admin+"|"+r.meta+"|"+strings.Join(r.bals, ","))
	}
	for _, d := range e.light {
		out = append(out, o.lmeta[d]+"|"+strings.Join(o.light[d], ","))
	}
	return strings.Join(out, " ")
}

func c16SameRow(a, b c16Row) bool {
	return a.supply == b.supply && a.admin == b.admin && a.meta == b.meta && strings.Join(a.bals, ",") == strings.Join(b.bals, ",")
}

func c16Code(codespace string, code uint32) string {
	switch {
	case codespace == tftypes.ModuleName:
		return "rej:tf" + strconv.Itoa(int(code))
	case codespace == "sdk":
		return "rej:sdk" + strconv.Itoa(int(code))
	case codespace == "undefined" && code == 1:
		return "rej:err"
	}
	return "rej:" + codespace + strconv.Itoa(int(code))
}

func c16TxRes(r FATxResult) string {
	switch {
	case r.BlockErr != "":
		return "blockerr"
	case r.Panicked:
		return "panic"
	case r.Code == 0:
		return "ok"
	}
	return c16Code(r.Codespace, r.Code)
}

// Execution modes.  block mode: every op is its own block (FullApp.DeliverTx / WithDeliverCtx).
// fast mode: the whole case runs inside ONE block, from the fixture's deliver-state hook: a tx goes
// through BaseApp.SimDeliver, i.e. the very runTx(execModeFinalize) that FinalizeBlock uses for a
// block's txs (ValidateBasic, ante chain, msg router, per-message cache), on the block's finalize
// state.  Every sixth case uses block mode, so both paths are compared with the model.

// readCtx is a throw-away branch of the state the next op will see.
func (e *c16Env) readCtx() sdk.Context {
	if e.fast {
		ctx, _ := e.fa.App().BaseApp.GetContextForFinalizeBlock(nil).CacheContext()
		return ctx
	}
	return e.fa.CtxCached()
}

// god applies fn to the state directly (test set-up only).
func (e *c16Env) god(fn func(ctx sdk.Context) error) error {
	if e.fast {
		ctx, write := e.fa.App().BaseApp.GetContextForFinalizeBlock(nil).CacheContext()
		if err := fn(ctx); err != nil {
			return err
		}
		write()
		return nil
	}
	_, err := e.fa.WithDeliverCtx(fn)
	return err
}

func c16ErrRes(err error) string {
	if err == nil {
		return "ok"
	}
	cs, code, _ := errorsmod.ABCIInfo(err, false)
	if cs == "undefined" && code == 111222 {
		return "panic"
	}
	return c16Code(cs, code)
}

// tx delivers one message in a transaction signed by user `signer`.
func (e *c16Env) tx(signer int, msg sdk.Msg) string {
	u := e.fa.User(signer)
	if !e.fast {
		return c16TxRes(e.fa.DeliverTx(u, msg))
	}
	base := e.fa.App().BaseApp
	acc := e.fa.App().AccountKeeper.GetAccount(e.readCtx(), u.Addr)
	bz, err := e.fa.BuildTx(FATx{Msgs: []sdk.Msg{msg}, Signers: []*FAAccount{u},
		AccNums: []uint64{acc.GetAccountNumber()}, Sequences: []uint64{acc.GetSequence()}}, nil)
	if err != nil {
		return "builderr"
	}
	tx, err := e.fa.App().TxConfig().TxDecoder()(bz)
	if err != nil {
		return "decodeerr"
	}
	_, _, err = base.SimDeliver(e.fa.App().TxConfig().TxEncoder(), tx)
	return c16ErrRes(err)
}

// wasm runs one exported binding entry point atomically on the deliver state (as a contract's
// custom message runs inside the calling message's cache).
func (e *c16Env) wasm(fn func(ctx sdk.Context, tk *tfkeeper.Keeper, bk *bankkeeper.BaseKeeper) error) string {
	panicked := false
	run := func(ctx sdk.Context) (err error) {
		defer func() {
			if p := recover(); p != nil {
				panicked = true
				err = fmt.Errorf("panic: %v", p)
			}
		}()
		tk := e.fa.App().TokenFactoryKeeper
		bk := e.fa.App().BankKeeper.(bankkeeper.BaseKeeper)
		return fn(ctx, &tk, &bk)
	}
	var err error
	if e.fast {
		ctx, write := e.fa.App().BaseApp.GetContextForFinalizeBlock(nil).CacheContext()
		if err = run(ctx); err == nil {
			write()
		}
	} else {
		var b FABlockResult
		b, err = e.fa.WithDeliverCtx(run)
		if !b.OK() {
			return "blockerr"
		}
	}
	if panicked {
		return "panic"
	}
	return c16ErrRes(err)
}

// ---- monitors (the property evaluated on the observed behaviour, independently of the model) ----

func (e *c16Env) hit(mon, what string) {
	e.r.Hit(mon, what, append([]string(nil), e.hist...))
}

type c16Act struct {
	kind    string // create mint burn chadmin setmeta send grant revoke setfee (wasm variants share the kind)
	wasm    bool
	actor   int // creator / contract / sender
	signer  int // tx signer (= actor for wasm)
	mode    int
	denom   string // denomination acted on (create: the expected new denom)
	amt     *big.Int
	to      int // wmint recipient / send recipient / new admin (-1 "", -2 bad)
	granted bool
}

func (e *c16Env) monitors(a c16Act, res string, pre, post c16Obs) {
	ok := res == "ok"
	// failed op is a no-op on everything observable
	if !ok {
		for _, d := range e.watch {
			if !c16SameRow(pre.full[d], post.full[d]) {
				e.hit("failed_op_is_noop", fmt.Sprintf("%s %s changed row of %s", a.kind, res, e.enc(d)))
			}
		}
		for _, d := range e.light {
			if strings.Join(pre.light[d], ",") != strings.Join(post.light[d], ",") {
				e.hit("failed_op_is_noop", fmt.Sprintf("%s %s changed balances of %s", a.kind, res, e.enc(d)))
			}
		}
		for _, x := range c16MetaDiff(pre, post) {
			e.hit("failed_op_is_noop", fmt.Sprintf("%s %s changed the bank metadata of %s", a.kind, res, e.enc(x)))
		}
		return
	}
	actor := e.A(a.actor)
	switch a.kind {
	case "mint", "burn", "chadmin", "setmeta":
		if e.adm[a.denom] != actor {
			e.hit("only_admin_acts", fmt.Sprintf("%s on %s by %d succeeded, tracked admin %q", a.kind, e.enc(a.denom), a.actor, e.enc(e.adm[a.denom])))
		}
		if !a.wasm && a.signer != a.actor && !(a.mode == 0 && e.grants[[2]int{a.actor, a.signer}]) {
			e.hit("only_admin_acts", fmt.Sprintf("%s signed by %d for creator %d without authorisation", a.kind, a.signer, a.actor))
		}
		if !e.exists[a.denom] {
			e.hit("non_factory_untouchable", fmt.Sprintf("%s on %s which the factory never created", a.kind, e.enc(a.denom)))
		}
		if _, _, err := tftypes.DeconstructDenom(a.denom); err != nil {
			e.hit("non_factory_untouchable", fmt.Sprintf("%s on non-factory denom %s", a.kind, e.enc(a.denom)))
		}
	case "create":
		if !a.wasm && a.signer != a.actor && !(a.mode == 0 && e.grants[[2]int{a.actor, a.signer}]) {
			e.hit("namespace", fmt.Sprintf("create signed by %d for creator %d without authorisation", a.signer, a.actor))
		}
		if row, watched := pre.full[a.denom]; e.exists[a.denom] || !watched || row.meta != "-" {
			e.hit("no_recreate", "created again: "+e.enc(a.denom))
		}
		if !strings.HasPrefix(a.denom, "factory/"+actor+"/") {
			e.hit("namespace", "created outside namespace: "+e.enc(a.denom))
		}
	}
	// "only its current admin can change its metadata", over EVERY denomination the bank knows
	// (watched or not, factory or native, well-formed or not): a bank metadata record may only be
	// written by a successful create / set-metadata whose target denomination — the one whose
	// admin was just checked above — is the key of that record.
	for _, x := range c16MetaDiff(pre, post) {
		if a.kind == "reimport" && e.exists[x] {
			// importing the token factory's genesis writes the DEFAULT bank metadata of every exported denomination
			// again (createDenomAfterValidation): the unchanged tree does that, see Props/C16.md; admins, supplies and
			// balances are what the round trip must keep (checked below)
			continue
		}
		if !(x == a.denom && (a.kind == "create" || a.kind == "setmeta")) {
			e.hit("only_admin_acts", fmt.Sprintf("%s on %s by %d wrote the bank metadata of %s (tracked admin of that denom: %q)", a.kind, e.enc(a.denom), a.actor, e.enc(x), e.enc(e.adm[x])))
		}
	}
	// frame: which rows may change, and how
	for _, d := range e.watch {
		p, q := pre.full[d], post.full[d]
		if p.meta != "-" && q.meta == "-" {
			e.hit("no_recreate", "existence reverted: "+e.enc(d))
		}
		if d != a.denom || !(a.kind == "mint" || a.kind == "burn") {
			if p.supply != q.supply {
				e.hit("supply_eq_mints_minus_burns", fmt.Sprintf("%s changed supply of %s", a.kind, e.enc(d)))
			}
		}
		if d != a.denom || !(a.kind == "create" || a.kind == "chadmin") {
			if p.admin != q.admin {
				e.hit("only_admin_acts", fmt.Sprintf("%s changed admin of %s", a.kind, e.enc(d)))
			}
		}
		if (d != a.denom || !(a.kind == "create" || a.kind == "setmeta")) && !(a.kind == "reimport" && q.meta == "0") {
			if p.meta != q.meta {
				e.hit("only_admin_acts", fmt.Sprintf("%s changed metadata of %s", a.kind, e.enc(d)))
			}
		}
		// balances
		for i, h := range c16Holders {
			pb, _ := new(big.Int).SetString(p.bals[i], 10)
			qb, _ := new(big.Int).SetString(q.bals[i], 10)
			want := new(big.Int).Set(pb)
			if d == a.denom {
				switch a.kind {
				case "mint":
					// the tx message credits the admin; the wasm binding credits mint_to_address
					// (mint to the contract + the contract's own bank send, see C16.md)
					if (!a.wasm && h == a.actor) || (a.wasm && h == a.to) {
						want.Add(want, a.amt)
					}
				case "burn":
					if h == a.actor {
						want.Sub(want, a.amt)
					}
				case "send":
					if h == a.actor {
						want.Sub(want, a.amt)
					}
					if h == a.to {
						want.Add(want, a.amt)
					}
				}
			}
			if qb.Cmp(want) != 0 {
				mon := "mint_burn_touch_only_admin"
				if a.kind != "mint" && a.kind != "burn" {
					mon = "frame"
				}
				e.hit(mon, fmt.Sprintf("%s on %s: balance of %d in %s went %s -> %s, expected %s", a.kind, e.enc(a.denom), h, e.enc(d), pb, qb, want))
			}
		}
	}
	// bookkeeping from RESULTS only
	switch a.kind {
	case "create":
		e.exists[a.denom] = true
		e.createdCase[a.denom] = true
		e.adm[a.denom] = actor
		if pre.full[a.denom].supply != "0" {
			e.hit("supply_eq_mints_minus_burns", "created denom had supply before creation: "+e.enc(a.denom))
		}
		if q := post.full[a.denom]; q.admin != strconv.Itoa(a.actor) || q.meta == "-" {
			e.hit("namespace", "create did not make the creator admin of "+e.enc(a.denom))
		}
	case "chadmin":
		if a.to >= 0 {
			e.adm[a.denom] = e.A(a.to)
		} else {
			e.adm[a.denom] = ""
		}
	case "mint":
		if e.minted[a.denom] == nil {
			e.minted[a.denom] = new(big.Int)
		}
		e.minted[a.denom].Add(e.minted[a.denom], a.amt)
		if a.wasm && a.to != a.actor {
			e.r.Stat("wmint_to_other")
			// "minting ... only ever touch[es] the admin's own balance" is false on the contract path
			// (known finding C16-wasm-mint-to; the check reports it as KNOWN-FINDING)
			e.hit("mint_touches_only_admin_strict", fmt.Sprintf("wasm-mint-to: contract %d, admin of %s, minted %s into the balance of %d (mint_to_address of the wasm binding; no blocked-address check)", a.actor, e.enc(a.denom), a.amt, a.to))
		}
	case "burn":
		if e.burned[a.denom] == nil {
			e.burned[a.denom] = new(big.Int)
		}
		e.burned[a.denom].Add(e.burned[a.denom], a.amt)
	case "grant":
		e.grants[[2]int{a.actor, a.to}] = true
	case "revoke":
		delete(e.grants, [2]int{a.actor, a.to})
	}
	e.ledgerCheck(post)
}

// ledgerCheck: supply = start + successful mints - successful burns, and the authority metadata names the tracked admin
// (tracked from the RESULTS of create / change-admin only), for every watched denomination.
func (e *c16Env) ledgerCheck(post c16Obs) {
	for _, d := range e.watch {
		s0, _ := new(big.Int).SetString(e.start.full[d].supply, 10)
		if m := e.minted[d]; m != nil {
			s0.Add(s0, m)
		}
		if b := e.burned[d]; b != nil {
			s0.Sub(s0, b)
		}
		if s0.String() != post.full[d].supply {
			e.hit("supply_eq_mints_minus_burns", fmt.Sprintf("%s: supply %s, start+mints-burns %s", e.enc(d), post.full[d].supply, s0))
		}
		want := "-"
		if t, ok := e.adm[d]; ok && t != "" {
			want = strconv.Itoa(e.idx[t])
		}
		if post.full[d].admin != want {
			e.hit("only_admin_acts", fmt.Sprintf("%s: authority admin %s, tracked %s", e.enc(d), post.full[d].admin, want))
		}
	}
}

// c16MetaDiff lists (sorted) the denominations whose bank metadata record differs between two observations.
func c16MetaDiff(pre, post c16Obs) []string {
	var out []string
	for k, v := range pre.allMeta {
		if w, ok := post.allMeta[k]; !ok || w != v {
			out = append(out, k)
		}
	}
	for k := range post.allMeta {
		if _, ok := pre.allMeta[k]; !ok {
			out = append(out, k)
		}
	}
	sort.Strings(out)
	return out
}

// c16Dispatch sends a contract's token-factory custom message the way the wasm router does below
// the VM: the JSON the contract emitted is decoded into the bindings message and handed to the
// token factory messenger (DispatchMsg -> createDenom / mintTokens / ... / setMetadata).
func (e *c16Env) dispatch(ctx sdk.Context, tk *tfkeeper.Keeper, bk *bankkeeper.BaseKeeper, contract int, msg tfbtypes.Message) error {
	bz, err := json.Marshal(libwasm.CustomMessage{TokenFactory: &msg})
	if err != nil {
		e.t.Fatalf("custom message marshal: %v", err)
	}
	var cm libwasm.CustomMessage
	if err := json.Unmarshal(bz, &cm); err != nil || cm.TokenFactory == nil {
		e.t.Fatalf("custom message unmarshal: %v (%s)", err, bz)
	}
	_, _, _, err = tfbindings.NewMessenger(bk, tk).DispatchMsg(ctx, e.addrs[contract], "", *cm.TokenFactory)
	return err
}

// c16JSONSafe: the strings survive a JSON round trip unchanged
func c16JSONSafe(ss ...string) bool {
	for _, s := range ss {
		if !utf8.ValidString(s) {
			return false
		}
	}
	return true
}

// ---- generators ----

func (e *c16Env) pickAmt(bal, supply *big.Int, spend bool) *big.Int {
	x := e.pickAmt0(bal, supply, spend)
	if max256 := new(big.Int).Sub(pow2(256), bi(1)); x.Cmp(max256) > 0 { // larger values cannot be encoded
		return max256
	}
	return x
}

func (e *c16Env) pickAmt0(bal, supply *big.Int, spend bool) *big.Int {
	rng := e.r.Rng
	max256 := new(big.Int).Sub(pow2(256), bi(1))
	if spend && bal.Sign() > 0 && rng.Intn(2) == 0 { // something the holder can afford
		if bal.IsInt64() && rng.Intn(3) != 0 {
			return bi(1 + rng.Int63n(bal.Int64()))
		}
		return new(big.Int).Rsh(new(big.Int).Add(bal, bi(1)), 1)
	}
	switch rng.Intn(16) {
	case 0:
		return bi(0)
	case 1:
		return bi(-1 - int64(rng.Intn(5)))
	case 2:
		return new(big.Int).Set(bal)
	case 3:
		return new(big.Int).Add(bal, bi(1))
	case 4:
		if bal.Sign() > 0 {
			return new(big.Int).Sub(bal, bi(1))
		}
		return bi(1)
	case 5:
		return []*big.Int{pow2(63), new(big.Int).Sub(pow2(64), bi(1)), pow2(64), pow2(255)}[rng.Intn(4)]
	case 6:
		return max256
	case 7: // exactly fills / overflows the 256-bit supply
		x := new(big.Int).Sub(max256, supply)
		if rng.Intn(2) == 0 {
			x.Add(x, bi(1))
		}
		if x.Cmp(max256) > 0 {
			x = max256
		}
		return x
	default:
		return bi(int64(1 + rng.Intn(1000)))
	}
}

func (e *c16Env) meta(d string, ok bool, tag int) banktypes.Metadata {
	md := banktypes.Metadata{Base: d, Display: d, Name: "n" + strconv.Itoa(tag), Symbol: "S", DenomUnits: []*banktypes.DenomUnit{{Denom: d}}}
	if !ok {
		switch e.r.Rng.Intn(4) {
		case 0:
			md.Name = "  "
		case 1:
			md.Symbol = ""
		case 2:
			md.Display = "other"
		default:
			md.DenomUnits[0].Exponent = 1
		}
	}
	return md
}

func c16WasmMeta(md banktypes.Metadata, base string) tfbtypes.Metadata {
	out := tfbtypes.Metadata{Base: base, Display: md.Display, Name: md.Name, Symbol: md.Symbol}
	for _, u := range md.DenomUnits {
		out.DenomUnits = append(out.DenomUnits, tfbtypes.DenomUnit{Denom: u.Denom, Exponent: u.Exponent})
	}
	return out
}

func TestC16(t *testing.T) {
	r := NewRec(t, "C16")
	defer r.Close()
	rng := r.Rng
	defer debug.SetGCPercent(debug.SetGCPercent(400))
	const casesPerApp = 25
	var e *c16Env
	for cs := 0; cs < r.N; cs++ {
		if cs%casesPerApp == 0 {
			e = c16NewEnv(t, r, r.Seed+int64(cs/casesPerApp))
		}
		fa := e.fa
		cs := cs
		runCase := func() {
			// ---- denomination universe of this case ----
			tagc := strconv.Itoa(cs)
			subs := []string{"a" + tagc, "b" + tagc}
			special := []string{"", "x/y" + tagc, "A.b_c-d:" + tagc, strings.Repeat("s", 44-len(tagc)) + tagc}
			subs = append(subs, special[rng.Intn(len(special))])
			badSubs := []string{"ugrain", c16Native, strings.Repeat("t", 45), "a b", "a@b", "a%b", "a~b", "\xc3\xa9" + tagc, strings.Repeat("u", 60)}
			var factory []string
			for i := 0; i < 4; i++ {
				for _, s := range subs {
					factory = append(factory, "factory/"+e.A(i)+"/"+s)
				}
			}
			// contract stand-ins (key-less addresses) own one namespace entry each
			wsub := map[int]string{4: subs[0], 5: subs[1]}
			factory = append(factory, "factory/"+e.A(4)+"/"+wsub[4], "factory/"+e.A(5)+"/"+wsub[5])
			cosmosAddr, _ := bech32.ConvertAndEncode("cosmos", e.addrs[0])
			otherValid := []string{
				c16Native,
				"factorx/" + e.A(0) + "/" + subs[0],                       // wrong prefix
				"Factory/" + e.A(0) + "/" + subs[0],                       // wrong prefix (case)
				"factory/" + e.A(0),                                       // two parts
				"factory/notbech32/" + subs[0],                            // creator is not an address
				"factory/" + cosmosAddr + "/" + subs[0],                   // creator with a foreign hrp
				"factory/" + e.A(1) + "x/" + subs[0],                      // creator with a trailing byte
				"factory/" + e.A(2) + "/never" + tagc,                     // well-formed, never created
				"factory/" + e.A(0) + "/" + strings.Repeat("w", 128-9-45), // 128 bytes, sub longer than 44
			}
			malformed := []string{"", "ab", "a b", "1abc", strings.Repeat("v", 129), "factory/" + e.A(0) + "/" + strings.Repeat("w", 128-8-45), "factory/" + e.A(0) + "/a b", "u\xc3\xa9x", "a@b", "a%b", "~~~", "/abc", "ugrain "}
			rng.Shuffle(len(otherValid)-1, func(i, j int) { otherValid[i+1], otherValid[j+1] = otherValid[j+1], otherValid[i+1] })
			otherValid = otherValid[:5] // natm + four shapes per case
			e.watch = append(append([]string(nil), factory...), otherValid...)
			e.light = []string{FABondDenom}
			e.hist = nil
			e.adm, e.minted, e.burned, e.createdCase = map[string]string{}, map[string]*big.Int{}, map[string]*big.Int{}, map[string]bool{}

			// ---- user ugrain balances of this case (god mode, from validator 0) and the fee ----
			fees := []int64{0, 1, 10_000_000, 10_000_000, 25_000_000}
			fee := fees[rng.Intn(len(fees))]
			want := []int64{1_000_000_000, 3 * fee, fee + int64(rng.Intn(3)) - 1, int64(rng.Intn(2)) * fee * 2}
			if want[2] < 0 {
				want[2] = 0
			}
			rng.Shuffle(len(want), func(i, j int) { want[i], want[j] = want[j], want[i] })
			want = append(want, 2*fee+int64(rng.Intn(2)), int64(rng.Intn(2))*fee) // the key-less addresses
			if err := e.god(func(ctx sdk.Context) error {
				bank := fa.App().BankKeeper
				faucet := fa.ValidatorOperator(0).Addr
				for i := 0; i < 4; i++ {
					have := bank.GetBalance(ctx, e.addrs[i], FABondDenom).Amount
					w := sdkmath.NewInt(want[i])
					if have.GT(w) {
						if err := bank.SendCoins(ctx, e.addrs[i], faucet, sdk.NewCoins(sdk.NewCoin(FABondDenom, have.Sub(w)))); err != nil {
							return err
						}
					} else if have.LT(w) {
						if err := bank.SendCoins(ctx, faucet, e.addrs[i], sdk.NewCoins(sdk.NewCoin(FABondDenom, w.Sub(have)))); err != nil {
							return err
						}
					}
				}
				p := tftypes.Params{}
				if fee > 0 {
					p.DenomCreationFee = sdk.NewCoins(sdk.NewInt64Coin(FABondDenom, fee))
				}
				fa.App().TokenFactoryKeeper.SetParams(ctx, p)
				return nil
			}); err != nil {
				t.Fatalf("case setup: %v", err)
			}

			// ---- reset line: snapshot of the real state ----
			e.start = e.observe()
			var bals, nat, gr []string
			for _, d := range e.watch {
				row := e.start.full[d]
				if row.supply != "0" || row.meta != "-" || row.admin != "-" {
					nat = append(nat, e.enc(d)+"="+row.supply+"="+row.meta+"="+row.admin)
				}
				if row.admin != "-" && row.admin != "?" { // carried over from an earlier case on this app
					k, _ := strconv.Atoi(row.admin)
					e.adm[d] = e.A(k)
				}
				if row.meta != "-" {
					e.exists[d] = true
				}
				for i, h := range c16Holders {
					if row.bals[i] != "0" {
						bals = append(bals, strconv.Itoa(h)+"="+e.enc(d)+"="+row.bals[i])
					}
				}
			}
			// ugrain: supply known to be positive (HasSupply), balances of the users
			nat = append(nat, FABondDenom+"=1=-=-")
			for h := 0; h < 6; h++ {
				if b := e.start.light[FABondDenom][h]; b != "0" {
					bals = append(bals, strconv.Itoa(h)+"="+FABondDenom+"="+b)
				}
			}
			for c := 0; c < 4; c++ {
				for s := 0; s < 4; s++ {
					if e.grants[[2]int{c, s}] {
						gr = append(gr, fmt.Sprintf("%d:%d", c, s))
					}
				}
			}
			list := func(xs []string, sep string) string {
				if len(xs) == 0 {
					return "-"
				}
				return strings.Join(xs, sep)
			}
			var wenc []string
			for _, d := range e.watch {
				wenc = append(wenc, e.enc(d))
			}
			line := fmt.Sprintf("reset %d %s %s %s %s %s", fee, list(bals, ";"), list(gr, ","), list(nat, ";"), list(wenc, ";"), FABondDenom)
			e.hist = append(e.hist, line)
			r.Op(line, "ok "+e.show(e.start))

			// ---- history ----
			pickDenom := func() string {
				switch x := rng.Intn(20); {
				case x < 14:
					return factory[rng.Intn(len(factory))]
				case x < 17:
					return otherValid[rng.Intn(len(otherValid))]
				case x < 18:
					return FABondDenom
				default:
					return malformed[rng.Intn(len(malformed))]
				}
			}
			// a denom that exists, mostly
			pickLive := func() string {
				var live []string
				for _, d := range factory {
					if e.createdCase[d] {
						live = append(live, d)
					}
				}
				if len(live) > 0 && rng.Intn(8) != 0 {
					return live[rng.Intn(len(live))]
				}
				return pickDenom()
			}
			// actor: mostly the tracked admin of d
			pickActor := func(d string, max int) int {
				if a, ok := e.adm[d]; ok && a != "" && rng.Intn(4) != 0 {
					if k := e.idx[a]; k < max {
						return k
					}
				}
				return rng.Intn(max)
			}
			// tx signer / mode for creator c
			pickSigner := func(c int) (int, int) {
				switch x := rng.Intn(12); {
				case x < 8 && c < 4:
					return c, 0
				case x < 10:
					// a grantee of c if there is one
					for s := 0; s < 4; s++ {
						if e.grants[[2]int{c, s}] {
							return s, 0
						}
					}
					return rng.Intn(4), 0
				case x < 11 && c < 4:
					return rng.Intn(4), 1
				default:
					return rng.Intn(4), 0
				}
			}
			// a live denom whose tracked admin (burn) / some user (send) holds a balance, mostly
			pickHeld := func(o c16Obs, byAdmin bool) (string, int) {
				type dh struct {
					d string
					h int
				}
				var c []dh
				for _, d := range factory {
					row := o.full[d]
					for i, h := range c16Holders {
						if row.bals[i] == "0" || h >= 100 {
							continue
						}
						if byAdmin && e.adm[d] != e.A(h) {
							continue
						}
						if !byAdmin && h >= 4 {
							continue
						}
						c = append(c, dh{d, h})
					}
				}
				if len(c) == 0 || rng.Intn(4) == 0 {
					return "", -1
				}
				x := c[rng.Intn(len(c))]
				return x.d, x.h
			}
			// a denomination OTHER than the one a message is addressed to, for payload fields that
			// name a denomination of their own (metadata.base, display, denom_units[0].denom): mostly
			// one that exists and belongs to somebody else, also native ones (with and without bank
			// metadata), never-created and malformed names
			pickOther := func(d string) string {
				var live []string
				for _, x := range factory {
					if x != d && e.exists[x] {
						live = append(live, x)
					}
				}
				switch x := rng.Intn(12); {
				case x < 5 && len(live) > 0:
					return live[rng.Intn(len(live))]
				case x < 7:
					return factory[rng.Intn(len(factory))]
				case x < 8:
					return c16Native
				case x < 9:
					return FABondDenom
				case x < 11:
					return otherValid[rng.Intn(len(otherValid))]
				default:
					return malformed[rng.Intn(len(malformed))]
				}
			}
			// metadata.base and the denomination the record describes itself as, for a wasm message
			// addressed to d: base is omitted, d, or another denomination; the body mostly agrees with
			// the effective base (so that the bank's own validation passes), sometimes with d or a third one
			pickMetaShape := func(d string) (base, body string) {
				switch x := rng.Intn(10); {
				case x < 4:
				case x < 6:
					base = d
				default:
					base = pickOther(d)
				}
				body = base
				if body == "" {
					body = d
				}
				switch x := rng.Intn(10); {
				case x < 1:
					body = d
				case x < 3:
					body = pickOther(d)
				}
				if base == "-" { // reserved in the line protocol
					base = ""
				}
				return
			}
			baseArg := func(base string) string {
				if base == "" {
					return "-"
				}
				return e.enc(base)
			}
			nOps := 20 + rng.Intn(12)
			okCreates, okMints := 0, 0
			post := e.start
			for i := 0; i < nOps; i++ {
				pre := post
				var act c16Act
				var line, res string
				balOf := func(h int, d string) *big.Int {
					if row, ok := pre.full[d]; ok {
						for i, hh := range c16Holders {
							if hh == h {
								b, _ := new(big.Int).SetString(row.bals[i], 10)
								return b
							}
						}
					}
					if l, ok := pre.light[d]; ok && h < 6 {
						b, _ := new(big.Int).SetString(l[h], 10)
						return b
					}
					return bi(0)
				}
				supOf := func(d string) *big.Int {
					if row, ok := pre.full[d]; ok {
						b, _ := new(big.Int).SetString(row.supply, 10)
						return b
					}
					return bi(0)
				}
				kind := rng.Intn(100)
				if i < 3 && rng.Intn(3) != 0 {
					kind = 0 // start most histories with creations
				}
				switch {
				case kind < 16: // create (tx)
					c := rng.Intn(5)
					if c == 4 && rng.Intn(3) != 0 {
						c = rng.Intn(4)
					}
					s, mode := pickSigner(c)
					sub := subs[rng.Intn(len(subs))]
					if rng.Intn(6) == 0 {
						sub = badSubs[rng.Intn(len(badSubs))]
					}
					line = fmt.Sprintf("create %d %d %d %s", mode, s, c, e.enc(sub))
					act = c16Act{kind: "create", actor: c, signer: s, mode: mode, denom: "factory/" + e.A(c) + "/" + sub}
					md := valsettypes.MsgMetadata{Creator: e.A(c), Signers: []string{e.A(s)}}
					if mode == 1 {
						md.Signers = []string{e.A(c)}
					}
					res = e.tx(s, &tftypes.MsgCreateDenom{Metadata: md, Subdenom: sub})
				case kind < 36: // mint (tx)
					d := pickLive()
					c := pickActor(d, 5)
					s, mode := pickSigner(c)
					amt := e.pickAmt(balOf(c, d), supOf(d), false)
					line = fmt.Sprintf("mint %d %d %d %s %s", mode, s, c, e.enc(d), amt)
					act = c16Act{kind: "mint", actor: c, signer: s, mode: mode, denom: d, amt: amt}
					md := valsettypes.MsgMetadata{Creator: e.A(c), Signers: []string{e.A(s)}}
					if mode == 1 {
						md.Signers = []string{e.A(c)}
					}
					res = e.tx(s, &tftypes.MsgMint{Metadata: md, Amount: sdk.Coin{Denom: d, Amount: sdkmath.NewIntFromBigInt(amt)}})
				case kind < 50: // burn (tx)
					d := pickLive()
					c := pickActor(d, 5)
					if hd, hh := pickHeld(pre, true); hh >= 0 && hh < 5 {
						d, c = hd, hh
					}
					s, mode := pickSigner(c)
					amt := e.pickAmt(balOf(c, d), supOf(d), true)
					line = fmt.Sprintf("burn %d %d %d %s %s", mode, s, c, e.enc(d), amt)
					act = c16Act{kind: "burn", actor: c, signer: s, mode: mode, denom: d, amt: amt}
					md := valsettypes.MsgMetadata{Creator: e.A(c), Signers: []string{e.A(s)}}
					if mode == 1 {
						md.Signers = []string{e.A(c)}
					}
					res = e.tx(s, &tftypes.MsgBurn{Metadata: md, Amount: sdk.Coin{Denom: d, Amount: sdkmath.NewIntFromBigInt(amt)}})
				case kind < 58: // change admin (tx)
					d := pickLive()
					c := pickActor(d, 5)
					s, mode := pickSigner(c)
					na := []int{0, 1, 2, 3, 4, 5, c16ModuleIdx, -1, -2}[rng.Intn(9)]
					nas, nal := e.addrArg(na)
					line = fmt.Sprintf("chadmin %d %d %d %s %s", mode, s, c, e.enc(d), nal)
					act = c16Act{kind: "chadmin", actor: c, signer: s, mode: mode, denom: d, to: na}
					md := valsettypes.MsgMetadata{Creator: e.A(c), Signers: []string{e.A(s)}}
					if mode == 1 {
						md.Signers = []string{e.A(c)}
					}
					res = e.tx(s, &tftypes.MsgChangeAdmin{Metadata: md, Denom: d, NewAdmin: nas})
				case kind < 65: // set metadata (tx)
					d := pickLive()
					c := pickActor(d, 5)
					s, mode := pickSigner(c)
					mdOk := rng.Intn(5) != 0
					tag := 1 + rng.Intn(90)
					line = fmt.Sprintf("setmeta %d %d %d %s %d %d", mode, s, c, e.enc(d), c16B2i(mdOk), tag)
					act = c16Act{kind: "setmeta", actor: c, signer: s, mode: mode, denom: d}
					md := valsettypes.MsgMetadata{Creator: e.A(c), Signers: []string{e.A(s)}}
					if mode == 1 {
						md.Signers = []string{e.A(c)}
					}
					res = e.tx(s, &tftypes.MsgSetDenomMetadata{Metadata: md, DenomMetadata: e.meta(d, mdOk, tag)})
				case kind < 69: // wasm create
					a := []int{4, 5, 4, 5, 0, 1}[rng.Intn(6)]
					sub := subs[rng.Intn(len(subs))]
					if a >= 4 {
						sub = wsub[a]
					}
					if rng.Intn(6) == 0 {
						sub = badSubs[rng.Intn(len(badSubs))]
					}
					full := "factory/" + e.A(a) + "/" + sub
					mds := "-"
					var wm *tfbtypes.Metadata
					if rng.Intn(2) == 0 {
						mdOk := rng.Intn(4) != 0
						tag := 1 + rng.Intn(90)
						base, body := pickMetaShape(full)
						m := c16WasmMeta(e.meta(body, mdOk, tag), base)
						wm = &m
						mds = fmt.Sprintf("%s,%s,%d,%d", baseArg(base), e.enc(body), c16B2i(mdOk), tag)
						if base != "" && base != full {
							r.Stat("wcreate:foreign_base")
						}
					}
					line = fmt.Sprintf("wcreate %d %s %s", a, e.enc(sub), mds)
					act = c16Act{kind: "create", wasm: true, actor: a, signer: a, denom: full}
					via := rng.Intn(2) == 0 && c16JSONSafe(sub)
					res = e.wasm(func(ctx sdk.Context, tk *tfkeeper.Keeper, bk *bankkeeper.BaseKeeper) error {
						if via {
							return e.dispatch(ctx, tk, bk, a, tfbtypes.Message{CreateDenom: &tfbtypes.CreateDenom{Subdenom: sub, Metadata: wm}})
						}
						_, err := tfbindings.PerformCreateDenom(tk, bk, ctx, e.addrs[a], &tfbtypes.CreateDenom{Subdenom: sub, Metadata: wm})
						return err
					})
				case kind < 76: // wasm mint
					d := pickLive()
					a := pickActor(d, 6)
					to := []int{0, 1, 2, 3, 4, 5, a, a, c16ModuleIdx, c16PoolIdx, -1, -2}[rng.Intn(12)]
					tos, tol := e.addrArg(to)
					amt := e.pickAmt(balOf(a, d), supOf(d), false)
					line = fmt.Sprintf("wmint %d %s %s %s", a, e.enc(d), amt, tol)
					act = c16Act{kind: "mint", wasm: true, actor: a, signer: a, denom: d, amt: amt, to: to}
					via := rng.Intn(2) == 0 && c16JSONSafe(d)
					res = e.wasm(func(ctx sdk.Context, tk *tfkeeper.Keeper, bk *bankkeeper.BaseKeeper) error {
						m := &tfbtypes.MintTokens{Denom: d, Amount: sdkmath.NewIntFromBigInt(amt), MintToAddress: tos}
						if via {
							return e.dispatch(ctx, tk, bk, a, tfbtypes.Message{MintTokens: m})
						}
						return tfbindings.PerformMint(tk, bk, ctx, e.addrs[a], m)
					})
				case kind < 81: // wasm burn
					d := pickLive()
					a := pickActor(d, 6)
					if hd, hh := pickHeld(pre, true); hh >= 0 {
						d, a = hd, hh
					}
					from := []int{-1, -1, -1, a, a, 0, 1, -2}[rng.Intn(8)]
					fs, fl := e.addrArg(from)
					amt := e.pickAmt(balOf(a, d), supOf(d), true)
					line = fmt.Sprintf("wburn %d %s %s %s", a, e.enc(d), amt, fl)
					act = c16Act{kind: "burn", wasm: true, actor: a, signer: a, denom: d, amt: amt}
					via := rng.Intn(2) == 0 && c16JSONSafe(d)
					res = e.wasm(func(ctx sdk.Context, tk *tfkeeper.Keeper, bk *bankkeeper.BaseKeeper) error {
						m := &tfbtypes.BurnTokens{Denom: d, Amount: sdkmath.NewIntFromBigInt(amt), BurnFromAddress: fs}
						if via {
							return e.dispatch(ctx, tk, bk, a, tfbtypes.Message{BurnTokens: m})
						}
						return tfbindings.PerformBurn(tk, ctx, e.addrs[a], m)
					})
				case kind < 84: // wasm change admin
					d := pickLive()
					a := pickActor(d, 6)
					na := []int{0, 1, 2, 3, 4, 5, c16ModuleIdx, -1, -2}[rng.Intn(9)]
					nas, nal := e.addrArg(na)
					line = fmt.Sprintf("wchadmin %d %s %s", a, e.enc(d), nal)
					act = c16Act{kind: "chadmin", wasm: true, actor: a, signer: a, denom: d, to: na}
					via := rng.Intn(2) == 0 && c16JSONSafe(d)
					res = e.wasm(func(ctx sdk.Context, tk *tfkeeper.Keeper, bk *bankkeeper.BaseKeeper) error {
						m := &tfbtypes.ChangeAdmin{Denom: d, NewAdminAddress: nas}
						if via {
							return e.dispatch(ctx, tk, bk, a, tfbtypes.Message{ChangeAdmin: m})
						}
						return tfbindings.ChangeAdmin(tk, ctx, e.addrs[a], m)
					})
				case kind < 89: // wasm set metadata
					d := pickLive()
					a := pickActor(d, 6)
					mdOk := rng.Intn(5) != 0
					tag := 1 + rng.Intn(90)
					base, body := pickMetaShape(d)
					line = fmt.Sprintf("wsetmeta %d %s %s %s %d %d", a, e.enc(d), baseArg(base), e.enc(body), c16B2i(mdOk), tag)
					act = c16Act{kind: "setmeta", wasm: true, actor: a, signer: a, denom: d}
					if base != "" && base != d {
						r.Stat("wsetmeta:foreign_base")
						if e.adm[d] == e.A(a) && body == base && mdOk {
							r.Stat("wsetmeta:foreign_base_by_admin_selfconsistent")
						}
					}
					m := c16WasmMeta(e.meta(body, mdOk, tag), base)
					via := rng.Intn(2) == 0 && c16JSONSafe(d, base, body)
					res = e.wasm(func(ctx sdk.Context, tk *tfkeeper.Keeper, bk *bankkeeper.BaseKeeper) error {
						if via {
							return e.dispatch(ctx, tk, bk, a, tfbtypes.Message{SetMetadata: &tfbtypes.SetMetadata{Denom: d, Metadata: m}})
						}
						return tfbindings.PerformSetMetadata(tk, bk, ctx, e.addrs[a], d, m)
					})
				case kind < 94: // bank send (spreads factory tokens to non-admins)
					d := pickLive()
					a := rng.Intn(4)
					if hd, hh := pickHeld(pre, false); hh >= 0 {
						d, a = hd, hh
					}
					b := []int{0, 1, 2, 3, 4, 5, c16ModuleIdx}[rng.Intn(7)]
					amt := e.pickAmt(balOf(a, d), supOf(d), true)
					if d == FABondDenom && amt.Cmp(bi(1000)) > 0 {
						amt = bi(int64(1 + rng.Intn(1000)))
					}
					line = fmt.Sprintf("send %d %d %s %s", a, b, e.enc(d), amt)
					act = c16Act{kind: "send", actor: a, signer: a, denom: d, amt: amt, to: b}
					res = e.tx(a, &banktypes.MsgSend{FromAddress: e.A(a), ToAddress: e.A(b), Amount: sdk.Coins{sdk.Coin{Denom: d, Amount: sdkmath.NewIntFromBigInt(amt)}}})
				case kind < 97: // fee grant: the creator lets somebody else sign in its name
					c, s := rng.Intn(4), rng.Intn(4)
					line = fmt.Sprintf("grant %d %d", c, s)
					act = c16Act{kind: "grant", actor: c, signer: c, to: s}
					msg, err := feegrant.NewMsgGrantAllowance(&feegrant.BasicAllowance{}, e.addrs[c], e.addrs[s])
					if err != nil {
						t.Fatal(err)
					}
					res = e.tx(c, msg)
					if res != "ok" {
						res = "rej:err"
					}
				case kind == 99: // governance changes the creation fee
					n := []int64{0, 1, 10_000_000, 1 << 40}[rng.Intn(4)]
					line = fmt.Sprintf("setfee %d", n)
					act = c16Act{kind: "setfee"}
					p := tftypes.Params{}
					if n > 0 {
						p.DenomCreationFee = sdk.NewCoins(sdk.NewInt64Coin(FABondDenom, n))
					}
					res = "ok"
					if err := e.god(func(ctx sdk.Context) error { fa.App().TokenFactoryKeeper.SetParams(ctx, p); return nil }); err != nil {
						res = "blockerr"
					}
				case kind < 98: // the chain is exported and started again from the export (token factory module)
					line = "reimport"
					act = c16Act{kind: "reimport"}
					res = "ok"
					if err := e.god(func(ctx sdk.Context) error { return fa.ReimportModuleCtx(ctx, "tokenfactory", "tokenfactory") }); err != nil {
						res = "rej:err"
						e.hit("genesis_round_trip", fmt.Sprintf("export / import of the token factory failed: %v", err))
					}
				default:
					c, s := rng.Intn(4), rng.Intn(4)
					line = fmt.Sprintf("revoke %d %d", c, s)
					act = c16Act{kind: "revoke", actor: c, signer: c, to: s}
					m := feegrant.NewMsgRevokeAllowance(e.addrs[c], e.addrs[s])
					res = e.tx(c, &m)
					if res != "ok" {
						res = "rej:err"
					}
				}
				if res == "blockerr" {
					t.Fatalf("block failed on %q (history %v)", line, e.hist)
				}
				e.hist = append(e.hist, line)
				post = e.observe()
				r.Op(line, res+" "+e.show(post))
				k := act.kind
				if act.wasm {
					k = "w" + k
				}
				r.Stat("op:" + k)
				r.Stat("res:" + k + ":" + res)
				if res == "ok" && act.kind == "create" {
					okCreates++
				}
				if res == "ok" && act.kind == "mint" {
					okMints++
				}
				e.monitors(act, res, pre, post)
			}
			// ---- contracts dispatch the protobuf messages themselves (CosmosMsg::Any), bare and inside authz.MsgExec
			// with several inner messages, on the state the history has built (c16_any_test.go) ----
			e.anyPhase(cs, c16AnyUniverse{factory: factory, subs: subs, other: otherValid, malformed: malformed}, post)
			r.Case(fmt.Sprintf("%x", sha256.Sum256([]byte(strings.Join(e.hist, "\n")))), okCreates > 0 && okMints > 0)
		}
		e.fast = cs%6 != 5
		if e.fast {
			r.Stat("mode:fast")
			if _, err := fa.WithDeliverCtx(func(sdk.Context) error { runCase(); return nil }); err != nil {
				t.Fatalf("case block: %v", err)
			}
		} else {
			r.Stat("mode:block")
			runCase()
		}
	}
}

func c16B2i(b bool) int {
	if b {
		return 1
	}
	return 0
}
