//go:build verif

package harness

// C07, round 6: what the BYTES of the reported receipt say, and which validator set accepted call
// data carries.
//
// Receipts.  "Its receipt reports success" is a statement about the serialized receipt a validator
// submits: [type byte ||] rlp([postStateOrStatus, cumulativeGasUsed, bloom, logs]); the receipt
// reports success iff its FIRST FIELD is the success code 0x01.  Until this round every receipt the
// generator produced had the success code or the failure code (the empty string) there.  The third
// form that decodes - a 32-byte post-transaction state root in place of a status code: receipts
// before EIP-658, and what go-ethereum emits whenever a receipt has a root, reverted transactions
// included - reports no success.  c07ReceiptFirstField reads the field with plain RLP (no receipt
// decoder), so the monitors judge the submitted bytes themselves.
//
// Validator sets.  The relayer names, through the public access data, the snapshot whose validator
// set the expected consensus argument is built from.  c07ValsetOfCalldata decodes the consensus
// argument of accepted call data and looks the validator set up among the snapshots of the chain.

import (
	"bytes"
	"fmt"
	"math/big"
	"reflect"

	sdk "github.com/cosmos/cosmos-sdk/types"
	"github.com/ethereum/go-ethereum/common"
	ethcrypto "github.com/ethereum/go-ethereum/crypto"
	"github.com/ethereum/go-ethereum/rlp"
	evmtypes "github.com/palomachain/paloma/v2/x/evm/types"
)

// c07CaseFlip flips the case bit (0x20) of one to three argument bytes that happen to be ASCII letters:
// the data is a different byte string that only a case-insensitive comparison takes for the same.
func c07CaseFlip(data []byte, rng interface{ Intn(int) int }) bool {
	var at []int
	for i := 4; i < len(data); i++ {
		if c := data[i] &^ 0x20; c >= 'A' && c <= 'Z' {
			at = append(at, i)
		}
	}
	if len(at) == 0 {
		return false
	}
	for k := 1 + rng.Intn(3); k > 0; k-- {
		data[at[rng.Intn(len(at))]] ^= 0x20
	}
	return true
}

// c07StateRoots: the state roots a receipt without status code may carry.  1 = an ordinary hash;
// 2 = the word 1 (the success code written as a 32-byte word); 3 = the success code left-aligned;
// 4 = all zero; 5, 6 = two more hashes.
const c07StateRoots = 6

func c07StateRoot(k int) []byte {
	switch k {
	case 2:
		return common.BigToHash(big.NewInt(1)).Bytes()
	case 3:
		return append([]byte{1}, make([]byte, 31)...)
	case 4:
		return make([]byte, 32)
	default:
		return ethcrypto.Keccak256([]byte(fmt.Sprintf("state after the transaction %d", k)))
	}
}

// c07ReceiptFirstField: the first field of a serialized receipt, read with plain RLP.  Typed receipts
// (EIP-2718) start with a type byte below 0x80, legacy receipts with the RLP list header.
func c07ReceiptFirstField(bz []byte) ([]byte, bool) {
	if len(bz) == 0 {
		return nil, false
	}
	if bz[0] < 0x80 {
		bz = bz[1:]
	}
	var fields []rlp.RawValue
	if err := rlp.DecodeBytes(bz, &fields); err != nil || len(fields) != 4 {
		return nil, false
	}
	var first []byte
	if err := rlp.DecodeBytes(fields[0], &first); err != nil {
		return nil, false
	}
	return first, true
}

// c07ReceiptReportsSuccess: the receipt carries the success code.
func c07ReceiptReportsSuccess(bz []byte) bool {
	f, ok := c07ReceiptFirstField(bz)
	return ok && bytes.Equal(f, []byte{1})
}

// checkReceiptReading: a direct consequence of "its receipt reports success" one level below the
// router.  The status the keeper's own accessor (TxExecutedProof.GetReceipt, what routerAttester
// gates on) reads off a receipt is the success status only if the receipt's bytes carry the success
// code.
func (e *c07Env) checkReceiptReading(bz []byte) {
	rc, err := (&evmtypes.TxExecutedProof{SerializedReceipt: bz}).GetReceipt()
	if err != nil {
		e.t.Fatalf("receipt built by the harness does not decode: %v", err)
	}
	reports := c07ReceiptReportsSuccess(bz)
	if (rc.Status == 1) == reports {
		return
	}
	f, _ := c07ReceiptFirstField(bz)
	what := fmt.Sprintf("a receipt whose first field is %d bytes (%x) is read with status %d", len(f), f, rc.Status)
	if e.receiptHits == nil {
		e.receiptHits = map[string]bool{}
	}
	key := fmt.Sprintf("%d/%d/%v", len(f), rc.Status, bz[0] < 0x80)
	if e.receiptHits[key] {
		return
	}
	e.receiptHits[key] = true
	e.r.Hit("receipt_read_as_success_only_if_it_reports_success", what, append(append([]string(nil), e.lines...), fmt.Sprintf("receipt %x", bz)))
}

// c07ValsetOfCalldata decodes the consensus argument (first parameter of every compass delivery
// method) of call data and returns the validator set it carries.
func (e *c07Env) c07ValsetOfCalldata(method string, data []byte) (vs evmtypes.CompassValset, nonZero int, ok bool) {
	defer func() {
		if rec := recover(); rec != nil {
			ok = false // not the shape of the repository's consensus tuple
		}
	}()
	m, found := e.abi.Methods[method]
	if !found || len(data) < 4 || !bytes.Equal(data[:4], m.ID) {
		return evmtypes.CompassValset{}, 0, false
	}
	vals, err := m.Inputs.Unpack(data[4:])
	if err != nil || len(vals) == 0 {
		return evmtypes.CompassValset{}, 0, false
	}
	// the unpacked tuple is an anonymous struct with the ABI's field names (in ABI order, which is not
	// the order of evmtypes.CompassValset): read it by name
	cons := reflect.ValueOf(vals[0])
	valset, sigs := cons.FieldByName("Valset"), cons.FieldByName("Signatures")
	if !valset.IsValid() || !sigs.IsValid() {
		return evmtypes.CompassValset{}, 0, false
	}
	vs.Validators, _ = valset.FieldByName("Validators").Interface().([]common.Address)
	vs.Powers, _ = valset.FieldByName("Powers").Interface().([]*big.Int)
	vs.ValsetId, _ = valset.FieldByName("ValsetId").Interface().(*big.Int)
	for i := 0; i < sigs.Len(); i++ {
		for _, name := range []string{"V", "R", "S"} {
			if w, isInt := sigs.Index(i).FieldByName(name).Interface().(*big.Int); isInt && w.Sign() != 0 {
				nonZero++
				break
			}
		}
	}
	return vs, nonZero, true
}

func c07SameValset(a, b evmtypes.CompassValset) bool {
	if len(a.Validators) != len(b.Validators) || len(a.Powers) != len(b.Powers) {
		return false
	}
	if (a.ValsetId == nil) != (b.ValsetId == nil) || (a.ValsetId != nil && a.ValsetId.Cmp(b.ValsetId) != 0) {
		return false
	}
	for i := range a.Validators {
		if a.Validators[i] != b.Validators[i] {
			return false
		}
	}
	for i := range a.Powers {
		if a.Powers[i].Cmp(b.Powers[i]) != 0 {
			return false
		}
	}
	return true
}

// checkAcceptedValset: "call data equals the bridge-contract encoding of that message (... validator
// set and a prefix of the collected signatures)", read off the accepted bytes.  The validator set in
// the consensus argument must be the validator set of a snapshot of the chain - the one whose id it
// names.  Which snapshot the relayer may name (the one live on the target chain, an earlier one the
// bridge contract still holds) the property does not say; a set no snapshot has is no validator set.
func (e *c07Env) checkAcceptedValset(ctx sdk.Context, kind, method string, tx *c07Tx) {
	got, sigs, ok := e.c07ValsetOfCalldata(method, tx.tx.Data())
	if !ok {
		return // not decodable with the active compass ABI: accept_implies_exact_calldata's business
	}
	cur := e.observe(ctx).cur
	which := "none"
	if got.ValsetId != nil && got.ValsetId.IsUint64() && got.ValsetId.Uint64() != 0 {
		id := got.ValsetId.Uint64()
		resp, err := e.fa.App().EvmKeeper.GetValsetByID(ctx, &evmtypes.QueryGetValsetByIDRequest{ValsetID: id, ChainReferenceID: c07Chain})
		if err == nil && resp.Valset != nil && c07SameValset(got, evmtypes.TransformValsetToCompassValset(resp.Valset)) {
			which = "older"
			if id == cur {
				which = "current"
			}
		}
	}
	e.r.Stat(fmt.Sprintf("accepted:%s:valset-of-snapshot:%s:validators=%d:signatures=%d", kind, which, min(len(got.Validators), 1), min(sigs, 1)))
	if which == "none" {
		id := "nil"
		if got.ValsetId != nil {
			id = got.ValsetId.String()
		}
		e.r.Hit("accepted_calldata_carries_a_validator_set_of_the_chain",
			fmt.Sprintf("accepted a %s transaction whose consensus argument carries the validator set (id %s, %d validators, %d non-zero signatures) of no snapshot of the chain", kind, id, len(got.Validators), sigs), e.lines)
	}
}
