//go:build verif

package harness

// C11: "votes are pooled only for claims identical in every effect-bearing field".  Two claims that differ in an
// effect-bearing NUMBER must hash differently also when the digits of two numeric fields can be split another way:
// (batch 3, event 45) and (batch 34, event 5), (nonce 12, height 7) and (nonce 1, height 27).  Every ordered pair of
// numeric fields of every claim type is tried — including the one number the hash leaves out (the bridge contract's own
// event counter), because a pre-image that runs two numbers together pools claims that differ in the other one.

import (
	"fmt"
	"strconv"
	"testing"

	sdkmath "cosmossdk.io/math"
	skytypes "github.com/palomachain/paloma/v2/x/skyway/types"
	valsettypes "github.com/palomachain/paloma/v2/x/valset/types"
)

type c11Num struct {
	name   string
	hashed bool
	get    func() uint64
	set    func(uint64)
}

func c11DigitShifts(t *testing.T, r *Rec, meta valsettypes.MsgMetadata) {
	small := func() uint64 { return uint64(r.Rng.Intn(1000)) }
	multi := func() uint64 { return uint64(10 + r.Rng.Intn(99990)) }
	try := func(typ string, fresh func() (c11Claim, []c11Num)) {
		base, fields := fresh()
		_ = base
		for i := range fields {
			for j := range fields {
				if i == j || !(fields[i].hashed || fields[j].hashed) {
					continue
				}
				a, fa := fresh()
				b, fb := fresh()
				x, y := small(), multi()
				ys := strconv.FormatUint(y, 10)
				d, rest := ys[:1], ys[1:]
				y2, _ := strconv.ParseUint(rest, 10, 64)
				if strconv.FormatUint(y2, 10) != rest {
					continue // the remainder would be written with other digits (leading zero)
				}
				x2, _ := strconv.ParseUint(strconv.FormatUint(x, 10)+d, 10, 64)
				// make the two claims agree in everything else
				for k := range fa {
					v := uint64(7 + k)
					fa[k].set(v)
					fb[k].set(v)
				}
				fa[i].set(x)
				fa[j].set(y)
				fb[i].set(x2)
				fb[j].set(y2)
				r.Stat("digit_shift." + typ)
				if c11Hash(t, a) == c11Hash(t, b) {
					r.Hit("field_influences_hash", fmt.Sprintf("%s claims differing in %s (%d / %d) and %s (%d / %d) have the same hash", typ, fields[i].name, x, x2, fields[j].name, y, y2),
						map[string]string{"a": c11Line(a), "b": c11Line(b)})
				}
			}
		}
	}
	for n := 0; n < 4; n++ {
		try("SendToPaloma", func() (c11Claim, []c11Num) {
			c := &skytypes.MsgSendToPalomaClaim{TokenContract: "0x1000000000000000000000000000000000000001", Amount: sdkmath.NewInt(5), EthereumSender: "0xbb", PalomaReceiver: "r",
				Orchestrator: "o", ChainReferenceId: "c", Metadata: meta, CompassId: "k"}
			return c, []c11Num{{"EventNonce", false, func() uint64 { return c.EventNonce }, func(v uint64) { c.EventNonce = v }},
				{"EthBlockHeight", true, func() uint64 { return c.EthBlockHeight }, func(v uint64) { c.EthBlockHeight = v }},
				{"SkywayNonce", true, func() uint64 { return c.SkywayNonce }, func(v uint64) { c.SkywayNonce = v }}}
		})
		try("BatchSendToRemote", func() (c11Claim, []c11Num) {
			c := &skytypes.MsgBatchSendToRemoteClaim{TokenContract: "0x1000000000000000000000000000000000000001", ChainReferenceId: "c", Orchestrator: "o", Metadata: meta, CompassId: "k"}
			return c, []c11Num{{"EventNonce", false, func() uint64 { return c.EventNonce }, func(v uint64) { c.EventNonce = v }},
				{"EthBlockHeight", true, func() uint64 { return c.EthBlockHeight }, func(v uint64) { c.EthBlockHeight = v }},
				{"BatchNonce", true, func() uint64 { return c.BatchNonce }, func(v uint64) { c.BatchNonce = v }},
				{"SkywayNonce", true, func() uint64 { return c.SkywayNonce }, func(v uint64) { c.SkywayNonce = v }}}
		})
		try("LightNodeSale", func() (c11Claim, []c11Num) {
			c := &skytypes.MsgLightNodeSaleClaim{Metadata: meta, Orchestrator: "o", ChainReferenceId: "c", ClientAddress: "a", Amount: sdkmath.NewInt(5), SmartContractAddress: "0x01", CompassId: "k"}
			return c, []c11Num{{"EventNonce", false, func() uint64 { return c.EventNonce }, func(v uint64) { c.EventNonce = v }},
				{"EthBlockHeight", true, func() uint64 { return c.EthBlockHeight }, func(v uint64) { c.EthBlockHeight = v }},
				{"SkywayNonce", true, func() uint64 { return c.SkywayNonce }, func(v uint64) { c.SkywayNonce = v }}}
		})
	}
}
