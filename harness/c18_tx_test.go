//go:build verif

// C18 — transactions that carry SEVERAL messages (op `tx`).
//
// Every other user operation of c18_test.go is a transaction with exactly one message and one signer.  Here one
// signed transaction carries 0..5 messages (MsgAddLightNodeClientLicense, MsgRegisterLightNodeClient,
// MsgAuthLightNodeClient, MsgSetLegacyLightNodeClients, bank MsgSend, feegrant MsgGrantAllowance) with their own
// creators and declared signers; it is signed by all declared signers (in order of first appearance) and goes
// through the real ante chain and msg router in one block.  A message may additionally travel inside one or two
// authz.MsgExec wrappers whose grantee is the message's declared signer (authz runs the grantee's own messages
// without any authorisation, so the handler is reached exactly as for the bare message).
//
// Line protocol: `tx <t> <msg> <msg> …`, each <msg> being the fields of the single-message line without the time,
// joined by `/`, prefixed by one `x/` per MsgExec wrapper (Driver/C18.lean parseMsg?).  The model (`tx` in
// Model/LightNode.lean) runs the ante check of EVERY message on the state before the transaction and then the
// handlers in order, all or nothing.
package harness

import (
	"fmt"
	"math/big"
	"strings"
	"time"

	sdkmath "cosmossdk.io/math"
	"cosmossdk.io/x/feegrant"
	sdk "github.com/cosmos/cosmos-sdk/types"
	"github.com/cosmos/cosmos-sdk/x/authz"
	banktypes "github.com/cosmos/cosmos-sdk/x/bank/types"
	palomatypes "github.com/palomachain/paloma/v2/x/paloma/types"
)

// txActivates / txCreates: does the transaction carry a registration for address i / a licence for key k
func (op c18Op) txActivates(i int) bool {
	for _, m := range op.msgs {
		if m.kind == "activate" && m.creator == i {
			return true
		}
	}
	return false
}

func (op c18Op) txCreates(k c18Key) bool {
	for _, m := range op.msgs {
		if m.kind == "create" && m.clientKey() == k {
			return true
		}
	}
	return false
}

// msgOf builds one message of a transaction: its token on the `tx` line and the sdk.Msg.
func (c *c18Case) msgOf(m c18Op) (string, sdk.Msg) {
	var tok string
	var msg sdk.Msg
	switch m.kind {
	case "create":
		tok = fmt.Sprintf("create/%d/%d/%s/%s/%d/%d", m.signer, m.creator, c18OptKey(m.clientKey()), m.amt, m.denom, m.months)
		msg = &palomatypes.MsgAddLightNodeClientLicense{
			Metadata:      FAMeta(c.accts[m.creator].Addr, c.accts[m.signer].Addr),
			ClientAddress: c.clientStr(m),
			Amount:        sdk.Coin{Denom: c18Denoms[m.denom], Amount: sdkmath.NewIntFromBigInt(m.amt)},
			VestingMonths: m.months,
		}
	case "activate":
		tok = fmt.Sprintf("activate/%d/%s", m.signer, m.creatorKey())
		msg = &palomatypes.MsgRegisterLightNodeClient{Metadata: c.creatorMeta(m)}
	case "auth":
		tok = fmt.Sprintf("auth/%d/%s", m.signer, m.creatorKey())
		msg = &palomatypes.MsgAuthLightNodeClient{Metadata: c.creatorMeta(m)}
	case "legacy":
		tok = fmt.Sprintf("legacy/%d/%d", m.signer, m.creator)
		msg = &palomatypes.MsgSetLegacyLightNodeClients{Metadata: FAMeta(c.accts[m.creator].Addr, c.accts[m.signer].Addr)}
	case "send":
		tok = fmt.Sprintf("send/%d/%s/%d/%s", m.signer, c18OptAddr(m.client), m.denom, m.amt)
		to := c.e.modAddr()
		if m.client >= 0 {
			to = c.accts[m.client].Addr
		}
		msg = &banktypes.MsgSend{FromAddress: c.accts[m.signer].Addr.String(), ToAddress: to.String(),
			Amount: sdk.Coins{sdk.Coin{Denom: c18Denoms[m.denom], Amount: sdkmath.NewIntFromBigInt(m.amt)}}}
	case "grant":
		tok = fmt.Sprintf("grant/%d/%d", m.signer, m.client)
		g, err := feegrant.NewMsgGrantAllowance(&feegrant.BasicAllowance{}, c.accts[m.signer].Addr, c.accts[m.client].Addr)
		if err != nil {
			c.e.t.Fatal(err)
		}
		msg = g
	default:
		c.e.t.Fatalf("not a transaction message: %q", m.kind)
	}
	for k := 0; k < m.wrap; k++ {
		ex := authz.NewMsgExec(c.accts[m.signer].Addr, []sdk.Msg{msg})
		msg = &ex
		tok = "x/" + tok
	}
	return tok, msg
}

// execTx delivers ONE transaction with all messages of op, signed by every declared signer.
func (c *c18Case) execTx(op c18Op) (string, string) {
	toks := []string{"tx", fmt.Sprint(op.t)}
	var msgs []sdk.Msg
	var signers []*FAAccount
	seen := map[int]bool{}
	for _, m := range op.msgs {
		tok, msg := c.msgOf(m)
		toks = append(toks, tok)
		msgs = append(msgs, msg)
		if !seen[m.signer] {
			seen[m.signer] = true
			signers = append(signers, c.accts[m.signer])
		}
	}
	c.at(op.t)
	c.e.r.Stat(fmt.Sprintf("tx.msgs.%d", len(op.msgs)))
	if len(signers) > 1 {
		c.e.r.Stat("tx.several_signers")
	}
	return strings.Join(toks, " "), c18Res(c.e.fa.DeliverTxAs(signers, msgs...))
}

// txMonitors evaluates the property on an ACCEPTED transaction: every message of it took effect (a transaction is
// all or nothing), so each licence message must meet the clause for its kind on the state before the transaction,
// and the balances must have moved by exactly the sum of what the messages say.
func (c *c18Case) txMonitors(op c18Op, line string, prev, cur *c18Obs) {
	c.e.r.Stat("tx.accepted")
	if len(op.msgs) == 0 {
		c.hit("failed_op_is_noop", fmt.Sprintf("`%s`: a transaction without messages was accepted", line))
		return
	}
	var dBal [c18NAddr][2]*big.Int
	var dEsc [2]*big.Int
	for d := 0; d < 2; d++ {
		dEsc[d] = new(big.Int)
		for i := range dBal {
			dBal[i][d] = new(big.Int)
		}
	}
	createdNow := map[int]bool{}
	pendingNow := map[c18Key]c18Lic{} // licences written by earlier messages of this transaction
	for _, m := range op.msgs {
		if m.wrap > 0 {
			c.e.r.Stat("tx.accepted.wrapped_msg")
		}
		switch m.kind {
		case "create":
			c.nLic++
			if m.client < 0 {
				c.hit("create_requires_fresh", fmt.Sprintf("`%s`: licence accepted for a malformed address", line))
				continue
			}
			_, hadLo := prev.lics[c18Key{m.client, false}]
			_, hadUp := prev.lics[c18Key{m.client, true}]
			if hadLo || hadUp || prev.acc[m.client].kind != 'n' || createdNow[m.client] {
				c.hit("create_requires_fresh", fmt.Sprintf("`%s`: licence for %d accepted although the address had account %s / licence %v / a licence from an earlier message of the transaction %v",
					line, m.client, prev.acc[m.client], hadLo || hadUp, createdNow[m.client]))
			}
			createdNow[m.client] = true
			pendingNow[m.clientKey()] = c18Lic{m.amt, m.denom, m.months}
			// (a licence that a later message of the same transaction activates is judged there)
			if l, has := cur.lics[m.clientKey()]; !op.txActivates(m.client) &&
				(!has || !c18Eq(l.amt, m.amt) || l.denom != m.denom || l.months != m.months || cur.acc[m.client].kind != 'b') {
				c.hit("create_requires_fresh", fmt.Sprintf("`%s`: accepted but %s has a licence: %v, account %s", line, m.clientKey(), has, cur.acc[m.client]))
			}
			if m.amt.Sign() <= 0 || m.denom > 1 {
				c.hit("escrow_eq_sum_licences", fmt.Sprintf("`%s`: licence over %s of denomination %d accepted", line, m.amt, m.denom))
				continue
			}
			dBal[m.creator][m.denom].Sub(dBal[m.creator][m.denom], m.amt)
			dEsc[m.denom].Add(dEsc[m.denom], m.amt)
		case "activate":
			c.nAct++
			a := m.creator
			l, had := prev.lics[m.creatorKey()]
			if !had {
				l, had = pendingNow[m.creatorKey()]
			}
			if !had || l.denom > 1 {
				c.hit("activate_once", fmt.Sprintf("`%s`: registration of %s succeeded without a licence", line, m.creatorKey()))
				continue
			}
			delete(pendingNow, m.creatorKey())
			if m.signer != a {
				c.e.r.Stat("activate.by_delegate")
			}
			// "activated … only by the licensed address itself": the declared signer of the registration is the
			// licensee, or an address the licensee had fee-granted BEFORE this transaction — wherever the message
			// stands in the transaction and whatever else the transaction carries
			if m.signer != a && !prev.grants[[2]int{a, m.signer}] {
				c.hit("activate_once", fmt.Sprintf("`%s`: the licence of %d was activated by a message whose only signer is %d, who is neither the licensee nor its fee-grant delegate", line, a, m.signer))
			}
			if c.activated[a] {
				c.hit("activate_once", fmt.Sprintf("`%s`: address %d activated twice", line, a))
			}
			c.activated[a] = true
			_, stillLo := cur.lics[c18Key{a, false}]
			_, stillUp := cur.lics[c18Key{a, true}]
			if stillLo || stillUp {
				c.hit("activate_once", fmt.Sprintf("`%s`: licence of %d still present after activation", line, a))
			}
			stop := time.Unix(op.t, 0).UTC().AddDate(0, int(l.months), 0).Unix()
			want := c18Acc{'v', l.amt, l.denom, op.t, stop}
			if cur.acc[a].String() != want.String() {
				c.hit("activation_exact", fmt.Sprintf("`%s`: account %d is %s, want %s", line, a, cur.acc[a], want))
			}
			if !c18Eq(cur.lk[a][l.denom], l.amt) {
				c.hit("vesting_linear", fmt.Sprintf("`%s`: locked at activation time is %s, want %s", line, cur.lk[a][l.denom], l.amt))
			}
			dBal[a][l.denom].Add(dBal[a][l.denom], l.amt)
			dEsc[l.denom].Sub(dEsc[l.denom], l.amt)
		case "send":
			if m.client >= 0 && m.denom < 2 && m.amt.Sign() > 0 {
				dBal[m.signer][m.denom].Sub(dBal[m.signer][m.denom], m.amt)
				dBal[m.client][m.denom].Add(dBal[m.client][m.denom], m.amt)
			}
		}
	}
	// exactly the licensed amounts moved: payer -> escrow on creation, escrow -> licensee on activation
	for d := 0; d < 2; d++ {
		if want := new(big.Int).Add(prev.esc[d], dEsc[d]); !c18Eq(cur.esc[d], want) {
			c.hit("escrow_eq_sum_licences", fmt.Sprintf("`%s`: denom %d escrow %s -> %s, the messages account for %s", line, d, prev.esc[d], cur.esc[d], want))
		}
		for i := 0; i < c18NAddr; i++ {
			if want := new(big.Int).Add(prev.bal[i][d], dBal[i][d]); !c18Eq(cur.bal[i][d], want) {
				c.hit("activation_exact", fmt.Sprintf("`%s`: denom %d balance of %d %s -> %s, the messages account for %s", line, d, i, prev.bal[i][d], cur.bal[i][d], want))
			}
		}
	}
}

// ---------------------------------------------------------------------------
// generators
// ---------------------------------------------------------------------------

func (c *c18Case) holders() []int { return append(c.withKind('b'), c.withKind('v')...) }

// freshNotIn: an address without account that no earlier message of the transaction licenses or pays to
func (c *c18Case) freshNotIn(before []c18Op) int {
	var l []int
	for _, a := range c.withKind('n') {
		used := false
		for _, m := range before {
			used = used || ((m.kind == "create" || m.kind == "send" || m.kind == "grant") && m.client == a)
		}
		if !used {
			l = append(l, a)
		}
	}
	if len(l) == 0 {
		return -1
	}
	return c.pick(l)
}

// inOrderMsg: a message of `me` in its own name (creator = declared signer = me) that is likely to succeed on the
// state the earlier messages of the transaction leave.
func (c *c18Case) inOrderMsg(me int, before []c18Op) c18Op {
	did := func(kind string) bool {
		for _, m := range before {
			if m.kind == kind && m.creator == me && m.signer == me {
				return true
			}
		}
		return false
	}
	_, lo := c.prev.lics[c18Key{me, false}]
	isClient := false
	for _, k := range c.prev.clients {
		isClient = isClient || (k.a == me && !k.up)
	}
	rich := c.spendable(me, 0).Cmp(big.NewInt(100_000)) > 0
	for try := 0; try < 8; try++ {
		switch x := c.rnd(100); {
		case x < 25 && lo && !did("activate"):
			return c18Op{kind: "activate", signer: me, creator: me}
		case x < 45 && rich:
			if cl := c.freshNotIn(before); cl >= 0 {
				return c18Op{kind: "create", signer: me, creator: me, client: cl, upClient: c.upperFlip(cl), amt: big.NewInt(int64(1 + c.rnd(5000))), denom: 0, months: c.months()}
			}
		case x < 65 && rich:
			to := c.anyAddr()
			if to != me {
				return c18Op{kind: "send", signer: me, client: to, denom: 0, amt: big.NewInt(int64(1 + c.rnd(100)))}
			}
		case x < 75 && isClient:
			return c18Op{kind: "auth", signer: me, creator: me}
		case x < 85:
			to := c.anyAddr()
			dup := false
			for _, m := range before {
				dup = dup || (m.kind == "grant" && m.signer == me && m.client == to)
			}
			if to != me && !c.prev.grants[[2]int{me, to}] && !dup {
				return c18Op{kind: "grant", signer: me, client: to}
			}
		case x >= 85:
			return c18Op{kind: "legacy", signer: me, creator: me}
		}
	}
	return c18Op{kind: "legacy", signer: me, creator: me}
}

// foreignMsg: a message in the name of somebody else (creator = victim) whose only declared signer is `me`.
// It is in order exactly when the victim fee-granted `me` before the transaction.
func (c *c18Case) foreignMsg(me int, before []c18Op) c18Op {
	victim := func(pref []int) int {
		// now and then somebody who did delegate to `me`
		if c.rnd(4) == 0 {
			for g := range c.prev.grants {
				if g[1] == me && g[0] >= 0 && g[0] != me {
					return g[0]
				}
			}
		}
		v := c.orAny(pref)
		if v == me {
			v = (v + 1 + c.rnd(c18NAddr-1)) % c18NAddr
		}
		return v
	}
	switch x := c.rnd(100); {
	case x < 60:
		v := victim(c.licensed())
		up := c.licUpper(v)
		if c.rnd(12) == 0 {
			up = !up
		}
		return c18Op{kind: "activate", signer: me, creator: v, upCreator: up}
	case x < 82:
		v := victim(c.holders())
		cl := c.freshNotIn(before)
		if cl < 0 {
			cl = c.anyAddr()
		}
		return c18Op{kind: "create", signer: me, creator: v, client: cl, amt: big.NewInt(int64(1 + c.rnd(5000))), denom: 0, months: c.months()}
	case x < 92:
		return c18Op{kind: "legacy", signer: me, creator: victim(c.holders())}
	default:
		var cls []int
		for _, k := range c.prev.clients {
			if k.a >= 0 {
				cls = append(cls, k.a)
			}
		}
		return c18Op{kind: "auth", signer: me, creator: victim(cls)}
	}
}

// anyMsg: a message from the single-message generators (mostly valid, sometimes boundary / nonsense values)
func (c *c18Case) anyMsg() c18Op {
	switch x := c.rnd(100); {
	case x < 30:
		return c.genCreate()
	case x < 60:
		return c.genActivate()
	case x < 80:
		return c.genSend()
	case x < 90:
		return c18Op{kind: "grant", signer: c.anyAddr(), client: c.anyAddr()}
	default:
		sg, cr := c.signerCreator(c.holders())
		return c18Op{kind: "legacy", signer: sg, creator: cr}
	}
}

// genTx: one transaction with several messages.  The classes: all messages in order (one or several principals);
// ONE message in somebody else's name at a random position among in-order messages of its signer; a fee grant and
// the message that would need it in the same transaction; a repeated message (the repetition fails, the whole
// transaction is undone); an arbitrary message among in-order ones; messages inside authz.MsgExec wrappers.
func (c *c18Case) genTx() c18Op {
	t := c.nextT()
	n := 2 + c.rnd(3)
	switch x := c.rnd(100); {
	case x < 5:
		n = 1
	case x < 7:
		n = 0
	}
	hs := c.holders()
	me := c.orAny(hs)
	var msgs []c18Op
	for i := 0; i < n; i++ {
		msgs = append(msgs, c.inOrderMsg(me, msgs))
	}
	mode := "in_order"
	switch x := c.rnd(100); {
	case n == 0:
		mode = "empty"
	case x < 38:
		mode = "one_foreign"
		p := c.rnd(n)
		msgs[p] = c.foreignMsg(me, msgs[:p])
	case x < 50:
		mode = "one_arbitrary"
		msgs[c.rnd(n)] = c.anyMsg()
	case x < 65 && n > 1:
		mode = "several_principals"
		for i := 1; i < n; i++ {
			if c.rnd(2) == 0 {
				msgs[i] = c.inOrderMsg(c.orAny(hs), msgs[:i])
			}
		}
	case x < 75 && n > 1:
		// the licensee (or any account holder) grants and `me` uses the grant in the SAME transaction: the ante
		// chain ran before the grant was written
		mode = "grant_in_same_tx"
		v := c.orAny(c.licensed())
		if v != me {
			msgs[0] = c18Op{kind: "grant", signer: v, client: me}
			msgs[n-1] = c18Op{kind: "activate", signer: me, creator: v, upCreator: c.licUpper(v)}
		}
	case x < 85:
		mode = "repeated"
		msgs = append(msgs, msgs[c.rnd(n)])
	}
	c.e.r.Stat("tx.gen." + mode)
	for i := range msgs {
		if c.rnd(5) == 0 {
			msgs[i].wrap = 1 + c.rnd(2)
		}
	}
	return c18Op{kind: "tx", t: t, msgs: msgs}
}

// directed: "activated … only by the licensed address itself" against transactions with several messages.  A
// licence for x is pending; y is any other account holder.  A registration of x's licence whose only declared
// signer is y is put at every kind of position of a transaction of y — first, last, in the middle, after a message
// without metadata (bank send), inside an authz wrapper, after a wrapped message — next to messages of y that are
// in order.  None of these may activate the licence (monitor activate_once; the model refuses the transaction).
// Then x itself — or a delegate x fee-granted in an EARLIER transaction — activates it inside a transaction.
func (c *c18Case) directedTxOwnership() {
	payer := 0
	for a := 0; a < 3; a++ {
		if c.spendable(a, 0).Cmp(c.spendable(payer, 0)) > 0 {
			payer = a
		}
	}
	lic := c.licensed()
	var x int
	if len(lic) > 0 && c.rnd(2) == 0 {
		x = c.pick(lic)
	} else {
		fresh := c.withKind('n')
		if len(fresh) == 0 || c.spendable(payer, 0).Cmp(big.NewInt(10_000)) < 0 {
			return
		}
		x = c.pick(fresh)
		d := 0
		if c.spendable(payer, 1).Cmp(big.NewInt(10_000)) > 0 && c.rnd(4) == 0 {
			d = 1
		}
		if c.do(c18Op{kind: "create", t: c.nextT(), signer: payer, creator: payer, client: x, amt: big.NewInt(int64(1000 + c.rnd(5000))), denom: d, months: c.months()}) != "ok" {
			return
		}
	}
	up := c.licUpper(x)
	var ys []int
	for _, h := range c.holders() {
		if h != x && !c.prev.grants[[2]int{x, h}] {
			ys = append(ys, h)
		}
	}
	if len(ys) == 0 {
		return
	}
	y := c.pick(ys)
	forged := func() c18Op { return c18Op{kind: "activate", signer: y, creator: x, upCreator: up} }
	mine := func(n int) []c18Op {
		var l []c18Op
		for i := 0; i < n; i++ {
			l = append(l, c.inOrderMsg(y, l))
		}
		return l
	}
	insert := func(l []c18Op, p int, m c18Op) []c18Op {
		out := append([]c18Op(nil), l[:p]...)
		out = append(out, m)
		return append(out, l[p:]...)
	}
	try := func(what string, msgs []c18Op) {
		c.e.r.Stat("directed.tx_ownership." + what)
		if c.do(c18Op{kind: "tx", t: c.nextT(), msgs: msgs}) == "ok" {
			c.e.r.Stat("directed.tx_ownership." + what + ".accepted")
		}
	}
	variants := c.e.r.Rng.Perm(6)[:3]
	for _, v := range variants {
		if _, pending := c.prev.lics[c18Key{x, up}]; !pending {
			return
		}
		switch v {
		case 0:
			l := mine(1 + c.rnd(3))
			try("forged_last", append(l, forged()))
		case 1:
			l := mine(2 + c.rnd(2))
			try("forged_middle", insert(l, 1+c.rnd(len(l)-1), forged()))
		case 2:
			try("forged_first", insert(mine(1+c.rnd(2)), 0, forged()))
		case 3:
			// after a message that carries no metadata at all
			z := c.anyAddr()
			if z == y {
				z = x
			}
			if c.spendable(y, 0).Sign() > 0 {
				try("forged_after_bank_send", []c18Op{{kind: "send", signer: y, client: z, denom: 0, amt: big.NewInt(1)}, forged()})
			} else {
				try("forged_after_grant", []c18Op{{kind: "legacy", signer: y, creator: y}, forged()})
			}
		case 4:
			f := forged()
			f.wrap = 1 + c.rnd(2)
			try("forged_wrapped_last", append(mine(1+c.rnd(2)), f))
		case 5:
			l := mine(1 + c.rnd(2))
			l[0].wrap = 1
			try("forged_after_wrapped", append(l, forged()))
		}
	}
	if _, pending := c.prev.lics[c18Key{x, up}]; !pending {
		return
	}
	if up || c.rnd(3) == 0 {
		// x delegates to y in a transaction of its own; afterwards the same kind of transaction of y is in order
		if c.do(c18Op{kind: "grant", t: c.nextT(), signer: x, client: y}) != "ok" {
			return
		}
		try("delegate_then_ok", append(mine(1), forged()))
		return
	}
	own := []c18Op{{kind: "legacy", signer: x, creator: x}, {kind: "activate", signer: x, creator: x}}
	if c.rnd(2) == 0 {
		own[0], own[1] = own[1], own[0]
	}
	try("licensee_itself", own)
}
