//go:build verif

package harness

import (
	"bytes"
	"fmt"
	"strings"
	"testing"

	sdkmath "cosmossdk.io/math"
	sdk "github.com/cosmos/cosmos-sdk/types"
	skykeeper "github.com/palomachain/paloma/v2/x/skyway/keeper"
	skytypes "github.com/palomachain/paloma/v2/x/skyway/types"
)

// C11 at the keeper boundary: votes submitted through the real msg server are pooled under an
// attestation only if the voter's claim agrees with the STORED claim (the one that is executed) in
// every hashed field, and every attestation's store key is the hash of its own stored claim.
// The histories of this file use one chain id throughout; c11_chain_test.go (run from here) varies the chain id.

func c11kFields(c skytypes.EthereumClaim) string {
	switch m := c.(type) {
	case *skytypes.MsgSendToPalomaClaim:
		return fmt.Sprintf("sp|%d|%d|%s|%s|%s|%s|%s|%s", m.SkywayNonce, m.EthBlockHeight, m.TokenContract, m.Amount, m.EthereumSender, m.PalomaReceiver, m.CompassId, m.ChainReferenceId)
	case *skytypes.MsgBatchSendToRemoteClaim:
		return fmt.Sprintf("bs|%d|%d|%d|%s|%s|%s", m.SkywayNonce, m.EthBlockHeight, m.BatchNonce, m.TokenContract, m.CompassId, m.ChainReferenceId)
	case *skytypes.MsgLightNodeSaleClaim:
		return fmt.Sprintf("ln|%d|%d|%s|%s|%s|%s|%s", m.SkywayNonce, m.EthBlockHeight, m.ClientAddress, m.Amount, m.SmartContractAddress, m.CompassId, m.ChainReferenceId)
	}
	return "?"
}

func TestC11Keeper(t *testing.T) {
	r := NewRec(t, "C11K")
	r.prefix = "C11K"
	defer r.Close()
	contracts := []string{"0x2260FAC5E5542a773Aa44fBCfeDf7C193bc2C599", "0x2260fac5e5542a773aa44fbcfedf7c193bc2c599", "0x2260FAC5E5542A773AA44FBCFEDF7C193BC2C599"}
	for cs := 0; cs < r.N; cs++ {
		e := newSkyEnv(t, 2)
		e.addToken("utok1", "0x1000000000000000000000000000000000000001")
		recv := e.users[0].String()
		recvUpper := strings.ToUpper(recv[:7]) + recv[7:]
		receivers := []string{recv, recvUpper, "paloma1Invalid/addr", recv}
		tokens := []string{"0x1000000000000000000000000000000000000001", "0x1000000000000000000000000000000000000001", "0x1000000000000000000000000000000000000001"}
		submitted := map[string]string{} // validator/nonce -> hashed fields of what it submitted
		var ops []string
		nonTrivial := false
		for n := uint64(1); n <= 3; n++ {
			kind := r.Rng.Intn(3)
			for vi := range skykeeper.ValAddrs {
				o := e.orch(vi)
				var msg sdk.Msg
				var claim skytypes.EthereumClaim
				switch kind {
				case 0:
					m := &skytypes.MsgSendToPalomaClaim{EventNonce: n, EthBlockHeight: 100 + n, TokenContract: tokens[r.Rng.Intn(len(tokens))], Amount: sdkmath.NewInt(int64(50 + r.Rng.Intn(2))),
						EthereumSender: contracts[r.Rng.Intn(len(contracts))], PalomaReceiver: receivers[r.Rng.Intn(len(receivers))], Orchestrator: o.String(), ChainReferenceId: skyChain, Metadata: e.meta(o), SkywayNonce: n, CompassId: skyCompass}
					msg, claim = m, m
				case 1:
					m := &skytypes.MsgLightNodeSaleClaim{Metadata: e.meta(o), EventNonce: n, EthBlockHeight: 100 + n, Orchestrator: o.String(), ChainReferenceId: skyChain, SkywayNonce: n,
						ClientAddress: receivers[r.Rng.Intn(len(receivers))], Amount: sdkmath.NewInt(1000), SmartContractAddress: contracts[r.Rng.Intn(len(contracts))], CompassId: skyCompass}
					msg, claim = m, m
				default:
					m := &skytypes.MsgBatchSendToRemoteClaim{EventNonce: n, EthBlockHeight: 100 + n, BatchNonce: uint64(1 + r.Rng.Intn(2)), TokenContract: contracts[r.Rng.Intn(len(contracts))], ChainReferenceId: skyChain,
						Orchestrator: o.String(), Metadata: e.meta(o), SkywayNonce: n, CompassId: skyCompass}
					msg, claim = m, m
				}
				want := c11kFields(claim)
				res := e.runMsg(func(ctx sdk.Context) error {
					switch c := msg.(type) {
					case *skytypes.MsgSendToPalomaClaim:
						_, err := e.ms.SendToPalomaClaim(ctx, c)
						return err
					case *skytypes.MsgLightNodeSaleClaim:
						_, err := e.ms.LightNodeSaleClaim(ctx, c)
						return err
					case *skytypes.MsgBatchSendToRemoteClaim:
						_, err := e.ms.BatchSendToRemoteClaim(ctx, c)
						return err
					}
					return nil
				})
				ops = append(ops, fmt.Sprintf("v%d %s -> %s", vi+1, want, res))
				if res == "ok" {
					nonTrivial = true
					submitted[fmt.Sprintf("%s/%d", skykeeper.ValAddrs[vi].String(), n)] = want
				}
				r.Stat("vote." + res)
			}
			// monitors over every stored attestation
			err := e.raw.IterateAttestations(e.ctx, skyChain, false, func(key []byte, att skytypes.Attestation) bool {
				stored, err := e.raw.UnpackAttestationClaim(&att)
				if err != nil {
					t.Fatal(err)
				}
				h, _ := stored.ClaimHash()
				if !bytes.Equal(key, skytypes.GetAttestationKey(stored.GetSkywayNonce(), h)) {
					r.Hit("key_is_hash_of_stored_claim", fmt.Sprintf("attestation at nonce %d is stored under a key that is not the hash of its own claim (%s)", stored.GetSkywayNonce(), c11kFields(stored)),
						map[string]interface{}{"ops": ops})
				}
				for _, v := range att.Votes {
					sub, ok := submitted[fmt.Sprintf("%s/%d", v, stored.GetSkywayNonce())]
					if ok && sub != c11kFields(stored) {
						r.Hit("votes_pooled_only_for_identical_claims", fmt.Sprintf("vote of %s for [%s] is counted towards the stored claim [%s]", v, sub, c11kFields(stored)),
							map[string]interface{}{"ops": ops})
					}
				}
				return false
			})
			if err != nil {
				t.Fatal(err)
			}
			r.Op(fmt.Sprintf("nonce %d %d", n, kind), "consistent")
		}
		r.Case(strings.Join(ops, ";"), nonTrivial)
		// the chain clause: histories in which the chain id varies between the claims (c11_chain_test.go)
		for k := 0; k < 3; k++ {
			c11ChainCase(r, newSkyEnv(t, 1))
		}
	}
}
