//go:build verif

// C06 / C14 (consensus-queue message life-cycle), C04 at keeper level and C13 part B
// (prune-time jailing), all on the full-app fixture with an active EVM chain.
//
// Every generated case runs inside ONE PreBlock hook (fa.WithDeliverCtx) whose writes are
// discarded at the end, so cases are independent and may put arbitrary snapshots, metrics and
// fee tables into the stores.  Operations go through the app's MsgServiceRouter (the real
// message handlers) where a message exists and through exported keeper functions otherwise;
// the consensus end-blocker functions are called directly.  Every q06BlockEvery-th case of
// TestC06/TestC14 is instead driven through real transactions and real blocks.
//
// Dimensions of the generators that exist because a seeded change once slipped through without them:
// validators hold accounts with DIFFERENT keys on sibling chains of the same chain type (chains 1, 2
// = "other-chain-<n>", chain 0 = the queue's chain) and claim them when signing; signatures are
// submitted in every byte form (q06Wires), not only as crypto.Sign renders them; queues grow beyond
// the page size of the queries (opPutN, directed valset_behind_backlog); evidence is re-submitted
// (TestC13Prune); batch confirmations are delivered by transactions whose creator is NOT the
// orchestrator they name, and blocks pass while signed messages sit in the queue (c06_aging_test.go); the
// sibling chains have turnstone queues of their own and ONE MsgAddMessagesSignatures carries signatures for
// several messages of several queues (c06_multichain_test.go); messages are assigned AGAIN after the first
// assignment (retry of a failed logic call, reassignment of stale messages) while the snapshot moves between
// the assignments and estimates arrive after the election (c14_reassign_test.go).
// Monitors evaluate the property on what the harness itself did and saw registered,
// never on what the implementation stored.
package harness

import (
	"bytes"
	"crypto/ecdsa"
	"encoding/hex"
	"errors"
	"fmt"
	"math/big"
	"sort"
	"strconv"
	"strings"
	"testing"
	"time"

	sdkmath "cosmossdk.io/math"
	"cosmossdk.io/store/prefix"
	storetypes "cosmossdk.io/store/types"
	"github.com/cosmos/cosmos-sdk/codec"
	codectypes "github.com/cosmos/cosmos-sdk/codec/types"
	sdk "github.com/cosmos/cosmos-sdk/types"
	ethcommon "github.com/ethereum/go-ethereum/common"
	ethcrypto "github.com/ethereum/go-ethereum/crypto"
	"github.com/palomachain/paloma/v2/util/libcons"
	consensuskeeper "github.com/palomachain/paloma/v2/x/consensus/keeper/consensus"
	consensustypes "github.com/palomachain/paloma/v2/x/consensus/types"
	evmkeeper "github.com/palomachain/paloma/v2/x/evm/keeper"
	evmtypes "github.com/palomachain/paloma/v2/x/evm/types"
	metrixtypes "github.com/palomachain/paloma/v2/x/metrix/types"
	skytypes "github.com/palomachain/paloma/v2/x/skyway/types"
	treasurytypes "github.com/palomachain/paloma/v2/x/treasury/types"
	valsettypes "github.com/palomachain/paloma/v2/x/valset/types"
)

const (
	q06Chain      = "test-chain"
	q06Token      = "0x0bc529c00C6401aEF6D220BE8C6Ea1667F6Ad93e"
	q06ExtraKeys  = 4
	q06BlockEvery = 12
)

var errQ06Discard = errors.New("q06: discard case state")

// q06Wires are the byte forms in which an (r, s, v) signature is submitted: "c" r‖s‖v with v in {0,1}
// (what crypto.Sign / pigeon produce), "h" the twin (r, n-s, v^1) that recovers the same key, "w" v
// spelled 27/28 (wallet / personal_sign style), "r" v+2, "s" 64 bytes (v missing), "l" 66 bytes.
var q06Wires = []string{"c", "h", "w", "r", "s", "l"}

func q06WireForm(sig []byte, wire string) []byte {
	out := append([]byte(nil), sig...)
	if len(out) != 65 {
		return out
	}
	switch wire {
	case "h":
		n := ethcrypto.S256().Params().N
		x := new(big.Int).SetBytes(out[32:64])
		x.Sub(n, x)
		x.FillBytes(out[32:64])
		out[64] ^= 1
	case "w":
		out[64] += 27
	case "r":
		out[64] += 2
	case "s":
		out = out[:64]
	case "l":
		out = append(out, 0)
	}
	return out
}

// q06Fix is the fixture shared by the four tests.
type q06Fix struct {
	t         *testing.T
	fa        *FullApp
	n         int
	valID     []int // validator index -> model id (1-based rank of the valoper string)
	idVal     map[int]int
	outsiders []sdk.ValAddress // addresses that are not validators
	outID     []int            // their model ids
	all       []sdk.ValAddress // model id-1 -> address
	ethKeys   []*ecdsa.PrivateKey
	ethAddr   []ethcommon.Address
	addrStr   map[int]string // address-string id -> string
	addrID    map[string]int
	rawKey    map[int][]byte // key-bytes id -> bytes
	rawID     map[string]int
	senders   [][]byte
	turnstone string
	queue     string
	cdc       codec.Codec
	token     skytypes.EthAddress
	blocks    int
	aliveAt   int // fx.blocks at the last KeepAliveAll
}

func q06NewFix(t *testing.T, n int) *q06Fix {
	fa := NewFullApp(t, FullAppOpts{NumValidators: n, NumUsers: 3, Seed: 6})
	fx := &q06Fix{t: t, fa: fa, n: n, idVal: map[int]int{}, addrStr: map[int]string{}, addrID: map[string]int{},
		rawKey: map[int][]byte{}, rawID: map[string]int{}}
	if b := fa.KeepAliveAll(); !b.OK() {
		t.Fatalf("keepalive: %v %s", b.Err, b.Panic)
	}
	if b, err := fa.ActivateEVMChain(FAEvmChain{RefID: q06Chain}); err != nil || !b.OK() {
		t.Fatalf("activate chain: %v %v %s", err, b.Err, b.Panic)
	}
	fx.cdc = fa.App().AppCodec()
	fx.queue = consensustypes.Queue(evmtypes.ConsensusTurnstoneMessage, "evm", q06Chain)
	ci, err := fa.App().EvmKeeper.GetChainInfo(fa.CtxCached(), q06Chain)
	if err != nil {
		t.Fatal(err)
	}
	fx.turnstone = string(ci.SmartContractUniqueID)
	// model ids: rank of the bech32 valoper string (the tie-break of rankValidators), over the
	// validators and two addresses that are not validators
	for j := 0; j < 2; j++ {
		b := make([]byte, 20)
		b[0], b[19] = 0xEE-byte(0x70*j), byte(j+1)
		fx.outsiders = append(fx.outsiders, sdk.ValAddress(b))
	}
	type vs struct {
		i int
		a sdk.ValAddress
		s string
	}
	var all []vs
	for i := range fa.Vals {
		all = append(all, vs{i, fa.ValAddr(i), fa.ValAddr(i).String()})
	}
	for j, o := range fx.outsiders {
		all = append(all, vs{-1 - j, o, o.String()})
	}
	sort.Slice(all, func(a, b int) bool { return strings.Compare(all[a].s, all[b].s) < 0 })
	fx.valID = make([]int, n)
	fx.outID = make([]int, len(fx.outsiders))
	for rank, v := range all {
		fx.all = append(fx.all, v.a)
		if v.i >= 0 {
			fx.valID[v.i] = rank + 1
			fx.idVal[rank+1] = v.i
		} else {
			fx.outID[-1-v.i] = rank + 1
		}
	}
	for i := 0; i < n; i++ {
		fx.ethKeys = append(fx.ethKeys, fa.Vals[i].EthPriv)
	}
	for j := 0; len(fx.ethKeys) < n+q06ExtraKeys; j++ {
		k := faEthKey(777, j)
		a := ethcrypto.PubkeyToAddress(k.PublicKey).Hex()
		if strings.ToLower(a) == a || "0x"+strings.ToUpper(a[2:]) == a {
			continue // need three distinct spellings
		}
		fx.ethKeys = append(fx.ethKeys, k)
	}
	for e, k := range fx.ethKeys {
		a := ethcrypto.PubkeyToAddress(k.PublicKey)
		fx.ethAddr = append(fx.ethAddr, a)
		h := a.Hex()
		spell := []string{h, strings.ToLower(h), "0x" + strings.ToUpper(h[2:])}
		if spell[0] == spell[1] || spell[0] == spell[2] {
			t.Fatalf("eth key %d has no mixed-case checksum", e)
		}
		for v, s := range spell {
			fx.addrStr[4*(e+1)+v] = s
			fx.addrID[s] = 4*(e+1) + v
		}
		raws := [][]byte{a.Bytes(), append([]byte{0}, a.Bytes()...), append(make([]byte, 12), a.Bytes()...), append([]byte{1}, a.Bytes()...)}
		for v, b := range raws {
			fx.rawKey[4*(e+1)+v] = b
			fx.rawID[hex.EncodeToString(b)] = 4*(e+1) + v
		}
	}
	fx.senders = [][]byte{nil}
	for i := 0; i < 3; i++ {
		fx.senders = append(fx.senders, fa.User(i).Addr.Bytes())
	}
	tok, err := skytypes.NewEthAddress(q06Token)
	if err != nil {
		t.Fatal(err)
	}
	fx.token = *tok
	return fx
}

func (fx *q06Fix) valAddrOfID(id int) sdk.ValAddress {
	if id >= 1 && id <= len(fx.all) {
		return fx.all[id-1]
	}
	b := make([]byte, 20)
	b[0], b[18], b[19] = 0xDD, byte(id>>8), byte(id)
	return sdk.ValAddress(b)
}

func (fx *q06Fix) idOfValAddr(a sdk.ValAddress) int {
	for i, x := range fx.all {
		if x.Equals(a) {
			return i + 1
		}
	}
	if len(a) == 20 && a[0] == 0xDD {
		return int(a[18])<<8 | int(a[19])
	}
	return 9999
}

func (fx *q06Fix) idOfValStr(s string) int {
	a, err := sdk.ValAddressFromBech32(s)
	if err != nil {
		return 9998
	}
	return fx.idOfValAddr(a)
}

func (fx *q06Fix) senderIdx(b []byte) int {
	for i, s := range fx.senders {
		if bytes.Equal(s, b) {
			return i
		}
	}
	return 99
}

// ---------------------------------------------------------------------------
// environment: generation, writing into the stores, reading back for the model
// ---------------------------------------------------------------------------

type q06Acct struct {
	chain, addr, raw int
	mev              bool
}

func (a q06Acct) String() string {
	m := "0"
	if a.mev {
		m = "1"
	}
	return fmt.Sprintf("%d.%d.%d.%s", a.chain, a.addr, a.raw, m)
}

func q06Accts(as []q06Acct) string {
	if len(as) == 0 {
		return "-"
	}
	s := make([]string, len(as))
	for i, a := range as {
		s[i] = a.String()
	}
	return strings.Join(s, "+")
}

func q06ChainName(c int) string {
	if c == 0 {
		return q06Chain
	}
	return fmt.Sprintf("other-chain-%d", c)
}

func q06ChainNo(s string) int {
	if s == q06Chain {
		return 0
	}
	if strings.HasPrefix(s, "other-chain-") {
		n, _ := strconv.Atoi(s[len("other-chain-"):])
		return n
	}
	return 77
}

func (fx *q06Fix) toInfo(a q06Acct) *valsettypes.ExternalChainInfo {
	in := &valsettypes.ExternalChainInfo{ChainType: "evm", ChainReferenceID: q06ChainName(a.chain),
		Address: fx.addrStr[a.addr], Pubkey: fx.rawKey[a.raw]}
	if a.mev {
		in.Traits = []string{valsettypes.PIGEON_TRAIT_MEV}
	}
	return in
}

func (fx *q06Fix) fromInfo(in *valsettypes.ExternalChainInfo) q06Acct {
	a := q06Acct{chain: q06ChainNo(in.ChainReferenceID), addr: fx.addrID[in.Address], raw: fx.rawID[hex.EncodeToString(in.Pubkey)]}
	for _, t := range in.Traits {
		if t == valsettypes.PIGEON_TRAIT_MEV {
			a.mev = true
		}
	}
	return a
}

type q06SnapVal struct {
	id    int
	share int64
	accts []q06Acct
}

type q06Env struct {
	total     int64
	vals      []q06SnapVal
	metrics   map[int][4]string // uptime, successRate, execTime (integer), featureSet
	fees      map[int]string
	weights   [5]string
	community string
	security  string
}

var q06Decs = []string{"0", "0.5", "1", "0.9", "0.99", "0.333333333333333333", "0.01", "0.75"}
var q06Mults = []string{"1.1", "1.1", "1.05", "1.5", "2", "1.000000000000000001", "0.5", "3.75", "1"}

func (r *Rec) q06Pick(xs []string) string { return xs[r.Rng.Intn(len(xs))] }

// q06GenEnv draws a snapshot (subset of the validators, with accounts and MEV traits),
// metrics and fee records (some missing), weights and treasury rates; `tie` makes all
// metrics and fees equal so that ranking falls back to the address order.
func (r *Rec) q06GenEnv(fx *q06Fix, maxSnap int) q06Env {
	e := q06Env{metrics: map[int][4]string{}, fees: map[int]string{}}
	tie := r.Rng.Intn(4) == 0
	perm := r.Rng.Perm(fx.n)
	for _, i := range perm {
		if len(e.vals) >= maxSnap || r.Rng.Intn(8) == 0 {
			continue
		}
		id := fx.valID[i]
		v := q06SnapVal{id: id, share: int64(1 + r.Rng.Intn(6))}
		if r.Rng.Intn(3) == 0 {
			v.share = 5
		}
		own := q06Acct{chain: 0, addr: 4 * (i + 1), raw: 4 * (i + 1), mev: r.Rng.Intn(3) == 0}
		switch r.Rng.Intn(12) {
		case 0: // no account on the target chain
			if r.Rng.Intn(2) == 0 {
				v.accts = []q06Acct{{chain: 1, addr: 4 * (i + 1), raw: 4 * (i + 1), mev: true}}
			}
		case 1: // another chain's account first: same key in another spelling, or a different key altogether
			if r.Rng.Intn(2) == 0 {
				v.accts = []q06Acct{{chain: 1, addr: 4*(i+1) + 1, raw: 4 * (i + 1), mev: !own.mev}, own}
			} else {
				e := fx.n + 1 + r.Rng.Intn(q06ExtraKeys)
				v.accts = []q06Acct{{chain: 1 + r.Rng.Intn(2), addr: 4 * e, raw: 4 * e, mev: !own.mev}, own}
				if r.Rng.Intn(3) == 0 {
					v.accts = append(v.accts, q06Acct{chain: 2, addr: 4*e + 1, raw: 4 * e, mev: true})
				}
			}
		case 2: // two accounts on the target chain: only the first one counts
			v.accts = []q06Acct{own, {chain: 0, addr: 4*(i+1) + 1, raw: 4*(i+1) + 1, mev: !own.mev}}
		case 3: // address spelled in lower case
			own.addr++
			v.accts = []q06Acct{own}
		default:
			v.accts = []q06Acct{own}
		}
		e.vals = append(e.vals, v)
	}
	if r.Rng.Intn(10) == 0 { // somebody who is not a bonded validator sits in the snapshot
		e.vals = append(e.vals, q06SnapVal{id: fx.outID[0], share: 3, accts: []q06Acct{{chain: 0, addr: 4 * (fx.n + 1), raw: 4 * (fx.n + 1)}}})
	}
	for _, v := range e.vals {
		e.total += v.share
	}
	if r.Rng.Intn(6) == 0 {
		e.total += int64(r.Rng.Intn(10))
	}
	ids := []int{}
	for i := 0; i < fx.n; i++ {
		ids = append(ids, fx.valID[i])
	}
	ids = append(ids, fx.outID[0])
	for _, id := range ids {
		if r.Rng.Intn(7) != 0 {
			if tie {
				e.metrics[id] = [4]string{"1", "0.5", "0", "0"}
			} else {
				e.metrics[id] = [4]string{r.q06Pick(q06Decs), r.q06Pick(q06Decs), strconv.Itoa(r.Rng.Intn(4) * r.Rng.Intn(500)), r.q06Pick(q06Decs)}
			}
		}
		if r.Rng.Intn(7) != 0 {
			if tie {
				e.fees[id] = "1.1"
			} else {
				e.fees[id] = r.q06Pick(q06Mults)
			}
		}
	}
	switch r.Rng.Intn(40) {
	case 0:
		e.fees[ids[r.Rng.Intn(len(ids))]] = "0"
	case 1: // ceil(m*g) can leave uint64
		e.fees[ids[r.Rng.Intn(len(ids))]] = "1099511627776.5"
	case 2:
		e.fees[ids[r.Rng.Intn(len(ids))]] = "18446744073709551615.000000000000000001"
	case 3: // keeper-level write; the message handler refuses negative multiplicators
		e.fees[ids[r.Rng.Intn(len(ids))]] = "-0.5"
	}
	e.weights = [5]string{"1.0", "1.0", "1.0", "1.0", "1.0"}
	if r.Rng.Intn(4) == 0 {
		for i := range e.weights {
			e.weights[i] = r.q06Pick([]string{"0", "0.5", "1.0", "2", "0.1"})
		}
	}
	e.community, e.security = "0.03", "0.01"
	switch r.Rng.Intn(12) {
	case 0:
		e.community, e.security = "0.3", "1.5"
	case 1:
		e.community = "0"
	case 2:
		e.security = "0.000000000000000001"
	case 3:
		e.community, e.security = "1", "0.999999999999999999"
	case 4:
		e.community = "18446744073709551616"
	}
	return e
}

func q06DelAll(st storetypes.KVStore) {
	it := st.Iterator(nil, nil)
	var keys [][]byte
	for ; it.Valid(); it.Next() {
		keys = append(keys, append([]byte(nil), it.Key()...))
	}
	it.Close()
	for _, k := range keys {
		st.Delete(k)
	}
}

// writeEnv puts e into the valset / metrix / treasury / evm stores of ctx.
func (fx *q06Fix) writeEnv(ctx sdk.Context, e q06Env) error {
	a := fx.fa.App()
	snap, err := a.ValsetKeeper.GetCurrentSnapshot(ctx)
	if err != nil || snap == nil {
		return fmt.Errorf("no snapshot: %v", err)
	}
	snap.Validators = nil
	for _, v := range e.vals {
		sv := valsettypes.Validator{Address: fx.valAddrOfID(v.id), ShareCount: sdkmath.NewInt(v.share), State: valsettypes.ValidatorState_ACTIVE}
		for _, ac := range v.accts {
			sv.ExternalChainInfos = append(sv.ExternalChainInfos, fx.toInfo(ac))
		}
		snap.Validators = append(snap.Validators, sv)
	}
	snap.TotalShares = sdkmath.NewInt(e.total)
	if err := a.ValsetKeeper.SaveModifiedSnapshot(ctx, snap); err != nil {
		return err
	}
	keys := fx.fa.kvKeys()
	ms := prefix.NewStore(ctx.KVStore(keys[metrixtypes.StoreKey]), []byte(metrixtypes.MetricsStorePrefix))
	q06DelAll(ms)
	for id, m := range e.metrics {
		va := fx.valAddrOfID(id)
		et, _ := sdkmath.NewIntFromString(m[2])
		rec := &metrixtypes.ValidatorMetrics{ValAddress: va.String(), Uptime: sdkmath.LegacyMustNewDecFromStr(m[0]),
			SuccessRate: sdkmath.LegacyMustNewDecFromStr(m[1]), ExecutionTime: et, Fee: sdkmath.ZeroInt(),
			FeatureSet: sdkmath.LegacyMustNewDecFromStr(m[3])}
		bz, err := fx.cdc.Marshal(rec)
		if err != nil {
			return err
		}
		ms.Set(va.Bytes(), bz)
	}
	fs := prefix.NewStore(ctx.KVStore(keys[treasurytypes.StoreKey]), []byte(treasurytypes.RelayerFeeStorePrefix))
	q06DelAll(fs)
	for id, m := range e.fees {
		va := fx.valAddrOfID(id)
		if err := a.TreasuryKeeper.SetRelayerFee(ctx, va, &treasurytypes.RelayerFeeSetting{ValAddress: va.String(),
			Fees: []treasurytypes.RelayerFeeSetting_FeeSetting{{Multiplicator: sdkmath.LegacyMustNewDecFromStr(m), ChainReferenceId: q06Chain}}}); err != nil {
			return err
		}
	}
	if err := a.EvmKeeper.SetRelayWeights(ctx, q06Chain, &evmtypes.RelayWeights{Fee: e.weights[0], Uptime: e.weights[1],
		SuccessRate: e.weights[2], ExecutionTime: e.weights[3], FeatureSet: e.weights[4]}); err != nil {
		return err
	}
	if err := a.TreasuryKeeper.SetCommunityFundFee(ctx, e.community); err != nil {
		return err
	}
	return a.TreasuryKeeper.SetSecurityFee(ctx, e.security)
}

func q06Scaled(d sdkmath.LegacyDec) string { return d.BigInt().String() }

func q06ParseDec(s string) string {
	d, err := sdkmath.LegacyNewDecFromStr(s)
	if err != nil {
		return "0"
	}
	return q06Scaled(d)
}

// q06Obs is what the harness read back from the keepers (input of the monitors and of the model).
type q06Obs struct {
	total   *big.Int
	vals    []q06SnapVal
	shares  map[int]*big.Int
	metrics map[int]bool
	fees    map[int]sdkmath.LegacyDec
	comm    string
	sec     string
}

// emitEnv reads the environment back from the keepers and sends it to the model.
func (fx *q06Fix) emitEnv(ctx sdk.Context, r *Rec) *q06Obs {
	a := fx.fa.App()
	o := &q06Obs{shares: map[int]*big.Int{}, metrics: map[int]bool{}, fees: map[int]sdkmath.LegacyDec{}}
	snap, err := a.ValsetKeeper.GetCurrentSnapshot(ctx)
	if err != nil || snap == nil {
		fx.t.Fatalf("snapshot: %v", err)
	}
	o.total = snap.TotalShares.BigInt()
	var vs []string
	for _, v := range snap.Validators {
		sv := q06SnapVal{id: fx.idOfValAddr(v.Address)}
		for _, in := range v.ExternalChainInfos {
			sv.accts = append(sv.accts, fx.fromInfo(in))
		}
		o.vals = append(o.vals, sv)
		o.shares[sv.id] = v.ShareCount.BigInt()
		vs = append(vs, fmt.Sprintf("%d:%s:%s", sv.id, v.ShareCount.String(), q06Accts(sv.accts)))
	}
	r.Op(fmt.Sprintf("snap %s %s", o.total, q06Join(vs, ",")), "ok")
	res, err := a.MetrixKeeper.Validators(ctx, nil)
	if err != nil {
		fx.t.Fatal(err)
	}
	var ms []string
	for _, m := range res.ValMetrics {
		id := fx.idOfValStr(m.ValAddress)
		o.metrics[id] = true
		ms = append(ms, fmt.Sprintf("%d:%s:%s:%s:%s", id, q06Scaled(m.Uptime), q06Scaled(m.SuccessRate),
			q06Scaled(m.ExecutionTime.ToLegacyDec()), q06Scaled(m.FeatureSet)))
	}
	sort.Strings(ms)
	r.Op("metrics "+q06Join(ms, ","), "ok")
	fees, err := a.TreasuryKeeper.GetRelayerFeesByChainReferenceID(ctx, q06Chain)
	if err != nil {
		fx.t.Fatal(err)
	}
	var fl []string
	for va, m := range fees {
		id := fx.idOfValStr(va)
		o.fees[id] = m
		fl = append(fl, fmt.Sprintf("%d:%s", id, q06Scaled(m)))
	}
	sort.Strings(fl)
	r.Op("fees "+q06Join(fl, ","), "ok")
	w, err := a.EvmKeeper.GetRelayWeights(ctx, q06Chain)
	if err != nil {
		fx.t.Fatal(err)
	}
	dw, err := w.ValueOrDefault().DecValues()
	if err != nil {
		fx.t.Fatal(err)
	}
	r.Op(fmt.Sprintf("weights %s:%s:%s:%s:%s", q06Scaled(dw.Fee), q06Scaled(dw.Uptime), q06Scaled(dw.SuccessRate),
		q06Scaled(dw.ExecutionTime), q06Scaled(dw.FeatureSet)), "ok")
	tf, err := a.TreasuryKeeper.GetFees(ctx)
	if err != nil {
		fx.t.Fatal(err)
	}
	o.comm, o.sec = tf.CommunityFundFee, tf.SecurityFee
	r.Op(fmt.Sprintf("params %s %s", q06ParseDec(tf.CommunityFundFee), q06ParseDec(tf.SecurityFee)), "ok")
	return o
}

func q06Join(xs []string, sep string) string {
	if len(xs) == 0 {
		return "-"
	}
	return strings.Join(xs, sep)
}

// ---------------------------------------------------------------------------
// one running case
// ---------------------------------------------------------------------------

type q06Case struct {
	fx      *q06Fix
	r       *Rec
	ctx     sdk.Context
	obs     *q06Obs
	log     []string            // op lines of this case (monitor hit input)
	ids     []uint64            // ids ever enqueued in this case
	hist    map[uint64][]string // distinct signing-byte strings per message, in order of appearance
	bhist   map[uint64][]string
	nonces  []uint64
	content int
	// what each stored signature must look like: (msg id, validator id) -> key bytes registered when it signed
	keyAtSign map[string][]byte
	prevSigs  map[uint64]map[string]bool
	prevBytes map[uint64]string
	changed   bool // queue changed since the relay sets were last compared
	mevOf     map[uint64]bool
	// batches: confirmations (signature/orchestrator) and checkpoint seen at the previous observation
	prevBConf  map[uint64]map[string]bool
	prevBBytes map[uint64]string
	aged       int // blocks this case let pass (opBlocks)
}

func (c *q06Case) op(line, out string) {
	c.log = append(c.log, line+" => "+out)
	c.r.Op(line, out)
}

func (c *q06Case) hit(monitor, what string) {
	c.r.Hit(monitor, what, map[string]interface{}{"ops": append([]string(nil), c.log...)})
}

func (c *q06Case) route(msg sdk.Msg) (err error) {
	h := c.fx.fa.App().MsgServiceRouter().Handler(msg)
	if h == nil {
		return fmt.Errorf("no handler for %T", msg)
	}
	cctx, commit := c.ctx.CacheContext()
	defer func() {
		if p := recover(); p != nil {
			err = fmt.Errorf("panic: %v", p)
		}
	}()
	if _, err = h(cctx, msg); err != nil {
		return err
	}
	commit()
	return nil
}

func (c *q06Case) msgs() []consensustypes.QueuedSignedMessageI {
	ms, err := c.fx.fa.App().ConsensusKeeper.GetMessagesFromQueue(c.ctx, c.fx.queue, 0)
	if err != nil {
		c.fx.t.Fatal(err)
	}
	return ms
}

func (c *q06Case) msg(id uint64) consensustypes.QueuedSignedMessageI {
	for _, m := range c.msgs() {
		if m.GetId() == id {
			return m
		}
	}
	return nil
}

func (c *q06Case) evm(m consensustypes.QueuedSignedMessageI) *evmtypes.Message {
	cm, err := m.ConsensusMsg(c.fx.cdc)
	if err != nil {
		c.fx.t.Fatal(err)
	}
	return cm.(*evmtypes.Message)
}

func q06Kind(em *evmtypes.Message) string {
	switch em.GetAction().(type) {
	case *evmtypes.Message_UpdateValset:
		return "v"
	case *evmtypes.Message_SubmitLogicCall:
		return "s"
	case *evmtypes.Message_UploadUserSmartContract:
		return "u"
	default:
		return "o"
	}
}

func (c *q06Case) senderOf(em *evmtypes.Message) int {
	switch a := em.GetAction().(type) {
	case *evmtypes.Message_SubmitLogicCall:
		return c.fx.senderIdx(a.SubmitLogicCall.SenderAddress)
	case *evmtypes.Message_UploadUserSmartContract:
		return c.fx.senderIdx(a.UploadUserSmartContract.SenderAddress)
	}
	return 0
}

func q06FeesOf(em *evmtypes.Message) *evmtypes.Fees {
	switch a := em.GetAction().(type) {
	case *evmtypes.Message_SubmitLogicCall:
		return a.SubmitLogicCall.Fees
	case *evmtypes.Message_UploadUserSmartContract:
		return a.UploadUserSmartContract.Fees
	}
	return nil
}

func (c *q06Case) hashID(p *codectypes.Any) int {
	var h evmtypes.Hashable
	if err := c.fx.cdc.UnpackAny(p, &h); err != nil {
		return 0
	}
	if e, ok := h.(*evmtypes.SmartContractExecutionErrorProof); ok {
		n, _ := strconv.Atoi(strings.TrimPrefix(e.ErrorMessage, "h"))
		return n
	}
	return 0
}

func q06B(b bool) string {
	if b {
		return "1"
	}
	return "0"
}

// show renders a stored message exactly like Driver.Queue.showItem.
func (c *q06Case) show(m consensustypes.QueuedSignedMessageI) string {
	if m == nil {
		return "-"
	}
	em := c.evm(m)
	fees := "-"
	if f := q06FeesOf(em); f != nil {
		fees = fmt.Sprintf("%d/%d/%d", f.RelayerFee, f.CommunityFee, f.SecurityFee)
	}
	var sigs, ests, evs []string
	for _, s := range m.GetSignData() {
		sigs = append(sigs, fmt.Sprintf("%d/%d/%d", c.fx.idOfValAddr(s.ValAddress), c.fx.addrID[s.ExternalAccountAddress], c.fx.rawID[hex.EncodeToString(s.PublicKey)]))
	}
	for _, e := range m.GetGasEstimates() {
		ests = append(ests, fmt.Sprintf("%d/%d", c.fx.idOfValAddr(e.ValAddress), e.Value))
	}
	for _, e := range m.GetEvidence() {
		evs = append(evs, fmt.Sprintf("%d/%d", c.fx.idOfValAddr(e.ValAddress), c.hashID(e.Proof)))
	}
	sender := 0
	if k := q06Kind(em); k == "s" || k == "u" {
		sender = c.senderOf(em)
	}
	return fmt.Sprintf("%d:%s:%d:%d:%d:%s:%d:%s:%s:%s:%s:%s%s", m.GetId(), q06Kind(em), sender, c.fx.idOfValStr(em.Assignee),
		c.fx.addrID[em.AssigneeRemoteAddress], q06B(m.GetRequireGasEstimation()), m.GetGasEstimate(), fees,
		q06Join(sigs, "+"), q06Join(ests, "+"), q06Join(evs, "+"), q06B(m.GetPublicAccessData() != nil), q06B(m.GetErrorData() != nil))
}

func (c *q06Case) showID(id uint64) string { return c.show(c.msg(id)) }

func (c *q06Case) bytesOf(m consensustypes.QueuedSignedMessageI) []byte {
	b, err := m.GetBytesToSign(c.fx.cdc)
	if err != nil {
		c.fx.t.Fatalf("bytes to sign: %v", err)
	}
	return b
}

func (c *q06Case) batch(nonce uint64) *skytypes.InternalOutgoingTxBatch {
	b, err := c.fx.fa.App().SkywayKeeper.GetOutgoingTXBatch(c.ctx, c.fx.token, nonce)
	if err != nil {
		return nil
	}
	return b
}

func (c *q06Case) showBatch(nonce uint64) string {
	b := c.batch(nonce)
	if b == nil {
		return "-"
	}
	confs, err := c.fx.fa.App().SkywayKeeper.GetBatchConfirmByNonceAndTokenContract(c.ctx, nonce, c.fx.token)
	if err != nil {
		c.fx.t.Fatal(err)
	}
	type cf struct{ v, a int }
	var cs []cf
	for _, x := range confs {
		acc, _ := sdk.AccAddressFromBech32(x.Orchestrator)
		cs = append(cs, cf{c.fx.idOfValAddr(sdk.ValAddress(acc)), c.fx.addrID[x.EthSigner]})
	}
	sort.Slice(cs, func(i, j int) bool { return cs[i].v < cs[j].v })
	var s []string
	for _, x := range cs {
		s = append(s, fmt.Sprintf("%d/%d", x.v, x.a))
	}
	return fmt.Sprintf("%d:%d:%d:%s", nonce, c.fx.addrID[b.AssigneeRemoteAddress.Hex()], b.GasEstimate, q06Join(s, "+"))
}

// track records new signing-byte strings and runs the C06 monitors; called after EVERY op.
func (c *q06Case) track() {
	cur := map[uint64]map[string]bool{}
	for _, m := range c.msgs() {
		id := m.GetId()
		bts := c.bytesOf(m)
		hx := hex.EncodeToString(bts)
		found := false
		for _, h := range c.hist[id] {
			if h == hx {
				found = true
			}
		}
		if !found {
			c.hist[id] = append(c.hist[id], hx)
		}
		digest := ethcrypto.Keccak256(append([]byte(evmkeeper.SignaturePrefix), bts...))
		seenVal, seenRaw, seenAcct := map[string]bool{}, map[string]bool{}, map[string]bool{}
		cur[id] = map[string]bool{}
		for _, sd := range m.GetSignData() {
			sk := hex.EncodeToString(sd.Signature) + "/" + sd.ValAddress.String()
			cur[id][sk] = true
			// (1) verifies against the CURRENT bytes under the key stored with it
			okSig := false
			if len(sd.Signature) == 65 {
				if pk, err := ethcrypto.SigToPub(digest, sd.Signature); err == nil {
					okSig = ethcrypto.PubkeyToAddress(*pk) == ethcommon.BytesToAddress(sd.PublicKey)
				}
			}
			if !okSig {
				c.hit("sig_verifies_current_bytes", fmt.Sprintf("msg %d: stored signature of validator %d does not verify against the current signing bytes", id, c.fx.idOfValAddr(sd.ValAddress)))
			}
			// (2) the key is the one the validator had registered when it signed
			want, ok := c.keyAtSign[fmt.Sprintf("%d/%s", id, sd.ValAddress.String())]
			if !ok || !bytes.Equal(want, sd.PublicKey) {
				c.hit("key_registered_when_signed", fmt.Sprintf("msg %d: stored key of validator %d is not the key registered at signing time", id, c.fx.idOfValAddr(sd.ValAddress)))
			}
			// (3) a validator or key at most once
			if seenVal[sd.ValAddress.String()] {
				c.hit("validator_once_per_item", fmt.Sprintf("msg %d: validator %d signed twice", id, c.fx.idOfValAddr(sd.ValAddress)))
			}
			seenVal[sd.ValAddress.String()] = true
			rk := hex.EncodeToString(sd.PublicKey)
			ak := ethcommon.BytesToAddress(sd.PublicKey).Hex()
			if seenRaw[rk] {
				c.hit("key_once_per_item", fmt.Sprintf("msg %d: key bytes %s appear twice", id, rk))
			} else if seenAcct[ak] {
				c.hit("key_once_per_item_account", fmt.Sprintf("msg %d: external account %s appears twice (different key byte strings)", id, ak))
			}
			seenRaw[rk], seenAcct[ak] = true, true
			// (4) nothing carried over a change of the signing bytes
			if pb, ok := c.prevBytes[id]; ok && pb != hx && c.prevSigs[id][sk] {
				c.hit("no_carry_over", fmt.Sprintf("msg %d: signature of validator %d kept although the signing bytes changed", id, c.fx.idOfValAddr(sd.ValAddress)))
			}
		}
		c.prevBytes[id] = hx
	}
	c.prevSigs = cur
	for _, n := range c.nonces {
		b := c.batch(n)
		if b == nil {
			continue
		}
		cp, err := b.GetCheckpoint(c.fx.turnstone)
		if err != nil {
			c.fx.t.Fatal(err)
		}
		hx := hex.EncodeToString(cp)
		found := false
		for _, h := range c.bhist[n] {
			if h == hx {
				found = true
			}
		}
		if !found {
			c.bhist[n] = append(c.bhist[n], hx)
		}
		if !bytes.Equal(cp, b.BytesToSign) {
			c.hit("batch_bytes_current", fmt.Sprintf("batch %d: stored BytesToSign differs from the recomputed checkpoint", n))
		}
		confs, err := c.fx.fa.App().SkywayKeeper.GetBatchConfirmByNonceAndTokenContract(c.ctx, n, c.fx.token)
		if err != nil {
			c.fx.t.Fatal(err)
		}
		seenO, seenK := map[string]bool{}, map[string]bool{}
		curB := map[string]bool{}
		for _, cf := range confs {
			// nothing carried over a change of the checkpoint, whoever delivered the confirmation
			bk := cf.Signature + "/" + cf.Orchestrator
			curB[bk] = true
			if pb, ok := c.prevBBytes[n]; ok && pb != hx && c.prevBConf[n][bk] {
				c.hit("batch_no_carry_over", fmt.Sprintf("batch %d: confirmation of %s (delivered by %s) kept although the checkpoint changed", n, cf.Orchestrator, cf.Metadata.Creator))
			}
			sig, err := hex.DecodeString(cf.Signature)
			okSig := false
			if err == nil {
				if a, err := skytypes.EthAddressFromSignature(cp, append([]byte(nil), sig...)); err == nil {
					if want, err := skytypes.NewEthAddress(cf.EthSigner); err == nil {
						okSig = a.GetAddress() == want.GetAddress()
					}
				}
			}
			if !okSig {
				c.hit("batch_confirm_verifies_current_checkpoint", fmt.Sprintf("batch %d: confirm of %s does not verify", n, cf.Orchestrator))
			}
			if seenO[cf.Orchestrator] {
				c.hit("validator_once_per_item", fmt.Sprintf("batch %d: orchestrator twice", n))
			}
			k := strings.ToLower(cf.EthSigner)
			if seenK[k] {
				c.hit("batch_key_once_per_item", fmt.Sprintf("batch %d: eth signer %s confirms twice", n, k))
			}
			seenO[cf.Orchestrator], seenK[k] = true, true
		}
		c.prevBBytes[n], c.prevBConf[n] = hx, curB
	}
}

// ---- operations -----------------------------------------------------------

func (c *q06Case) action(kind string, content int, sender int, mev bool) (*evmtypes.Message, error) {
	payload := []byte(fmt.Sprintf("payload-%d", content))
	deadline := c.ctx.BlockTime().Add(10 * time.Minute).Unix()
	m := &evmtypes.Message{TurnstoneID: c.fx.turnstone, ChainReferenceID: q06Chain, AssignedAtBlockHeight: sdkmath.NewInt(c.ctx.BlockHeight())}
	switch kind {
	case "v":
		m.Action = &evmtypes.Message_UpdateValset{UpdateValset: &evmtypes.UpdateValset{Valset: &evmtypes.Valset{
			ValsetID: uint64(content), Validators: []string{c.fx.addrStr[4], c.fx.addrStr[8]}, Powers: []uint64{1 << 31, 1 << 31}}}}
	case "s":
		m.Action = &evmtypes.Message_SubmitLogicCall{SubmitLogicCall: &evmtypes.SubmitLogicCall{
			HexContractAddress: "0x00000000000000000000000000000000000000AA", Abi: []byte("[]"), Payload: payload, Deadline: deadline,
			SenderAddress: c.fx.senders[sender], Retries: 2,
			ExecutionRequirements: evmtypes.SubmitLogicCall_ExecutionRequirements{EnforceMEVRelay: mev}}}
	case "u":
		m.Action = &evmtypes.Message_UploadUserSmartContract{UploadUserSmartContract: &evmtypes.UploadUserSmartContract{
			Bytecode: payload, DeployerAddress: "0x00000000000000000000000000000000000000DD", Deadline: deadline,
			SenderAddress: c.fx.senders[sender], BlockHeight: c.ctx.BlockHeight(), Id: uint64(content)}}
	case "o":
		m.Action = &evmtypes.Message_CompassHandover{CompassHandover: &evmtypes.CompassHandover{Id: uint64(content), Deadline: deadline,
			ForwardCallArgs: []evmtypes.CompassHandover_ForwardCallArgs{{HexContractAddress: "0x00000000000000000000000000000000000000AB", Payload: payload}}}}
	default:
		return nil, fmt.Errorf("kind %s", kind)
	}
	return m, nil
}

func (c *q06Case) opPut(kind string, sender, assignee, remote int, req bool) uint64 {
	c.content++
	if kind == "v" || kind == "o" {
		sender = 0
	}
	m, _ := c.action(kind, c.content, sender, false)
	m.Assignee = c.fx.valAddrOfID(assignee).String()
	m.AssigneeRemoteAddress = c.fx.addrStr[remote]
	id, err := c.fx.fa.App().ConsensusKeeper.PutMessageInQueue(c.ctx, c.fx.queue, m, &consensuskeeper.PutOptions{RequireGasEstimation: req, RequireSignatures: true})
	if err != nil {
		c.fx.t.Fatalf("put: %v", err)
	}
	c.ids = append(c.ids, id)
	c.changed = true
	c.op(fmt.Sprintf("put %s %d %d %d %d %s", kind, c.content, sender, assignee, remote, q06B(req)), fmt.Sprintf("%d %s", id, c.showID(id)))
	c.r.Stat("op.put." + kind)
	return id
}

// eligible evaluates the C14 assignment clause directly on the observed environment.
func (c *q06Case) eligible(id int, mev bool) (ok bool, remotes []int) {
	for _, v := range c.obs.vals {
		if v.id != id {
			continue
		}
		for _, a := range v.accts {
			if a.chain == 0 && (!mev || a.mev) {
				remotes = append(remotes, a.addr)
			}
		}
	}
	_, hasFee := c.obs.fees[id]
	return len(remotes) > 0 && hasFee && c.obs.metrics[id], remotes
}

func (c *q06Case) opEnq(kind string, sender int, mev bool, ts int64) {
	c.opEnqR(kind, sender, mev, ts, 2)
}

// opEnqR: as opEnq, for a logic call that has `retries` attempts behind it (2 = none left; what opEnq uses).
// The op line is the same: the model's `enqueue` does not depend on it.
func (c *q06Case) opEnqR(kind string, sender int, mev bool, ts int64, retries uint32) {
	c.content++
	m, _ := c.action(kind, c.content, sender, mev)
	if slc := m.GetSubmitLogicCall(); slc != nil {
		slc.Retries = retries
	}
	ctx := c.ctx.WithBlockTime(time.Unix(ts, 0).UTC())
	before := len(c.msgs())
	var id uint64
	var err error
	func() {
		defer func() {
			if p := recover(); p != nil {
				err = fmt.Errorf("panic %v", p)
			}
		}()
		switch kind {
		case "s":
			id, err = c.fx.fa.App().EvmKeeper.AddSmartContractExecutionToConsensus(ctx, q06Chain, c.fx.turnstone, m.GetSubmitLogicCall())
		case "u":
			id, err = c.fx.fa.App().EvmKeeper.AddUploadUserSmartContractToConsensus(ctx, q06Chain, c.fx.turnstone, m.GetUploadUserSmartContract())
		}
	}()
	line := fmt.Sprintf("enq %s %d %d %s %d", kind, c.content, sender, q06B(mev), ts)
	if err != nil {
		c.op(line, "fail")
		c.r.Stat("enq.fail")
		if len(c.msgs()) != before {
			c.hit("failed_request_enqueues_nothing", "request failed but the queue grew")
		}
		return
	}
	c.r.Stat("enq.ok")
	c.ids = append(c.ids, id)
	c.mevOf[id] = mev
	c.changed = true
	c.op(line, fmt.Sprintf("%d %s", id, c.showID(id)))
	em := c.evm(c.msg(id))
	aid := c.fx.idOfValStr(em.Assignee)
	ok, remotes := c.eligible(aid, mev)
	if !ok {
		c.hit("assignee_eligible", fmt.Sprintf("msg %d assigned to %d which is not in the snapshot with chain account%s, fee and metrics", id, aid, map[bool]string{true: " + MEV", false: ""}[mev]))
	} else {
		found := false
		for _, a := range remotes {
			if c.fx.addrStr[a] == em.AssigneeRemoteAddress {
				found = true
			}
		}
		if !found {
			c.hit("remote_is_snapshot_account", fmt.Sprintf("msg %d: relayer address %s is not an account of assignee %d in the snapshot", id, em.AssigneeRemoteAddress, aid))
		}
	}
}

// opEnqValset enqueues a validator-set update the way the chain does: the real
// EvmKeeper.PublishValsetToChain (relayer pick, removal of every older update of the queue, put with
// RequireGasEstimation).  One Go call, several op lines: a failed pick changes nothing (`enq v … → fail`);
// otherwise one `rm` line per removed older update (queue order) and then the `enq v` line.
func (c *q06Case) opEnqValset(ts int64) {
	c.content++
	m, _ := c.action("v", c.content, 0, false)
	ctx := c.ctx.WithBlockTime(time.Unix(ts, 0).UTC())
	ci, err := c.fx.fa.App().EvmKeeper.GetChainInfo(ctx, q06Chain)
	if err != nil {
		c.fx.t.Fatalf("chain info: %v", err)
	}
	before := c.msgs()
	func() {
		defer func() {
			if p := recover(); p != nil {
				err = fmt.Errorf("panic %v", p)
			}
		}()
		err = c.fx.fa.App().EvmKeeper.PublishValsetToChain(ctx, *m.GetUpdateValset().Valset, ci)
	}()
	after := c.msgs()
	line := fmt.Sprintf("enq v %d 0 0 %d", c.content, ts)
	if err != nil {
		c.op(line, "fail")
		c.r.Stat("enqv.fail")
		if len(after) != len(before) {
			c.hit("failed_request_enqueues_nothing", "valset publication failed but the queue changed")
		}
		return
	}
	left := map[uint64]bool{}
	var newID uint64
	for _, a := range after {
		left[a.GetId()] = true
		if a.GetId() > newID {
			newID = a.GetId()
		}
	}
	was := map[uint64]bool{}
	for _, b := range before {
		was[b.GetId()] = true
		if !left[b.GetId()] {
			if q06Kind(c.evm(b)) != "v" {
				c.hit("valset_publication_removes_only_updates", fmt.Sprintf("msg %d removed by a valset publication", b.GetId()))
			}
			c.op(fmt.Sprintf("rm %d", b.GetId()), "ok -")
			c.r.Stat("enqv.removed_older")
		}
	}
	if was[newID] || newID == 0 {
		c.fx.t.Fatalf("valset publication succeeded without a new message")
	}
	c.r.Stat("enqv.ok")
	c.ids = append(c.ids, newID)
	c.mevOf[newID] = false
	c.changed = true
	c.op(line, fmt.Sprintf("%d %s", newID, c.showID(newID)))
	em := c.evm(c.msg(newID))
	aid := c.fx.idOfValStr(em.Assignee)
	ok, remotes := c.eligible(aid, false)
	if !ok {
		c.hit("assignee_eligible", fmt.Sprintf("valset update %d assigned to %d which is not in the snapshot with chain account, fee and metrics", newID, aid))
	} else {
		found := false
		for _, a := range remotes {
			if c.fx.addrStr[a] == em.AssigneeRemoteAddress {
				found = true
			}
		}
		if !found {
			c.hit("remote_is_snapshot_account", fmt.Sprintf("valset update %d: relayer address %s is not an account of assignee %d in the snapshot", newID, em.AssigneeRemoteAddress, aid))
		}
	}
	if !c.msg(newID).GetRequireGasEstimation() {
		c.hit("valset_update_requires_estimation", fmt.Sprintf("valset update %d enqueued without RequireGasEstimation", newID))
	}
}

// q14ValsetEnqueue: validator-set updates through the producer of /repo (relayer pick + estimation
// required), under random environments: assignment clause, "offered only once elected", older updates
// replaced.  Appended after everything else so that the random stream of the earlier cases is unchanged.
func q14ValsetEnqueue(t *testing.T, r *Rec, fx *q06Fix) {
	n := r.N / 15
	if n < 8 {
		n = 8
	}
	for i := 0; i < n; i++ {
		i := i
		fx.hookCase(func(ctx sdk.Context) {
			env := r.q06GenEnv(fx, fx.n)
			if i%3 == 0 {
				env = q06PlainEnv(fx)
			}
			if err := fx.writeEnv(ctx, env); err != nil {
				t.Fatal(err)
			}
			c := fx.begin(ctx, r)
			c.obs = fx.emitEnv(ctx, r)
			c.syncRegs()
			rg := r.Rng
			if rg.Intn(2) == 0 {
				c.opEnq("s", rg.Intn(len(fx.senders)), false, int64(rg.Intn(7)))
			}
			if rg.Intn(3) == 0 {
				c.opPut("v", 0, fx.valID[rg.Intn(fx.n)], 4*(1+rg.Intn(fx.n)), rg.Intn(2) == 0)
			}
			c.opEnqValset(int64(rg.Intn(12)))
			c.track()
			c.opRelay()
			if rg.Intn(2) == 0 {
				c.opEnq("u", rg.Intn(len(fx.senders)), false, int64(rg.Intn(7)))
				c.opEnqValset(int64(rg.Intn(12))) // replaces the first update
				c.track()
				c.opRelay()
			}
			if len(c.ids) > 0 {
				id := c.ids[len(c.ids)-1]
				for j := 0; j < fx.n; j++ {
					c.opEst(id, j, 50000)
				}
				c.track()
				c.opRelay() // not offered before the election
				c.opEndBlock()
				c.track()
				c.opRelay()
			}
			r.Case(fmt.Sprintf("valset-enqueue|%d|%d", i, len(c.log)), len(c.ids) > 0)
			r.Stat("case.valset_enqueue")
		})
	}
}

func (c *q06Case) opPick(mev bool, ts int64) {
	ctx := c.ctx.WithBlockTime(time.Unix(ts, 0).UTC())
	v, remote, err := q06PickReal(c.fx, ctx, mev)
	line := fmt.Sprintf("pick %s %d", q06B(mev), ts)
	anyEligible := false
	for _, sv := range c.obs.vals {
		if ok, _ := c.eligible(sv.id, mev); ok {
			anyEligible = true
		}
	}
	if err != nil {
		c.op(line, "fail")
		c.r.Stat("pick.fail")
		return
	}
	if !anyEligible {
		c.hit("no_eligible_fails", "a relayer was picked although no validator meets the conditions")
	}
	c.r.Stat("pick.ok")
	c.op(line, fmt.Sprintf("%d %d", c.fx.idOfValStr(v), c.fx.addrID[remote]))
}

func (c *q06Case) regsOf(valIdx int) []q06Acct {
	infos, err := c.fx.fa.App().ValsetKeeper.GetValidatorChainInfos(c.ctx, c.fx.fa.ValAddr(valIdx))
	if err != nil {
		c.fx.t.Fatal(err)
	}
	var out []q06Acct
	for _, in := range infos {
		out = append(out, c.fx.fromInfo(in))
	}
	return out
}

func (c *q06Case) refBytes(hist []string, cur []byte, ref string) []byte {
	switch {
	case ref == "c":
		if cur != nil {
			return cur
		}
	case strings.HasPrefix(ref, "o"):
		k, _ := strconv.Atoi(ref[1:])
		if k < len(hist) {
			b, _ := hex.DecodeString(hist[k])
			return b
		}
	}
	b := make([]byte, 32)
	c.r.Rng.Read(b)
	return b
}

func q06SignErr(err error) string {
	if err == nil {
		return "ok"
	}
	s := err.Error()
	switch {
	case strings.Contains(s, "signing key for valAddr"):
		return "nokey"
	case strings.Contains(s, "does not exist"):
		return "notfound"
	case strings.Contains(s, "already signed with the key"):
		return "dupkey"
	case strings.Contains(s, "validator already signed"):
		return "dupval"
	case strings.Contains(s, "signature is invalid"):
		return "badsig"
	}
	return "error:" + strings.SplitN(s, ":", 2)[0]
}

func (c *q06Case) opSign(id uint64, valIdx, addr, by int, ref string) string {
	return c.opSignW(id, valIdx, addr, by, ref, "c")
}

// opSignW: validator valIdx submits, claiming address string `addr`, a signature made by eth key
// `by` over the bytes `ref`, in byte form `wire`.
func (c *q06Case) opSignW(id uint64, valIdx, addr, by int, ref, wire string) string {
	var cur []byte
	if m := c.msg(id); m != nil {
		cur = c.bytesOf(m)
	}
	bts := c.refBytes(c.hist[id], cur, ref)
	var sig []byte
	if by >= 1 && by <= len(c.fx.ethKeys) {
		h := ethcrypto.Keccak256(append([]byte(evmkeeper.SignaturePrefix), bts...))
		sig, _ = ethcrypto.Sign(h, c.fx.ethKeys[by-1])
	} else {
		sig = make([]byte, 65)
		c.r.Rng.Read(sig[:64])
	}
	sig = q06WireForm(sig, wire)
	// the key the validator has registered for (chain, address) right now
	var regKey []byte
	for _, a := range c.regsOf(valIdx) {
		if a.chain == 0 && a.addr == addr && regKey == nil {
			regKey = c.fx.rawKey[a.raw]
		}
	}
	v := c.fx.fa.Vals[valIdx]
	err := c.route(&consensustypes.MsgAddMessagesSignatures{Metadata: FAMeta(v.Addr, v.Addr), SignedMessages: []*consensustypes.ConsensusMessageSignature{
		{Id: id, QueueTypeName: c.fx.queue, Signature: sig, SignedByAddress: c.fx.addrStr[addr]}}})
	res := q06SignErr(err)
	if res == "ok" {
		c.keyAtSign[fmt.Sprintf("%d/%s", id, v.ValAddr().String())] = regKey
	}
	line := fmt.Sprintf("sign %d %d %d %d %s", id, c.fx.valID[valIdx], addr, by, ref)
	if wire != "c" {
		line += " " + wire
		c.r.Stat("sign.wire." + wire + "." + res)
	}
	c.op(line, res+" "+c.showID(id))
	c.r.Stat("sign." + res)
	return res
}

func (c *q06Case) opEst(id uint64, valIdx int, value uint64) {
	v := c.fx.fa.Vals[valIdx]
	err := c.route(&consensustypes.MsgAddMessageGasEstimates{Metadata: FAMeta(v.Addr, v.Addr), Estimates: []*consensustypes.MsgAddMessageGasEstimates_GasEstimate{
		{MsgId: id, QueueTypeName: c.fx.queue, Value: value, EstimatedByAddress: v.EthAddr.Hex()}}})
	res := "ok"
	if err != nil {
		res = "rejected"
	}
	c.op(fmt.Sprintf("est %d %d %d", id, c.fx.valID[valIdx], value), res+" "+c.showID(id))
	c.r.Stat("est." + res)
}

// q06Ceil computes ceil(m * x) with big rationals, independently of LegacyDec.
func q06Ceil(m sdkmath.LegacyDec, x *big.Int) *big.Int {
	rat, _ := new(big.Rat).SetString(m.String())
	rat.Mul(rat, new(big.Rat).SetInt(x))
	q := new(big.Int).Div(rat.Num(), rat.Denom()) // floor (Denom > 0)
	if new(big.Int).Mul(q, rat.Denom()).Cmp(rat.Num()) != 0 {
		q.Add(q, big.NewInt(1))
	}
	return q
}

func (c *q06Case) opEndBlock() {
	before := map[uint64]uint64{}
	for _, m := range c.msgs() {
		before[m.GetId()] = m.GetGasEstimate()
	}
	cctx, commit := c.ctx.CacheContext()
	panicked := false
	func() {
		defer func() {
			if p := recover(); p != nil {
				panicked = true
			}
		}()
		if err := c.fx.fa.App().ConsensusKeeper.CheckAndProcessEstimatedMessages(cctx); err != nil {
			c.fx.t.Fatalf("CheckAndProcessEstimatedMessages: %v", err)
		}
	}()
	if panicked {
		c.op("endblock", "panic")
		c.r.Stat("endblock.panic")
		return
	}
	commit()
	c.changed = true
	var items []string
	for _, m := range c.msgs() {
		items = append(items, c.show(m))
		g := m.GetGasEstimate()
		if before[m.GetId()] != 0 || g == 0 {
			continue
		}
		c.r.Stat("elected")
		em := c.evm(m)
		k := q06Kind(em)
		if k != "s" && k != "u" {
			continue
		}
		// fees = ceil(relayer multiplier * elected gas), ceil(rate * relayer fee)
		f := q06FeesOf(em)
		mult, ok := c.obs.fees[c.fx.idOfValStr(em.Assignee)]
		if f == nil || !ok {
			c.hit("fees_formula", fmt.Sprintf("msg %d: elected without fees / without a fee record", m.GetId()))
			continue
		}
		rf := q06Ceil(mult, new(big.Int).SetUint64(g))
		cf := q06Ceil(sdkmath.LegacyMustNewDecFromStr(c.obs.comm), rf)
		sf := q06Ceil(sdkmath.LegacyMustNewDecFromStr(c.obs.sec), rf)
		if rf.Cmp(bu(f.RelayerFee)) != 0 || cf.Cmp(bu(f.CommunityFee)) != 0 || sf.Cmp(bu(f.SecurityFee)) != 0 {
			c.hit("fees_formula", fmt.Sprintf("msg %d: fees %d/%d/%d, expected %s/%s/%s", m.GetId(), f.RelayerFee, f.CommunityFee, f.SecurityFee, rf, cf, sf))
		}
		c.r.Stat("fees.attached")
	}
	c.op("endblock", q06Join(items, " "))
	c.r.Stat("endblock.ok")
}

func (c *q06Case) opFlag(which string, id uint64, valIdx int) {
	v := c.fx.fa.Vals[valIdx]
	var err error
	if which == "pub" {
		err = c.route(&consensustypes.MsgSetPublicAccessData{MessageID: id, QueueTypeName: c.fx.queue, Data: []byte{1}, ValsetID: 1, Metadata: FAMeta(v.Addr, v.Addr)})
	} else {
		err = c.route(&consensustypes.MsgSetErrorData{MessageID: id, QueueTypeName: c.fx.queue, Data: []byte{2}, Metadata: FAMeta(v.Addr, v.Addr)})
	}
	res := "ok"
	if err != nil {
		res = "notfound"
	}
	c.changed = true
	c.op(fmt.Sprintf("%s %d", which, id), res+" "+c.showID(id))
	c.r.Stat("op." + which)
}

func (c *q06Case) opEvid(id uint64, valIdx, h int) {
	v := c.fx.fa.Vals[valIdx]
	any, err := codectypes.NewAnyWithValue(&evmtypes.SmartContractExecutionErrorProof{ErrorMessage: fmt.Sprintf("h%d", h)})
	if err != nil {
		c.fx.t.Fatal(err)
	}
	err = c.route(&consensustypes.MsgAddEvidence{Proof: any, MessageID: id, QueueTypeName: c.fx.queue, Metadata: FAMeta(v.Addr, v.Addr)})
	res := "ok"
	if err != nil {
		res = "notfound"
	}
	c.op(fmt.Sprintf("evid %d %d %d", id, c.fx.valID[valIdx], h), res+" "+c.showID(id))
	c.r.Stat("op.evid")
}

func (c *q06Case) opRemove(id uint64) {
	err := c.fx.fa.App().ConsensusKeeper.DeleteJob(c.ctx, c.fx.queue, id)
	res := "ok"
	if err != nil {
		res = "notfound"
	}
	c.changed = true
	c.op(fmt.Sprintf("rm %d", id), res+" "+c.showID(id))
	c.r.Stat("op.rm")
}

// q06RelayInfo is what the relay clauses of C14 need to know about one queued message.
type q06RelayInfo struct {
	id       uint64
	kind     string
	sender   int
	assignee int
	reported bool
	needsEst bool
}

// opRelay compares GetMessagesForRelaying(v) with the model for every validator and evaluates
// the relay clauses of C14 directly, against the WHOLE queue as read from the store.
func (c *q06Case) opRelay() {
	all := c.msgs()
	infos := make([]q06RelayInfo, len(all))
	byID := map[uint64]int{}
	var valsets []uint64 // ids of the pending validator-set updates, ascending
	for i, m := range all {
		em := c.evm(m)
		infos[i] = q06RelayInfo{id: m.GetId(), kind: q06Kind(em), sender: c.senderOf(em), assignee: c.fx.idOfValStr(em.Assignee),
			reported: m.GetPublicAccessData() != nil || m.GetErrorData() != nil, needsEst: m.GetRequireGasEstimation() && m.GetGasEstimate() == 0}
		byID[m.GetId()] = i
		if infos[i].kind == "v" {
			valsets = append(valsets, m.GetId())
		}
	}
	if len(all) > 1000 {
		c.r.Stat("relay.queue_over_1000")
	}
	ids := map[int]bool{}
	for i := 0; i < c.fx.n; i++ {
		ids[c.fx.valID[i]] = true
	}
	ids[c.fx.outID[0]] = true
	var order []int
	for id := range ids {
		order = append(order, id)
	}
	sort.Ints(order)
	for _, vid := range order {
		got, err := c.fx.fa.App().ConsensusKeeper.GetMessagesForRelaying(c.ctx, c.fx.queue, c.fx.valAddrOfID(vid))
		if err != nil {
			c.fx.t.Fatal(err)
		}
		var out []uint64
		for _, m := range got {
			out = append(out, m.GetId())
			ix, ok := byID[m.GetId()]
			if !ok {
				c.hit("offered_only_queued", fmt.Sprintf("msg %d offered to %d is not in the queue", m.GetId(), vid))
				continue
			}
			in := infos[ix]
			if in.assignee != vid {
				c.hit("offered_only_to_assignee", fmt.Sprintf("msg %d offered to %d", in.id, vid))
			}
			if in.needsEst {
				c.hit("offered_only_with_elected_estimate", fmt.Sprintf("msg %d", in.id))
			}
			if in.reported {
				c.hit("offered_only_unreported", fmt.Sprintf("msg %d", in.id))
			}
			// never ahead of an older pending validator-set update, wherever in the queue it sits
			if len(valsets) > 0 && valsets[0] < in.id {
				c.hit("not_ahead_of_valset_update", fmt.Sprintf("msg %d offered while valset update %d (queue position %d of %d) is pending", in.id, valsets[0], byID[valsets[0]]+1, len(all)))
			}
			if (in.kind == "s" || in.kind == "u") && in.sender != 0 {
				for _, o := range infos[:ix] {
					if (o.kind == "s" || o.kind == "u") && o.sender == in.sender && o.reported {
						// READING recorded in Props/C14 (reported_older_message_does_not_block): an older message of the
						// same sender that is still queued but already reported does not hold the younger one back
						c.r.Stat("observed:reported-older-same-sender-does-not-block")
					}
					if (o.kind == "s" || o.kind == "u") && o.sender == in.sender && !o.reported {
						if in.kind == "s" && o.kind == "s" {
							c.hit("one_per_sender", fmt.Sprintf("msg %d offered while older msg %d of sender %d is pending", in.id, o.id, in.sender))
						} else {
							c.hit("one_per_sender_uusc", fmt.Sprintf("msg %d (%s) offered while older msg %d (%s) of the same sender %d is pending", in.id, in.kind, o.id, o.kind, in.sender))
						}
						break
					}
				}
			}
		}
		if len(out) > 0 {
			c.r.Stat("relay.nonempty")
		}
		c.op(fmt.Sprintf("relay %d", vid), u64List(out))
	}
	c.changed = false
}

// opPutN enqueues n messages of one shape in a row (a backlog); one op line.
func (c *q06Case) opPutN(n int, kind string, sender, assignee, remote int, req bool) (first, last uint64) {
	if kind == "v" || kind == "o" {
		sender = 0
	}
	start := c.content + 1
	for i := 0; i < n; i++ {
		c.content++
		m, _ := c.action(kind, c.content, sender, false)
		m.Assignee = c.fx.valAddrOfID(assignee).String()
		m.AssigneeRemoteAddress = c.fx.addrStr[remote]
		id, err := c.fx.fa.App().ConsensusKeeper.PutMessageInQueue(c.ctx, c.fx.queue, m, &consensuskeeper.PutOptions{RequireGasEstimation: req, RequireSignatures: true})
		if err != nil {
			c.fx.t.Fatalf("put: %v", err)
		}
		if i == 0 {
			first = id
		}
		last = id
		c.ids = append(c.ids, id)
	}
	c.changed = true
	c.op(fmt.Sprintf("putn %d %s %d %d %d %d %s", n, kind, start, sender, assignee, remote, q06B(req)), fmt.Sprintf("%d %d %d", first, last, len(c.msgs())))
	c.r.Stat("op.putn")
	return first, last
}

func q06RegErr(err error) string {
	if err == nil {
		return "ok"
	}
	if strings.Contains(err.Error(), "external account already registered") {
		return "collision"
	}
	return "error"
}

func (c *q06Case) opReg(valIdx int, accts []q06Acct) string {
	v := c.fx.fa.Vals[valIdx]
	var infos []*valsettypes.ExternalChainInfo
	for _, a := range accts {
		infos = append(infos, c.fx.toInfo(a))
	}
	err := c.route(&valsettypes.MsgAddExternalChainInfoForValidator{ChainInfos: infos, Metadata: FAMeta(v.Addr, v.Addr)})
	res := q06RegErr(err)
	c.op(fmt.Sprintf("reg %d %s", c.fx.valID[valIdx], q06Accts(accts)), res)
	c.r.Stat("reg." + res)
	return res
}

func (c *q06Case) opBatchPut(remote int) uint64 {
	c.content++
	nonce := uint64(1000 + c.content)
	tok := skytypes.ERC20Token{Contract: q06Token, Amount: sdkmath.NewInt(int64(c.content)), ChainReferenceId: q06Chain}
	tx, err := skytypes.NewInternalOutgoingTransferTx(uint64(c.content), c.fx.fa.User(0).Addr.String(), "0x00000000000000000000000000000000000000BB", tok, sdkmath.ZeroInt())
	if err != nil {
		c.fx.t.Fatal(err)
	}
	ra, err := skytypes.NewEthAddress(c.fx.addrStr[remote])
	if err != nil {
		c.fx.t.Fatal(err)
	}
	b, err := skytypes.NewInternalOutgingTxBatch(nonce, uint64(c.ctx.BlockTime().Add(10*time.Minute).Unix()), []*skytypes.InternalOutgoingTransferTx{tx},
		c.fx.token, uint64(c.ctx.BlockHeight()), q06Chain, c.fx.turnstone, c.fx.fa.ValAddr(0).String(), ra, 0)
	if err != nil {
		c.fx.t.Fatal(err)
	}
	if err := c.fx.fa.App().SkywayKeeper.StoreBatch(c.ctx, *b); err != nil {
		c.fx.t.Fatal(err)
	}
	c.nonces = append(c.nonces, nonce)
	c.op(fmt.Sprintf("bput %d %d %d", nonce, c.content, remote), c.showBatch(nonce))
	c.r.Stat("op.bput")
	return nonce
}

func q06ConfErr(err error) string {
	if err == nil {
		return "ok"
	}
	s := err.Error()
	switch {
	case strings.Contains(s, "couldn't find batch"):
		return "notfound"
	case strings.Contains(s, "no eth address set"):
		return "noaddr"
	case strings.Contains(s, "does not match delegate"):
		return "mismatch"
	case strings.Contains(s, "signature verification failed"):
		return "badsig"
	case strings.Contains(s, "by the same eth key"):
		return "dupkey"
	case strings.Contains(s, "duplicate signature"):
		return "dup"
	}
	return "error:" + s
}

func (c *q06Case) opBatchConfirm(nonce uint64, valIdx, addr, by int, ref string) string {
	return c.opBatchConfirmW(nonce, valIdx, addr, by, ref, "c")
}

func (c *q06Case) opBatchConfirmW(nonce uint64, valIdx, addr, by int, ref, wire string) string {
	return c.opBatchConfirmC(nonce, valIdx, addr, by, ref, wire, nil)
}

func (c *q06Case) opBatchGas(nonce uint64, g uint64) {
	res := "refused"
	if b := c.batch(nonce); b != nil {
		if err := c.fx.fa.App().SkywayKeeper.UpdateBatchGasEstimate(c.ctx, *b, g); err == nil {
			res = "ok"
		}
	}
	c.op(fmt.Sprintf("bgas %d %d", nonce, g), res+" "+c.showBatch(nonce))
	c.r.Stat("bgas." + res)
}

// ---------------------------------------------------------------------------
// case driver
// ---------------------------------------------------------------------------

// begin clears the queue, learns the id counter and synchronises the model.
func (fx *q06Fix) begin(ctx sdk.Context, r *Rec) *q06Case {
	c := &q06Case{fx: fx, r: r, ctx: ctx, hist: map[uint64][]string{}, bhist: map[uint64][]string{}, keyAtSign: map[string][]byte{},
		prevSigs: map[uint64]map[string]bool{}, prevBytes: map[uint64]string{}, mevOf: map[uint64]bool{},
		prevBConf: map[uint64]map[string]bool{}, prevBBytes: map[uint64]string{}}
	k := fx.fa.App().ConsensusKeeper
	for _, m := range c.msgs() {
		if err := k.DeleteJob(ctx, fx.queue, m.GetId()); err != nil {
			fx.t.Fatal(err)
		}
	}
	m, _ := c.action("o", 0, 0, false)
	id, err := k.PutMessageInQueue(ctx, fx.queue, m, nil)
	if err != nil {
		fx.t.Fatal(err)
	}
	if err := k.DeleteJob(ctx, fx.queue, id); err != nil {
		fx.t.Fatal(err)
	}
	c.op(fmt.Sprintf("reset %d", id), "ok")
	return c
}

// syncRegs tells the model which accounts are registered in valset's store.
func (c *q06Case) syncRegs() {
	for i := 0; i < c.fx.n; i++ {
		if as := c.regsOf(i); len(as) > 0 {
			c.op(fmt.Sprintf("reg %d %s", c.fx.valID[i], q06Accts(as)), "ok")
		}
	}
}

func (c *q06Case) anyID() uint64 {
	if len(c.ids) == 0 || c.r.Rng.Intn(25) == 0 {
		return uint64(900000 + c.r.Rng.Intn(3))
	}
	return c.ids[c.r.Rng.Intn(len(c.ids))]
}

func (c *q06Case) ownAccount(valIdx int) (addr, raw int, ok bool) {
	for _, a := range c.regsOf(valIdx) {
		if a.chain == 0 {
			return a.addr, a.raw, true
		}
	}
	return 0, 0, false
}

// siblingAccounts: what the validator has registered for chains other than the queue's.
func (c *q06Case) siblingAccounts(valIdx int) []q06Acct {
	var out []q06Acct
	for _, a := range c.regsOf(valIdx) {
		if a.chain != 0 {
			out = append(out, a)
		}
	}
	return out
}

// genSign draws one signing attempt: mostly valid, sometimes with a wrong key, stale or
// unrelated bytes, an address the validator has not registered, garbage, an otherwise valid
// signature in another byte form, or the address / key the validator registered for a sibling chain.
func (c *q06Case) genSign(id uint64) {
	r := c.r.Rng
	valIdx := r.Intn(c.fx.n)
	addr, raw, ok := c.ownAccount(valIdx)
	if !ok {
		addr, raw = 4*(valIdx+1), 4*(valIdx+1)
	}
	by, ref, wire := raw/4, "c", "c"
	switch r.Intn(19) {
	case 0:
		by = 1 + r.Intn(len(c.fx.ethKeys)) // signed with some other key
	case 1:
		by = 0 // garbage signature
	case 2:
		ref = "g"
	case 3, 4:
		if n := len(c.hist[id]); n > 1 {
			ref = fmt.Sprintf("o%d", r.Intn(n)) // bytes of an earlier version (or, by chance, the current one)
		}
	case 5:
		addr = 4*(1+r.Intn(len(c.fx.ethKeys))) + r.Intn(3) // an address the validator may not hold
	case 6, 7, 8: // right key, right bytes, another rendering of the signature
		wire = q06Wires[1+r.Intn(len(q06Wires)-1)]
	case 9, 10, 11: // a validator that holds an account on a sibling chain
		for k, off := 0, r.Intn(c.fx.n); k < c.fx.n; k++ {
			if vi := (off + k) % c.fx.n; len(c.siblingAccounts(vi)) > 0 {
				valIdx = vi
				if a, kx, ok := c.ownAccount(vi); ok {
					addr, by = a, kx/4
				} else {
					addr, by = 4*(vi+1), vi+1
				}
				break
			}
		}
		if sib := c.siblingAccounts(valIdx); len(sib) > 0 {
			a := sib[r.Intn(len(sib))]
			switch r.Intn(4) {
			case 0: // own address, signed with the sibling chain's key
				by = a.raw / 4
			case 1: // the sibling chain's address, signed with the own key
				addr = a.addr
			default: // the sibling chain's address and key
				addr, by = a.addr, a.raw/4
			}
			c.r.Stat("sign.sibling_claim")
		}
	}
	c.opSignW(id, valIdx, addr, by, ref, wire)
}

// genReg draws a re-registration: rotate to a fresh key, take over an address another
// validator released, or register a differently spelled alias of somebody's account.
func (c *q06Case) genReg() {
	r := c.r.Rng
	valIdx := r.Intn(c.fx.n)
	var accts []q06Acct
	e := 1 + r.Intn(len(c.fx.ethKeys))
	switch r.Intn(6) {
	case 0, 1: // plain rotation to an extra key
		e = c.fx.n + 1 + r.Intn(q06ExtraKeys)
		accts = []q06Acct{{chain: 0, addr: 4 * e, raw: 4 * e, mev: r.Intn(2) == 0}}
	case 2: // same account, other spelling of address and key bytes
		accts = []q06Acct{{chain: 0, addr: 4*e + 1 + r.Intn(2), raw: 4*e + 1 + r.Intn(3)}}
	case 3: // address of one key, key bytes of another
		accts = []q06Acct{{chain: 0, addr: 4 * e, raw: 4 * (1 + r.Intn(len(c.fx.ethKeys)))}}
	case 4: // two accounts on the chain
		e2 := c.fx.n + 1 + r.Intn(q06ExtraKeys)
		accts = []q06Acct{{chain: 1, addr: 4 * e2, raw: 4 * e2}, {chain: 0, addr: 4 * e, raw: 4 * e}, {chain: 0, addr: 4 * e2, raw: 4 * e2}}
	default: // back to the own key
		accts = []q06Acct{{chain: 0, addr: 4 * (valIdx + 1), raw: 4 * (valIdx + 1), mev: r.Intn(2) == 0}}
	}
	c.opReg(valIdx, accts)
}

// genRegSibling: the validator keeps (or not) its account on the queue's chain and registers an account
// with ANOTHER key on one or two sibling chains of the same chain type — a fresh key, or the very
// address and key another validator uses on the queue's chain (no collision: other chain).
func (c *q06Case) genRegSibling() {
	r := c.r.Rng
	valIdx := r.Intn(c.fx.n)
	own := q06Acct{chain: 0, addr: 4 * (valIdx + 1), raw: 4 * (valIdx + 1), mev: r.Intn(2) == 0}
	if a, k, ok := c.ownAccount(valIdx); ok && r.Intn(3) != 0 {
		own.addr, own.raw = a, k
	}
	e := c.fx.n + 1 + r.Intn(q06ExtraKeys)
	if r.Intn(3) == 0 {
		e = 1 + r.Intn(c.fx.n) // somebody's key on the queue's chain
	}
	sib := q06Acct{chain: 1 + r.Intn(2), addr: 4 * e, raw: 4 * e, mev: r.Intn(2) == 0}
	var accts []q06Acct
	switch r.Intn(5) {
	case 0:
		accts = []q06Acct{sib} // leaves the queue's chain
	case 1, 2:
		accts = []q06Acct{sib, own}
	case 3:
		accts = []q06Acct{own, sib}
	default:
		e2 := c.fx.n + 1 + r.Intn(q06ExtraKeys)
		accts = []q06Acct{sib, own, {chain: 3 - sib.chain, addr: 4*e2 + r.Intn(2), raw: 4 * e2}}
	}
	c.opReg(valIdx, accts)
	c.r.Stat("op.reg_sibling")
}

// genTakeover: validator X confirms a batch (or signs a message), rotates to a fresh key, validator Y
// registers the address X released — spelled canonically or not — and replays X's confirmation / signature.
func (c *q06Case) genTakeover() {
	r := c.r.Rng
	xi, yi := r.Intn(c.fx.n), r.Intn(c.fx.n)
	if xi == yi {
		return
	}
	addr, raw, ok := c.ownAccount(xi)
	if !ok || addr%4 != 0 || raw%4 != 0 {
		return
	}
	onBatch := r.Intn(2) == 0
	var nonce, id uint64
	if onBatch {
		nonce = c.opBatchPut(4 * (1 + r.Intn(c.fx.n)))
		c.opBatchConfirm(nonce, xi, addr, raw/4, "c")
	} else {
		id = c.opPut("s", 1, c.fx.valID[xi], addr, true)
		c.opSign(id, xi, addr, raw/4, "c")
	}
	c.track()
	e := c.fx.n + 1 + r.Intn(q06ExtraKeys)
	if c.opReg(xi, []q06Acct{{chain: 0, addr: 4 * e, raw: 4 * e}}) != "ok" {
		return
	}
	spell := []int{0, 0, 1, 2}[r.Intn(4)]
	if c.opReg(yi, []q06Acct{{chain: 0, addr: addr + spell, raw: raw + spell}}) != "ok" {
		return
	}
	c.track()
	if onBatch {
		c.opBatchConfirm(nonce, yi, addr+spell, raw/4, "c")
	} else {
		c.opSign(id, yi, addr+spell, raw/4, "c")
	}
	c.r.Stat("op.takeover")
}

func (c *q06Case) genPut() uint64 {
	r := c.r.Rng
	kind := []string{"s", "s", "s", "u", "u", "v", "o"}[r.Intn(7)]
	valIdx := r.Intn(c.fx.n)
	assignee := c.fx.valID[valIdx]
	remote := 4 * (valIdx + 1)
	switch r.Intn(12) {
	case 0:
		assignee = c.fx.outID[r.Intn(2)]
	case 1:
		remote = 4*(1+r.Intn(len(c.fx.ethKeys))) + r.Intn(3)
	}
	return c.opPut(kind, r.Intn(len(c.fx.senders)), assignee, remote, r.Intn(6) != 0)
}

func (c *q06Case) genEst(id uint64, quorum bool) {
	r := c.r.Rng
	base := []uint64{21000, 21000, 50000, 1, 1 << 40, 1<<64 - 1, 300000}[r.Intn(7)]
	if quorum {
		for _, i := range r.Perm(c.fx.n) {
			if r.Intn(5) != 0 {
				c.opEst(id, i, base+uint64(r.Intn(3)))
			}
		}
		return
	}
	v := base + uint64(r.Intn(3))
	if r.Intn(15) == 0 {
		v = 0
	}
	c.opEst(id, r.Intn(c.fx.n), v)
}

// runOps is the random walk of one case; `focus` shifts the op mix ("C06" or "C14").
func (c *q06Case) runOps(focus string, nOps int) {
	r := c.r.Rng
	for i := 0; i < 2+r.Intn(3); i++ {
		if r.Intn(3) == 0 {
			c.genPut()
		} else {
			c.opEnq([]string{"s", "s", "u"}[r.Intn(3)], r.Intn(len(c.fx.senders)), false, int64(r.Intn(7)))
		}
		c.track()
	}
	for i := 0; i < nOps; i++ {
		x := r.Intn(100)
		id := c.anyID()
		if focus == "C14" {
			switch {
			case x < 18:
				kind := []string{"s", "s", "u"}[r.Intn(3)]
				mev := kind == "s" && r.Intn(3) == 0
				ts := int64(r.Intn(12))
				if r.Intn(4) == 0 {
					ts = c.ctx.BlockTime().Unix() + int64(r.Intn(100))
				}
				c.opEnq(kind, r.Intn(len(c.fx.senders)), mev, ts)
			case x < 30:
				c.genPut()
			case x < 42:
				mev := r.Intn(3) == 0
				for ts := int64(0); ts < 6; ts++ { // the whole top-5 pool, in order
					c.opPick(mev, ts)
				}
			case x < 58:
				c.genEst(id, r.Intn(2) == 0)
			case x < 70:
				c.opEndBlock()
			case x < 78:
				c.opFlag([]string{"pub", "err"}[r.Intn(2)], id, r.Intn(c.fx.n))
			case x < 84:
				c.opRemove(id)
			case x < 92:
				c.genSign(id)
			default:
				c.opRelay()
			}
		} else {
			switch {
			case x < 34:
				c.genSign(id)
			case x < 46:
				c.genEst(id, r.Intn(2) == 0)
			case x < 58:
				c.opEndBlock()
			case x < 68:
				if r.Intn(3) == 0 {
					c.genRegSibling()
				} else {
					c.genReg()
				}
			case x < 74:
				c.genPut()
			case x < 78:
				c.opEnq("s", r.Intn(len(c.fx.senders)), false, int64(r.Intn(7)))
			case x < 81:
				c.opFlag([]string{"pub", "err"}[r.Intn(2)], id, r.Intn(c.fx.n))
			case x < 83:
				c.opEvid(id, r.Intn(c.fx.n), 1+r.Intn(3))
			case x < 85:
				c.opRemove(id)
			case x < 88:
				c.opBatchPut(4 * (1 + r.Intn(c.fx.n)))
			case x < 96:
				if len(c.nonces) == 0 {
					c.opBatchPut(4 * (1 + r.Intn(c.fx.n)))
				}
				n := c.nonces[r.Intn(len(c.nonces))]
				if r.Intn(30) == 0 {
					n = 5
				}
				valIdx := r.Intn(c.fx.n)
				addr, _, ok := c.ownAccount(valIdx)
				if !ok {
					addr = 4 * (valIdx + 1)
				}
				by, ref, wire := addr/4, "c", "c"
				switch r.Intn(13) {
				case 0:
					by = 1 + r.Intn(len(c.fx.ethKeys))
				case 1:
					ref = "g"
				case 2:
					if k := len(c.bhist[n]); k > 1 {
						ref = fmt.Sprintf("o%d", r.Intn(k))
					}
				case 3:
					addr = 4*(1+r.Intn(len(c.fx.ethKeys))) + r.Intn(3)
				case 4:
					addr = addr/4*4 + r.Intn(3) // other spelling of the own address
				case 5, 6: // another rendering of the signature
					wire = q06Wires[1+r.Intn(len(q06Wires)-1)]
				case 7: // the account of a sibling chain
					if sib := c.siblingAccounts(valIdx); len(sib) > 0 {
						a := sib[r.Intn(len(sib))]
						addr, by = a.addr, a.raw/4
					}
				}
				// the transaction that delivers the confirmation: the orchestrator's own, another
				// validator's, or an ordinary account's
				c.opBatchConfirmC(n, valIdx, addr, by, ref, wire, c.c06xGenCreator(valIdx))
			case x < 98:
				c.genTakeover()
			default:
				if len(c.nonces) > 0 {
					c.opBatchGas(c.nonces[r.Intn(len(c.nonces))], []uint64{21000, 300000, 0, 1 << 40}[r.Intn(4)])
				}
			}
		}
		c.track()
		if c.changed && r.Intn(3) == 0 {
			c.opRelay()
		}
	}
	c.opRelay()
}

// hookCase runs fn inside one PreBlock hook whose writes are dropped afterwards.
func (fx *q06Fix) hookCase(fn func(ctx sdk.Context)) {
	fx.blocks++
	// block cases advance the height by several blocks each: refresh well inside the 2000-block
	// keep-alive window whatever the mix of hook and block cases was
	if fx.blocks-fx.aliveAt >= 800 {
		fx.aliveAt = fx.blocks
		if b := fx.fa.KeepAliveAll(); !b.OK() {
			fx.t.Fatalf("keepalive: %v %s", b.Err, b.Panic)
		}
	}
	var pan interface{}
	b, err := fx.fa.WithDeliverCtx(func(ctx sdk.Context) error {
		defer func() {
			if p := recover(); p != nil {
				pan = p
				panic(p)
			}
		}()
		fn(ctx)
		return errQ06Discard
	})
	if pan != nil {
		fx.t.Fatalf("case panicked: %v (%v)", pan, err)
	}
	if !b.OK() {
		fx.t.Fatalf("block failed: %v %s", b.Err, b.Panic)
	}
}

func q06PickReal(fx *q06Fix, ctx sdk.Context, mev bool) (v, remote string, err error) {
	defer func() {
		if p := recover(); p != nil {
			err = fmt.Errorf("panic %v", p)
		}
	}()
	if mev {
		// the requirement type lives in an internal package: reach it through the exported SLC entry
		// point on a throw-away branch of the store
		cctx, _ := ctx.CacheContext()
		id, e := fx.fa.App().EvmKeeper.AddSmartContractExecutionToConsensus(cctx, q06Chain, fx.turnstone, &evmtypes.SubmitLogicCall{
			HexContractAddress: "0x00000000000000000000000000000000000000AA", Abi: []byte("[]"), Payload: []byte("probe"), Deadline: 1,
			ExecutionRequirements: evmtypes.SubmitLogicCall_ExecutionRequirements{EnforceMEVRelay: true}})
		if e != nil {
			return "", "", e
		}
		ms, e := fx.fa.App().ConsensusKeeper.GetMessagesFromQueue(cctx, fx.queue, 0)
		if e != nil {
			return "", "", e
		}
		for _, m := range ms {
			if m.GetId() == id {
				cm, _ := m.ConsensusMsg(fx.cdc)
				em := cm.(*evmtypes.Message)
				return em.Assignee, em.AssigneeRemoteAddress, nil
			}
		}
		return "", "", fmt.Errorf("probe message not found")
	}
	return fx.fa.App().EvmKeeper.PickValidatorForMessage(ctx, q06Chain, nil)
}

func q06RunHookCases(t *testing.T, r *Rec, fx *q06Fix, focus string, i int) {
	fx.hookCase(func(ctx sdk.Context) {
		env := r.q06GenEnv(fx, fx.n)
		if err := fx.writeEnv(ctx, env); err != nil {
			t.Fatal(err)
		}
		c := fx.begin(ctx, r)
		c.obs = fx.emitEnv(ctx, r)
		c.syncRegs()
		c.runOps(focus, 10+r.Rng.Intn(16))
		r.Case(fmt.Sprintf("%s|%d|%d", focus, i, len(c.log)), len(c.ids) > 0)
	})
}

// ---------------------------------------------------------------------------
// block mode: the same life-cycle through real transactions and real end-blockers
// ---------------------------------------------------------------------------

func (fx *q06Fix) commitHook(fn func(ctx sdk.Context) error) {
	fx.blocks++
	b, err := fx.fa.WithDeliverCtx(fn)
	if err != nil || !b.OK() {
		fx.t.Fatalf("hook block: %v %v %s", err, b.Err, b.Panic)
	}
}

// q06RunBlockCase: messages are enqueued by a committed hook, then every op is one signed
// transaction in its own block, followed by that block's real end-blockers.  The op's result word
// is compared with the model (`q` = quiet: result word only) and the queue after the end-blocker is
// compared through `endblock`.
func q06RunBlockCase(t *testing.T, r *Rec, fx *q06Fix, i int) {
	fa := fx.fa
	var c *q06Case
	fx.commitHook(func(ctx sdk.Context) error {
		c = fx.begin(ctx, r)
		c.obs = fx.emitEnv(ctx, r)
		c.syncRegs()
		for k := 0; k < 2+r.Rng.Intn(2); k++ {
			c.opEnq([]string{"s", "u"}[r.Rng.Intn(2)], r.Rng.Intn(len(fx.senders)), false, ctx.BlockTime().Unix())
			c.track()
		}
		return nil
	})
	tx := func(signer *FAAccount, msg sdk.Msg) error {
		fx.blocks++
		res := fa.DeliverTx(signer, msg)
		if res.Panicked || res.BlockErr != "" {
			t.Fatalf("tx block failed: %s %s", res.BlockErr, res.Log)
		}
		c.ctx = fa.CtxCached()
		if res.Code != 0 {
			return errors.New(res.Log)
		}
		return nil
	}
	endblock := func() {
		var items []string
		for _, m := range c.msgs() {
			items = append(items, c.show(m))
		}
		c.op("endblock", q06Join(items, " "))
		c.track()
	}
	c.ctx = fa.CtxCached()
	endblock() // the end-blocker of the enqueueing block
	if len(c.ids) == 0 {
		r.Case(fmt.Sprintf("block|%d", i), false)
		return
	}
	for step := 0; step < 6; step++ {
		id := c.ids[r.Rng.Intn(len(c.ids))]
		m := c.msg(id)
		if m == nil {
			continue
		}
		valIdx := r.Rng.Intn(fx.n)
		v := fa.Vals[valIdx]
		switch x := r.Rng.Intn(10); {
		case x < 5:
			by := valIdx + 1
			if r.Rng.Intn(6) == 0 {
				by = 1 + r.Rng.Intn(fx.n)
			}
			h := ethcrypto.Keccak256(append([]byte(evmkeeper.SignaturePrefix), c.bytesOf(m)...))
			sig, _ := ethcrypto.Sign(h, fx.ethKeys[by-1])
			res := q06SignErr(tx(v, &consensustypes.MsgAddMessagesSignatures{Metadata: FAMeta(v.Addr, v.Addr), SignedMessages: []*consensustypes.ConsensusMessageSignature{
				{Id: id, QueueTypeName: fx.queue, Signature: sig, SignedByAddress: fx.addrStr[4*(valIdx+1)]}}}))
			if res == "ok" {
				c.keyAtSign[fmt.Sprintf("%d/%s", id, v.ValAddr().String())] = fx.rawKey[4*(valIdx+1)]
			}
			c.op(fmt.Sprintf("q sign %d %d %d %d c", id, fx.valID[valIdx], 4*(valIdx+1), by), res)
			r.Stat("block.sign." + res)
			endblock()
		case x < 9:
			for _, j := range r.Rng.Perm(fx.n)[:1+r.Rng.Intn(fx.n)] {
				w := fa.Vals[j]
				g := uint64(21000 + r.Rng.Intn(3))
				err := tx(w, &consensustypes.MsgAddMessageGasEstimates{Metadata: FAMeta(w.Addr, w.Addr), Estimates: []*consensustypes.MsgAddMessageGasEstimates_GasEstimate{
					{MsgId: id, QueueTypeName: fx.queue, Value: g, EstimatedByAddress: w.EthAddr.Hex()}}})
				res := "ok"
				if err != nil {
					res = "rejected"
				}
				c.op(fmt.Sprintf("q est %d %d %d", id, fx.valID[j], g), res)
				r.Stat("block.est." + res)
				endblock()
			}
		default:
			err := tx(v, &consensustypes.MsgSetPublicAccessData{MessageID: id, QueueTypeName: fx.queue, Data: []byte{1}, ValsetID: 1, Metadata: FAMeta(v.Addr, v.Addr)})
			res := "ok"
			if err != nil {
				res = "notfound"
			}
			c.op(fmt.Sprintf("q pub %d", id), res)
			r.Stat("block.pub")
			endblock()
		}
		c.opRelay()
	}
	r.Case(fmt.Sprintf("block|%d", i), true)
}

// ---------------------------------------------------------------------------
// tests
// ---------------------------------------------------------------------------

func q06RunTest(t *testing.T, prop string) {
	r := NewRec(t, prop)
	defer r.Close()
	fx := q06NewFix(t, 6)
	for i := 0; i < r.N; i++ {
		if i%q06BlockEvery == q06BlockEvery-1 {
			q06RunBlockCase(t, r, fx, i)
			r.Stat("case.block")
		} else {
			q06RunHookCases(t, r, fx, prop, i)
			r.Stat("case.hook")
		}
	}
	if prop == "C06" {
		q06Directed(t, r, fx)
		c06xCases(t, r, fx)
	} else {
		q14Directed(t, r, fx)
	}
	q14ValsetEnqueue(t, r, fx)
	if prop == "C14" {
		c14rCases(t, r, fx, "C14") // reassignment, retry, snapshot changes between assignments (c14_reassign_test.go); after everything else
	}
	if prop == "C06" {
		c06mCases(t, r, fx) // several queues, several signatures per request (c06_multichain_test.go); last: earlier random streams unchanged
	}
}

func TestC06(t *testing.T) { q06RunTest(t, "C06") }
func TestC14(t *testing.T) { q06RunTest(t, "C14") }

var _ = libcons.ErrConsensusNotAchieved
