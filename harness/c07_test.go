//go:build verif

package harness

import (
	"bytes"
	"crypto/ecdsa"
	"encoding/hex"
	"encoding/json"
	"errors"
	"fmt"
	"math/big"
	"sort"
	"strings"
	"testing"

	sdkmath "cosmossdk.io/math"
	"cosmossdk.io/store/prefix"
	codectypes "github.com/cosmos/cosmos-sdk/codec/types"
	sdk "github.com/cosmos/cosmos-sdk/types"
	"github.com/ethereum/go-ethereum/accounts/abi"
	"github.com/ethereum/go-ethereum/common"
	ethtypes "github.com/ethereum/go-ethereum/core/types"
	ethcrypto "github.com/ethereum/go-ethereum/crypto"
	"github.com/ethereum/go-ethereum/rlp"
	"github.com/palomachain/paloma/v2/x/consensus/keeper/consensus"
	consensustypes "github.com/palomachain/paloma/v2/x/consensus/types"
	evmtypes "github.com/palomachain/paloma/v2/x/evm/types"
)

// C07 — a remote transaction proves delivery only if its call data is the compass encoding of
// exactly that message and its receipt reports success; a transaction is used once; effects are
// applied at most once.
// Model: lean/PalomaModel/Model/Attest.lean, driver lean/Driver/C07.lean.
//
// Boundary: keeper layer on the full app.  Messages are created through the real keeper entry
// points (AddSmartContractExecutionToConsensus, CreateUserSmartContractDeployment,
// SaveNewSmartContract+SetAsCompassContract, the handover scheduled by a compass upload,
// PutMessageInQueue for UpdateValset), gas estimates are elected by
// AddMessageGasEstimates+CheckAndProcessEstimatedMessages, signatures are real secp256k1
// signatures added with AddMessageSignature, evidence is added with AddMessageEvidence and the
// attestation runs through ConsensusKeeper.CheckAndProcessAttestedMessages (the function the
// consensus end blocker calls), which reaches evm's attestRouter.  One dedicated scenario
// (c07EarlyEvidenceBlock, also used by the C09 check) goes through real MsgAddEvidence
// transactions and the real end blocker.
//
// The remote transaction itself is drawn from every class go-ethereum can decode: legacy
// (EIP-155), access-list, dynamic-fee and blob (EIP-4844) transactions, the latter in its canonical
// serialization or in the network form with a blob sidecar (several sidecars) - the same remote
// transaction (same hash) then has several valid serializations, validators may report different
// ones, and a used transaction is re-submitted in the same or in another one.  Compass uploads
// come with the regular constructor input, with other constructor arguments, or without any; the
// reported deployment call data is the expected string, a proper prefix of it, an extension of it,
// the bytecode followed by other arguments, or an edit.  c07Directed walks through these boundary
// classes deterministically; the random cases mix them with everything else.
//
// WHO sent the remote transaction decides nothing, and the relayer the call data must name is the one
// the message is assigned to WHEN THE ATTESTATION RUNS.  Transactions are therefore sent by the
// assignee, by another validator, by the previous assignee of a re-assigned message, by an outsider,
// or carry no signature at all (c07SenderClasses); a wrong account argument names an account of the
// history - the transaction's own sender, another validator, the previous assignee, the zero
// address, the destination (rename / c07Names) - not just a flipped bit; and messages are re-assigned
// (Queue.ReassignValidator, what ReassignOrphanedMessages calls) between creation and attestation,
// with the stale transaction of the previous assignee presented afterwards.  The evidence token
// carries the recovered sender; the model's router does not read it.  Monitor
// accepted_calldata_names_assigned_relayer decodes accepted call data and compares the relayer word
// with the stored message's assignee.
//
// The expected call data is BUILT, at attestation time, with the ABI of the compass saved LAST
// (GetLastCompassContract) - not with the one active on the chain the message was relayed on - and,
// for a compass upload, with the message's own ABI and constructor input.  Histories therefore
// include governance saving a newer compass while a message is in flight (saveCompass) whose ABI
// lacks the delivery method, declares it with another parameter list, does not parse, or only
// differs in ways that do not change the encoding (c07AbiVariants), and upload messages whose ABI
// or constructor input is unusable.  While the encoding cannot be built there is nothing a
// transaction's call data could be equal to: nothing may be accepted.  The op stream tells the model
// what the latest compass ABI declares (op `compass`, from the keeper state) and whether an upload's
// constructor input is usable (last token of its `msg` line).

const c07Chain = "c07"

type c07Env struct {
	t       *testing.T
	r       *Rec
	fa      *FullApp
	queue   string
	abi     abi.ABI
	abiJSON string
	chainID *big.Int
	key     *ecdsa.PrivateKey // the relayer's EOA
	nonce   uint64
	known   map[uint64]bool   // message ids registered with the model
	usedTx  map[string]uint64 // tx hash -> message id it produced effects for
	fxSeen  map[uint64]bool   // message ids that produced success effects
	lines   []string
	silent  bool     // do not write op lines (the env is driven from another property's test)
	panics  []string // op histories of attestations that panicked
	caps    string   // what the model was last told about the latest compass ABI (op `compass`)
	capsOf  map[string]c07Caps
	prev    map[uint64]int // message id -> validator the message was assigned to before it was re-assigned
	// receipt readings already reported by checkReceiptReading (one hit per shape)
	receiptHits map[string]bool
	// governance over the set of supported chains (c07_gov_test.go): is the second chain supported
	// right now, and the transactions accepted so far in this env, in order of acceptance
	otherUp    bool
	acceptedTx []common.Hash
}

func (e *c07Env) op(line, out string) {
	e.lines = append(e.lines, line)
	if !e.silent {
		e.r.Op(line, out)
	}
}

// c07ABIOverride rewrites the compass ABI governance activates the chain with (nil = the repo's sample ABI).
var c07ABIOverride func(string) string

func newC07Env(t *testing.T, r *Rec, seed int64) *c07Env { return newC07EnvOpt(t, r, seed, false) }

// newC07EnvOpt: silent = write no op lines at all (the env is driven from another property's test).
func newC07EnvOpt(t *testing.T, r *Rec, seed int64, silent bool) *c07Env {
	abiJSON := c05CompassABI(t)
	if c07ABIOverride != nil {
		abiJSON = c07ABIOverride(abiJSON)
	}
	a, err := abi.JSON(strings.NewReader(abiJSON))
	if err != nil {
		t.Fatal(err)
	}
	fa := NewFullApp(t, FullAppOpts{NumValidators: 4, NumUsers: 1, Seed: seed})
	if b, err := fa.ActivateEVMChain(FAEvmChain{RefID: c07Chain, ChainID: 4242, ABI: abiJSON, Bytecode: []byte{0x60, 0x01}}); err != nil || !b.OK() {
		t.Fatalf("activate: %v %v", err, b.Err)
	}
	if _, err := fa.WithDeliverCtx(func(ctx sdk.Context) error {
		if err := fa.App().TreasuryKeeper.SetCommunityFundFee(ctx, "0.01"); err != nil {
			return err
		}
		if err := fa.App().TreasuryKeeper.SetSecurityFee(ctx, "0.01"); err != nil {
			return err
		}
		return fa.App().EvmKeeper.SetSmartContractDeployer(ctx, c07Chain, "0x00000000000000000000000000000000000000D1")
	}); err != nil {
		t.Fatal(err)
	}
	key, _ := ethcrypto.ToECDSA(ethcrypto.Keccak256([]byte(fmt.Sprintf("c07-relayer-%d", seed))))
	e := &c07Env{
		t: t, r: r, fa: fa, abi: a, abiJSON: abiJSON, chainID: big.NewInt(4242), key: key,
		queue: consensustypes.Queue(evmtypes.ConsensusTurnstoneMessage, "evm", c07Chain),
		known: map[uint64]bool{}, usedTx: map[string]uint64{}, fxSeen: map[uint64]bool{}, silent: silent,
		caps: c07Caps{true, [4]bool{true, true, true, true}}.String(), capsOf: map[string]c07Caps{},
		prev: map[uint64]int{},
	}
	for i, m := range c07Methods {
		if got := a.Methods[m].Sig; got != c07MethodSigs[i] {
			t.Fatalf("compass ABI of the repository declares %s, the model encodes %s", got, c07MethodSigs[i])
		}
	}
	e.op("reset", "ok")
	return e
}

// ---------- reading keeper state ----------

// c07Methods: the delivery methods of the compass, in the order of the `compass` op; c07MethodSigs:
// the signatures the model's encoder implements (the #guard lines of Model/Attest.lean).
var c07Methods = []string{"update_valset", "submit_logic_call", "deploy_contract", "compass_update_batch"}

const c07ConsensusTy = "((address[],uint256[],uint256),(uint256,uint256,uint256)[])"

var c07MethodSigs = []string{
	"update_valset(" + c07ConsensusTy + ",(address[],uint256[],uint256),address,uint256)",
	"submit_logic_call(" + c07ConsensusTy + ",(address,bytes),(uint256,uint256,uint256,bytes32),uint256,uint256,address)",
	"deploy_contract(" + c07ConsensusTy + ",address,bytes,(uint256,uint256,uint256,bytes32),uint256,uint256,address)",
	"compass_update_batch(" + c07ConsensusTy + ",(address,bytes)[],uint256,uint256,address)",
}

func c07MethodOf(kind string) int {
	for i, k := range []string{"uv", "slc", "usc", "ch"} {
		if k == kind {
			return i
		}
	}
	return -1
}

// c07Caps is what an ABI text offers the verifier: does it parse, and which delivery methods does it
// declare with exactly the parameter list of the repository's compass.
type c07Caps struct {
	parses bool
	method [4]bool
}

func (c c07Caps) String() string {
	out := []string{c07B(c.parses)}
	for _, m := range c.method {
		out = append(out, c07B(m))
	}
	return strings.Join(out, " ")
}

func (e *c07Env) capsOfABI(abiJSON string) c07Caps {
	if c, ok := e.capsOf[abiJSON]; ok {
		return c
	}
	var c c07Caps
	if parsed, err := abi.JSON(strings.NewReader(abiJSON)); err == nil {
		c.parses = true
		for i, m := range c07Methods {
			decl, ok := parsed.Methods[m]
			c.method[i] = ok && decl.Sig == c07MethodSigs[i]
		}
	}
	e.capsOf[abiJSON] = c
	return c
}

type c07Obs struct {
	latest   string // ABI text of the compass saved last (GetLastCompassContract)
	caps     c07Caps
	active   uint64
	deps     map[uint64]string // contract id -> i|w
	snapCnt  map[uint64]int    // snapshot id -> number of times the chain is listed
	userAct  map[uint64]bool   // user contract id -> ACTIVE
	handover map[uint64]bool   // compass id -> a CompassHandover message is queued
	queue    []uint64
	cur      uint64
	snaps    []uint64
	userDeps []uint64
}

func (e *c07Env) observe(ctx sdk.Context) c07Obs {
	a := e.fa.App()
	o := c07Obs{deps: map[uint64]string{}, snapCnt: map[uint64]int{}, userAct: map[uint64]bool{}, handover: map[uint64]bool{}}
	ci, err := a.EvmKeeper.GetChainInfo(ctx, c07Chain)
	if err != nil {
		e.t.Fatal(err)
	}
	o.active = ci.ActiveSmartContractID
	last, err := a.EvmKeeper.GetLastCompassContract(ctx)
	if err != nil {
		e.t.Fatal(err)
	}
	o.latest = last.GetAbiJSON()
	o.caps = e.capsOfABI(o.latest)
	ds, err := a.EvmKeeper.AllSmartContractsDeployments(ctx)
	if err != nil {
		e.t.Fatal(err)
	}
	for _, d := range ds {
		if d.ChainReferenceID != c07Chain {
			continue
		}
		switch d.Status {
		case evmtypes.SmartContractDeployment_IN_FLIGHT:
			o.deps[d.SmartContractID] = "i"
		case evmtypes.SmartContractDeployment_WAITING_FOR_ERC20_OWNERSHIP_TRANSFER:
			o.deps[d.SmartContractID] = "w"
		default:
			o.deps[d.SmartContractID] = "?"
		}
	}
	cur, err := a.ValsetKeeper.GetCurrentSnapshot(ctx)
	if err != nil || cur == nil {
		e.t.Fatalf("no current snapshot: %v", err)
	}
	o.cur = cur.Id
	for id := uint64(1); id <= cur.Id; id++ {
		s, err := a.ValsetKeeper.FindSnapshotByID(ctx, id)
		if err != nil {
			continue
		}
		o.snaps = append(o.snaps, id)
		for _, c := range s.Chains {
			if c == c07Chain {
				o.snapCnt[id]++
			}
		}
	}
	for _, v := range e.fa.Vals {
		cs, err := a.EvmKeeper.UserSmartContracts(ctx, v.ValAddr().String())
		if err != nil {
			e.t.Fatal(err)
		}
		for _, c := range cs {
			for _, d := range c.Deployments {
				if d.ChainReferenceId == c07Chain {
					o.userDeps = append(o.userDeps, c.Id)
					if d.Status == evmtypes.UserSmartContract_Deployment_ACTIVE {
						o.userAct[c.Id] = true
					}
				}
			}
		}
	}
	msgs, err := a.ConsensusKeeper.GetMessagesFromQueue(ctx, e.queue, 0)
	if err != nil {
		e.t.Fatal(err)
	}
	for _, m := range msgs {
		o.queue = append(o.queue, m.GetId())
		cm, err := m.ConsensusMsg(a.AppCodec())
		if err != nil {
			e.t.Fatal(err)
		}
		if h := cm.(*evmtypes.Message).GetCompassHandover(); h != nil {
			o.handover[h.Id] = true
		}
	}
	sort.Slice(o.queue, func(i, j int) bool { return o.queue[i] < o.queue[j] })
	return o
}

func (o c07Obs) depsStr() string {
	var s []string
	for id, st := range o.deps {
		s = append(s, fmt.Sprintf("%d:%s", id, st))
	}
	sort.Strings(s)
	if len(s) == 0 {
		return "-"
	}
	return strings.Join(s, ",")
}

func (e *c07Env) isProcessed(ctx sdk.Context, h common.Hash) bool {
	st := prefix.NewStore(ctx.KVStore(e.fa.kvKeys()[evmtypes.StoreKey]), []byte("tx-processed"))
	return st.Has(h.Bytes())
}

// liveStr lists the snapshot ids whose Chains field names the chain, sorted, one entry per listing
// (SetSnapshotOnChain appends and never de-duplicates).
func (o c07Obs) liveStr() string {
	var xs []uint64
	for id, n := range o.snapCnt {
		for k := 0; k < n; k++ {
			xs = append(xs, id)
		}
	}
	return u64List(sortedU64(xs))
}

// uactStr lists the user contracts whose deployment on the chain has status ACTIVE, sorted.
func (o c07Obs) uactStr() string {
	var xs []uint64
	for id, a := range o.userAct {
		if a {
			xs = append(xs, id)
		}
	}
	return u64List(sortedU64(xs))
}

// chainLine emits the model's view of the keeper state the action attesters read and write.
func (e *c07Env) chainLine(o c07Obs) {
	e.op(fmt.Sprintf("chain %s %d %s %s %d %s 1 %s", o.depsStr(), o.active, o.liveStr(), u64List(o.snaps), o.cur, u64List(sortedU64(o.userDeps)), o.uactStr()), "ok")
	if c := o.caps.String(); c != e.caps {
		e.op("compass "+c, "ok")
		e.caps = c
	}
}

// c07UpOk: can the deployment call data of an upload message be built at all - its own ABI parses and
// its constructor input, when it has one, unpacks against that ABI's constructor (and packs again)?
func c07UpOk(t *testing.T, u *evmtypes.UploadSmartContract) bool {
	parsed, err := abi.JSON(strings.NewReader(u.GetAbi()))
	if err != nil {
		return false
	}
	if len(u.GetConstructorInput()) == 0 {
		return true
	}
	vals, err := parsed.Constructor.Inputs.Unpack(u.GetConstructorInput())
	if err != nil {
		return false
	}
	again, err := parsed.Pack("", vals...)
	if err != nil {
		return false
	}
	if !bytes.Equal(again, u.GetConstructorInput()) {
		// the model takes bytecode ++ constructor input as the expected string
		t.Fatalf("generator: constructor input that is not its own canonical packing")
	}
	return true
}

func c07B(b bool) string {
	if b {
		return "1"
	}
	return "0"
}

// ---------- registering a stored message with the model ----------

type c07Stored struct {
	q      consensustypes.QueuedSignedMessageI
	msg    *evmtypes.Message
	valset *evmtypes.Valset // the valset attestTransactionIntegrity will select
}

func (e *c07Env) load(ctx sdk.Context, id uint64) *c07Stored {
	a := e.fa.App()
	msgs, err := a.ConsensusKeeper.GetMessagesFromQueue(ctx, e.queue, 0)
	if err != nil {
		e.t.Fatal(err)
	}
	for _, m := range msgs {
		if m.GetId() != id {
			continue
		}
		cm, err := m.ConsensusMsg(a.AppCodec())
		if err != nil {
			e.t.Fatal(err)
		}
		s := &c07Stored{q: m, msg: cm.(*evmtypes.Message), valset: &evmtypes.Valset{}}
		if pad := m.GetPublicAccessData(); pad != nil && pad.GetValsetID() != 0 {
			// what pigeon asks the chain for when it builds the consensus argument
			resp, err := a.EvmKeeper.GetValsetByID(ctx, &evmtypes.QueryGetValsetByIDRequest{ValsetID: pad.GetValsetID(), ChainReferenceID: c07Chain})
			if err == nil {
				s.valset = resp.Valset
			}
		}
		return s
	}
	return nil
}

func c07Strs(ss []string) string { return c05StrList(ss) }

func c07Sigs(sd []*consensustypes.SignData) string {
	if len(sd) == 0 {
		return "-"
	}
	out := make([]string, len(sd))
	for i, s := range sd {
		out[i] = fmt.Sprintf("%s:%d:%s:%s", c05X([]byte(s.ExternalAccountAddress)), int(s.Signature[64])+27,
			new(big.Int).SetBytes(s.Signature[:32]), new(big.Int).SetBytes(s.Signature[32:64]))
	}
	return strings.Join(out, ",")
}

// register (re-)sends the stored message to the model.
func (e *c07Env) register(ctx sdk.Context, id uint64) *c07Stored {
	s := e.load(ctx, id)
	if s == nil {
		e.t.Fatalf("message %d not in queue", id)
	}
	head := fmt.Sprintf("msg %s %s %d %s", c07Strs(s.valset.Validators), u64List(s.valset.Powers), s.valset.ValsetID, c07Sigs(s.q.GetSignData()))
	m := s.msg
	cm := &c05Msg{turnstone: m.TurnstoneID, relayer: m.AssigneeRemoteAddress, id: id, est: s.q.GetGasEstimate()}
	cid := "-"
	var line string
	switch a := m.Action.(type) {
	case *evmtypes.Message_UpdateValset:
		cm.kind = "uv"
		cm.validators, cm.powers, cm.valsetID = a.UpdateValset.Valset.Validators, a.UpdateValset.Valset.Powers, a.UpdateValset.Valset.ValsetID
	case *evmtypes.Message_SubmitLogicCall:
		cm.kind = "slc"
		cm.contract, cm.payload, cm.fees, cm.sender, cm.deadline = a.SubmitLogicCall.HexContractAddress, a.SubmitLogicCall.Payload, a.SubmitLogicCall.Fees, a.SubmitLogicCall.SenderAddress, a.SubmitLogicCall.Deadline
	case *evmtypes.Message_UploadUserSmartContract:
		cm.kind = "usc"
		u := a.UploadUserSmartContract
		cm.contract, cm.payload, cm.fees, cm.sender, cm.deadline = u.DeployerAddress, u.Bytecode, u.Fees, u.SenderAddress, u.Deadline
		cid = fmt.Sprint(u.Id)
	case *evmtypes.Message_CompassHandover:
		cm.kind = "ch"
		cm.calls, cm.deadline = a.CompassHandover.ForwardCallArgs, a.CompassHandover.Deadline
		cid = fmt.Sprint(a.CompassHandover.Id)
	case *evmtypes.Message_UploadSmartContract:
		u := a.UploadSmartContract
		line = fmt.Sprintf("%s %d up %s %s %d %d %s %s %s", head, u.Id, c05X([]byte(m.TurnstoneID)), c05X([]byte(m.AssigneeRemoteAddress)), id, s.q.GetGasEstimate(), c05X(u.Bytecode), c05X(u.ConstructorInput), c07B(c07UpOk(e.t, u)))
	}
	if line == "" {
		line = fmt.Sprintf("%s %s %s", head, cid, strings.TrimPrefix(cm.line(), "sb "))
	}
	e.op(line, "ok")
	e.known[id] = true
	return s
}

// registerAll registers every message of the queue the model does not know yet.
func (e *c07Env) registerAll(ctx sdk.Context) {
	o := e.observe(ctx)
	for _, id := range o.queue {
		if !e.known[id] {
			e.register(ctx, id)
		}
	}
}

// ---------- driving a message towards attestation ----------

func (e *c07Env) electEstimate(ctx sdk.Context, id, value uint64) error {
	k := e.fa.App().ConsensusKeeper
	for i := 0; i < 3; i++ {
		if err := k.AddMessageGasEstimates(ctx, e.fa.ValAddr(i), []*consensustypes.MsgAddMessageGasEstimates_GasEstimate{
			{MsgId: id, QueueTypeName: e.queue, Value: value, EstimatedByAddress: e.fa.Vals[i].EthAddr.Hex()},
		}); err != nil {
			return err
		}
	}
	return k.CheckAndProcessEstimatedMessages(ctx)
}

func (e *c07Env) sign(ctx sdk.Context, id uint64, vals []int) error {
	k := e.fa.App().ConsensusKeeper
	for _, i := range vals {
		s := e.load(ctx, id)
		bz, err := s.q.GetBytesToSign(e.fa.App().AppCodec())
		if err != nil {
			return err
		}
		if err := k.AddMessageSignature(ctx, e.fa.ValAddr(i), []*consensustypes.ConsensusMessageSignature{
			{Id: id, QueueTypeName: e.queue, Signature: e.fa.EthSign(i, bz), SignedByAddress: e.fa.Vals[i].EthAddr.Hex()},
		}); err != nil {
			return err
		}
	}
	return nil
}

func (e *c07Env) publicAccess(ctx sdk.Context, id, valsetID uint64) error {
	return e.fa.App().ConsensusKeeper.SetMessagePublicAccessData(ctx, e.fa.ValAddr(0), &consensustypes.MsgSetPublicAccessData{
		MessageID: id, QueueTypeName: e.queue, Data: []byte{0xab}, ValsetID: valsetID,
	})
}

// c07Args is what a relayer packs for a stored message; mut edits are applied before packing.
type c07Args struct {
	method string
	args   []any
}

func c07FeeArgs(f *evmtypes.Fees, sender []byte) evmtypes.FeeArgs {
	if f == nil {
		f = &evmtypes.Fees{RelayerFee: 100_000, CommunityFee: 100_000, SecurityFee: 100_000}
	}
	var p [32]byte
	copy(p[32-len(sender):], sender)
	return evmtypes.FeeArgs{
		RelayerFee: bu(f.RelayerFee), CommunityFee: bu(f.CommunityFee), SecurityFee: bu(f.SecurityFee), FeePayerPalomaAddress: p,
	}
}

func (e *c07Env) relayerArgs(s *c07Stored, prefixLen int) c07Args {
	m := s.msg
	cons := evmtypes.BuildCompassConsensus(s.valset, s.q.GetSignData()[0:prefixLen])
	id := new(big.Int).SetInt64(int64(s.q.GetId()))
	rel := common.HexToAddress(m.AssigneeRemoteAddress)
	switch a := m.Action.(type) {
	case *evmtypes.Message_UpdateValset:
		return c07Args{"update_valset", []any{cons, evmtypes.TransformValsetToCompassValset(a.UpdateValset.Valset), rel, bu(s.q.GetGasEstimate())}}
	case *evmtypes.Message_SubmitLogicCall:
		l := a.SubmitLogicCall
		return c07Args{"submit_logic_call", []any{cons,
			evmtypes.CompassLogicCallArgs{LogicContractAddress: common.HexToAddress(l.HexContractAddress), Payload: l.Payload},
			c07FeeArgs(l.Fees, l.SenderAddress), id, big.NewInt(l.Deadline), rel}}
	case *evmtypes.Message_UploadUserSmartContract:
		u := a.UploadUserSmartContract
		return c07Args{"deploy_contract", []any{cons, common.HexToAddress(u.DeployerAddress), u.Bytecode,
			c07FeeArgs(u.Fees, u.SenderAddress), id, big.NewInt(u.Deadline), rel}}
	case *evmtypes.Message_CompassHandover:
		h := a.CompassHandover
		var calls []evmtypes.CompassLogicCallArgs
		for _, c := range h.ForwardCallArgs {
			calls = append(calls, evmtypes.CompassLogicCallArgs{LogicContractAddress: common.HexToAddress(c.HexContractAddress), Payload: c.Payload})
		}
		return c07Args{"compass_update_batch", []any{cons, calls, big.NewInt(h.Deadline), bu(s.q.GetGasEstimate()), rel}}
	}
	panic("relayerArgs: kind")
}

func c07Bump(x *big.Int) *big.Int { return new(big.Int).Add(x, big.NewInt(1)) }

func c07OtherAddr(a common.Address) common.Address {
	a[19] ^= 0x01
	return a
}

// corrupt edits ONE argument so that its value changes; returns the name of the edited field.
func (e *c07Env) corrupt(ca *c07Args) string {
	r := e.r.Rng
	for {
		i := r.Intn(len(ca.args))
		switch v := ca.args[i].(type) {
		case evmtypes.CompassConsensus:
			switch k := r.Intn(4); {
			case k == 0:
				v.Valset.ValsetId = c07Bump(v.Valset.ValsetId)
				ca.args[i] = v
				return "consensus.valsetid"
			case k == 1 && len(v.Valset.Powers) > 0:
				ps := append([]*big.Int(nil), v.Valset.Powers...)
				j := r.Intn(len(ps))
				ps[j] = c07Bump(ps[j])
				v.Valset.Powers = ps
				ca.args[i] = v
				return "consensus.power"
			case k == 2 && len(v.Signatures) > 0:
				ss := append([]evmtypes.Signature(nil), v.Signatures...)
				j := r.Intn(len(ss))
				ss[j] = evmtypes.Signature{V: ss[j].V, R: c07Bump(ss[j].R), S: ss[j].S}
				v.Signatures = ss
				ca.args[i] = v
				return "consensus.signature"
			case k == 3 && len(v.Valset.Validators) > 0:
				vs := append([]common.Address(nil), v.Valset.Validators...)
				j := r.Intn(len(vs))
				vs[j] = c07OtherAddr(vs[j])
				v.Valset.Validators = vs
				ca.args[i] = v
				return "consensus.validator"
			}
		case evmtypes.CompassValset:
			switch k := r.Intn(3); {
			case k == 0:
				v.ValsetId = c07Bump(v.ValsetId)
				ca.args[i] = v
				return "valset.id"
			case k == 1 && len(v.Powers) > 0:
				ps := append([]*big.Int(nil), v.Powers...)
				j := r.Intn(len(ps))
				ps[j] = c07Bump(ps[j])
				v.Powers = ps
				ca.args[i] = v
				return "valset.power"
			case k == 2 && len(v.Validators) > 0:
				vs := append([]common.Address(nil), v.Validators...)
				j := r.Intn(len(vs))
				vs[j] = c07OtherAddr(vs[j])
				v.Validators = vs
				ca.args[i] = v
				return "valset.validator"
			}
		case evmtypes.CompassLogicCallArgs:
			if r.Intn(2) == 0 {
				v.LogicContractAddress = c07OtherAddr(v.LogicContractAddress)
				ca.args[i] = v
				return "target"
			}
			v.Payload = c05FreshBytes(e.r, v.Payload)
			ca.args[i] = v
			return "payload"
		case []evmtypes.CompassLogicCallArgs:
			if len(v) == 0 {
				continue
			}
			vs := append([]evmtypes.CompassLogicCallArgs(nil), v...)
			j := r.Intn(len(vs))
			if r.Intn(2) == 0 {
				vs[j].LogicContractAddress = c07OtherAddr(vs[j].LogicContractAddress)
			} else {
				vs[j].Payload = c05FreshBytes(e.r, vs[j].Payload)
			}
			ca.args[i] = vs
			return "call"
		case evmtypes.FeeArgs:
			switch r.Intn(4) {
			case 0:
				v.RelayerFee = c07Bump(v.RelayerFee)
				ca.args[i] = v
				return "fee.relayer"
			case 1:
				v.CommunityFee = c07Bump(v.CommunityFee)
				ca.args[i] = v
				return "fee.community"
			case 2:
				v.SecurityFee = c07Bump(v.SecurityFee)
				ca.args[i] = v
				return "fee.security"
			default:
				v.FeePayerPalomaAddress[31] ^= 1
				ca.args[i] = v
				return "fee.payer"
			}
		case *big.Int:
			ca.args[i] = c07Bump(v)
			return fmt.Sprintf("%s.word%d", ca.method, i)
		case common.Address:
			ca.args[i] = c07OtherAddr(v)
			return fmt.Sprintf("%s.addr%d", ca.method, i)
		case []byte:
			ca.args[i] = c05FreshBytes(e.r, v)
			return "bytecode"
		}
	}
}

type c07Tx struct {
	tx      *ethtypes.Transaction // the remote transaction (decoded from its canonical serialization)
	class   string                // legacy | al | dyn | blob
	enc     int                   // the serialization its reporters use unless they disagree: 0 canonical, k = network form with sidecar k
	body    *c07BlobBody          // class blob: the signed fields, to serialize the network form
	exact   bool                  // data is the encoding of the message with a non-empty signature prefix
	foreign bool                  // sent to an address that is not the compass contract of the chain
	what    string
	status  int // receipt the relayer's transaction really got: 1 ok, 0 failed, -1 no receipt
	root    int // > 0: that receipt carries NO status code but the state root c07StateRoot(root) in its place (then status is 0)
	log     bool
	shape   int             // what else the receipt's log list looks like (c07LogShapes); carried in the evidence variant as 10*shape
	from    string          // who sent it: assignee | validator | previous | outsider | unsigned (c07SenderClasses)
	sender  *common.Address // the sender recovered from its signature; nil: not recoverable (no signature)
}

// c07LogShapes: receipts are relayer/validator-supplied bytes. 0 = an ordinary foreign log before the
// ContractDeployed event; 1 = an anonymous log (LOG0, no topics) FIRST: the attester refuses the
// receipt before it reaches the event; 2 = an anonymous log LAST (never looked at); 3 = the event's
// topic with empty data (does not unpack); 4 = a four-topic log first.
const c07LogShapes = 5

// effLog: does the receipt carry a ContractDeployed event the attester can reach and decode?
func (v c07Ev) effLog() bool {
	s := v.variant / 10
	return v.log && s != 1 && s != 3
}

// c07Ev is ONE validator's evidence for a message.  Validators need not agree: neither on the
// transaction nor on its receipt.
type c07Ev struct {
	val     int    // validator index
	kind    string // "tx" | "err"
	tx      *c07Tx // kind tx
	status  int    // receipt status this validator reports (1, 0, -1 = no receipt)
	root    int    // > 0: the receipt's first field is the 32-byte state root c07StateRoot(root), not a status code (status is 0: it reports no success)
	log     bool   // receipt carries the ContractDeployed log
	variant int    // anything else in the receipt (cumulative gas used)
	enc     int    // serialization of the transaction in this validator's proof (0 canonical, k = blob sidecar k)
}

// norm: without a receipt there is nothing the log flag or the variant could be part of.
func (v c07Ev) norm() c07Ev {
	if v.kind == "tx" && v.status < 0 {
		v.log, v.variant, v.root = false, 0, 0
	}
	if v.kind == "tx" && v.root > 0 {
		v.status = 0
	}
	return v
}

// key identifies the serialized proof: evidence is byte-identical iff the keys agree.
func (v c07Ev) key() string {
	v = v.norm()
	if v.kind != "tx" {
		return "err"
	}
	return fmt.Sprintf("tx/%s/%d/%v/%d/%d/%d", v.tx.tx.Hash().Hex(), v.status, v.log, v.variant, v.enc, v.root)
}

func (v c07Ev) token() string {
	v = v.norm()
	if v.kind != "tx" {
		return fmt.Sprintf("%d;err;1", v.val+1)
	}
	st := "-"
	if v.status >= 0 {
		st = fmt.Sprint(v.status)
	}
	if v.root > 0 {
		// the receipt's first field as submitted; the model decodes it
		st = "f" + c05X(c07StateRoot(v.root))
	}
	from := "-"
	if v.tx.sender != nil {
		from = new(big.Int).SetBytes(v.tx.sender.Bytes()).String()
	}
	return fmt.Sprintf("%d;tx;%s;%s;%s;%s;%d;%d;%s", v.val+1, new(big.Int).SetBytes(v.tx.tx.Hash().Bytes()), st, c05X(v.tx.tx.Data()), c07B(v.effLog()), v.variant, v.enc, from)
}

// c07BlobBody is the field list of an EIP-4844 transaction (go-ethereum's BlobTx) in RLP order.
type c07BlobBody struct {
	ChainID    *big.Int
	Nonce      uint64
	GasTipCap  *big.Int
	GasFeeCap  *big.Int
	Gas        uint64
	To         common.Address
	Value      *big.Int
	Data       []byte
	AccessList ethtypes.AccessList
	BlobFeeCap *big.Int
	BlobHashes []common.Hash
	V, R, S    *big.Int
}

// c07BlobNet is the network form of a blob transaction: the body followed by the sidecar.
type c07BlobNet struct {
	Body        *c07BlobBody
	Blobs       [][]byte
	Commitments [][]byte
	Proofs      [][]byte
}

const c07Sidecars = 3

// c07Sidecar: the blob sidecars a reporter may attach (decoding does not validate them).
func c07Sidecar(k int) (blobs, commitments, proofs [][]byte) {
	fill := func(n int, b byte) []byte { return bytes.Repeat([]byte{b}, n) }
	switch k {
	case 1: // network form without any blob
		return [][]byte{}, [][]byte{}, [][]byte{}
	case 2: // commitment and proof only
		return [][]byte{}, [][]byte{fill(48, 0xc2)}, [][]byte{fill(48, 0x92)}
	default: // one (zero) blob
		return [][]byte{make([]byte, 131072)}, [][]byte{fill(48, 0xc3)}, [][]byte{fill(48, 0x93)}
	}
}

func c07DecodeTx(t *testing.T, raw []byte) *ethtypes.Transaction {
	tx := new(ethtypes.Transaction)
	if err := tx.UnmarshalBinary(raw); err != nil {
		t.Fatalf("decode tx: %v", err)
	}
	return tx
}

var c07TxClasses = []string{"dyn", "legacy", "al", "blob"}

// mkTx signs a remote transaction of the given class with the key of an account that has nothing
// to do with the chain (the harness's own relayer key).
func (e *c07Env) mkTx(class string, to *common.Address, data []byte) *c07Tx {
	out := e.mkTxFrom(class, to, data, e.key)
	out.from = "outsider"
	return out
}

// c07RecoverSender: the account a transaction was sent from, as anybody can compute it from the
// transaction alone (signature + chain id); false when it carries no valid signature.
func c07RecoverSender(tx *ethtypes.Transaction) (common.Address, bool) {
	from, err := ethtypes.Sender(ethtypes.LatestSignerForChainID(tx.ChainId()), tx)
	return from, err == nil
}

// mkTxFrom builds a remote transaction of the given class sent by the holder of key; key == nil: the
// transaction carries NO signature (v = r = s = 0, what ethtypes.NewTx gives): it still decodes and
// has a hash, but nobody can tell who sent it.
func (e *c07Env) mkTxFrom(class string, to *common.Address, data []byte, key *ecdsa.PrivateKey) *c07Tx {
	out := e.mkTxRaw(class, to, data, key)
	from, ok := c07RecoverSender(out.tx)
	switch {
	case key == nil && ok:
		e.t.Fatalf("mkTx: a sender (%s) was recovered from an unsigned %s transaction", from, class)
	case key != nil && (!ok || from != ethcrypto.PubkeyToAddress(key.PublicKey)):
		e.t.Fatalf("mkTx: %s transaction not signed by the intended sender", class)
	case key != nil:
		out.sender = &from
	}
	return out
}

func (e *c07Env) mkTxRaw(class string, to *common.Address, data []byte, key *ecdsa.PrivateKey) *c07Tx {
	e.nonce++
	signer := ethtypes.LatestSignerForChainID(e.chainID)
	var inner ethtypes.TxData
	switch class {
	case "legacy":
		inner = &ethtypes.LegacyTx{Nonce: e.nonce, To: to, Data: data, Gas: 1_000_000, GasPrice: big.NewInt(1_000_000_000)}
	case "al":
		inner = &ethtypes.AccessListTx{ChainID: e.chainID, Nonce: e.nonce, To: to, Data: data, Gas: 1_000_000, GasPrice: big.NewInt(1_000_000_000),
			AccessList: ethtypes.AccessList{{Address: common.HexToAddress("0xC0"), StorageKeys: []common.Hash{{1}}}}}
	case "dyn":
		inner = &ethtypes.DynamicFeeTx{
			ChainID: e.chainID, Nonce: e.nonce, To: to, Data: data, Gas: 1_000_000,
			GasFeeCap: big.NewInt(1_000_000_000), GasTipCap: big.NewInt(1),
		}
	case "blob":
		if to == nil {
			e.t.Fatal("mkTx: a blob transaction cannot create a contract")
		}
		body := &c07BlobBody{
			ChainID: e.chainID, Nonce: e.nonce, GasTipCap: big.NewInt(1), GasFeeCap: big.NewInt(1_000_000_000), Gas: 1_000_000,
			To: *to, Value: big.NewInt(0), Data: data, AccessList: ethtypes.AccessList{}, BlobFeeCap: big.NewInt(1),
			BlobHashes: []common.Hash{{0x01, 0xb1}}, V: big.NewInt(0), R: big.NewInt(0), S: big.NewInt(0),
		}
		enc := func() []byte {
			bz, err := rlp.EncodeToBytes(body)
			if err != nil {
				e.t.Fatal(err)
			}
			return append([]byte{ethtypes.BlobTxType}, bz...)
		}
		if key != nil {
			sig, err := ethcrypto.Sign(signer.Hash(c07DecodeTx(e.t, enc())).Bytes(), key)
			if err != nil {
				e.t.Fatal(err)
			}
			body.R, body.S, body.V = new(big.Int).SetBytes(sig[:32]), new(big.Int).SetBytes(sig[32:64]), new(big.Int).SetBytes(sig[64:])
		}
		return &c07Tx{tx: c07DecodeTx(e.t, enc()), class: class, body: body}
	default:
		e.t.Fatalf("mkTx: class %q", class)
	}
	if key == nil {
		bz, err := ethtypes.NewTx(inner).MarshalBinary()
		if err != nil {
			e.t.Fatal(err)
		}
		return &c07Tx{tx: c07DecodeTx(e.t, bz), class: class}
	}
	tx, err := ethtypes.SignNewTx(key, signer, inner)
	if err != nil {
		e.t.Fatal(err)
	}
	return &c07Tx{tx: tx, class: class}
}

// raw serializes the transaction the way encoding enc does.  Every serialization decodes to the
// same transaction (same hash): that is checked here, not assumed.
func (e *c07Env) raw(tx *c07Tx, enc int) []byte {
	var raw []byte
	if enc == 0 {
		bz, err := tx.tx.MarshalBinary()
		if err != nil {
			e.t.Fatal(err)
		}
		raw = bz
	} else {
		if tx.body == nil {
			e.t.Fatalf("raw: %s transaction has no encoding %d", tx.class, enc)
		}
		b, c, p := c07Sidecar(enc)
		bz, err := rlp.EncodeToBytes(&c07BlobNet{Body: tx.body, Blobs: b, Commitments: c, Proofs: p})
		if err != nil {
			e.t.Fatal(err)
		}
		raw = append([]byte{ethtypes.BlobTxType}, bz...)
	}
	if got := c07DecodeTx(e.t, raw); got.Hash() != tx.tx.Hash() || !bytes.Equal(got.Data(), tx.tx.Data()) {
		e.t.Fatalf("raw: encoding %d of a %s transaction decodes to another transaction", enc, tx.class)
	}
	return raw
}

func (e *c07Env) receipt(txType uint8, status int, withLog bool, variant int, root int) []byte {
	if status < 0 {
		return nil
	}
	rc := &ethtypes.Receipt{Type: txType, Status: uint64(status), CumulativeGasUsed: 21000 + uint64(variant)}
	if root > 0 {
		// a receipt WITHOUT status code: the post-transaction state root stands where the status would
		// (consensus form before EIP-658; also what a node that fills in both `root` and `status`
		// produces - for a reverted transaction as well: go-ethereum writes the root whenever there is
		// one, whatever Status says; both spellings are generated and give the same bytes)
		rc.PostState = c07StateRoot(root)
		rc.Status = uint64(root % 2)
	}
	shape := variant / 10
	other := ethcrypto.Keccak256Hash([]byte("Other()"))
	// an unrelated log first, then (optionally) the ContractDeployed event
	switch shape {
	case 1:
		rc.Logs = append(rc.Logs, &ethtypes.Log{Address: common.HexToAddress("0xC0"), Topics: nil, Data: []byte{1, 2, 3}})
	case 4:
		rc.Logs = append(rc.Logs, &ethtypes.Log{Address: common.HexToAddress("0xC0"), Topics: []common.Hash{other, other, other, other}})
	default:
		rc.Logs = append(rc.Logs, &ethtypes.Log{Address: common.HexToAddress("0xC0"), Topics: []common.Hash{other}})
	}
	if withLog {
		ev := e.abi.Events["ContractDeployed"]
		topics := []common.Hash{ev.ID}
		var data []byte
		if len(ev.Inputs.NonIndexed()) == 3 {
			var err error
			data, err = ev.Inputs.NonIndexed().Pack(common.HexToAddress("0xDE9107ED"), common.HexToAddress("0xD1"), big.NewInt(7))
			if err != nil {
				e.t.Fatal(err)
			}
		} else {
			// a compass whose event declares its parameters indexed: they travel as topics
			topics = append(topics, common.BytesToHash(common.HexToAddress("0xDE9107ED").Bytes()), common.BytesToHash(common.HexToAddress("0xD1").Bytes()), common.BigToHash(big.NewInt(7)))
		}
		if shape == 3 {
			data = nil
		}
		rc.Logs = append(rc.Logs, &ethtypes.Log{Address: common.HexToAddress("0xC0"), Topics: topics, Data: data})
	}
	if shape == 2 {
		rc.Logs = append(rc.Logs, &ethtypes.Log{Address: common.HexToAddress("0xC0"), Topics: nil})
	}
	bz, err := rc.MarshalBinary()
	if err != nil {
		e.t.Fatal(err)
	}
	// the harness's own reading of the bytes it submits (plain RLP, no receipt decoder involved)
	field, ok := c07ReceiptFirstField(bz)
	switch {
	case !ok:
		e.t.Fatalf("receipt: cannot read back the first field of %x", bz)
	case root > 0 && !bytes.Equal(field, c07StateRoot(root)):
		e.t.Fatalf("receipt: first field %x is not the state root", field)
	case root == 0 && !bytes.Equal(field, map[int][]byte{1: {1}, 0: {}}[status]):
		e.t.Fatalf("receipt: first field %x does not spell status %d", field, status)
	}
	e.checkReceiptReading(bz)
	return bz
}

func (e *c07Env) proof(v c07Ev) *codectypes.Any {
	if v.kind != "tx" {
		any, err := codectypes.NewAnyWithValue(&evmtypes.SmartContractExecutionErrorProof{ErrorMessage: "boom"})
		if err != nil {
			e.t.Fatal(err)
		}
		return any
	}
	raw := e.raw(v.tx, v.enc)
	any, err := codectypes.NewAnyWithValue(&evmtypes.TxExecutedProof{SerializedTX: raw, SerializedReceipt: e.receiptOf(v)})
	if err != nil {
		e.t.Fatal(err)
	}
	return any
}

// receiptOf: the serialized receipt of one validator's evidence (nil: none).
func (e *c07Env) receiptOf(v c07Ev) []byte {
	v = v.norm()
	return e.receipt(v.tx.tx.Type(), v.status, v.log, v.variant, v.root)
}

// evs builds evidence of the given validators for one transaction with its real receipt.
func (tx *c07Tx) evs(vals []int) []c07Ev {
	var out []c07Ev
	for _, i := range vals {
		out = append(out, c07Ev{val: i, kind: "tx", tx: tx, status: tx.status, root: tx.root, log: tx.log, variant: 10 * tx.shape, enc: tx.enc})
	}
	return out
}

// c07Force pins the choices of one directed case (everything not named here is the plain valid
// flow: estimate elected, all validators sign, current valset, exact call data, success receipt,
// unanimous evidence); nil = everything random.
type c07Force struct {
	existing bool   // uv: the valset is an existing snapshot
	upCtor   string // up: regular | empty | other
	upData   string // up: one of c07UpDataModes
	class    string // transaction class ("" = dyn)
	enc      int    // serialization the reporters use
	resubmit bool   // re-submit the transaction for a second, identical message ...
	resubEnc int    // ... in this serialization
	logShape int    // usc: shape of the receipt's log list (c07LogShapes)
	// uv: a second message with identical content is queued and the transaction built for the FIRST
	// one is presented, unused, as proof of delivery of the second (the compass method update_valset
	// takes no message id, so the call data cannot tell the twins apart)
	twinFirst bool
	// the latest compass: before the attestation governance saves a newer compass whose ABI is this
	// variant (c07AbiVariants) of the repository's, applied to the message's own delivery method or
	// (abiOther) to another one
	abiVariant string
	abiOther   bool
	chVariant  string // up: the same, for the handover message the accepted upload schedules
	junk       bool   // the reported transaction carries call data that has nothing to do with the message
	caseFlip   bool   // ... the genuine call data with the case bit of some bytes that are ASCII letters flipped
	// the receipt every validator reports: root > 0 = no status code, the state root c07StateRoot(root)
	// in its place; failed = the failure code
	root   int
	failed bool
	// the valset id the relayer names in the public access data: "" the current snapshot | none (no
	// public access data) | zero | unknown (no such snapshot) | older (an existing earlier snapshot)
	pad    string
	noSigs bool // no validator has signed the message
	// who sent the remote transaction (c07SenderClasses; "" = an outsider), and which account its call
	// data names where the compass method takes the relayer (c07Names; "" = the assigned relayer)
	from  string
	names string
	// the message is re-assigned to another validator before it is relayed
	reassign bool
	// up: from / names for the handover message the accepted upload schedules
	chFrom  string
	chNames string
	// governance over the set of supported chains between the first attestation and the re-submission
	// of its transaction (c07GovModes; "" = none)
	gov string
}

func (f *c07Force) txClass() string {
	if f.class == "" {
		return "dyn"
	}
	return f.class
}

// ctorInput packs constructor arguments chosen by the transaction's sender: a valset owned by
// the relayer's own key, a fresh compass id and fee manager.
func (e *c07Env) ctorInput() []byte {
	var id [32]byte
	e.r.Rng.Read(id[:])
	vs := evmtypes.CompassValset{
		Validators: []common.Address{ethcrypto.PubkeyToAddress(e.key.PublicKey)},
		Powers:     []*big.Int{big.NewInt(1 << 32)}, ValsetId: big.NewInt(1),
	}
	in, err := e.abi.Pack("", id, big.NewInt(0), big.NewInt(0), vs, common.HexToAddress(c05ValidAddr(e.r)))
	if err != nil {
		e.t.Fatalf("pack constructor: %v", err)
	}
	return in
}

var c07UpDataModes = []string{"exact", "bytecode-only", "extend", "other-args", "truncate", "flip", "data-edit"}

// upCallData: the deployment call data a relayer reports for a compass upload.
func (e *c07Env) upCallData(up *evmtypes.UploadSmartContract, mode string) []byte {
	r := e.r.Rng
	want := append(append([]byte(nil), up.Bytecode...), up.ConstructorInput...)
	switch mode {
	case "bytecode-only": // a proper prefix when the message has constructor input
		return append([]byte(nil), up.Bytecode...)
	case "extend": // the whole expected string, then more
		if r.Intn(2) == 0 {
			return append(want, e.ctorInput()...)
		}
		return append(want, c05Bytes(e.r, 1+r.Intn(64))...)
	case "other-args": // the bytecode, then constructor arguments of the sender's choosing
		return append(append([]byte(nil), up.Bytecode...), e.ctorInput()...)
	case "truncate":
		if len(want) < 2 {
			return []byte{}
		}
		return want[:len(want)-1-r.Intn(min(len(want)-1, 64))]
	case "flip":
		want[r.Intn(len(want))] ^= byte(1 + r.Intn(255))
		return want
	case "data-edit":
		return c05FreshBytes(e.r, want)
	}
	return want
}

// c07SenderClasses: who sent the remote transaction.  VerifyAgainstTX reads the call data only, so
// the sender decides nothing - in particular a transaction is not proof of delivery BECAUSE its
// call data names the account that sent it.
//   - assignee:  the validator the message is assigned to (its remote address is the relayer the
//     genuine call data names);
//   - validator: another validator of the set - a legitimate relayer, but not of this message;
//   - previous:  the validator the message was assigned to before it was re-assigned;
//   - outsider:  an account that is no validator's;
//   - unsigned:  the transaction carries no signature at all (nobody can tell who sent it).
var c07SenderClasses = []string{"assignee", "validator", "previous", "outsider", "unsigned"}

// c07Names: the accounts a faulty relayer's call data may name instead of the assigned relayer - not
// some random address but one that means something in the history.
var c07Names = []string{"sender", "validator", "previous", "outsider", "zero", "compass"}

// assigneeIdx: the validator whose remote address the message is assigned to (-1: none).
func (e *c07Env) assigneeIdx(m *evmtypes.Message) int {
	for i, v := range e.fa.Vals {
		if v.EthAddr == common.HexToAddress(m.AssigneeRemoteAddress) {
			return i
		}
	}
	return -1
}

// senderKey picks the key the remote transaction is signed with (nil: not signed).
func (e *c07Env) senderKey(s *c07Stored, class string) (string, *ecdsa.PrivateKey) {
	ai := e.assigneeIdx(s.msg)
	switch class {
	case "assignee":
		if ai >= 0 {
			return class, e.fa.Vals[ai].EthPriv
		}
	case "previous", "validator":
		if pi, ok := e.prev[s.q.GetId()]; ok && class == "previous" && pi != ai {
			return class, e.fa.Vals[pi].EthPriv
		}
		j := e.r.Rng.Intn(len(e.fa.Vals))
		if j == ai {
			j = (j + 1) % len(e.fa.Vals)
		}
		return "validator", e.fa.Vals[j].EthPriv
	case "unsigned":
		return class, nil
	}
	return "outsider", e.key
}

// rename makes the call data name another ACCOUNT where the compass method takes one: the relayer
// argument (the last address argument of every delivery method) or - at random only, now and then -
// another address argument (the deployer of a user contract).  The substitute is the account whose
// (c07Names; "" = any of those available): the transaction's own sender, another validator, the
// previous assignee, the harness's outsider, the zero address, the transaction's destination.
func (e *c07Env) rename(ca *c07Args, s *c07Stored, sender *common.Address, dst common.Address, whose string) string {
	r := e.r.Rng
	ai := e.assigneeIdx(s.msg)
	cands := map[string]common.Address{
		"outsider": ethcrypto.PubkeyToAddress(e.key.PublicKey), "zero": {}, "compass": dst,
	}
	if sender != nil {
		cands["sender"] = *sender
	}
	if pi, ok := e.prev[s.q.GetId()]; ok && pi != ai {
		cands["previous"] = e.fa.Vals[pi].EthAddr
	}
	for _, j := range r.Perm(len(e.fa.Vals)) {
		if v := e.fa.Vals[j].EthAddr; j != ai && (sender == nil || v != *sender) {
			cands["validator"] = v
			break
		}
	}
	forced := whose != ""
	if _, ok := cands[whose]; !ok {
		var avail []string
		for _, w := range c07Names {
			if _, ok := cands[w]; ok {
				avail = append(avail, w)
			}
		}
		whose = avail[r.Intn(len(avail))]
	}
	var addrArgs []int
	for i, a := range ca.args {
		if _, ok := a.(common.Address); ok {
			addrArgs = append(addrArgs, i)
		}
	}
	i := addrArgs[len(addrArgs)-1] // the relayer
	if !forced && len(addrArgs) > 1 && r.Intn(4) == 0 {
		i = addrArgs[r.Intn(len(addrArgs)-1)]
	}
	ca.args[i] = cands[whose]
	return fmt.Sprintf("name:%s.addr%d=%s", ca.method, i, whose)
}

// relayerWord decodes call data as a call of the delivery method and returns the account it names
// as relayer (the last address argument); false when it is not a well-formed call of that method.
func (e *c07Env) relayerWord(method string, data []byte) (common.Address, bool) {
	m, ok := e.abi.Methods[method]
	if !ok || len(data) < 4 || !bytes.Equal(data[:4], m.ID) {
		return common.Address{}, false
	}
	vals, err := m.Inputs.Unpack(data[4:])
	if err != nil {
		return common.Address{}, false
	}
	for i := len(vals) - 1; i >= 0; i-- {
		if a, ok := vals[i].(common.Address); ok {
			return a, true
		}
	}
	return common.Address{}, false
}

// queueObj: the consensus queue object of the chain, built from the evm keeper's own options (what
// the consensus keeper works with).
func (e *c07Env) queueObj(ctx sdk.Context) consensus.Queue {
	a := e.fa.App()
	opts, err := a.EvmKeeper.SupportedQueues(ctx)
	if err != nil {
		e.t.Fatalf("SupportedQueues: %v", err)
	}
	for _, o := range opts {
		if o.QueueTypeName != e.queue {
			continue
		}
		qo := o.QueueOptions
		if qo.Sg == nil {
			qo.Sg = a.ConsensusKeeper
		}
		if qo.Cdc == nil {
			qo.Cdc = a.AppCodec()
		}
		q, err := consensus.NewQueue(qo)
		if err != nil {
			e.t.Fatalf("NewQueue: %v", err)
		}
		return q
	}
	e.t.Fatalf("queue %s is not supported by the evm keeper", e.queue)
	return consensus.Queue{}
}

// reassign hands the message to another validator the way ReassignOrphanedMessages does for a message
// nobody relayed in time (Queue.ReassignValidator: assignee, remote address and height are rewritten,
// collected signatures stay).  From then on the expected call data names the NEW relayer; whatever the
// previous assignee sends - or sent - for it names the wrong one.
func (e *c07Env) reassign(ctx sdk.Context, id uint64) error {
	s := e.load(ctx, id)
	if s == nil {
		return fmt.Errorf("reassign: message %d not stored", id)
	}
	old := e.assigneeIdx(s.msg)
	n := len(e.fa.Vals)
	nw := (max(old, 0) + 1 + e.r.Rng.Intn(n-1)) % n
	if err := e.queueObj(ctx).ReassignValidator(ctx, id, e.fa.ValAddr(nw).String(), e.fa.Vals[nw].EthAddr.Hex()); err != nil {
		return err
	}
	if got := e.load(ctx, id); got == nil || e.assigneeIdx(got.msg) != nw {
		return fmt.Errorf("reassign: message %d is not assigned to validator %d afterwards", id, nw)
	}
	if old >= 0 {
		e.prev[id] = old
	}
	e.r.Stat("reassigned")
	return nil
}

// buildTx builds the transaction a (possibly faulty) relayer reports for the stored message.
func (e *c07Env) buildTx(s *c07Stored, f *c07Force) *c07Tx {
	r := e.r.Rng
	exact, what, foreign := true, "valid", false
	compass := common.HexToAddress("0x00000000000000000000000000000000000000C0")
	var data []byte
	var to *common.Address
	class := "dyn"
	from, key := "outsider", e.key
	if up := s.msg.GetUploadSmartContract(); up != nil {
		mode := "exact"
		switch {
		case f != nil:
			mode = f.upData
		case r.Intn(2) == 0:
			mode = c07UpDataModes[1+r.Intn(len(c07UpDataModes)-1)]
		}
		data = e.upCallData(up, mode)
		// ground truth: the call data IS bytecode followed by the constructor input, nothing else
		exact = bytes.Equal(data, append(append([]byte(nil), up.Bytecode...), up.ConstructorInput...))
		if mode != "exact" {
			what = "up:" + mode
		}
		if len(up.ConstructorInput) == 0 {
			e.r.Stat(fmt.Sprintf("up-ctor-empty:%s:exact=%v", mode, exact))
		} else {
			e.r.Stat(fmt.Sprintf("up-ctor-set:%s:exact=%v", mode, exact))
		}
		// a contract creation: every class but blob (EIP-4844 transactions always have a destination)
		class = []string{"dyn", "dyn", "legacy", "al"}[r.Intn(4)]
		if f != nil {
			class = f.txClass()
		}
		// the upload attester derives the new compass address from the sender: always a signed transaction
		from, key = e.senderKey(s, []string{"outsider", "outsider", "assignee", "validator"}[r.Intn(4)])
	} else {
		n := len(s.q.GetSignData())
		pl := n
		switch {
		case n == 0:
			exact, what = false, "no-signatures"
		case f != nil:
		case r.Intn(5) == 0 && n > 1:
			pl = 1 + r.Intn(n-1) // late signatures: an earlier prefix
			what = "earlier-prefix"
			e.r.Stat("prefix:earlier")
		case r.Intn(12) == 0:
			pl = 0 // the empty prefix is never tried by the Go loop
			exact, what = false, "empty-prefix"
		}
		ca := e.relayerArgs(s, pl)
		// who sends it, where to, and which account its call data names as relayer
		fromClass, names := "outsider", ""
		_, reassigned := e.prev[s.q.GetId()]
		switch {
		case f != nil:
			if f.from != "" {
				fromClass = f.from
			}
			names = f.names
		case reassigned && r.Intn(2) == 0:
			// the transaction the PREVIOUS assignee sent for the message: genuine in every field, but
			// it names (and comes from) the relayer the message is no longer assigned to
			fromClass, names = "previous", "previous"
		default:
			fromClass = []string{"outsider", "outsider", "outsider", "assignee", "assignee", "assignee", "validator", "validator", "unsigned", "unsigned"}[r.Intn(10)]
		}
		from, key = e.senderKey(s, fromClass)
		var sender *common.Address
		if key != nil {
			a := ethcrypto.PubkeyToAddress(key.PublicKey)
			sender = &a
		}
		dst := compass
		if f == nil && r.Intn(6) == 0 {
			// same call data, but sent to some other contract: VerifyAgainstTX only reads tx.Data()
			dst = common.HexToAddress(c05ValidAddr(e.r))
			foreign = true
		}
		to = &dst
		switch k := r.Intn(10); {
		case names != "":
			exact, what = false, e.rename(&ca, s, sender, dst, names)
		case f != nil:
		case k == 0 || k == 1: // single field
			exact, what = false, "edit:"+e.corrupt(&ca)
		case k == 2: // several fields
			a := e.corrupt(&ca)
			b := e.corrupt(&ca)
			exact, what = false, "edit2:"+a+"+"+b
		case k == 3: // an account argument names another account of this history
			exact, what = false, e.rename(&ca, s, sender, dst, "")
		}
		var err error
		data, err = e.abi.Pack(ca.method, ca.args...)
		if err != nil {
			e.t.Fatalf("pack %s: %v", ca.method, err)
		}
		if (f == nil && r.Intn(24) == 0) || (f != nil && f.junk) {
			data = append([]byte{0xde, 0xad, 0xbe, 0xef}, c05Bytes(e.r, r.Intn(96))...)
			exact, what = false, "raw:junk"
		} else if f == nil {
			switch r.Intn(16) {
			case 0:
				data[4+r.Intn(len(data)-4)] ^= byte(1 + r.Intn(255))
				exact, what = false, "raw:flip"
			case 1:
				data = data[:len(data)-1-r.Intn(31)]
				exact, what = false, "raw:truncate"
			case 2:
				data = append(data, byte(r.Intn(256)))
				exact, what = false, "raw:append"
			case 3:
				data[r.Intn(4)] ^= 0x10
				exact, what = false, "raw:selector"
			case 4:
				// different bytes that a looser comparison (case folding) takes for equal
				if c07CaseFlip(data, r) {
					exact, what = false, "raw:letter-case"
					e.r.Stat("calldata:letter-case-flipped")
				}
			}
		} else if f.caseFlip && c07CaseFlip(data, r) {
			exact, what = false, "raw:letter-case"
			e.r.Stat("calldata:letter-case-flipped")
		}
		// ground truth for the monitors: the data is the relayer encoding of this very message
		// for SOME non-empty signature prefix (with an empty valset every prefix encodes alike)
		isExact := false
		for i := 1; i <= n; i++ {
			ra := e.relayerArgs(s, i)
			if want, err := e.abi.Pack(ra.method, ra.args...); err == nil && bytes.Equal(want, data) {
				isExact = true
			}
		}
		if isExact != exact {
			e.r.Stat(fmt.Sprintf("exact-relabelled:%s:%v", what, isExact))
			exact = isExact
		}
		if strings.HasPrefix(what, "name:") {
			e.r.Stat(fmt.Sprintf("names:%s:from=%s:exact=%v", what[strings.LastIndex(what, "=")+1:], from, exact))
		}
		class = []string{"dyn", "dyn", "dyn", "legacy", "legacy", "al", "blob", "blob", "blob", "blob"}[r.Intn(10)]
		if f != nil {
			class = f.txClass()
		}
	}
	out := e.mkTxFrom(class, to, data, key)
	out.from = from
	e.r.Stat("sender:" + from)
	out.exact, out.what, out.foreign, out.status, out.log = exact, what, foreign, 1, true
	if class == "blob" {
		// which serialization of the transaction the reporters put into their proofs
		out.enc = []int{0, 0, 0, 1, 1, 2, 2, 3}[r.Intn(8)]
		if f != nil {
			out.enc = f.enc
		}
	}
	e.r.Stat(fmt.Sprintf("txclass:%s:enc=%d", class, out.enc))
	if f != nil {
		if s.msg.GetUploadUserSmartContract() != nil {
			out.shape = f.logShape
		}
		if f.failed {
			out.status = 0
		}
		if f.root > 0 {
			out.status, out.root = 0, f.root
		}
		return out
	}
	switch r.Intn(8) {
	case 0:
		out.status = 0
	case 1:
		if r.Intn(2) == 0 {
			out.status = -1
		}
	case 2:
		// the receipt carries a state root where the status code would be: it reports no success
		out.status, out.root = 0, 1+r.Intn(c07StateRoots)
	}
	if s.msg.GetUploadUserSmartContract() != nil {
		switch r.Intn(8) {
		case 0:
			out.log = false
		case 1, 2, 3:
			out.shape = 1 + r.Intn(c07LogShapes-1)
			e.r.Stat(fmt.Sprintf("usc-receipt-log-shape:%d", out.shape))
		}
	}
	return out
}

// addEvidence submits the evidence in the given order (the store keeps that order).
func (e *c07Env) addEvidence(ctx sdk.Context, id uint64, evs []c07Ev) error {
	for _, v := range evs {
		if err := e.fa.App().ConsensusKeeper.AddMessageEvidence(ctx, e.fa.ValAddr(v.val), &consensustypes.MsgAddEvidence{
			Proof: e.proof(v), MessageID: id, QueueTypeName: e.queue,
		}); err != nil {
			return err
		}
	}
	return nil
}

// shares returns every validator's share in the current snapshot and the total.
func (e *c07Env) shares(ctx sdk.Context) ([]*big.Int, *big.Int) {
	snap, err := e.fa.App().ValsetKeeper.GetCurrentSnapshot(ctx)
	if err != nil || snap == nil {
		e.t.Fatalf("snapshot: %v", err)
	}
	out := make([]*big.Int, len(e.fa.Vals))
	for i, v := range e.fa.Vals {
		out[i] = big.NewInt(0)
		if val, ok := snap.GetValidator(v.ValAddr()); ok {
			out[i] = val.ShareCount.BigInt()
		}
	}
	return out, snap.TotalShares.BigInt()
}

// quorumGroup: the byte-identical evidence group that holds 2/3 of the shares (nil if none).
// This is the property's notion of "the quorum reported", computed from the submitted bytes only.
func (e *c07Env) quorumGroup(ctx sdk.Context, evs []c07Ev) *c07Ev {
	sh, total := e.shares(ctx)
	sum := map[string]*big.Int{}
	for _, v := range evs {
		if sum[v.key()] == nil {
			sum[v.key()] = big.NewInt(0)
		}
		sum[v.key()].Add(sum[v.key()], sh[v.val])
	}
	for i := range evs {
		s := sum[evs[i].key()]
		if s.Sign() > 0 && new(big.Int).Mul(s, big.NewInt(3)).Cmp(new(big.Int).Mul(total, big.NewInt(2))) >= 0 {
			return &evs[i]
		}
	}
	return nil
}

// classify maps the error of the attestation callback to the model's result classes.
func c07Classify(err error) string {
	switch {
	case err == nil:
		return "nil"
	case errors.Is(err, evmtypes.ErrEthTxFailed):
		return "txfailed"
	case errors.Is(err, evmtypes.ErrEthTxNotVerified):
		return "notverified"
	default:
		return "err"
	}
}

// verdict runs, on a THROW-AWAY cache context, exactly what the loop of
// CheckAndProcessAttestedMessages runs for message id: the attestation callback the evm keeper
// registered for this queue (evm's attestRouter), on the queue object built from the evm keeper's
// own options.  Since /repo 1718b7eb the loop only logs a callback's error and carries on, so the
// result of one message is not visible in its return value any more; the keeper state is taken
// from the real call below, never from this one.
func (e *c07Env) verdict(parent sdk.Context, id uint64) (class string) {
	ctx, _ := parent.CacheContext()
	defer func() {
		if rec := recover(); rec != nil {
			class = "panic"
		}
	}()
	a := e.fa.App()
	opts, err := a.EvmKeeper.SupportedQueues(ctx)
	if err != nil {
		e.t.Fatalf("SupportedQueues: %v", err)
	}
	for _, o := range opts {
		if o.QueueTypeName != e.queue {
			continue
		}
		qo := o.QueueOptions
		if qo.Sg == nil {
			qo.Sg = a.ConsensusKeeper
		}
		if qo.Cdc == nil {
			qo.Cdc = a.AppCodec()
		}
		q, err := consensus.NewQueue(qo)
		if err != nil {
			e.t.Fatalf("NewQueue: %v", err)
		}
		msg, err := q.GetMsgByID(ctx, id)
		if err != nil {
			e.t.Fatalf("message %d: %v", id, err)
		}
		return c07Classify(o.ProcessMessageForAttestation(ctx, q, msg))
	}
	e.t.Fatalf("queue %s is not supported by the evm keeper", e.queue)
	return ""
}

// runAttest calls the function the consensus end blocker calls (all keeper state the check looks
// at comes from this call) and classifies the outcome of message id (see verdict).
// It runs on a cache context that is dropped when the call panics: in the end blocker nobody
// recovers, FinalizeBlock fails and nothing of that block is persisted (the deferred
// writeCache/Remove/setTxAsAlreadyProcessed calls that run while the panic unwinds die with it).
func (e *c07Env) runAttest(parent sdk.Context, id uint64) (class string) {
	class = e.verdict(parent, id)
	ctx, write := parent.CacheContext()
	defer func() {
		if rec := recover(); rec != nil {
			class = "panic"
			return
		}
		write()
	}()
	if err := e.fa.App().ConsensusKeeper.CheckAndProcessAttestedMessages(ctx); err != nil {
		// (before /repo 1718b7eb this was the first failing message's error)
		if c := c07Classify(err); c != class {
			e.r.Stat("end-blocker-call-returned:" + c + ":callback:" + class)
		}
	}
	return class
}

// attest emits the attestev op for message id with the evidence evs (in store order), runs the
// real attestation and evaluates the monitors.
func (e *c07Env) attest(ctx sdk.Context, id uint64, evs []c07Ev, kind string) (class string, fx []string) {
	before := e.observe(ctx)
	e.chainLine(before)
	grp := e.quorumGroup(ctx, evs)
	stored := e.load(ctx, id) // the message as it is stored when the attestation runs
	class = e.runAttest(ctx, id)
	after := e.observe(ctx)

	// success effects, from the keeper state alone
	for sid, n := range after.snapCnt {
		for k := before.snapCnt[sid]; k < n; k++ {
			fx = append(fx, fmt.Sprintf("snap:%d", sid))
		}
	}
	for cid := range before.deps {
		if _, still := after.deps[cid]; !still {
			fx = append(fx, fmt.Sprintf("active:%d", cid))
		}
	}
	for cid := range after.handover {
		if !before.handover[cid] {
			fx = append(fx, fmt.Sprintf("handover:%d", cid))
		}
	}
	for uid := range after.userAct {
		if !before.userAct[uid] {
			fx = append(fx, fmt.Sprintf("user:%d", uid))
		}
	}
	sort.Strings(fx)
	var q []uint64
	for _, x := range after.queue {
		if e.known[x] {
			q = append(q, x)
		}
	}
	// processed flag per distinct transaction of the evidence, in order of first appearance
	var procs []string
	seenTx := map[common.Hash]bool{}
	anyProcessed := false
	for _, v := range evs {
		if v.kind != "tx" || seenTx[v.tx.tx.Hash()] {
			continue
		}
		seenTx[v.tx.tx.Hash()] = true
		p := e.isProcessed(ctx, v.tx.tx.Hash())
		anyProcessed = anyProcessed || p
		procs = append(procs, c07B(p))
	}
	proc := "-"
	if len(procs) > 0 {
		proc = strings.Join(procs, ",")
	}
	sh, total := e.shares(ctx)
	shs := make([]string, len(sh))
	for i, x := range sh {
		shs[i] = fmt.Sprintf("%d:%s", i+1, x)
	}
	toks := make([]string, len(evs))
	for i, v := range evs {
		toks[i] = v.token()
	}
	line := fmt.Sprintf("attestev %d %s %s", id, strings.Join(shs, ","), total)
	if len(toks) > 0 {
		line += " " + strings.Join(toks, " ")
	}
	fxs := "-"
	if len(fx) > 0 {
		fxs = strings.Join(fx, ",")
	}
	e.op(line, fmt.Sprintf("%s q=%s proc=%s fx=%s active=%d deps=%s live=%s uact=%s", class, u64List(q), proc, fxs, after.active, after.depsStr(), after.liveStr(), after.uactStr()))

	// ----- monitors: the property evaluated on the implementation alone -----
	removed := true
	for _, x := range after.queue {
		if x == id {
			removed = false
		}
	}
	// acceptance: success effects in the keeper state, or - a logic call and an update-valset for
	// a snapshot that does not exist have none - the router ran to its end for a quorum of
	// transaction proofs: no error, the message committed as handled
	accepted := len(fx) > 0 || (class == "nil" && removed && grp != nil && grp.kind == "tx")
	_ = anyProcessed
	// does the receipt the quorum reported report success?  Read off the submitted bytes: its first
	// field is the success code (not the failure code, not a state root, not absent)
	reports := false
	if grp != nil && grp.kind == "tx" {
		reports = c07ReceiptReportsSuccess(e.receiptOf(*grp))
		if n := grp.norm(); reports != (n.status == 1 && n.root == 0) {
			e.t.Fatalf("harness: evidence %s labelled status %d root %d, but its receipt bytes say reports-success=%v", grp.key(), n.status, n.root, reports)
		}
	}
	if accepted {
		switch {
		case grp == nil || grp.kind != "tx" || !reports:
			what := "no 2/3 group of byte-identical evidence"
			if grp != nil && grp.kind == "tx" {
				what = fmt.Sprintf("the 2/3 group reported receipt status %d", grp.status)
				said := fmt.Sprintf("has status %d", grp.status)
				if grp.root > 0 {
					what = "the 2/3 group reported a receipt that carries no status code (a state root in its place)"
					said = "carries no success code but a 32-byte state root"
				}
				e.r.Hit("accept_implies_success_receipt", "accepted although the quorum's receipt "+said, e.lines)
			} else if grp != nil {
				what = "the 2/3 group reported an execution error"
			}
			e.r.Hit("effects_need_quorum_on_success_receipt", "message accepted although "+what+" (success effects: "+fxs+")", e.lines)
		default:
			tx := grp.tx
			if !tx.exact {
				e.r.Hit("accept_implies_exact_calldata", "accepted a transaction whose call data is not the message's encoding ("+tx.what+")", e.lines)
			}
			// a direct consequence of "call data equals the encoding of that message (... relayer ...)",
			// read off the accepted bytes themselves: the account they name as relayer is the one the
			// message is assigned to - whoever sent the transaction
			if mi := c07MethodOf(kind); mi >= 0 && stored != nil {
				want := common.HexToAddress(stored.msg.AssigneeRemoteAddress)
				if got, ok := e.relayerWord(c07Methods[mi], tx.tx.Data()); ok && got != want {
					whose := "another account"
					if tx.sender != nil && got == *tx.sender {
						whose = "the transaction's own sender"
					}
					e.r.Hit("accepted_calldata_names_assigned_relayer", fmt.Sprintf("accepted a %s transaction (sent by: %s) whose call data names %s as relayer, not the relayer the message is assigned to", kind, tx.from, whose), e.lines)
				} else if ok {
					e.r.Stat("accepted:names-assigned-relayer:sent-by-" + tx.from)
				}
			}
			if mi := c07MethodOf(kind); mi >= 0 {
				e.checkAcceptedValset(ctx, kind, c07Methods[mi], tx)
			}
			if tx.foreign {
				e.r.Stat("observed:accepted-tx-not-addressed-to-compass")
			}
			h := tx.tx.Hash().Hex()
			if prev, used := e.usedTx[h]; used {
				e.r.Hit("tx_single_use", fmt.Sprintf("transaction already accepted for message %d", prev), e.lines)
			}
			e.usedTx[h] = id
			e.acceptedTx = append(e.acceptedTx, tx.tx.Hash())
		}
		if e.fxSeen[id] {
			e.r.Hit("effects_at_most_once", fmt.Sprintf("message %d produced success effects twice", id), e.lines)
		}
		e.fxSeen[id] = true
		if !removed {
			e.r.Hit("effects_at_most_once", "accepted message still in the queue", e.lines)
		}
	}
	if class == "panic" {
		e.r.Stat("attest:panic")
		e.panics = append(e.panics, strings.Join(e.lines, " | "))
	}
	return class, fx
}

// ---------- message factories (real keeper entry points) ----------

func (e *c07Env) newUV(ctx sdk.Context, existing bool) (uint64, error) {
	a := e.fa.App()
	cur, err := a.ValsetKeeper.GetCurrentSnapshot(ctx)
	if err != nil {
		return 0, err
	}
	resp, err := a.EvmKeeper.GetValsetByID(ctx, &evmtypes.QueryGetValsetByIDRequest{ValsetID: cur.Id, ChainReferenceID: c07Chain})
	if err != nil {
		return 0, err
	}
	vs := *resp.Valset
	if !existing {
		vs.ValsetID = cur.Id + 5 + uint64(e.r.Rng.Intn(5))
	}
	ci, err := a.EvmKeeper.GetChainInfo(ctx, c07Chain)
	if err != nil {
		return 0, err
	}
	return a.ConsensusKeeper.PutMessageInQueue(ctx, e.queue, &evmtypes.Message{
		TurnstoneID: string(ci.SmartContractUniqueID), ChainReferenceID: c07Chain,
		Assignee: e.fa.ValAddr(0).String(), AssigneeRemoteAddress: e.fa.Vals[0].EthAddr.Hex(),
		AssignedAtBlockHeight: sdkmath.NewInt(ctx.BlockHeight()),
		Action:                &evmtypes.Message_UpdateValset{UpdateValset: &evmtypes.UpdateValset{Valset: &vs}},
	}, &consensus.PutOptions{RequireGasEstimation: true, RequireSignatures: true})
}

func (e *c07Env) newSLC(ctx sdk.Context) (uint64, error) {
	a := e.fa.App()
	ci, err := a.EvmKeeper.GetChainInfo(ctx, c07Chain)
	if err != nil {
		return 0, err
	}
	return a.EvmKeeper.AddSmartContractExecutionToConsensus(ctx, c07Chain, string(ci.SmartContractUniqueID), &evmtypes.SubmitLogicCall{
		HexContractAddress: c05ValidAddr(e.r), Abi: []byte("[]"), Payload: c05Bytes(e.r, c05Len(e.r)),
		Deadline: ctx.BlockTime().Unix() + 600, SenderAddress: e.fa.User(0).Addr,
	})
}

func (e *c07Env) newUSC(ctx sdk.Context) (uint64, error) {
	a := e.fa.App()
	author := e.fa.ValAddr(e.r.Rng.Intn(len(e.fa.Vals))).String()
	cid, err := a.EvmKeeper.SaveUserSmartContract(ctx, author, &evmtypes.UserSmartContract{
		Title: "c07", AbiJson: "[]", Bytecode: "0x" + hex.EncodeToString(c05Bytes(e.r, 1+e.r.Rng.Intn(40))), ConstructorInput: "",
	})
	if err != nil {
		return 0, err
	}
	return a.EvmKeeper.CreateUserSmartContractDeployment(ctx, author, cid, c07Chain)
}

// newUP saves a new compass and lets the keeper schedule its deployment; returns the id of the
// UploadSmartContract message (0 when the keeper did not schedule one).  ctor: regular (what
// deploySmartContractToChain packed) | other | empty | unusable | bad-abi.
func (e *c07Env) newUP(ctx sdk.Context, ctor string) (uint64, error) {
	a := e.fa.App()
	before := e.observe(ctx)
	sc, err := a.EvmKeeper.SaveNewSmartContract(ctx, e.abiJSON, append([]byte{0x60, 0x02}, c05Bytes(e.r, 1+e.r.Rng.Intn(30))...))
	if err != nil {
		return 0, err
	}
	if err := a.EvmKeeper.SetAsCompassContract(ctx, sc); err != nil {
		return 0, err
	}
	after := e.observe(ctx)
	seen := map[uint64]bool{}
	for _, x := range before.queue {
		seen[x] = true
	}
	for _, x := range after.queue {
		if !seen[x] {
			if s := e.load(ctx, x); s != nil && s.msg.GetUploadSmartContract() != nil {
				if ctor == "regular" {
					return x, nil
				}
				// the same upload re-issued through the keeper's own entry point (the retry path uses
				// it too) with other constructor arguments, or - the shape VerifyAgainstTX provides
				// for "just in case" - without constructor input
				up := s.msg.GetUploadSmartContract()
				nu := &evmtypes.UploadSmartContract{Id: up.Id, Bytecode: up.Bytecode, Abi: up.Abi}
				switch ctor {
				case "other":
					nu.ConstructorInput = e.ctorInput()
				case "unusable":
					// a constructor input that does not unpack: the regular one cut short, or a few bytes
					in := up.ConstructorInput
					nu.ConstructorInput = in[:len(in)-1-e.r.Rng.Intn(len(in)-1)]
				case "bad-abi":
					// the message's own ABI does not parse (nothing checks it on the way in)
					nu.Abi = []string{"{not an ABI", "", `[{"type":"constructor","inputs":[{"name":"x","type":"nosuchtype"}]}]`}[e.r.Rng.Intn(3)]
					if e.r.Rng.Intn(2) == 0 {
						nu.ConstructorInput = up.ConstructorInput
					}
				}
				if err := a.ConsensusKeeper.DeleteJob(ctx, e.queue, x); err != nil {
					return 0, err
				}
				return a.EvmKeeper.AddUploadSmartContractToConsensus(ctx, c07Chain, nu)
			}
		}
	}
	return 0, nil
}

// ---------- the test ----------

func c07Perm(r *Rec, k int) []int {
	p := r.Rng.Perm(4)
	return p[:k]
}

func TestC07(t *testing.T) {
	faSetPrefixes()
	r := NewRec(t, "C07")
	defer r.Close()

	c07EndBlockerScenario(t, r)
	c07Directed(t, r)

	var e *c07Env
	casesPerApp := 40
	for ci := 0; ci < r.N; ci++ {
		if ci%casesPerApp == 0 {
			e = newC07Env(t, r, r.Seed*1000+int64(ci))
		}
		kind := []string{"uv", "slc", "usc", "up", "slc", "uv", "usc"}[r.Rng.Intn(7)]
		e.runCase(fmt.Sprintf("case %d", ci), kind, nil)
		if ci%5 == 4 {
			e.fa.NextBlock() // the real end blocker runs over whatever is left
		}
	}
}

// runCase creates one message of the given kind through the keeper and drives it (f == nil:
// random choices; otherwise the directed case f).
func (e *c07Env) runCase(name, kind string, f *c07Force) {
	r, t := e.r, e.t
	e.lines = []string{"reset (env of case block)"}
	caseKey := ""
	_, err := e.fa.WithDeliverCtx(func(ctx sdk.Context) error {
		e.registerAll(ctx)
		var id uint64
		var err error
		switch kind {
		case "uv":
			existing := r.Rng.Intn(4) != 0
			if f != nil {
				existing = f.existing
			}
			id, err = e.newUV(ctx, existing)
		case "slc":
			id, err = e.newSLC(ctx)
		case "usc":
			id, err = e.newUSC(ctx)
		case "up":
			ctor := []string{"regular", "regular", "regular", "empty", "empty", "other", "unusable", "bad-abi"}[r.Rng.Intn(8)]
			if f != nil {
				ctor = f.upCtor
			}
			r.Stat("up-ctor:" + ctor)
			id, err = e.newUP(ctx, ctor)
			if err == nil && id == 0 {
				// a deployment is pending (an earlier upload was rejected): clear it and retry
				for cid := range e.observe(ctx).deps {
					e.fa.App().EvmKeeper.DeleteSmartContractDeploymentByContractID(ctx, cid, c07Chain)
				}
				id, err = e.newUP(ctx, ctor)
			}
			if err == nil && id == 0 {
				if f != nil {
					return fmt.Errorf("directed case: the keeper did not schedule an upload")
				}
				kind = "slc"
				id, err = e.newSLC(ctx)
			}
		}
		if err != nil {
			return fmt.Errorf("create %s: %w", kind, err)
		}
		r.Stat("kind:" + kind)
		return e.driveMessage(ctx, id, kind, &caseKey, f)
	})
	if err != nil {
		t.Fatalf("%s (%s): %v\n%s", name, kind, err, strings.Join(e.lines, "\n"))
	}
	r.Case(caseKey, true)
}

// c07Directed walks deterministically through the boundary classes the random generator reaches
// only now and then:
//   - compass uploads: every shape of the message's constructor input (regular, other arguments,
//     none) x every class of reported deployment call data (the expected string, the bare bytecode,
//     an extension, the bytecode followed by other arguments, a truncation, a flipped byte, an edit);
//   - single use of a remote transaction across its serializations: an update-valset (and a logic
//     call) is attested with a transaction of every class, reported in every serialization, and the
//     SAME transaction is then re-submitted, in the same and in every other serialization, for a
//     second message with identical content;
//   - interchangeable messages: two update-valsets with identical content, the transaction built for
//     the first is presented (unused) for the second.
//
// Every case runs through the same driveMessage/attest path as the random ones, so the same
// monitors and the same model comparison decide it.
func c07Directed(t *testing.T, r *Rec) {
	e := newC07Env(t, r, r.Seed*1000+998)
	n := 0
	run := func(kind string, f *c07Force) {
		n++
		e.runCase(fmt.Sprintf("directed case %d %+v", n, *f), kind, f)
		if n%5 == 0 {
			e.fa.NextBlock()
		}
	}
	for _, ctor := range []string{"empty", "regular", "other"} {
		for i, data := range c07UpDataModes {
			run("up", &c07Force{upCtor: ctor, upData: data, class: []string{"dyn", "legacy", "al"}[i%3]})
		}
	}
	for _, class := range []string{"legacy", "al", "dyn"} {
		run("uv", &c07Force{existing: true, class: class, resubmit: true})
	}
	for enc := 0; enc <= c07Sidecars; enc++ {
		for enc2 := 0; enc2 <= c07Sidecars; enc2++ {
			run("uv", &c07Force{existing: true, class: "blob", enc: enc, resubmit: true, resubEnc: enc2})
		}
	}
	for _, encs := range [][2]int{{0, 0}, {1, 1}, {1, 0}, {0, 2}} {
		run("slc", &c07Force{class: "blob", enc: encs[0], resubmit: true, resubEnc: encs[1]})
	}
	for shape := 0; shape < c07LogShapes; shape++ {
		run("usc", &c07Force{logShape: shape})
	}
	// governance over the set of supported chains between the acceptance of a transaction and its
	// re-submission for a second message with identical content: another chain is removed, added, added
	// and removed again - every transaction class, both kinds whose call data can be presented twice
	k := 0
	for _, g := range c07GovModes {
		for _, kind := range []string{"uv", "slc"} {
			k++
			run(kind, &c07Force{existing: true, class: []string{"dyn", "legacy", "al", "blob"}[k%4], resubmit: true, gov: g})
		}
	}
	// twin update-valsets: the transaction built for the first attests the second
	run("uv", &c07Force{existing: true, class: "dyn", twinFirst: true})
	// a newer compass is saved while the message is in flight: every ABI variant x the genuine
	// transaction and one with unrelated call data; then the variant applied to ANOTHER method, and a
	// message nobody signed (Pack is never reached)
	for _, kind := range []string{"uv", "slc", "usc"} {
		for _, v := range c07AbiVariants {
			run(kind, &c07Force{existing: true, abiVariant: v})
			run(kind, &c07Force{existing: true, abiVariant: v, junk: true})
		}
		run(kind, &c07Force{existing: true, abiVariant: "missing", abiOther: true})
		run(kind, &c07Force{existing: true, abiVariant: "kind-change", abiOther: true, junk: true})
		run(kind, &c07Force{existing: true, abiVariant: "missing", noSigs: true})
		run(kind, &c07Force{existing: true, abiVariant: "unparsable", noSigs: true})
	}
	// ... while the handover of an accepted upload is in flight
	for _, v := range []string{"missing", "drop-param", "unparsable", "compatible"} {
		run("up", &c07Force{upCtor: "regular", upData: "exact", chVariant: v})
		run("up", &c07Force{upCtor: "regular", upData: "exact", chVariant: v, junk: true})
	}
	// upload messages whose own ABI / constructor input is unusable
	for _, ctor := range []string{"unusable", "bad-abi"} {
		for _, data := range []string{"exact", "bytecode-only", "other-args", "flip", "data-edit"} {
			run("up", &c07Force{upCtor: ctor, upData: data})
		}
	}
	// who sent the transaction x which account its call data names as relayer: the genuine encoding
	// names the ASSIGNED relayer and is accepted whoever sent it (the assignee, another validator, an
	// outsider, nobody identifiable); naming anybody else - the transaction's own sender included - is
	// refused whoever sent it
	classes := []string{"dyn", "legacy", "al", "blob"}
	k = 0
	for _, kind := range []string{"uv", "slc", "usc"} {
		for _, from := range []string{"assignee", "validator", "outsider", "unsigned"} {
			for _, names := range []string{"", "sender", "validator", "zero"} {
				if from == "unsigned" && names == "sender" {
					continue
				}
				k++
				run(kind, &c07Force{existing: true, from: from, names: names, class: classes[k%4], enc: k % 3})
			}
		}
		// ... and after the message was re-assigned: what the previous assignee sent names the wrong relayer
		for _, c := range [][2]string{{"previous", "previous"}, {"previous", "sender"}, {"previous", ""}, {"assignee", ""}, {"assignee", "previous"}, {"outsider", "previous"}, {"unsigned", "previous"}} {
			run(kind, &c07Force{existing: true, reassign: true, from: c[0], names: c[1]})
		}
	}
	for _, c := range [][2]string{{"assignee", ""}, {"validator", "sender"}, {"outsider", "sender"}, {"assignee", "validator"}, {"unsigned", ""}, {"validator", ""}} {
		run("up", &c07Force{upCtor: "regular", upData: "exact", chFrom: c[0], chNames: c[1]})
	}
	// the genuine transaction of every kind of message, reported unanimously with a receipt that does
	// not report success: the failure code, and a 32-byte state root where the status code would be
	// (legacy and typed receipts, every root shape)
	k = 0
	for _, kind := range []string{"uv", "slc", "usc", "up"} {
		for root := 0; root <= c07StateRoots; root++ {
			k++
			f := &c07Force{existing: true, class: classes[k%4], root: root, failed: root == 0}
			if kind == "up" {
				f.upCtor, f.upData, f.class = "regular", "exact", classes[k%3]
			}
			run(kind, f)
		}
	}
	for _, kind := range []string{"uv", "slc", "usc"} {
		for i := 0; i < 3; i++ {
			run(kind, &c07Force{existing: true, caseFlip: true, class: classes[i]})
		}
	}
	// the valset id the relayer names in the public access data: the current snapshot, none at all, 0,
	// a snapshot that does not exist, an existing earlier one - with the genuine call data for that
	// choice (the consensus argument built from the valset the keeper selects for it)
	for _, kind := range []string{"uv", "slc", "usc"} {
		for _, pad := range []string{"", "none", "zero", "unknown", "older"} {
			run(kind, &c07Force{existing: true, pad: pad})
			run(kind, &c07Force{existing: true, pad: pad, noSigs: true})
		}
	}
	r.Stat(fmt.Sprintf("directed-cases:%d", n))
}

// c07HostileReceipts (used by the C09 check): user contract uploads relayed with a fully valid
// transaction whose receipt carries every log-list shape, attested by all validators. Returns the op
// histories of the cases in which the attestation loop of the consensus end-blocker panicked (it
// has no recover, so a panic there is an aborted block). Nothing is written to r's op stream.
func c07HostileReceipts(t *testing.T, r *Rec) []string {
	var out []string
	// with the repository's compass ABI, and with a compass ABI (set by governance when the chain is
	// activated) that declares the parameters of ContractDeployed as indexed
	for _, indexed := range []bool{false, true} {
		c07ABIOverride = nil
		if indexed {
			c07ABIOverride = func(j string) string {
				i := strings.Index(j, `"name": "ContractDeployed"`)
				k := strings.LastIndex(j[:i], `"anonymous"`)
				return j[:k] + strings.ReplaceAll(j[k:i], `"indexed": false`, `"indexed": true`) + j[i:]
			}
		}
		e := newC07EnvOpt(t, r, r.Seed*1000+997, true)
		c07ABIOverride = nil
		for shape := 0; shape < c07LogShapes; shape++ {
			for _, class := range []string{"dyn", "legacy"} {
				e.runCase(fmt.Sprintf("hostile receipt shape %d indexed-event-abi %v", shape, indexed), "usc", &c07Force{logShape: shape, class: class})
			}
			e.fa.NextBlock()
		}
		for _, p := range e.panics {
			out = append(out, fmt.Sprintf("(compass ABI with indexed ContractDeployed parameters: %v) %s", indexed, p))
		}
	}
	return out
}

// driveMessage takes message id through estimate, signatures, public access data, evidence and
// attestation, then through the follow-up scenarios (re-submission, handover) and cleans up.
func (e *c07Env) driveMessage(ctx sdk.Context, id uint64, kind string, caseKey *string, f *c07Force) error {
	r := e.r
	// 1. gas estimate (and, for fee payers, the fees) — sometimes evidence arrives before that
	estimated := false
	if kind != "up" && (f != nil || r.Rng.Intn(5) != 0) {
		if err := e.electEstimate(ctx, id, 21_000+uint64(r.Rng.Intn(500_000))); err != nil {
			return fmt.Errorf("estimate: %w", err)
		}
		estimated = true
	}
	if !estimated && kind != "up" {
		r.Stat("evidence-before-estimate:" + kind)
	}
	// 2. signatures from k validators
	k := []int{0, 1, 2, 3, 3, 4, 4, 4}[r.Rng.Intn(8)]
	if f != nil {
		k = 4
		if f.noSigs {
			k = 0
		}
	}
	// 2b. nobody relayed the message in time and it is re-assigned to another validator - before or
	// after the signatures were collected (they stay) - so the relayer the call data must name changes
	reassign := kind != "up" && r.Rng.Intn(6) == 0
	if f != nil {
		reassign = f.reassign
	}
	reassignFirst := r.Rng.Intn(2) == 0
	if reassign && reassignFirst {
		if err := e.reassign(ctx, id); err != nil {
			return err
		}
	}
	if err := e.sign(ctx, id, c07Perm(r, k)); err != nil {
		return fmt.Errorf("sign: %w", err)
	}
	if reassign && !reassignFirst {
		if err := e.reassign(ctx, id); err != nil {
			return err
		}
	}
	// 3. public access data selects the valset
	cur := e.observe(ctx).cur
	padMode := r.Rng.Intn(10)
	if f != nil {
		padMode = map[string]int{"": 9, "none": 0, "unknown": 1, "older": 2, "zero": 3}[f.pad]
	} else if padMode == 2 && r.Rng.Intn(2) == 0 {
		padMode = 3
	}
	if padMode == 2 && cur < 2 {
		padMode = 9
	}
	switch padMode {
	case 0: // none
		r.Stat("pad:none")
	case 1:
		if err := e.publicAccess(ctx, id, cur+9); err != nil { // unknown snapshot
			return err
		}
		r.Stat("pad:unknown-valset")
	case 2: // an EXISTING earlier snapshot (what a bridge contract that missed an update still holds)
		if err := e.publicAccess(ctx, id, cur-1-uint64(r.Rng.Intn(int(cur-1)))); err != nil {
			return err
		}
		r.Stat("pad:older-valset")
	case 3: // public access data that names the valset id 0
		if err := e.publicAccess(ctx, id, 0); err != nil {
			return err
		}
		r.Stat("pad:zero-valset")
	default:
		if err := e.publicAccess(ctx, id, cur); err != nil {
			return err
		}
	}
	s := e.register(ctx, id)

	// 4. the reported transaction
	tx := e.buildTx(s, f)
	r.Stat("tx:" + strings.SplitN(tx.what, ":", 2)[0])
	if tx.root > 0 {
		r.Stat(fmt.Sprintf("receipt:state-root-%d:%s:exact=%v", tx.root, tx.class, tx.exact))
	} else {
		r.Stat(fmt.Sprintf("receipt:%d", tx.status))
	}

	// 4b. meanwhile governance saves a newer compass: from now on the expected call data is built
	// with ITS ABI
	variant, other := "", false
	switch {
	case f != nil:
		variant, other = f.abiVariant, f.abiOther
	case r.Rng.Intn(6) == 0:
		variant, other = c07AbiVariants[r.Rng.Intn(len(c07AbiVariants))], r.Rng.Intn(4) == 0
	}
	compassChanged := false
	if variant != "" && !(f != nil && f.twinFirst) {
		mi := c07MethodOf(kind)
		if mi < 0 {
			mi = r.Rng.Intn(len(c07Methods)) // an upload does not use the compass ABI at all
		} else if other {
			mi = (mi + 1 + r.Rng.Intn(len(c07Methods)-1)) % len(c07Methods)
		}
		compassChanged = e.saveCompass(ctx, c07AbiVariant(e.t, e.abiJSON, variant, c07Methods[mi]), variant)
		who := "own-method"
		if other || kind == "up" {
			who = "other-method"
		}
		if compassChanged {
			e.checkCaps(ctx, s, kind)
			r.Stat(fmt.Sprintf("latest-compass:%s:%s:%s:buildable=%v", variant, who, kind, e.buildable(ctx, s, kind)))
		}
	}

	if f != nil && f.twinFirst && kind == "uv" {
		// interchangeable messages: the transaction built for message id is presented, unused, for
		// its twin id2 (run through the same attest path: same monitors, same model comparison)
		id2, err := e.twinOf(ctx, s, kind)
		if err != nil {
			return err
		}
		evs2 := tx.evs(c07Perm(r, 3))
		if err := e.addEvidence(ctx, id2, evs2); err != nil {
			return err
		}
		class2, fx2 := e.attest(ctx, id2, evs2, kind)
		stillFirst := e.load(ctx, id) != nil
		r.Stat(fmt.Sprintf("observed:uv-twin:tx-built-for-the-first-message-attests-its-twin:%s:fx=%v:first-still-queued=%v", class2, fx2, stillFirst))
		*caseKey = fmt.Sprintf("uv/twin-first/%s/%v/%v", class2, fx2, stillFirst)
		e.cleanup(ctx, id2)
		e.cleanup(ctx, id)
		return nil
	}

	// 4c. governance over the SET of supported chains (c07_gov_test.go): another chain may be supported
	// while the message is attested, and is added / removed between the first attestation and the
	// re-submission of its transaction (step 6)
	govMode := ""
	if kind == "uv" || kind == "slc" {
		if f != nil {
			govMode = f.gov
		} else if r.Rng.Intn(3) == 0 {
			govMode = c07GovModes[r.Rng.Intn(len(c07GovModes))]
		}
	}
	if err := e.govBefore(ctx, govMode); err != nil {
		return err
	}

	// 5. evidence: every validator reports on its own; they need not agree
	var evs []c07Ev
	mode := ""
	perm := r.Rng.Perm(4)
	junk := func() *c07Tx {
		j := e.mkTx(c07TxClasses[r.Rng.Intn(3)], nil, []byte{1})
		j.what, j.status = "junk", 1
		return j
	}
	withReceipt := func(vals []int, status, root int) []c07Ev {
		out := tx.evs(vals)
		for i := range out {
			out[i].status, out[i].root = status, root
		}
		return out
	}
	m := r.Rng.Intn(28)
	if f != nil {
		m = 23
	}
	switch {
	case m < 2: // too few reports
		mode = "no-quorum"
		evs = tx.evs(perm[:1+r.Rng.Intn(2)])
	case m < 4: // two transactions, 2 : 2
		mode = "split-tx-2:2"
		evs = append(tx.evs(perm[:2]), junk().evs(perm[2:])...)
	case m < 5: // two transactions, 3 : 1, the majority reports ours
		mode = "split-tx-3:1"
		evs = append(tx.evs(perm[:3]), junk().evs(perm[3:])...)
		if r.Rng.Intn(2) == 0 {
			evs = append(junk().evs(perm[3:]), tx.evs(perm[:3])...)
		}
	case m < 6: // two transactions, ours is the first-listed minority
		mode = "split-tx-1:3"
		evs = append(tx.evs(perm[:1]), junk().evs(perm[1:])...)
	case m < 12: // SAME transaction, validators disagree on the receipt: success vs failed
		split := [][2]int{{1, 3}, {3, 1}, {2, 2}, {1, 3}, {1, 2}, {2, 1}}[r.Rng.Intn(6)]
		// ... or one side reports a receipt without status code (a state root in its place): neither
		// the success code nor byte-identical to the failure-code receipt
		okRoot, badRoot := 0, 0
		switch r.Rng.Intn(6) {
		case 0:
			badRoot = 1 + r.Rng.Intn(c07StateRoots)
		case 1:
			okRoot = 1 + r.Rng.Intn(c07StateRoots)
		}
		ok := withReceipt(perm[:split[0]], 1, okRoot)
		bad := withReceipt(perm[split[0]:split[0]+split[1]], 0, badRoot)
		mode = fmt.Sprintf("split-receipt-%d:%d", split[0], split[1])
		if okRoot > 0 {
			mode = fmt.Sprintf("split-receipt-root-vs-failed-%d:%d", split[0], split[1])
		} else if badRoot > 0 {
			mode = fmt.Sprintf("split-receipt-success-vs-root-%d:%d", split[0], split[1])
		}
		switch r.Rng.Intn(3) {
		case 0: // success reports first (first-listed minority when it is one)
			evs = append(ok, bad...)
			mode += ":success-first"
		case 1:
			evs = append(bad, ok...)
			mode += ":failed-first"
		default:
			evs = append(ok, bad...)
			r.Rng.Shuffle(len(evs), func(i, j int) { evs[i], evs[j] = evs[j], evs[i] })
			mode += ":mixed"
		}
	case m < 14: // same transaction, same status, receipts differ elsewhere (gas used)
		mode = "split-receipt-variant"
		evs = tx.evs(perm)
		k := 1 + r.Rng.Intn(2)
		for i := 0; i < k; i++ {
			evs[i].variant = 10*tx.shape + 1 + r.Rng.Intn(3)
		}
		if k == 1 {
			mode += "-1:3"
		} else {
			mode += "-2:2"
		}
	case m < 15 && (kind == "uv" || kind == "slc"): // error proof (kinds whose error handling does not touch the tracked state)
		mode = "error-proof"
		for _, i := range perm[:3] {
			evs = append(evs, c07Ev{val: i, kind: "err"})
		}
		if r.Rng.Intn(2) == 0 {
			evs = append(tx.evs(perm[3:]), evs...)
		}
	case m >= 24 && tx.class == "blob":
		// SAME transaction, same receipt, but the validators serialized the transaction differently
		// (canonical form vs network form, or different sidecars): the proofs are different byte strings
		other := (tx.enc + 1 + r.Rng.Intn(c07Sidecars)) % (c07Sidecars + 1)
		split := [][2]int{{1, 3}, {3, 1}, {2, 2}, {2, 1}}[r.Rng.Intn(4)]
		mode = fmt.Sprintf("split-encoding-%d:%d", split[0], split[1])
		evs = tx.evs(perm[:split[0]+split[1]])
		for i := split[0]; i < len(evs); i++ {
			evs[i].enc = other
		}
		if r.Rng.Intn(2) == 0 {
			r.Rng.Shuffle(len(evs), func(i, j int) { evs[i], evs[j] = evs[j], evs[i] })
		}
	default:
		mode = "unanimous"
		evs = tx.evs(perm[:3+r.Rng.Intn(2)])
	}
	r.Stat("evidence:" + mode)
	if err := e.addEvidence(ctx, id, evs); err != nil {
		return err
	}
	grp := e.quorumGroup(ctx, evs)
	winner := "none"
	if grp != nil {
		winner = fmt.Sprintf("%s/%d", grp.kind, grp.status)
		if grp.kind == "tx" && grp.root > 0 {
			winner = "tx/state-root"
			r.Stat(fmt.Sprintf("quorum-on-state-root-receipt:%s:%s:exact=%v", kind, tx.class, grp.tx.exact))
		}
	}
	canBuild := e.buildable(ctx, s, kind)
	class, fx := e.attest(ctx, id, evs, kind)
	r.Stat("class:" + class)
	if !canBuild {
		r.Stat(fmt.Sprintf("encoding-cannot-be-built:%s:%s:%s", kind, strings.SplitN(tx.what, ":", 2)[0], class))
	}
	r.Stat("evidence-outcome:" + strings.SplitN(mode, ":success", 2)[0] + ":" + class)
	*caseKey = fmt.Sprintf("%s/%s/%s/%s/%s/%v", kind, mode, winner, tx.what, class, fx)
	txWon := grp != nil && grp.kind == "tx" && grp.tx == tx
	if txWon && tx.exact && grp.status == 1 && grp.root == 0 {
		r.Stat(fmt.Sprintf("exact-tx:%s:est=%v:sigs=%d:%s:fx=%d", kind, estimated, k, class, len(fx)))
	}
	if class == "panic" {
		if !estimated && (kind == "slc" || kind == "usc") {
			// regression of /repo cab3e325: VerifyAgainstTX dereferencing the nil Fees
			r.Hit("no_panic_on_early_evidence", "evidence before the gas estimate was elected panicked the attestation of a "+kind, e.lines)
		} else {
			r.Hit("no_unexpected_panic", "attestation panicked", e.lines)
		}
	}
	if !estimated && (kind == "slc" || kind == "usc") && txWon {
		r.Stat("early-evidence:" + kind + ":" + class)
	}

	// 6. follow-ups
	resubmit := r.Rng.Intn(2) == 0 || govMode != ""
	if f != nil {
		resubmit = f.resubmit
	}
	// ... what governance does to the set of supported chains meanwhile
	if err := e.govBetween(ctx, govMode, tx); err != nil {
		return err
	}
	if txWon && resubmit && (kind == "uv" || kind == "slc") {
		// re-submission: a second message with the same content, evidence = the SAME transaction
		// (same hash), serialized the same way or - where the transaction has several - another way
		id2, err := e.twinOf(ctx, s, kind)
		if err != nil {
			return err
		}
		// what the quorum reported for the first message, now for the second one
		enc2 := grp.enc
		if tx.class == "blob" {
			enc2 = []int{grp.enc, grp.enc, 0, 1 + r.Rng.Intn(c07Sidecars)}[r.Rng.Intn(4)]
			if f != nil {
				enc2 = f.resubEnc
			}
		}
		r.Stat(fmt.Sprintf("resubmit-enc:%s:%d->%d", tx.class, grp.enc, enc2))
		evs2 := tx.evs(c07Perm(r, 3))
		for i := range evs2 {
			evs2[i].status, evs2[i].root, evs2[i].log, evs2[i].variant, evs2[i].enc = grp.status, grp.root, grp.log, grp.variant, enc2
		}
		if err := e.addEvidence(ctx, id2, evs2); err != nil {
			return err
		}
		class2, _ := e.attest(ctx, id2, evs2, kind)
		r.Stat("resubmit:" + kind + ":" + class2)
		if govMode != "" {
			r.Stat("resubmit-after-chain-governance:" + govMode + ":" + kind + ":first=" + class + ":second=" + class2)
		}
		if class2 == "panic" {
			r.Hit("no_panic_on_early_evidence", "re-submission panicked the attestation", e.lines)
		}
		e.cleanup(ctx, id2)
	}
	if kind == "up" {
		// a scheduled handover: drive the CompassHandover message as well
		o := e.observe(ctx)
		for _, x := range o.queue {
			if e.known[x] {
				continue
			}
			if st := e.load(ctx, x); st != nil && st.msg.GetCompassHandover() != nil {
				r.Stat("kind:ch")
				key := ""
				var fch *c07Force
				if f != nil {
					fch = &c07Force{abiVariant: f.chVariant, junk: f.chVariant != "" && f.junk, from: f.chFrom, names: f.chNames}
				}
				if err := e.driveMessage(ctx, x, "ch", &key, fch); err != nil {
					return fmt.Errorf("handover: %w", err)
				}
				*caseKey += "|" + key
			}
		}
	}
	if compassChanged && (f != nil || r.Rng.Intn(4) != 0) {
		// a yet newer compass with the regular ABI (otherwise the variant stays the latest one for the
		// cases that follow)
		if !e.saveCompass(ctx, e.abiJSON, "regular") {
			return fmt.Errorf("the keeper refused a compass with the regular ABI")
		}
	}
	if err := e.govAfter(ctx); err != nil {
		return err
	}
	e.cleanup(ctx, id)
	return nil
}

// c07AbiVariants: how the ABI of a newer compass may differ from the one the in-flight messages
// were relayed on.  Every variant but the last leaves the verifier unable to build the expected call
// data of the method's messages (Pack finds no such method / refuses the argument list / there is
// no ABI); `compatible` changes the text but not the encoding (parameter names, an additional
// method).
var c07AbiVariants = []string{"missing", "drop-param", "drop-2", "extra-param", "kind-change", "unparsable", "compatible"}

func c07AbiVariant(t *testing.T, base, variant, method string) string {
	if variant == "unparsable" {
		return `[{"type":"function","name":"` + method + `","inputs":[{"name":"x","type":"nosuchtype"}]}]`
	}
	var entries []map[string]any
	if err := json.Unmarshal([]byte(base), &entries); err != nil {
		t.Fatal(err)
	}
	var out []map[string]any
	found := false
	for _, en := range entries {
		if en["type"] != "function" || en["name"] != method {
			out = append(out, en)
			continue
		}
		found = true
		ins := en["inputs"].([]any)
		switch variant {
		case "missing":
			continue
		case "drop-param":
			ins = ins[:len(ins)-1]
		case "drop-2": // e.g. the two-parameter update_valset of an older compass
			ins = ins[:len(ins)-2]
		case "extra-param":
			ins = append(ins[:len(ins):len(ins)], map[string]any{"name": "extra", "type": "uint256"})
		case "kind-change": // the consensus tuple became a number
			ins = append([]any{map[string]any{"name": "consensus", "type": "uint256"}}, ins[1:]...)
		case "compatible":
			var renamed []any
			for i, in := range ins {
				cp := map[string]any{}
				for k, v := range in.(map[string]any) {
					cp[k] = v
				}
				cp["name"] = fmt.Sprintf("arg%d", i)
				renamed = append(renamed, cp)
			}
			ins = renamed
			out = append(out, map[string]any{"type": "function", "name": "c07_added", "inputs": []any{}, "outputs": []any{}, "stateMutability": "nonpayable"})
		default:
			t.Fatalf("c07AbiVariant: %q", variant)
		}
		cp := map[string]any{}
		for k, v := range en {
			cp[k] = v
		}
		cp["inputs"] = ins
		out = append(out, cp)
	}
	if !found {
		t.Fatalf("c07AbiVariant: the compass ABI has no method %s", method)
	}
	bz, err := json.Marshal(out)
	if err != nil {
		t.Fatal(err)
	}
	return string(bz)
}

// saveCompass: governance saves a new compass with the given ABI as the latest one - what
// MsgDeployNewSmartContractProposalV2 does: SaveNewSmartContract + SetAsCompassContract, all or
// nothing.  SetAsCompassContract looks at the ABI only when it schedules the deployment to a chain,
// and it schedules none while another deployment is pending there: when the keeper refuses the ABI
// as it is, the same proposal is tried behind a pending deployment of a regular newer compass.
// The uploads scheduled on the way are none of this case's business and are withdrawn again.
func (e *c07Env) saveCompass(parent sdk.Context, abiJSON, what string) bool {
	a := e.fa.App()
	try := func(behindPending bool) bool {
		ctx, write := parent.CacheContext()
		before := e.observe(ctx)
		var ids []uint64
		texts := []string{abiJSON}
		if behindPending {
			texts = []string{e.abiJSON, abiJSON}
		}
		for _, text := range texts {
			sc, err := a.EvmKeeper.SaveNewSmartContract(ctx, text, append([]byte{0x60, 0x03}, c05Bytes(e.r, 1+e.r.Rng.Intn(8))...))
			if err == nil {
				err = a.EvmKeeper.SetAsCompassContract(ctx, sc)
			}
			if err != nil {
				return false
			}
			ids = append(ids, sc.Id)
		}
		seen := map[uint64]bool{}
		for _, x := range before.queue {
			seen[x] = true
		}
		for _, x := range e.observe(ctx).queue {
			if st := e.load(ctx, x); !seen[x] && st != nil && st.msg.GetUploadSmartContract() != nil {
				if err := a.ConsensusKeeper.DeleteJob(ctx, e.queue, x); err != nil {
					e.t.Fatal(err)
				}
			}
		}
		for _, cid := range ids {
			if before.deps[cid] == "" {
				a.EvmKeeper.DeleteSmartContractDeploymentByContractID(ctx, cid, c07Chain)
			}
		}
		write()
		return true
	}
	if try(false) {
		e.r.Stat("compass-saved:" + what)
		return true
	}
	if try(true) {
		e.r.Stat("compass-saved-behind-a-pending-deployment:" + what)
		return true
	}
	e.r.Stat("compass-refused-by-the-keeper:" + what)
	return false
}

// buildable: can the expected call data of the stored message be built from what the keeper holds
// now - for an upload from the message itself, otherwise from the ABI of the latest compass (Pack is
// only reached with at least one signature)?  From the keeper state and the message alone.
func (e *c07Env) buildable(ctx sdk.Context, s *c07Stored, kind string) bool {
	if up := s.msg.GetUploadSmartContract(); up != nil {
		return c07UpOk(e.t, up)
	}
	o := e.observe(ctx)
	cur := e.load(ctx, s.q.GetId())
	if cur == nil {
		cur = s
	}
	return o.caps.parses && (len(cur.q.GetSignData()) == 0 || o.caps.method[c07MethodOf(kind)])
}

// checkCaps keeps the generator inside the class the model covers: a delivery method the latest
// compass declares with the repository's parameter list packs the message's arguments to the same
// bytes as before, and one it declares differently (or not at all) does not pack them at all.
func (e *c07Env) checkCaps(ctx sdk.Context, s *c07Stored, kind string) {
	mi := c07MethodOf(kind)
	o := e.observe(ctx)
	if mi < 0 || !o.caps.parses {
		return
	}
	parsed, err := abi.JSON(strings.NewReader(o.latest))
	if err != nil {
		e.t.Fatal(err)
	}
	ca := e.relayerArgs(s, len(s.q.GetSignData()))
	got, err := parsed.Pack(ca.method, ca.args...)
	if (err == nil) != o.caps.method[mi] {
		e.t.Fatalf("generator: latest compass ABI declares %s as the repository's: %v, but packing gives: %v", ca.method, o.caps.method[mi], err)
	}
	if err == nil {
		if want, err := e.abi.Pack(ca.method, ca.args...); err != nil || !bytes.Equal(want, got) {
			e.t.Fatalf("generator: the latest compass packs %s to other bytes", ca.method)
		}
	}
}

// twinOf queues a second message with the same content as the stored message s (same action, same
// elected estimate, same signers in the same order, same public access data) and registers it with
// the model; an update-valset's call data for the twin is then byte-identical to that of s.
func (e *c07Env) twinOf(ctx sdk.Context, s *c07Stored, kind string) (uint64, error) {
	var id2 uint64
	var err error
	if kind == "uv" {
		uv := s.msg.GetUpdateValset()
		id2, err = e.fa.App().ConsensusKeeper.PutMessageInQueue(ctx, e.queue, &evmtypes.Message{
			TurnstoneID: s.msg.TurnstoneID, ChainReferenceID: c07Chain, Assignee: s.msg.Assignee,
			AssigneeRemoteAddress: s.msg.AssigneeRemoteAddress, AssignedAtBlockHeight: s.msg.AssignedAtBlockHeight,
			Action: &evmtypes.Message_UpdateValset{UpdateValset: uv},
		}, &consensus.PutOptions{RequireGasEstimation: true, RequireSignatures: true})
	} else {
		id2, err = e.newSLC(ctx)
	}
	if err != nil {
		return 0, err
	}
	if est := s.q.GetGasEstimate(); est != 0 {
		if err := e.electEstimate(ctx, id2, est); err != nil {
			return 0, err
		}
	}
	// same signers in the same order, so that an update-valset call data is byte-identical
	var order []int
	for _, sd := range s.q.GetSignData() {
		for i, v := range e.fa.Vals {
			if v.ValAddr().Equals(sd.ValAddress) {
				order = append(order, i)
			}
		}
	}
	if err := e.sign(ctx, id2, order); err != nil {
		return 0, err
	}
	if pad := s.q.GetPublicAccessData(); pad != nil {
		if err := e.publicAccess(ctx, id2, pad.ValsetID); err != nil {
			return 0, err
		}
	}
	e.register(ctx, id2)
	return id2, nil
}

// cleanup removes a message that is still stored (rejected without commit) so that the next
// case starts clean; pending compass deployments are left for newUP to clear.
func (e *c07Env) cleanup(ctx sdk.Context, id uint64) {
	if e.load(ctx, id) != nil {
		if err := e.fa.App().ConsensusKeeper.DeleteJob(ctx, e.queue, id); err != nil {
			e.t.Fatal(err)
		}
		e.r.Stat("left-in-queue")
	}
	e.op(fmt.Sprintf("rm %d", id), "ok")
}

// c07EarlyEvidenceBlock is the block-abort scenario of the nil-Fees defect fixed by /repo
// cab3e325, through REAL transactions and the REAL end blocker (exported for the C09 check):
//   - a SubmitLogicCall is enqueued on an active EVM chain (the first active one; "c07early" is
//     activated when there is none) through AddSmartContractExecutionToConsensus; no gas
//     estimate is ever submitted, so its Fees stay nil;
//   - every validator reports the same successful transaction for it with a MsgAddEvidence tx,
//     all in ONE block, so the consensus end blocker of that very block sees a quorum and attests.
//
// The result of that block is returned.  Before the fix FinalizeBlock panicked (b.Panic contains
// "nil pointer", fa is Broken until Restart()); now the block must be OK.  It fails the test only
// when the scenario cannot be set up.
func c07EarlyEvidenceBlock(t *testing.T, fa *FullApp) FABlockResult {
	t.Helper()
	chain := ""
	if names := fa.App().EvmKeeper.GetActiveChainNames(fa.CtxCached()); len(names) > 0 {
		chain = names[0]
	} else {
		chain = "c07early"
		if b, err := fa.ActivateEVMChain(FAEvmChain{RefID: chain, ChainID: 4243, ABI: c05CompassABI(t), Bytecode: []byte{0x60, 0x01}}); err != nil || !b.OK() {
			t.Fatalf("c07EarlyEvidenceBlock: activate: %v %v", err, b.Err)
		}
	}
	if b := fa.KeepAliveAll(); !b.OK() {
		t.Fatalf("c07EarlyEvidenceBlock: keep alive: %v %s", b.Err, b.Panic)
	}
	queue := consensustypes.Queue(evmtypes.ConsensusTurnstoneMessage, "evm", chain)
	var id uint64
	if _, err := fa.WithDeliverCtx(func(ctx sdk.Context) error {
		ci, err := fa.App().EvmKeeper.GetChainInfo(ctx, chain)
		if err != nil {
			return err
		}
		id, err = fa.App().EvmKeeper.AddSmartContractExecutionToConsensus(ctx, chain, string(ci.SmartContractUniqueID), &evmtypes.SubmitLogicCall{
			HexContractAddress: "0x00000000000000000000000000000000000000aa", Abi: []byte("[]"), Payload: []byte{0x01, 0x02},
			Deadline: ctx.BlockTime().Unix() + 600, SenderAddress: fa.Vals[0].Addr,
		})
		return err
	}); err != nil {
		t.Fatalf("c07EarlyEvidenceBlock: enqueue: %v", err)
	}
	// any successful transaction will do: the defect was hit before the call data is compared
	key, _ := ethcrypto.ToECDSA(ethcrypto.Keccak256([]byte("c07-early-evidence")))
	to := common.HexToAddress("0x00000000000000000000000000000000000000C0")
	chainID := big.NewInt(4243)
	tx, err := ethtypes.SignNewTx(key, ethtypes.NewLondonSigner(chainID), &ethtypes.DynamicFeeTx{
		ChainID: chainID, Nonce: uint64(fa.Height()), To: &to, Data: []byte{0xa9, 0x30, 0xe8, 0xdc}, Gas: 100_000,
		GasFeeCap: big.NewInt(1_000_000_000), GasTipCap: big.NewInt(1),
	})
	if err != nil {
		t.Fatal(err)
	}
	raw, _ := tx.MarshalBinary()
	rc, _ := (&ethtypes.Receipt{Type: ethtypes.DynamicFeeTxType, Status: ethtypes.ReceiptStatusSuccessful, CumulativeGasUsed: 21000}).MarshalBinary()
	proof, err := codectypes.NewAnyWithValue(&evmtypes.TxExecutedProof{SerializedTX: raw, SerializedReceipt: rc})
	if err != nil {
		t.Fatal(err)
	}
	var txs []FATx
	for i := range fa.Vals {
		v := fa.ValidatorOperator(i)
		txs = append(txs, FATx{Signers: []*FAAccount{v}, Msgs: []sdk.Msg{&consensustypes.MsgAddEvidence{
			Proof: proof, MessageID: id, QueueTypeName: queue, Metadata: FAMeta(v.Addr, v.Addr),
		}}})
	}
	b := fa.DeliverTxs(txs...)
	if b.OK() {
		for i, x := range b.Txs {
			if !x.OK() {
				t.Fatalf("c07EarlyEvidenceBlock: MsgAddEvidence of validator %d rejected: %s", i, x.Log)
			}
		}
	}
	return b
}

// c07EndBlockerScenario runs c07EarlyEvidenceBlock on a fresh app and turns a block abort into
// a monitor hit; it also checks that the attestation really ran (message gone from the queue).
func c07EndBlockerScenario(t *testing.T, r *Rec) {
	e := newC07Env(t, r, r.Seed*1000+999)
	before := len(e.observe(e.fa.CtxCached()).queue)
	b := c07EarlyEvidenceBlock(t, e.fa)
	r.Case("early-evidence-block", true)
	if !b.OK() {
		first := b.Panic
		if i := strings.Index(first, "\n"); i > 0 {
			first = first[:i]
		}
		r.Hit("no_panic_on_early_evidence", fmt.Sprintf("block with quorum evidence for a SubmitLogicCall without fees did not commit: %v %s", b.Err, first),
			"c07EarlyEvidenceBlock: AddSmartContractExecutionToConsensus; MsgAddEvidence x4 in one block; no gas estimate")
		e.fa.Restart()
		return
	}
	r.Stat("early-evidence-block:ok")
	// the junk transaction does not verify: ErrEthTxNotVerified is committed, the message is removed
	if after := len(e.observe(e.fa.CtxCached()).queue); after != before {
		r.Stat(fmt.Sprintf("early-evidence-block:queue-%d-to-%d", before, after))
	} else {
		r.Stat("early-evidence-block:message-attested-and-removed")
	}
}
