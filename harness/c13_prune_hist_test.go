//go:build verif

// C13 part B, message LIVES: the class the one-shot prune cases of TestC13Prune never visited is a queued
// message that keeps being rewritten between the evidence submissions and the prune.  Every keeper entry
// point that loads, changes and saves a queued message is driven here, in any order, on the real
// keepers (full app, message router):
//
//	error report, delivery report (also the delivery report that FOLLOWS an error report:
//	Queue.SetPublicAccessData refuses only when a delivery report exists), repeated reports,
//	evidence before / between / after the reports, re-submissions, gas estimates, the end-block
//	election (SetElectedGasEstimate clears SignData), valid signatures, a new current snapshot at any
//	point, other messages in the same queue (with their own reports, evidence, removal and prune),
//	removal of the message itself, a second prune.
//
// One op line per case, `prune hist <event> …` (events: see Driver/Queue.lean parseLifeEvent?), answered
// with the validators each PruneJob of the case newly jailed; the Lean side runs the same life through
// the world machine of Props/C13 (`pruneLog`).  The monitors evaluate the property on what the validators
// DID: whose MsgAddEvidence the chain accepted for the message, whether a report was ever accepted.
package harness

import (
	"encoding/hex"
	"fmt"
	"math/big"
	"sort"
	"strings"
	"testing"

	codectypes "github.com/cosmos/cosmos-sdk/codec/types"
	sdk "github.com/cosmos/cosmos-sdk/types"
	ethcrypto "github.com/ethereum/go-ethereum/crypto"
	consensuskeeper "github.com/palomachain/paloma/v2/x/consensus/keeper/consensus"
	consensustypes "github.com/palomachain/paloma/v2/x/consensus/types"
	evmkeeper "github.com/palomachain/paloma/v2/x/evm/keeper"
	evmtypes "github.com/palomachain/paloma/v2/x/evm/types"
)

// c13TxProofHash is the proof id under which a TxExecutedProof (a real serialized transaction) is
// submitted; all other ids are SmartContractExecutionErrorProofs with the message "h<id>".
const c13TxProofHash = 999

const c13SerializedTx = "02f87201108405f5e100850b68a0aa00825208941f9c2e67dbbe4c457a5e2be0bc31e67ce5953a2d87470de4df82000080c001a0e05de0771f8d577ec5aa440612c0e8f560d732d5162db0187cfaf56ac50c3716a0147565f4b0924a5adda25f55330c385448e0507d1219d4dac0950e2872682124"

// c13Msg is what the harness knows about one message of the case from the answers of the chain alone.
type c13Msg struct {
	real      uint64
	reqEst    bool
	inQueue   bool
	delivered bool         // a MsgSetPublicAccessData / MsgSetErrorData was accepted while the message was queued
	errFirst  bool         // an error report was accepted before any delivery report
	suppliers map[int]bool // model ids of the validators whose MsgAddEvidence was accepted
	estimated map[int]bool
	signed    map[int]bool
}

type c13Life struct {
	t      *testing.T
	r      *Rec
	fx     *q06Fix
	c      *q06Case
	msgs   []*c13Msg // index+1 = id on the protocol line (ids in the order of the puts)
	events []string
	out    []string
	pruned int
}

func (l *c13Life) ev(format string, a ...interface{}) {
	l.events = append(l.events, fmt.Sprintf(format, a...))
}

// snapshot makes a new snapshot current: bonded validators only (valset.Jail cannot jail an address staking
// does not know), at most 8 of the 10 equally staked validators (valset.Jail's own protections never refuse),
// totals that put the 10 % floor within reach.
func (l *c13Life) snapshot() {
	r, fx := l.r, l.fx
	env := r.q06GenEnv(fx, 8)
	kept := env.vals[:0]
	env.total = 0
	for _, v := range env.vals {
		if _, ok := fx.idVal[v.id]; ok {
			kept = append(kept, v)
			env.total += v.share
		}
	}
	env.vals = kept
	switch r.Rng.Intn(6) {
	case 0:
		env.total *= 10
	case 1:
		env.total = env.total*10 + int64(r.Rng.Intn(3)) - 1
	case 2:
		env.total *= int64(2 + r.Rng.Intn(8))
	}
	if env.total < 0 {
		env.total = 0
	}
	if err := fx.writeEnv(l.c.ctx, env); err != nil {
		l.t.Fatal(err)
	}
	l.c.obs = fx.readObs(l.c.ctx)
	var ps []string
	for _, v := range l.c.obs.vals {
		ps = append(ps, fmt.Sprintf("%d:%s", v.id, l.c.obs.shares[v.id]))
	}
	vs := "-"
	if len(ps) > 0 {
		vs = strings.Join(ps, ",")
	}
	l.ev("snap/%s/%s", l.c.obs.total, vs)
}

func (l *c13Life) put(forceEstimation bool) int {
	kind := []string{"s", "s", "u", "o", "v"}[l.r.Rng.Intn(5)]
	req := forceEstimation || l.r.Rng.Intn(3) != 0
	l.c.content++
	sender := 1
	if kind == "v" || kind == "o" {
		sender = 0
	}
	m, err := l.c.action(kind, l.c.content, sender, false)
	if err != nil {
		l.t.Fatal(err)
	}
	m.Assignee, m.AssigneeRemoteAddress = l.fx.fa.ValAddr(0).String(), l.fx.addrStr[4]
	id, err := l.fx.fa.App().ConsensusKeeper.PutMessageInQueue(l.c.ctx, l.fx.queue, m, &consensuskeeper.PutOptions{RequireGasEstimation: req, RequireSignatures: true})
	if err != nil {
		l.t.Fatal(err)
	}
	l.msgs = append(l.msgs, &c13Msg{real: id, reqEst: req, inQueue: true, suppliers: map[int]bool{}, estimated: map[int]bool{}, signed: map[int]bool{}})
	l.ev("put/%s/%s", kind, q06B(req))
	l.r.Stat("life.put." + kind)
	return len(l.msgs)
}

func (l *c13Life) proof(h int) *codectypes.Any {
	var any *codectypes.Any
	var err error
	if h == c13TxProofHash {
		tx, _ := hex.DecodeString(c13SerializedTx)
		any, err = codectypes.NewAnyWithValue(&evmtypes.TxExecutedProof{SerializedTX: tx})
	} else {
		any, err = codectypes.NewAnyWithValue(&evmtypes.SmartContractExecutionErrorProof{ErrorMessage: fmt.Sprintf("h%d", h)})
	}
	if err != nil {
		l.t.Fatal(err)
	}
	return any
}

// evidence: validator vi submits proof h for message mi.  Recorded as done iff the chain accepted it.
func (l *c13Life) evidence(mi, vi, h int) {
	m, v := l.msgs[mi-1], l.fx.fa.Vals[vi]
	err := l.c.route(&consensustypes.MsgAddEvidence{Proof: l.proof(h), MessageID: m.real, QueueTypeName: l.fx.queue, Metadata: FAMeta(v.Addr, v.Addr)})
	if err != nil {
		if m.inQueue {
			l.t.Fatalf("evidence for a queued message refused: %v", err)
		}
		l.r.Stat("life.ev.refused")
		return
	}
	vid := l.fx.valID[vi]
	switch {
	case m.suppliers[vid]:
		l.r.Stat("life.ev.resubmission")
	case !m.delivered:
		l.r.Stat("life.ev.before_any_report")
	case m.errFirst:
		l.r.Stat("life.ev.after_report_change")
	default:
		l.r.Stat("life.ev.after_report")
	}
	m.suppliers[vid] = true
	l.ev("ev/%d/%d/%d", mi, vid, h)
}

func (l *c13Life) report(mi, vi int, which string) {
	m, v := l.msgs[mi-1], l.fx.fa.Vals[vi]
	var msg sdk.Msg = &consensustypes.MsgSetPublicAccessData{MessageID: m.real, QueueTypeName: l.fx.queue, Data: []byte{1, byte(l.r.Rng.Intn(4))}, ValsetID: 1, Metadata: FAMeta(v.Addr, v.Addr)}
	if which == "err" {
		msg = &consensustypes.MsgSetErrorData{MessageID: m.real, QueueTypeName: l.fx.queue, Data: []byte{2, byte(l.r.Rng.Intn(4))}, Metadata: FAMeta(v.Addr, v.Addr)}
	}
	if err := l.c.route(msg); err != nil {
		if m.inQueue {
			l.t.Fatalf("report for a queued message refused: %v", err)
		}
		l.r.Stat("life.report.refused")
		return
	}
	if which == "pub" && m.delivered && m.errFirst && len(m.suppliers) > 0 {
		l.r.Stat("life.report.delivery_after_attested_error")
	}
	if which == "err" && !m.delivered {
		m.errFirst = true
	}
	m.delivered = true
	l.ev("%s/%d", which, mi)
	l.r.Stat("life.report." + which)
}

func (l *c13Life) estimate(mi, vi int, value uint64) {
	m, v := l.msgs[mi-1], l.fx.fa.Vals[vi]
	err := l.c.route(&consensustypes.MsgAddMessageGasEstimates{Metadata: FAMeta(v.Addr, v.Addr), Estimates: []*consensustypes.MsgAddMessageGasEstimates_GasEstimate{
		{MsgId: m.real, QueueTypeName: l.fx.queue, Value: value, EstimatedByAddress: v.EthAddr.Hex()}}})
	if err != nil {
		l.r.Stat("life.est.refused")
		return
	}
	m.estimated[l.fx.valID[vi]] = true
	l.ev("est/%d/%d/%d", mi, l.fx.valID[vi], value)
	l.r.Stat("life.est.ok")
}

// endBlock runs the election of the consensus end-blocker on a cached context, like the module does.
func (l *c13Life) endBlock() {
	before := map[uint64]uint64{}
	for _, m := range l.c.msgs() {
		before[m.GetId()] = m.GetGasEstimate()
	}
	cctx, commit := l.c.ctx.CacheContext()
	ok := func() (ok bool) {
		defer func() {
			if p := recover(); p != nil {
				ok = false
			}
		}()
		return l.fx.fa.App().ConsensusKeeper.CheckAndProcessEstimatedMessages(cctx) == nil
	}()
	if !ok {
		l.r.Stat("life.endblock.failed")
		return
	}
	commit()
	for _, m := range l.c.msgs() {
		if before[m.GetId()] == 0 && m.GetGasEstimate() != 0 {
			l.r.Stat("life.elected")
			for _, x := range l.msgs {
				if x.real == m.GetId() && len(x.suppliers) > 0 {
					l.r.Stat("life.elected_with_evidence_on_record")
				}
			}
		}
	}
	l.ev("eb")
}

// sign: validator vi signs the message's current bytes with its own registered key.
func (l *c13Life) sign(mi, vi int) {
	m, v := l.msgs[mi-1], l.fx.fa.Vals[vi]
	qm := l.c.msg(m.real)
	if qm == nil {
		return
	}
	h := ethcrypto.Keccak256(append([]byte(evmkeeper.SignaturePrefix), l.c.bytesOf(qm)...))
	sig, err := ethcrypto.Sign(h, l.fx.ethKeys[vi])
	if err != nil {
		l.t.Fatal(err)
	}
	err = l.c.route(&consensustypes.MsgAddMessagesSignatures{Metadata: FAMeta(v.Addr, v.Addr), SignedMessages: []*consensustypes.ConsensusMessageSignature{
		{Id: m.real, QueueTypeName: l.fx.queue, Signature: sig, SignedByAddress: l.fx.addrStr[4*(vi+1)]}}})
	if err != nil {
		l.r.Stat("life.sig.refused")
		return
	}
	m.signed[l.fx.valID[vi]] = true
	l.ev("sig/%d/%d", mi, l.fx.valID[vi])
	l.r.Stat("life.sig.ok")
}

func (l *c13Life) remove(mi int) {
	m := l.msgs[mi-1]
	if err := l.fx.fa.App().ConsensusKeeper.DeleteJob(l.c.ctx, l.fx.queue, m.real); err != nil {
		if m.inQueue {
			l.t.Fatalf("DeleteJob: %v", err)
		}
		l.r.Stat("life.rm.absent")
		return
	}
	m.inQueue = false
	l.ev("rm/%d", mi)
	l.r.Stat("life.rm")
}

func (l *c13Life) jailedSet() map[int]bool {
	out := map[int]bool{}
	for vi := 0; vi < l.fx.n; vi++ {
		if j, _ := l.fx.fa.App().ValsetKeeper.IsJailed(l.c.ctx, l.fx.fa.ValAddr(vi)); j {
			out[vi] = true
		}
	}
	return out
}

// prune runs PruneJob on message mi and evaluates the property on whom it jailed.
func (l *c13Life) prune(mi int) {
	m := l.msgs[mi-1]
	before := l.jailedSet()
	err := l.fx.fa.App().ConsensusKeeper.PruneJob(l.c.ctx, l.fx.queue, m.real)
	if err != nil && m.inQueue {
		l.t.Fatalf("PruneJob: %v", err)
	}
	var jailed []int
	for vi := range l.jailedSet() {
		if !before[vi] {
			jailed = append(jailed, l.fx.valID[vi])
		}
	}
	sort.Ints(jailed)
	l.ev("prune/%d", mi)
	js := make([]uint64, len(jailed))
	for i, j := range jailed {
		js[i] = uint64(j)
	}
	l.out = append(l.out, u64List(js))
	l.pruned++

	obs := l.c.obs
	votes := new(big.Int)
	var sup []int
	for vid := range m.suppliers {
		sup = append(sup, vid)
		if s, ok := obs.shares[vid]; ok {
			votes.Add(votes, s)
		}
	}
	sort.Ints(sup)
	input := map[string]interface{}{"events": strings.Join(l.events, " "), "pruned_message": mi, "accepted_evidence_from": sup,
		"report_accepted": m.delivered, "in_queue": m.inQueue, "jailed": jailed, "snapshot_total": obs.total.String()}
	for _, j := range jailed {
		if m.suppliers[j] {
			l.r.Hit("prune_spares_attesters", fmt.Sprintf("validator %d supplied evidence for the pruned message (the chain accepted its MsgAddEvidence) and was jailed", j), input)
		}
		if _, ok := obs.shares[j]; !ok {
			l.r.Hit("prune_only_snapshot", fmt.Sprintf("validator %d is not in the snapshot and was jailed", j), input)
		}
	}
	if len(jailed) > 0 && new(big.Int).Mul(votes, bi(10)).Cmp(obs.total) < 0 {
		l.r.Hit("prune_floor", fmt.Sprintf("jailed although only %s of %s attested", votes, obs.total), input)
	}
	if len(jailed) > 0 && !m.delivered {
		l.r.Hit("prune_undelivered", "jailed for a message without delivery report", input)
	}
	if len(jailed) > 0 && !m.inQueue {
		l.r.Hit("prune_undelivered", "jailed for a message that had left the queue", input)
	}
	switch {
	case !m.inQueue:
		l.r.Stat("life.prune.absent")
	case !m.delivered:
		l.r.Stat("life.prune.undelivered")
	case len(m.suppliers) == 0:
		l.r.Stat("life.prune.noevidence")
	case len(jailed) == 0:
		l.r.Stat("life.prune.nobody")
	default:
		l.r.Stat("life.prune.jailed")
		if m.errFirst {
			l.r.Stat("life.prune.jailed_after_error_report")
		}
	}
	m.inQueue = false
}

func (l *c13Life) randVal() int { return l.r.Rng.Intn(l.fx.n) }

// snapVal picks a validator of the current snapshot (any validator when the snapshot is empty).
func (l *c13Life) snapVal() int {
	if vs := l.c.obs.vals; len(vs) > 0 && l.r.Rng.Intn(6) != 0 {
		if vi, ok := l.fx.idVal[vs[l.r.Rng.Intn(len(vs))].id]; ok {
			return vi
		}
	}
	return l.randVal()
}

func (l *c13Life) randProof(vi int) int {
	switch l.r.Rng.Intn(6) {
	case 0:
		return 1 + l.r.Rng.Intn(2) // a proof others share
	case 1:
		return c13TxProofHash
	case 2:
		return 200 + vi + 50*l.r.Rng.Intn(2)
	}
	return 100 + vi
}

// quorum: the snapshot validators (most of them) estimate, so that the next end-block can elect.
func (l *c13Life) quorum(mi int) {
	base := uint64(21000 + 1000*l.r.Rng.Intn(5))
	for _, sv := range l.c.obs.vals {
		vi, ok := l.fx.idVal[sv.id]
		if !ok || l.r.Rng.Intn(8) == 0 {
			continue
		}
		l.estimate(mi, vi, base+uint64(l.r.Rng.Intn(3)))
	}
}

// step performs one random event; `target` is favoured.
func (l *c13Life) step(target int) {
	r := l.r
	mi := target
	if len(l.msgs) > 1 && r.Rng.Intn(4) == 0 {
		mi = 1 + r.Rng.Intn(len(l.msgs))
	}
	switch x := r.Rng.Intn(100); {
	case x < 42:
		vi := l.snapVal()
		l.evidence(mi, vi, l.randProof(vi))
	case x < 56:
		l.report(mi, l.randVal(), []string{"pub", "err"}[r.Rng.Intn(2)])
	case x < 66:
		if r.Rng.Intn(3) == 0 {
			l.quorum(mi)
		} else {
			l.estimate(mi, l.snapVal(), uint64(20000+r.Rng.Intn(5000)))
		}
	case x < 73:
		l.endBlock()
	case x < 82:
		l.sign(mi, l.randVal())
	case x < 87:
		l.snapshot()
	case x < 91:
		l.put(false)
	case x < 94:
		if mi != target || r.Rng.Intn(6) == 0 {
			l.remove(mi)
		}
	default:
		// a bystander is pruned: only one that jails nobody by the property itself (no report accepted, or
		// gone already), so that valset.Jail's own protections stay out of reach for the prune of the target
		if mi != target && (!l.msgs[mi-1].delivered || !l.msgs[mi-1].inQueue) {
			l.prune(mi)
		}
	}
}

func (l *c13Life) steps(n, target int) {
	for ; n > 0; n-- {
		l.step(target)
	}
}

// c13PruneLives runs n message lives (see the file comment).
func c13PruneLives(t *testing.T, r *Rec, fx *q06Fix, n int) {
	for i := 0; i < n; i++ {
		fx.hookCase(func(ctx sdk.Context) {
			c := &q06Case{fx: fx, r: r, ctx: ctx, hist: map[uint64][]string{}, bhist: map[uint64][]string{}, keyAtSign: map[string][]byte{},
				prevSigs: map[uint64]map[string]bool{}, prevBytes: map[uint64]string{}, mevOf: map[uint64]bool{}}
			l := &c13Life{t: t, r: r, fx: fx, c: c}
			l.snapshot()
			mode := []string{"random", "report_change", "election", "signatures"}[r.Rng.Intn(4)]
			if r.Rng.Intn(3) == 0 {
				l.put(false) // the target is not the first message of the queue
			}
			target := l.put(mode == "election")
			r.Stat("life.mode." + mode)
			few := func() int { return r.Rng.Intn(3) }
			attest := func(k int) {
				for ; k > 0; k-- {
					vi := l.snapVal()
					l.evidence(target, vi, l.randProof(vi))
					l.steps(r.Rng.Intn(2), target)
				}
			}
			switch mode {
			case "random":
				l.steps(5+r.Rng.Intn(10), target)
			case "report_change":
				// the relayer reports an error, validators attest to it; a delivery report is recorded after all,
				// others attest to that
				attest(few())
				l.report(target, l.randVal(), "err")
				attest(1 + few())
				l.report(target, l.randVal(), "pub")
				attest(r.Rng.Intn(4))
				l.steps(r.Rng.Intn(3), target)
			case "election":
				// evidence on record while estimates come in and the end-block elects one (SignData is cleared)
				attest(1 + few())
				if r.Rng.Intn(2) == 0 {
					l.sign(target, l.randVal())
				}
				l.quorum(target)
				l.endBlock()
				attest(few())
				l.report(target, l.randVal(), []string{"pub", "err"}[r.Rng.Intn(2)])
				attest(few())
			case "signatures":
				l.report(target, l.randVal(), []string{"pub", "err"}[r.Rng.Intn(2)])
				for k := 2 + r.Rng.Intn(4); k > 0; k-- {
					attest(1)
					l.sign(target, l.snapVal())
				}
			}
			if r.Rng.Intn(8) != 0 && !l.msgs[target-1].delivered {
				l.report(target, l.randVal(), []string{"pub", "err"}[r.Rng.Intn(2)])
				attest(few())
			}
			if r.Rng.Intn(4) == 0 {
				l.snapshot() // valset rotation between the last submission and the prune
				r.Stat("life.rotated_before_prune")
			}
			m := l.msgs[target-1]
			nontrivial := m.inQueue && m.delivered && len(m.suppliers) > 0
			l.prune(target)
			if r.Rng.Intn(4) == 0 {
				l.prune(target) // the message is gone: nobody
			}
			r.Op("prune hist "+strings.Join(l.events, " "), strings.Join(l.out, " "))
			r.Case(fmt.Sprintf("life|%s", strings.Join(l.events, " ")), nontrivial)
		})
	}
}
