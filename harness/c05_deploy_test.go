//go:build verif

package harness

import (
	"bytes"
	"encoding/hex"
	"fmt"
	"strings"
	"testing"

	sdkmath "cosmossdk.io/math"
	sdk "github.com/cosmos/cosmos-sdk/types"
	authtypes "github.com/cosmos/cosmos-sdk/x/auth/types"
	govtypes "github.com/cosmos/cosmos-sdk/x/gov/types"
	consensustypes "github.com/palomachain/paloma/v2/x/consensus/types"
	evmtypes "github.com/palomachain/paloma/v2/x/evm/types"
	skywaytypes "github.com/palomachain/paloma/v2/x/skyway/types"
)

// C05, keeper layer of the bridge batches: WHICH bridge deployment id do the bytes bind that the
// chain asks validators to sign.
//
// The pure layer (c05_test.go) hands `GetCheckpoint` a deployment id of its own choice; here the
// id is supplied by the keeper: `BuildOutgoingTXBatch` issues a batch's BytesToSign,
// `UpdateBatchGasEstimate` re-issues them once the gas estimate is elected.  The histories give a
// chain more than one deployment (compass upgrades), deliver the activation of an OLDER compass
// late (the evm module ignores it, but still publishes the activation event, so the skyway
// module's private "latest compass id" record no longer agrees with the chain info), round-trip the
// skyway module through its genesis (the record is not exported), and run three chains with
// different deployment ids side by side.
//
// Ops (model: `depStep` in Model/SignBytes.lean; the model keeps the chain info AND the record):
//   bdep reset
//   bdep chain <c> <activeId> <uid> <record>            observed initial state of chain c
//   bdep activate <c> <scId> <uid>       → chain <activeId> <uid> <record> | nochain
//   bdep build <c> <token> <dests> <txTokens> <amounts> <nonce> <timeout> <relayer>   → ok <BytesToSign> | …
//   bdep elect <token> <nonce> <estimate>               → ok <BytesToSign> | notfound | already | nochain
//   bdep reimport                         → ok     (skyway ExportGenesis / InitGenesis)
//   bdep rec <c>                          → rec <record>
//   bdep uv <c> <relayer> <id> <estimate> <validators> <powers> <valsetId>   → <GetBytesToSign> | nochain
//        an UpdateValset message the evm keeper itself queued for chain c (PublishSnapshotToAllChains): the
//        line does NOT carry the deployment id, the model signs with the id of ITS chain info
//
// Monitors (on the implementation alone): after every issue / re-issue the stored BytesToSign are
// the checkpoint of the stored batch under the chain's ACTIVE deployment id (the id handed to the
// contract and the id MsgConfirmBatch verifies against), they are not the checkpoint under any
// other deployment id of the history, and re-issuing the same batch on a twin state that differs
// in the chain's deployment id only gives different bytes.

var c05DepChains = []string{"c05-a", "c05-b", "c05-c"}

var c05DepTokens = []string{
	"0x0bc529c00C6401aEF6D220BE8C6Ea1667F6Ad93e",
	"0x1bc529c00c6401aef6d220be8c6ea1667f6ad93f",
	"0x2BC529C00C6401AEF6D220BE8C6EA1667F6AD940",
}

type c05DepEnv struct {
	t   *testing.T
	r   *Rec
	fa  *FullApp
	ctx sdk.Context
	// every deployment id the history has seen (activations, chain infos, skyway records)
	ids   [][]byte
	lines []string
	// batches built in this case: token index, nonce
	built []c05DepBatch
}

type c05DepBatch struct {
	chain int
	nonce uint64
}

func (e *c05DepEnv) op(line, out string) {
	e.lines = append(e.lines, line+" => "+out)
	e.r.Op(line, out)
}

func (e *c05DepEnv) seen(id []byte) {
	for _, x := range e.ids {
		if bytes.Equal(x, id) {
			return
		}
	}
	e.ids = append(e.ids, append([]byte(nil), id...))
}

func (e *c05DepEnv) chainLine(ci int) (active uint64, uid []byte, rec []byte, ok bool) {
	info, err := e.fa.App().EvmKeeper.GetChainInfo(e.ctx, c05DepChains[ci])
	if err != nil {
		return 0, nil, nil, false
	}
	rec = []byte(e.fa.App().SkywayKeeper.GetLatestCompassID(e.ctx, c05DepChains[ci]))
	return info.GetActiveSmartContractID(), info.GetSmartContractUniqueID(), rec, true
}

func c05DepToken(ci int) skywaytypes.EthAddress {
	a, err := skywaytypes.NewEthAddress(c05DepTokens[ci])
	if err != nil {
		panic(err)
	}
	return *a
}

// c05DepBatchLine renders a stored batch the way `sb batch` does (without turnstone id / estimate).
func c05DepBatchLine(b *skywaytypes.InternalOutgoingTxBatch) string {
	ext := b.ToExternal()
	cb := &c05Batch{token: ext.TokenContract, nonce: ext.BatchNonce, timeout: ext.BatchTimeout, relayer: ext.AssigneeRemoteAddress}
	for _, tx := range ext.Transactions {
		cb.dests = append(cb.dests, tx.DestAddress)
		cb.txTokens = append(cb.txTokens, tx.Erc20Token.Contract)
		cb.amounts = append(cb.amounts, tx.Erc20Token.Amount)
	}
	am := "-"
	if len(cb.amounts) > 0 {
		s := make([]string, len(cb.amounts))
		for i, a := range cb.amounts {
			s[i] = a.String()
		}
		am = strings.Join(s, ",")
	}
	return fmt.Sprintf("%s %s %s %s %d %d %s", c05X([]byte(cb.token)), c05StrList(cb.dests), c05StrList(cb.txTokens), am,
		cb.nonce, cb.timeout, c05X(cb.relayer))
}

// c05DepUID draws a deployment id: fresh random ones of boundary lengths, ids the history has seen
// (another chain's, a previous one of this chain), and ids that agree with a seen one on the first
// 32 bytes (the contract's bytes32 cannot tell them apart).
func (e *c05DepEnv) uid() []byte {
	r := e.r
	switch k := r.Rng.Intn(10); {
	case k < 2 && len(e.ids) > 0:
		r.Stat("dep:uid-seen")
		return append([]byte(nil), e.ids[r.Rng.Intn(len(e.ids))]...)
	case k == 2 && len(e.ids) > 0:
		r.Stat("dep:uid-same-bytes32")
		b := append([]byte(nil), e.ids[r.Rng.Intn(len(e.ids))]...)
		for len(b) < 32 {
			b = append(b, 0)
		}
		return append(b, byte(1+r.Rng.Intn(255)))
	case k == 3:
		r.Stat("dep:uid-one-byte-off")
		if len(e.ids) == 0 {
			return []byte("x")
		}
		b := append([]byte(nil), e.ids[r.Rng.Intn(len(e.ids))]...)
		if len(b) == 0 {
			return []byte{1}
		}
		i := r.Rng.Intn(len(b))
		if i >= 32 {
			i = 31
		}
		b[i] ^= byte(1 + r.Rng.Intn(255))
		return b
	default:
		lens := []int{0, 1, 4, 9, 31, 32, 33, 40}
		b := make([]byte, lens[r.Rng.Intn(len(lens))])
		r.Rng.Read(b)
		return b
	}
}

// activate runs the real ActivateChainReferenceID (the attestation of a compass deployment ends here).
func (e *c05DepEnv) activate(ci int, scID uint64, uid []byte) {
	name := "c05-none"
	if ci < len(c05DepChains) {
		name = c05DepChains[ci]
	}
	e.seen(uid)
	err := e.fa.App().EvmKeeper.ActivateChainReferenceID(e.ctx, name, &evmtypes.SmartContract{Id: scID},
		"0x00000000000000000000000000000000000000C0", uid)
	line := fmt.Sprintf("bdep activate %d %d %s", ci+1, scID, c05X(uid))
	if err != nil {
		e.op(line, "nochain")
		e.r.Stat("dep:activate-nochain")
		return
	}
	a, u, rec, _ := e.chainLine(ci)
	e.op(line, fmt.Sprintf("chain %d %s %s", a, c05X(u), c05X(rec)))
	switch {
	case !bytes.Equal(u, uid):
		e.r.Stat("dep:activate-ignored(older-compass)")
	default:
		e.r.Stat("dep:activate-applied")
	}
	if !bytes.Equal(u, rec) {
		e.r.Stat("dep:record-diverges-from-chain-info")
	}
}

// checkIssued evaluates the property on a batch whose BytesToSign were just (re-)issued.
func (e *c05DepEnv) checkIssued(what string, b *skywaytypes.InternalOutgoingTxBatch) {
	info, err := e.fa.App().EvmKeeper.GetChainInfo(e.ctx, b.ChainReferenceID)
	if err != nil {
		return
	}
	active := info.GetSmartContractUniqueID()
	want, err := b.GetCheckpoint(string(active))
	if err != nil {
		return
	}
	if !bytes.Equal(b.BytesToSign, want) {
		e.r.Hit("batch_bytes_bind_active_deployment",
			fmt.Sprintf("%s: BytesToSign of batch %d on %s are not the checkpoint of the stored batch under the chain's active bridge deployment id %x (the id delivered to the contract and verified by MsgConfirmBatch)", what, b.BatchNonce, b.ChainReferenceID, active),
			map[string]interface{}{"history": append([]string(nil), e.lines...), "bytes_to_sign": hex.EncodeToString(b.BytesToSign), "checkpoint_under_active_id": hex.EncodeToString(want)})
	}
	for _, other := range e.ids {
		if c05B32(string(other)) == c05B32(string(active)) {
			continue
		}
		cp, err := b.GetCheckpoint(string(other))
		if err == nil && bytes.Equal(cp, b.BytesToSign) {
			e.r.Hit("batch_bytes_never_bind_other_deployment",
				fmt.Sprintf("%s: BytesToSign of batch %d on %s (active deployment id %x) are the checkpoint under the different deployment id %x: signatures collected for them authorise the batch on that deployment", what, b.BatchNonce, b.ChainReferenceID, active, other),
				map[string]interface{}{"history": append([]string(nil), e.lines...), "bytes_to_sign": hex.EncodeToString(b.BytesToSign)})
		}
	}
}

func (e *c05DepEnv) pool(ci int, n int) bool {
	k := e.fa.App().SkywayKeeper
	for i := 0; i < n; i++ {
		dest, err := skywaytypes.NewEthAddress(c05ValidAddr(e.r))
		if err != nil {
			e.t.Fatal(err)
		}
		amt := sdkmath.NewInt(1 + e.r.Rng.Int63n(1_000_000))
		if _, err := k.AddToOutgoingPool(e.ctx, e.fa.User(0).Addr, *dest, sdk.NewCoin(FABondDenom, amt), c05DepChains[ci]); err != nil {
			e.r.Stat("dep:pool-error")
			return false
		}
	}
	return true
}

func (e *c05DepEnv) build(ci int) bool {
	k := e.fa.App().SkywayKeeper
	if !e.pool(ci, 1+e.r.Rng.Intn(3)) {
		return false
	}
	b, err := k.BuildOutgoingTXBatch(e.ctx, c05DepChains[ci], c05DepToken(ci), 10)
	if err != nil || b == nil {
		e.r.Stat("dep:build-error")
		if testing.Verbose() {
			e.t.Logf("build on %s: %v", c05DepChains[ci], err)
		}
		return false
	}
	stored, err := k.GetOutgoingTXBatch(e.ctx, b.TokenContract, b.BatchNonce)
	if err != nil || stored == nil {
		e.r.Hit("batch_stored", "a batch that was built is not in the store", e.lines)
		return false
	}
	e.op(fmt.Sprintf("bdep build %d %s", ci+1, c05DepBatchLine(stored)), "ok "+hex.EncodeToString(stored.BytesToSign))
	e.r.Stat("dep:build-ok")
	e.built = append(e.built, c05DepBatch{ci, stored.BatchNonce})
	e.checkIssued("build", stored)
	return true
}

func c05DepElectClass(err error) string {
	s := err.Error()
	switch {
	case strings.Contains(s, "batch not found"):
		return "notfound"
	case strings.Contains(s, "already set"):
		return "already"
	case strings.Contains(s, "chain info"):
		return "nochain"
	}
	return "error"
}

func (e *c05DepEnv) elect(ci int, nonce uint64, est uint64) {
	k := e.fa.App().SkywayKeeper
	tok := c05DepToken(ci)
	line := fmt.Sprintf("bdep elect %s %d %d", c05X([]byte(tok.GetAddress().Hex())), nonce, est)
	stored, err := k.GetOutgoingTXBatch(e.ctx, tok, nonce)
	if err != nil {
		e.t.Fatal(err)
	}
	arg := skywaytypes.InternalOutgoingTxBatch{TokenContract: tok, BatchNonce: nonce, ChainReferenceID: c05DepChains[ci]}
	if stored != nil {
		arg = *stored
	}
	// twin experiment first, on two throw-away branches: the same re-issue, the chain's deployment id
	// being the only difference (a newer compass with another id got activated)
	var twinA, twinB, twinID []byte
	if stored != nil && stored.GasEstimate == 0 {
		if info, err := e.fa.App().EvmKeeper.GetChainInfo(e.ctx, stored.ChainReferenceID); err == nil {
			for {
				twinID = e.uid()
				if c05B32(string(twinID)) != c05B32(string(info.GetSmartContractUniqueID())) {
					break
				}
			}
			for branch := 0; branch < 2; branch++ {
				cc, _ := e.ctx.CacheContext()
				if branch == 1 {
					if err := e.fa.App().EvmKeeper.ActivateChainReferenceID(cc, stored.ChainReferenceID,
						&evmtypes.SmartContract{Id: info.GetActiveSmartContractID() + 1}, info.GetSmartContractAddr(), twinID); err != nil {
						break
					}
				}
				if err := k.UpdateBatchGasEstimate(cc, arg, est); err != nil {
					break
				}
				if after, err := k.GetOutgoingTXBatch(cc, tok, nonce); err == nil && after != nil {
					if branch == 0 {
						twinA = after.BytesToSign
					} else {
						twinB = after.BytesToSign
					}
				}
			}
		}
	}
	if twinA != nil && twinB != nil {
		e.r.Stat("dep:twin-reissue")
		if bytes.Equal(twinA, twinB) {
			e.r.Hit("reissued_bytes_change_with_deployment",
				fmt.Sprintf("re-issuing BytesToSign of batch %d with estimate %d gives the same bytes whether the chain's bridge deployment id is the current one or %x, all else equal", nonce, est, twinID),
				map[string]interface{}{"history": append([]string(nil), e.lines...), "op": line, "bytes_to_sign": hex.EncodeToString(twinA)})
		}
	}

	if err := k.UpdateBatchGasEstimate(e.ctx, arg, est); err != nil {
		c := c05DepElectClass(err)
		e.op(line, c)
		e.r.Stat("dep:elect-" + c)
		return
	}
	after, err := k.GetOutgoingTXBatch(e.ctx, tok, nonce)
	if err != nil || after == nil {
		e.r.Hit("batch_stored", "a batch whose estimate was elected is not in the store", e.lines)
		return
	}
	e.op(line, "ok "+hex.EncodeToString(after.BytesToSign))
	e.r.Stat("dep:elect-ok")
	if after.GasEstimate != est {
		e.r.Hit("elected_estimate_stored", fmt.Sprintf("elected %d, stored %d", est, after.GasEstimate), e.lines)
	}
	e.checkIssued("re-issue after the estimate election", after)
}

func (e *c05DepEnv) reimport() bool {
	cc, commit := e.ctx.CacheContext()
	if err := e.fa.ReimportModuleCtx(cc, "skyway", skywaytypes.StoreKey); err != nil {
		e.r.Stat("dep:reimport-failed")
		if testing.Verbose() {
			e.t.Logf("reimport: %v", err)
		}
		return false
	}
	commit()
	e.op("bdep reimport", "ok")
	e.r.Stat("dep:reimport")
	for ci := range c05DepChains {
		e.rec(ci)
	}
	return true
}

func (e *c05DepEnv) rec(ci int) {
	rec := []byte(e.fa.App().SkywayKeeper.GetLatestCompassID(e.ctx, c05DepChains[ci]))
	e.seen(rec)
	e.op(fmt.Sprintf("bdep rec %d", ci+1), "rec "+c05X(rec))
}

// valset makes the evm keeper queue a fresh UpdateValset message for every chain (the producer stamps the
// deployment id into the message) and evaluates the property on what it queued.
func (e *c05DepEnv) valset() {
	a := e.fa.App()
	snap, err := a.ValsetKeeper.GetCurrentSnapshot(e.ctx)
	if err != nil || snap == nil {
		e.r.Stat("dep:valset-no-snapshot")
		return
	}
	for _, c := range c05DepChains {
		q := consensustypes.Queue(evmtypes.ConsensusTurnstoneMessage, "evm", c)
		msgs, err := a.ConsensusKeeper.GetMessagesFromQueue(e.ctx, q, 0)
		if err != nil {
			e.t.Fatal(err)
		}
		for _, m := range msgs { // so that the producer does not find "its" message already queued
			if err := a.ConsensusKeeper.DeleteJob(e.ctx, q, m.GetId()); err != nil {
				e.t.Fatal(err)
			}
		}
	}
	if err := a.EvmKeeper.PublishSnapshotToAllChains(e.ctx, snap, true); err != nil {
		e.r.Stat("dep:valset-publish-error")
		return
	}
	cdc := a.AppCodec()
	for ci, c := range c05DepChains {
		q := consensustypes.Queue(evmtypes.ConsensusTurnstoneMessage, "evm", c)
		msgs, err := a.ConsensusKeeper.GetMessagesFromQueue(e.ctx, q, 0)
		if err != nil {
			e.t.Fatal(err)
		}
		for _, m := range msgs {
			cm, err := m.ConsensusMsg(cdc)
			if err != nil {
				continue
			}
			em, ok := cm.(*evmtypes.Message)
			if !ok || em.GetUpdateValset() == nil || em.GetUpdateValset().Valset == nil {
				continue
			}
			vs := em.GetUpdateValset().Valset
			bts, err := m.GetBytesToSign(cdc)
			if err != nil {
				continue
			}
			vals := make([][]byte, len(vs.Validators))
			for i, v := range vs.Validators {
				vals[i] = []byte(v)
			}
			e.op(fmt.Sprintf("bdep uv %d %s %d %d %s %s %d", ci+1, c05X([]byte(em.AssigneeRemoteAddress)), m.GetId(), m.GetGasEstimate(),
				c05XList(vals), u64List(vs.Powers), vs.ValsetID), hex.EncodeToString(bts))
			e.r.Stat("dep:valset-message")
			// the property, on the implementation alone
			_, active, _, _ := e.chainLine(ci)
			sign := func(id []byte) []byte {
				cp := *em
				cp.TurnstoneID = string(id)
				h, err := cp.Keccak256WithSignedMessage(&consensustypes.QueuedSignedMessage{Id: m.GetId(), GasEstimate: m.GetGasEstimate()})
				if err != nil {
					return nil
				}
				return h
			}
			if !bytes.Equal(bts, sign(active)) {
				e.r.Hit("message_bytes_bind_active_deployment",
					fmt.Sprintf("the UpdateValset message the chain queued for %s does not sign the chain's active bridge deployment id %x (message carries %x)", c, active, em.TurnstoneID),
					map[string]interface{}{"history": append([]string(nil), e.lines...), "bytes_to_sign": hex.EncodeToString(bts)})
			}
			if c05B32(em.TurnstoneID) != c05B32(string(active)) {
				e.r.Hit("message_bytes_bind_active_deployment",
					fmt.Sprintf("the UpdateValset message the chain queued for %s is delivered with deployment id %x, the chain's active one is %x", c, em.TurnstoneID, active),
					map[string]interface{}{"history": append([]string(nil), e.lines...)})
			}
			for _, other := range e.ids {
				if c05B32(string(other)) != c05B32(string(active)) && bytes.Equal(bts, sign(other)) {
					e.r.Hit("message_bytes_never_bind_other_deployment",
						fmt.Sprintf("the UpdateValset message the chain queued for %s (active deployment id %x) signs the different deployment id %x", c, active, other),
						map[string]interface{}{"history": append([]string(nil), e.lines...), "bytes_to_sign": hex.EncodeToString(bts)})
				}
			}
		}
	}
}

func (e *c05DepEnv) est() uint64 {
	if e.r.Rng.Intn(12) == 0 {
		return 0
	}
	for {
		if v := c05Est(e.r); v != 0 {
			return v
		}
	}
}

func c05Deployments(t *testing.T, r *Rec, fa *FullApp) {
	// one-time committed setup: bridge the staking denom to one token per chain
	authority := authtypes.NewModuleAddress(govtypes.ModuleName)
	_, err := fa.WithDeliverCtx(func(ctx sdk.Context) error {
		msg := &skywaytypes.MsgSetERC20MappingProposal{Authority: authority.String(), Metadata: FAMeta(authority, authority)}
		for i, c := range c05DepChains {
			msg.Mappings = append(msg.Mappings, skywaytypes.MsgSetERC20MappingProposal_ERC20ToDenomMapping{
				ChainReferenceId: c, Erc20: c05DepTokens[i], Denom: FABondDenom,
			})
		}
		h := fa.App().MsgServiceRouter().Handler(msg)
		if h == nil {
			return fmt.Errorf("no handler for MsgSetERC20MappingProposal")
		}
		_, err := h(ctx, msg)
		return err
	})
	if err != nil {
		t.Fatalf("c05 deployments: erc20 mapping: %v", err)
	}

	cases := r.N / 6
	if cases < 24 {
		cases = 24
	}
	issued := 0
	for ci := 0; ci < cases; ci++ {
		e := &c05DepEnv{t: t, r: r, fa: fa, ctx: fa.CtxCached()}
		e.op("bdep reset", "ok")
		for i := range c05DepChains {
			a, u, rec, ok := e.chainLine(i)
			if !ok {
				t.Fatalf("c05 deployments: no chain info for %s", c05DepChains[i])
			}
			e.seen(u)
			e.seen(rec)
			e.op(fmt.Sprintf("bdep chain %d %d %s %s", i+1, a, c05X(u), c05X(rec)), "ok")
		}
		c := r.Rng.Intn(len(c05DepChains))
		active, _, _, _ := e.chainLine(c)
		// directed opening
		kind := ci % 8
		r.Stat(fmt.Sprintf("dep:history-%d", kind))
		switch kind {
		case 0: // ordinary: build, elect
			if e.build(c) {
				e.elect(c, e.built[0].nonce, e.est())
			}
		case 1: // compass upgrade, THEN the late attestation of the older compass; build, elect
			e.activate(c, active+1, e.uid())
			e.activate(c, active, e.uid())
			if e.build(c) {
				e.elect(c, e.built[0].nonce, e.est())
			}
		case 2: // upgrade between build and election
			if e.build(c) {
				e.activate(c, active+1+uint64(r.Rng.Intn(2)), e.uid())
				e.elect(c, e.built[0].nonce, e.est())
			}
		case 3: // late attestation of an older compass between build and election
			if e.build(c) {
				e.activate(c, uint64(r.Rng.Int63n(int64(active)+1)), e.uid())
				e.elect(c, e.built[0].nonce, e.est())
			}
		case 4: // genesis round trip of the skyway module, then build and elect
			e.reimport()
			if e.build(c) {
				e.elect(c, e.built[0].nonce, e.est())
			}
		case 5: // genesis round trip between build and election
			if e.build(c) {
				e.reimport()
				e.elect(c, e.built[0].nonce, e.est())
			}
		case 6: // two chains, the late attestation on the other one carries THIS chain's id
			o := (c + 1) % len(c05DepChains)
			_, u, _, _ := e.chainLine(c)
			oa, _, _, _ := e.chainLine(o)
			e.activate(o, oa, u)
			if e.build(o) {
				e.elect(o, e.built[0].nonce, e.est())
			}
			if e.build(c) {
				e.elect(c, e.built[len(e.built)-1].nonce, e.est())
			}
		default: // random from the start
		}
		if kind%2 == 1 {
			e.valset()
		}
		// random continuation
		nops := 2 + r.Rng.Intn(8)
		for oi := 0; oi < nops; oi++ {
			c := r.Rng.Intn(len(c05DepChains))
			switch k := r.Rng.Intn(20); {
			case k < 6:
				a, _, _, _ := e.chainLine(c)
				var sc uint64
				switch r.Rng.Intn(6) {
				case 0:
					sc = 0
				case 1:
					sc = a
				case 2:
					if a > 0 {
						sc = a - 1
					}
				case 3:
					sc = a + 2 + uint64(r.Rng.Intn(5))
				default:
					sc = a + 1
				}
				if r.Rng.Intn(15) == 0 {
					e.activate(len(c05DepChains), sc, e.uid()) // a chain that does not exist
				} else {
					e.activate(c, sc, e.uid())
				}
			case k < 11:
				e.build(c)
			case k < 17:
				if len(e.built) > 0 && r.Rng.Intn(8) != 0 {
					b := e.built[r.Rng.Intn(len(e.built))]
					e.elect(b.chain, b.nonce, e.est())
				} else {
					e.elect(c, uint64(1+r.Rng.Intn(50)), e.est())
				}
			case k < 18:
				e.reimport()
			case k < 19:
				e.valset()
			default:
				e.rec(c)
			}
		}
		issued += len(e.built)
		r.Case(strings.Join(e.lines, ";"), len(e.built) > 0)
	}
	if issued == 0 {
		t.Fatalf("c05 deployments: no batch could be built in %d histories", cases)
	}
}
