//go:build verif

package harness

import (
	"fmt"
	"testing"
	"time"

	sdkmath "cosmossdk.io/math"
	sdk "github.com/cosmos/cosmos-sdk/types"
)

// C10 — LONG histories: "a stored snapshot never changes except that chains can be added to the
// list of chains where it is live", quantified over ALL sequences of snapshot builds.
//
// The random keeper histories of c10_test.go stay below block 46 (the valset end blocker builds on
// its own at height 50) with one to three ops per block, so they never store more than about a
// dozen snapshots and never look an id up that is more than three behind the newest one.  Anything
// that only happens once MANY snapshots are stored or once a snapshot is OLD (a retention limit by
// count, pruning by age, a lookup that gives up after k steps, an id counter that wraps …) is
// invisible to them.  The histories here
//   - pack dozens of WORTHY builds into each block (between two builds a validator's traits
//     change, a validator is jailed / unjailed, or stake of at least 1 % moves), so that hundreds to
//     more than a thousand snapshots are stored before block 46,
//   - jump 31 days and once more than a year between blocks (old snapshots),
//   - record OLD snapshots as live on chains (uniformly chosen ids, the first ones preferred) and
//     ask for the latest snapshot of a chain (`live`), the valset of old ids and the just-in-time
//     update, which walks back to the snapshot that is live on the chain,
//   - read EVERY id ever issued after EVERY op (c10Keeper.state does not stop at a missing id) and
//     compare the store with the model: in full while it is small, then as `n=<stored> lo=<lowest
//     stored id>` (op `brief`) plus the full record of random ids (op `snap`), and in full again
//     at the end of the history.
//
// New protocol ops:  brief <0|1>   snap <id>   live <c>      (lean/Driver/C10.lean)

func (k *c10Keeper) opBrief(on bool) {
	k.brief = on
	b := 0
	if on {
		b = 1
	}
	k.emit(fmt.Sprintf("brief %d", b), "ok")
}

// opSnap: FindSnapshotByID of one id, printed in full.  Monitor: an id that was stored is found.
func (k *c10Keeper) opSnap(ctx sdk.Context, id uint64) {
	line := fmt.Sprintf("snap %d", id)
	sn, err := k.fa.App().ValsetKeeper.FindSnapshotByID(ctx, id)
	if err != nil {
		if _, was := k.seen[id]; was && !k.gone[id] {
			k.gone[id] = true
			c10Hit(k.r, "stored_immutable", "disappeared", fmt.Sprintf("snapshot %d was stored and FindSnapshotByID does not find it any more (highest stored id %d)", id, k.nSnaps), k.replay())
		}
		k.r.Stat("op.snap.none")
		k.emit(line, "none")
		return
	}
	k.r.Stat(fmt.Sprintf("op.snap.found.age>=%d", c10AgeClass(k.nSnaps-id)))
	immut, chains := c10ShowSnapshot(k, sn)
	k.emit(line, fmt.Sprintf(immut, chains))
}

func c10AgeClass(age uint64) int {
	for _, a := range []uint64{1024, 512, 256, 128, 64, 32, 16, 8} {
		if age >= a {
			return int(a)
		}
	}
	return 0
}

// opLive: GetLatestSnapshotOnChain.  Monitor (a consequence of "never changes except that chains
// are added"): the answer is the highest id that was ever recorded as live on the chain.
func (k *c10Keeper) opLive(ctx sdk.Context, ch int) {
	line := fmt.Sprintf("live %d", ch)
	out := "none"
	sn, err := k.fa.App().ValsetKeeper.GetLatestSnapshotOnChain(ctx, c10Ref(ch))
	if err == nil {
		out = fmt.Sprint(sn.Id)
	}
	if want := k.liveOn[ch]; (want == 0) != (err != nil) || (err == nil && sn.Id != want) {
		c10Hit(k.r, "stored_immutable", "live-record", fmt.Sprintf("snapshot %d was recorded as live on %s; the latest snapshot on that chain is now reported as %s", want, c10Ref(ch), out), k.replay())
	}
	if err == nil {
		k.r.Stat(fmt.Sprintf("op.live.found.age>=%d", c10AgeClass(k.nSnaps-sn.Id)))
	} else {
		k.r.Stat("op.live.none")
	}
	k.emit(line, out)
}

// c10LongAccts: the validator's accounts on chains 1 and 2; `gen` selects the traits, so that a
// re-registration with another `gen` makes the next snapshot worthy without changing membership.
func c10LongAccts(vi, gen int) []c10Acct {
	tr := [][]int{nil, {1}, {2}, {1, 2}, {3}}[gen%5]
	return []c10Acct{
		{ctype: 0, chain: 1, addr: int64(101 + vi), traits: tr},
		{ctype: 0, chain: 2, addr: int64(201 + vi)},
	}
}

// oldID picks a stored id: half of the time one of the first five, else uniformly.
func (k *c10Keeper) oldID() uint64 {
	if k.nSnaps == 0 {
		return 1
	}
	if k.r.Rng.Intn(2) == 0 {
		return 1 + uint64(k.r.Rng.Intn(5))%k.nSnaps
	}
	return 1 + uint64(k.r.Rng.Int63n(int64(k.nSnaps)))
}

func runC10LongCase(t *testing.T, r *Rec, key string, seed int64, stakes []sdkmath.Int, target, briefAfter uint64) {
	k := newC10Keeper(t, r, seed, stakes)
	nv := len(stakes)
	gen := make([]int, nv)
	build := func(c sdk.Context) { k.opBuild(c) }
	k.block(func(c sdk.Context) { k.opSupport(c, 1) }, func(c sdk.Context) { k.opActivate(c, 1) }, func(c sdk.Context) { k.opSupport(c, 2) })
	var regs []c10Step
	for i := 0; i < nv; i++ {
		i := i
		regs = append(regs, func(c sdk.Context) { k.opReg(c, i, c10LongAccts(i, 0)) })
	}
	k.block(append(regs, build)...)
	// the first two snapshots are recorded as live on a chain each: they must be found for ever
	k.block(func(c sdk.Context) { k.opOnChain(c, 2, 1) }, func(c sdk.Context) { k.opOnChain(c, 1, 2) },
		func(c sdk.Context) { k.opLive(c, 1) }, func(c sdk.Context) { k.opLive(c, 2) }, func(c sdk.Context) { k.opLive(c, 3) })

	// one round: something changes (or not), a build, and sometimes a look at an old snapshot
	round := func(c sdk.Context) {
		// validators that are in the set (bonded, not jailed) and those that are jailed
		var in, out []int
		tot := sdkmath.ZeroInt()
		for _, sv := range k.staking(c) {
			switch {
			case sv.jailed:
				out = append(out, sv.id-1)
			case sv.status == "b":
				in = append(in, sv.id-1)
				tot = tot.Add(sv.tokens)
			}
		}
		vi := r.Rng.Intn(nv)
		if len(in) > 0 && r.Rng.Intn(8) != 0 {
			vi = in[r.Rng.Intn(len(in))]
		}
		switch x := r.Rng.Intn(100); {
		case x < 62: // other traits (a jailed or unbonded validator is rejected)
			gen[vi] += 1 + r.Rng.Intn(4)
			k.opReg(c, vi, c10LongAccts(vi, gen[vi]))
		case x < 82: // membership
			if len(out) > 0 && (len(in) <= 2 || r.Rng.Intn(2) == 0) {
				k.envJail(c, out[r.Rng.Intn(len(out))], false)
			} else {
				k.envJail(c, vi, true)
			}
		case x < 90: // stake: about 3 % of the bonded total
			if amt := tot.QuoRaw(33); amt.IsInt64() && amt.IsPositive() {
				k.envDelegate(c, vi, amt.Int64())
			}
		default: // nothing changed: the build is not worthy
		}
		k.opBuild(c)
		ch := 1 + r.Rng.Intn(3)
		switch y := r.Rng.Intn(48); {
		case y < 6:
			k.opOnChain(c, k.oldID(), ch)
		case y < 12:
			id := k.oldID()
			switch r.Rng.Intn(8) {
			case 0:
				id = 0
			case 1:
				id = k.nSnaps + 1
			}
			k.opSnap(c, id)
		case y < 16:
			k.opLive(c, ch)
		case y < 20:
			k.opJitVia(c, 1+r.Rng.Intn(2), r.Rng.Intn(c10JitPaths))
		case y < 24:
			k.opValset(c, k.oldID(), 1+r.Rng.Intn(2))
		}
	}
	const lastHeight = 43
	yearJump, act2 := false, false
	for k.nSnaps < target && k.fa.Height() < lastHeight && !k.dead {
		// about 18 blocks of builds (a time jump can take three more blocks)
		goal := k.nSnaps + target/18 + 2
		if goal > target {
			goal = target
		}
		if k.nSnaps < briefAfter && goal > k.nSnaps+8 {
			goal = k.nSnaps + 8 // full state lines are long: grow slowly while they are printed
		}
		k.block(func(c sdk.Context) {
			if !k.brief && k.nSnaps >= briefAfter {
				k.opBrief(true)
			}
			if !act2 && k.nSnaps >= target/2 {
				act2 = true
				k.opActivate(c, 2)
			}
			for i := uint64(0); k.nSnaps < goal && i < 4*(goal-k.nSnaps)+8 && !k.dead; i++ {
				round(c)
			}
		})
		switch z := r.Rng.Intn(10); {
		case z == 0 && !yearJump && k.nSnaps > target/3:
			yearJump = true
			k.fa.NextTime = k.fa.Time().Add(400 * 24 * time.Hour)
			r.Stat("env.yearjump")
		case z < 2:
			k.fa.NextTime = k.fa.Time().Add(31 * 24 * time.Hour)
			r.Stat("env.timejump")
		}
	}
	if !k.dead {
		// the oldest records, the live records of the chains and the paths that walk back to them
		k.block(func(c sdk.Context) { k.opSnap(c, 1) }, func(c sdk.Context) { k.opSnap(c, 2) }, func(c sdk.Context) { k.opSnap(c, k.nSnaps/2) },
			func(c sdk.Context) { k.opLive(c, 1) }, func(c sdk.Context) { k.opLive(c, 2) }, func(c sdk.Context) { k.opLive(c, 3) },
			func(c sdk.Context) { k.opValset(c, 1, 1) }, func(c sdk.Context) { k.opValset(c, 2, 1) },
			func(c sdk.Context) { k.opJitVia(c, 1, c10JitJob) }, func(c sdk.Context) { k.opJitVia(c, 2, c10JitBus) })
	}
	if !k.dead && k.brief {
		// the whole store, in full, against the model
		k.block(func(sdk.Context) { k.opBrief(false) }, func(c sdk.Context) { k.opOnChain(c, 0, 1) })
	}
	r.Stat(fmt.Sprintf("long.%s.stored>=%d", key, c10AgeClass(k.nSnaps)))
	if k.nSnaps < target {
		r.Stat("long." + key + ".target-missed")
	}
	k.finish("long/" + key)
}

// runC10Long: one history of medium length compared in full after every op, and one long history
// (more stored snapshots than any power of two up to 1024 in the quick tier).
func runC10Long(t *testing.T, r *Rec) {
	long := uint64(4 * r.N)
	if long < 150 {
		long = 150
	}
	if long > 1040 {
		long = 1040
	}
	t0 := time.Now()
	defer func() { t.Logf("C10 long histories: %.1fs", time.Since(t0).Seconds()) }()
	runC10LongCase(t, r, "medium", 31, c10Ints(40_000_000, 30_000_000, 30_000_000, 20_000_000), 70, 1<<62)
	runC10LongCase(t, r, "long", 32+r.Seed%5, c10Ints(50_000_000, 40_000_000, 30_000_000, 30_000_000), long, 40)
}
