//go:build verif

package harness

// C15, the transfer-limit window on its own: "within any limit window the total sent by non-exempt senders never
// exceeds the limit".  How long a window is, in blocks, is the harness's own table (a day of 1.5 s blocks = 57600; a week
// = 7, a month = 30, a year = 365 of them) — not the implementation's `BlockLimit()` — and the model's `limitStep`
// receives that number.  Each walk takes a fresh token, sets a limit with one of the periods, sends once, moves the
// height by a distance around the window's length (one block short of it, exactly it, one past, a few idle windows
// later, or a small step) and sends again: which of the two sends pass is fixed by the property (op `walk`).

import (
	"fmt"
	"testing"
	"time"

	sdkmath "cosmossdk.io/math"
	sdk "github.com/cosmos/cosmos-sdk/types"
	skytypes "github.com/palomachain/paloma/v2/x/skyway/types"
)

func TestC15Window(t *testing.T) {
	r := NewRec(t, "C15W")
	defer r.Close()
	e := newSkyEnv(t, 2)
	for c := 0; c < r.N; c++ {
		denom := fmt.Sprintf("uwin%d", c)
		e.addToken(denom, fmt.Sprintf("0x%040x", 0x500000+c))
		tk := len(e.denoms)
		e.fund(1, tk, sdkmath.NewInt(1_000_000))
		p := brPeriods[1+r.Rng.Intn(len(brPeriods)-1)]
		if r.Rng.Intn(8) == 0 {
			p = brPeriods[0]
		}
		lim := int64(1 + r.Rng.Intn(1000))
		a1 := int64(1 + r.Rng.Intn(int(lim)))
		a2 := lim - a1 + int64(r.Rng.Intn(3)) - 1 // one below, exactly, one above what is left of the window
		if a2 < 1 || r.Rng.Intn(5) == 0 {
			a2 = int64(1 + r.Rng.Intn(1000))
		}
		var dh int64
		switch k := r.Rng.Intn(7); {
		case p.blocks == 0 || k == 0:
			dh = int64(r.Rng.Intn(5))
		case k <= 3:
			dh = p.blocks - 1 + int64(r.Rng.Intn(3))
		case k == 4:
			dh = int64(2+r.Rng.Intn(4))*p.blocks - 1 + int64(r.Rng.Intn(3))
		case k == 5:
			dh = p.blocks * int64(300+r.Rng.Intn(100)) / 365 // between 300/365 and 400/365 of the window
		default:
			dh = p.blocks / int64(1+r.Rng.Intn(12))
		}
		if err := e.gov(e.ctx, &skytypes.SetBridgeTransferLimitProposal{Title: "t", Description: "d", Token: denom, Limit: sdkmath.NewInt(lim), LimitPeriod: p.p}); err != nil {
			t.Fatalf("setlimit: %v", err)
		}
		send := func(amt int64) string {
			return e.runMsg(func(ctx sdk.Context) error {
				_, err := e.ms.SendToRemote(ctx, &skytypes.MsgSendToRemote{EthDest: "0x00000000000000000000000000000000000000aa",
					Amount: sdk.Coin{Denom: denom, Amount: sdkmath.NewInt(amt)}, ChainReferenceId: skyChain, Metadata: e.meta(e.users[0])})
				return err
			})
		}
		h0 := e.height + 1 + int64(r.Rng.Intn(3))
		e.setBlock(h0, e.now.Add(2*time.Second))
		first := send(a1)
		e.setBlock(h0+dh, e.now.Add(2*time.Second))
		second := send(a2)
		r.Op(fmt.Sprintf("walk %d %d %d %d %d %d", p.blocks, lim, a1, h0, dh, a2), first+" "+second)
		r.Stat("c15w.period." + p.p.String())
		r.Stat("c15w.second." + second)
		r.Case(fmt.Sprintf("%s %d %d %d %d", p.p, lim, a1, dh, a2), first == "ok")
	}
}
