//go:build verif

// Message zoo for the full-app fixture: for EVERY Msg service RPC of the paloma
// modules a constructor that builds a message which is valid and state-changing
// in a prepared world (ZooWorld), parameterised by the acting account and by
// hostile / edge values, plus the list of identity-bearing fields of each
// message with setters (so a caller can redirect them to a victim).
//
// All identifiers are prefixed Zoo / zoo.
package harness

import (
	"encoding/hex"
	"encoding/json"
	"fmt"
	"math/big"
	"math/rand"
	"reflect"
	"strings"
	"testing"
	"time"

	sdkmath "cosmossdk.io/math"
	codectypes "github.com/cosmos/cosmos-sdk/codec/types"
	sdk "github.com/cosmos/cosmos-sdk/types"
	authtypes "github.com/cosmos/cosmos-sdk/x/auth/types"
	banktypes "github.com/cosmos/cosmos-sdk/x/bank/types"
	govtypes "github.com/cosmos/cosmos-sdk/x/gov/types"
	ethcommon "github.com/ethereum/go-ethereum/common"
	consensustypes "github.com/palomachain/paloma/v2/x/consensus/types"
	evmtypes "github.com/palomachain/paloma/v2/x/evm/types"
	palomatypes "github.com/palomachain/paloma/v2/x/paloma/types"
	schedulertypes "github.com/palomachain/paloma/v2/x/scheduler/types"
	skywaytypes "github.com/palomachain/paloma/v2/x/skyway/types"
	tokenfactorytypes "github.com/palomachain/paloma/v2/x/tokenfactory/types"
	treasurytypes "github.com/palomachain/paloma/v2/x/treasury/types"
	valsettypes "github.com/palomachain/paloma/v2/x/valset/types"
)

// ---------------------------------------------------------------------------
// world
// ---------------------------------------------------------------------------

const (
	ZooChain       = "test-chain"
	ZooBridgeERC20 = "0x0bc529c00C6401aEF6D220BE8C6Ea1667F6Ad93e"
	ZooSaleAddr    = "0x00000000000000000000000000000000000005A1"
	ZooDeployer    = "0x00000000000000000000000000000000000000DE"
	zooQueue       = "evm/" + ZooChain + "/" + evmtypes.ConsensusTurnstoneMessage
)

// ZooWorld is a FullApp prepared so that every paloma message type has
// something real to act on:
//   - 5 validators (the last one, Sacrifice, is the one bad-signature evidence is
//     built against) and 4 users, all alive and registered on the ACTIVE EVM
//     chain "test-chain" (compass + smart contract deployer address set);
//   - ugrain bridged to ZooBridgeERC20; every user has a pending (unbatched)
//     outgoing transfer, and there is an open batch;
//   - every user owns a tokenfactory denom factory/<addr>/zoo (with supply) and a
//     scheduler job "zoo-job-u<i>"; a SubmitLogicCall message sits in the
//     consensus queue (needs signatures, gas estimates, evidence);
//   - light-node config: feegranter = user 3, funder = user 2, sale contract
//     ZooSaleAddr, one licence (for a fresh key, LicenceHolder).
type ZooWorld struct {
	T  *testing.T
	FA *FullApp

	Seed      int64
	Authority string // governance module address = authority of every keeper
	Sacrifice *FAAccount
	// LicenceHolder owns a light-node licence that is not yet registered.
	LicenceHolder *FAAccount

	counter      int
	lastMaintain int64
}

// NewZooWorld builds the world (about 40 blocks).
func NewZooWorld(t *testing.T, seed int64) *ZooWorld {
	t.Helper()
	fa := NewFullApp(t, FullAppOpts{Seed: seed, NumValidators: 5, NumUsers: 4})
	w := &ZooWorld{T: t, FA: fa, Seed: seed, Authority: authtypes.NewModuleAddress(govtypes.ModuleName).String()}
	w.Sacrifice = fa.Vals[len(fa.Vals)-1]
	must := func(what string, err error) {
		if err != nil {
			t.Fatalf("zoo world: %s: %v", what, err)
		}
	}
	mustTx := func(what string, r FATxResult) {
		if !r.OK() {
			t.Fatalf("zoo world: %s: code=%d/%s log=%s panicked=%v %s", what, r.Code, r.Codespace, r.Log, r.Panicked, r.BlockErr)
		}
	}
	if b := fa.KeepAliveAll(); !b.OK() {
		t.Fatalf("zoo world: keepalive: %v %s", b.Err, b.Panic)
	}
	_, err := fa.ActivateEVMChain(FAEvmChain{RefID: ZooChain})
	must("activate chain", err)
	must("god setup", w.God(func(ctx sdk.Context) error {
		a := fa.App()
		if err := a.EvmKeeper.SetSmartContractDeployer(ctx, ZooChain, ZooDeployer); err != nil {
			return err
		}
		if err := a.PalomaKeeper.SetLightNodeClientFeegranter(ctx, fa.User(3).Addr); err != nil {
			return err
		}
		if err := a.PalomaKeeper.SetLightNodeClientFunders(ctx, []sdk.AccAddress{fa.User(2).Addr}); err != nil {
			return err
		}
		return a.SkywayKeeper.SetAllLighNodeSaleContracts(ctx, []*skywaytypes.LightNodeSaleContract{
			{ChainReferenceId: ZooChain, ContractAddress: ZooSaleAddr},
		})
	}))
	mustTx("bridge ugrain", w.DeliverGov(&skywaytypes.MsgSetERC20MappingProposal{
		Authority: w.Authority,
		Mappings: []skywaytypes.MsgSetERC20MappingProposal_ERC20ToDenomMapping{
			{ChainReferenceId: ZooChain, Erc20: ZooBridgeERC20, Denom: FABondDenom},
		},
	}))
	// per-user state, through real transactions
	var txs []FATx
	for i, u := range fa.Users {
		txs = append(txs, FATx{Signers: []*FAAccount{u}, Msgs: []sdk.Msg{
			&tokenfactorytypes.MsgCreateDenom{Subdenom: "zoo", Metadata: FAMeta(u.Addr, u.Addr)},
			&tokenfactorytypes.MsgMint{Amount: sdk.NewInt64Coin(w.FactoryDenom(u), 1_000_000), Metadata: FAMeta(u.Addr, u.Addr)},
			&schedulertypes.MsgCreateJob{Job: w.zooJob(fmt.Sprintf("zoo-job-u%d", i)), Metadata: FAMeta(u.Addr, u.Addr)},
			w.zooSend(u, 1000+int64(i)),
		}})
	}
	b := fa.DeliverTxs(txs...)
	for i, r := range b.Txs {
		mustTx(fmt.Sprintf("user %d state", i), r)
	}
	if !b.OK() || len(b.Txs) != len(txs) {
		t.Fatalf("zoo world: user state block: %v %s", b.Err, b.Panic)
	}
	must("first batch", w.zooBuildBatch())
	// second round of transfers stays in the pool (cancellable)
	txs = nil
	for i, u := range fa.Users {
		txs = append(txs, FATx{Signers: []*FAAccount{u}, Msgs: []sdk.Msg{w.zooSend(u, 2000+int64(i))}})
	}
	for i, r := range fa.DeliverTxs(txs...).Txs {
		mustTx(fmt.Sprintf("user %d pending transfer", i), r)
	}
	// licence for a fresh key, paid by user 0
	w.LicenceHolder = w.FreshAccount("licence")
	mustTx("licence", fa.DeliverTx(fa.User(0), &palomatypes.MsgAddLightNodeClientLicense{
		Metadata: FAMeta(fa.User(0).Addr, fa.User(0).Addr), ClientAddress: w.LicenceHolder.Addr.String(),
		Amount: sdk.NewInt64Coin(FABondDenom, 5_000_000), VestingMonths: 12,
	}))
	// a queued consensus message through the real scheduler path
	mustTx("execute job", fa.DeliverTx(fa.User(1), &schedulertypes.MsgExecuteJob{
		JobID: "zoo-job-u1", Payload: zooJobPayload("aabb"), Metadata: FAMeta(fa.User(1).Addr, fa.User(1).Addr),
	}))
	w.lastMaintain = fa.Height()
	return w
}

// God runs fn on the deliver state of a fresh block (writes are committed).
func (w *ZooWorld) God(fn func(ctx sdk.Context) error) error {
	_, err := w.FA.WithDeliverCtx(fn)
	return err
}

// Read runs fn on a throw-away branch of the committed state.
func (w *ZooWorld) Read(fn func(ctx sdk.Context)) { fn(w.FA.CtxCached()) }

func (w *ZooWorld) next() int { w.counter++; return w.counter }

// FreshAccount derives a new key that has no account on chain.
func (w *ZooWorld) FreshAccount(kind string) *FAAccount {
	n := w.next()
	k := FAFindKey(w.Seed, "zoo-"+kind, n, nil)
	return &FAAccount{Name: fmt.Sprintf("%s%d", kind, n), Priv: k, Addr: sdk.AccAddress(k.PubKey().Address()), ValIdx: -1}
}

// FactoryDenom is the denom user/validator a owns in the prepared world.
func (w *ZooWorld) FactoryDenom(a *FAAccount) string {
	return "factory/" + a.Addr.String() + "/zoo"
}

func (w *ZooWorld) zooJob(id string) *schedulertypes.Job {
	def, _ := json.Marshal(map[string]string{"abi": "[]", "address": "0x00000000000000000000000000000000000000AA"})
	return &schedulertypes.Job{
		ID: id, Routing: schedulertypes.Routing{ChainType: FAEvmChainType, ChainReferenceID: ZooChain},
		Definition: def, Payload: zooJobPayload("00"), IsPayloadModifiable: true,
	}
}

func zooJobPayload(hexPayload string) []byte {
	bz, _ := json.Marshal(map[string]string{"hexPayload": hexPayload})
	return bz
}

func (w *ZooWorld) zooSend(u *FAAccount, amt int64) *skywaytypes.MsgSendToRemote {
	return &skywaytypes.MsgSendToRemote{
		EthDest: "0x00000000000000000000000000000000000000D1", Amount: sdk.NewInt64Coin(FABondDenom, amt),
		ChainReferenceId: ZooChain, Metadata: FAMeta(u.Addr, u.Addr),
	}
}

func (w *ZooWorld) zooBuildBatch() error {
	return w.God(func(ctx sdk.Context) error {
		c, err := skywaytypes.NewEthAddress(ZooBridgeERC20)
		if err != nil {
			return err
		}
		b, err := w.FA.App().SkywayKeeper.BuildOutgoingTXBatch(ctx, ZooChain, *c, 2)
		if err != nil {
			return err
		}
		if b == nil {
			return fmt.Errorf("no batch built (empty pool)")
		}
		return nil
	})
}

// Maintain keeps the world healthy over long runs: keep-alives every 100 blocks,
// the consensus queue is emptied (unrelayed messages would get validators
// jailed) and jailed validators other than Sacrifice are reported.
func (w *ZooWorld) Maintain() {
	fa := w.FA
	if fa.Broken {
		fa.Restart()
	}
	if fa.Height()-w.lastMaintain < 100 {
		return
	}
	w.lastMaintain = fa.Height()
	fa.KeepAliveAll()
	_ = w.God(func(ctx sdk.Context) error {
		msgs, err := fa.App().ConsensusKeeper.GetMessagesFromQueue(ctx, zooQueue, 0)
		if err != nil {
			return nil
		}
		for _, m := range msgs {
			_ = fa.App().ConsensusKeeper.DeleteJob(ctx, zooQueue, m.GetId())
		}
		return nil
	})
}

// Jailed lists the validators that are jailed or not bonded.
func (w *ZooWorld) Jailed() []string {
	var out []string
	ctx := w.FA.CtxCached()
	for _, v := range w.FA.Vals {
		val, err := w.FA.App().StakingKeeper.GetValidator(ctx, v.ValAddr())
		if err != nil || val.Jailed || !val.IsBonded() {
			out = append(out, v.Name)
		}
	}
	return out
}

// ---------------------------------------------------------------------------
// delivery
// ---------------------------------------------------------------------------

// ZooSetMeta overwrites the paloma metadata of msg (no-op for messages without).
func ZooSetMeta(msg sdk.Msg, creator string, signers ...string) bool {
	v := reflect.ValueOf(msg)
	if v.Kind() != reflect.Ptr || v.IsNil() {
		return false
	}
	f := v.Elem().FieldByName("Metadata")
	if !f.IsValid() || f.Type() != reflect.TypeOf(valsettypes.MsgMetadata{}) {
		return false
	}
	f.Set(reflect.ValueOf(valsettypes.MsgMetadata{Creator: creator, Signers: signers}))
	return true
}

// ZooGetMeta returns the metadata of msg.
func ZooGetMeta(msg sdk.Msg) (valsettypes.MsgMetadata, bool) {
	v := reflect.ValueOf(msg)
	if v.Kind() != reflect.Ptr || v.IsNil() {
		return valsettypes.MsgMetadata{}, false
	}
	f := v.Elem().FieldByName("Metadata")
	if !f.IsValid() || f.Type() != reflect.TypeOf(valsettypes.MsgMetadata{}) {
		return valsettypes.MsgMetadata{}, false
	}
	return f.Interface().(valsettypes.MsgMetadata), true
}

// Deliver sets metadata creator = creator's address and signers = [signer's
// address] (on messages that have metadata) and delivers msg in a tx signed by
// signer, alone in its block.
func (w *ZooWorld) Deliver(signer *FAAccount, creator *FAAccount, msg sdk.Msg) FATxResult {
	ZooSetMeta(msg, creator.Addr.String(), signer.Addr.String())
	return w.DeliverRawMeta(signer, msg)
}

// DeliverRawMeta delivers msg as it is (metadata untouched), signed by signer.
func (w *ZooWorld) DeliverRawMeta(signer *FAAccount, msg sdk.Msg) (res FATxResult) {
	if w.FA.Broken {
		w.FA.Restart()
	}
	if p := faRecover(func() { res = w.FA.DeliverTx(signer, msg) }); p != "" {
		res = FATxResult{Panicked: true, BlockErr: "harness panic: " + p}
	}
	if w.FA.Broken {
		w.FA.Restart()
	}
	return res
}

// DeliverMulti delivers ONE transaction carrying all msgs (metadata untouched), signed by
// exactly signers (in that order), alone in its block.
func (w *ZooWorld) DeliverMulti(signers []*FAAccount, msgs ...sdk.Msg) (res FATxResult) {
	if w.FA.Broken {
		w.FA.Restart()
	}
	if p := faRecover(func() { res = w.FA.DeliverOne(FATx{Msgs: msgs, Signers: signers}) }); p != "" {
		res = FATxResult{Panicked: true, BlockErr: "harness panic: " + p}
	}
	if w.FA.Broken {
		w.FA.Restart()
	}
	return res
}

// DeliverGov delivers msg the way an executed governance proposal does: through
// the app's message router (ValidateBasic + handler) on deliver state, with
// authority/creator = the governance module address.  No ante handler runs.
func (w *ZooWorld) DeliverGov(msg sdk.Msg) FATxResult {
	ZooSetMeta(msg, w.Authority, w.Authority)
	return w.DeliverRouter(msg)
}

// DeliverRouter runs msg through the message router without touching it.
func (w *ZooWorld) DeliverRouter(msg sdk.Msg) FATxResult {
	res := FATxResult{}
	h := w.FA.App().MsgServiceRouter().Handler(msg)
	if h == nil {
		return FATxResult{Code: 1, Codespace: "zoo", Log: "no handler for " + sdk.MsgTypeURL(msg)}
	}
	b, err := w.FA.WithDeliverCtx(func(ctx sdk.Context) error {
		if vb, ok := msg.(sdk.HasValidateBasic); ok {
			if err := vb.ValidateBasic(); err != nil {
				return err
			}
		}
		_, err := h(ctx, msg)
		return err
	})
	res.Height = b.Height
	if !b.OK() {
		res.Panicked, res.BlockErr = true, fmt.Sprintf("%v %s", b.Err, b.Panic)
		w.FA.Restart()
		return res
	}
	if err != nil {
		res.Code, res.Codespace, res.Log = 1, "zoo", err.Error()
		res.Panicked = strings.Contains(err.Error(), "hook panicked")
	}
	return res
}

// ---------------------------------------------------------------------------
// hostile values
// ---------------------------------------------------------------------------

// zooH draws hostile values: when on, each parameter is replaced by an extreme
// / malformed value with probability 0.7 (so deep paths with only SOME hostile
// parameters are reached as well).
type zooH struct {
	rng *rand.Rand
	on  bool
}

func (h zooH) hit() bool { return h.on && h.rng.Intn(10) < 7 }

var zooEdgeU64 = []uint64{0, 1, 2, 1 << 32, 1<<63 - 1, 1 << 63, 1<<64 - 2, 1<<64 - 1}

func (h zooH) U64(valid uint64) uint64 {
	if !h.hit() {
		return valid
	}
	return zooEdgeU64[h.rng.Intn(len(zooEdgeU64))]
}

func (h zooH) U32(valid uint32) uint32 {
	if !h.hit() {
		return valid
	}
	return []uint32{0, 1, 1 << 31, 1<<32 - 1}[h.rng.Intn(4)]
}

func zooBig(s string) sdkmath.Int {
	b, _ := new(big.Int).SetString(s, 10)
	return sdkmath.NewIntFromBigInt(b)
}

func (h zooH) Int(valid sdkmath.Int) sdkmath.Int {
	if !h.hit() {
		return valid
	}
	switch h.rng.Intn(8) {
	case 0:
		return sdkmath.ZeroInt()
	case 1:
		return sdkmath.NewInt(-1)
	case 2:
		return sdkmath.NewIntFromBigInt(pow2(63))
	case 3:
		return sdkmath.NewIntFromBigInt(new(big.Int).Sub(pow2(64), bi(1)))
	case 4:
		return sdkmath.NewIntFromBigInt(pow2(255))
	case 5:
		return sdkmath.NewIntFromBigInt(new(big.Int).Sub(pow2(256), bi(1)))
	case 6:
		return sdkmath.NewIntFromBigInt(new(big.Int).Neg(pow2(255)))
	default:
		return sdkmath.Int{} // nil
	}
}

func (h zooH) Dec(valid sdkmath.LegacyDec) sdkmath.LegacyDec {
	if !h.hit() {
		return valid
	}
	switch h.rng.Intn(6) {
	case 0:
		return sdkmath.LegacyDec{} // omitted
	case 1:
		return sdkmath.LegacyNewDec(-1)
	case 2:
		return sdkmath.LegacyZeroDec()
	case 3:
		return sdkmath.LegacyNewDecFromBigInt(new(big.Int).Exp(bi(10), bi(60), nil))
	case 4:
		return sdkmath.LegacyNewDecWithPrec(1, 18)
	default:
		return sdkmath.LegacyNewDecFromBigInt(new(big.Int).Neg(new(big.Int).Exp(bi(10), bi(40), nil)))
	}
}

func (h zooH) Coin(valid sdk.Coin) sdk.Coin {
	if !h.hit() {
		return valid
	}
	c := sdk.Coin{Denom: valid.Denom, Amount: h.Int(valid.Amount)}
	if h.rng.Intn(4) == 0 {
		c.Denom = h.Str(valid.Denom)
	}
	return c
}

func (h zooH) Str(valid string) string {
	if !h.hit() {
		return valid
	}
	switch h.rng.Intn(7) {
	case 0:
		return ""
	case 1:
		return " "
	case 2:
		return strings.Repeat("A", 70_000)
	case 3:
		return valid + "/,|\x00\n"
	case 4:
		return "0x"
	case 5:
		return strings.ToUpper(valid)
	default:
		return "‮" + valid
	}
}

func (h zooH) Eth(valid string) string {
	if !h.hit() {
		return valid
	}
	switch h.rng.Intn(7) {
	case 0:
		return ""
	case 1:
		return "0x"
	case 2:
		return "0xzz" + strings.Repeat("0", 38)
	case 3:
		return strings.ToLower(valid)
	case 4:
		return "0x0000000000000000000000000000000000000000"
	case 5:
		return valid + "00"
	default:
		return strings.TrimPrefix(valid, "0x")
	}
}

func (h zooH) Bech(valid string) string {
	if !h.hit() {
		return valid
	}
	switch h.rng.Intn(6) {
	case 0:
		return ""
	case 1:
		return "paloma1invalid"
	case 2:
		return sdk.MustBech32ifyAddressBytes("cosmos", make([]byte, 20))
	case 3:
		return sdk.AccAddress(make([]byte, 32)).String()
	case 4:
		return strings.ToUpper(valid)
	default:
		return sdk.AccAddress([]byte{1}).String()
	}
}

func (h zooH) Bytes(valid []byte) []byte {
	if !h.hit() {
		return valid
	}
	switch h.rng.Intn(4) {
	case 0:
		return nil
	case 1:
		return []byte{}
	case 2:
		return make([]byte, 150_000)
	default:
		return []byte{0x2c, 0x00, 0xff}
	}
}

func (h zooH) Hex(valid string) string {
	if !h.hit() {
		return valid
	}
	switch h.rng.Intn(5) {
	case 0:
		return ""
	case 1:
		return "0x"
	case 2:
		return "zz"
	case 3:
		return strings.Repeat("ab", 60_000)
	default:
		return "0" + valid
	}
}

// ---------------------------------------------------------------------------
// the zoo
// ---------------------------------------------------------------------------

// ZooField is one identity-bearing field of a message (other than the
// metadata).  Kind says which rendering Set expects: "acc" (account bech32),
// "val" (valoper bech32) or "eth" (0x hex address).  Bytes-typed fields take the
// same renderings and decode them.
type ZooField struct {
	Name string
	Kind string
	Set  func(msg sdk.Msg, addr string)
	// ActorTied: Build fills the field with the ACTOR's own identity (orchestrator, eth signer,
	// validator address …) as opposed to naming some third party (recipient, new admin …).
	ActorTied bool
}

// ZooMsg describes one Msg service RPC.
type ZooMsg struct {
	Name   string // "<module>.<RPC method>"
	Module string
	// Build returns a message that is valid and state-changing when delivered by
	// actor (Deliver(actor, actor, msg), or DeliverGov for NeedsAuthority).  It may
	// commit blocks to prepare what the message acts on.  hostile asks for
	// extreme / malformed values in the sender-controlled parameters.
	Build          func(w *ZooWorld, actor *FAAccount, rng *rand.Rand, hostile bool) sdk.Msg
	IdentityFields []ZooField
	NeedsValidator bool
	NeedsAuthority bool
	// AuthoritySigned: the transaction signer is the message's Authority field
	// (cosmos.msg.v1.signer = "authority"), not the metadata signers.
	AuthoritySigned bool
	// Actor (optional) picks the rightful actor when it is not simply "any
	// validator" / "any user" (e.g. the holder of a light-node licence).
	Actor func(w *ZooWorld) *FAAccount
	// NoStateChange: a successful delivery legitimately changes nothing.
	NoStateChange string
	// Effect lists the KV stores in which a successful delivery shows (default:
	// the module's own store, see ZooStoreOf).
	Effect []string
}

// ZooStoreOf maps a module name (prefix of ZooMsg.Name) to its KV store name.
func ZooStoreOf(module string) string {
	switch module {
	case "consensus":
		return "palomaconsensus"
	case "paloma":
		return "paloma-store"
	}
	return module
}

// EffectStores returns the stores a successful delivery of m must change.
func (m ZooMsg) EffectStores() []string {
	if len(m.Effect) > 0 {
		return m.Effect
	}
	return []string{ZooStoreOf(m.Module)}
}

// ZooCompassABI is a compass ABI whose constructor takes what the evm keeper
// passes on deployment (id, event id, nonce, valset, fee manager).
const ZooCompassABI = `[{"type":"constructor","stateMutability":"nonpayable","inputs":[{"name":"_compass_id","type":"bytes32"},{"name":"_event_id","type":"uint256"},{"name":"_gravity_nonce","type":"uint256"},{"name":"valset","type":"tuple","components":[{"name":"validators","type":"address[]"},{"name":"powers","type":"uint256[]"},{"name":"valset_id","type":"uint256"}]},{"name":"fee_manager","type":"address"}]}]`

// RightfulActor returns an account that may deliver m successfully.
func (m ZooMsg) RightfulActor(w *ZooWorld, rng *rand.Rand) *FAAccount {
	switch {
	case m.Actor != nil:
		return m.Actor(w)
	case m.NeedsValidator:
		return w.FA.Vals[rng.Intn(len(w.FA.Vals)-1)] // never the sacrifice
	default:
		return w.FA.Users[rng.Intn(len(w.FA.Users))]
	}
}

func zooAccBytes(addr string) []byte {
	if a, err := sdk.AccAddressFromBech32(addr); err == nil {
		return a
	}
	if a, err := sdk.ValAddressFromBech32(addr); err == nil {
		return a
	}
	if ethcommon.IsHexAddress(addr) {
		return ethcommon.HexToAddress(addr).Bytes()
	}
	return []byte(addr)
}

// ---------------------------------------------------------------------------
// world helpers used by the builders
// ---------------------------------------------------------------------------

// FreshQueueMsg puts a new SubmitLogicCall message (needs signatures, gas
// estimates; no public access / error data yet) into the turnstone queue of
// "test-chain" through the scheduler keeper and returns its id and sign bytes.
func (w *ZooWorld) FreshQueueMsg() (id uint64, signBytes []byte) {
	a := w.FA.App()
	err := w.God(func(ctx sdk.Context) error {
		var e error
		id, e = a.SchedulerKeeper.ExecuteJob(ctx, "zoo-job-u1", zooJobPayload(fmt.Sprintf("%04x", w.next())), w.FA.User(1).Addr, nil)
		if e != nil {
			return e
		}
		msgs, e := a.ConsensusKeeper.GetMessagesFromQueue(ctx, zooQueue, 0)
		if e != nil {
			return e
		}
		for _, m := range msgs {
			if m.GetId() == id {
				signBytes, e = m.GetBytesToSign(a.AppCodec())
				return e
			}
		}
		return fmt.Errorf("queued message %d not found", id)
	})
	if err != nil {
		w.T.Logf("zoo: FreshQueueMsg: %v", err)
	}
	return id, signBytes
}

func (w *ZooWorld) zooEthSign(a *FAAccount, bz []byte) []byte {
	if a.EthPriv == nil {
		return []byte("not-a-validator")
	}
	return w.FA.EthSign(a.ValIdx, bz)
}

func zooEthHex(a *FAAccount) string {
	if a.EthPriv == nil {
		return "0x00000000000000000000000000000000000000EE"
	}
	return a.EthAddr.Hex()
}

// ---------------------------------------------------------------------------
// consensus
// ---------------------------------------------------------------------------

func zooConsensus() []ZooMsg {
	return []ZooMsg{
		{
			Name: "consensus.AddMessagesSignatures", Module: "consensus", NeedsValidator: true,
			Build: func(w *ZooWorld, actor *FAAccount, rng *rand.Rand, hostile bool) sdk.Msg {
				h := zooH{rng, hostile}
				id, bz := w.FreshQueueMsg()
				m := &consensustypes.MsgAddMessagesSignatures{SignedMessages: []*consensustypes.ConsensusMessageSignature{{
					Id: h.U64(id), QueueTypeName: h.Str(zooQueue), Signature: h.Bytes(w.zooEthSign(actor, bz)),
					SignedByAddress: h.Eth(zooEthHex(actor)),
				}}, Metadata: FAMeta(actor.Addr, actor.Addr)}
				if hostile && rng.Intn(5) == 0 {
					m.SignedMessages = nil
				}
				return m
			},
			IdentityFields: []ZooField{{Name: "SignedMessages.SignedByAddress", ActorTied: true, Kind: "eth", Set: func(msg sdk.Msg, addr string) {
				for _, s := range msg.(*consensustypes.MsgAddMessagesSignatures).SignedMessages {
					s.SignedByAddress = addr
				}
			}}},
		},
		{
			Name: "consensus.AddMessageEstimates", Module: "consensus", NeedsValidator: true,
			Build: func(w *ZooWorld, actor *FAAccount, rng *rand.Rand, hostile bool) sdk.Msg {
				h := zooH{rng, hostile}
				id, _ := w.FreshQueueMsg()
				m := &consensustypes.MsgAddMessageGasEstimates{Estimates: []*consensustypes.MsgAddMessageGasEstimates_GasEstimate{{
					MsgId: h.U64(id), QueueTypeName: h.Str(zooQueue), Value: h.U64(21000 + uint64(rng.Intn(1000))),
					EstimatedByAddress: h.Eth(zooEthHex(actor)),
				}}, Metadata: FAMeta(actor.Addr, actor.Addr)}
				if hostile && rng.Intn(5) == 0 {
					m.Estimates = nil
				}
				return m
			},
			IdentityFields: []ZooField{{Name: "Estimates.EstimatedByAddress", ActorTied: true, Kind: "eth", Set: func(msg sdk.Msg, addr string) {
				for _, s := range msg.(*consensustypes.MsgAddMessageGasEstimates).Estimates {
					s.EstimatedByAddress = addr
				}
			}}},
		},
		{
			Name: "consensus.AddEvidence", Module: "consensus", NeedsValidator: true,
			Build: func(w *ZooWorld, actor *FAAccount, rng *rand.Rand, hostile bool) sdk.Msg {
				h := zooH{rng, hostile}
				id, _ := w.FreshQueueMsg()
				proof, err := codectypes.NewAnyWithValue(&evmtypes.TxExecutedProof{SerializedTX: h.Bytes([]byte{0xf8, 0x01, byte(rng.Intn(256))})})
				if err != nil {
					panic(err)
				}
				if hostile && rng.Intn(3) == 0 {
					proof = nil
				}
				return &consensustypes.MsgAddEvidence{Proof: proof, MessageID: h.U64(id), QueueTypeName: h.Str(zooQueue), Metadata: FAMeta(actor.Addr, actor.Addr)}
			},
		},
		{
			Name: "consensus.SetPublicAccessData", Module: "consensus", NeedsValidator: true,
			Build: func(w *ZooWorld, actor *FAAccount, rng *rand.Rand, hostile bool) sdk.Msg {
				h := zooH{rng, hostile}
				id, _ := w.FreshQueueMsg()
				return &consensustypes.MsgSetPublicAccessData{MessageID: h.U64(id), QueueTypeName: h.Str(zooQueue),
					Data: h.Bytes([]byte{0xaa, byte(rng.Intn(256)), 0xcc}), ValsetID: h.U64(1), Metadata: FAMeta(actor.Addr, actor.Addr)}
			},
		},
		{
			Name: "consensus.SetErrorData", Module: "consensus", NeedsValidator: true,
			Build: func(w *ZooWorld, actor *FAAccount, rng *rand.Rand, hostile bool) sdk.Msg {
				h := zooH{rng, hostile}
				id, _ := w.FreshQueueMsg()
				return &consensustypes.MsgSetErrorData{MessageID: h.U64(id), QueueTypeName: h.Str(zooQueue),
					Data: h.Bytes([]byte("reverted")), Metadata: FAMeta(actor.Addr, actor.Addr)}
			},
		},
	}
}

// ---------------------------------------------------------------------------
// evm
// ---------------------------------------------------------------------------

// EnsureUserContract makes sure actor owns an uploaded user smart contract and
// returns its id (contracts are stored under the valoper rendering of the address).
func (w *ZooWorld) EnsureUserContract(actor *FAAccount) uint64 {
	a := w.FA.App()
	var id uint64
	_ = w.God(func(ctx sdk.Context) error {
		cs, err := a.EvmKeeper.UserSmartContracts(ctx, actor.ValAddr().String())
		if err == nil && len(cs) > 0 {
			id = cs[len(cs)-1].Id
			return nil
		}
		id, err = a.EvmKeeper.SaveUserSmartContract(ctx, actor.ValAddr().String(), &evmtypes.UserSmartContract{
			Title: "zoo", AbiJson: "[]", Bytecode: "0x6001", ConstructorInput: "",
		})
		return err
	})
	return id
}

// EnsureDeployment makes sure a compass deployment record exists (a new compass
// contract proposed by governance while "test-chain" runs the old one).
func (w *ZooWorld) EnsureDeployment() (contractID uint64, chain string) {
	a := w.FA.App()
	find := func() bool {
		found := false
		w.Read(func(ctx sdk.Context) {
			ds, err := a.EvmKeeper.AllSmartContractsDeployments(ctx)
			if err == nil && len(ds) > 0 {
				contractID, chain, found = ds[0].SmartContractID, ds[0].ChainReferenceID, true
			}
		})
		return found
	}
	if find() {
		return
	}
	r := w.DeliverGov(&evmtypes.MsgDeployNewSmartContractProposalV2{Authority: w.Authority, AbiJSON: ZooCompassABI, BytecodeHex: fmt.Sprintf("0x60%04x", w.next())})
	if !r.OK() {
		w.T.Logf("zoo: EnsureDeployment: %s %s", r.Log, r.BlockErr)
	}
	find()
	return
}

func zooEvm() []ZooMsg {
	authorityField := func(get func(sdk.Msg) *string) []ZooField {
		return []ZooField{{Name: "Authority", Kind: "acc", Set: func(msg sdk.Msg, addr string) { *get(msg) = addr }}}
	}
	return []ZooMsg{
		{
			Name: "evm.RemoveSmartContractDeployment", Module: "evm",
			Build: func(w *ZooWorld, actor *FAAccount, rng *rand.Rand, hostile bool) sdk.Msg {
				h := zooH{rng, hostile}
				id, chain := w.EnsureDeployment()
				return &evmtypes.MsgRemoveSmartContractDeploymentRequest{SmartContractID: h.U64(id), ChainReferenceID: h.Str(chain), Metadata: FAMeta(actor.Addr, actor.Addr)}
			},
		},
		{
			Name: "evm.ProposeNewSmartContractDeployment", Module: "evm", NeedsAuthority: true,
			Build: func(w *ZooWorld, actor *FAAccount, rng *rand.Rand, hostile bool) sdk.Msg {
				h := zooH{rng, hostile}
				return &evmtypes.MsgDeployNewSmartContractProposalV2{Authority: w.Authority, AbiJSON: h.Str(ZooCompassABI),
					BytecodeHex: h.Hex(fmt.Sprintf("0x61%04x", w.next())), Metadata: FAMeta(actor.Addr, actor.Addr)}
			},
			IdentityFields: authorityField(func(m sdk.Msg) *string { return &m.(*evmtypes.MsgDeployNewSmartContractProposalV2).Authority }),
		},
		{
			Name: "evm.ProposeNewReferenceBlockAttestation", Module: "evm", NeedsAuthority: true,
			Build: func(w *ZooWorld, actor *FAAccount, rng *rand.Rand, hostile bool) sdk.Msg {
				h := zooH{rng, hostile}
				var cur uint64
				w.Read(func(ctx sdk.Context) {
					if ci, err := w.FA.App().EvmKeeper.GetChainInfo(ctx, ZooChain); err == nil {
						cur = ci.ReferenceBlockHeight
					}
				})
				return &evmtypes.MsgProposeNewReferenceBlockAttestation{Authority: w.Authority, ChainReferenceId: h.Str(ZooChain),
					BlockHeight: h.U64(cur + 1), BlockHash: h.Hex(fmt.Sprintf("0x%064x", w.next())), Metadata: FAMeta(actor.Addr, actor.Addr)}
			},
			IdentityFields: authorityField(func(m sdk.Msg) *string { return &m.(*evmtypes.MsgProposeNewReferenceBlockAttestation).Authority }),
		},
		{
			Name: "evm.UploadUserSmartContract", Module: "evm",
			Build: func(w *ZooWorld, actor *FAAccount, rng *rand.Rand, hostile bool) sdk.Msg {
				h := zooH{rng, hostile}
				return &evmtypes.MsgUploadUserSmartContractRequest{Title: h.Str(fmt.Sprintf("zoo-%d", w.next())), AbiJson: h.Str("[]"),
					Bytecode: h.Hex("0x6001"), ConstructorInput: h.Hex(""), Metadata: FAMeta(actor.Addr, actor.Addr)}
			},
		},
		{
			Name: "evm.RemoveUserSmartContract", Module: "evm",
			Build: func(w *ZooWorld, actor *FAAccount, rng *rand.Rand, hostile bool) sdk.Msg {
				h := zooH{rng, hostile}
				return &evmtypes.MsgRemoveUserSmartContractRequest{Id: h.U64(w.EnsureUserContract(actor)), Metadata: FAMeta(actor.Addr, actor.Addr)}
			},
		},
		{
			Name: "evm.DeployUserSmartContract", Module: "evm",
			Build: func(w *ZooWorld, actor *FAAccount, rng *rand.Rand, hostile bool) sdk.Msg {
				h := zooH{rng, hostile}
				return &evmtypes.MsgDeployUserSmartContractRequest{Id: h.U64(w.EnsureUserContract(actor)), TargetChain: h.Str(ZooChain), Metadata: FAMeta(actor.Addr, actor.Addr)}
			},
		},
	}
}

// ---------------------------------------------------------------------------
// paloma
// ---------------------------------------------------------------------------

// EnsureLicence gives actor an unregistered light-node licence (god mode: the
// real message only works for addresses that have no account yet) and funds the
// paloma module account with the licence amount.  Returns false when actor
// cannot hold one (already a vesting account).
func (w *ZooWorld) EnsureLicence(actor *FAAccount) bool {
	a := w.FA.App()
	ok := false
	_ = w.God(func(ctx sdk.Context) error {
		if _, err := a.PalomaKeeper.GetLightNodeClientLicense(ctx, actor.Addr.String()); err == nil {
			ok = true
			return nil
		}
		acc := a.AccountKeeper.GetAccount(ctx, actor.Addr)
		if acc == nil {
			return nil
		}
		amt := sdk.NewInt64Coin(FABondDenom, 1_000_000)
		if err := a.BankKeeper.SendCoinsFromAccountToModule(ctx, w.FA.User(2).Addr, palomatypes.ModuleName, sdk.NewCoins(amt)); err != nil {
			return err
		}
		ok = true
		return a.PalomaKeeper.SetLightNodeClientLicense(ctx, actor.Addr.String(), &palomatypes.LightNodeClientLicense{
			ClientAddress: actor.Addr.String(), Amount: amt, VestingMonths: 6,
		})
	})
	return ok
}

// EnsureLightNodeClient registers actor as light-node client (god mode).
func (w *ZooWorld) EnsureLightNodeClient(actor *FAAccount) {
	a := w.FA.App()
	_ = w.God(func(ctx sdk.Context) error {
		if _, err := a.PalomaKeeper.GetLightNodeClient(ctx, actor.Addr.String()); err == nil {
			return nil
		}
		return a.PalomaKeeper.SetLightNodeClient(ctx, actor.Addr.String(), &palomatypes.LightNodeClient{
			ClientAddress: actor.Addr.String(), ActivatedAt: ctx.BlockTime(), LastAuthAt: ctx.BlockTime(),
		})
	})
}

func zooPaloma() []ZooMsg {
	return []ZooMsg{
		{
			Name: "paloma.AddStatusUpdate", Module: "paloma", NeedsValidator: true,
			NoStateChange: "the handler only logs (and only when PALOMA_FF_PIGEON_STATUS_UPDATE is set)",
			Build: func(w *ZooWorld, actor *FAAccount, rng *rand.Rand, hostile bool) sdk.Msg {
				h := zooH{rng, hostile}
				m := &palomatypes.MsgAddStatusUpdate{Status: h.Str("relayed"), Level: palomatypes.MsgAddStatusUpdate_LEVEL_INFO,
					Args:     []palomatypes.MsgAddStatusUpdate_KeyValuePair{{Key: h.Str("k"), Value: h.Str("v")}},
					Metadata: FAMeta(actor.Addr, actor.Addr)}
				// the number of key/value pairs is sender-controlled too
				if n := []int{1, 0, 2, 16, 17, 40}[rng.Intn(6)]; n != 1 {
					m.Args = nil
					for i := 0; i < n; i++ {
						m.Args = append(m.Args, palomatypes.MsgAddStatusUpdate_KeyValuePair{Key: fmt.Sprintf("k%d", i), Value: h.Str("v")})
					}
				}
				if hostile {
					m.Level = palomatypes.MsgAddStatusUpdate_Level([]int32{-1, 3, 1 << 30, -(1 << 31)}[rng.Intn(4)])
					if rng.Intn(3) == 0 {
						for i := 0; i < 300; i++ {
							m.Args = append(m.Args, palomatypes.MsgAddStatusUpdate_KeyValuePair{Key: h.Str("k"), Value: h.Str("v")})
						}
					}
				}
				return m
			},
		},
		{
			Name: "paloma.RegisterLightNodeClient", Module: "paloma",
			Actor: func(w *ZooWorld) *FAAccount {
				if w.LicenceHolder != nil {
					h := w.LicenceHolder
					w.LicenceHolder = nil
					return h
				}
				return w.FA.User(0)
			},
			Build: func(w *ZooWorld, actor *FAAccount, rng *rand.Rand, hostile bool) sdk.Msg {
				w.EnsureLicence(actor)
				return &palomatypes.MsgRegisterLightNodeClient{Metadata: FAMeta(actor.Addr, actor.Addr)}
			},
		},
		{
			Name: "paloma.AddLightNodeClientLicense", Module: "paloma",
			Build: func(w *ZooWorld, actor *FAAccount, rng *rand.Rand, hostile bool) sdk.Msg {
				h := zooH{rng, hostile}
				return &palomatypes.MsgAddLightNodeClientLicense{ClientAddress: h.Bech(w.FreshAccount("lnc").Addr.String()),
					Amount: h.Coin(sdk.NewInt64Coin(FABondDenom, 1_000_000+int64(rng.Intn(1000)))), VestingMonths: h.U32(12),
					Metadata: FAMeta(actor.Addr, actor.Addr)}
			},
			IdentityFields: []ZooField{{Name: "ClientAddress", Kind: "acc", Set: func(msg sdk.Msg, addr string) {
				msg.(*palomatypes.MsgAddLightNodeClientLicense).ClientAddress = addr
			}}},
		},
		{
			Name: "paloma.AuthLightNodeClient", Module: "paloma",
			Build: func(w *ZooWorld, actor *FAAccount, rng *rand.Rand, hostile bool) sdk.Msg {
				w.EnsureLightNodeClient(actor)
				return &palomatypes.MsgAuthLightNodeClient{Metadata: FAMeta(actor.Addr, actor.Addr)}
			},
		},
		{
			Name: "paloma.SetLegacyLightNodeClients", Module: "paloma",
			Build: func(w *ZooWorld, actor *FAAccount, rng *rand.Rand, hostile bool) sdk.Msg {
				// a "legacy" client = grantee of the light-node feegranter that has neither
				// a client record nor a licence
				legacy := w.FreshAccount("legacy")
				if r := w.FA.GrantFee(w.FA.User(3), legacy); !r.OK() {
					w.T.Logf("zoo: legacy grant: %s %s", r.Log, r.BlockErr)
				}
				return &palomatypes.MsgSetLegacyLightNodeClients{Metadata: FAMeta(actor.Addr, actor.Addr)}
			},
		},
		{
			Name: "paloma.UpdateParams", Module: "paloma", NeedsAuthority: true, AuthoritySigned: true, Effect: []string{"params"},
			Build: func(w *ZooWorld, actor *FAAccount, rng *rand.Rand, hostile bool) sdk.Msg {
				h := zooH{rng, hostile}
				return &palomatypes.MsgUpdateParams{Authority: w.Authority, Params: palomatypes.Params{
					GasExemptAddresses: []string{h.Bech(w.FA.User(rng.Intn(4)).Addr.String())},
				}, Metadata: FAMeta(actor.Addr, actor.Addr)}
			},
			IdentityFields: []ZooField{
				{Name: "Authority", Kind: "acc", Set: func(msg sdk.Msg, addr string) { msg.(*palomatypes.MsgUpdateParams).Authority = addr }},
				{Name: "Params.GasExemptAddresses", Kind: "acc", Set: func(msg sdk.Msg, addr string) {
					msg.(*palomatypes.MsgUpdateParams).Params.GasExemptAddresses = []string{addr}
				}},
			},
		},
	}
}

// ---------------------------------------------------------------------------
// scheduler
// ---------------------------------------------------------------------------

func zooScheduler() []ZooMsg {
	return []ZooMsg{
		{
			Name: "scheduler.CreateJob", Module: "scheduler",
			Build: func(w *ZooWorld, actor *FAAccount, rng *rand.Rand, hostile bool) sdk.Msg {
				h := zooH{rng, hostile}
				job := w.zooJob(h.Str(fmt.Sprintf("zoo-job-%d", w.next())))
				job.Definition = h.Bytes(job.Definition)
				job.Payload = h.Bytes(job.Payload)
				job.Routing.ChainReferenceID = h.Str(ZooChain)
				if hostile && rng.Intn(4) == 0 {
					job.Permissions.Whitelist = []*schedulertypes.Runner{{ChainType: h.Str("evm"), ChainReferenceID: h.Str(ZooChain), Address: h.Bytes([]byte{1})}}
				}
				m := &schedulertypes.MsgCreateJob{Job: job, Metadata: FAMeta(actor.Addr, actor.Addr)}
				if hostile && rng.Intn(6) == 0 {
					m.Job = nil
				}
				return m
			},
			IdentityFields: []ZooField{{Name: "Job.Owner", ActorTied: true, Kind: "acc", Set: func(msg sdk.Msg, addr string) {
				if j := msg.(*schedulertypes.MsgCreateJob).Job; j != nil {
					j.Owner = zooAccBytes(addr)
				}
			}}},
		},
		{
			Name: "scheduler.ExecuteJob", Module: "scheduler", Effect: []string{"palomaconsensus"},
			Build: func(w *ZooWorld, actor *FAAccount, rng *rand.Rand, hostile bool) sdk.Msg {
				h := zooH{rng, hostile}
				return &schedulertypes.MsgExecuteJob{JobID: h.Str(fmt.Sprintf("zoo-job-u%d", rng.Intn(4))),
					Payload: h.Bytes(zooJobPayload(fmt.Sprintf("%04x", w.next()))), Metadata: FAMeta(actor.Addr, actor.Addr)}
			},
		},
	}
}

// ---------------------------------------------------------------------------
// tokenfactory
// ---------------------------------------------------------------------------

// EnsureDenom makes sure actor is the admin of a tokenfactory denom with bank
// metadata and some supply in actor's account, and returns it.
func (w *ZooWorld) EnsureDenom(actor *FAAccount) string {
	a := w.FA.App()
	denom := ""
	err := w.God(func(ctx sdk.Context) error {
		for _, d := range a.TokenFactoryKeeper.GetDenomsFromCreator(ctx, actor.Addr.String()) {
			if md, err := a.TokenFactoryKeeper.GetAuthorityMetadata(ctx, d); err == nil && md.Admin == actor.Addr.String() {
				denom = d
				return nil
			}
		}
		// creation fee is taken from the creator
		_ = a.BankKeeper.SendCoins(ctx, w.FA.User(2).Addr, actor.Addr, faCoins(20_000_000))
		d, err := a.TokenFactoryKeeper.CreateDenom(ctx, actor.Addr.String(), fmt.Sprintf("zoo%d", w.next()))
		if err != nil {
			return err
		}
		denom = d
		c := sdk.NewCoins(sdk.NewInt64Coin(d, 1_000_000))
		if err := a.BankKeeper.MintCoins(ctx, tokenfactorytypes.ModuleName, c); err != nil {
			return err
		}
		return a.BankKeeper.SendCoinsFromModuleToAccount(ctx, tokenfactorytypes.ModuleName, actor.Addr, c)
	})
	if err != nil {
		w.T.Logf("zoo: EnsureDenom(%s): %v", actor.Name, err)
	}
	return denom
}

// zooCoin builds a coin without validating the denom (EnsureDenom may have failed).
func zooCoin(denom string, amt int64) sdk.Coin {
	return sdk.Coin{Denom: denom, Amount: sdkmath.NewInt(amt)}
}

func zooTokenfactory() []ZooMsg {
	return []ZooMsg{
		{
			Name: "tokenfactory.CreateDenom", Module: "tokenfactory",
			Build: func(w *ZooWorld, actor *FAAccount, rng *rand.Rand, hostile bool) sdk.Msg {
				h := zooH{rng, hostile}
				return &tokenfactorytypes.MsgCreateDenom{Subdenom: h.Str(fmt.Sprintf("sub%d", w.next())), Metadata: FAMeta(actor.Addr, actor.Addr)}
			},
		},
		{
			Name: "tokenfactory.SetDenomMetadata", Module: "tokenfactory", Effect: []string{"bank"},
			Build: func(w *ZooWorld, actor *FAAccount, rng *rand.Rand, hostile bool) sdk.Msg {
				h := zooH{rng, hostile}
				d := w.EnsureDenom(actor)
				return &tokenfactorytypes.MsgSetDenomMetadata{DenomMetadata: banktypes.Metadata{
					Description: h.Str(fmt.Sprintf("zoo %d", w.next())), Base: h.Str(d), Display: h.Str(d), Name: h.Str("Zoo"), Symbol: h.Str("ZOO"),
					DenomUnits: []*banktypes.DenomUnit{{Denom: h.Str(d), Exponent: h.U32(0)}},
				}, Metadata: FAMeta(actor.Addr, actor.Addr)}
			},
		},
		{
			Name: "tokenfactory.Mint", Module: "tokenfactory", Effect: []string{"bank"},
			Build: func(w *ZooWorld, actor *FAAccount, rng *rand.Rand, hostile bool) sdk.Msg {
				h := zooH{rng, hostile}
				return &tokenfactorytypes.MsgMint{Amount: h.Coin(zooCoin(w.EnsureDenom(actor), 100+int64(rng.Intn(100)))), Metadata: FAMeta(actor.Addr, actor.Addr)}
			},
		},
		{
			Name: "tokenfactory.Burn", Module: "tokenfactory", Effect: []string{"bank"},
			Build: func(w *ZooWorld, actor *FAAccount, rng *rand.Rand, hostile bool) sdk.Msg {
				h := zooH{rng, hostile}
				return &tokenfactorytypes.MsgBurn{Amount: h.Coin(zooCoin(w.EnsureDenom(actor), 1+int64(rng.Intn(10)))), Metadata: FAMeta(actor.Addr, actor.Addr)}
			},
		},
		{
			Name: "tokenfactory.ChangeAdmin", Module: "tokenfactory",
			Build: func(w *ZooWorld, actor *FAAccount, rng *rand.Rand, hostile bool) sdk.Msg {
				h := zooH{rng, hostile}
				return &tokenfactorytypes.MsgChangeAdmin{Denom: h.Str(w.EnsureDenom(actor)), NewAdmin: h.Bech(w.FreshAccount("admin").Addr.String()), Metadata: FAMeta(actor.Addr, actor.Addr)}
			},
			IdentityFields: []ZooField{{Name: "NewAdmin", Kind: "acc", Set: func(msg sdk.Msg, addr string) {
				msg.(*tokenfactorytypes.MsgChangeAdmin).NewAdmin = addr
			}}},
		},
		{
			Name: "tokenfactory.UpdateParams", Module: "tokenfactory", NeedsAuthority: true, AuthoritySigned: true, Effect: []string{"params"},
			Build: func(w *ZooWorld, actor *FAAccount, rng *rand.Rand, hostile bool) sdk.Msg {
				h := zooH{rng, hostile}
				p := tokenfactorytypes.Params{DenomCreationFee: sdk.Coins{h.Coin(sdk.NewInt64Coin(FABondDenom, 10_000_000+int64(rng.Intn(10))))}}
				return &tokenfactorytypes.MsgUpdateParams{Authority: w.Authority, Params: p, Metadata: FAMeta(actor.Addr, actor.Addr)}
			},
			IdentityFields: []ZooField{{Name: "Authority", Kind: "acc", Set: func(msg sdk.Msg, addr string) {
				msg.(*tokenfactorytypes.MsgUpdateParams).Authority = addr
			}}},
		},
	}
}

// ---------------------------------------------------------------------------
// treasury, valset
// ---------------------------------------------------------------------------

func zooTreasuryValset() []ZooMsg {
	return []ZooMsg{
		{
			Name: "treasury.UpsertRelayerFee", Module: "treasury", NeedsValidator: true,
			Build: func(w *ZooWorld, actor *FAAccount, rng *rand.Rand, hostile bool) sdk.Msg {
				h := zooH{rng, hostile}
				m := &treasurytypes.MsgUpsertRelayerFee{FeeSetting: &treasurytypes.RelayerFeeSetting{
					ValAddress: actor.ValAddr().String(),
					Fees: []treasurytypes.RelayerFeeSetting_FeeSetting{{
						Multiplicator: h.Dec(sdkmath.LegacyNewDecWithPrec(int64(105+rng.Intn(90)), 2)), ChainReferenceId: h.Str(ZooChain),
					}},
				}, Metadata: FAMeta(actor.Addr, actor.Addr)}
				if hostile && rng.Intn(6) == 0 {
					m.FeeSetting = nil
				}
				return m
			},
			IdentityFields: []ZooField{{Name: "FeeSetting.ValAddress", ActorTied: true, Kind: "val", Set: func(msg sdk.Msg, addr string) {
				if fs := msg.(*treasurytypes.MsgUpsertRelayerFee).FeeSetting; fs != nil {
					fs.ValAddress = addr
				}
			}}},
		},
		{
			Name: "valset.AddExternalChainInfoForValidator", Module: "valset", NeedsValidator: true,
			Build: func(w *ZooWorld, actor *FAAccount, rng *rand.Rand, hostile bool) sdk.Msg {
				h := zooH{rng, hostile}
				// always keep the test-chain account (a validator without it gets jailed);
				// the state change is an additional account on a not yet supported chain
				n := w.next()
				extra := fmt.Sprintf("0x%040x", 0xE000000+n)
				infos := []*valsettypes.ExternalChainInfo{
					{ChainType: FAEvmChainType, ChainReferenceID: ZooChain, Address: zooEthHex(actor), Pubkey: zooAccBytes(zooEthHex(actor))},
					{ChainType: h.Str(FAEvmChainType), ChainReferenceID: h.Str("zoo-chain"), Address: h.Eth(extra), Pubkey: h.Bytes(zooAccBytes(extra)),
						Balance: h.Str("0"), Traits: []string{h.Str("mev")}},
				}
				if hostile && rng.Intn(5) == 0 {
					for i := 0; i < 200; i++ {
						infos = append(infos, &valsettypes.ExternalChainInfo{ChainType: "evm", ChainReferenceID: fmt.Sprintf("c%d", i), Address: extra, Pubkey: []byte{1}})
					}
				}
				return &valsettypes.MsgAddExternalChainInfoForValidator{ChainInfos: infos, Metadata: FAMeta(actor.Addr, actor.Addr)}
			},
			IdentityFields: []ZooField{
				{Name: "ChainInfos.Address", ActorTied: true, Kind: "eth", Set: func(msg sdk.Msg, addr string) {
					// the account on the ACTIVE chain is the one that matters
					msg.(*valsettypes.MsgAddExternalChainInfoForValidator).ChainInfos[0].Address = addr
				}},
				{Name: "ChainInfos.Pubkey", ActorTied: true, Kind: "eth", Set: func(msg sdk.Msg, addr string) {
					msg.(*valsettypes.MsgAddExternalChainInfoForValidator).ChainInfos[0].Pubkey = zooAccBytes(addr)
				}},
			},
		},
		{
			Name: "valset.KeepAlive", Module: "valset", NeedsValidator: true,
			Build: func(w *ZooWorld, actor *FAAccount, rng *rand.Rand, hostile bool) sdk.Msg {
				h := zooH{rng, hostile}
				return &valsettypes.MsgKeepAlive{PigeonVersion: h.Str(FAPigeonVersion), Metadata: FAMeta(actor.Addr, actor.Addr)}
			},
		},
	}
}

// ---------------------------------------------------------------------------
// skyway
// ---------------------------------------------------------------------------

func zooBridgeContract() skywaytypes.EthAddress {
	c, err := skywaytypes.NewEthAddress(ZooBridgeERC20)
	if err != nil {
		panic(err)
	}
	return *c
}

// OpenBatchFor returns an open batch that actor has neither confirmed nor
// estimated yet (building a new one from a fresh transfer when needed) together
// with its checkpoint.
func (w *ZooWorld) OpenBatchFor(actor *FAAccount) (nonce uint64, checkpoint []byte) {
	a := w.FA.App()
	find := func(ctx sdk.Context) bool {
		bs, err := a.SkywayKeeper.GetOutgoingTxBatches(ctx)
		if err != nil {
			return false
		}
		ci, err := a.EvmKeeper.GetChainInfo(ctx, ZooChain)
		if err != nil {
			return false
		}
		for _, b := range bs {
			if b.GasEstimate != 0 || b.BatchTimeout < uint64(ctx.BlockTime().Unix())+60 {
				continue
			}
			if c, _ := a.SkywayKeeper.GetBatchConfirm(ctx, b.BatchNonce, b.TokenContract, actor.Addr); c != nil {
				continue
			}
			if e, _ := a.SkywayKeeper.GetBatchGasEstimate(ctx, b.BatchNonce, b.TokenContract, actor.ValAddr()); e != nil {
				continue
			}
			cp, err := b.GetCheckpoint(string(ci.SmartContractUniqueID))
			if err != nil {
				continue
			}
			nonce, checkpoint = b.BatchNonce, cp
			return true
		}
		return false
	}
	found := false
	w.Read(func(ctx sdk.Context) { found = find(ctx) })
	if found {
		return
	}
	err := w.God(func(ctx sdk.Context) error {
		dest, _ := skywaytypes.NewEthAddress("0x00000000000000000000000000000000000000D2")
		if _, err := a.SkywayKeeper.AddToOutgoingPool(ctx, w.FA.User(2).Addr, *dest, sdk.NewInt64Coin(FABondDenom, 500+int64(w.next())), ZooChain); err != nil {
			return err
		}
		_, err := a.SkywayKeeper.BuildOutgoingTXBatch(ctx, ZooChain, zooBridgeContract(), 1)
		return err
	})
	if err != nil {
		w.T.Logf("zoo: OpenBatchFor: %v", err)
	}
	w.Read(func(ctx sdk.Context) { find(ctx) })
	return
}

// PendingTransferOf returns the id of an unbatched transfer sent by actor
// (creating one when needed).
func (w *ZooWorld) PendingTransferOf(actor *FAAccount) uint64 {
	a := w.FA.App()
	var id uint64
	_ = w.God(func(ctx sdk.Context) error {
		txs, err := a.SkywayKeeper.GetUnbatchedTransactions(ctx)
		if err != nil {
			return err
		}
		for _, tx := range txs {
			if tx.Sender.Equals(actor.Addr) {
				id = tx.Id
				return nil
			}
		}
		dest, _ := skywaytypes.NewEthAddress("0x00000000000000000000000000000000000000D3")
		id, err = a.SkywayKeeper.AddToOutgoingPool(ctx, actor.Addr, *dest, sdk.NewInt64Coin(FABondDenom, 700+int64(w.next())), ZooChain)
		return err
	})
	return id
}

// NextSkywayNonce is the nonce actor's next claim must carry.
func (w *ZooWorld) NextSkywayNonce(actor *FAAccount) uint64 {
	var n uint64
	w.Read(func(ctx sdk.Context) {
		n, _ = w.FA.App().SkywayKeeper.GetLastSkywayNonceByValidator(ctx, actor.ValAddr(), ZooChain)
	})
	return n + 1
}

func (w *ZooWorld) compassID() string {
	id := ""
	w.Read(func(ctx sdk.Context) {
		if ci, err := w.FA.App().EvmKeeper.GetChainInfo(ctx, ZooChain); err == nil {
			id = string(ci.SmartContractUniqueID)
		}
	})
	return id
}

func zooSkyway() []ZooMsg {
	orch := func(set func(sdk.Msg, string)) ZooField {
		return ZooField{Name: "Orchestrator", ActorTied: true, Kind: "acc", Set: set}
	}
	return []ZooMsg{
		{
			Name: "skyway.SendToRemote", Module: "skyway",
			Build: func(w *ZooWorld, actor *FAAccount, rng *rand.Rand, hostile bool) sdk.Msg {
				h := zooH{rng, hostile}
				m := w.zooSend(actor, 100+int64(rng.Intn(1000)))
				m.EthDest, m.Amount, m.ChainReferenceId = h.Eth(m.EthDest), h.Coin(m.Amount), h.Str(m.ChainReferenceId)
				return m
			},
			IdentityFields: []ZooField{{Name: "EthDest", Kind: "eth", Set: func(msg sdk.Msg, addr string) { msg.(*skywaytypes.MsgSendToRemote).EthDest = addr }}},
		},
		{
			Name: "skyway.ConfirmBatch", Module: "skyway", NeedsValidator: true,
			Build: func(w *ZooWorld, actor *FAAccount, rng *rand.Rand, hostile bool) sdk.Msg {
				h := zooH{rng, hostile}
				nonce, cp := w.OpenBatchFor(actor)
				sig := ""
				if actor.EthPriv != nil {
					bz, err := skywaytypes.NewEthereumSignature(cp, actor.EthPriv)
					if err == nil {
						sig = hex.EncodeToString(bz)
					}
				}
				return &skywaytypes.MsgConfirmBatch{Nonce: h.U64(nonce), TokenContract: h.Eth(ZooBridgeERC20), EthSigner: h.Eth(zooEthHex(actor)),
					Orchestrator: h.Bech(actor.Addr.String()), Signature: h.Hex(sig), Metadata: FAMeta(actor.Addr, actor.Addr)}
			},
			IdentityFields: []ZooField{
				orch(func(msg sdk.Msg, addr string) { msg.(*skywaytypes.MsgConfirmBatch).Orchestrator = addr }),
				{Name: "EthSigner", ActorTied: true, Kind: "eth", Set: func(msg sdk.Msg, addr string) { msg.(*skywaytypes.MsgConfirmBatch).EthSigner = addr }},
			},
		},
		{
			Name: "skyway.EstimateBatchGas", Module: "skyway", NeedsValidator: true,
			Build: func(w *ZooWorld, actor *FAAccount, rng *rand.Rand, hostile bool) sdk.Msg {
				h := zooH{rng, hostile}
				nonce, _ := w.OpenBatchFor(actor)
				return &skywaytypes.MsgEstimateBatchGas{Nonce: h.U64(nonce), TokenContract: h.Eth(ZooBridgeERC20), EthSigner: h.Eth(zooEthHex(actor)),
					Estimate: h.U64(300_000 + uint64(rng.Intn(1000))), Metadata: FAMeta(actor.Addr, actor.Addr)}
			},
			IdentityFields: []ZooField{{Name: "EthSigner", ActorTied: true, Kind: "eth", Set: func(msg sdk.Msg, addr string) { msg.(*skywaytypes.MsgEstimateBatchGas).EthSigner = addr }}},
		},
		{
			Name: "skyway.SendToPalomaClaim", Module: "skyway", NeedsValidator: true,
			Build: func(w *ZooWorld, actor *FAAccount, rng *rand.Rand, hostile bool) sdk.Msg {
				h := zooH{rng, hostile}
				n := w.NextSkywayNonce(actor)
				return &skywaytypes.MsgSendToPalomaClaim{EventNonce: h.U64(n), EthBlockHeight: h.U64(1000 + n), TokenContract: h.Eth(ZooBridgeERC20),
					Amount: h.Int(sdkmath.NewInt(1 + int64(rng.Intn(1000)))), EthereumSender: h.Eth("0x00000000000000000000000000000000000000B1"),
					PalomaReceiver: h.Bech(w.FA.User(rng.Intn(4)).Addr.String()), Orchestrator: h.Bech(actor.Addr.String()), ChainReferenceId: h.Str(ZooChain),
					SkywayNonce: h.U64(n), CompassId: h.Str(w.compassID()), Metadata: FAMeta(actor.Addr, actor.Addr)}
			},
			IdentityFields: []ZooField{
				orch(func(msg sdk.Msg, addr string) { msg.(*skywaytypes.MsgSendToPalomaClaim).Orchestrator = addr }),
				{Name: "PalomaReceiver", Kind: "acc", Set: func(msg sdk.Msg, addr string) { msg.(*skywaytypes.MsgSendToPalomaClaim).PalomaReceiver = addr }},
				{Name: "EthereumSender", Kind: "eth", Set: func(msg sdk.Msg, addr string) { msg.(*skywaytypes.MsgSendToPalomaClaim).EthereumSender = addr }},
			},
		},
		{
			Name: "skyway.BatchSendToRemoteClaim", Module: "skyway", NeedsValidator: true,
			Build: func(w *ZooWorld, actor *FAAccount, rng *rand.Rand, hostile bool) sdk.Msg {
				h := zooH{rng, hostile}
				n := w.NextSkywayNonce(actor)
				nonce, _ := w.OpenBatchFor(actor)
				return &skywaytypes.MsgBatchSendToRemoteClaim{EventNonce: h.U64(n), EthBlockHeight: h.U64(1000 + n), BatchNonce: h.U64(nonce),
					TokenContract: h.Eth(ZooBridgeERC20), ChainReferenceId: h.Str(ZooChain), Orchestrator: h.Bech(actor.Addr.String()),
					SkywayNonce: h.U64(n), CompassId: h.Str(w.compassID()), Metadata: FAMeta(actor.Addr, actor.Addr)}
			},
			IdentityFields: []ZooField{orch(func(msg sdk.Msg, addr string) { msg.(*skywaytypes.MsgBatchSendToRemoteClaim).Orchestrator = addr })},
		},
		{
			Name: "skyway.CancelSendToRemote", Module: "skyway",
			Build: func(w *ZooWorld, actor *FAAccount, rng *rand.Rand, hostile bool) sdk.Msg {
				h := zooH{rng, hostile}
				return &skywaytypes.MsgCancelSendToRemote{TransactionId: h.U64(w.PendingTransferOf(actor)), Metadata: FAMeta(actor.Addr, actor.Addr)}
			},
		},
		{
			Name: "skyway.SubmitBadSignatureEvidence", Module: "skyway", Effect: []string{"valset"}, // jails Sacrifice: staking (changes every block) + valset's unjailed snapshot
			Build: func(w *ZooWorld, actor *FAAccount, rng *rand.Rand, hostile bool) sdk.Msg {
				h := zooH{rng, hostile}
				// a batch that never existed, signed with the sacrificial validator's eth key
				batch := &skywaytypes.OutgoingTxBatch{
					BatchNonce: 1_000_000 + uint64(w.next()), BatchTimeout: 1, TokenContract: ZooBridgeERC20, ChainReferenceId: ZooChain,
					Transactions: []skywaytypes.OutgoingTransferTx{{Id: 1, Sender: w.FA.User(0).Addr.String(), DestAddress: "0x00000000000000000000000000000000000000D4",
						Erc20Token: skywaytypes.ERC20Token{Contract: ZooBridgeERC20, Amount: sdkmath.NewInt(1), ChainReferenceId: ZooChain}, BridgeTaxAmount: sdkmath.ZeroInt()}},
					Assignee: w.Sacrifice.ValAddr().String(), AssigneeRemoteAddress: w.Sacrifice.EthAddr.Bytes(),
				}
				sig := ""
				if cp, err := batch.GetCheckpoint(w.compassID()); err == nil {
					if bz, err := skywaytypes.NewEthereumSignature(cp, w.Sacrifice.EthPriv); err == nil {
						sig = hex.EncodeToString(bz)
					}
				} else {
					w.T.Logf("zoo: bad signature evidence checkpoint: %v", err)
				}
				subject, err := codectypes.NewAnyWithValue(batch)
				if err != nil {
					panic(err)
				}
				if hostile && rng.Intn(4) == 0 {
					subject = nil
				}
				return &skywaytypes.MsgSubmitBadSignatureEvidence{Subject: subject, Signature: h.Hex(sig), Sender: h.Bech(actor.Addr.String()),
					ChainReferenceId: h.Str(ZooChain), Metadata: FAMeta(actor.Addr, actor.Addr)}
			},
			IdentityFields: []ZooField{{Name: "Sender", ActorTied: true, Kind: "acc", Set: func(msg sdk.Msg, addr string) { msg.(*skywaytypes.MsgSubmitBadSignatureEvidence).Sender = addr }}},
		},
		{
			Name: "skyway.UpdateParams", Module: "skyway", NeedsAuthority: true, AuthoritySigned: true,
			Build: func(w *ZooWorld, actor *FAAccount, rng *rand.Rand, hostile bool) sdk.Msg {
				p := skywaytypes.DefaultParams()
				return &skywaytypes.MsgUpdateParams{Authority: w.Authority, Params: *p, Metadata: FAMeta(actor.Addr, actor.Addr)}
			},
			NoStateChange:  "the world already runs the default params; any valid params value is accepted",
			IdentityFields: []ZooField{{Name: "Authority", Kind: "acc", Set: func(msg sdk.Msg, addr string) { msg.(*skywaytypes.MsgUpdateParams).Authority = addr }}},
		},
		{
			Name: "skyway.LightNodeSaleClaim", Module: "skyway", NeedsValidator: true,
			Build: func(w *ZooWorld, actor *FAAccount, rng *rand.Rand, hostile bool) sdk.Msg {
				h := zooH{rng, hostile}
				n := w.NextSkywayNonce(actor)
				return &skywaytypes.MsgLightNodeSaleClaim{EventNonce: h.U64(n), EthBlockHeight: h.U64(1000 + n), Orchestrator: h.Bech(actor.Addr.String()),
					ChainReferenceId: h.Str(ZooChain), SkywayNonce: h.U64(n), ClientAddress: h.Bech(w.FreshAccount("sale").Addr.String()),
					Amount: h.Int(sdkmath.NewInt(1 + int64(rng.Intn(50)))), SmartContractAddress: h.Eth(ZooSaleAddr), CompassId: h.Str(w.compassID()),
					Metadata: FAMeta(actor.Addr, actor.Addr)}
			},
			IdentityFields: []ZooField{
				orch(func(msg sdk.Msg, addr string) { msg.(*skywaytypes.MsgLightNodeSaleClaim).Orchestrator = addr }),
				{Name: "ClientAddress", Kind: "acc", Set: func(msg sdk.Msg, addr string) { msg.(*skywaytypes.MsgLightNodeSaleClaim).ClientAddress = addr }},
			},
		},
		{
			Name: "skyway.SetERC20ToTokenDenom", Module: "skyway",
			Build: func(w *ZooWorld, actor *FAAccount, rng *rand.Rand, hostile bool) sdk.Msg {
				h := zooH{rng, hostile}
				return &skywaytypes.MsgSetERC20ToTokenDenom{Denom: h.Str(w.EnsureDenom(actor)), ChainReferenceId: h.Str(ZooChain),
					Erc20: h.Eth(fmt.Sprintf("0x%040x", 0xF000000+w.next())), Metadata: FAMeta(actor.Addr, actor.Addr)}
			},
		},
		{
			Name: "skyway.ReplenishLostGrainsProposal", Module: "skyway", NeedsAuthority: true,
			Build: func(w *ZooWorld, actor *FAAccount, rng *rand.Rand, hostile bool) sdk.Msg {
				return &skywaytypes.MsgReplenishLostGrainsProposal{Metadata: FAMeta(actor.Addr, actor.Addr)}
			},
		},
		{
			Name: "skyway.SetERC20MappingProposal", Module: "skyway", NeedsAuthority: true,
			Build: func(w *ZooWorld, actor *FAAccount, rng *rand.Rand, hostile bool) sdk.Msg {
				h := zooH{rng, hostile}
				return &skywaytypes.MsgSetERC20MappingProposal{Authority: w.Authority, Mappings: []skywaytypes.MsgSetERC20MappingProposal_ERC20ToDenomMapping{
					{ChainReferenceId: h.Str(ZooChain), Erc20: h.Eth(fmt.Sprintf("0x%040x", 0xA000000+w.next())), Denom: h.Str(fmt.Sprintf("zoo/denom%d", w.next()))},
				}, Metadata: FAMeta(actor.Addr, actor.Addr)}
			},
			IdentityFields: []ZooField{{Name: "Authority", Kind: "acc", Set: func(msg sdk.Msg, addr string) { msg.(*skywaytypes.MsgSetERC20MappingProposal).Authority = addr }}},
		},
		{
			Name: "skyway.OverrideNonceProposal", Module: "skyway", NeedsAuthority: true,
			Build: func(w *ZooWorld, actor *FAAccount, rng *rand.Rand, hostile bool) sdk.Msg {
				h := zooH{rng, hostile}
				var last uint64
				w.Read(func(ctx sdk.Context) { last, _ = w.FA.App().SkywayKeeper.GetLastObservedSkywayNonce(ctx, ZooChain) })
				return &skywaytypes.MsgNonceOverrideProposal{ChainReferenceId: h.Str(ZooChain), Nonce: h.U64(last), Metadata: FAMeta(actor.Addr, actor.Addr)}
			},
			NoStateChange: "overriding with the current nonce rewrites the same values (a different nonce would desynchronise the world's validators)",
		},
	}
}

// ZooAll lists every Msg service RPC of the paloma modules (41).
func ZooAll() []ZooMsg {
	var all []ZooMsg
	all = append(all, zooConsensus()...)
	all = append(all, zooEvm()...)
	all = append(all, zooPaloma()...)
	all = append(all, zooScheduler()...)
	all = append(all, zooTokenfactory()...)
	all = append(all, zooTreasuryValset()...)
	all = append(all, zooSkyway()...)
	return all
}

// ZooByName looks a message type up.
func ZooByName(name string) (ZooMsg, bool) {
	for _, m := range ZooAll() {
		if m.Name == name {
			return m, true
		}
	}
	return ZooMsg{}, false
}

// ZooPalomaStores are the KV stores of the paloma modules (plus feegrant, which
// the authorisation decorator reads).
var ZooPalomaStores = []string{"palomaconsensus", "evm", "paloma-store", "scheduler", "skyway", "tokenfactory", "treasury", "valset", "metrix", "feegrant"}

func zooDiffStores(a, b map[string]string) []string {
	var out []string
	for _, s := range FADiffDigests(a, b) {
		out = append(out, s)
	}
	return out
}

func zooResStr(r FATxResult) string {
	switch {
	case r.Panicked && r.BlockErr != "":
		return "BLOCK-PANIC"
	case r.Panicked:
		return "panic(recovered)"
	case r.BlockErr != "":
		return "build-error"
	case r.Code == 0:
		return "ok"
	default:
		return fmt.Sprintf("rej(%s/%d)", r.Codespace, r.Code)
	}
}

// TestZooSmoke: every message type delivered once by its rightful actor must
// succeed and change state; governance-only messages signed by a user must be
// rejected; three hostile variants of every type must not crash the harness.
func TestZooSmoke(t *testing.T) {
	t0 := time.Now()
	w := NewZooWorld(t, 1)
	t.Logf("world ready at height %d in %v", w.FA.Height(), time.Since(t0))
	rng := rand.New(rand.NewSource(7))
	d0 := w.FA.StoreDigest()
	w.FA.NextBlock()
	t.Logf("stores changed by an empty block: %v", zooDiffStores(d0, w.FA.StoreDigest()))

	var rows []string
	fails := 0
	for _, m := range ZooAll() {
		w.Maintain()
		actor := m.RightfulActor(w, rng)
		msg := m.Build(w, actor, rng, false)
		before := w.FA.StoreDigest()
		var r FATxResult
		if m.NeedsAuthority {
			r = w.DeliverGov(msg)
		} else {
			r = w.Deliver(actor, actor, msg)
		}
		changed := zooDiffStores(before, w.FA.StoreDigest())
		modChanged := false
		for _, s := range changed {
			for _, e := range m.EffectStores() {
				if s == e {
					modChanged = true
				}
			}
		}
		status := "ok"
		if !r.OK() {
			status = "FAILED " + zooResStr(r) + " " + r.Log + r.BlockErr
			fails++
		} else if !modChanged && m.NoStateChange == "" {
			status = "NO-STATE-CHANGE"
			fails++
		}
		userVariant := "-"
		if m.NeedsAuthority {
			u := w.FA.User(rng.Intn(4))
			msg2 := m.Build(w, u, rng, false)
			b2 := w.FA.StoreDigest()
			r2 := w.Deliver(u, u, msg2)
			userVariant = zooResStr(r2)
			// (the module store may still change in that block through its end blocker; a
			// rejected transaction's own writes are discarded by baseapp)
			_ = b2
			if r2.OK() {
				userVariant += " ACCEPTED"
				fails++
			}
		}
		var hs []string
		for i := 0; i < 3; i++ {
			hm := m.Build(w, actor, rng, true)
			var hr FATxResult
			if m.NeedsAuthority && i == 0 {
				hr = w.DeliverGov(hm)
			} else {
				hr = w.Deliver(actor, actor, hm)
			}
			hs = append(hs, zooResStr(hr))
			if hr.Panicked && hr.BlockErr != "" {
				t.Logf("%s hostile: block-level failure: %.600s", m.Name, hr.BlockErr)
			}
		}
		var fields []string
		for _, f := range m.IdentityFields {
			fields = append(fields, f.Name+":"+f.Kind)
		}
		rows = append(rows, fmt.Sprintf("%-44s %-9s %-18s gov-as-user=%-22s hostile=%-40s fields=%s",
			m.Name, actor.Name, status, userVariant, strings.Join(hs, ","), strings.Join(fields, ",")))
		if len(status) > 2 {
			t.Logf("%s: %s (changed stores %v)", m.Name, status, changed)
		}
	}
	t.Logf("\n%s", strings.Join(rows, "\n"))
	t.Logf("jailed/unbonded validators at the end: %v (sacrifice = %s); height %d; total %v", w.Jailed(), w.Sacrifice.Name, w.FA.Height(), time.Since(t0))
	if fails > 0 {
		t.Fatalf("%d zoo entries did not behave as documented", fails)
	}
}
