//go:build verif

// Directed C06 histories, C04 at keeper level (TestC04Keeper) and C13 part B (TestC13Prune) on the
// fixture of queue_test.go.
package harness

import (
	"fmt"
	"math/big"
	"os"
	"sort"
	"strings"
	"testing"

	codectypes "github.com/cosmos/cosmos-sdk/codec/types"
	sdk "github.com/cosmos/cosmos-sdk/types"
	"github.com/palomachain/paloma/v2/util/libcons"
	consensuskeeper "github.com/palomachain/paloma/v2/x/consensus/keeper/consensus"
	consensustypes "github.com/palomachain/paloma/v2/x/consensus/types"
	evmtypes "github.com/palomachain/paloma/v2/x/evm/types"
	valsettypes "github.com/palomachain/paloma/v2/x/valset/types"
)

// q06Thorough: the thorough tier affords longer directed histories.
func q06Thorough() bool { return os.Getenv("VERIF_TIER_RUN") == "thorough" }

// q06PlainEnv: every validator in the snapshot with its own account, fee 1.1 and full metrics.
func q06PlainEnv(fx *q06Fix) q06Env {
	e := q06Env{metrics: map[int][4]string{}, fees: map[int]string{}, weights: [5]string{"1.0", "1.0", "1.0", "1.0", "1.0"}, community: "0.03", security: "0.01"}
	for i := 0; i < fx.n; i++ {
		id := fx.valID[i]
		e.vals = append(e.vals, q06SnapVal{id: id, share: 5, accts: []q06Acct{{chain: 0, addr: 4 * (i + 1), raw: 4 * (i + 1)}}})
		e.total += 5
		e.metrics[id] = [4]string{"1", "0.5", "0", "0"}
		e.fees[id] = "1.1"
	}
	return e
}

func (fx *q06Fix) directed(r *Rec, name string, fn func(c *q06Case)) {
	fx.hookCase(func(ctx sdk.Context) {
		if err := fx.writeEnv(ctx, q06PlainEnv(fx)); err != nil {
			fx.t.Fatal(err)
		}
		c := fx.begin(ctx, r)
		c.obs = fx.emitEnv(ctx, r)
		c.syncRegs()
		fn(c)
		r.Case("directed|"+name, true)
		r.Stat("directed." + name)
	})
}

// q06Directed: hand-made histories named in the property's quantifier.
func q06Directed(t *testing.T, r *Rec, fx *q06Fix) {
	// sign before election, election discards, re-sign after; stale signature refused afterwards
	fx.directed(r, "elect_discards", func(c *q06Case) {
		for _, kind := range []string{"s", "u", "v", "o"} {
			id := c.opPut(kind, 1, fx.valID[0], 4, true)
			c.track()
			for i := 0; i < 3; i++ {
				c.opSign(id, i, 4*(i+1), i+1, "c")
				c.track()
			}
			for i := 0; i < fx.n; i++ {
				c.opEst(id, i, 21000+uint64(i%2))
				c.track()
			}
			c.opEndBlock()
			c.track()
			c.opSign(id, 0, 4, 1, "o0") // the pre-election bytes
			c.track()
			c.opSign(id, 0, 4, 1, "c")
			c.track()
			c.opEndBlock() // a second end-block changes nothing
			c.track()
		}
		c.opRelay()
	})
	// key re-registration between signing and election
	fx.directed(r, "rereg_between_sign_and_elect", func(c *q06Case) {
		id := c.opPut("s", 1, fx.valID[1], 8, true)
		c.opSign(id, 0, 4, 1, "c")
		c.track()
		e := fx.n + 1
		c.opReg(0, []q06Acct{{chain: 0, addr: 4 * e, raw: 4 * e}})
		c.track()
		c.opSign(id, 0, 4*e, e, "c") // duplicate validator, new key
		c.track()
		c.opSign(id, 0, 4, 1, "c") // old address is gone
		c.track()
		for i := 0; i < fx.n; i++ {
			c.opEst(id, i, 50000)
		}
		c.opEndBlock()
		c.track()
		c.opSign(id, 0, 4*e, e, "c")
		c.track()
	})
	// REGRESSION GUARD for 23185e9f (was a finding): the collision rule of AddExternalChainInfo compares
	// address strings and key bytes verbatim while the signature check used BytesToAddress(key): validator
	// B registers validator A's account under another spelling and replays A's signature.  Since the
	// repair only the canonical 20-byte key bytes verify: the replay must end in `badsig`.
	fx.directed(r, "alias_key_replay", func(c *q06Case) {
		id := c.opPut("s", 1, fx.valID[2], 12, true)
		c.opSign(id, 0, 4, 1, "c")
		c.track()
		c.opReg(1, []q06Acct{{chain: 0, addr: 4 + 1, raw: 4 + 1}}) // lower-case address, zero-padded key bytes of A's account
		c.track()
		if res := c.opSign(id, 1, 4+1, 1, "c"); res != "badsig" { // byte-identical to A's signature (RFC 6979)
			c.hit("key_once_per_item_account", "alias registration + replayed signature was accepted: "+res)
		}
		c.track()
		// the three-byte-longer and the 32-byte spelling likewise
		c.opReg(3, []q06Acct{{chain: 0, addr: 4 + 2, raw: 4 + 2}})
		c.opSign(id, 3, 4+2, 1, "c")
		c.track()
	})
	// REGRESSION GUARD for db2aad4e (was a finding): confirms were unique per orchestrator only; once A
	// rotates its key, B can register A's former address and replay A's confirmation.  Since the repair
	// the replay must end in `dupkey`.
	fx.directed(r, "batch_key_takeover", func(c *q06Case) {
		n := c.opBatchPut(4 * 3)
		c.track()
		c.opBatchConfirm(n, 0, 4, 1, "c")
		c.track()
		e := fx.n + 2
		c.opReg(0, []q06Acct{{chain: 0, addr: 4 * e, raw: 4 * e}})
		c.opReg(1, []q06Acct{{chain: 0, addr: 4, raw: 4}})
		c.track()
		if res := c.opBatchConfirm(n, 1, 4, 1, "c"); res != "dupkey" {
			c.hit("batch_key_once_per_item", "replayed confirmation of a taken-over key was accepted: "+res)
		}
		c.track()
		c.opBatchGas(n, 21000) // re-issue: all confirms go
		c.track()
		c.opBatchConfirm(n, 1, 4, 1, "o0")
		c.opBatchConfirm(n, 1, 4, 1, "c")
		c.track()
	})
	// batch confirmed before and after the estimate is elected
	fx.directed(r, "batch_confirm_around_election", func(c *q06Case) {
		n := c.opBatchPut(4 * 2)
		for i := 0; i < 3; i++ {
			c.opBatchConfirm(n, i, 4*(i+1), i+1, "c")
			c.track()
		}
		c.opBatchConfirm(n, 0, 4, 1, "c")
		c.opBatchConfirm(n, 3, 4*4+1, 4, "c") // own address in lower case
		c.track()
		c.opBatchGas(n, 300000) // same number as the dummy estimate: bytes unchanged, confirms dropped anyway
		c.track()
		c.opBatchConfirm(n, 0, 4, 1, "c")
		c.opBatchGas(n, 21000) // refused: already set
		c.track()
	})
	// "the key its validator had registered FOR THAT CHAIN": validators hold different keys on sibling
	// chains of the same chain type.  Claiming the sibling chain's address with a (perfectly valid)
	// signature by the sibling chain's key must be refused; so must the replay of another validator's
	// signature by somebody who registered that validator's account on a sibling chain.
	fx.directed(r, "sibling_chain_key", func(c *q06Case) {
		e1, e2 := fx.n+1, fx.n+2
		c.opReg(0, []q06Acct{{chain: 1, addr: 4 * e1, raw: 4 * e1}, {chain: 0, addr: 4, raw: 4}}) // sibling account listed first
		c.opReg(1, []q06Acct{{chain: 0, addr: 8, raw: 8}, {chain: 2, addr: 4 * e2, raw: 4 * e2}})
		c.opReg(2, []q06Acct{{chain: 1, addr: 4 * e2, raw: 4 * e2}})                      // no account on the queue's chain any more
		c.opReg(3, []q06Acct{{chain: 0, addr: 16, raw: 16}, {chain: 1, addr: 4, raw: 4}}) // validator 0's account, on another chain
		for _, kind := range []string{"s", "v"} {
			id := c.opPut(kind, 1, fx.valID[4], 20, true)
			c.track()
			for _, st := range []struct{ val, addr, by int }{
				{0, 4 * e1, e1}, // sibling address, sibling key
				{0, 4 * e1, 1},  // sibling address, proper key
				{0, 4, e1},      // proper address, sibling key
				{1, 4 * e2, e2}, {2, 4 * e2, e2}, {2, 12, 3},
				{3, 4, 1}, // validator 0 has not signed yet: its signature replayed under validator 3's sibling registration
				{0, 4, 1}, {1, 8, 2}, {3, 16, 4},
				{3, 4, 1}, // and once more now that validator 0's signature is stored
			} {
				c.opSign(id, st.val, st.addr, st.by, "c")
				c.track()
			}
		}
		n := c.opBatchPut(4 * 3)
		c.opBatchConfirm(n, 0, 4*e1, e1, "c")
		c.opBatchConfirm(n, 2, 4*e2, e2, "c")
		c.opBatchConfirm(n, 3, 4, 1, "c")
		c.opBatchConfirm(n, 0, 4, 1, "c")
		c.opBatchConfirm(n, 1, 8, 2, "c")
		c.track()
	})
	// every byte form of an otherwise correct signature, before and after the election; what is stored
	// must verify AS STORED (strict recover over the stored bytes), so every form is refused or is one
	// that does
	fx.directed(r, "signature_byte_forms", func(c *q06Case) {
		for k, kind := range []string{"s", "o", "u", "v"} {
			id := c.opPut(kind, 1, fx.valID[0], 4, true)
			c.track()
			for i, w := range q06Wires {
				vi := (i + k) % fx.n
				c.opSignW(id, vi, 4*(vi+1), vi+1, "c", w)
				c.track()
			}
			for i := 0; i < fx.n; i++ {
				c.opEst(id, i, 40000)
			}
			c.opEndBlock()
			c.track()
			for i, w := range q06Wires {
				vi := (i + k + 3) % fx.n
				c.opSignW(id, vi, 4*(vi+1), vi+1, "c", w)
				c.track()
			}
		}
		n := c.opBatchPut(4 * 2)
		for i, w := range q06Wires {
			c.opBatchConfirmW(n, i%fx.n, 4*(i%fx.n+1), i%fx.n+1, "c", w)
			c.track()
		}
		c.opBatchGas(n, 21000)
		for i, w := range q06Wires {
			vi := (i + 2) % fx.n
			c.opBatchConfirmW(n, vi, 4*(vi+1), vi+1, "c", w)
			c.track()
		}
	})
	// Sensitivity of the monitors on REAL code: ReassignOrphanedMessages (no caller on any block
	// path, see C06.md) keeps signatures while it changes the relayer address that is part of the
	// signing bytes.  The resulting hits are counted as a statistic, not as findings.
	fx.directed(r, "reassign_sensitivity", func(c *q06Case) {
		detected := 0
		for try := 0; try < 6 && detected == 0; try++ {
			id := c.opPut("s", 1, fx.valID[try%fx.n], 4*(try%fx.n+1), true)
			c.opSign(id, (try+1)%fx.n, 4*((try+1)%fx.n+1), (try+1)%fx.n+1, "c")
			c.track()
			hits, mons := r.Stats["monitor_hits"], len(r.Monitors)
			ctx := c.ctx.WithBlockTime(c.ctx.BlockTime().Add(7 * 1e9 * 1)) // another second, another top-5 index
			cctx, _ := ctx.CacheContext()
			if err := fx.fa.App().ConsensusKeeper.ReassignOrphanedMessages(cctx, -1); err != nil {
				t.Fatalf("ReassignOrphanedMessages: %v", err)
			}
			saved := c.ctx
			c.ctx = cctx
			c.track()
			c.ctx = saved
			detected += r.Stats["monitor_hits"] - hits
			r.Stats["monitor_hits"] = hits
			r.Monitors = r.Monitors[:mons]
			// forget what track() learned on the throw-away branch
			delete(c.prevBytes, id)
			c.hist[id] = c.hist[id][:1]
			c.track()
		}
		if detected == 0 {
			t.Fatalf("monitors did not notice ReassignOrphanedMessages keeping signatures over a relayer change")
		}
		r.Stats["sensitivity.reassign_hits"] += detected
	})
}

// q14Directed: hand-made C14 situations.
func q14Directed(t *testing.T, r *Rec, fx *q06Fix) {
	electAll := func(c *q06Case, id uint64) {
		for i := 0; i < fx.n; i++ {
			c.opEst(id, i, 21000)
		}
	}
	// the per-sender filter registers a sender before the estimate / assignee tests: an older message
	// of the same sender blocks a younger one for every validator, whoever the older one is assigned to
	fx.directed(r, "sender_before_assignee", func(c *q06Case) {
		a := c.opPut("s", 1, fx.valID[0], 4, true)
		b := c.opPut("s", 1, fx.valID[1], 8, true)
		d := c.opPut("s", 2, fx.valID[1], 8, true)
		e := c.opPut("s", 0, fx.valID[1], 8, true) // empty sender: never blocked by a sender
		for _, id := range []uint64{b, d, e} {
			electAll(c, id)
		}
		c.opEndBlock()
		c.opRelay() // b is elected and assigned to validator 1 but waits for a
		c.opFlag("pub", a, 0)
		c.opRelay() // a reported: b is free
	})
	// never ahead of an older pending validator-set update; the update itself and older messages go out
	fx.directed(r, "valset_blocks_younger", func(c *q06Case) {
		a := c.opPut("s", 1, fx.valID[0], 4, false)
		v := c.opPut("v", 0, fx.valID[1], 8, false)
		b := c.opPut("u", 2, fx.valID[0], 4, false)
		c.opRelay()
		c.opFlag("pub", v, 1) // delivered but not yet attested: still blocks
		c.opRelay()
		c.opRemove(v)
		c.opRelay()
		_, _ = a, b
	})
	// a validator-set update DEEP in the queue: behind a backlog longer than any page of any query (messages
	// waiting for other relayers, for their estimate, or ready for a busy relayer).  Whatever its position, it
	// holds back every younger message, and the relay answers are cut only AFTER filtering.
	fx.directed(r, "valset_behind_backlog", func(c *q06Case) {
		back := 1001 + r.Rng.Intn(150)
		if q06Thorough() {
			back = 2100 + r.Rng.Intn(500)
		}
		ready := back * (3 + r.Rng.Intn(6)) / 10 // ready for validator 2
		if r.Rng.Intn(3) == 0 {                  // more ready messages than one answer holds
			ready = 1000 + r.Rng.Intn(30)
			back = ready + 50 + r.Rng.Intn(100)
		}
		c.opPutN(ready, "o", 0, fx.valID[2], 12, false)
		c.opPutN(back-ready-1, "s", 0, fx.valID[3], 16, true) // waiting for an estimate
		c.opPut("u", 1, fx.valID[0], 4, false)
		v := c.opPut("v", 0, fx.valID[1], 8, false) // position back+1
		y0 := c.opPut("s", 2, fx.valID[0], 4, false)
		c.opPut("o", 0, fx.valID[2], 12, false)
		c.opPut("v", 0, fx.valID[1], 8, false) // a second, younger update
		c.opPut("u", 3, fx.valID[4], 20, false)
		c.track()
		c.opRelay()           // validator 0: only the old upload; validator 1: the first update; 2: the ready backlog; 4: nothing
		c.opFlag("pub", v, 1) // delivered, not yet attested: still blocks
		c.opRelay()
		c.opRemove(v) // now the second update is the barrier
		c.opRelay()
		_ = y0
		c.track()
	})
	// the same with a short queue and the update at every position
	fx.directed(r, "valset_at_every_position", func(c *q06Case) {
		for pos := 0; pos < 4; pos++ {
			var v uint64
			for k := 0; k < 5; k++ {
				if k == pos {
					v = c.opPut("v", 0, fx.valID[1], 8, false)
				}
				c.opPut([]string{"s", "o", "u"}[k%3], 1+k%3, fx.valID[k%2], 4*(k%2+1), false)
			}
			c.opRelay()
			c.opRemove(v)
			c.opRelay()
			for _, id := range append([]uint64(nil), c.ids...) {
				if c.msg(id) != nil {
					c.opRemove(id)
				}
			}
		}
	})
	// REGRESSION GUARD for be3dcb4f (was a finding): the per-sender filter only looked at SubmitLogicCall;
	// UploadUserSmartContract messages carry the same fee-paying sender address and were all offered at
	// once, and did not hold back a SubmitLogicCall of the same sender either
	fx.directed(r, "uusc_same_sender", func(c *q06Case) {
		a := c.opPut("u", 1, fx.valID[0], 4, false)
		b := c.opPut("u", 1, fx.valID[0], 4, false)
		d := c.opPut("s", 1, fx.valID[0], 4, false)
		c.opRelay() // only a
		c.opFlag("err", a, 1)
		c.opRelay() // a reported: b
		c.opRemove(b)
		c.opRelay() // d
		_ = d
	})
	// scores that differ only in the last (18th) decimal through banker's rounding of 2/3 decide the
	// rank: A = round(2/3) = 0.666666666666666667 beats B = 0.666666666666666666, although B's address
	// sorts first
	fx.hookCase(func(ctx sdk.Context) {
		e := q06PlainEnv(fx)
		ids := []int{fx.valID[0], fx.valID[1], fx.valID[2], fx.valID[3]}
		sort.Ints(ids)
		bID, aID, xID, yID := ids[0], ids[1], ids[2], ids[3]
		for i := 0; i < fx.n; i++ {
			id := fx.valID[i]
			if id != aID && id != bID && id != xID && id != yID {
				delete(e.metrics, id)
			}
		}
		e.metrics[xID] = [4]string{"0", "0", "0", "0"}
		e.metrics[yID] = [4]string{"3", "1", "0", "0"}
		e.metrics[aID] = [4]string{"2", "0", "0", "0"}
		e.metrics[bID] = [4]string{"0", "0.666666666666666666", "0", "0"}
		if err := fx.writeEnv(ctx, e); err != nil {
			t.Fatal(err)
		}
		c := fx.begin(ctx, r)
		c.obs = fx.emitEnv(ctx, r)
		c.syncRegs()
		for ts := int64(0); ts < 4; ts++ {
			c.opPick(false, ts)
		}
		got := c.log[len(c.log)-3]
		if !strings.HasPrefix(got, "pick 0 1 => "+fmt.Sprint(aID)+" ") {
			t.Fatalf("rounding case: expected validator %d at rank 1, log %q", aID, got)
		}
		r.Case("directed|rounding_decides_rank", true)
		r.Stat("directed.rounding_decides_rank")
	})
}

// ---------------------------------------------------------------------------
// C04 at keeper level
// ---------------------------------------------------------------------------

func q06IntPairs(ps [][2]string) string {
	if len(ps) == 0 {
		return "-"
	}
	s := make([]string, len(ps))
	for i, p := range ps {
		s[i] = p[0] + ":" + p[1]
	}
	return strings.Join(s, ",")
}

func (c *q06Case) evPairs(id uint64) [][2]string {
	m := c.msg(id)
	var out [][2]string
	if m == nil {
		return out
	}
	for _, e := range m.GetEvidence() {
		out = append(out, [2]string{fmt.Sprint(c.fx.idOfValAddr(e.ValAddress)), fmt.Sprint(c.hashID(e.Proof))})
	}
	return out
}

func (c *q06Case) estPairs(id uint64) [][2]string {
	m := c.msg(id)
	var out [][2]string
	if m == nil {
		return out
	}
	for _, e := range m.GetGasEstimates() {
		out = append(out, [2]string{fmt.Sprint(c.fx.idOfValAddr(e.ValAddress)), fmt.Sprint(e.Value)})
	}
	return out
}

func (c *q06Case) snapPairs() string {
	var ps [][2]string
	for _, v := range c.obs.vals {
		ps = append(ps, [2]string{fmt.Sprint(v.id), c.obs.shares[v.id].String()})
	}
	return q06IntPairs(ps)
}

func (fx *q06Fix) realQueue() consensuskeeper.Queue {
	opts, err := fx.fa.App().EvmKeeper.SupportedQueues(fx.fa.CtxCached())
	if err != nil {
		fx.t.Fatal(err)
	}
	for _, o := range opts {
		if o.QueueTypeName == fx.queue {
			qo := o.QueueOptions
			ck := fx.fa.App().ConsensusKeeper
			qo.Sg = ck
			qo.Cdc = fx.cdc
			q, err := consensuskeeper.NewQueue(qo)
			if err != nil {
				fx.t.Fatal(err)
			}
			return q
		}
	}
	fx.t.Fatal("queue options not found")
	return consensuskeeper.Queue{}
}

// TestC04Keeper drives AddMessageEvidence / AddMessageGasEstimates / SetElectedGasEstimate and the
// two end-block processors on stored queue messages and a stored snapshot, and replays every step
// on the C04 model ops (`addev`, `addest`, `setelected`, `gas`, `evidence`).
func TestC04Keeper(t *testing.T) {
	r := NewRec(t, "C04K")
	r.prefix = "C04"
	defer r.Close()
	fx := q06NewFix(t, 6)
	q := fx.realQueue()
	for i := 0; i < r.N; i++ {
		fx.hookCase(func(ctx sdk.Context) {
			env := r.q06GenEnv(fx, fx.n)
			if err := fx.writeEnv(ctx, env); err != nil {
				t.Fatal(err)
			}
			c := &q06Case{fx: fx, r: r, ctx: ctx, hist: map[uint64][]string{}, bhist: map[uint64][]string{}, keyAtSign: map[string][]byte{},
				prevSigs: map[uint64]map[string]bool{}, prevBytes: map[uint64]string{}, mevOf: map[uint64]bool{}}
			for _, m := range c.msgs() {
				_ = fx.fa.App().ConsensusKeeper.DeleteJob(ctx, fx.queue, m.GetId())
			}
			c.obs = fx.readObs(ctx)
			total := c.obs.total.String()
			vals := c.snapPairs()
			k := fx.fa.App().ConsensusKeeper

			// ---- gas estimates on a message that is not a fee payer (isolates the quorum rule) ----
			mo, _ := c.action("o", 1, 0, false)
			mo.Assignee, mo.AssigneeRemoteAddress = fx.fa.ValAddr(0).String(), fx.addrStr[4]
			gid, err := k.PutMessageInQueue(ctx, fx.queue, mo, &consensuskeeper.PutOptions{RequireGasEstimation: true, RequireSignatures: true})
			if err != nil {
				t.Fatal(err)
			}
			steps := 1 + r.Rng.Intn(2*fx.n)
			for j := 0; j < steps; j++ {
				vi := r.Rng.Intn(fx.n)
				v := fx.fa.Vals[vi]
				val := uint64(1 + r.Rng.Intn(5))
				if r.Rng.Intn(3) == 0 {
					val = r.U64()
					if val == 0 {
						val = 1
					}
				}
				before := q06IntPairs(c.estPairs(gid))
				err := c.route(&consensustypes.MsgAddMessageGasEstimates{Metadata: FAMeta(v.Addr, v.Addr), Estimates: []*consensustypes.MsgAddMessageGasEstimates_GasEstimate{
					{MsgId: gid, QueueTypeName: fx.queue, Value: val, EstimatedByAddress: v.EthAddr.Hex()}}})
				out := q06IntPairs(c.estPairs(gid))
				if err != nil {
					out = "refused"
					r.Stat("addest.refused")
				} else {
					r.Stat("addest.ok")
				}
				seen := map[string]bool{}
				for _, p := range c.estPairs(gid) {
					if seen[p[0]] {
						r.Hit("one_estimate_per_validator", "validator has two estimates", map[string]string{"before": before, "add": fmt.Sprintf("%d:%d", fx.valID[vi], val)})
					}
					seen[p[0]] = true
				}
				r.Op(fmt.Sprintf("addest %s %d:%d", before, fx.valID[vi], val), out)
			}
			ests := c.estPairs(gid)
			if err := k.CheckAndProcessEstimatedMessages(ctx); err != nil {
				t.Fatal(err)
			}
			elected := c.msg(gid).GetGasEstimate()
			out := "notachieved"
			if elected != 0 {
				out = fmt.Sprintf("elected %d", elected)
				r.Stat("gas.elected")
				// 2/3 of the snapshot shares submitted
				sum := new(big.Int)
				for _, p := range ests {
					var id int
					fmt.Sscan(p[0], &id)
					if s, ok := c.obs.shares[id]; ok {
						sum.Add(sum, s)
					}
				}
				if new(big.Int).Mul(sum, bi(3)).Cmp(new(big.Int).Mul(c.obs.total, bi(2))) < 0 {
					r.Hit("estimate_needs_two_thirds", fmt.Sprintf("elected with %s of %s", sum, total), map[string]string{"total": total, "vals": vals, "estimates": q06IntPairs(ests)})
				}
			} else {
				r.Stat("gas.notachieved")
			}
			r.Op(fmt.Sprintf("gas %s %s %s", total, vals, q06IntPairs(ests)), out)
			// SetElectedGasEstimate refuses to overwrite
			for j := 0; j < 2; j++ {
				cur := c.msg(gid).GetGasEstimate()
				nv := uint64(1 + r.Rng.Intn(100000))
				err := q.SetElectedGasEstimate(ctx, gid, nv)
				now := c.msg(gid).GetGasEstimate()
				o := fmt.Sprintf("set %d", now)
				if err != nil {
					o = "refused"
					if now != cur {
						r.Hit("elected_immutable", "refused but changed", map[string]string{"cur": fmt.Sprint(cur), "new": fmt.Sprint(nv)})
					}
				} else if cur != 0 {
					r.Hit("elected_immutable", "elected estimate overwritten", map[string]string{"cur": fmt.Sprint(cur), "new": fmt.Sprint(nv)})
				}
				r.Stat("setelected." + strings.SplitN(o, " ", 2)[0])
				r.Op(fmt.Sprintf("setelected %d %d", cur, nv), o)
			}

			// ---- evidence on a SubmitLogicCall that exhausted its retries ----
			ms, _ := c.action("s", 2, 1, false)
			ms.Assignee, ms.AssigneeRemoteAddress = fx.fa.ValAddr(0).String(), fx.addrStr[4]
			eid, err := k.PutMessageInQueue(ctx, fx.queue, ms, &consensuskeeper.PutOptions{RequireGasEstimation: true, RequireSignatures: true})
			if err != nil {
				t.Fatal(err)
			}
			nh := 1 + r.Rng.Intn(3)
			steps = 1 + r.Rng.Intn(2*fx.n)
			for j := 0; j < steps; j++ {
				vi := r.Rng.Intn(fx.n)
				v := fx.fa.Vals[vi]
				h := 1 + r.Rng.Intn(nh)
				before := q06IntPairs(c.evPairs(eid))
				any, _ := codectypes.NewAnyWithValue(&evmtypes.SmartContractExecutionErrorProof{ErrorMessage: fmt.Sprintf("h%d", h)})
				if err := c.route(&consensustypes.MsgAddEvidence{Proof: any, MessageID: eid, QueueTypeName: fx.queue, Metadata: FAMeta(v.Addr, v.Addr)}); err != nil {
					t.Fatalf("add evidence: %v", err)
				}
				seen := map[string]bool{}
				for _, p := range c.evPairs(eid) {
					if seen[p[0]] {
						r.Hit("addEvidence_unique", "validator appears twice", map[string]string{"before": before, "add": fmt.Sprintf("%d:%d", fx.valID[vi], h)})
					}
					seen[p[0]] = true
				}
				r.Op(fmt.Sprintf("addev %s %d:%d", before, fx.valID[vi], h), q06IntPairs(c.evPairs(eid)))
				r.Stat("addev")
			}
			evs := c.evPairs(eid)
			ectx := ctx.WithEventManager(sdk.NewEventManager())
			if err := k.CheckAndProcessAttestedMessages(ectx); err != nil {
				t.Fatalf("CheckAndProcessAttestedMessages: %v", err)
			}
			out, hint := "notachieved", "-"
			if c.msg(eid) == nil {
				w := "?"
				for _, ev := range ectx.EventManager().Events() {
					isFail := false
					for _, a := range ev.Attributes {
						if a.Key == sdk.AttributeKeyAction && a.Value == evmtypes.SmartContractExecutionFailedKey {
							isFail = true
						}
					}
					if !isFail {
						continue
					}
					for _, a := range ev.Attributes {
						if a.Key == string(evmtypes.SmartContractExecutionFailedError) {
							w = strings.TrimPrefix(a.Value, "h")
						}
					}
				}
				out, hint = "winner "+w, w
				r.Stat("evidence.winner")
				sum := new(big.Int)
				for _, p := range evs {
					var id int
					fmt.Sscan(p[0], &id)
					if s, ok := c.obs.shares[id]; ok && p[1] == w {
						sum.Add(sum, s)
					}
				}
				if new(big.Int).Mul(sum, bi(3)).Cmp(new(big.Int).Mul(c.obs.total, bi(2))) < 0 {
					r.Hit("winner_has_two_thirds", fmt.Sprintf("winner %s has %s of %s", w, sum, total), map[string]string{"total": total, "vals": vals, "evidence": q06IntPairs(evs)})
				}
			} else {
				r.Stat("evidence.notachieved")
			}
			r.Op(fmt.Sprintf("evidence %s %s %s %s", total, vals, q06IntPairs(evs), hint), out)
			r.Case(fmt.Sprintf("c04k|%d|%s|%s", i, q06IntPairs(ests), q06IntPairs(evs)), len(ests) > 0 || len(evs) > 0)
		})
	}
}

// readObs reads the environment like emitEnv but without talking to the model.
func (fx *q06Fix) readObs(ctx sdk.Context) *q06Obs {
	o := &q06Obs{shares: map[int]*big.Int{}, metrics: map[int]bool{}}
	snap, err := fx.fa.App().ValsetKeeper.GetCurrentSnapshot(ctx)
	if err != nil || snap == nil {
		fx.t.Fatalf("snapshot: %v", err)
	}
	o.total = snap.TotalShares.BigInt()
	for _, v := range snap.Validators {
		sv := q06SnapVal{id: fx.idOfValAddr(v.Address)}
		o.vals = append(o.vals, sv)
		o.shares[sv.id] = v.ShareCount.BigInt()
	}
	return o
}

// ---------------------------------------------------------------------------
// C13 part B: prune-time jailing
// ---------------------------------------------------------------------------

// TestC13Prune prunes a message through PruneJob with various evidence distributions over various
// snapshots and compares the set of validators the real valset/staking keepers jailed with
// `pruneJail`.  All validators have equal stake (10 of them, at most 8 in the snapshot), so that
// valset.Jail's own protections (> 25 % of the power, last validator) never refuse.
func TestC13Prune(t *testing.T) {
	r := NewRec(t, "C13B")
	defer r.Close()
	fx := q06NewFix(t, 10)
	k := fx.fa.App().ConsensusKeeper
	cc := libcons.New(fx.fa.App().ValsetKeeper.GetCurrentSnapshot, fx.cdc)
	for i := 0; i < r.N; i++ {
		fx.hookCase(func(ctx sdk.Context) {
			env := r.q06GenEnv(fx, 8)
			// keep to bonded validators: valset.Jail cannot jail an address staking does not know
			kept := env.vals[:0]
			env.total = 0
			for _, v := range env.vals {
				if _, ok := fx.idVal[v.id]; ok {
					kept = append(kept, v)
					env.total += v.share
				}
			}
			env.vals = kept
			switch r.Rng.Intn(5) { // totals that put the 10 % floor within reach
			case 0:
				env.total *= 10
			case 1:
				env.total = env.total*10 + int64(r.Rng.Intn(3)) - 1
			case 2:
				env.total *= int64(2 + r.Rng.Intn(8))
			}
			if env.total < 0 {
				env.total = 0
			}
			if err := fx.writeEnv(ctx, env); err != nil {
				t.Fatal(err)
			}
			c := &q06Case{fx: fx, r: r, ctx: ctx, hist: map[uint64][]string{}, bhist: map[uint64][]string{}, keyAtSign: map[string][]byte{},
				prevSigs: map[uint64]map[string]bool{}, prevBytes: map[uint64]string{}, mevOf: map[uint64]bool{}}
			c.obs = fx.readObs(ctx)
			ms, _ := c.action("s", 1, 1, false)
			ms.Assignee, ms.AssigneeRemoteAddress = fx.fa.ValAddr(0).String(), fx.addrStr[4]
			id, err := k.PutMessageInQueue(ctx, fx.queue, ms, &consensuskeeper.PutOptions{RequireGasEstimation: true, RequireSignatures: true})
			if err != nil {
				t.Fatal(err)
			}
			delivered := r.Rng.Intn(8) != 0
			if delivered {
				v := fx.fa.Vals[0]
				var m sdk.Msg = &consensustypes.MsgSetPublicAccessData{MessageID: id, QueueTypeName: fx.queue, Data: []byte{1}, ValsetID: 1, Metadata: FAMeta(v.Addr, v.Addr)}
				if r.Rng.Intn(2) == 0 {
					m = &consensustypes.MsgSetErrorData{MessageID: id, QueueTypeName: fx.queue, Data: []byte{1}, Metadata: FAMeta(v.Addr, v.Addr)}
				}
				if err := c.route(m); err != nil {
					t.Fatal(err)
				}
			}
			// evidence HISTORY: suppliers in any order, every supplier its own proof (no consensus possible) or
			// a few shared ones; then, often, some of them submit again (retry with the same proof, or another
			// proof) — the first, a middle or the last supplier, once or several times, in between the others
			distinct := r.Rng.Intn(3) != 0
			p := []int{0, 1, 2, 3, 5, 8}[r.Rng.Intn(6)]
			type q13Sub struct{ vi, h int }
			var plan []q13Sub
			for _, vi := range r.Rng.Perm(fx.n) {
				if r.Rng.Intn(10) >= p {
					continue
				}
				h := 100 + vi
				if !distinct {
					h = 1 + r.Rng.Intn(2)
				}
				plan = append(plan, q13Sub{vi, h})
			}
			if len(plan) > 0 && r.Rng.Intn(5) < 3 {
				for k := 1 + r.Rng.Intn(3); k > 0; k-- {
					again := plan[r.Rng.Intn(len(plan))]
					switch r.Rng.Intn(3) {
					case 0:
						again = plan[0] // the earliest supplier
					case 1:
						again.h = 200 + again.vi + 50*r.Rng.Intn(2) // an updated proof
					}
					at := len(plan) // mostly after everybody else
					if r.Rng.Intn(3) == 0 {
						at = 1 + r.Rng.Intn(len(plan))
					}
					plan = append(plan[:at], append([]q13Sub{again}, plan[at:]...)...)
					r.Stat("prune.resubmission")
				}
			}
			var hist [][2]string // accepted submissions, oldest first: (validator id, proof)
			for _, sb := range plan {
				v := fx.fa.Vals[sb.vi]
				any, _ := codectypes.NewAnyWithValue(&evmtypes.SmartContractExecutionErrorProof{ErrorMessage: fmt.Sprintf("h%d", sb.h)})
				if err := c.route(&consensustypes.MsgAddEvidence{Proof: any, MessageID: id, QueueTypeName: fx.queue, Metadata: FAMeta(v.Addr, v.Addr)}); err != nil {
					t.Fatal(err)
				}
				hist = append(hist, [2]string{fmt.Sprint(fx.valID[sb.vi]), fmt.Sprint(sb.h)})
			}
			// valset rotation between the submissions and the pruning: a new snapshot (other members, other shares)
			// becomes current, so that suppliers who were outside the snapshot when they attested are inside it at
			// prune time (and the other way round); the property is about what the validators DID
			if r.Rng.Intn(3) == 0 {
				env2 := r.q06GenEnv(fx, 8)
				kept2 := env2.vals[:0]
				env2.total = 0
				for _, v := range env2.vals {
					if _, ok := fx.idVal[v.id]; ok {
						kept2 = append(kept2, v)
						env2.total += v.share
					}
				}
				env2.vals = kept2
				if r.Rng.Intn(2) == 0 {
					env2.total *= int64(2 + r.Rng.Intn(8))
				}
				if err := fx.writeEnv(ctx, env2); err != nil {
					t.Fatal(err)
				}
				c.obs = fx.readObs(ctx)
				r.Stat("prune.rotated_snapshot")
			}
			evs := c.evPairs(id)
			jailedBefore := map[int]bool{}
			for vi := 0; vi < fx.n; vi++ {
				if j, _ := fx.fa.App().ValsetKeeper.IsJailed(ctx, fx.fa.ValAddr(vi)); j {
					jailedBefore[vi] = true
				}
			}
			if err := k.PruneJob(ctx, fx.queue, id); err != nil {
				t.Fatalf("PruneJob: %v", err)
			}
			var jailed []int
			for vi := 0; vi < fx.n; vi++ {
				if j, _ := fx.fa.App().ValsetKeeper.IsJailed(ctx, fx.fa.ValAddr(vi)); j && !jailedBefore[vi] {
					jailed = append(jailed, fx.valID[vi])
				}
			}
			sort.Ints(jailed)
			js := make([]uint64, len(jailed))
			for j, x := range jailed {
				js[j] = uint64(x)
			}
			// property, evaluated directly on what the validators DID (the accepted submissions), not on what the
			// message happens to hold: no supplier is jailed, only snapshot validators are, nobody below 10 %
			votes := new(big.Int)
			supplied := map[int]bool{}
			for _, e := range hist {
				var vid int
				fmt.Sscan(e[0], &vid)
				if supplied[vid] {
					continue
				}
				supplied[vid] = true
				if s, ok := c.obs.shares[vid]; ok {
					votes.Add(votes, s)
				}
			}
			input := map[string]string{"total": c.obs.total.String(), "vals": c.snapPairs(), "submissions": q06IntPairs(hist), "stored_evidence": q06IntPairs(evs), "delivered": q06B(delivered)}
			for _, j := range jailed {
				if supplied[j] {
					r.Hit("prune_spares_attesters", fmt.Sprintf("validator %d supplied evidence and was jailed", j), input)
				}
				if _, ok := c.obs.shares[j]; !ok {
					r.Hit("prune_only_snapshot", fmt.Sprintf("validator %d is not in the snapshot and was jailed", j), input)
				}
			}
			if len(jailed) > 0 && new(big.Int).Mul(votes, bi(10)).Cmp(c.obs.total) < 0 {
				r.Hit("prune_floor", fmt.Sprintf("jailed although only %s of %s attested", votes, c.obs.total), input)
			}
			if len(jailed) > 0 && !delivered {
				r.Hit("prune_undelivered", "jailed for a message without delivery report", input)
			}
			_, verr := cc.VerifyEvidence(ctx, q06LibEvidence(c, id, evs))
			switch {
			case !delivered:
				r.Stat("prune.undelivered")
			case len(hist) == 0:
				r.Stat("prune.noevidence")
			case len(jailed) == 0:
				r.Stat("prune.nobody")
			default:
				r.Stat("prune.jailed")
			}
			_ = verr
			r.Op(fmt.Sprintf("prune %s %s %s %s", q06B(delivered), c.obs.total, c.snapPairs(), q06IntPairs(hist)), u64List(js))
			r.Case(fmt.Sprintf("prune|%d|%s|%s", i, c.snapPairs(), q06IntPairs(hist)), len(hist) > 0)
		})
	}
	// whole message lives: reports in any order, evidence in between, estimates, election, signatures, other
	// messages, rotation at any point (c13_prune_hist_test.go)
	c13PruneLives(t, r, fx, r.N/2)
}

func q06LibEvidence(c *q06Case, id uint64, evs [][2]string) []libcons.Evidence {
	var out []libcons.Evidence
	for _, e := range evs {
		var vid, h int
		fmt.Sscan(e[0], &vid)
		fmt.Sscan(e[1], &h)
		any, _ := codectypes.NewAnyWithValue(&evmtypes.SmartContractExecutionErrorProof{ErrorMessage: fmt.Sprintf("h%d", h)})
		out = append(out, &consensustypes.Evidence{ValAddress: c.fx.valAddrOfID(vid), Proof: any})
	}
	return out
}

var _ = valsettypes.PIGEON_TRAIT_MEV
